package main

import (
	"strings"

	"github.com/mmcloughlin/avo/operand"
	"github.com/mmcloughlin/avo/reg"
)

// ---------------------------------------------------------------------------
// Systematically derived near misses (shared by C05 and C06).
//
// For EVERY operand type a fixed catalogue of one-attribute changes of a member
// of the class: for memory operands base absent / narrower / of another register
// kind, index absent / general purpose / vector of each width / opmask / pseudo /
// SP, scale outside {1,2,4,8}, symbol toggled, displacement beyond 32 bits, not a
// memory operand at all; for registers every other width and kind (and, for the
// fixed registers, the other views of the same register and its same-width
// neighbours); for constants every other constant type with a value that fits,
// the next value outside the range, a relative offset or a register instead; for
// branch targets the values just outside the 8-bit range and operands of another
// shape.
//
// The catalogue says only HOW an operand is changed, never what the verdict is:
// whether the changed operand is still in the class is decided by the Lean model
// of the predicate (`opclass` / `class` lines, exact) and, when a constructor
// accepts it, by the assembler oracle.  The one static decision made here is the
// routing of C05 (c05DeriveRoute): kinds that stay inside the class by design and
// already have a dedicated assembler-level stream (malformed:*, shape:*) are
// compared at predicate level only.
// ---------------------------------------------------------------------------

// c05RegSrc supplies the registers a derived operand is made of.
type c05RegSrc struct {
	gp   func(size uint) reg.Register // general purpose register of 1 (low byte), 2, 4 or 8 bytes
	gp8h func() reg.Register          // AH, CH, DH or BH
	vec  func(size uint) reg.Register // vector register of 16, 32 or 64 bytes
	k    func() reg.Register          // opmask register
}

type c05Mutant struct {
	what string
	op   operand.Op
}

// c05Family groups the operand types by the attributes their members have.
func c05Family(t string) string {
	switch t {
	case "m", "m8", "m16", "m32", "m64", "m128", "m256", "m512":
		return "m"
	case "vm32x", "vm32y", "vm32z", "vm64x", "vm64y", "vm64z":
		return "vm"
	case "r8", "r16", "r32", "r64":
		return "gp"
	case "xmm", "ymm", "zmm":
		return "vec"
	case "k":
		return "k"
	case "al", "cl", "ax", "eax", "rax", "xmm0":
		return "fixed"
	case "imm8", "imm16", "imm32", "imm64":
		return "imm"
	case "1", "3", "imm2u":
		return "const"
	case "rel8", "rel32":
		return "rel"
	}
	return ""
}

var (
	c05MemKinds = []string{"no-base", "base-gp32", "base-gp16", "base-gp8", "base-xmm", "base-k", "base-pseudo",
		"no-index", "index-gp64", "index-gp32", "index-gp16", "index-xmm", "index-ymm", "index-zmm", "index-k", "index-pseudo", "index-rsp",
		"scale-0", "scale-3", "sym-toggle", "disp-wide", "not-mem-reg", "not-mem-imm"}
	c05RegKinds   = []string{"gp8", "gp8h", "gp16", "gp32", "gp64", "xmm", "ymm", "zmm", "k", "pseudo", "not-reg-mem", "not-reg-imm"}
	c05FixedKinds = []string{"sibling", "view8", "view8h", "view16", "view32", "view64", "view-ymm", "view-zmm"}
	c05ImmKinds   = []string{"ty-u8", "ty-i8", "ty-u16", "ty-i16", "ty-u32", "ty-i32", "ty-u64", "ty-i64", "over", "under", "not-imm-rel", "not-imm-reg"}
	c05ConstKinds = []string{"val-below", "val-above", "val-max", "ty-i8", "ty-u16", "ty-u32", "not-imm-reg"}
	c05RelKinds   = []string{"over", "under", "label", "not-rel-imm8", "not-rel-imm32", "not-rel-reg", "not-rel-mem"}
)

// c05VecWidth is the index width of a vm type and the register width of a vector type.
func c05VecWidth(t string) uint {
	switch t[len(t)-1] {
	case 'x':
		return 16
	case 'y':
		return 32
	case 'z':
		return 64
	}
	switch t {
	case "xmm", "xmm0":
		return 16
	case "ymm":
		return 32
	case "zmm":
		return 64
	}
	return 0
}

// c05DeriveKinds is the static catalogue of type t.
func c05DeriveKinds(t string) []string {
	var out []string
	skip := func(ks []string, drop ...string) {
	next:
		for _, k := range ks {
			for _, d := range drop {
				if k == d {
					continue next
				}
			}
			out = append(out, k)
		}
	}
	switch c05Family(t) {
	case "m", "vm":
		skip(c05MemKinds)
	case "gp":
		own := map[string][]string{"r8": {"gp8", "gp8h"}, "r16": {"gp16"}, "r32": {"gp32"}, "r64": {"gp64"}}[t]
		skip(c05RegKinds, own...)
	case "vec":
		skip(c05RegKinds, t)
	case "k":
		skip(c05RegKinds, "k")
	case "fixed":
		own := map[string]string{"al": "view8", "cl": "view8", "ax": "view16", "eax": "view32", "rax": "view64", "xmm0": ""}[t]
		if t == "xmm0" {
			skip(c05FixedKinds, "view8", "view8h", "view16", "view32", "view64")
		} else {
			skip(c05FixedKinds, own, "view-ymm", "view-zmm")
		}
		skip([]string{"k", "pseudo", "not-reg-mem", "not-reg-imm"})
		if t == "xmm0" {
			skip([]string{"gp64"})
		} else {
			skip([]string{"xmm"})
		}
	case "imm":
		own := map[string][]string{"imm8": {"ty-u8", "ty-i8"}, "imm16": {"ty-u16", "ty-i16"}, "imm32": {"ty-u32", "ty-i32"}, "imm64": {"ty-u64", "ty-i64", "over", "under"}}[t]
		skip(c05ImmKinds, own...)
	case "const":
		if t == "imm2u" {
			skip(c05ConstKinds, "val-below")
		} else {
			skip(c05ConstKinds)
		}
	case "rel":
		if t == "rel32" {
			skip(c05RelKinds, "over", "under", "label")
		} else {
			skip(c05RelKinds)
		}
	}
	return out
}

// c05DeriveRoute: "asm" = the changed operand list goes through the constructor and, when accepted, the assembler
// oracle (stream nearmiss:<kind>); "pred" = compared at predicate level only (inside the class by design, the
// assembler-level behaviour is the subject of the streams malformed:* / shape:* and their findings).
func c05DeriveRoute(t, kind string) string {
	switch c05Family(t) {
	case "m":
		switch kind {
		case "base-gp32", "base-gp16", "base-gp8", "base-pseudo", "index-gp32", "index-gp16", "index-pseudo", "index-rsp",
			"scale-0", "scale-3", "sym-toggle", "disp-wide":
			return "pred"
		}
	case "vm":
		switch kind {
		case "scale-0", "scale-3", "sym-toggle", "disp-wide":
			return "pred"
		}
	}
	return "asm"
}

// c05FullMem is a member of the memory class t with every attribute present: 64-bit base, index, scale, displacement.
func c05FullMem(t string, src *c05RegSrc) operand.Mem {
	m := operand.Mem{Base: src.gp(8), Scale: 4, Disp: 64}
	if c05Family(t) == "vm" {
		m.Index = src.vec(c05VecWidth(t))
		return m
	}
	m.Index = src.gp(8)
	for m.Index == reg.RSP {
		m.Index = src.gp(8)
	}
	return m
}

func c05IsFullMem(t string, op operand.Op) bool {
	m, ok := op.(operand.Mem)
	if !ok || m.Base == nil || m.Index == nil || m.Base.Kind() != reg.KindGP || m.Base.Size() != 8 || m.Symbol.Name != "" {
		return false
	}
	if c05Family(t) == "vm" {
		return m.Index.Kind() == reg.KindVector && m.Index.Size() == c05VecWidth(t)
	}
	return m.Index.Kind() == reg.KindGP && m.Index.Size() == 8 && m.Index != reg.RSP
}

// c05PhysView returns the physical register of the given kind and index whose size is `size` (high selects AH..BH).
func c05PhysView(kind reg.Kind, idx int, size uint, high bool) reg.Register {
	for _, f := range reg.Families {
		if f.Kind != kind {
			continue
		}
		for _, p := range f.Registers() {
			if int(p.PhysicalIndex()) == idx && p.Size() == size && (p.Mask() == reg.S8H.Mask()) == high {
				return p
			}
		}
	}
	return nil
}

// c05Derive returns the member the changes are applied to (good itself, or — for the memory classes — a member with
// every attribute present when good lacks one) and one changed operand per kind of the catalogue of t.
func c05Derive(t string, good operand.Op, src *c05RegSrc) (operand.Op, []c05Mutant) {
	var out []c05Mutant
	add := func(what string, op operand.Op) {
		if op != nil {
			out = append(out, c05Mutant{what, op})
		}
	}
	fam := c05Family(t)
	switch fam {
	case "m", "vm":
		if !c05IsFullMem(t, good) {
			good = c05FullMem(t, src)
		}
		m := good.(operand.Mem)
		for _, k := range c05DeriveKinds(t) {
			x := m
			switch k {
			case "no-base":
				x.Base = nil
			case "base-gp32":
				x.Base = src.gp(4)
			case "base-gp16":
				x.Base = src.gp(2)
			case "base-gp8":
				x.Base = src.gp(1)
			case "base-xmm":
				x.Base = src.vec(16)
			case "base-k":
				x.Base = src.k()
			case "base-pseudo":
				x.Base = reg.FramePointer
			case "no-index":
				x.Index, x.Scale = nil, 0
			case "index-gp64":
				x.Index = src.gp(8)
				for x.Index == reg.RSP || x.Index == m.Index {
					x.Index = src.gp(8)
				}
			case "index-gp32":
				x.Index = src.gp(4)
			case "index-gp16":
				x.Index = src.gp(2)
			case "index-xmm":
				x.Index = src.vec(16)
			case "index-ymm":
				x.Index = src.vec(32)
			case "index-zmm":
				x.Index = src.vec(64)
			case "index-k":
				x.Index = src.k()
			case "index-pseudo":
				x.Index = reg.StackPointer
			case "index-rsp":
				x.Index = reg.RSP
			case "scale-0":
				x.Scale = 0
			case "scale-3":
				x.Scale = 3
			case "sym-toggle":
				x.Symbol = operand.Symbol{Name: "tbl", Static: true}
			case "disp-wide":
				x.Disp = 1<<32 + 8
			case "not-mem-reg":
				add(k, m.Base)
				continue
			case "not-mem-imm":
				add(k, operand.U8(1))
				continue
			}
			add(k, x)
		}
	case "gp", "vec", "k", "fixed":
		idx, isPhys := 0, false
		if p, ok := good.(reg.Physical); ok {
			idx, isPhys = int(p.PhysicalIndex()), true
		}
		for _, k := range c05DeriveKinds(t) {
			switch k {
			case "gp8":
				add(k, src.gp(1))
			case "gp8h":
				add(k, src.gp8h())
			case "gp16":
				add(k, src.gp(2))
			case "gp32":
				add(k, src.gp(4))
			case "gp64":
				add(k, src.gp(8))
			case "xmm":
				add(k, src.vec(16))
			case "ymm":
				add(k, src.vec(32))
			case "zmm":
				add(k, src.vec(64))
			case "k":
				add(k, src.k())
			case "pseudo":
				add(k, reg.StackPointer)
			case "not-reg-mem":
				add(k, operand.Mem{Base: src.gp(8)})
			case "not-reg-imm":
				add(k, operand.U8(1))
			case "sibling":
				// same kind and width, another register
				r, _ := good.(reg.Register)
				if r == nil {
					continue
				}
				for tries := 0; tries < 50; tries++ {
					var s reg.Register
					if r.Kind() == reg.KindVector {
						s = src.vec(r.Size())
					} else {
						s = src.gp(r.Size())
					}
					if s != r && (!isPhys || s.ID() != r.ID()) {
						add(k, s)
						break
					}
				}
			case "view8":
				if isPhys {
					add(k, c05PhysView(reg.KindGP, idx, 1, false))
				}
			case "view8h":
				if isPhys {
					add(k, c05PhysView(reg.KindGP, idx, 1, true))
				}
			case "view16":
				if isPhys {
					add(k, c05PhysView(reg.KindGP, idx, 2, false))
				}
			case "view32":
				if isPhys {
					add(k, c05PhysView(reg.KindGP, idx, 4, false))
				}
			case "view64":
				if isPhys {
					add(k, c05PhysView(reg.KindGP, idx, 8, false))
				}
			case "view-ymm":
				if isPhys {
					add(k, c05PhysView(reg.KindVector, idx, 32, false))
				}
			case "view-zmm":
				if isPhys {
					add(k, c05PhysView(reg.KindVector, idx, 64, false))
				}
			}
		}
	case "imm":
		bits := map[string]uint{"imm8": 8, "imm16": 16, "imm32": 32, "imm64": 64}[t]
		for _, k := range c05DeriveKinds(t) {
			switch k {
			case "ty-u8":
				add(k, operand.U8(1))
			case "ty-i8":
				add(k, operand.I8(-1))
			case "ty-u16":
				add(k, operand.U16(1))
			case "ty-i16":
				add(k, operand.I16(-1))
			case "ty-u32":
				add(k, operand.U32(1))
			case "ty-i32":
				add(k, operand.I32(-1))
			case "ty-u64":
				add(k, operand.U64(1))
			case "ty-i64":
				add(k, operand.I64(-1))
			case "over":
				// the first value outside the unsigned range, in the next wider type
				switch bits {
				case 8:
					add(k, operand.U16(1<<8))
				case 16:
					add(k, operand.U32(1<<16))
				case 32:
					add(k, operand.U64(1<<32))
				}
			case "under":
				switch bits {
				case 8:
					add(k, operand.I16(-(1<<7)-1))
				case 16:
					add(k, operand.I32(-(1<<15)-1))
				case 32:
					add(k, operand.I64(-(1<<31)-1))
				}
			case "not-imm-rel":
				add(k, operand.Rel(1))
			case "not-imm-reg":
				add(k, src.gp(8))
			}
		}
	case "const":
		v := map[string]uint8{"1": 1, "3": 3, "imm2u": 3}[t]
		for _, k := range c05DeriveKinds(t) {
			switch k {
			case "val-below":
				add(k, operand.U8(v-1))
			case "val-above":
				add(k, operand.U8(v+1))
			case "val-max":
				add(k, operand.U8(255))
			case "ty-i8":
				add(k, operand.I8(int8(v)))
			case "ty-u16":
				add(k, operand.U16(uint16(v)))
			case "ty-u32":
				add(k, operand.U32(uint32(v)))
			case "not-imm-reg":
				add(k, src.gp(8))
			}
		}
	case "rel":
		for _, k := range c05DeriveKinds(t) {
			switch k {
			case "over":
				add(k, operand.Rel(128))
			case "under":
				add(k, operand.Rel(-129))
			case "label":
				add(k, operand.LabelRef("done"))
			case "not-rel-imm8":
				add(k, operand.U8(5))
			case "not-rel-imm32":
				add(k, operand.I32(-2))
			case "not-rel-reg":
				add(k, src.gp(8))
			case "not-rel-mem":
				add(k, operand.Mem{Base: src.gp(8)})
			}
		}
	}
	return good, out
}

// c05CanonMember builds a member of class t from the registers of src (nil when the class has none of that make,
// e.g. a fixed register from virtual registers).
func c05CanonMember(t string, src *c05RegSrc) operand.Op {
	switch c05Family(t) {
	case "m", "vm":
		return c05FullMem(t, src)
	case "gp":
		return src.gp(map[string]uint{"r8": 1, "r16": 2, "r32": 4, "r64": 8}[t])
	case "vec":
		return src.vec(c05VecWidth(t))
	case "k":
		return src.k()
	case "fixed":
		return map[string]reg.Register{"al": reg.AL, "cl": reg.CL, "ax": reg.AX, "eax": reg.EAX, "rax": reg.RAX, "xmm0": reg.X0}[t]
	case "imm":
		return map[string]operand.Op{"imm8": operand.U8(1), "imm16": operand.U16(1), "imm32": operand.U32(1), "imm64": operand.U64(1)}[t]
	case "const":
		return map[string]operand.Op{"1": operand.U8(1), "3": operand.U8(3), "imm2u": operand.U8(2)}[t]
	case "rel":
		return operand.Rel(5)
	}
	return nil
}

// c05DerivePairs counts the (type, kind) pairs of the catalogue over the given operand types.
func c05DerivePairs(types []string) int {
	n := 0
	for _, t := range types {
		n += len(c05DeriveKinds(t))
	}
	return n
}

// c05TypeOfWord normalises an operand type name of the form table to the catalogue's spelling.
func c05TypeOfWord(w string) string { return strings.ToLower(w) }
