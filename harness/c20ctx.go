package main

import (
	"fmt"
	"io"
	"strings"

	"github.com/mmcloughlin/avo/attr"
	"github.com/mmcloughlin/avo/build"
	"github.com/mmcloughlin/avo/gotypes"
	"github.com/mmcloughlin/avo/operand"
	"github.com/mmcloughlin/avo/pass"
	"github.com/mmcloughlin/avo/printer"
	"github.com/mmcloughlin/avo/reg"
)

// C20, freshness of virtual registers through EVERY route that hands them out
// and over HISTORIES: a build.Context embeds a reg.Collection, so registers come
// from its methods GP8 … K / GP(s) / Vec(s) / VirtualRegister(k, s), from the
// package-level functions build.GP8() … on the global context, and from
// Dereference (which calls GP64 internally) — interleaved with every other call
// a Context offers (Function, TEXT, Implement, Signature…, AllocLocal, Load,
// Store, instructions, data sections, constraints, Result, compiling the result).
//
// One history = one request line
//
//	ctxh <n> <route>:<name>[:<arg>…] …
//
// answered with the registers the caller got to see, up to the numbering policy
// (`kind:rank:mask`, rank = order of first appearance of the id within its
// kind): exact comparison with Model/RegCtx.lean.  Per kind the implementation's
// own ids go to the acceptor `accept-ctxfresh` (CtxFreshOK: virtual, of the
// kind, pairwise distinct).  Route `m` = method of the Context, `g` =
// package-level function of `build` after swapping the global context for the
// same Context (calls without a package-level form fall back to the method).

// signatures a history may give its functions: text, validity, and per
// parameter whether it is a pointer whose Dereference yields a register the
// caller can reach
var c20CtxSigs = []struct {
	expr  string
	valid bool
	ptr   []bool
}{
	{"func()", true, nil},
	{"func(p *uint64, n uint64) uint64", true, []bool{true, false}},
	{"func(a, b *int32, s []byte) (r uint64, ok bool)", true, []bool{true, true, false}},
	{"func(x uint64, q *float64) *uint64", true, []bool{false, true}},
	{"func(x foo", false, nil},
	{"", false, nil},
	{"func(v *[4]uint32, k uint8) uint8", true, []bool{true, false}},
}

// the calls that are NOT register requests (name, and the argument variants the generator uses)
var c20CtxOthers = []string{"Function", "TEXT", "Implement", "SignatureExpr", "Signature", "Attributes", "Doc", "Pragma",
	"Label", "Comment", "AllocLocal", "Load", "Store", "ParamIndex", "Instr", "StaticGlobal", "AddDatum", "ConstData",
	"ConstraintExpr", "Result", "Compile", "Main", "NewContext", "NewCollection"}

type c20CtxDiscard struct{}

func (c20CtxDiscard) Write(b []byte) (int, error) { return len(b), nil }
func (c20CtxDiscard) Close() error                { return nil }

type c20CtxState struct {
	ctx    *build.Context
	seen   []reg.Virtual    // registers the caller saw, in order
	nreq   map[reg.Kind]int // requests made of the collection, hidden ones included
	gp64   []reg.Register   // 64-bit general-purpose registers seen (operands of later calls)
	marks  []string         // panics, registers that are not virtual
	labels int
}

func (s *c20CtxState) got(r reg.Register) {
	if r == nil {
		s.marks = append(s.marks, "nil-register")
		return
	}
	v, ok := r.(reg.Virtual)
	if !ok || v == nil {
		s.marks = append(s.marks, "not-virtual")
		return
	}
	s.seen = append(s.seen, v)
	if v.Kind() == reg.KindGP && v.Size() == 8 {
		s.gp64 = append(s.gp64, v)
	}
}

func (s *c20CtxState) gp(back int) reg.Register {
	if len(s.gp64) == 0 {
		return reg.RAX
	}
	i := len(s.gp64) - 1 - back
	if i < 0 {
		i = 0
	}
	return s.gp64[i]
}

func c20CtxAtoi(s string) int {
	n := 0
	if s == "" {
		return -1
	}
	for _, c := range s {
		if c < '0' || c > '9' {
			return -1
		}
		n = n*10 + int(c-'0')
		if n > 1<<20 {
			return -1
		}
	}
	return n
}

// c20CtxKindOf: the kind a request token asks for (bookkeeping of the request count only).
func c20CtxKindOf(name string, args []string) (reg.Kind, bool) {
	for _, c := range c20Ctors {
		if c == name && len(args) == 0 {
			return c20CtorKind(name), true
		}
	}
	switch name {
	case "VirtualRegister":
		if len(args) == 2 && c20CtxAtoi(args[0]) >= 0 && c20CtxAtoi(args[0]) < 256 {
			return reg.Kind(c20CtxAtoi(args[0])), true
		}
	case "GP":
		return reg.KindGP, len(args) == 1
	case "Vec":
		return reg.KindVector, len(args) == 1
	case "Dereference":
		return reg.KindGP, len(args) == 2
	}
	return 0, false
}

// c20CtxCall performs one call of a history on the Context (global context = the same Context).
func c20CtxCall(s *c20CtxState, tok string) (known bool) {
	parts := strings.Split(tok, ":")
	if len(parts) < 2 {
		return false
	}
	g, name, args := parts[0] == "g", parts[1], parts[2:]
	c := s.ctx
	arg := func(i int) int {
		if i < len(args) {
			return c20CtxAtoi(args[i])
		}
		return -1
	}
	if k, ok := c20CtxKindOf(name, args); ok {
		s.nreq[k]++
	}
	paramIndex := func(i int) gotypes.Component {
		if g {
			return build.ParamIndex(i)
		}
		return c.ParamIndex(i)
	}
	switch name {
	case "GP8L":
		if g {
			s.got(build.GP8L())
		} else {
			s.got(c.GP8L())
		}
	case "GP8H":
		if g {
			s.got(build.GP8H())
		} else {
			s.got(c.GP8H())
		}
	case "GP8":
		if g {
			s.got(build.GP8())
		} else {
			s.got(c.GP8())
		}
	case "GP16":
		if g {
			s.got(build.GP16())
		} else {
			s.got(c.GP16())
		}
	case "GP32":
		if g {
			s.got(build.GP32())
		} else {
			s.got(c.GP32())
		}
	case "GP64":
		if g {
			s.got(build.GP64())
		} else {
			s.got(c.GP64())
		}
	case "XMM":
		if g {
			s.got(build.XMM())
		} else {
			s.got(c.XMM())
		}
	case "YMM":
		if g {
			s.got(build.YMM())
		} else {
			s.got(c.YMM())
		}
	case "ZMM":
		if g {
			s.got(build.ZMM())
		} else {
			s.got(c.ZMM())
		}
	case "K":
		if g {
			s.got(build.K())
		} else {
			s.got(c.K())
		}
	case "VirtualRegister":
		if arg(0) < 0 || arg(0) > 255 || arg(1) < 0 || arg(1) > 65535 {
			return false
		}
		s.got(c.VirtualRegister(reg.Kind(arg(0)), reg.Spec(arg(1))))
	case "GP":
		if arg(0) < 0 || arg(0) > 65535 {
			return false
		}
		s.got(c.GP(reg.Spec(arg(0))))
	case "Vec":
		if arg(0) < 0 || arg(0) > 65535 {
			return false
		}
		s.got(c.Vec(reg.Spec(arg(0))))
	case "Dereference":
		// the register allocated inside is the base of the component returned (when the pointer was usable)
		var d gotypes.Component
		if g {
			d = build.Dereference(paramIndex(arg(0)))
		} else {
			d = c.Dereference(paramIndex(arg(0)))
		}
		if d == nil {
			break
		}
		b, err := d.Resolve()
		if err != nil {
			b, err = d.Index(0).Resolve()
		}
		if err == nil && b != nil && b.Addr.Base != nil {
			s.got(b.Addr.Base)
		}
	case "Function":
		if g {
			build.Function(strings.Join(args, "_"))
		} else {
			c.Function(strings.Join(args, "_"))
		}
	case "TEXT":
		sig := ""
		if i := arg(1); i >= 0 && i < len(c20CtxSigs) {
			sig = c20CtxSigs[i].expr
		}
		nm := ""
		if len(args) > 0 {
			nm = args[0]
		}
		if g {
			build.TEXT(nm, attr.NOSPLIT, sig)
		} else {
			c.Function(nm)
			c.Attributes(attr.NOSPLIT)
			c.SignatureExpr(sig)
		}
	case "Implement":
		if g {
			build.Implement("nosuch")
		} else {
			c.Implement("nosuch")
		}
	case "SignatureExpr":
		sig := "?"
		if i := arg(0); i >= 0 && i < len(c20CtxSigs) {
			sig = c20CtxSigs[i].expr
		}
		if g {
			build.SignatureExpr(sig)
		} else {
			c.SignatureExpr(sig)
		}
	case "Signature":
		c.Signature(gotypes.NewSignatureVoid())
	case "Attributes":
		if g {
			build.Attributes(attr.NOSPLIT | attr.NOFRAME)
		} else {
			c.Attributes(attr.NOSPLIT | attr.NOFRAME)
		}
	case "Doc":
		if g {
			build.Doc("doc line")
		} else {
			c.Doc("doc line")
		}
	case "Pragma":
		if g {
			build.Pragma("noescape")
		} else {
			c.Pragma("noescape")
		}
	case "Label":
		s.labels++
		l := fmt.Sprintf("l%d", s.labels)
		if arg(0) == 0 && s.labels > 1 {
			l = "l1" // a duplicate
		}
		if g {
			build.Label(l)
		} else {
			c.Label(l)
		}
	case "Comment":
		if g {
			build.Comment("c")
		} else {
			c.Comment("c")
		}
	case "AllocLocal":
		n := arg(0)
		if n < 0 {
			n = 8
		}
		if g {
			build.AllocLocal(n)
		} else {
			c.AllocLocal(n)
		}
	case "Load":
		if g {
			build.Load(paramIndex(arg(0)), s.gp(0))
		} else {
			c.Load(paramIndex(arg(0)), s.gp(0))
		}
	case "Store":
		if g {
			build.Store(s.gp(0), build.ReturnIndex(arg(0)))
		} else {
			c.Store(s.gp(0), c.ReturnIndex(arg(0)))
		}
	case "ParamIndex":
		paramIndex(arg(0))
	case "Instr":
		switch arg(0) {
		case 0:
			if g {
				build.MOVQ(operand.U32(1), s.gp(0))
			} else {
				c.MOVQ(operand.U32(1), s.gp(0))
			}
		case 1:
			if g {
				build.ADDQ(s.gp(1), s.gp(0))
			} else {
				c.ADDQ(s.gp(1), s.gp(0))
			}
		case 2: // bad operands: an error is recorded
			if g {
				build.ADDQ(operand.U32(1), operand.U32(2))
			} else {
				c.ADDQ(operand.U32(1), operand.U32(2))
			}
		case 3:
			if g {
				build.RET()
			} else {
				c.RET()
			}
		default:
			if g {
				build.NOP()
			} else {
				c.NOP()
			}
		}
	case "StaticGlobal":
		if g {
			build.GLOBL(strings.Join(args, "_"), attr.RODATA|attr.NOPTR)
		} else {
			c.StaticGlobal(strings.Join(args, "_"))
		}
	case "AddDatum":
		off := arg(0)
		if off < 0 {
			off = 0
		}
		if g {
			build.DATA(off, operand.U64(7))
		} else {
			c.AddDatum(off, operand.U64(7))
		}
	case "ConstData":
		if g {
			build.ConstData(strings.Join(args, "_"), operand.U32(9))
		} else {
			c.ConstData(strings.Join(args, "_"), operand.U32(9))
		}
	case "ConstraintExpr":
		e := "linux,amd64"
		if arg(0) == 1 {
			e = "!!x"
		}
		if g {
			build.ConstraintExpr(e)
		} else {
			c.ConstraintExpr(e)
		}
	case "Result":
		c.Result()
	case "Compile":
		// what build.Main does with the Context: compile the file Result returns (the outcome is not this property's subject)
		func() {
			defer func() { recover() }()
			if f, _ := c.Result(); f != nil {
				_ = pass.Compile.Execute(f)
			}
		}()
	case "Main":
		// the whole of an avo program's last line: build.Main with the standard passes (compile, print assembly, print stubs)
		func() {
			defer func() { recover() }()
			pc := printer.Config{Name: "avo", Pkg: "p"}
			build.Main(&build.Config{ErrOut: io.Discard, Passes: []pass.Interface{pass.Compile,
				&pass.Output{Writer: c20CtxDiscard{}, Printer: printer.NewGoAsm(pc)},
				&pass.Output{Writer: c20CtxDiscard{}, Printer: printer.NewStubs(pc)}}}, c)
		}()
	case "NewContext":
		// ANOTHER Context comes to life and hands out registers of its own: nothing to do with this one's
		o := build.NewContext()
		for i := arg(0); i > 0; i-- {
			o.GP64()
			o.XMM()
			o.K()
		}
		o.Function("other")
	case "NewCollection":
		o := reg.NewCollection()
		for i := arg(0); i > 0; i-- {
			o.GP32()
			o.ZMM()
			o.K()
		}
	default:
		return false
	}
	return true
}

// c20CtxExec runs a history on a fresh Context, every call under recover.
func c20CtxExec(toks []string) (*c20CtxState, bool) {
	s := &c20CtxState{ctx: build.NewContext(), nreq: map[reg.Kind]int{}}
	old := build.VerifSwapContext(s.ctx)
	defer build.VerifSwapContext(old)
	for i, t := range toks {
		known := true
		func() {
			defer func() {
				if e := recover(); e != nil {
					s.marks = append(s.marks, fmt.Sprintf("panic@%d", i))
				}
			}()
			known = c20CtxCall(s, t)
		}()
		if !known {
			return nil, false
		}
	}
	return s, true
}

func c20CtxResp(s *c20CtxState) string {
	out := fmt.Sprintf("n=%d", len(s.seen))
	if rk := c20Ranks(s.seen); rk != "" {
		out += " " + rk
	}
	if len(s.marks) > 0 {
		out += " " + strings.Join(s.marks, " ")
	}
	return out
}

// c20CtxEmit: the exact line of a history and, per kind, the acceptor line on the implementation's own ids.
func c20CtxEmit(toks []string, s *c20CtxState, emit func(kind, req, resp string), only string, onlyKind int) {
	hist := fmt.Sprintf("%d %s", len(toks), strings.Join(toks, " "))
	if only == "" || only == "ctxh" {
		emit("ctxh", "ctxh "+hist, c20CtxResp(s))
	}
	if only == "ctxh" {
		return
	}
	for _, k := range []reg.Kind{reg.KindGP, reg.KindVector, reg.KindOpmask} {
		if only != "" && int(k) != onlyKind {
			continue
		}
		var ids []string
		for _, v := range s.seen {
			if v.Kind() == k {
				ids = append(ids, fmt.Sprint(uint32(v.ID())))
			}
		}
		if len(ids) < 2 && only == "" {
			continue
		}
		emit("accept-ctxfresh", fmt.Sprintf("accept-ctxfresh %d %d %d %s %s", uint8(k), s.nreq[k], len(ids), strings.Join(ids, " "), hist), "ok")
	}
}

// ---------------------------------------------------------------- generation

type c20CtxGen struct {
	r      *rng
	toks   []string
	active bool
	sig    int // signature of the active function (index into c20CtxSigs), -1 = void
	nfn    int
	nglob  int
}

func (h *c20CtxGen) route(mode string) string {
	switch mode {
	case "m", "g":
		return mode
	}
	if h.r.chance(1, 2) {
		return "m"
	}
	return "g"
}

func (h *c20CtxGen) add(mode, name string, args ...any) {
	t := h.route(mode) + ":" + name
	for _, a := range args {
		t += ":" + fmt.Sprint(a)
	}
	h.toks = append(h.toks, t)
}

// other appends one call that is not a register request, keeping the generator's own idea of the active function
// and its signature up to date (that is what decides whether a later Dereference shows its register).
func (h *c20CtxGen) other(mode, name string) {
	r := h.r
	switch name {
	case "Function":
		h.nfn++
		h.add(mode, name, fmt.Sprintf("f%d", h.nfn))
		h.active, h.sig = true, -1
	case "TEXT":
		h.nfn++
		i := r.intn(len(c20CtxSigs))
		h.add(mode, name, fmt.Sprintf("t%d", h.nfn), i)
		h.active, h.sig = true, -1
		if c20CtxSigs[i].valid {
			h.sig = i
		}
	case "SignatureExpr":
		i := r.intn(len(c20CtxSigs))
		h.add(mode, name, i)
		if h.active && c20CtxSigs[i].valid {
			h.sig = i
		}
	case "Signature":
		h.add(mode, name)
		if h.active {
			h.sig = -1
		}
	case "Label":
		h.add(mode, name, r.intn(4))
	case "AllocLocal":
		h.add(mode, name, pick(r, []int{0, 1, 8, 24, 64}))
	case "Load", "Store", "ParamIndex":
		h.add(mode, name, r.intn(4))
	case "Instr":
		h.add(mode, name, r.intn(5))
	case "StaticGlobal", "ConstData":
		h.nglob++
		h.add(mode, name, fmt.Sprintf("d%d", h.nglob))
	case "AddDatum":
		h.add(mode, name, 8*r.intn(4))
	case "ConstraintExpr":
		h.add(mode, name, r.intn(2))
	case "NewContext", "NewCollection":
		h.add(mode, name, r.intn(4))
	default: // Implement Attributes Doc Pragma Comment Result Compile Main
		h.add(mode, name)
	}
}

func (h *c20CtxGen) alloc(mode string, ctors []string) {
	r := h.r
	if r.chance(1, 12) { // the constructors that take kind / width as arguments (methods of the embedded collection)
		switch r.intn(3) {
		case 0:
			ks := pick(r, []struct{ k, s int }{{1, 15}, {1, 7}, {1, 1}, {2, 31}, {2, 127}, {3, 15}})
			h.add("m", "VirtualRegister", ks.k, ks.s)
		case 1:
			h.add("m", "GP", pick(r, []int{1, 2, 3, 7, 15}))
		default:
			h.add("m", "Vec", pick(r, []int{31, 63, 127}))
		}
		return
	}
	h.add(mode, pick(r, ctors))
}

func (h *c20CtxGen) deref(mode string) {
	i := h.r.intn(3)
	seen := h.active && h.sig >= 0 && i < len(c20CtxSigs[h.sig].ptr) && c20CtxSigs[h.sig].ptr[i]
	b := 0
	if seen {
		b = 1
	}
	h.add(mode, "Dereference", i, b)
}

// c20CtxRandom: a history of about n calls.
func c20CtxRandom(r *rng, n int, mode string) []string {
	h := &c20CtxGen{r: r, sig: -1}
	ctors := c20Ctors
	if r.chance(1, 3) { // one kind only: more registers of a kind on both sides of every call
		ctors = pick(r, [][]string{{"GP64", "GP32", "GP8"}, {"XMM", "YMM", "ZMM"}, {"K"}})
	}
	if r.chance(1, 2) { // registers obtained up-front, before any function exists
		for i := r.rangeIn(1, 6); i > 0; i-- {
			h.alloc(mode, ctors)
		}
	}
	for len(h.toks) < n {
		switch x := r.intn(100); {
		case x < 42:
			h.alloc(mode, ctors)
		case x < 50:
			h.deref(mode)
		case x < 58:
			h.other(mode, pick(r, []string{"Function", "TEXT"}))
		case x < 62:
			h.other(mode, "SignatureExpr")
		case x < 65:
			h.other(mode, "Compile")
		default:
			h.other(mode, pick(r, c20CtxOthers))
		}
	}
	return h.toks
}

// c20CtxStraddles: the names of the non-request calls of a history that have registers of one kind SEEN on both sides.
func c20CtxStraddles(toks []string, s *c20CtxState) map[string]bool {
	// recompute, per call position, how many registers of each kind had been seen: replaying is not needed — a request
	// token shows one register when it is a constructor or a Dereference flagged 1
	type cnt [4]int
	before := make([]cnt, len(toks)+1)
	for i, t := range toks {
		before[i+1] = before[i]
		p := strings.Split(t, ":")
		if k, ok := c20CtxKindOf(p[1], p[2:]); ok && int(k) < 4 {
			if p[1] != "Dereference" || p[len(p)-1] == "1" {
				before[i+1][k]++
			}
		}
	}
	total := before[len(toks)]
	out := map[string]bool{}
	for i, t := range toks {
		p := strings.Split(t, ":")
		if _, ok := c20CtxKindOf(p[1], p[2:]); ok {
			continue
		}
		for k := 1; k < 4; k++ {
			if before[i][k] > 0 && total[k] > before[i+1][k] {
				out[p[1]] = true
			}
		}
	}
	_ = s
	return out
}

// c20CtxGenerate: the scripted sweep (every non-request call between two requests of every kind, both routes, outside
// and inside a function) and n random histories.
func c20CtxGenerate(r *rng, n int, thorough bool, emit func(kind, req, resp string), stats map[string]int) {
	run := func(toks []string, class string) {
		s, ok := c20CtxExec(toks)
		if !ok {
			stats["ctxh:unknown-call(generator bug)"]++
			return
		}
		c20CtxEmit(toks, s, emit, "", 0)
		stats["ctxh:"+class]++
		for name := range c20CtxStraddles(toks, s) {
			stats["ctxh:straddle:"+name]++
		}
		if s.ctx.VerifErrCount() > 0 {
			stats["ctxh:with-errors"]++
		}
		for _, t := range toks {
			if strings.HasSuffix(t, ":1") && strings.Contains(t, ":Dereference:") {
				stats["ctxh:dereference-seen"]++
				break
			}
		}
		if len(s.seen) >= 300 {
			stats["ctxh:300-or-more-registers"]++
		}
	}
	// ---- scripted: A <call> B for every call, kind and route; bare and inside a function with a signature
	pairs := [][2]string{{"GP64", "GP32"}, {"XMM", "ZMM"}, {"K", "K"}, {"GP8H", "GP64"}}
	for _, name := range c20CtxOthers {
		for _, mode := range []string{"m", "g"} {
			for _, pr := range pairs {
				for variant := 0; variant < 2; variant++ {
					h := &c20CtxGen{r: r, sig: -1}
					if variant == 1 {
						h.add(mode, "Function", "f0")
						h.add(mode, "SignatureExpr", 1)
						h.active, h.sig = true, 1
					}
					h.add(mode, pr[0])
					h.deref(mode)
					h.other(mode, name)
					h.add(mode, pr[1])
					h.deref(mode)
					h.add(mode, pr[0])
					run(h.toks, "scripted")
				}
			}
		}
	}
	// ---- random
	for i := 0; i < n; i++ {
		mode := pick(r, []string{"m", "g", "x", "x"})
		l := r.rangeIn(1, 100)
		if r.chance(1, 4) {
			l = r.rangeIn(1, 12)
		}
		if i%40 == 7 {
			l = r.rangeIn(800, 1400) // index bytes roll over (255 -> 256) with functions in between
		}
		if thorough && i%500 == 11 {
			l = r.rangeIn(5000, 9000)
		}
		run(c20CtxRandom(r, l, mode), "random-route-"+mode)
	}
}

// c20CtxReplay re-runs a `ctxh` or `accept-ctxfresh` line on the current tree.
func c20CtxReplay(ts []string, emit func(kind, req, resp string)) {
	switch ts[0] {
	case "ctxh":
		if len(ts) < 2 {
			return
		}
		if s, ok := c20CtxExec(ts[2:]); ok {
			c20CtxEmit(ts[2:], s, emit, "ctxh", 0)
		}
	case "accept-ctxfresh":
		// accept-ctxfresh <kind> <nreq> <m> id×m <n> call×n
		if len(ts) < 5 {
			return
		}
		k, m := c20CtxAtoi(ts[1]), c20CtxAtoi(ts[3])
		if k < 0 || m < 0 || len(ts) < 5+m {
			return
		}
		toks := ts[5+m:]
		if s, ok := c20CtxExec(toks); ok {
			c20CtxEmit(toks, s, emit, "accept-ctxfresh", k)
		}
	}
}
