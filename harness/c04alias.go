package main

// C04 — ALIASING register choices: instances of a form row in which several entries of the row (explicit operands,
// implicit registers, fixed-register operand types, address registers of memory operands) are one physical
// register, or different views of one (8L/8H/16/32/64, X/Y/Z).  form.build pairs every entry of the row with its
// operand and records it under the entry's action; nothing there may depend on WHICH registers the operands are.
// A coincidence is exactly where a shortcut ("already recorded", de-duplication by identity, first view wins)
// goes wrong: `MULQ DX` (explicit DX read, implicit RDX written), `MULXQ BX, CX, DX` (implicit RDX read, explicit
// DX written), `MULB AH`, `SHLQ CL, CX`, `MULQ (DX)`, `MOVBLZX AL, AX`, `VCVTPS2PD X3, Y3`, `ADDQ AX, (AX)`.
//
// Every alias plan of EVERY row of the table (no execution needed: also rows of ISA extensions the host lacks and
// the never-executed rows) is instantiated through the real build + compile pipeline and judged on the sets the
// real code declares: `accept-decl` (Lean acceptor `acceptDecl`, theorem `acceptDecl_sound`), next to the exact
// `usedef` / `build-rw` comparisons.  Where the host can execute the instance it is also measured (`accept-rw`).

import (
	"strings"

	"github.com/mmcloughlin/avo/reg"
	"github.com/mmcloughlin/avo/x86"
)

// register choices c04ChoiceAliasBase + k: alias plan k of the row (c04AliasPlans is deterministic per row)
const c04ChoiceAliasBase = 100

const (
	c04RoleBase  = 1
	c04RoleIndex = 2
)

// c04AliasPlan: the entries `pos` of the row share one register.
type c04AliasPlan struct {
	kind  reg.Kind
	pos   []int        // indices into row.Operands (explicit and implicit entries alike)
	high  map[int]bool // r8 entries taking the high-byte view
	role  map[int]int  // memory entries: c04RoleBase | c04RoleIndex
	fixed int          // physical index when an entry of the plan fixes the register, else -1
	low4  bool         // the register must be one of AX..BX (a high-byte view is used)
	tag   string       // "impl" an implicit entry takes part, "fixed" a fixed-register operand type, "expl" explicit entries only, "all", "memself"
}

func (p *c04AliasPlan) has(i int) bool {
	for _, q := range p.pos {
		if q == i {
			return true
		}
	}
	return false
}

// c04Entry describes one entry of a row as far as registers go.
type c04Entry struct {
	kind   reg.Kind     // kind of its register (registers), KindGP for plain memory
	isReg  bool         // a register entry
	isMem  bool         // a memory entry (base: GP; index: GP or, for vm types, a vector register)
	vm     bool         // memory entry with a vector index
	fixed  reg.Register // implicit register or fixed-register operand type
	impl   bool
	r8free bool // explicit r8: both byte views possible
}

func c04FixedOfType(t string) reg.Register {
	switch t {
	case "al":
		return reg.AL
	case "cl":
		return reg.CL
	case "ax":
		return reg.AX
	case "eax":
		return reg.EAX
	case "rax":
		return reg.RAX
	case "xmm0":
		return reg.X0
	}
	return nil
}

// c04MemShape: vector index spec and element size of a memory operand type.
func c04MemShape(t string) (reg.Spec, int, bool) {
	switch t {
	case "m", "m8", "m16", "m32", "m64", "m128", "m256", "m512":
		return 0, 0, true
	case "vm32x":
		return reg.S128, 4, true
	case "vm64x":
		return reg.S128, 8, true
	case "vm32y":
		return reg.S256, 4, true
	case "vm64y":
		return reg.S256, 8, true
	case "vm32z":
		return reg.S512, 4, true
	case "vm64z":
		return reg.S512, 8, true
	}
	return 0, 0, false
}

func c04EntryOf(row *formRow, i int) (e c04Entry, ok bool) {
	o := row.Operands[i]
	t := row.TypeNames[i]
	if o.Implicit {
		fr := x86.VerifImplReg(o.Type)
		if fr == nil {
			return e, false
		}
		return c04Entry{kind: fr.Kind(), isReg: true, fixed: fr, impl: true}, true
	}
	if fr := c04FixedOfType(t); fr != nil {
		return c04Entry{kind: fr.Kind(), isReg: true, fixed: fr}, true
	}
	switch t {
	case "r8":
		return c04Entry{kind: reg.KindGP, isReg: true, r8free: true}, true
	case "r16", "r32", "r64":
		return c04Entry{kind: reg.KindGP, isReg: true}, true
	case "xmm", "ymm", "zmm":
		return c04Entry{kind: reg.KindVector, isReg: true}, true
	case "k":
		return c04Entry{kind: reg.KindOpmask, isReg: true}, true
	}
	if vs, _, isMem := c04MemShape(t); isMem {
		return c04Entry{kind: reg.KindGP, isMem: true, vm: vs != 0}, true
	}
	return e, false
}

// c04AliasView: the view of register `idx` of `kind` an explicit operand of type t takes.
func c04AliasView(kind reg.Kind, idx int, t string, high bool) reg.Register {
	switch kind {
	case reg.KindGP:
		switch t {
		case "r8":
			if high {
				if idx >= 4 {
					return nil
				}
				return c04GP(idx, reg.S8H)
			}
			return c04GP(idx, reg.S8L)
		case "r16":
			return c04GP(idx, reg.S16)
		case "r32":
			return c04GP(idx, reg.S32)
		case "r64":
			return c04GP(idx, reg.S64)
		}
	case reg.KindVector:
		switch t {
		case "xmm":
			return c04Vec(idx, reg.S128)
		case "ymm":
			return c04Vec(idx, reg.S256)
		case "zmm":
			return c04Vec(idx, reg.S512)
		}
	case reg.KindOpmask:
		if t == "k" {
			return c04K(idx)
		}
	}
	return nil
}

func c04PhysIdx(r reg.Register) int {
	if p, ok := r.(reg.Physical); ok {
		return int(p.PhysicalIndex())
	}
	return -1
}

// c04AliasPlans enumerates, in a fixed order, the alias plans of a row:
//   - every pair of entries that can be one register and of which at least one is free (explicit, not a
//     fixed-register type): register/register of one kind (each taking the view of its own type; r8 entries in both
//     byte views), memory/GP register (as base, as index), vm memory/vector register (as index);
//   - per kind with three or more such entries: all of them at once;
//   - a memory operand whose base and index are one register.
func c04AliasPlans(row *formRow) []c04AliasPlan {
	n := len(row.Operands)
	ents := make([]c04Entry, n)
	oks := make([]bool, n)
	for i := 0; i < n; i++ {
		ents[i], oks[i] = c04EntryOf(row, i)
	}
	var plans []c04AliasPlan
	tagOf := func(pos []int) string {
		tag := "expl"
		for _, i := range pos {
			if ents[i].impl {
				return "impl"
			}
			if ents[i].fixed != nil {
				tag = "fixed"
			}
		}
		return tag
	}
	for i := 0; i < n; i++ {
		for j := i + 1; j < n; j++ {
			if !oks[i] || !oks[j] {
				continue
			}
			a, b := ents[i], ents[j]
			if a.fixed != nil && b.fixed != nil {
				continue // nothing to choose
			}
			if a.isMem && b.isMem {
				continue
			}
			fixed := -1
			if a.fixed != nil {
				fixed = c04PhysIdx(a.fixed)
			}
			if b.fixed != nil {
				fixed = c04PhysIdx(b.fixed)
			}
			switch {
			case a.isReg && b.isReg:
				if a.kind != b.kind {
					continue
				}
				// byte-view variants of the free r8 entries
				var free8 []int
				if a.r8free {
					free8 = append(free8, i)
				}
				if b.r8free {
					free8 = append(free8, j)
				}
				for v := 0; v < 1<<uint(len(free8)); v++ {
					high := map[int]bool{}
					for k, q := range free8 {
						if v>>uint(k)&1 == 1 {
							high[q] = true
						}
					}
					if len(high) > 0 && fixed >= 4 {
						continue
					}
					plans = append(plans, c04AliasPlan{kind: a.kind, pos: []int{i, j}, high: high, role: map[int]int{}, fixed: fixed,
						low4: len(high) > 0, tag: tagOf([]int{i, j})})
				}
			default:
				m, r, mi := a, b, i
				if b.isMem {
					m, r, mi = b, a, j
				}
				switch {
				case r.kind == reg.KindGP:
					plans = append(plans, c04AliasPlan{kind: reg.KindGP, pos: []int{i, j}, high: map[int]bool{}, role: map[int]int{mi: c04RoleBase},
						fixed: fixed, tag: tagOf([]int{i, j})})
					if !m.vm {
						plans = append(plans, c04AliasPlan{kind: reg.KindGP, pos: []int{i, j}, high: map[int]bool{}, role: map[int]int{mi: c04RoleIndex},
							fixed: fixed, tag: tagOf([]int{i, j})})
					}
				case r.kind == reg.KindVector && m.vm:
					plans = append(plans, c04AliasPlan{kind: reg.KindVector, pos: []int{i, j}, high: map[int]bool{}, role: map[int]int{mi: c04RoleIndex},
						fixed: fixed, tag: tagOf([]int{i, j})})
				}
			}
		}
	}
	// all entries of one kind at once
	for _, kind := range []reg.Kind{reg.KindGP, reg.KindVector, reg.KindOpmask} {
		var pos []int
		role := map[int]int{}
		fixed := -1
		free := 0
		for i := 0; i < n; i++ {
			if !oks[i] {
				continue
			}
			e := ents[i]
			switch {
			case e.isReg && e.kind == kind:
				if e.fixed != nil {
					if fixed >= 0 && fixed != c04PhysIdx(e.fixed) {
						continue // a second, different fixed register stays what it is
					}
					fixed = c04PhysIdx(e.fixed)
				} else {
					free++
				}
				pos = append(pos, i)
			case e.isMem && kind == reg.KindGP:
				pos = append(pos, i)
				role[i] = c04RoleBase
				free++
			case e.isMem && e.vm && kind == reg.KindVector:
				pos = append(pos, i)
				role[i] = c04RoleIndex
				free++
			}
		}
		if len(pos) >= 3 && free >= 1 {
			plans = append(plans, c04AliasPlan{kind: kind, pos: pos, high: map[int]bool{}, role: role, fixed: fixed, tag: "all"})
		}
	}
	// base and index of one memory operand
	for i := 0; i < n; i++ {
		if oks[i] && ents[i].isMem && !ents[i].vm {
			plans = append(plans, c04AliasPlan{kind: reg.KindGP, pos: []int{i}, high: map[int]bool{}, role: map[int]int{i: c04RoleBase | c04RoleIndex},
				fixed: -1, tag: "memself"})
		}
	}
	return plans
}

// c04AliasUnmeasurable: alias instances that cannot be executed without faulting for reasons that have nothing to do
// with avo (they are still judged on their declared sets).
func c04AliasUnmeasurable(row *formRow, p *c04AliasPlan, isDiv bool) string {
	if isDiv {
		return "division: dividend and divisor constraints cannot both hold on one register"
	}
	for i, t := range row.TypeNames {
		if !row.Operands[i].Implicit && strings.HasPrefix(t, "vm") {
			return "gather/scatter: coinciding destination, mask and index registers raise #UD"
		}
	}
	for _, r := range p.role {
		if r&c04RoleIndex != 0 {
			return "aliased index register: the effective address leaves the scratch area"
		}
	}
	return ""
}

// c04AliasDiffering reports whether two of the coinciding entries carry different actions (the condition under
// which "it is already recorded" is wrong).
func c04AliasDiffering(row *formRow, p *c04AliasPlan) bool {
	for _, i := range p.pos {
		for _, j := range p.pos {
			if row.Operands[i].Action != row.Operands[j].Action {
				return true
			}
		}
	}
	return false
}

// c04AliasViewsDiffer reports whether the instance's coinciding register entries are different VIEWS of the register.
func c04AliasViewsDiffer(in *c04Inst) bool {
	var masks []uint16
	k := 0
	for i, o := range in.row.Operands {
		var r reg.Register
		if o.Implicit {
			r = x86.VerifImplReg(o.Type)
		} else {
			if k < len(in.ops) {
				r, _ = in.ops[k].(reg.Register)
			}
			k++
		}
		if r != nil && in.alias.has(i) {
			masks = append(masks, r.Mask())
		}
	}
	for _, m := range masks {
		if m != masks[0] {
			return true
		}
	}
	return false
}

// c04EmitDecl writes the judgement of an alias instance on its declared sets: the acceptor line and the two exact
// comparisons with the models (specification and algorithm).
func c04EmitDecl(o *out, in *c04Inst) {
	decl := encMaskSet(in.declR) + " " + encMaskSet(in.declW)
	o.emit("accept-decl "+in.id+" "+in.desc+" C "+c04EncBuildRW(in.m, in.ops)+" D "+decl, "ok")
	o.emit("usedef "+in.usedef, decl)
	o.emit("build-rw "+c04EncBuildRW(in.m, in.ops), decl)
}

// c04AliasStats: what of the alias class was actually judged / executed (the check module puts floors on it).
type c04AliasStats struct {
	requested     int
	notBuilt      map[string]int
	unmeasurable  map[string]int
	byTag         map[string]int
	rowsJudged    map[string]map[int]bool
	rowsToMeasure map[string]map[int]bool
	rowsMeasured  map[string]map[int]bool
	nJudged       int
	differing     int
	viewsDiffer   int
	memAddr       int
	nToMeasure    int
	nMeasured     int
	asmRejected   int
	asmRejectedEx []string
	crashed       int
	noResult      int
	otherRow      int
}

func newC04AliasStats() *c04AliasStats {
	return &c04AliasStats{notBuilt: map[string]int{}, unmeasurable: map[string]int{}, byTag: map[string]int{},
		rowsJudged: map[string]map[int]bool{}, rowsToMeasure: map[string]map[int]bool{}, rowsMeasured: map[string]map[int]bool{}}
}

func c04Mark(m map[string]map[int]bool, tag string, row int) {
	if m[tag] == nil {
		m[tag] = map[int]bool{}
	}
	m[tag][row] = true
}

func (a *c04AliasStats) judged(in *c04Inst) {
	a.nJudged++
	a.byTag[in.alias.tag]++
	c04Mark(a.rowsJudged, in.alias.tag, in.row.Index)
	if c04AliasDiffering(in.row, in.alias) {
		a.differing++
	}
	if c04AliasViewsDiffer(in) {
		a.viewsDiffer++
	}
	if len(in.alias.role) > 0 {
		a.memAddr++
	}
	if in.m.Index != in.row.Index {
		a.otherRow++
	}
}

func (a *c04AliasStats) toMeasure(in *c04Inst) {
	a.nToMeasure++
	c04Mark(a.rowsToMeasure, in.alias.tag, in.row.Index)
}

func (a *c04AliasStats) measured(in *c04Inst) {
	a.nMeasured++
	c04Mark(a.rowsMeasured, in.alias.tag, in.row.Index)
}

func (a *c04AliasStats) report(expected map[string]map[int]bool) map[string]any {
	sizes := func(m map[string]map[int]bool) map[string]int {
		out := map[string]int{}
		for k, v := range m {
			out[k] = len(v)
		}
		return out
	}
	// rows expected to have an instance with an implicit (fixed) register shared and judged on none
	missing := map[string][]int{}
	for tag, rows := range expected {
		for ix := range rows {
			if !a.rowsJudged[tag][ix] {
				missing[tag] = append(missing[tag], ix)
			}
		}
	}
	return map[string]any{
		"plans_requested":            a.requested,
		"judged":                     a.nJudged,
		"judged_by_tag":              a.byTag,
		"not_built":                  a.notBuilt,
		"rows_expected":              sizes(expected),
		"rows_judged":                sizes(a.rowsJudged),
		"rows_expected_not_judged":   missing,
		"judged_differing_actions":   a.differing,
		"judged_different_views":     a.viewsDiffer,
		"judged_memory_address":      a.memAddr,
		"judged_other_row_matched":   a.otherRow,
		"to_measure":                 a.nToMeasure,
		"measured":                   a.nMeasured,
		"rows_to_measure":            sizes(a.rowsToMeasure),
		"rows_measured":              sizes(a.rowsMeasured),
		"unmeasurable":               a.unmeasurable,
		"asm_rejected":               a.asmRejected,
		"asm_rejected_examples":      a.asmRejectedEx,
		"crashed":                    a.crashed,
		"no_result":                  a.noResult,
	}
}
