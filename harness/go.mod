module avoverif/harness

go 1.23.0

require (
	github.com/mmcloughlin/avo v0.0.0
	golang.org/x/arch v0.15.0
)

replace github.com/mmcloughlin/avo => /repo
