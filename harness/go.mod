module avoverif/harness

go 1.23.0

require (
	github.com/mmcloughlin/avo v0.0.0
	golang.org/x/arch v0.15.0
	golang.org/x/tools v0.31.0
)

require (
	golang.org/x/mod v0.24.0 // indirect
	golang.org/x/sync v0.12.0 // indirect
)

replace github.com/mmcloughlin/avo => /repo
