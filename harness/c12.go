package main

// C12: the stub printer.
//   c12      case descriptors (generated, forced witnesses of the listed findings, or read from the
//            corpus with -replay): signatures × doc lines × pragmas × constraint sets × function counts,
//            handed to avo by several ROUTES (ir.File built directly; build.Context with
//            ConstraintExpr/Function/Signature/SignatureExpr/Doc/Pragma; gotypes.NewSignature,
//            ParseSignatureInPackage, ParseSignature, LookupSignature; build.Context.Package +
//            Implement on an on-disk package).  The REAL printer.NewStubs output is
//            (a) compared with go/format applied to the Lean model's pre-format text (c12fmt
//            post-processes the model's answers), (b) judged by the Lean acceptors (package clause,
//            declarations in order, directives, constraint lines equal to those of the assembly
//            output; generated-code comment and every declaration text equal to what was given, up to
//            layout: `accept-verbatim`), (c) measured with the Go toolchain: go/parser, go/types (file type-checks;
//            every signature types.Identical to the one the harness evaluated itself from the
//            expression), doc and directives attached, go/format idempotence;
//   c12fmt   format.Source over the model's `stubs` answers;
//   c12build a sample of stub+asm pairs written as packages of one throw-away module:
//            go list (both files under the same constraints), go build, go vet -asmdecl, and an
//            executable that references every function DECLARED in each stub file (go build of
//            package main: links only if every declared function is defined by the assembly).

import (
	"bufio"
	"encoding/hex"
	"encoding/json"
	"fmt"
	"go/ast"
	"go/build/constraint"
	"go/format"
	"go/parser"
	"go/token"
	"go/types"
	"os"
	"os/exec"
	"path/filepath"
	"regexp"
	"sort"
	"strings"
	"unicode"

	"github.com/mmcloughlin/avo/attr"
	"github.com/mmcloughlin/avo/build"
	"github.com/mmcloughlin/avo/buildtags"
	"github.com/mmcloughlin/avo/gotypes"
	"github.com/mmcloughlin/avo/ir"
	"github.com/mmcloughlin/avo/operand"
	"github.com/mmcloughlin/avo/pass"
	"github.com/mmcloughlin/avo/printer"
	"github.com/mmcloughlin/avo/reg"
)

type c12Fn struct {
	name string
	expr string
	sig  *types.Signature // evaluated by the harness from the expression (independent of avo)
}

// c12Produced: the texts of a case that was NOT printed by calling the printers directly (the CLI routes:
// files written by build.Main under the configuration of a command line).
type c12Produced struct{ stub, status, asm, astatus string }

type c12Case struct {
	ctx      *build.Context // deferMain: the context before Result()/Compile (build.Main does both)
	produced *c12Produced
	desc     c12Desc
	cfg      printer.Config
	file     *ir.File
	fns      []c12Fn
	u        *c12Universe
	pkgpath  string
}

var c12ReForeign = regexp.MustCompile(`\b(unsafe|q)\.`)

func c12BuiltinOnly(expr string) bool {
	_, err := types.Eval(token.NewFileSet(), nil, token.NoPos, expr)
	return err == nil
}

// c12Signature obtains the gotypes.Signature by the requested route.
func c12Signature(c *c12Case, fn c12FnDesc, sig *types.Signature, st map[string]int) (*gotypes.Signature, error) {
	route := fn.Route
	foreign := c12ReForeign.MatchString(fn.Sig)
	if route == "expr" && !c12BuiltinOnly(fn.Sig) {
		route = "parse"
	}
	if route == "parse" && foreign {
		route = "new" // package-scope evaluation cannot see imports
	}
	st["route_"+route]++
	switch route {
	case "expr":
		return gotypes.ParseSignature(fn.Sig)
	case "parse":
		return gotypes.ParseSignatureInPackage(c.u.pkg, fn.Sig)
	case "lookup":
		return gotypes.LookupSignature(c.u.pkg, fn.Name)
	default:
		return gotypes.NewSignature(c.u.pkg, sig), nil
	}
}

var c12ImplModReady = map[string]bool{}

// c12ImplPackage writes the case's Go declarations as an on-disk package of module m under
// work/implmod, for build.Context.Package (go/packages) + Implement.
func c12ImplPackage(work string, c *c12Case, idx int) (string, error) {
	mod := filepath.Join(work, "implmod")
	if !c12ImplModReady[mod] {
		os.RemoveAll(mod)
		if err := os.MkdirAll(filepath.Join(mod, "q"), 0o755); err != nil {
			return "", err
		}
		if err := os.WriteFile(filepath.Join(mod, "go.mod"), []byte("module m\n\ngo 1.22\n"), 0o644); err != nil {
			return "", err
		}
		if err := os.WriteFile(filepath.Join(mod, "q", "q.go"), []byte(c12QSource), 0o644); err != nil {
			return "", err
		}
		c12ImplModReady[mod] = true
	}
	dir := filepath.Join(mod, fmt.Sprintf("i%d", idx))
	if err := os.MkdirAll(dir, 0o755); err != nil {
		return "", err
	}
	if err := os.WriteFile(filepath.Join(dir, "decl.go"), []byte(c.u.src), 0o644); err != nil {
		return "", err
	}
	// an assembly file in the package: bodyless declarations are then legal for the compiler
	if err := os.WriteFile(filepath.Join(dir, "impl_amd64.s"), []byte("// placeholder\n"), 0o644); err != nil {
		return "", err
	}
	return dir, nil
}

// c12BuildCase drives avo as the descriptor says.
func c12BuildCase(d c12Desc, idx int, body bool, work string, st map[string]int) (*c12Case, error) {
	return c12BuildCaseMain(d, idx, body, work, st, false)
}

// c12BuildCaseMain: with deferMain the build.Context is returned as the author left it (c.ctx): the caller
// hands it to build.Main / build.Generate, which call Result() and run the passes.
func c12BuildCaseMain(d c12Desc, idx int, body bool, work string, st map[string]int, deferMain bool) (*c12Case, error) {
	c := &c12Case{desc: d}
	c.cfg = printer.Config{Name: d.Tool, Pkg: d.Pkg}
	if d.HasArgv {
		c.cfg.Argv = append([]string{}, d.Argv...)
	}
	c.pkgpath = fmt.Sprintf("m/p%d", idx)
	pkgname := d.Pkg
	if !token.IsIdentifier(pkgname) {
		pkgname = "p"
	}
	extra := ""
	for _, fn := range d.Fns {
		if (fn.Route == "lookup" || d.Via == "implement") && strings.HasPrefix(fn.Sig, "func(") {
			extra += "\nfunc " + fn.Name + fn.Sig[4:] + "\n"
		}
	}
	if d.Via == "implement" {
		c.pkgpath = fmt.Sprintf("m/i%d", idx)
	}
	u, err := c12NewUniverse(pkgname, c.pkgpath, extra)
	if err != nil {
		return nil, fmt.Errorf("universe: %v", err)
	}
	c.u = u
	for _, fn := range d.Fns {
		tv, err := u.eval(fn.Sig)
		if err != nil {
			return nil, fmt.Errorf("eval %q: %v", fn.Sig, err)
		}
		sig, ok := tv.Type.(*types.Signature)
		if !ok {
			return nil, fmt.Errorf("%q is not a signature", fn.Sig)
		}
		c.fns = append(c.fns, c12Fn{fn.Name, fn.Sig, sig})
	}
	st["via_"+d.Via]++
	if d.Via == "ir" {
		f := ir.NewFile()
		for _, e := range d.Cons {
			k, err := buildtags.ParseConstraint(e)
			if err != nil {
				return nil, fmt.Errorf("constraint %q: %v", e, err)
			}
			f.Constraints = append(f.Constraints, k)
		}
		for i, fd := range d.Fns {
			if fd.GlobalBefore {
				g := ir.NewStaticGlobal(fmt.Sprintf("tbl%d", i))
				g.Append(operand.U64(uint64(i)))
				f.AddSection(g)
			}
			fn := ir.NewFunction(fd.Name)
			s, err := c12Signature(c, fd, c.fns[i].sig, st)
			if err != nil {
				return nil, fmt.Errorf("signature route %s %q: %v", fd.Route, fd.Sig, err)
			}
			fn.SetSignature(s)
			fn.Attributes = attr.NOSPLIT
			fn.Doc = append([]string(nil), fd.Doc...)
			for _, p := range fd.Pragmas {
				fn.AddPragma(p[0], p[1:]...)
			}
			f.AddSection(fn)
		}
		c.file = f
		return c, nil
	}
	ctx := build.NewContext()
	if d.Via == "implement" {
		dir, err := c12ImplPackage(work, c, idx)
		if err != nil {
			return nil, err
		}
		wd, _ := os.Getwd()
		if err := os.Chdir(dir); err != nil {
			return nil, err
		}
		ctx.Package(".")
		os.Chdir(wd)
	}
	for _, e := range d.Cons {
		ctx.ConstraintExpr(e)
	}
	for i, fd := range d.Fns {
		if fd.GlobalBefore {
			ctx.StaticGlobal(fmt.Sprintf("tbl%d", i))
			ctx.AddDatum(0, operand.U64(uint64(i)))
		}
		if d.Via == "implement" {
			st["route_implement"]++
			ctx.Implement(fd.Name)
		} else {
			ctx.Function(fd.Name)
			if fd.Route == "expr" && c12BuiltinOnly(fd.Sig) {
				st["route_ctx_expr"]++
				ctx.SignatureExpr(fd.Sig)
			} else {
				s, err := c12Signature(c, fd, c.fns[i].sig, st)
				if err != nil {
					return nil, fmt.Errorf("signature route %s %q: %v", fd.Route, fd.Sig, err)
				}
				ctx.Signature(s)
			}
		}
		ctx.Attributes(attr.NOSPLIT)
		if len(fd.Doc) > 0 {
			ctx.Doc(fd.Doc...)
		}
		for _, p := range fd.Pragmas {
			ctx.Pragma(p[0], p[1:]...)
		}
		if body {
			sig := c.fns[i].sig
			// read every named parameter and write every named result through avo's Load/Store,
			// so that the assembly refers to them by name and offset (what vet's asmdecl compares)
			for j := 0; j < sig.Params().Len(); j++ {
				v := sig.Params().At(j)
				if v.Name() == "" || v.Name() == "_" {
					continue
				}
				leaf, b := c12Leaf(ctx.Param(v.Name()), v.Type(), 0)
				if b == nil {
					st["param_without_leaf"]++
					continue
				}
				st["param_loaded"]++
				ctx.Load(leaf, c12RegFor(b))
			}
			for j := 0; j < sig.Results().Len(); j++ {
				if sig.Results().At(j).Name() == "_" {
					continue // a blank result has no name to refer to in x+off(FP) syntax
				}
				leaf, b := c12Leaf(ctx.ReturnIndex(j), sig.Results().At(j).Type(), 0)
				if b == nil {
					st["result_without_leaf"]++
					continue
				}
				st["result_stored"]++
				ctx.Store(c12RegFor(b), leaf)
			}
			ctx.RET()
		}
	}
	if deferMain {
		c.ctx = ctx
		return c, nil
	}
	file, err := ctx.Result()
	if err != nil {
		return nil, fmt.Errorf("build.Context: %v", err)
	}
	if body {
		if err := pass.Compile.Execute(file); err != nil {
			return nil, fmt.Errorf("compile: %v", err)
		}
	}
	c.file = file
	return c, nil
}

// c12Stubs calls the real stub printer.
func c12Stubs(cfg printer.Config, f *ir.File) (out string, status string) {
	defer func() {
		if e := recover(); e != nil {
			out, status = "", "panic"
		}
	}()
	b, err := printer.NewStubs(cfg).Print(f)
	if err != nil {
		return "", "error"
	}
	return string(b), "ok"
}

func c12PrintAsm(cfg printer.Config, f *ir.File) (out string, status string) {
	defer func() {
		if e := recover(); e != nil {
			out, status = "", "panic"
		}
	}()
	b, err := printer.NewGoAsm(cfg).Print(f)
	if err != nil {
		return "", "error"
	}
	return string(b), "ok"
}

// c12ConstraintMeaning compares the conjunction of the given `// +build`-syntax expressions with the
// `//go:build` line of the output on every assignment of the tags mentioned (at most 2^12).
func c12ConstraintMeaning(given []string, lines []string) string {
	var want []constraint.Expr
	for _, e := range given {
		x, err := constraint.Parse("// +build " + e)
		if err != nil {
			return "" // not a valid expression for the toolchain: nothing to compare
		}
		want = append(want, x)
	}
	var got []constraint.Expr
	nGo := 0
	for _, l := range lines {
		if constraint.IsGoBuild(l) {
			x, err := constraint.Parse(l)
			if err != nil {
				return "constraints-unparsable"
			}
			got = append(got, x)
			nGo++
		}
	}
	if nGo > 1 {
		return "constraints-multiple-gobuild"
	}
	if len(want) > 0 && nGo == 0 {
		return "constraints-missing"
	}
	tagset := map[string]bool{}
	var collect func(x constraint.Expr)
	collect = func(x constraint.Expr) {
		switch x := x.(type) {
		case *constraint.AndExpr:
			collect(x.X)
			collect(x.Y)
		case *constraint.OrExpr:
			collect(x.X)
			collect(x.Y)
		case *constraint.NotExpr:
			collect(x.X)
		case *constraint.TagExpr:
			tagset[x.Tag] = true
		}
	}
	for _, x := range append(append([]constraint.Expr{}, want...), got...) {
		collect(x)
	}
	var tags []string
	for t := range tagset {
		tags = append(tags, t)
	}
	sort.Strings(tags)
	if len(tags) > 12 {
		tags = tags[:12]
	}
	for m := 0; m < 1<<len(tags); m++ {
		on := map[string]bool{}
		for i, t := range tags {
			on[t] = m&(1<<i) != 0
		}
		ok := func(t string) bool { return on[t] }
		w, g := true, true
		for _, x := range want {
			w = w && x.Eval(ok)
		}
		for _, x := range got {
			g = g && x.Eval(ok)
		}
		if w != g {
			return "constraints-meaning"
		}
	}
	return ""
}

var c12ReListMarker = regexp.MustCompile(`^([-*+•]|[0-9]+[.)])$`)

// c12DocWords: go/format re-indents, normalises list markers (`*`, `+` become `-`, numbers are
// renumbered) and moves link definitions to the end of the comment; the words stay, in order
// (compared as a multiset when the doc has link-definition lines).
func c12DocWords(text string, multiset bool) string {
	ws := strings.Fields(text)
	for k, w := range ws {
		if c12ReListMarker.MatchString(w) {
			ws[k] = "-"
		}
	}
	if multiset {
		sort.Strings(ws)
	}
	return strings.Join(ws, " ")
}

func c12HasNL(ss ...string) bool {
	for _, s := range ss {
		if strings.ContainsAny(s, "\n\r") {
			return true
		}
	}
	return false
}

// c12Measure judges the real stub output with the Go toolchain.
func c12Measure(c *c12Case, out string) string {
	v := c12MeasureRaw(c, out)
	if strings.HasPrefix(v, "decl-") || strings.HasPrefix(v, "directive") || strings.HasPrefix(v, "doc-") {
		// finding: a newline inside a doc line / pragma token is printed raw and what follows it is
		// parsed as Go declarations
		for _, fn := range c.file.Functions() {
			if c12HasNL(fn.Doc...) {
				return "newline-injects-declaration/doc:" + v
			}
			for _, p := range fn.Pragmas {
				if c12HasNL(p.Directive) || c12HasNL(p.Arguments...) {
					return "newline-injects-declaration/pragma:" + v
				}
			}
		}
	}
	return v
}

func c12MeasureRaw(c *c12Case, out string) string {
	fset := token.NewFileSet()
	af, err := parser.ParseFile(fset, "stub.go", out, parser.ParseComments)
	if err != nil {
		return "parse-error"
	}
	if af.Name.Name != c.cfg.Pkg {
		return "package-name"
	}
	if len(af.Imports) != 0 {
		return "unexpected-imports"
	}
	// the generated-code comment is the first line and names the tool / command line verbatim
	// (expected text computed here from the configuration, not taken from avo)
	gen := c.cfg.Name
	if c.cfg.Argv != nil {
		gen = "command: " + strings.Join(c.cfg.Argv, " ")
	}
	if first, _, _ := strings.Cut(out, "\n"); first != strings.TrimSpace("// Code generated by "+gen+". DO NOT EDIT.") {
		return "generated-comment"
	}
	// build constraint lines anywhere in the file: exactly the file's constraint block
	var cons []string
	for _, l := range strings.Split(out, "\n") {
		if constraint.IsGoBuild(l) || constraint.IsPlusBuild(l) {
			cons = append(cons, l)
		}
	}
	if want, err := c12ConstraintLines(c.file); err != nil || strings.Join(cons, "\n") != strings.Join(want, "\n") {
		// finding: a doc line `+build …` is printed as `// +build …`, which go/format takes for a
		// build constraint: it moves it into the header and adds the //go:build line
		for _, fn := range c.desc.Fns {
			for _, l := range fn.Doc {
				if constraint.IsPlusBuild(strings.TrimSpace("// " + l)) {
					return "constraints-changed/doc-plusbuild"
				}
			}
		}
		return "constraints-changed"
	}
	// … and it MEANS what the descriptor's constraint expressions mean (independent expectation:
	// go/build/constraint on the expressions the harness handed to avo, all tag assignments)
	if v := c12ConstraintMeaning(c.desc.Cons, cons); v != "" {
		return v
	}
	if len(af.Decls) != len(c.fns) {
		return "decl-count"
	}
	irfns := c.file.Functions()
	if len(irfns) != len(c.fns) {
		return "ir-function-count"
	}
	for i, d := range af.Decls {
		fd, ok := d.(*ast.FuncDecl)
		if !ok || fd.Body != nil || fd.Recv != nil || fd.Type.TypeParams != nil {
			return fmt.Sprintf("decl-kind/%d", i)
		}
		if fd.Name.Name != c.fns[i].name {
			return fmt.Sprintf("decl-name/%d", i)
		}
		// directives: the last lines of the doc group, in order
		var dirs []string
		if fd.Doc != nil {
			for _, cm := range fd.Doc.List {
				if strings.HasPrefix(cm.Text, "//go:") {
					dirs = append(dirs, cm.Text)
				} else if len(dirs) > 0 {
					return fmt.Sprintf("directive-not-last/%d", i)
				}
			}
			// the doc group must end on the line before the declaration
			if fset.Position(fd.Doc.End()).Line+1 != fset.Position(fd.Pos()).Line {
				return fmt.Sprintf("doc-detached/%d", i)
			}
		}
		var want []string
		for _, p := range c.desc.Fns[i].Pragmas {
			want = append(want, "//go:"+strings.Join(p, " "))
		}
		if strings.Join(dirs, "\n") != strings.Join(want, "\n") {
			return fmt.Sprintf("directives/%d", i)
		}
		given := c.desc.Fns[i].Doc
		multiset := false
		for _, l := range given {
			if strings.HasPrefix(strings.TrimSpace(l), "[") {
				multiset = true
			}
		}
		if c12DocWords(fd.Doc.Text(), multiset) != c12DocWords(strings.Join(given, " "), multiset) {
			return fmt.Sprintf("doc-text/%d", i)
		}
		// type identity with the signature the harness evaluated from the expression (same type
		// universe: the printed signature text is evaluated in the helper package's file scope)
		src := out[fset.Position(fd.Type.Params.Pos()).Offset:fset.Position(fd.Type.End()).Offset]
		tv, err := c.u.eval("func" + src)
		if err != nil {
			return fmt.Sprintf("signature-eval/%d", i)
		}
		if !types.Identical(tv.Type, c.fns[i].sig) {
			return fmt.Sprintf("signature-not-identical/%d", i)
		}
		ps, ok := tv.Type.(*types.Signature)
		if !ok || ps.Variadic() != c.fns[i].sig.Variadic() {
			return fmt.Sprintf("signature-variadic/%d", i)
		}
		// parameter and result NAMES are what the assembly refers to (types.Identical ignores them)
		for _, tup := range [][2]*types.Tuple{{ps.Params(), c.fns[i].sig.Params()}, {ps.Results(), c.fns[i].sig.Results()}} {
			for j := 0; j < tup[0].Len(); j++ {
				if tup[0].At(j).Name() != tup[1].At(j).Name() {
					return fmt.Sprintf("signature-names/%d", i)
				}
			}
		}
	}
	// the whole file type-checks together with the helper declarations
	hf, err := parser.ParseFile(fset, "types.go", c12HelperSource(c.cfg.Pkg), 0)
	if err != nil {
		return "helper-parse"
	}
	var terr error
	conf := types.Config{Importer: c12Importer{}, Error: func(e error) {
		if terr == nil {
			terr = e
		}
	}}
	pkg, _ := conf.Check(c.pkgpath, fset, []*ast.File{af, hf}, nil)
	if terr != nil {
		// finding: the stub printer emits no import declarations
		if m := regexp.MustCompile(`undefined: (unsafe|q)$`).FindStringSubmatch(terr.Error()); m != nil {
			for _, fn := range c.fns {
				if strings.Contains(fn.expr, m[1]+".") {
					return "type-error/missing-import"
				}
			}
		}
		return "type-error"
	}
	for i, fn := range c.fns {
		obj := pkg.Scope().Lookup(fn.name)
		if obj == nil {
			return fmt.Sprintf("not-declared/%d", i)
		}
		if _, ok := obj.(*types.Func); !ok {
			return fmt.Sprintf("not-func/%d", i)
		}
		// structural comparison across universes through the canonical string
		if types.TypeString(obj.Type(), func(*types.Package) string { return "" }) !=
			types.TypeString(fn.sig, func(*types.Package) string { return "" }) {
			return fmt.Sprintf("signature-string/%d", i)
		}
	}
	b, err := format.Source([]byte(out))
	if err != nil {
		return "format-error"
	}
	if string(b) != out {
		return c12Unstable(c, fset, af, out, string(b))
	}
	return "ok"
}

// c12Unstable classifies a go/format instability. Finding F16 is the class `doc-comment:code+list`:
// the two texts differ ONLY inside the non-directive lines of doc comment groups of declarations
// whose given doc has both an indented (code) line and a list-item line. Finding F16b is the class
// `doc-comment:linkdef+old-heading` (c12LinkDefThenOldHeading), same condition on where the texts differ.
func c12Unstable(c *c12Case, fset *token.FileSet, af *ast.File, out, again string) string {
	docLines := map[int]int{} // line → function index
	for i, d := range af.Decls {
		fd, ok := d.(*ast.FuncDecl)
		if !ok || fd.Doc == nil {
			continue
		}
		for _, cm := range fd.Doc.List {
			if !strings.HasPrefix(cm.Text, "//go:") {
				docLines[fset.Position(cm.Pos()).Line] = i
			}
		}
	}
	// everything outside those lines must be untouched, line for line, after removing them
	strip := func(t string, lines map[int]int) string {
		var ls []string
		for k, l := range strings.Split(t, "\n") {
			if _, ok := lines[k+1]; !ok {
				ls = append(ls, l)
			}
		}
		return strings.Join(ls, "\n")
	}
	fset2 := token.NewFileSet()
	af2, err := parser.ParseFile(fset2, "stub.go", again, parser.ParseComments)
	if err != nil || len(af2.Decls) != len(af.Decls) {
		return "not-gofmt-stable/code"
	}
	docLines2 := map[int]int{}
	changed := map[int]bool{}
	for i, d := range af2.Decls {
		fd2, ok := d.(*ast.FuncDecl)
		fd1, ok1 := af.Decls[i].(*ast.FuncDecl)
		if !ok || !ok1 {
			return "not-gofmt-stable/code"
		}
		var t1, t2 []string
		if fd1.Doc != nil {
			for _, cm := range fd1.Doc.List {
				t1 = append(t1, cm.Text)
			}
		}
		if fd2.Doc != nil {
			for _, cm := range fd2.Doc.List {
				t2 = append(t2, cm.Text)
				if !strings.HasPrefix(cm.Text, "//go:") {
					docLines2[fset2.Position(cm.Pos()).Line] = i
				}
			}
		}
		if strings.Join(t1, "\n") != strings.Join(t2, "\n") {
			changed[i] = true
		}
	}
	if strip(out, docLines) != strip(again, docLines2) {
		return "not-gofmt-stable/code"
	}
	// classes, by the GIVEN doc of every declaration whose comment changed (deterministic order;
	// precedence other > linkdef+old-heading > code+list)
	verdict := "not-gofmt-stable/doc-comment:code+list"
	idx := make([]int, 0, len(changed))
	for i := range changed {
		idx = append(idx, i)
	}
	sort.Ints(idx)
	for _, i := range idx {
		code, list := false, false
		for _, l := range c.desc.Fns[i].Doc {
			t := strings.TrimLeft(l, " \t")
			if t != l && t != "" {
				code = true
			}
			if fs := strings.Fields(l); len(fs) > 0 && c12ReListMarker.MatchString(fs[0]) {
				list = true
			}
		}
		switch {
		case code && list:
		case c12LinkDefThenOldHeading(c.desc.Fns[i].Doc):
			verdict = "not-gofmt-stable/doc-comment:linkdef+old-heading"
		default:
			return "not-gofmt-stable/doc-comment:other"
		}
	}
	return verdict
}

var c12ReLinkDef = regexp.MustCompile(`^\[[^\]\n]+\]:\s+\S+\s*$`)

// c12LinkDefThenOldHeading: finding F16b. The doc has a link-definition line and ends with a one-line
// paragraph (blank line or code block before it) that go/doc/comment would read as an old-style heading if something
// followed it (isOldHeading: starts with an upper-case letter, ends with a letter or digit, none of
// `;:!?+*/=[]{}_^°&§~%#@<">\`, `'` only as possessive, `.` only inside a word). The first format pass moves
// the link definition to the END of the comment; only then is the last line followed by a blank line and
// an unindented line, and the second pass rewrites it as `# heading`.
func c12LinkDefThenOldHeading(doc []string) bool {
	n := len(doc)
	// the last line is a paragraph of its own: the line before it is blank, or an indented (code) line
	// (go/format separates a code block from what follows by a blank line)
	if n < 3 || (strings.TrimSpace(doc[n-2]) != "" && strings.TrimLeft(doc[n-2], " \t") == doc[n-2]) {
		return false
	}
	def := false
	for _, l := range doc[:n-2] {
		if c12ReLinkDef.MatchString(l) {
			def = true
		}
	}
	line := strings.TrimSpace(doc[n-1])
	if !def || line == "" || strings.TrimLeft(doc[n-1], " \t") != doc[n-1] {
		return false
	}
	rs := []rune(line)
	if !unicode.IsLetter(rs[0]) || !unicode.IsUpper(rs[0]) {
		return false
	}
	if last := rs[len(rs)-1]; !unicode.IsLetter(last) && !unicode.IsDigit(last) {
		return false
	}
	if strings.ContainsAny(line, ";:!?+*/=[]{}_^°&§~%#@<\">\\") {
		return false
	}
	for b := line; ; {
		var ok bool
		if _, b, ok = strings.Cut(b, "'"); !ok {
			break
		}
		if b != "s" && !strings.HasPrefix(b, "s ") {
			return false
		}
	}
	for b := line; ; {
		var ok bool
		if _, b, ok = strings.Cut(b, "."); !ok {
			break
		}
		if b == "" || strings.HasPrefix(b, " ") {
			return false
		}
	}
	return true
}

// c12WellFormed: no newline in any token; Stub() is `func NAME(`… with no `(` in NAME; the constraint
// lines are //go:build or // +build lines, none when the file has no constraints.
func c12WellFormed(c *c12Case) bool {
	nonl := func(ss ...string) bool {
		for _, s := range ss {
			if strings.Contains(s, "\n") {
				return false
			}
		}
		return true
	}
	if !nonl(c.cfg.Name, c.cfg.Pkg) || !nonl(c.cfg.Argv...) {
		return false
	}
	cons, err := c12ConstraintLines(c.file)
	if err != nil {
		return false
	}
	if len(c.file.Constraints) == 0 && len(cons) > 0 {
		return false
	}
	for _, l := range cons {
		if !nonl(l) || !(strings.HasPrefix(l, "//go:build") || strings.HasPrefix(l, "// +build")) {
			return false
		}
	}
	for _, fn := range c.file.Functions() {
		if !nonl(fn.Doc...) || !nonl(fn.Stub()) || strings.Contains(fn.Name, "(") || !strings.HasPrefix(fn.Stub(), "func "+fn.Name+"(") {
			return false
		}
		for _, p := range fn.Pragmas {
			if !nonl(p.Directive) || !nonl(p.Arguments...) {
				return false
			}
		}
	}
	return true
}

func c12Emit(o *out, c *c12Case, st map[string]int) (stub, asm string, ok bool) {
	e := &c12Enc{}
	c12EncodeCfg(e, c.cfg)
	if err := c12EncodeFile(e, c.file); err != nil {
		st["encode_error"]++
		return "", "", false
	}
	fe := &c12Enc{}
	if err := c12EncodeFile(fe, c.file); err != nil {
		return "", "", false
	}
	// the token hypotheses of the text-level theorems (Props/C12 `WFStubs`), evaluated by the harness
	// on the real values and by the driver on the transmitted ones
	wf := c12WellFormed(c)
	st["wf_"+c12B01(wf)]++
	o.emit("wf-stubs "+e.String(), c12B01(wf))
	var status string
	if c.produced != nil {
		stub, status = c.produced.stub, c.produced.status
	} else {
		stub, status = c12Stubs(c.cfg, c.file)
	}
	st["stubs_"+status]++
	if status != "ok" {
		o.emit("stubs "+e.String(), status)
		return "", "", false
	}
	o.emit("stubs "+e.String(), hexs(stub))
	o.emit("accept-stubs "+e.String()+" "+hexs(stub), "ok")
	// user text transported verbatim (Lean acceptor `acceptVerbatim`): generated-code comment, and every
	// declaration equal to Stub() up to layout characters
	o.emit("accept-verbatim "+e.String()+" "+hexs(stub), "ok")
	var astatus string
	if c.produced != nil {
		asm, astatus = c.produced.asm, c.produced.astatus
	} else {
		asm, astatus = c12PrintAsm(c.cfg, c.file)
	}
	if astatus == "ok" {
		st["judged_cons"]++
		o.emit("accept-cons "+fe.String()+" "+hexs(asm)+" "+hexs(stub), "ok")
	}
	st["judged_gostub"]++
	nd, np := 0, 0
	for _, fn := range c.file.Functions() {
		if len(fn.Doc) > 0 {
			nd++
		}
		if len(fn.Pragmas) > 0 {
			np++
		}
		if len(fn.Doc) > 0 && len(fn.Pragmas) > 0 {
			st["judged_fn_doc_and_pragma"]++
		}
	}
	for _, fn := range c.file.Functions() {
		c12AlphabetStats(st, "judged_stub", fn.Stub())
		for _, l := range fn.Doc {
			c12AlphabetStats(st, "judged_doc", l)
		}
		for _, p := range fn.Pragmas {
			for _, a := range p.Arguments {
				c12AlphabetStats(st, "judged_pragma_arg", a)
			}
		}
	}
	c12AlphabetStats(st, "judged_cfg", c.cfg.Name+" "+strings.Join(c.cfg.Argv, " "))
	c12AlphabetStats(st, "judged_pkg", c.cfg.Pkg)
	if cons, err := c12ConstraintLines(c.file); err == nil {
		for _, l := range cons {
			if strings.IndexFunc(l, func(r rune) bool { return r >= 0x80 }) >= 0 {
				st["judged_cons_nonascii"]++
				break
			}
		}
	}
	st["judged_fn"] += len(c.file.Functions())
	st["judged_fn_doc"] += nd
	st["judged_fn_pragma"] += np
	for _, fn := range c.fns {
		if fn.sig.Variadic() {
			st["judged_fn_variadic"]++
		}
		if strings.Contains(fn.expr, "struct{") || strings.Contains(fn.expr, "interface{ ") {
			st["judged_fn_literal_type"]++
		}
	}
	if nd == 0 && len(c.fns) > 0 {
		st["judged_file_without_doc"]++
	}
	o.emit("accept-gostub "+c12Measure(c, stub)+" "+e.String(), "ok")
	return stub, asm, astatus == "ok"
}

// c12AlphabetStats counts, per position copied into the stub file, the texts that contain characters special
// to some layer (the sample floors of the check are on these counters: measured on what reached the printer).
func c12AlphabetStats(st map[string]int, key, text string) {
	if strings.Contains(text, "%") {
		st[key+"_percent"]++
	}
	if strings.ContainsAny(text, "\"\\") {
		st[key+"_quote_backslash"]++
	}
	if strings.Contains(text, "`") {
		st[key+"_backquote"]++
	}
	if strings.Contains(text, "//") || strings.Contains(text, "/*") {
		st[key+"_comment_marker"]++
	}
	for i := 0; i < len(text); i++ {
		if text[i] >= 0x80 {
			st[key+"_nonascii"]++
			break
		}
	}
}

// c12Forced: witnesses of the listed findings, produced by every run.
func c12Forced() []c12Desc {
	one := func(fn c12FnDesc, via string) c12Desc {
		return c12Desc{Tool: "avo", Pkg: "p", Via: via, Fns: []c12FnDesc{fn}}
	}
	return []c12Desc{
		// F16: go/format is not idempotent on this doc comment
		one(c12FnDesc{Name: "f", Sig: "func(x uint64) uint64", Route: "new", Doc: []string{"  indented code", " - item", "  indented code"}}, "ir"),
		// F16b: link definition + final old-style-heading look-alike
		one(c12FnDesc{Name: "f", Sig: "func(x uint64) uint64", Route: "new", Doc: []string{"f does it.", "", "[Link]: https://x.y", "", "Notes"}}, "ir"),
		// C12-doc-newline / C12-pragma-newline
		one(c12FnDesc{Name: "f", Sig: "func(x uint64) uint64", Route: "expr", Doc: []string{"f doc", c12DocNewline}}, "ctx"),
		one(c12FnDesc{Name: "f", Sig: "func(x uint64) uint64", Route: "expr", Pragmas: [][]string{{c12PragmaNewline}}}, "ctx"),
		// C12-doc-plusbuild
		one(c12FnDesc{Name: "f", Sig: "func(x uint64) uint64", Route: "expr", Doc: []string{"f does it.", c12DocPlusBuild}}, "ctx"),
		// C12-missing-import
		one(c12FnDesc{Name: "f", Sig: "func(p unsafe.Pointer, n int)", Route: "new"}, "ctx"),
		one(c12FnDesc{Name: "Sum", Sig: "func(d q.D, s *q.S) q.D", Route: "lookup"}, "ir"),
		one(c12FnDesc{Name: "Fill", Sig: "func(p unsafe.Pointer, d q.D) (n int)", Route: "lookup"}, "implement"),
		// shapes every run must contain (seeded changes C12-1..4)
		one(c12FnDesc{Name: "Sum", Sig: "func(base uint64, xs ...uint64) uint64", Route: "expr"}, "ctx"),
		one(c12FnDesc{Name: "Sum", Sig: "func(base T, xs ...*T) (r U)", Route: "lookup", Doc: []string{"Sum adds."}, Pragmas: [][]string{{"noescape"}}}, "implement"),
		one(c12FnDesc{Name: "Split", Sig: "func(v uint64) (r struct{lo uint32; hi uint32})", Route: "parse"}, "ir"),
		one(c12FnDesc{Name: "Split", Sig: "func(v interface{ M(x int); N() }) (r struct{lo uint32})", Route: "expr", Pragmas: [][]string{{"nosplit"}}}, "ctx"),
		one(c12FnDesc{Name: "Add", Sig: "func(x, y *uint64, z *uint64)", Route: "expr", Doc: []string{"Add adds x and y.", "", "None of the pointers escape."}, Pragmas: [][]string{{"noescape"}, {"nosplit"}}}, "ctx"),
		// user text over the whole alphabet in every position copied into the stub file (seeded change C12-6):
		// fmt verbs, both quoting characters, backslash, comment markers, escapes, non-ASCII
		one(c12FnDesc{Name: "Dump", Sig: "func(s struct{ Lo uint32 `fmt:\"%08x\"`; Hi uint32 `%d %s %v %% %!` }) uint32", Route: "expr"}, "ctx"),
		one(c12FnDesc{Name: "Dump", Sig: "func(s struct{ A T \"a`b\\\\c\\\"d\\ne//f/*g*/\\x00\\xff\"; U `%[1]*d` }) (r struct{ _ int8 \"%!x(MISSING)\" })", Route: "parse"}, "ir"),
		one(c12FnDesc{Name: "Dump", Sig: "func(m map[struct{ k int8 `%s` }]func(struct{ v T \"100%\" }) chan struct{ c U `%v;` })", Route: "lookup",
			Doc: []string{"Dump is 100% %d %s %v %% %! \\n \"q\" `raw` it's /* */ // · 世界"}, Pragmas: [][]string{{"linkname", "Dump", "runtime.dump%d"}, {"wasmimport", "100%s", "`%v`\\\"·"}}}, "implement"),
		{Tool: "%d%s \"q\" `r` \\ é·", Pkg: "π", HasArgv: true, Argv: []string{"go", "run", "%v.go", "-tag=`x\\`", "世界"}, Cons: []string{"ünï"}, Via: "ctx",
			Fns: []c12FnDesc{{Name: "Σ", Sig: "func(ñ Ünï, _ struct{ é int \"é·世\" }) (ρ uint64)", Route: "new", Doc: []string{"Σ summe · %"}, Pragmas: [][]string{{"linkname", "Σ", "runtime·σ%"}}}}},
	}
}

func c12ReadDescs(path string) ([]c12Desc, error) {
	lines, err := readLines(path)
	if err != nil {
		return nil, err
	}
	var ds []c12Desc
	for _, l := range lines {
		l = strings.TrimSpace(l)
		if l == "" || strings.HasPrefix(l, "#") {
			continue
		}
		var d c12Desc
		if err := json.Unmarshal([]byte(l), &d); err != nil {
			return nil, fmt.Errorf("corpus line %q: %v", l, err)
		}
		ds = append(ds, d)
	}
	return ds, nil
}

func init() {
	register("c12", "stub printer: model tie (through go/format), acceptor, go/parser+go/types measurements", func(args []string) error {
		f := newStdFlags("c12")
		work := f.fs.String("work", ".", "scratch directory")
		descs := f.fs.String("descs", "", "write the case descriptors (JSON lines) here")
		if err := f.fs.Parse(args); err != nil {
			return err
		}
		o, err := openOut(f)
		if err != nil {
			return err
		}
		defer o.close()
		r := newRng(*f.seed)
		st := map[string]int{}
		g := &c12Gen{r: r, st: st, foreign: true}
		var ds []c12Desc
		if *f.replay != "" {
			if ds, err = c12ReadDescs(*f.replay); err != nil {
				return err
			}
		} else {
			ds = c12Forced()
			st["forced"] = len(ds)
			nimpl := 3
			if *f.tier != "quick" {
				nimpl = 40
			}
			for k := len(ds); k < *f.n; k++ {
				d := g.desc(false)
				if nimpl > 0 && len(d.Fns) > 0 && k%7 == 3 {
					d.Via = "implement"
					nimpl--
				}
				ds = append(ds, d)
			}
		}
		var dw *bufio.Writer
		if *descs != "" {
			df, err := os.Create(*descs)
			if err != nil {
				return err
			}
			defer df.Close()
			dw = bufio.NewWriter(df)
			defer dw.Flush()
		}
		for k, d := range ds {
			if dw != nil {
				b, _ := json.Marshal(d)
				dw.Write(b)
				dw.WriteByte('\n')
			}
			c, err := c12BuildCase(d, k, false, *work, st)
			if err != nil {
				st["gen_error"]++
				if st["gen_error"] <= 5 {
					fmt.Fprintf(os.Stderr, "c12: case %d dropped: %v\n", k, err)
				}
				continue
			}
			c12Emit(o, c, st)
		}
		st["cases"] = len(ds)
		return writeJSON(*f.stats, st)
	})
	register("c12fmt", "apply go/format to the model's `stubs` answers", func(args []string) error {
		f := newStdFlags("c12fmt")
		model := f.fs.String("model", "", "driver output")
		outp := f.fs.String("out", "", "post-processed driver output")
		if err := f.fs.Parse(args); err != nil {
			return err
		}
		fo, err := os.Open(*f.ops)
		if err != nil {
			return err
		}
		defer fo.Close()
		fm, err := os.Open(*model)
		if err != nil {
			return err
		}
		defer fm.Close()
		fi, err := os.Open(*f.impl)
		if err != nil {
			return err
		}
		defer fi.Close()
		w, err := os.Create(*outp)
		if err != nil {
			return err
		}
		defer w.Close()
		bw := bufio.NewWriterSize(w, 1<<20)
		defer bw.Flush()
		so := bufio.NewScanner(fo)
		sm := bufio.NewScanner(fm)
		si := bufio.NewScanner(fi)
		so.Buffer(make([]byte, 1<<20), 1<<28)
		sm.Buffer(make([]byte, 1<<20), 1<<28)
		si.Buffer(make([]byte, 1<<20), 1<<28)
		for so.Scan() && sm.Scan() && si.Scan() {
			req, resp, impl := so.Text(), sm.Text(), si.Text()
			if strings.HasPrefix(req, "stubs ") {
				if b, err := hex.DecodeString(resp); err == nil || resp == "-" {
					src, ferr := format.Source(b)
					if ferr != nil {
						resp = "error"
					} else {
						resp = hexs(string(src))
						// the property asks for a gofmt-STABLE file: an implementation that formats
						// until the text no longer changes is as good as one that formats once
						cur := src
						for k := 0; k < 4 && resp != impl; k++ {
							nx, err := format.Source(cur)
							if err != nil || string(nx) == string(cur) {
								break
							}
							cur = nx
							if hexs(string(cur)) == impl {
								resp = impl
							}
						}
					}
				}
			}
			bw.WriteString(resp)
			bw.WriteByte('\n')
		}
		return nil
	})
	register("c12build", "stub+asm pairs: go list, go build, go vet -asmdecl, link", c12RunBuild)
}

// c12Leaf finds a primitive component of a parameter/result to load from / store into.
func c12Leaf(c gotypes.Component, t types.Type, depth int) (gotypes.Component, *gotypes.Basic) {
	if depth > 6 {
		return nil, nil
	}
	if b, err := c.Resolve(); err == nil {
		return c, b
	}
	switch u := t.Underlying().(type) {
	case *types.Struct:
		for i := 0; i < u.NumFields(); i++ {
			if u.Field(i).Name() == "_" {
				continue
			}
			if l, b := c12Leaf(c.Field(u.Field(i).Name()), u.Field(i).Type(), depth+1); b != nil {
				return l, b
			}
		}
	case *types.Array:
		if u.Len() > 0 {
			return c12Leaf(c.Index(0), u.Elem(), depth+1)
		}
	case *types.Slice:
		return c12Leaf(c.Len(), types.Typ[types.Int], depth+1)
	case *types.Basic:
		if u.Kind() == types.String {
			return c12Leaf(c.Len(), types.Typ[types.Int], depth+1)
		}
		if u.Info()&types.IsComplex != 0 {
			ft := types.Typ[types.Float64]
			if u.Kind() == types.Complex64 {
				ft = types.Typ[types.Float32]
			}
			return c12Leaf(c.Real(), ft, depth+1)
		}
	}
	return nil, nil
}

func c12RegFor(b *gotypes.Basic) reg.Register {
	if b.Type.Info()&types.IsFloat != 0 {
		return reg.X0
	}
	switch gotypes.Sizes.Sizeof(b.Type) {
	case 1:
		return reg.AL
	case 2:
		return reg.AX
	case 4:
		return reg.EAX
	}
	return reg.RAX
}

type c12ListPkg struct {
	ImportPath        string
	GoFiles           []string
	SFiles            []string
	IgnoredGoFiles    []string
	IgnoredOtherFiles []string
	Error             *struct{ Err string }
}

// c12Declared lists the functions a stub file declares (go/parser; independent of avo's list).
func c12Declared(stub string) []string {
	af, err := parser.ParseFile(token.NewFileSet(), "stub.go", stub, 0)
	if err != nil {
		return nil
	}
	var ns []string
	for _, d := range af.Decls {
		if fd, ok := d.(*ast.FuncDecl); ok && fd.Recv == nil && fd.Body == nil && fd.Name.Name != "_" {
			ns = append(ns, fd.Name.Name)
		}
	}
	return ns
}

var c12ReFoundIn = regexp.MustCompile(`found packages .* in (/\S+)$`)

type c12Built struct {
	c    *c12Case
	enc  string
	dir  string
	stub string
}

// c12BuildPairs: the pairs (stub.go + asm.s + types.go written in b.dir, package path b.c.pkgpath of module m
// rooted at mod) are listed, built, vetted and linked; one `accept-build` line per pair.
func c12BuildPairs(mod string, cases []c12Built, o *out, st map[string]int) error {
	run := func(args ...string) (string, error) {
		cmd := exec.Command("go", args...)
		cmd.Dir = mod
		cmd.Env = append(os.Environ(), "GOFLAGS=-mod=mod", "GOWORK=off")
		b, err := cmd.CombinedOutput()
		return string(b), err
	}
	// 1. both files of a pair are selected or ignored together
	listOut, err := run("list", "-e", "-json=ImportPath,GoFiles,SFiles,IgnoredGoFiles,IgnoredOtherFiles,Error", "./...")
	if err != nil {
		return fmt.Errorf("go list: %v: %s", err, listOut)
	}
	included := map[string]string{}
	listErr := map[string]string{}
	dec := json.NewDecoder(strings.NewReader(listOut))
	for dec.More() {
		var p c12ListPkg
		if err := dec.Decode(&p); err != nil {
			return fmt.Errorf("go list output: %v", err)
		}
		has := func(xs []string, x string) bool {
			for _, y := range xs {
				if y == x {
					return true
				}
			}
			return false
		}
		g, s := has(p.GoFiles, "stub.go"), has(p.SFiles, "asm.s")
		ig, is := has(p.IgnoredGoFiles, "stub.go"), has(p.IgnoredOtherFiles, "asm.s")
		switch {
		case g && s:
			included[p.ImportPath] = "both"
		case ig && is:
			included[p.ImportPath] = "neither"
		default:
			included[p.ImportPath] = "split"
			if p.Error != nil {
				// e.g. "found packages v2 (stub.go) and xxhash (types.go)": the stub is not in the package of the directory
				included[p.ImportPath] = "list-error"
				listErr[p.ImportPath] = p.Error.Err
			}
		}
	}
	// 2. every package whose pair is selected gets a Go file referencing every function the stub
	// file DECLARES (function values: the linker must resolve each symbol)
	for _, b := range cases {
		if included[b.c.pkgpath] != "both" {
			continue
		}
		ns := c12Declared(b.stub)
		src := "package " + b.c.cfg.Pkg + "\n\n// C12Refs references every function declared in stub.go.\nfunc C12Refs() []any {\n\treturn []any{" + strings.Join(ns, ", ") + "}\n}\n"
		os.WriteFile(filepath.Join(b.dir, "refs.go"), []byte(src), 0o644)
	}
	// 3. go build and go vet -asmdecl over the whole module; failures are attributed to packages
	buildOut, berr := run("build", "./...")
	vetOut, verr := run("vet", "-asmdecl", "./...")
	bad := func(out string) map[string]string {
		m := map[string]string{}
		cur := ""
		for _, l := range strings.Split(out, "\n") {
			if strings.HasPrefix(l, "# ") {
				cur = strings.Fields(l)[1]
				continue
			}
			if strings.TrimSpace(l) == "" {
				continue
			}
			key := cur
			if key == "" {
				for _, fn := range []string{"/asm.s", "/stub.go", "/refs.go", "/types.go"} {
					if i := strings.Index(l, fn); i > 0 {
						// the directory of the file, relative to the module root (nested for the CLI pairs)
						d := l[:i]
						if j := strings.LastIndexAny(d, " \t"); j >= 0 {
							d = d[j+1:]
						}
						d = strings.TrimPrefix(d, "./")
						if filepath.IsAbs(d) {
							if r, err := filepath.Rel(mod, d); err == nil {
								d = r
							}
						}
						key = "m/" + filepath.ToSlash(d)
						break
					}
				}
			}
			if key == "" {
				// "found packages v2 (stub.go) and xxhash (types.go) in <dir>"
				if mm := c12ReFoundIn.FindStringSubmatch(l); mm != nil {
					if r, err := filepath.Rel(mod, mm[1]); err == nil {
						key = "m/" + filepath.ToSlash(r)
					}
				}
			}
			if _, ok := m[key]; !ok {
				m[key] = l
			}
		}
		return m
	}
	bbad, vbad := map[string]string{}, map[string]string{}
	if berr != nil {
		bbad = bad(buildOut)
	}
	if verr != nil {
		vbad = bad(vetOut)
	}
	// 4. link: package main calling C12Refs of every selected package that compiled
	lbad := map[string]string{}
	var linked []c12Built
	for _, b := range cases {
		if included[b.c.pkgpath] == "both" && bbad[b.c.pkgpath] == "" {
			linked = append(linked, b)
		}
	}
	if len(linked) > 0 {
		var sb strings.Builder
		sb.WriteString("package main\n\nimport (\n")
		for i, b := range linked {
			fmt.Fprintf(&sb, "\tl%d %q\n", i, b.c.pkgpath)
		}
		sb.WriteString(")\n\nvar sink [][]any\n\nfunc main() {\n")
		for i := range linked {
			fmt.Fprintf(&sb, "\tsink = append(sink, l%d.C12Refs())\n", i)
		}
		sb.WriteString("\tprintln(len(sink))\n}\n")
		ldir := filepath.Join(mod, "cmd", "c12link")
		if err := os.MkdirAll(ldir, 0o755); err != nil {
			return err
		}
		os.WriteFile(filepath.Join(ldir, "main.go"), []byte(sb.String()), 0o644)
		linkOut, lerr := run("build", "-o", filepath.Join(mod, "c12link.bin"), "./cmd/c12link")
		if lerr != nil {
			re := regexp.MustCompile(`relocation target (m/[A-Za-z0-9_/-]+)\.(\S+) not defined`)
			for _, l := range strings.Split(linkOut, "\n") {
				if m := re.FindStringSubmatch(l); m != nil {
					if _, ok := lbad[m[1]]; !ok {
						lbad[m[1]] = l
					}
				}
			}
			if len(lbad) == 0 {
				return fmt.Errorf("go build of the linking executable failed without attributable output: %s", linkOut)
			}
		} else if out, err := exec.Command(filepath.Join(mod, "c12link.bin")).CombinedOutput(); err != nil || strings.TrimSpace(string(out)) != itoa(len(linked)) {
			return fmt.Errorf("linked executable: %v: %s", err, out)
		}
	}
	for _, b := range cases {
		path := b.c.pkgpath
		verdict := "ok"
		switch {
		case included[path] == "list-error":
			verdict = "package-does-not-load"
			bbad[path] = listErr[path]
		case included[path] == "split" || included[path] == "":
			verdict = "constraints-split"
		case bbad[path] != "":
			verdict = "build-failed"
		case vbad[path] != "":
			verdict = "vet-asmdecl"
		case lbad[path] != "":
			verdict = "link-failed"
		}
		st["pair_"+included[path]]++
		if included[path] == "both" && bbad[path] == "" {
			st["pair_linked"]++
		}
		detail := "-"
		if verdict != "ok" {
			detail = hexs(bbad[path] + " | " + vbad[path] + " | " + lbad[path])
		}
		o.emit("accept-build "+verdict+" "+detail+" "+b.enc, "ok")
	}
	if berr != nil && len(bbad) == 0 {
		return fmt.Errorf("go build failed without attributable output: %s", buildOut)
	}
	if _, ok := bbad[""]; ok {
		return fmt.Errorf("go build: unattributed failure: %s", bbad[""])
	}
	if _, ok := vbad[""]; ok {
		return fmt.Errorf("go vet: unattributed failure: %s", vbad[""])
	}
	return nil
}

func c12RunBuild(args []string) error {
	f := newStdFlags("c12build")
	work := f.fs.String("work", ".", "scratch directory")
	if err := f.fs.Parse(args); err != nil {
		return err
	}
	o, err := openOut(f)
	if err != nil {
		return err
	}
	defer o.close()
	r := newRng(*f.seed ^ 0xc12b)
	st := map[string]int{}
	g := &c12Gen{r: r, st: st, vet: true}
	mod := filepath.Join(*work, "mod")
	os.RemoveAll(mod)
	if err := os.MkdirAll(filepath.Join(mod, "q"), 0o755); err != nil {
		return err
	}
	if err := os.WriteFile(filepath.Join(mod, "go.mod"), []byte("module m\n\ngo 1.22\n"), 0o644); err != nil {
		return err
	}
	if err := os.WriteFile(filepath.Join(mod, "q", "q.go"), []byte(c12QSource), 0o644); err != nil {
		return err
	}
	var cases []c12Built
	var ds []c12Desc
	if *f.replay != "" {
		if ds, err = c12ReadDescs(*f.replay); err != nil {
			return err
		}
	} else {
		for k := 0; k < *f.n; k++ {
			ds = append(ds, g.desc(true))
		}
	}
	for k, d := range ds {
		d.Via = "ctx"
		c, err := c12BuildCase(d, k, true, *work, st)
		if err != nil {
			st["build_error"]++
			if st["build_error"] <= 5 {
				fmt.Fprintf(os.Stderr, "c12build: case %d dropped: %v\n", k, err)
			}
			continue
		}
		stub, asm, ok := c12Emit(o, c, st)
		if !ok {
			continue
		}
		dir := filepath.Join(mod, fmt.Sprintf("p%d", k))
		if err := os.MkdirAll(dir, 0o755); err != nil {
			return err
		}
		os.WriteFile(filepath.Join(dir, "stub.go"), []byte(stub), 0o644)
		os.WriteFile(filepath.Join(dir, "asm.s"), []byte(asm), 0o644)
		os.WriteFile(filepath.Join(dir, "types.go"), []byte(c12HelperSource(c.cfg.Pkg)), 0o644)
		e := &c12Enc{}
		c12EncodeCfg(e, c.cfg)
		c12EncodeFile(e, c.file)
		cases = append(cases, c12Built{c, e.String(), dir, stub})
	}
	if err := c12BuildPairs(mod, cases, o, st); err != nil {
		return err
	}
	st["pairs"] = len(cases)
	st["cases"] = len(ds)
	return writeJSON(*f.stats, st)
}
