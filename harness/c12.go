package main

// C12: the stub printer.
//   c12      generated signatures × doc lines × pragmas × constraint sets × function counts:
//            the REAL printer.NewStubs output is (a) compared with go/format applied to the Lean
//            model's pre-format text (c12fmt post-processes the model's answers), (b) judged
//            by the Lean acceptor (package clause, declarations in order, directives, constraint
//            lines equal to those of the assembly output), (c) measured with the Go toolchain:
//            go/parser, go/types (file type-checks; every signature types.Identical to the one
//            given to avo), doc and directives attached, go/format idempotence;
//   c12fmt   format.Source over the model's `stubs` answers;
//   c12build a sample of stub+asm pairs written as packages of one throw-away module:
//            go list (both files under the same constraints), go build, go vet -asmdecl.

import (
	"bufio"
	"encoding/hex"
	"encoding/json"
	"fmt"
	"go/ast"
	"go/format"
	"go/parser"
	"go/token"
	"go/types"
	"os"
	"os/exec"
	"path/filepath"
	"sort"
	"strings"

	"github.com/mmcloughlin/avo/attr"
	"github.com/mmcloughlin/avo/build"
	"github.com/mmcloughlin/avo/buildtags"
	"github.com/mmcloughlin/avo/gotypes"
	"github.com/mmcloughlin/avo/ir"
	"github.com/mmcloughlin/avo/pass"
	"github.com/mmcloughlin/avo/printer"
	"github.com/mmcloughlin/avo/reg"
)

const p12HelperDecls = `
type T struct {
	A int32
	b [3]uint8
}

type U uint16

type V [2]T

type P *T
`

func p12HelperSource(pkg string) string { return "package " + pkg + "\n" + p12HelperDecls }

// p12TypesPackage type-checks the helper declarations: the package whose scope
// the signature expressions are evaluated in.
func p12TypesPackage(pkgname, path string) (*types.Package, error) {
	fset := token.NewFileSet()
	f, err := parser.ParseFile(fset, "types.go", p12HelperSource(pkgname), 0)
	if err != nil {
		return nil, err
	}
	conf := types.Config{}
	return conf.Check(path, fset, []*ast.File{f}, nil)
}

var p12Basics = []string{"bool", "int8", "int16", "int32", "int64", "uint8", "uint16", "uint32", "uint64", "int", "uint", "uintptr", "float32", "float64", "complex64", "complex128", "string", "byte", "rune"}

func p12GenType(r *rng, depth int, st map[string]int) string {
	k := r.intn(20)
	if depth >= 3 && k >= 10 {
		k = r.intn(10)
	}
	switch {
	case k < 9:
		st["type_basic"]++
		return pick(r, p12Basics)
	case k < 11:
		st["type_named"]++
		return pick(r, []string{"T", "U", "V", "P"})
	case k < 13:
		st["type_pointer"]++
		return "*" + p12GenType(r, depth+1, st)
	case k < 15:
		st["type_slice"]++
		return "[]" + p12GenType(r, depth+1, st)
	case k < 17:
		st["type_array"]++
		return fmt.Sprintf("[%d]%s", r.intn(5), p12GenType(r, depth+1, st))
	case k < 19:
		st["type_struct"]++
		n := r.intn(4)
		var fs []string
		names := []string{"a", "b", "C", "d", "e"}
		for i := 0; i < n; i++ {
			switch r.intn(6) {
			case 0:
				fs = append(fs, "_ "+p12GenType(r, depth+1, st))
			case 1:
				if i+1 < len(names)-1 {
					fs = append(fs, names[i]+"x, "+names[i]+"y "+p12GenType(r, depth+1, st))
					continue
				}
				fallthrough
			case 2:
				fs = append(fs, names[i]+" "+p12GenType(r, depth+1, st)+" `json:\"x\"`")
			default:
				fs = append(fs, names[i]+" "+p12GenType(r, depth+1, st))
			}
		}
		return "struct{" + strings.Join(fs, "; ") + "}"
	default:
		st["type_other"]++
		return pick(r, []string{"map[string]int", "chan int", "<-chan uint8", "func(int) (int, error)", "interface{}", "error", "interface{ M(x int) }", "map[T][]U", "func()"})
	}
}

// p12GenSignature returns a Go signature expression.
func p12GenSignature(r *rng, st map[string]int, storableResults bool) string {
	np := r.intn(5)
	mode := r.intn(3) // 0 unnamed, 1 named, 2 named with blanks
	var ps []string
	for i := 0; i < np; i++ {
		t := p12GenType(r, 0, st)
		if i == np-1 && r.chance(1, 5) {
			t = "..." + t
			st["sig_variadic"]++
		}
		switch mode {
		case 0:
			ps = append(ps, t)
		case 1:
			if i+1 < np && r.chance(1, 4) && !strings.HasPrefix(t, "...") {
				ps = append(ps, fmt.Sprintf("p%d, q%d %s", i, i, t))
			} else {
				ps = append(ps, fmt.Sprintf("p%d %s", i, t))
			}
		default:
			if r.chance(1, 2) {
				ps = append(ps, "_ "+t)
			} else {
				ps = append(ps, fmt.Sprintf("p%d %s", i, t))
			}
		}
	}
	st[fmt.Sprintf("sig_params_mode%d", mode)]++
	nr := r.intn(4)
	res := ""
	rmode := r.intn(3)
	var rs []string
	for i := 0; i < nr; i++ {
		t := p12GenType(r, 1, st)
		if storableResults {
			t = pick(r, []string{"uint64", "int32", "bool", "float64", "float32", "*byte", "uint8", "int16", "uintptr", "[]byte", "string", "[2]uint32", "struct{a uint16; b uint64}", "complex128", "T", "V", "*T", "[]T"})
		}
		switch rmode {
		case 0:
			rs = append(rs, t)
		case 1:
			rs = append(rs, fmt.Sprintf("r%d %s", i, t))
		default:
			if r.chance(1, 2) {
				rs = append(rs, "_ "+t)
			} else {
				rs = append(rs, fmt.Sprintf("r%d %s", i, t))
			}
		}
	}
	st[fmt.Sprintf("sig_results_%d", nr)]++
	switch {
	case nr == 0:
	case nr == 1 && rmode == 0:
		res = " " + rs[0]
	default:
		res = " (" + strings.Join(rs, ", ") + ")"
	}
	return "func(" + strings.Join(ps, ", ") + ")" + res
}

var p12FnNames = []string{"f", "Add", "sum_avx2", "Σ", "mul", "X", "dot_product", "_priv", "αβγ"}
var p12DocPool = []string{"f does things.", "", "100% of %d", "  indented code", "trailing  ", "# Heading", " - item", "Deprecated: no.", "café", "//go:nosplit", "go:build x", "%s %v %", "a\tb", "1. first", "[Link]: https://x.y", "* star", "\tx := 1", "nbsp\u00a0", "zwsp\u200b", "em\u2003", "nel\u0085"}

type p12Fn struct {
	name string
	expr string
	sig  *types.Signature
}

type p12Case struct {
	cfg     printer.Config
	file    *ir.File
	fns     []p12Fn
	pkg     *types.Package
	pkgpath string
}

func p12GenCase(r *rng, st map[string]int, idx int, forBuild bool) (*p12Case, error) {
	c := &p12Case{}
	c.cfg = printer.Config{Name: pick(r, []string{"avo", "gen", "my tool"}), Pkg: pick(r, []string{"p", "mypkg", "x_y", "asm"})}
	if r.chance(1, 3) {
		c.cfg.Argv = []string{"go", "run", "asm.go", "-out", "x.s", "-stubs", "stub.go"}
	}
	if !forBuild && r.chance(1, 40) {
		c.cfg.Pkg = pick(r, []string{"", "9p", "a b"}) // invalid package clause: the printer must report an error
		st["bad_package"]++
	}
	c.pkgpath = fmt.Sprintf("m/p%d", idx)
	pkgname := c.cfg.Pkg
	if !token.IsIdentifier(pkgname) {
		pkgname = "p"
	}
	pkg, err := p12TypesPackage(pkgname, c.pkgpath)
	if err != nil {
		return nil, err
	}
	c.pkg = pkg
	f := ir.NewFile()
	c.file = f
	if forBuild {
		// constraints mostly satisfied on the host so that the pair is really built
		if r.chance(2, 3) {
			c0, err := buildtags.ParseConstraint(pick(r, []string{"amd64", "linux", "!purego", "amd64,!appengine", "linux darwin", "!amd64,!arm64 gc", "go1.18", "amd64,gc,!purego linux,!cgo", "arm64"}))
			if err == nil {
				f.Constraints = buildtags.Constraints{c0}
			}
		}
	} else {
		f.Constraints = p11GenConstraints(r)
	}
	nf := r.intn(5)
	if r.chance(1, 20) {
		nf = 6 + r.intn(10)
	}
	if forBuild && nf == 0 {
		nf = 1
	}
	st[fmt.Sprintf("functions_%s", p11Bucket(nf))]++
	used := map[string]bool{}
	for k := 0; k < nf; k++ {
		if !forBuild && r.chance(1, 6) {
			f.AddSection(p11GenGlobal(r, false, k))
		}
		name := pick(r, p12FnNames)
		if used[name] {
			name = fmt.Sprintf("%s%d", name, k)
		}
		used[name] = true
		expr := p12GenSignature(r, st, forBuild)
		tv, err := types.Eval(token.NewFileSet(), pkg, token.NoPos, expr)
		if err != nil {
			return nil, fmt.Errorf("eval %q: %v", expr, err)
		}
		sig := tv.Type.(*types.Signature)
		fn := ir.NewFunction(name)
		fn.SetSignature(gotypes.NewSignature(pkg, sig))
		fn.Attributes = attr.NOSPLIT
		if r.chance(1, 2) {
			for j := r.rangeIn(1, 4); j > 0; j-- {
				fn.Doc = append(fn.Doc, pick(r, p12DocPool))
			}
			st["with_doc"]++
		}
		if r.chance(1, 3) {
			st["with_pragma"]++
			fn.AddPragma(pick(r, []string{"noescape", "nosplit", "norace"}))
			if r.chance(1, 3) {
				fn.AddPragma("nosplit")
			}
			if !forBuild && r.chance(1, 4) {
				fn.AddPragma("linkname", name, "runtime."+name)
			}
		}
		c.fns = append(c.fns, p12Fn{name, expr, sig})
		f.AddSection(fn)
	}
	return c, nil
}

// p12Stubs calls the real stub printer.
func p12Stubs(cfg printer.Config, f *ir.File) (out string, status string) {
	defer func() {
		if e := recover(); e != nil {
			out, status = "", "panic"
		}
	}()
	b, err := printer.NewStubs(cfg).Print(f)
	if err != nil {
		return "", "error"
	}
	return string(b), "ok"
}

// p12Measure judges the real stub output with the Go toolchain.
func p12Measure(c *p12Case, out string) string {
	fset := token.NewFileSet()
	af, err := parser.ParseFile(fset, "stub.go", out, parser.ParseComments)
	if err != nil {
		return "parse-error"
	}
	if af.Name.Name != c.cfg.Pkg {
		return "package-name"
	}
	if len(af.Decls) != len(c.fns) {
		return "decl-count"
	}
	irfns := c.file.Functions()
	for i, d := range af.Decls {
		fd, ok := d.(*ast.FuncDecl)
		if !ok || fd.Body != nil || fd.Recv != nil {
			return fmt.Sprintf("decl-kind/%d", i)
		}
		if fd.Name.Name != c.fns[i].name {
			return fmt.Sprintf("decl-name/%d", i)
		}
		// directives: the last lines of the doc group, in order
		var dirs []string
		if fd.Doc != nil {
			for _, cm := range fd.Doc.List {
				if strings.HasPrefix(cm.Text, "//go:") {
					dirs = append(dirs, cm.Text)
				} else if len(dirs) > 0 {
					return fmt.Sprintf("directive-not-last/%d", i)
				}
			}
			// the doc group must end on the line before the declaration
			if fset.Position(fd.Doc.End()).Line+1 != fset.Position(fd.Pos()).Line {
				return fmt.Sprintf("doc-detached/%d", i)
			}
		}
		var want []string
		for _, p := range irfns[i].Pragmas {
			want = append(want, strings.Join(append([]string{"//go:" + p.Directive}, p.Arguments...), " "))
		}
		if strings.Join(dirs, "\n") != strings.Join(want, "\n") {
			return fmt.Sprintf("directives/%d", i)
		}
		// go/format normalises list markers (`*`, `+` become `-`), spacing, and moves link
		// definitions to the end of the comment; the words are kept (compared as a multiset)
		norm := func(ws []string) string {
			for k, w := range ws {
				if w == "*" || w == "+" || w == "•" {
					ws[k] = "-"
				}
			}
			sort.Strings(ws)
			return strings.Join(ws, " ")
		}
		if norm(strings.Fields(fd.Doc.Text())) != norm(strings.Fields(strings.Join(irfns[i].Doc, " "))) {
			return fmt.Sprintf("doc-text/%d", i)
		}
		// type identity with the signature given to avo (same type universe:
		// the printed signature text is evaluated in avo's package)
		src := out[fset.Position(fd.Type.Params.Pos()).Offset:fset.Position(fd.Type.End()).Offset]
		tv, err := types.Eval(token.NewFileSet(), c.pkg, token.NoPos, "func"+src)
		if err != nil {
			return fmt.Sprintf("signature-eval/%d", i)
		}
		if !types.Identical(tv.Type, c.fns[i].sig) {
			return fmt.Sprintf("signature-not-identical/%d", i)
		}
	}
	// the whole file type-checks together with the helper declarations
	hf, err := parser.ParseFile(fset, "types.go", p12HelperSource(c.cfg.Pkg), 0)
	if err != nil {
		return "helper-parse"
	}
	var terr error
	conf := types.Config{Error: func(e error) {
		if terr == nil {
			terr = e
		}
	}}
	pkg, _ := conf.Check(c.pkgpath, fset, []*ast.File{af, hf}, nil)
	if terr != nil {
		return "type-error"
	}
	for i, fn := range c.fns {
		obj := pkg.Scope().Lookup(fn.name)
		if obj == nil {
			return fmt.Sprintf("not-declared/%d", i)
		}
		if _, ok := obj.(*types.Func); !ok {
			return fmt.Sprintf("not-func/%d", i)
		}
		// structural comparison across universes through the canonical string
		if types.TypeString(obj.Type(), func(*types.Package) string { return "" }) !=
			types.TypeString(fn.sig, func(*types.Package) string { return "" }) {
			return fmt.Sprintf("signature-string/%d", i)
		}
	}
	b, err := format.Source([]byte(out))
	if err != nil {
		return "format-error"
	}
	if string(b) != out {
		// is the instability confined to comment lines?
		strip := func(t string) string {
			var ls []string
			for _, l := range strings.Split(t, "\n") {
				if !strings.HasPrefix(l, "//") {
					ls = append(ls, l)
				}
			}
			return strings.Join(ls, "\n")
		}
		if strip(string(b)) == strip(out) {
			return "not-gofmt-stable/doc-comment"
		}
		return "not-gofmt-stable/code"
	}
	return "ok"
}

func p12Emit(o *out, c *p12Case, st map[string]int) (stub, asm string, ok bool) {
	e := &p11Enc{}
	p11EncodeCfg(e, c.cfg)
	if err := p11EncodeFile(e, c.file); err != nil {
		st["encode_error"]++
		return "", "", false
	}
	fe := &p11Enc{}
	if err := p11EncodeFile(fe, c.file); err != nil {
		return "", "", false
	}
	stub, status := p12Stubs(c.cfg, c.file)
	st["stubs_"+status]++
	if status != "ok" {
		o.emit("stubs "+e.String(), status)
		return "", "", false
	}
	o.emit("stubs "+e.String(), hexs(stub))
	o.emit("accept-stubs "+e.String()+" "+hexs(stub), "ok")
	asm, astatus := p11PrintAsm(c.cfg, c.file)
	if astatus == "ok" {
		o.emit("accept-cons "+fe.String()+" "+hexs(asm)+" "+hexs(stub), "ok")
	}
	o.emit("accept-gostub "+p12Measure(c, stub)+" "+e.String(), "ok")
	return stub, asm, astatus == "ok"
}

func init() {
	register("c12", "stub printer: model tie (through go/format), acceptor, go/parser+go/types measurements", func(args []string) error {
		f := newStdFlags("c12")
		if err := f.fs.Parse(args); err != nil {
			return err
		}
		o, err := openOut(f)
		if err != nil {
			return err
		}
		defer o.close()
		r := newRng(*f.seed)
		st := map[string]int{}
		for k := 0; k < *f.n; k++ {
			c, err := p12GenCase(r, st, k, k == 0)
			if err != nil {
				st["gen_error"]++
				continue
			}
			if k == 0 {
				// witness of finding F14 (go/format not idempotent on this doc comment)
				c.file.Functions()[0].Doc = []string{"  indented code", " - item", "  indented code"}
			}
			p12Emit(o, c, st)
		}
		return writeJSON(*f.stats, st)
	})
	register("c12fmt", "apply go/format to the model's `stubs` answers", func(args []string) error {
		f := newStdFlags("c12fmt")
		model := f.fs.String("model", "", "driver output")
		outp := f.fs.String("out", "", "post-processed driver output")
		if err := f.fs.Parse(args); err != nil {
			return err
		}
		fo, err := os.Open(*f.ops)
		if err != nil {
			return err
		}
		defer fo.Close()
		fm, err := os.Open(*model)
		if err != nil {
			return err
		}
		defer fm.Close()
		w, err := os.Create(*outp)
		if err != nil {
			return err
		}
		defer w.Close()
		bw := bufio.NewWriterSize(w, 1<<20)
		defer bw.Flush()
		so := bufio.NewScanner(fo)
		sm := bufio.NewScanner(fm)
		so.Buffer(make([]byte, 1<<20), 1<<28)
		sm.Buffer(make([]byte, 1<<20), 1<<28)
		for so.Scan() && sm.Scan() {
			req, resp := so.Text(), sm.Text()
			if strings.HasPrefix(req, "stubs ") {
				if b, err := hex.DecodeString(resp); err == nil || resp == "-" {
					src, ferr := format.Source(b)
					if ferr != nil {
						resp = "error"
					} else {
						resp = hexs(string(src))
					}
				}
			}
			bw.WriteString(resp)
			bw.WriteByte('\n')
		}
		return nil
	})
	register("c12build", "stub+asm pairs: go list, go build, go vet -asmdecl", p12RunBuild)
}

// p12Leaf finds a primitive component of a result to store into.
func p12Leaf(c gotypes.Component, t types.Type, depth int) (gotypes.Component, *gotypes.Basic) {
	if depth > 6 {
		return nil, nil
	}
	if b, err := c.Resolve(); err == nil {
		return c, b
	}
	switch u := t.Underlying().(type) {
	case *types.Struct:
		for i := 0; i < u.NumFields(); i++ {
			if u.Field(i).Name() == "_" {
				continue
			}
			if l, b := p12Leaf(c.Field(u.Field(i).Name()), u.Field(i).Type(), depth+1); b != nil {
				return l, b
			}
		}
	case *types.Array:
		if u.Len() > 0 {
			return p12Leaf(c.Index(0), u.Elem(), depth+1)
		}
	case *types.Slice:
		return p12Leaf(c.Len(), types.Typ[types.Int], depth+1)
	case *types.Basic:
		if u.Kind() == types.String {
			return p12Leaf(c.Len(), types.Typ[types.Int], depth+1)
		}
		if u.Info()&types.IsComplex != 0 {
			ft := types.Typ[types.Float64]
			if u.Kind() == types.Complex64 {
				ft = types.Typ[types.Float32]
			}
			return p12Leaf(c.Real(), ft, depth+1)
		}
	}
	return nil, nil
}

func p12StoreReg(b *gotypes.Basic) reg.Register {
	if b.Type.Info()&types.IsFloat != 0 {
		return reg.X0
	}
	switch gotypes.Sizes.Sizeof(b.Type) {
	case 1:
		return reg.AL
	case 2:
		return reg.AX
	case 4:
		return reg.EAX
	}
	return reg.RAX
}

type p12ListPkg struct {
	ImportPath        string
	GoFiles           []string
	SFiles            []string
	IgnoredGoFiles    []string
	IgnoredOtherFiles []string
}

func p12RunBuild(args []string) error {
	f := newStdFlags("c12build")
	work := f.fs.String("work", ".", "scratch directory")
	if err := f.fs.Parse(args); err != nil {
		return err
	}
	o, err := openOut(f)
	if err != nil {
		return err
	}
	defer o.close()
	r := newRng(*f.seed ^ 0xc12b)
	st := map[string]int{}
	mod := filepath.Join(*work, "mod")
	os.RemoveAll(mod)
	if err := os.MkdirAll(mod, 0o755); err != nil {
		return err
	}
	if err := os.WriteFile(filepath.Join(mod, "go.mod"), []byte("module m\n\ngo 1.22\n"), 0o644); err != nil {
		return err
	}
	type built struct {
		c   *p12Case
		enc string
	}
	var cases []built
	for k := 0; k < *f.n; k++ {
		c, err := p12GenCase(r, st, k, true)
		if err != nil {
			st["gen_error"]++
			continue
		}
		// rebuild the file through build.Context so that the bodies are real avo code
		ctx := build.NewContext()
		if len(c.file.Constraints) > 0 {
			ctx.Constraints(c.file.Constraints)
		}
		irfns := c.file.Functions()
		for i, fn := range c.fns {
			ctx.Function(fn.name)
			ctx.Attributes(attr.NOSPLIT)
			ctx.Signature(gotypes.NewSignature(c.pkg, fn.sig))
			ctx.Doc(irfns[i].Doc...)
			for _, p := range irfns[i].Pragmas {
				ctx.Pragma(p.Directive, p.Arguments...)
			}
			for j := 0; j < fn.sig.Results().Len(); j++ {
				if fn.sig.Results().At(j).Name() == "_" {
					continue // a blank result has no name to refer to in x+off(FP) syntax
				}
				leaf, b := p12Leaf(ctx.ReturnIndex(j), fn.sig.Results().At(j).Type(), 0)
				if b == nil {
					st["result_without_leaf"]++
					continue
				}
				ctx.Store(p12StoreReg(b), leaf)
			}
			ctx.RET()
		}
		file, err := ctx.Result()
		if err != nil {
			st["build_error"]++
			continue
		}
		if err := pass.Compile.Execute(file); err != nil {
			st["compile_error"]++
			continue
		}
		c.file = file
		stub, asm, ok := p12Emit(o, c, st)
		if !ok {
			continue
		}
		dir := filepath.Join(mod, fmt.Sprintf("p%d", k))
		if err := os.MkdirAll(dir, 0o755); err != nil {
			return err
		}
		os.WriteFile(filepath.Join(dir, "stub.go"), []byte(stub), 0o644)
		os.WriteFile(filepath.Join(dir, "asm.s"), []byte(asm), 0o644)
		os.WriteFile(filepath.Join(dir, "types.go"), []byte(p12HelperSource(c.cfg.Pkg)), 0o644)
		e := &p11Enc{}
		p11EncodeCfg(e, c.cfg)
		p11EncodeFile(e, c.file)
		cases = append(cases, built{c, e.String()})
	}
	run := func(args ...string) (string, error) {
		cmd := exec.Command("go", args...)
		cmd.Dir = mod
		cmd.Env = append(os.Environ(), "GOFLAGS=-mod=mod", "GOWORK=off")
		b, err := cmd.CombinedOutput()
		return string(b), err
	}
	// 1. both files of a pair are selected or ignored together
	listOut, err := run("list", "-e", "-json=ImportPath,GoFiles,SFiles,IgnoredGoFiles,IgnoredOtherFiles", "./...")
	if err != nil {
		return fmt.Errorf("go list: %v: %s", err, listOut)
	}
	included := map[string]string{}
	dec := json.NewDecoder(strings.NewReader(listOut))
	for dec.More() {
		var p p12ListPkg
		if err := dec.Decode(&p); err != nil {
			return fmt.Errorf("go list output: %v", err)
		}
		has := func(xs []string, x string) bool {
			for _, y := range xs {
				if y == x {
					return true
				}
			}
			return false
		}
		g, s := has(p.GoFiles, "stub.go"), has(p.SFiles, "asm.s")
		ig, is := has(p.IgnoredGoFiles, "stub.go"), has(p.IgnoredOtherFiles, "asm.s")
		switch {
		case g && s:
			included[p.ImportPath] = "both"
		case ig && is:
			included[p.ImportPath] = "neither"
		default:
			included[p.ImportPath] = "split"
		}
	}
	// 2. go build and go vet -asmdecl over the whole module; failures are attributed to packages
	buildOut, berr := run("build", "./...")
	vetOut, verr := run("vet", "-asmdecl", "./...")
	bad := func(out string) map[string]string {
		m := map[string]string{}
		cur := ""
		for _, l := range strings.Split(out, "\n") {
			if strings.HasPrefix(l, "# ") {
				cur = strings.Fields(l)[1]
				continue
			}
			if strings.TrimSpace(l) == "" {
				continue
			}
			key := cur
			if key == "" {
				if i := strings.Index(l, "/asm.s"); i > 0 {
					key = "m/" + filepath.Base(l[:i])
				} else if i := strings.Index(l, "/stub.go"); i > 0 {
					key = "m/" + filepath.Base(l[:i])
				}
			}
			if _, ok := m[key]; !ok {
				m[key] = l
			}
		}
		return m
	}
	bbad, vbad := map[string]string{}, map[string]string{}
	if berr != nil {
		bbad = bad(buildOut)
	}
	if verr != nil {
		vbad = bad(vetOut)
	}
	for _, b := range cases {
		path := b.c.pkgpath
		verdict := "ok"
		switch {
		case included[path] == "split" || included[path] == "":
			verdict = "constraints-split"
		case bbad[path] != "":
			verdict = "build-failed"
		case vbad[path] != "":
			verdict = "vet-asmdecl"
		}
		st["pair_"+included[path]]++
		detail := "-"
		if verdict != "ok" {
			detail = hexs(bbad[path] + " | " + vbad[path])
		}
		o.emit("accept-build "+verdict+" "+detail+" "+b.enc, "ok")
	}
	if berr != nil && len(bbad) == 0 {
		return fmt.Errorf("go build failed without attributable output: %s", buildOut)
	}
	if _, ok := bbad[""]; ok {
		return fmt.Errorf("go build: unattributed failure: %s", bbad[""])
	}
	if _, ok := vbad[""]; ok {
		return fmt.Errorf("go vet: unattributed failure: %s", vbad[""])
	}
	st["pairs"] = len(cases)
	return writeJSON(*f.stats, st)
}
