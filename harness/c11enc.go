package main

// Shared by C11 and C12: encoding of an ir.File + printer.Config as request
// tokens (the structured file of lean/AvoVerif/Drv/Print.lean), well-formedness
// of the tokens (the hypotheses of Props/C11.lean `print_faithful`), and the
// generators of files, functions, node lists and operands.

import (
	"fmt"
	"math"
	"strings"
	"unicode/utf8"

	"github.com/mmcloughlin/avo/attr"
	"github.com/mmcloughlin/avo/buildtags"
	"github.com/mmcloughlin/avo/gotypes"
	"github.com/mmcloughlin/avo/ir"
	"github.com/mmcloughlin/avo/operand"
	"github.com/mmcloughlin/avo/printer"
	"github.com/mmcloughlin/avo/reg"
	"github.com/mmcloughlin/avo/x86"
)

func p11B01(b bool) string {
	if b {
		return "1"
	}
	return "0"
}

type p11Enc struct{ toks []string }

func (e *p11Enc) add(t ...string) { e.toks = append(e.toks, t...) }
func (e *p11Enc) str(s string)    { e.toks = append(e.toks, hexs(s)) }
func (e *p11Enc) int(i int)       { e.toks = append(e.toks, itoa(i)) }
func (e *p11Enc) strs(ss []string) {
	e.int(len(ss))
	for _, s := range ss {
		e.str(s)
	}
}
func (e *p11Enc) String() string { return strings.Join(e.toks, " ") }

func p11EncodeCfg(e *p11Enc, c printer.Config) {
	e.str(c.Name)
	if c.Argv == nil {
		e.add("0")
	} else {
		e.add("1")
		e.strs(c.Argv)
	}
	e.str(c.Pkg)
}

// p11ConstraintLines is the file's constraint block as the printers obtain it.
func p11ConstraintLines(f *ir.File) ([]string, error) {
	if len(f.Constraints) == 0 {
		return nil, nil
	}
	s, err := buildtags.Format(f.Constraints)
	if err != nil {
		return nil, err
	}
	if s == "" {
		return nil, nil
	}
	if !strings.HasSuffix(s, "\n") {
		return nil, fmt.Errorf("constraint block without final newline")
	}
	return strings.Split(strings.TrimSuffix(s, "\n"), "\n"), nil
}

func p11EncodeFile(e *p11Enc, f *ir.File) error {
	cons, err := p11ConstraintLines(f)
	if err != nil {
		return err
	}
	e.add(p11B01(len(f.Constraints) > 0))
	e.strs(cons)
	e.strs(f.Includes)
	e.int(len(f.Sections))
	for _, s := range f.Sections {
		switch s := s.(type) {
		case *ir.Function:
			e.add("fn")
			e.str(s.Name)
			e.int(int(s.Attributes))
			e.int(s.FrameBytes())
			e.int(s.ArgumentBytes())
			e.strs(s.ISA)
			e.str(s.Stub())
			e.strs(s.Doc)
			e.int(len(s.Pragmas))
			for _, p := range s.Pragmas {
				e.str(p.Directive)
				e.strs(p.Arguments)
			}
			e.int(len(s.Nodes))
			for _, n := range s.Nodes {
				switch n := n.(type) {
				case *ir.Instruction:
					e.add("i")
					e.str(n.Opcode)
					e.strs(n.Suffixes)
					e.int(len(n.Operands))
					for _, op := range n.Operands {
						e.str(op.Asm())
					}
					e.add(p11B01(n.IsTerminal), p11B01(n.IsUnconditionalBranch()))
				case ir.Label:
					e.add("l")
					e.str(string(n))
				case *ir.Comment:
					e.add("c")
					e.strs(n.Lines)
				default:
					return fmt.Errorf("unknown node type %T", n)
				}
			}
		case *ir.Global:
			e.add("gl")
			e.str(s.Symbol.Name)
			e.add(p11B01(s.Symbol.Static))
			e.int(int(s.Attributes))
			e.int(s.Size)
			e.int(len(s.Data))
			for _, d := range s.Data {
				e.int(d.Offset)
				e.int(d.Value.Bytes())
				e.str(d.Value.Asm())
			}
		default:
			return fmt.Errorf("unknown section type %T", s)
		}
	}
	return nil
}

// --- well-formedness: the token hypotheses of print_faithful ---------------

func p11NoNL(ss ...string) bool {
	for _, s := range ss {
		if strings.ContainsRune(s, '\n') || !utf8.ValidString(s) {
			return false
		}
	}
	return true
}

var p11ReservedPrefixes = []string{"\t", "//", "TEXT ·", "#include ", "DATA ", "GLOBL "}

func p11WellFormedFile(cfg printer.Config, f *ir.File) bool {
	if !p11NoNL(cfg.Name) || !p11NoNL(cfg.Argv...) {
		return false
	}
	cons, err := p11ConstraintLines(f)
	if err != nil {
		return false
	}
	for _, c := range cons {
		if !p11NoNL(c) || !strings.HasPrefix(c, "//") {
			return false
		}
	}
	if !p11NoNL(f.Includes...) {
		return false
	}
	for _, s := range f.Sections {
		switch s := s.(type) {
		case *ir.Function:
			if !p11NoNL(s.Name, s.Stub()) || !p11NoNL(s.ISA...) || strings.ContainsRune(s.Name, '(') {
				return false
			}
			if s.FrameBytes() < 0 {
				return false
			}
			for _, n := range s.Nodes {
				switch n := n.(type) {
				case *ir.Instruction:
					o := n.OpcodeWithSuffixes()
					if !p11NoNL(o) || strings.ContainsRune(o, ' ') || strings.HasPrefix(o, "/") {
						return false
					}
					var as []string
					for _, op := range n.Operands {
						a := op.Asm()
						if !p11NoNL(a) {
							return false
						}
						as = append(as, a)
					}
					if strings.HasPrefix(strings.Join(as, ", "), " ") {
						return false
					}
				case ir.Label:
					l := string(n) + ":"
					if !p11NoNL(l) {
						return false
					}
					for _, p := range p11ReservedPrefixes {
						if strings.HasPrefix(l, p) {
							return false
						}
					}
				case *ir.Comment:
					if !p11NoNL(n.Lines...) {
						return false
					}
				}
			}
		case *ir.Global:
			if !p11NoNL(s.Symbol.Name) {
				return false
			}
			for _, d := range s.Data {
				if !p11NoNL(d.Value.Asm()) {
					return false
				}
			}
		}
	}
	return true
}

// --- generators -------------------------------------------------------------

var p11GpRegs64 = []reg.Register{reg.RAX, reg.RBX, reg.RCX, reg.RDX, reg.RSI, reg.RDI, reg.R8, reg.R9, reg.R10, reg.R11, reg.R12, reg.R13, reg.R15}
var p11GpRegs32 = []reg.Register{reg.EAX, reg.EBX, reg.ECX, reg.EDX, reg.ESI, reg.R8L, reg.R12L}
var p11GpRegsSmall = []reg.Register{reg.AX, reg.BX, reg.AL, reg.BL, reg.AH, reg.R9W, reg.R10B}
var p11XmmRegs = []reg.Register{reg.X0, reg.X1, reg.X2, reg.X7, reg.X15, reg.X31}
var p11YmmRegs = []reg.Register{reg.Y0, reg.Y1, reg.Y2, reg.Y9, reg.Y15, reg.Y30}
var p11ZmmRegs = []reg.Register{reg.Z0, reg.Z1, reg.Z2, reg.Z17, reg.Z31}
var p11KRegs = []reg.Register{reg.K1, reg.K2, reg.K7}

func p11GenMem(r *rng) operand.Mem {
	m := operand.Mem{}
	if r.chance(4, 5) {
		m.Base = pick(r, p11GpRegs64)
	}
	if r.chance(1, 2) {
		m.Index = pick(r, p11GpRegs64)
		m.Scale = pick(r, []uint8{1, 2, 4, 8})
		if r.chance(1, 12) {
			m.Scale = 0 // index without scale is not printed
		}
	} else if r.chance(1, 8) {
		m.Index = pick(r, []reg.Register{reg.X3, reg.Y4, reg.Z5}) // VSIB
		m.Scale = pick(r, []uint8{1, 2, 4, 8})
	}
	switch r.intn(5) {
	case 0:
	case 1:
		m.Disp = r.rangeIn(-128, 127)
	case 2:
		m.Disp = r.rangeIn(-1<<31, 1<<31-1)
	case 3:
		m.Disp = 8 * r.intn(32)
	default:
		m.Disp = -8 * r.intn(32)
	}
	switch r.intn(8) {
	case 0:
		m.Symbol = operand.Symbol{Name: pick(r, []string{"x", "src", "dst_len", "·tbl", "p"}), Static: false}
		m.Base = reg.FramePointer
		m.Index = nil
	case 1:
		m.Symbol = operand.NewStaticSymbol(pick(r, []string{"tbl", "consts", "k256"}))
		m.Base = reg.StaticBase
	case 2:
		m.Base = reg.StackPointer
	}
	return m
}

func p11GenConst(r *rng) operand.Constant {
	v := r.u64()
	switch r.intn(4) {
	case 0:
		v &= 0xff
	case 1:
		v = uint64(r.intn(3))
	case 2:
		v = ^uint64(0) >> uint(r.intn(64))
	}
	switch r.intn(12) {
	case 0:
		return operand.I8(v)
	case 1:
		return operand.U8(v)
	case 2:
		return operand.I16(v)
	case 3:
		return operand.U16(v)
	case 4:
		return operand.I32(v)
	case 5:
		return operand.U32(v)
	case 6:
		return operand.I64(v)
	case 7:
		return operand.U64(v)
	case 8:
		return operand.F32(p11GenFloat(r))
	case 9:
		return operand.F64(p11GenFloat(r))
	case 10:
		return operand.String(pick(r, []string{"", "a", "hi, \"x\"", "100%d", "tab\there", "\x00\x01", "café", "a, b", "new\nline"}))
	default:
		return operand.Imm(v)
	}
}

func p11GenFloat(r *rng) float64 {
	switch r.intn(7) {
	case 0:
		return 0
	case 1:
		return float64(r.rangeIn(-1000, 1000))
	case 2:
		return math.Float64frombits(r.u64())
	case 3:
		return float64(math.Float32frombits(uint32(r.u64())))
	case 4:
		return math.Inf(1 - 2*r.intn(2))
	case 5:
		return math.Pi * float64(r.rangeIn(-5, 5))
	default:
		return 1 / float64(1+r.intn(1000))
	}
}

func p11GenReg(r *rng) reg.Register {
	switch r.intn(8) {
	case 0, 1, 2:
		return pick(r, p11GpRegs64)
	case 3:
		return pick(r, p11GpRegs32)
	case 4:
		return pick(r, p11GpRegsSmall)
	case 5:
		return pick(r, p11XmmRegs)
	case 6:
		return pick(r, p11YmmRegs)
	default:
		if r.chance(1, 3) {
			return pick(r, p11KRegs)
		}
		return pick(r, p11ZmmRegs)
	}
}

var p11LabelPool = []string{"loop", "done", "L1", "tail_2", "again", "x", "end", "λabel", "a.b", "TEXT", "DATA_", "ret"}

func p11GenOp(r *rng) operand.Op {
	switch r.intn(10) {
	case 0, 1, 2, 3:
		return p11GenReg(r)
	case 4, 5, 6:
		return p11GenMem(r)
	case 7, 8:
		return p11GenConst(r)
	default:
		if r.chance(1, 2) {
			return operand.Rel(int32(r.rangeIn(-1<<31, 1<<31-1)))
		}
		return operand.LabelRef(pick(r, p11LabelPool))
	}
}

// p11RawOp is an operand with arbitrary text (malformed stream).
type p11RawOp string

func (o p11RawOp) Asm() string { return string(o) }

// p11CtorTable: real instruction constructors on generated operands.
type p11CtorFn func(r *rng) (*ir.Instruction, error)

func p11Mr64(r *rng) operand.Op {
	if r.chance(1, 3) {
		return p11GenMem(r)
	}
	return pick(r, p11GpRegs64)
}

var p11CtorTable = []p11CtorFn{
	func(r *rng) (*ir.Instruction, error) { return x86.ADDQ(p11Mr64(r), pick(r, p11GpRegs64)) },
	func(r *rng) (*ir.Instruction, error) { return x86.ADDQ(operand.I32(r.u64()), p11Mr64(r)) },
	func(r *rng) (*ir.Instruction, error) { return x86.ADDQ(operand.I8(r.u64()), p11Mr64(r)) },
	func(r *rng) (*ir.Instruction, error) { return x86.SUBQ(pick(r, p11GpRegs64), p11Mr64(r)) },
	func(r *rng) (*ir.Instruction, error) { return x86.MOVQ(p11Mr64(r), pick(r, p11GpRegs64)) },
	func(r *rng) (*ir.Instruction, error) { return x86.MOVQ(pick(r, p11GpRegs64), p11Mr64(r)) },
	func(r *rng) (*ir.Instruction, error) { return x86.MOVQ(operand.U64(r.u64()), pick(r, p11GpRegs64)) },
	func(r *rng) (*ir.Instruction, error) { return x86.MOVQ(operand.I32(r.u64()), p11Mr64(r)) },
	func(r *rng) (*ir.Instruction, error) { return x86.MOVL(operand.U32(r.u64()), pick(r, p11GpRegs32)) },
	func(r *rng) (*ir.Instruction, error) {
		return x86.MOVW(operand.U16(r.u64()), pick(r, []reg.Register{reg.AX, reg.BX, reg.R9W}))
	},
	func(r *rng) (*ir.Instruction, error) {
		return x86.MOVB(operand.U8(r.u64()), pick(r, []reg.Register{reg.AL, reg.BL, reg.R10B}))
	},
	func(r *rng) (*ir.Instruction, error) { return x86.XORL(pick(r, p11GpRegs32), pick(r, p11GpRegs32)) },
	func(r *rng) (*ir.Instruction, error) { return x86.LEAQ(p11GenMem(r), pick(r, p11GpRegs64)) },
	func(r *rng) (*ir.Instruction, error) {
		return x86.IMUL3Q(operand.I32(r.u64()), p11Mr64(r), pick(r, p11GpRegs64))
	},
	func(r *rng) (*ir.Instruction, error) { return x86.SHLQ(operand.U8(r.intn(64)), p11Mr64(r)) },
	func(r *rng) (*ir.Instruction, error) { return x86.SHRQ(reg.CL, p11Mr64(r)) },
	func(r *rng) (*ir.Instruction, error) { return x86.CMPQ(pick(r, p11GpRegs64), operand.I8(r.u64())) },
	func(r *rng) (*ir.Instruction, error) { return x86.TESTQ(pick(r, p11GpRegs64), pick(r, p11GpRegs64)) },
	func(r *rng) (*ir.Instruction, error) { return x86.CMOVQNE(p11Mr64(r), pick(r, p11GpRegs64)) },
	func(r *rng) (*ir.Instruction, error) {
		return x86.SETEQ(pick(r, []reg.Register{reg.AL, reg.BL, reg.R10B}))
	},
	func(r *rng) (*ir.Instruction, error) { return x86.BSWAPQ(pick(r, p11GpRegs64)) },
	func(r *rng) (*ir.Instruction, error) {
		return x86.PXOR(pick(r, p11XmmRegs[:5]), pick(r, p11XmmRegs[:5]))
	},
	func(r *rng) (*ir.Instruction, error) { return x86.MOVUPS(p11GenMem(r), pick(r, p11XmmRegs[:5])) },
	func(r *rng) (*ir.Instruction, error) {
		return x86.PSHUFD(operand.U8(r.u64()), pick(r, p11XmmRegs[:5]), pick(r, p11XmmRegs[:5]))
	},
	func(r *rng) (*ir.Instruction, error) {
		return x86.VADDPD(pick(r, p11YmmRegs[:5]), pick(r, p11YmmRegs[:5]), pick(r, p11YmmRegs[:5]))
	},
	func(r *rng) (*ir.Instruction, error) {
		return x86.VPXOR(p11GenMem(r), pick(r, p11YmmRegs[:5]), pick(r, p11YmmRegs[:5]))
	},
	func(r *rng) (*ir.Instruction, error) { return x86.VMOVDQU64(p11GenMem(r), pick(r, p11ZmmRegs)) },
	func(r *rng) (*ir.Instruction, error) {
		return x86.VPADDD(pick(r, p11ZmmRegs), pick(r, p11ZmmRegs), pick(r, p11ZmmRegs))
	},
	func(r *rng) (*ir.Instruction, error) {
		return x86.VerifBuild("VADDPD", []string{"Z"}, []operand.Op{pick(r, p11ZmmRegs), pick(r, p11ZmmRegs), pick(r, p11KRegs), pick(r, p11ZmmRegs)})
	},
	func(r *rng) (*ir.Instruction, error) {
		return x86.VerifBuild("VADDPD", []string{"BCST"}, []operand.Op{operand.Mem{Base: pick(r, p11GpRegs64)}, pick(r, p11ZmmRegs), pick(r, p11ZmmRegs)})
	},
	func(r *rng) (*ir.Instruction, error) {
		return x86.VerifBuild("VADDPS", []string{"RZ_SAE", "Z"}, []operand.Op{pick(r, p11ZmmRegs), pick(r, p11ZmmRegs), pick(r, p11KRegs), pick(r, p11ZmmRegs)})
	},
	func(r *rng) (*ir.Instruction, error) {
		return x86.VPGATHERDD(pick(r, p11YmmRegs[:3]), operand.Mem{Base: reg.RAX, Index: reg.Y4, Scale: 4}, pick(r, p11YmmRegs[3:5]))
	},
	func(r *rng) (*ir.Instruction, error) { return x86.KMOVQ(pick(r, p11KRegs), pick(r, p11GpRegs64)) },
	func(r *rng) (*ir.Instruction, error) { return x86.JMP(operand.LabelRef(pick(r, p11LabelPool))) },
	func(r *rng) (*ir.Instruction, error) { return x86.JNE(operand.LabelRef(pick(r, p11LabelPool))) },
	func(r *rng) (*ir.Instruction, error) { return x86.JLT(operand.LabelRef(pick(r, p11LabelPool))) },
	func(r *rng) (*ir.Instruction, error) { return x86.JMP(operand.Rel(int32(r.rangeIn(-128, 127)))) },
	func(r *rng) (*ir.Instruction, error) { return x86.JMP(pick(r, p11GpRegs64)) },
	func(r *rng) (*ir.Instruction, error) { return x86.CALL(operand.LabelRef(pick(r, p11LabelPool))) },
	func(r *rng) (*ir.Instruction, error) { return x86.RET() },
	func(r *rng) (*ir.Instruction, error) { return x86.RETFL(operand.U16(r.u64())) },
	func(r *rng) (*ir.Instruction, error) { return x86.UD2() },
	func(r *rng) (*ir.Instruction, error) { return x86.INT(operand.U8(3)) },
	func(r *rng) (*ir.Instruction, error) { return x86.CPUID() },
	func(r *rng) (*ir.Instruction, error) { return x86.VZEROUPPER() },
	func(r *rng) (*ir.Instruction, error) { return x86.CQO() },
	func(r *rng) (*ir.Instruction, error) { return x86.PUSHQ(pick(r, p11GpRegs64)) },
	func(r *rng) (*ir.Instruction, error) { return x86.POPQ(pick(r, p11GpRegs64)) },
}

var p11OpcodePool = []string{"ADDQ", "MOVQ", "VPTERNLOGQ", "X", "VGATHERPF0DPD", "RET", "JMP", "NOP", "VCVTTPS2UQQ", "PCLMULQDQ", "opé", "A_B", "LOCK"}
var p11SuffixPool = []string{"Z", "BCST", "RN_SAE", "SAE", "RZ_SAE", "B", ""}

// p11GenInstr produces an instruction: through a real constructor or assembled
// by hand with arbitrary opcode, suffixes, operands and flags.
func p11GenInstr(r *rng, st map[string]int) *ir.Instruction {
	if r.chance(3, 5) {
		for tries := 0; tries < 4; tries++ {
			i, err := pick(r, p11CtorTable)(r)
			if err == nil && i != nil {
				st["instr_ctor"]++
				return i
			}
			st["ctor_rejected"]++
		}
	}
	st["instr_synthetic"]++
	i := &ir.Instruction{Opcode: pick(r, p11OpcodePool)}
	if r.chance(1, 4) {
		for k := r.rangeIn(1, 3); k > 0; k-- {
			i.Suffixes = append(i.Suffixes, pick(r, p11SuffixPool[:6]))
		}
	}
	for k := r.intn(5); k > 0; k-- {
		i.Operands = append(i.Operands, p11GenOp(r))
	}
	i.IsTerminal = r.chance(1, 8)
	i.IsBranch = r.chance(1, 5)
	i.IsConditional = r.chance(1, 2)
	return i
}

var p11CommentPool = []string{"hello", "", "100% of %d things %s", "  leading", "trailing  ", "tab\tinside", "café · dot", "// nested", "#include \"x\"", "TEXT ·f(SB)", "x:", "%", "%!", "a ", "　"}

func p11GenCommentLines(r *rng) []string {
	n := r.intn(4)
	if r.chance(1, 6) {
		n = 0
	}
	var ls []string
	for ; n > 0; n-- {
		ls = append(ls, pick(r, p11CommentPool))
	}
	return ls
}

func p11GenNodes(r *rng, st map[string]int, malformed bool) []ir.Node {
	var ns []ir.Node
	n := r.intn(14)
	if r.chance(1, 10) {
		n = 0
	}
	if r.chance(1, 30) {
		n = 20 + r.intn(40)
	}
	shape := r.intn(4) // 0 mixed, 1 mostly instructions, 2 mostly labels/comments, 3 mixed
	for ; n > 0; n-- {
		k := r.intn(10)
		switch {
		case shape == 1 && k < 8, shape != 1 && shape != 2 && k < 5, shape == 2 && k < 2:
			i := p11GenInstr(r, st)
			if malformed && r.chance(1, 6) {
				switch r.intn(4) {
				case 0:
					i.Opcode = pick(r, []string{"", "A B", "//X", "A\nB", " "})
				case 1:
					i.Operands = append([]operand.Op{p11RawOp(pick(r, []string{"", " x", "a\nb", ", ", "%d"}))}, i.Operands...)
				case 2:
					i.Suffixes = append(i.Suffixes, pick(r, []string{"", " ", "\n", "."}))
				default:
					i.Operands = []operand.Op{p11RawOp(""), p11RawOp("")}
				}
			}
			ns = append(ns, i)
		case k < 8:
			l := pick(r, p11LabelPool)
			if malformed && r.chance(1, 4) {
				l = pick(r, []string{"", "\tx", "//c", "TEXT ·f(SB), $0", "a\nb", "DATA x", "GLOBL y", "#include z", "sp ace", "%d"})
			}
			ns = append(ns, ir.Label(l))
		default:
			ls := p11GenCommentLines(r)
			if malformed && r.chance(1, 4) {
				ls = append(ls, pick(r, []string{"two\nlines", "cr\r", "nl\n"}))
			}
			ns = append(ns, ir.NewComment(ls...))
		}
	}
	return ns
}

var p11SigPool = []string{
	"func()",
	"func(x uint64) uint64",
	"func(a, b int32) (lo, hi int32)",
	"func(p *byte, n int)",
	"func(s []byte) (sum uint64)",
	"func(x struct{a int8; b uint64}, y [3]uint16) bool",
	"func(s string, v ...int) (string, error)",
	"func(_ int, _ uint8) (_ float64)",
	"func(c complex128, f float32) complex64",
	"func(m map[string]int, ch chan int, fn func(int) int, i interface{})",
}

var p11DocPool = []string{"f does things.", "", "100% of %d", "  indented code", "trailing  ", "# Heading", " - item", "Deprecated: no.", "café", "//go:nosplit", "go:build x", "%s %v %", "a\tb"}
var p11NamePool = []string{"f", "Add", "sum_avx2", "Σ", "f2", "X·Y", "init", "_", "long_function_name_with_many_parts"}
var p11IsaPool = []string{"AVX", "AVX2", "SSE2", "AVX512F", "BMI2", "AVX512VL", "CMOV"}

func p11GenAttr(r *rng) attr.Attribute {
	switch r.intn(6) {
	case 0, 1:
		return 0
	case 2:
		return attr.NOSPLIT
	case 3:
		return pick(r, []attr.Attribute{attr.NOSPLIT | attr.NOFRAME, attr.RODATA | attr.NOPTR, attr.DUPOK, attr.WRAPPER | attr.NEEDCTXT})
	case 4:
		return attr.Attribute(1 << uint(r.intn(16)))
	default:
		return attr.Attribute(r.u64())
	}
}

func p11GenFunction(r *rng, st map[string]int, malformed bool, idx int) *ir.Function {
	name := pick(r, p11NamePool)
	if r.chance(1, 2) {
		name = fmt.Sprintf("%s%d", name, idx)
	}
	if malformed && r.chance(1, 5) {
		name = pick(r, []string{"", "f(x)", "a b", "n\nl", "%d"})
	}
	fn := ir.NewFunction(name)
	fn.Attributes = p11GenAttr(r)
	if r.chance(1, 2) {
		sig, err := gotypes.ParseSignature(pick(r, p11SigPool))
		if err == nil {
			fn.SetSignature(sig)
		}
	}
	switch r.intn(6) {
	case 0:
		fn.LocalSize = 8 * r.intn(64)
	case 1:
		fn.LocalSize = r.intn(1 << 20)
	case 2:
		if malformed {
			fn.LocalSize = -r.intn(100)
		}
	}
	if r.chance(1, 3) {
		for k := r.rangeIn(1, 3); k > 0; k-- {
			fn.ISA = append(fn.ISA, pick(r, p11IsaPool))
		}
		if malformed && r.chance(1, 4) {
			fn.ISA = append(fn.ISA, pick(r, []string{"", "A\nB", " ", "AVX\u00a0", "X\u0085", "Y\u2003 ", "Z\u200b", "W\ufeff", "V\u1680", "\u3000", "T\t", "U\u2028", "S\u205f\u202f", "R\u180e", "Q\v\f\r"}))
		}
	}
	if r.chance(1, 2) {
		for k := r.rangeIn(1, 4); k > 0; k-- {
			fn.Doc = append(fn.Doc, pick(r, p11DocPool))
		}
	}
	if r.chance(1, 3) {
		fn.AddPragma(pick(r, []string{"noescape", "nosplit", "norace", "linkname"}), pick(r, [][]string{nil, nil, {"a"}, {"localname", "pkg.name"}})...)
		if r.chance(1, 3) {
			fn.AddPragma("nosplit")
		}
	}
	fn.Nodes = p11GenNodes(r, st, malformed)
	return fn
}

func p11GenGlobal(r *rng, malformed bool, idx int) *ir.Global {
	name := pick(r, []string{"tbl", "consts", "k", "·pub", "data_1"})
	if r.chance(1, 2) {
		name = fmt.Sprintf("%s%d", name, idx)
	}
	if malformed && r.chance(1, 4) {
		name = pick(r, []string{"", "a b", "x\ny"})
	}
	g := ir.NewGlobal(operand.Symbol{Name: name, Static: r.chance(2, 3)})
	g.Attributes = p11GenAttr(r)
	for k := r.intn(6); k > 0; k-- {
		if r.chance(1, 5) {
			g.Size += 4 * r.intn(4) // gap
		}
		g.Append(p11GenConst(r))
	}
	if r.chance(1, 4) {
		g.Size += r.intn(64)
	}
	if malformed && r.chance(1, 3) {
		g.Data = append(g.Data, ir.Datum{Offset: -r.intn(40), Value: p11GenConst(r)})
	}
	return g
}

var p11ConstraintPool = []string{"amd64", "linux", "!purego", "amd64,!appengine", "linux darwin", "!amd64,!arm64 gc", "go1.18", "amd64,gc,!purego linux,!cgo"}

func p11GenConstraints(r *rng) buildtags.Constraints {
	var cs buildtags.Constraints
	n := 0
	switch r.intn(5) {
	case 0, 1:
		n = 1
	case 2:
		n = 2
	}
	for ; n > 0; n-- {
		c, err := buildtags.ParseConstraint(pick(r, p11ConstraintPool))
		if err == nil {
			cs = append(cs, c)
		}
	}
	return cs
}

func p11GenConfig(r *rng) printer.Config {
	c := printer.Config{Name: pick(r, []string{"avo", "gen", "", "my tool  ", "100%"}), Pkg: pick(r, []string{"p", "main", "mypkg", "x_test"})}
	switch r.intn(4) {
	case 0:
		c.Argv = []string{"go", "run", "asm.go", "-out", "f.s"}
	case 1:
		c.Argv = []string{}
	case 2:
		c.Argv = []string{pick(r, []string{"./gen", "a b", "trailing "})}
	}
	return c
}

func p11GenFile(r *rng, st map[string]int, malformed bool) *ir.File {
	f := ir.NewFile()
	f.Constraints = p11GenConstraints(r)
	if malformed && r.chance(1, 5) {
		// terms the constraint syntax does not allow (incl. printf verbs).  NOTE: goasm.header passes the formatted
		// block to Printf as a FORMAT string, but these terms never get there: buildtags.Format turns every
		// constraint set with an invalid term into `//go:build ignore`, so the verbs are not exercised (and cannot
		// be, through the public API).  Recorded as an unreachable model difference in c11.py's assumptions.
		t := pick(r, []string{"a%b", "%d", "100%", "%s", "a b", "//go:build x", ""})
		f.Constraints = append(f.Constraints, buildtags.Constraint{buildtags.Option{buildtags.Term(t)}})
	}
	for k := r.intn(3); k > 0 && r.chance(1, 2); k-- {
		f.Includes = append(f.Includes, pick(r, []string{"textflag.h", "a.h", "dir/b.h", "go_asm.h"}))
	}
	if malformed && r.chance(1, 4) {
		f.Includes = append(f.Includes, pick(r, []string{"", "a\"b", "x\ny", "%s"}))
	}
	n := r.intn(5)
	for k := 0; k < n; k++ {
		if r.chance(7, 10) {
			f.AddSection(p11GenFunction(r, st, malformed, k))
		} else {
			f.AddSection(p11GenGlobal(r, malformed, k))
		}
	}
	return f
}
