package main

import (
	"fmt"
	"go/ast"
	"go/token"
	"path/filepath"
	"strings"

	"github.com/mmcloughlin/avo/ir"
	"github.com/mmcloughlin/avo/operand"
	"github.com/mmcloughlin/avo/pass"
	"github.com/mmcloughlin/avo/reg"
	"github.com/mmcloughlin/avo/x86"
)

// encLiveProg encodes what liveness looks at: per instruction the registers
// the implementation reports as read / written and its successor indices.
func encLiveProg(fn *ir.Function) string {
	idx := instrIndex(fn)
	is := fn.Instructions()
	parts := []string{itoa(len(is))}
	for _, i := range is {
		parts = append(parts, encRegs(i.InputRegisters()), encRegs(i.OutputRegisters()))
		parts = append(parts, itoa(len(i.Succ)))
		for _, s := range i.Succ {
			if s == nil {
				parts = append(parts, "-1")
			} else {
				parts = append(parts, itoa(idx[s]))
			}
		}
	}
	return strings.Join(parts, " ")
}

func encLiveResult(fn *ir.Function) string {
	is := fn.Instructions()
	parts := []string{"ok", itoa(len(is))}
	for _, i := range is {
		parts = append(parts, encMaskSet(i.LiveIn), encMaskSet(i.LiveOut))
	}
	return strings.Join(parts, " ")
}

// encLiveProgNodes / encLiveResultNodes: as encLiveProg / encLiveResult, with the instruction list taken from fn.Nodes
// directly (used for functions read back from inside pass.Compile).
func encLiveProgNodes(fn *ir.Function) string {
	is := c09NodeInstrs(fn)
	idx := map[*ir.Instruction]int{}
	for k, i := range is {
		idx[i] = k
	}
	parts := []string{itoa(len(is))}
	for _, i := range is {
		parts = append(parts, encRegs(i.InputRegisters()), encRegs(i.OutputRegisters()))
		parts = append(parts, itoa(len(i.Succ)))
		for _, s := range i.Succ {
			if s == nil {
				parts = append(parts, "-1")
			} else if k, ok := idx[s]; ok {
				parts = append(parts, itoa(k))
			} else {
				parts = append(parts, "1000000")
			}
		}
	}
	return strings.Join(parts, " ")
}

func encLiveResultNodes(fn *ir.Function) string {
	is := c09NodeInstrs(fn)
	parts := []string{"ok", itoa(len(is))}
	for _, i := range is {
		parts = append(parts, encMaskSet(i.LiveIn), encMaskSet(i.LiveOut))
	}
	return strings.Join(parts, " ")
}

// prepLiveness runs LabelTarget, CFG and ZeroExtend32BitOutputs; returns false when the function is rejected.
func prepLiveness(fn *ir.Function) bool {
	err, _ := safely(func() error {
		if err := pass.LabelTarget(fn); err != nil {
			return err
		}
		if err := pass.CFG(fn); err != nil {
			return err
		}
		for _, i := range fn.Instructions() {
			if err := pass.ZeroExtend32BitOutputs(i); err != nil {
				return err
			}
		}
		return nil
	})
	return err == nil
}

// matchedForm returns the first form row of the opcode matching suffixes and operands (what x86.build selects).
func matchedForm(db *formsDB, opcode string, sfx []string, ops []operand.Op) *formRow {
	for _, ix := range db.byOpcode[opcode] {
		f := &db.rows[ix]
		okS := false
		for _, s := range f.Suffixes {
			if strings.Join(s, ".") == strings.Join(sfx, ".") {
				okS = true
			}
		}
		if !okS || int(f.Arity) != len(ops) {
			continue
		}
		ok := true
		k := 0
		for _, o := range f.Operands {
			if o.Implicit {
				continue
			}
			if !x86.VerifMatch(o.Type, ops[k]) {
				ok = false
				break
			}
			k++
		}
		if ok {
			return f
		}
	}
	return nil
}

// ---------------------------------------------------------------------------
// The SPECIFICATION side of the use/def comparison.  Nothing below goes through the code under test
// (ir.Instruction.InputRegisters/OutputRegisters, operand.Registers, operand.IsR32/IsMem, action.Read/Write,
// implreg.Register, pass.ZeroExtend32BitOutputs):
//   * operand actions: the symbolic action NAMES written in the rows of x86/zoptab.go (actionN/R/W/RW), read with
//     go/ast and interpreted by their letters — independent of the constants' numbering and of action.Read/Write;
//   * implicit operands: the register NAMED by the implreg constant (implregEAX -> 32-bit view of register A),
//     resolved here through the architectural naming rules, not through implreg.Register();
//   * address registers: own traversal of the fields Base and Index of operand.Mem (Index may be a vector register);
//   * the "32-bit general-purpose destination" flag: from the register's own kind and byte mask.
// ---------------------------------------------------------------------------

// c02Spec holds, per row of the form table, the operand actions (bit 0 read, bit 1 write) named in the source.
type c02Spec struct {
	acts   [][]uint8
	usable bool   // false: the source rows could not be read in this shape; the compiled table is used instead
	why    string // reason when not usable
	// number of rows whose named actions differ from the compiled ones (each of them also shows as a usedef mismatch)
	disagree int
}

var c02TheSpec *c02Spec

func c02ActionByName(name string) (uint8, bool) {
	if !strings.HasPrefix(name, "action") {
		return 0, false
	}
	switch strings.ToUpper(strings.TrimPrefix(name, "action")) {
	case "N", "NONE":
		return 0, true
	case "R", "READ":
		return 1, true
	case "W", "WRITE":
		return 2, true
	case "RW", "WR", "READWRITE":
		return 3, true
	}
	return 0, false
}

// c02LoadSpec reads the action names of every operand of every row of `var forms` in x86/zoptab.go. It is tolerant
// of the literal's shape (keyed or positional fields, any nesting): an operand is an innermost composite literal
// containing an identifier called action*; rows are the elements of the outer literal. When the rows cannot be
// aligned with the compiled table the result is marked unusable (never an alarm by itself).
func c02LoadSpec(repo string, db *formsDB) *c02Spec {
	sp := &c02Spec{}
	fail := func(format string, a ...any) *c02Spec {
		sp.usable, sp.why, sp.acts = false, fmt.Sprintf(format, a...), nil
		return sp
	}
	_, f, err := parseFile(filepath.Join(repo, "x86", "zoptab.go"))
	if err != nil {
		return fail("parse: %v", err)
	}
	var table *ast.CompositeLit
	for _, d := range f.Decls {
		gd, ok := d.(*ast.GenDecl)
		if !ok || gd.Tok != token.VAR {
			continue
		}
		for _, s := range gd.Specs {
			vs := s.(*ast.ValueSpec)
			for i, n := range vs.Names {
				if n.Name == "forms" && i < len(vs.Values) {
					if cl, ok := vs.Values[i].(*ast.CompositeLit); ok {
						table = cl
					}
				}
			}
		}
	}
	if table == nil {
		return fail("no composite literal `var forms`")
	}
	if len(table.Elts) != len(db.rows) {
		return fail("%d source rows, %d compiled rows", len(table.Elts), len(db.rows))
	}
	for ri, row := range table.Elts {
		var acts []uint8
		bad := ""
		ast.Inspect(row, func(n ast.Node) bool {
			cl, ok := n.(*ast.CompositeLit)
			if !ok {
				return true
			}
			inner := true
			var names []string
			for _, e := range cl.Elts {
				if kv, ok := e.(*ast.KeyValueExpr); ok {
					e = kv.Value
				}
				switch v := e.(type) {
				case *ast.CompositeLit:
					inner = false
				case *ast.Ident:
					if strings.HasPrefix(v.Name, "action") {
						names = append(names, v.Name)
					}
				}
			}
			if inner && len(names) == 1 {
				a, ok := c02ActionByName(names[0])
				if !ok {
					bad = "unknown action name " + names[0]
				}
				acts = append(acts, a)
			} else if inner && len(names) > 1 {
				bad = "several action names in one operand literal"
			}
			return true
		})
		if bad != "" {
			return fail("row %d: %s", ri, bad)
		}
		if len(acts) != len(db.rows[ri].Operands) {
			return fail("row %d (%s): %d operands with a named action in the source, %d in the compiled table", ri, db.rows[ri].Opcode, len(acts), len(db.rows[ri].Operands))
		}
		for j, a := range acts {
			if a != db.rows[ri].Operands[j].Action {
				sp.disagree++
				break
			}
		}
		sp.acts = append(sp.acts, acts)
	}
	sp.usable = true
	return sp
}

// c02Action is the specified action of operand j of row f.
func c02Action(f *formRow, j int) uint8 {
	if sp := c02TheSpec; sp != nil && sp.usable && f.Index < len(sp.acts) && j < len(sp.acts[f.Index]) {
		return sp.acts[f.Index][j]
	}
	return f.Operands[j].Action
}

// c02NamedRegister resolves an architectural register name as used by the implreg constants ("al", "ax", "eax",
// "rax", "r11", "x0", ...) to the register, by the naming rules of the architecture.
func c02NamedRegister(name string) reg.Register {
	name = strings.ToLower(name)
	if len(name) >= 2 && (name[0] == 'x' || name[0] == 'y' || name[0] == 'z') && name[1] >= '0' && name[1] <= '9' {
		n := 0
		for _, c := range name[1:] {
			if c < '0' || c > '9' {
				return nil
			}
			n = n*10 + int(c-'0')
		}
		s := map[byte]reg.Spec{'x': reg.S128, 'y': reg.S256, 'z': reg.S512}[name[0]]
		for _, p := range reg.Vector.Registers() {
			if int(p.PhysicalIndex()) == n && p.Mask() == s.Mask() {
				return p
			}
		}
		return nil
	}
	gp := func(idx int, s reg.Spec) reg.Register {
		for _, p := range reg.GeneralPurpose.Registers() {
			if int(p.PhysicalIndex()) == idx && p.Mask() == s.Mask() {
				return p
			}
		}
		return nil
	}
	// hardware encoding order of the legacy registers
	legacy := map[string]int{"a": 0, "c": 1, "d": 2, "b": 3}
	legacy2 := map[string]int{"sp": 4, "bp": 5, "si": 6, "di": 7}
	if len(name) == 2 {
		if i, ok := legacy[name[:1]]; ok {
			switch name[1] {
			case 'l':
				return gp(i, reg.S8L)
			case 'h':
				return gp(i, reg.S8H)
			case 'x':
				return gp(i, reg.S16)
			}
		}
	}
	if len(name) == 3 && (name[0] == 'e' || name[0] == 'r') && name[2] == 'x' {
		if i, ok := legacy[name[1:2]]; ok {
			if name[0] == 'e' {
				return gp(i, reg.S32)
			}
			return gp(i, reg.S64)
		}
	}
	if i, ok := legacy2[name]; ok {
		return gp(i, reg.S16)
	}
	if len(name) == 3 && (name[0] == 'e' || name[0] == 'r') {
		if i, ok := legacy2[name[1:]]; ok {
			if name[0] == 'e' {
				return gp(i, reg.S32)
			}
			return gp(i, reg.S64)
		}
	}
	if len(name) >= 2 && name[0] == 'r' && name[1] >= '0' && name[1] <= '9' {
		n, k := 0, 1
		for k < len(name) && name[k] >= '0' && name[k] <= '9' {
			n = n*10 + int(name[k]-'0')
			k++
		}
		s, ok := map[string]reg.Spec{"": reg.S64, "d": reg.S32, "l": reg.S32, "w": reg.S16, "b": reg.S8L}[name[k:]]
		if ok && n >= 8 && n <= 15 {
			return gp(n, s)
		}
	}
	return nil
}

var c02ImplUnresolved = map[string]bool{}

// c02ImplicitRegister is the register of implicit operand j of row f, by its NAME in the source table.
func c02ImplicitRegister(f *formRow, j int) reg.Register {
	if j < len(f.TypeNames) {
		if r := c02NamedRegister(f.TypeNames[j]); r != nil {
			return r
		}
		c02ImplUnresolved[f.TypeNames[j]] = true
	}
	return x86.VerifImplReg(f.Operands[j].Type)
}

// c02MemRegs lists the address registers of a memory operand: base and index, whatever their kind.
func c02MemRegs(m operand.Mem) []reg.Register {
	var rs []reg.Register
	if m.Base != nil {
		rs = append(rs, m.Base)
	}
	if m.Index != nil {
		rs = append(rs, m.Index)
	}
	return rs
}

// c02IsGP32 reports a 32-bit general-purpose register, from the register's own kind and byte mask.
func c02IsGP32(r reg.Register) bool {
	return r.Kind() == reg.KindGP && r.Mask() == reg.S32.Mask()
}

// encUseDef encodes an instruction's operands with the actions its form specifies (see the comment above:
// the specification side uses nothing of the code under test).
func encUseDef(f *formRow, ops []operand.Op) string {
	parts := []string{b01(f.Features&featCancelling != 0), itoa(len(f.Operands))}
	k := 0
	for j, o := range f.Operands {
		var op operand.Op
		if o.Implicit {
			op = c02ImplicitRegister(f, j)
		} else {
			op = ops[k]
			k++
		}
		act := itoa(int(c02Action(f, j)))
		switch v := op.(type) {
		case reg.Register:
			parts = append(parts, act, "R", encReg(v), b01(c02IsGP32(v)))
		case operand.Mem:
			parts = append(parts, act, "M", encRegs(c02MemRegs(v)))
		default:
			parts = append(parts, act, "O")
		}
	}
	return strings.Join(parts, " ")
}

// c02OtherView rewrites the first two operands (two 8-bit general-purpose registers) into the low-byte and
// high-byte views of one register: variant 0/1 virtual (8L,8H)/(8H,8L), variant 2/3 physical A/B/C/D.
func c02OtherView(r *rng, ops []operand.Op, variant int) bool {
	if len(ops) < 2 {
		return false
	}
	a, ok1 := ops[0].(reg.Register)
	b, ok2 := ops[1].(reg.Register)
	if !ok1 || !ok2 || a.Kind() != reg.KindGP || b.Kind() != reg.KindGP || a.Size() != 1 || b.Size() != 1 {
		return false
	}
	var lo, hi reg.Register
	if variant < 2 {
		col := reg.NewCollection()
		var v reg.GPVirtual
		for k := r.intn(6); k >= 0; k-- {
			v = col.GP64()
		}
		lo, hi = v.As8L(), v.As8H()
	} else {
		p := []reg.GPPhysical{reg.RAX, reg.RCX, reg.RDX, reg.RBX}[r.intn(4)]
		lo, hi = p.As8L(), p.As8H()
	}
	if variant%2 == 0 {
		ops[0], ops[1] = lo, hi
	} else {
		ops[0], ops[1] = hi, lo
	}
	return true
}

// c02Shape counts the operand situations the property text names, as they occur in a judged instruction.
func c02Shape(stats map[string]int, m *formRow, ops []operand.Op) {
	k := 0
	masked := false
	for j, o := range m.Operands {
		act := c02Action(m, j)
		if o.Implicit {
			stats["shape:implicit_operand"]++
			continue
		}
		op := ops[k]
		k++
		switch v := op.(type) {
		case operand.Mem:
			if v.Index != nil && v.Index.Kind() == reg.KindVector {
				stats["shape:mem_vector_index"]++
			} else if v.Index != nil {
				stats["shape:mem_gp_index"]++
			}
			if act&2 != 0 && len(c02MemRegs(v)) > 0 {
				stats["shape:written_mem_with_address_registers"]++
			}
		case reg.Register:
			if v.Kind() == reg.KindOpmask && act == 1 && j > 0 && j == len(m.Operands)-2 {
				masked = true
				stats["shape:mask_operand"]++
			}
			if masked && j == len(m.Operands)-1 && act == 3 {
				stats["shape:merge_destination"]++
			}
			if act&2 != 0 && c02IsGP32(v) {
				stats["shape:gp32_destination"]++
			}
			if v.Mask() == reg.S8H.Mask() && v.Kind() == reg.KindGP {
				stats["shape:high_byte_register"]++
			}
		}
	}
}

// c02Chain builds a function in which liveness has to travel through `depth` backward branches one after the
// other: blocks b[depth-1] … b[0] are laid out top to bottom, execution enters at the bottom block b[0], every
// block branches BACKWARDS (upwards) to the next one, and the register set before the first branch is read only in
// the top block. The round-robin analysis (which visits instructions last to first) advances such a fact by one
// block per sweep, so it needs about `depth` sweeps. Variants: conditional/unconditional branches, extra
// per-block registers of several widths (each needing a different number of sweeps), partial redefinitions on the
// way, filler instructions drawn from the form table, an enclosing outer loop.
func c02Chain(r *rng, db *formsDB, depth, variant int) *ir.Function {
	g := newFgen(r.fork(), db, genCfg{nGP: 3, nVec: 1, nK: 1, physPct: 30, randomFormPct: 20})
	fn := g.fn
	add := func(opc string, ops ...operand.Op) bool {
		inst, err := x86.VerifBuild(opc, nil, ops)
		if err != nil || inst == nil {
			return false
		}
		fn.AddInstruction(inst)
		return true
	}
	lbl := func(i int) string { return fmt.Sprintf("b%d", i) }
	// the carried register: widths and kinds vary with the variant
	var carried reg.Register
	var readCarried func()
	acc := reg.Register(reg.R15)
	switch variant % 6 {
	case 0:
		v := g.col.GP64()
		carried = v
		add("MOVQ", operand.U64(1<<40), v)
		readCarried = func() { add("ADDQ", v, acc) }
	case 1:
		v := g.col.GP64()
		carried = v
		add("MOVQ", operand.U64(7), v)
		readCarried = func() { add("ADDB", v.As8H(), reg.AL) } // only byte 1 is read at the top
	case 2:
		v := g.col.ZMM()
		carried = v
		add("VMOVDQU64", operand.NewParamAddr("x", 0), v)
		readCarried = func() { add("VPADDD", v, reg.Z0, reg.Z0) }
	case 3:
		v := g.col.K()
		carried = v
		add("KMOVQ", operand.NewParamAddr("x", 0), v)
		readCarried = func() { add("KORQ", v, reg.K1, reg.K1) }
	case 4:
		carried = reg.R14
		add("MOVQ", operand.U64(3), reg.R14)
		readCarried = func() { add("MOVQ", operand.Mem{Base: reg.R14, Index: reg.R14, Scale: 2}, acc) } // read as address registers
	default:
		v := g.col.GP32()
		carried = v
		add("MOVL", operand.U32(5), v)
		readCarried = func() { add("ADDL", v, reg.EAX) }
	}
	// per-block registers: block i reads side[i], defined up front, so side[i] needs about i sweeps
	side := make([]reg.GPVirtual, depth)
	for i := range side {
		if variant%2 == 1 && i%3 == 0 {
			side[i] = g.col.GP64()
			add("MOVQ", operand.U64(uint64(i)), side[i])
		}
	}
	outer := variant%5 == 3
	if outer {
		fn.AddLabel(ir.Label("outer"))
	}
	add("JMP", operand.LabelRef(lbl(0)))
	for i := depth - 1; i >= 0; i-- {
		fn.AddLabel(ir.Label(lbl(i)))
		if side[i] != nil {
			add("ADDQ", side[i], acc)
		}
		// fillers never touch the carried register (it is not among the generator's registers unless physical)
		for k := r.intn(3); k > 0; k-- {
			if f := g.pickForm(false); f != nil {
				if inst := g.buildForm(f); inst != nil {
					fn.AddInstruction(inst)
				}
			}
		}
		if i == depth-1 {
			readCarried()
			if outer {
				add("JNE", operand.LabelRef("outer"))
			}
			add("RET")
			continue
		}
		if variant%4 == 2 && i == depth/2 {
			// partial redefinition on the way: the low byte of a general-purpose carried register is overwritten,
			// the other bytes stay live through it
			if gp, ok := carried.(reg.GP); ok {
				add("MOVB", operand.U8(9), gp.As8L())
			}
		}
		if (variant+i)%3 == 0 {
			add("JNE", operand.LabelRef(lbl(i+1))) // conditional: falls through into the block below (or off the end)
			if i == 0 {
				add("RET")
			}
		} else {
			add("JMP", operand.LabelRef(lbl(i+1)))
		}
	}
	return fn
}

func init() {
	register("c02", "liveness on generated functions; use/def extraction on every form", func(args []string) error {
		f := newStdFlags("c02")
		if err := f.fs.Parse(args); err != nil {
			return err
		}
		db, err := loadForms(*f.repo)
		if err != nil {
			return err
		}
		c02TheSpec = c02LoadSpec(*f.repo, db)
		o, err := openOut(f)
		if err != nil {
			return err
		}
		defer o.close()
		r := newRng(*f.seed)
		stats := map[string]int{}
		stats["spec_actions_from_source_names"] = 0
		if c02TheSpec.usable {
			stats["spec_actions_from_source_names"] = 1
			stats["spec_action_rows_differing_from_compiled_table"] = c02TheSpec.disagree
		}

		// (a) instruction level: EVERY form row in every tier (thorough: x3 operand choices), cancelling forms
		// additionally with equal registers and with the two byte views of one register
		reps := 1
		if *f.tier != "quick" {
			reps = 3
		}
		stats["rows_total"] = len(db.rows)
		for fi := 0; fi < len(db.rows); fi++ {
			row := &db.rows[fi]
			canc := row.Features&featCancelling != 0
			if canc {
				stats["cancelling_rows"]++
				// InputRegisters indexes the first two read registers of such a form without a length check
				ok := len(row.Operands) >= 2
				for j := 0; ok && j < 2; j++ {
					t := row.TypeNames[j]
					isReg := t == "r8" || t == "r16" || t == "r32" || t == "r64" || t == "xmm" || t == "ymm" || t == "zmm" || t == "k"
					ok = !row.Operands[j].Implicit && isReg && c02Action(row, j)&1 != 0
				}
				if !ok {
					stats["cancelling_rows_not_leading_with_two_read_registers"]++
				}
			}
			nrep := reps
			if canc {
				nrep = reps + 1 + 4
			}
			for rep := 0; rep < nrep; rep++ {
				stats["usedef_attempts"]++
				g := newFgen(r.fork(), db, genCfg{nGP: 4, nVec: 4, nK: 3, physPct: 40})
				g.labels = []string{"l"}
				var ops []operand.Op
				for i, od := range row.Operands {
					if od.Implicit {
						continue
					}
					ops = append(ops, g.operandFor(row.TypeNames[i], od.Action))
				}
				if canc && len(ops) >= 2 && rep < reps+1 && (rep == 0 || r.chance(1, 2)) {
					ops[1] = ops[0] // the self-cancelling situation
					stats["cancelling_equal"]++
				}
				if rep >= reps+1 {
					// extra repetitions of cancelling forms: the two operands are DIFFERENT views of ONE register
					// (low and high byte of the same virtual or physical register): same identity, other bytes —
					// not self-cancelling, both are reads
					if !c02OtherView(r, ops, rep-reps-1) {
						stats["usedef_attempts"]--
						continue
					}
					stats["cancelling_other_view"]++
				}
				var sfx []string
				if len(row.Suffixes) > 0 {
					sfx = pick(r, row.Suffixes)
				}
				var inst *ir.Instruction
				err, panicked := safely(func() error {
					var e error
					inst, e = x86.VerifBuild(row.Opcode, sfx, ops)
					return e
				})
				if panicked {
					o.emit("accept-usedef-panic "+row.Opcode, "ok")
					continue
				}
				if err != nil || inst == nil {
					stats["form_rejected"]++
					continue
				}
				m := matchedForm(db, row.Opcode, sfx, ops)
				if m == nil {
					stats["no_matched_form"]++
					continue
				}
				var in, out []reg.Register
				_, panicked = safely(func() error {
					if e := pass.ZeroExtend32BitOutputs(inst); e != nil {
						return e
					}
					in, out = inst.InputRegisters(), inst.OutputRegisters()
					return nil
				})
				req := encUseDef(m, ops)
				if panicked {
					o.emit("usedef "+req, "panic")
					continue
				}
				resp := encMaskSet(reg.NewMaskSetFromRegisters(in)) + " " + encMaskSet(reg.NewMaskSetFromRegisters(out))
				o.emit("usedef "+req, resp)
				o.emit("accept-usedef "+req+" => "+resp, "ok")
				stats["usedef"]++
				c02Shape(stats, m, ops)
				if m.Index != row.Index {
					stats["usedef_other_form_matched"]++
				}
			}
		}
		for n := range c02ImplUnresolved {
			stats["implicit_register_name_unresolved:"+n]++
		}

		// (b) function level
		// The same function through the REAL pass.Compile (see c09Pressure): the live sets the pipeline computed, on the node
		// list and the graph the pipeline's earlier passes left, judged like the direct route.
		judgePipe := func(fn *ir.Function, kind string) {
			c, err, panicked, _ := c09CompileUnderPressure(fn)
			if c == nil || panicked || err == nil || !c09LivenessReached(c) {
				stats["pipe_not_judged"]++
				return
			}
			o.emit("accept-cfg "+encNodes(c)+" => "+encGraphNodes(c), "ok")
			req := encLiveProgNodes(c)
			resp := encLiveResultNodes(c)
			o.emit("live "+req, resp)
			o.emit("accept-live "+req+" => "+resp, "ok")
			stats["pipe_judged"]++
			stats["pipe_judged:"+kind]++
		}
		judge := func(fn *ir.Function, kind string) bool {
			judgePipe(fn, kind)
			if !prepLiveness(fn) {
				stats[kind+"_cfg_rejected"]++
				return false
			}
			// the control-flow graph liveness runs on is itself judged against the opcode-derived specification (C09's acceptor)
			o.emit("accept-cfg "+encNodes(fn)+" => "+encGraph(fn), "ok")
			req := encLiveProg(fn)
			err, _ := safely(func() error { return pass.Liveness(fn) })
			resp := ""
			if err != nil {
				resp = "err " + err.Error()
			} else {
				resp = encLiveResult(fn)
			}
			o.emit("live "+req, resp)
			o.emit("accept-live "+req+" => "+resp, "ok")
			stats[kind]++
			stats["instructions"] += len(fn.Instructions())
			idx := instrIndex(fn)
			for k, i := range fn.Instructions() {
				if len(i.Succ) == 2 {
					stats["cond_branches"]++
				}
				for _, s := range i.Succ {
					if s == nil {
						stats["nil_succ"]++
					} else if idx[s] <= k {
						stats["back_edges"]++
					}
				}
				if len(i.Pred) == 0 {
					stats["no_pred"]++
				}
			}
			return true
		}
		// (b1) long chains of backward branches: the number of sweeps the analysis needs grows with the depth
		variants := 2
		if *f.tier != "quick" {
			variants = 12
		}
		for depth := 2; depth <= 16; depth++ {
			for v := 0; v < variants; v++ {
				if judge(c02Chain(r, db, depth, int(*f.seed)+depth+v*7), "chain_functions") && depth > stats["chain_max_depth"] {
					stats["chain_max_depth"] = depth
				}
			}
		}
		// (b1') degenerate shapes: no instruction at all, a single instruction, a one-instruction self-loop, a
		// conditional self-loop reading and writing one register
		{
			mk := func(build func(fn *ir.Function, add func(string, ...operand.Op))) *ir.Function {
				fn := ir.NewFunction("d")
				build(fn, func(opc string, ops ...operand.Op) {
					if inst, err := x86.VerifBuild(opc, nil, ops); err == nil && inst != nil {
						fn.AddInstruction(inst)
					}
				})
				return fn
			}
			judge(mk(func(fn *ir.Function, add func(string, ...operand.Op)) {}), "degenerate_functions")
			judge(mk(func(fn *ir.Function, add func(string, ...operand.Op)) { add("ADDQ", reg.RBX, reg.RAX) }), "degenerate_functions")
			judge(mk(func(fn *ir.Function, add func(string, ...operand.Op)) {
				fn.AddLabel("l")
				add("JMP", operand.LabelRef("l"))
			}), "degenerate_functions")
			judge(mk(func(fn *ir.Function, add func(string, ...operand.Op)) {
				v := reg.NewCollection().GP64()
				add("MOVQ", operand.U64(1), v)
				fn.AddLabel("l")
				add("ADDB", v.As8H(), v.As8L())
				add("JNE", operand.LabelRef("l"))
				add("RET")
			}), "degenerate_functions")
		}
		// (b2) random functions
		for k := 0; k < *f.n; k++ {
			cfg := genCfg{minInstr: 1, maxInstr: 4 + r.intn(40), nGP: 1 + r.intn(8), nVec: r.intn(5), nK: r.intn(3),
				physPct: 20 + r.intn(40), branchPct: 10 + r.intn(30), randomFormPct: 30, strict: r.chance(1, 2)}
			if *f.tier == "thorough" && r.chance(1, 20) {
				cfg.maxInstr = 100 + r.intn(300)
			}
			g := newFgen(r.fork(), db, cfg)
			judge(g.generate(), "functions")
		}
		return writeJSON(*f.stats, stats)
	})
}
