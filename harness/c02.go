package main

import (
	"fmt"
	"strings"

	"github.com/mmcloughlin/avo/ir"
	"github.com/mmcloughlin/avo/operand"
	"github.com/mmcloughlin/avo/pass"
	"github.com/mmcloughlin/avo/reg"
	"github.com/mmcloughlin/avo/x86"
)

// encLiveProg encodes what liveness looks at: per instruction the registers
// the implementation reports as read / written and its successor indices.
func encLiveProg(fn *ir.Function) string {
	idx := instrIndex(fn)
	is := fn.Instructions()
	parts := []string{itoa(len(is))}
	for _, i := range is {
		parts = append(parts, encRegs(i.InputRegisters()), encRegs(i.OutputRegisters()))
		parts = append(parts, itoa(len(i.Succ)))
		for _, s := range i.Succ {
			if s == nil {
				parts = append(parts, "-1")
			} else {
				parts = append(parts, itoa(idx[s]))
			}
		}
	}
	return strings.Join(parts, " ")
}

func encLiveResult(fn *ir.Function) string {
	is := fn.Instructions()
	parts := []string{"ok", itoa(len(is))}
	for _, i := range is {
		parts = append(parts, encMaskSet(i.LiveIn), encMaskSet(i.LiveOut))
	}
	return strings.Join(parts, " ")
}

// prepLiveness runs LabelTarget, CFG and ZeroExtend32BitOutputs; returns false when the function is rejected.
func prepLiveness(fn *ir.Function) bool {
	err, _ := safely(func() error {
		if err := pass.LabelTarget(fn); err != nil {
			return err
		}
		if err := pass.CFG(fn); err != nil {
			return err
		}
		for _, i := range fn.Instructions() {
			if err := pass.ZeroExtend32BitOutputs(i); err != nil {
				return err
			}
		}
		return nil
	})
	return err == nil
}

// matchedForm returns the first form row of the opcode matching suffixes and operands (what x86.build selects).
func matchedForm(db *formsDB, opcode string, sfx []string, ops []operand.Op) *formRow {
	for _, ix := range db.byOpcode[opcode] {
		f := &db.rows[ix]
		okS := false
		for _, s := range f.Suffixes {
			if strings.Join(s, ".") == strings.Join(sfx, ".") {
				okS = true
			}
		}
		if !okS || int(f.Arity) != len(ops) {
			continue
		}
		ok := true
		k := 0
		for _, o := range f.Operands {
			if o.Implicit {
				continue
			}
			if !x86.VerifMatch(o.Type, ops[k]) {
				ok = false
				break
			}
			k++
		}
		if ok {
			return f
		}
	}
	return nil
}

// encUseDef encodes an instruction's operands with the actions of its form.
func encUseDef(f *formRow, ops []operand.Op) string {
	parts := []string{b01(f.Features&featCancelling != 0), itoa(len(f.Operands))}
	k := 0
	for _, o := range f.Operands {
		var op operand.Op
		if o.Implicit {
			op = x86.VerifImplReg(o.Type)
		} else {
			op = ops[k]
			k++
		}
		act := itoa(int(o.Action))
		switch v := op.(type) {
		case reg.Register:
			parts = append(parts, act, "R", encReg(v), b01(operand.IsR32(op)))
		case operand.Mem:
			parts = append(parts, act, "M", encRegs(operand.Registers(v)))
		default:
			parts = append(parts, act, "O")
		}
	}
	return strings.Join(parts, " ")
}

// c02OtherView rewrites the first two operands (two 8-bit general-purpose registers) into the low-byte and
// high-byte views of one register: variant 0/1 virtual (8L,8H)/(8H,8L), variant 2/3 physical A/B/C/D.
func c02OtherView(r *rng, ops []operand.Op, variant int) bool {
	if len(ops) < 2 {
		return false
	}
	a, ok1 := ops[0].(reg.Register)
	b, ok2 := ops[1].(reg.Register)
	if !ok1 || !ok2 || a.Kind() != reg.KindGP || b.Kind() != reg.KindGP || a.Size() != 1 || b.Size() != 1 {
		return false
	}
	var lo, hi reg.Register
	if variant < 2 {
		col := reg.NewCollection()
		var v reg.GPVirtual
		for k := r.intn(6); k >= 0; k-- {
			v = col.GP64()
		}
		lo, hi = v.As8L(), v.As8H()
	} else {
		p := []reg.GPPhysical{reg.RAX, reg.RCX, reg.RDX, reg.RBX}[r.intn(4)]
		lo, hi = p.As8L(), p.As8H()
	}
	if variant%2 == 0 {
		ops[0], ops[1] = lo, hi
	} else {
		ops[0], ops[1] = hi, lo
	}
	return true
}

func init() {
	register("c02", "liveness on generated functions; use/def extraction on sampled forms", func(args []string) error {
		f := newStdFlags("c02")
		if err := f.fs.Parse(args); err != nil {
			return err
		}
		db, err := loadForms(*f.repo)
		if err != nil {
			return err
		}
		o, err := openOut(f)
		if err != nil {
			return err
		}
		defer o.close()
		r := newRng(*f.seed)
		stats := map[string]int{}

		// (a) instruction level: every form (thorough: x3 operand choices; quick: a stride), cancelling forms with equal registers
		stride := 1
		reps := 1
		if *f.tier == "quick" {
			stride = 3
		} else {
			reps = 3
		}
		start := int(*f.seed) % stride
		for fi := 0; fi < len(db.rows); fi++ {
			row := &db.rows[fi]
			// every self-cancelling form is always included (regression for F2); the rest by stride
			if fi%stride != start && row.Features&featCancelling == 0 {
				continue
			}
			nrep := reps
			if row.Features&featCancelling != 0 {
				nrep = reps + 4
			}
			for rep := 0; rep < nrep; rep++ {
				g := newFgen(r.fork(), db, genCfg{nGP: 4, nVec: 4, nK: 3, physPct: 40})
				g.labels = []string{"l"}
				var ops []operand.Op
				for i, od := range row.Operands {
					if od.Implicit {
						continue
					}
					ops = append(ops, g.operandFor(row.TypeNames[i], od.Action))
				}
				if row.Features&featCancelling != 0 && len(ops) >= 2 && (rep == 0 || r.chance(1, 2)) {
					ops[1] = ops[0] // the self-cancelling situation
					stats["cancelling_equal"]++
				}
				if rep >= reps {
					// extra repetitions of cancelling forms: the two operands are DIFFERENT views of ONE register
					// (low and high byte of the same virtual or physical register): same identity, other bytes —
					// not self-cancelling, both are reads
					if !c02OtherView(r, ops, rep-reps) {
						continue
					}
					stats["cancelling_other_view"]++
				}
				var sfx []string
				if len(row.Suffixes) > 0 {
					sfx = pick(r, row.Suffixes)
				}
				var inst *ir.Instruction
				err, panicked := safely(func() error {
					var e error
					inst, e = x86.VerifBuild(row.Opcode, sfx, ops)
					return e
				})
				if panicked {
					o.emit("accept-usedef-panic "+row.Opcode, "ok")
					continue
				}
				if err != nil || inst == nil {
					stats["form_rejected"]++
					continue
				}
				m := matchedForm(db, row.Opcode, sfx, ops)
				if m == nil {
					stats["no_matched_form"]++
					continue
				}
				var in, out []reg.Register
				_, panicked = safely(func() error {
					if e := pass.ZeroExtend32BitOutputs(inst); e != nil {
						return e
					}
					in, out = inst.InputRegisters(), inst.OutputRegisters()
					return nil
				})
				req := encUseDef(m, ops)
				if panicked {
					o.emit("usedef "+req, "panic")
					continue
				}
				resp := encMaskSet(reg.NewMaskSetFromRegisters(in)) + " " + encMaskSet(reg.NewMaskSetFromRegisters(out))
				o.emit("usedef "+req, resp)
				o.emit("accept-usedef "+req+" => "+resp, "ok")
				stats["usedef"]++
				if m.Index != row.Index {
					stats["usedef_other_form_matched"]++
				}
			}
		}

		// (b) function level
		for k := 0; k < *f.n; k++ {
			cfg := genCfg{minInstr: 1, maxInstr: 4 + r.intn(40), nGP: 1 + r.intn(8), nVec: r.intn(5), nK: r.intn(3),
				physPct: 20 + r.intn(40), branchPct: 10 + r.intn(30), randomFormPct: 30, strict: r.chance(1, 2)}
			if *f.tier == "thorough" && r.chance(1, 20) {
				cfg.maxInstr = 100 + r.intn(300)
			}
			g := newFgen(r.fork(), db, cfg)
			fn := g.generate()
			if !prepLiveness(fn) {
				stats["cfg_rejected"]++
				continue
			}
			// the control-flow graph liveness runs on is itself judged against the opcode-derived specification (C09's acceptor)
			o.emit("accept-cfg "+encNodes(fn)+" => "+encGraph(fn), "ok")
			req := encLiveProg(fn)
			err, _ := safely(func() error { return pass.Liveness(fn) })
			resp := ""
			if err != nil {
				resp = "err " + err.Error()
			} else {
				resp = encLiveResult(fn)
			}
			o.emit("live "+req, resp)
			o.emit("accept-live "+req+" => "+resp, "ok")
			stats["functions"]++
			stats["instructions"] += len(fn.Instructions())
			for _, i := range fn.Instructions() {
				if len(i.Succ) == 2 {
					stats["cond_branches"]++
				}
				for _, s := range i.Succ {
					if s == nil {
						stats["nil_succ"]++
					}
				}
				if len(i.Pred) == 0 {
					stats["no_pred"]++
				}
			}
		}
		_ = fmt.Sprint
		return writeJSON(*f.stats, stats)
	})
}
