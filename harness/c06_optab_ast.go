package main

import (
	"fmt"
	"go/ast"
	"go/token"
	"hash/crc32"
	"path/filepath"
	"strconv"
)

// AST extraction of x86/zoptab.go (+ the feature/action constants of
// x86/optab.go).  Used by the gen-lean translators (FormsMeta, Forms_NN, Forms)
// and by the C06/C08 harnesses.  Data only.

type optabOprnd struct {
	TypeIdent string // identifier inside uint8(...): oprndtypeX or implregX
	Type      int
	Implicit  bool
	ActIdent  string
	Action    int
}

type optabForm struct {
	OpcIdent string
	Opc      int
	ClsIdent string
	Cls      int
	Features int
	IsaIdent string
	Isa      int
	Arity    int
	Operands []optabOprnd
}

type optabAST struct {
	MaxOperands, MaxSuffixes int
	OprndTypes               []string          // const identifiers in order (without None/max); value = index+1
	OprndTypeMaxIdent        string            // oprndtypemax
	Checkers                 map[string]string // oprndtype const -> operand.IsX function name
	ImplRegs                 []string          // const identifiers
	ImplRegVars              map[string]string // implreg const -> reg.<Var>
	Sffx                     []string
	SffxsStrings             []sffxsEntry
	SffxsCls                 []string
	SffxsClsSets             [][][2]int // per class (index+1 = code) the accepted arrays
	Isas                     []string
	IsasLists                [][]string
	Opcs                     []string
	OpcStrings               []string
	Forms                    []optabForm // rows of the COMPILED table (x86.VerifForms) with identifiers resolved through the enums
	ASTForms                 []optabForm // rows as written in the source, when the literal has a recognised shape (cross-check only)
	ASTFormsNote             string      // why the source literal was not read (not an error: the compiled table is authoritative)
	OpcRanges                [][2]int    // opcformstable entries forms[lo:hi]
	Consts                   map[string]int64
	Features                 []string // feature const names (optab.go) with values in Consts
	Actions                  []string
}

type sffxsEntry struct {
	Key     [2]int
	Strings []string
}

func enumBlock(f *ast.File, typ string) []string {
	for _, d := range f.Decls {
		gd, ok := d.(*ast.GenDecl)
		if !ok || gd.Tok != token.CONST || len(gd.Specs) == 0 {
			continue
		}
		vs := gd.Specs[0].(*ast.ValueSpec)
		id, ok := vs.Type.(*ast.Ident)
		if !ok || id.Name != typ {
			continue
		}
		var names []string
		for _, sp := range gd.Specs {
			for _, n := range sp.(*ast.ValueSpec).Names {
				names = append(names, n.Name)
			}
		}
		return names
	}
	return nil
}

func findVar(f *ast.File, name string) ast.Expr {
	for _, d := range f.Decls {
		gd, ok := d.(*ast.GenDecl)
		if !ok || gd.Tok != token.VAR {
			continue
		}
		for _, sp := range gd.Specs {
			vs := sp.(*ast.ValueSpec)
			for i, n := range vs.Names {
				if n.Name == name && i < len(vs.Values) {
					return vs.Values[i]
				}
			}
		}
	}
	return nil
}

func findFunc(f *ast.File, recv, name string) *ast.FuncDecl {
	for _, d := range f.Decls {
		fd, ok := d.(*ast.FuncDecl)
		if !ok || fd.Name.Name != name {
			continue
		}
		if recv == "" {
			if fd.Recv == nil {
				return fd
			}
			continue
		}
		if fd.Recv == nil || len(fd.Recv.List) != 1 {
			continue
		}
		t := fd.Recv.List[0].Type
		if st, ok := t.(*ast.StarExpr); ok {
			t = st.X
		}
		if id, ok := t.(*ast.Ident); ok && id.Name == recv {
			return fd
		}
	}
	return nil
}

// switchCases extracts `case <ident>: return <expr>` pairs of the single
// switch statement in fd's body.
func switchCases(fd *ast.FuncDecl) (map[string]ast.Expr, error) {
	out := map[string]ast.Expr{}
	if fd == nil || fd.Body == nil {
		return nil, fmt.Errorf("function not found")
	}
	var sw *ast.SwitchStmt
	for _, st := range fd.Body.List {
		if s, ok := st.(*ast.SwitchStmt); ok {
			sw = s
		}
	}
	if sw == nil {
		return nil, fmt.Errorf("%s: no switch", fd.Name.Name)
	}
	for _, c := range sw.Body.List {
		cc := c.(*ast.CaseClause)
		if cc.List == nil {
			continue // default
		}
		if len(cc.Body) != 1 {
			return nil, fmt.Errorf("%s: unexpected case shape", fd.Name.Name)
		}
		rs, ok := cc.Body[0].(*ast.ReturnStmt)
		if !ok || len(rs.Results) != 1 {
			return nil, fmt.Errorf("%s: case body is not a return", fd.Name.Name)
		}
		for _, ce := range cc.List { // `case A, B:` = the same result for both
			id, ok := ce.(*ast.Ident)
			if !ok {
				return nil, fmt.Errorf("%s: non-identifier case", fd.Name.Name)
			}
			if _, dup := out[id.Name]; dup {
				return nil, fmt.Errorf("%s: duplicate case %s", fd.Name.Name, id.Name)
			}
			out[id.Name] = rs.Results[0]
		}
	}
	return out, nil
}

func stringList(e ast.Expr) ([]string, error) {
	if id, ok := e.(*ast.Ident); ok && id.Name == "nil" {
		return nil, nil
	}
	cl, ok := e.(*ast.CompositeLit)
	if !ok {
		return nil, fmt.Errorf("not a string list literal")
	}
	out := []string{}
	for _, el := range cl.Elts {
		bl, ok := el.(*ast.BasicLit)
		if !ok || bl.Kind != token.STRING {
			return nil, fmt.Errorf("non-string element")
		}
		s, err := strconv.Unquote(bl.Value)
		if err != nil {
			return nil, err
		}
		out = append(out, s)
	}
	return out, nil
}

// sffxsKey evaluates a `sffxs{a, b}` / `{a, b}` composite literal to the array value.
func sffxsKey(e ast.Expr, consts map[string]int64) ([2]int, error) {
	var k [2]int
	cl, ok := e.(*ast.CompositeLit)
	if !ok {
		return k, fmt.Errorf("suffix array: not a composite literal")
	}
	if len(cl.Elts) > 2 {
		return k, fmt.Errorf("suffix array: too many elements")
	}
	for i, el := range cl.Elts {
		v, ok := evalConst(el, 0, consts)
		if !ok {
			return k, fmt.Errorf("suffix array: cannot evaluate element")
		}
		k[i] = int(v)
	}
	return k, nil
}

var optabCache = map[string]*optabAST{}

func parseOptab(repo string) (*optabAST, error) {
	if t, ok := optabCache[repo]; ok {
		return t, nil
	}
	_, zf, err := parseFile(filepath.Join(repo, "x86", "zoptab.go"))
	if err != nil {
		return nil, err
	}
	_, hf, err := parseFile(filepath.Join(repo, "x86", "optab.go"))
	if err != nil {
		return nil, err
	}
	t := &optabAST{Checkers: map[string]string{}, ImplRegVars: map[string]string{}}
	_, hv := constBlockInts(hf)
	_, zv := constBlockInts(zf)
	t.Consts = map[string]int64{}
	for k, v := range hv {
		t.Consts[k] = v
	}
	for k, v := range zv {
		if _, dup := t.Consts[k]; dup {
			return nil, fmt.Errorf("constant %s defined twice", k)
		}
		t.Consts[k] = v
	}
	t.Features = enumBlock(hf, "feature")
	t.Actions = enumBlock(hf, "action")
	if len(t.Features) == 0 || len(t.Actions) == 0 {
		return nil, fmt.Errorf("feature/action const blocks not found in optab.go")
	}
	mo, ok1 := t.Consts["maxoperands"]
	ms, ok2 := t.Consts["maxsuffixes"]
	if !ok1 || !ok2 {
		return nil, fmt.Errorf("maxoperands/maxsuffixes not found")
	}
	t.MaxOperands, t.MaxSuffixes = int(mo), int(ms)

	// enums: <T>None = iota, names…, <T>max
	enum := func(typ string) ([]string, error) {
		names := enumBlock(zf, typ)
		if len(names) < 2 {
			return nil, fmt.Errorf("enum %s not found", typ)
		}
		for i, n := range names {
			if t.Consts[n] != int64(i) {
				return nil, fmt.Errorf("enum %s: %s is not %d", typ, n, i)
			}
		}
		// first = the zero value ("None"), last = the bound ("max"), whatever they are called
		return names[1 : len(names)-1], nil
	}
	if t.OprndTypes, err = enum("oprndtype"); err != nil {
		return nil, err
	}
	if t.ImplRegs, err = enum("implreg"); err != nil {
		return nil, err
	}
	if t.Sffx, err = enum("sffx"); err != nil {
		return nil, err
	}
	if t.SffxsCls, err = enum("sffxscls"); err != nil {
		return nil, err
	}
	if t.Isas, err = enum("isas"); err != nil {
		return nil, err
	}
	if t.Opcs, err = enum("opc"); err != nil {
		return nil, err
	}

	// oprndtype.Match
	cases, err := switchCases(findFunc(zf, "oprndtype", "Match"))
	if err != nil {
		return nil, err
	}
	for k, e := range cases {
		call, ok := e.(*ast.CallExpr)
		if !ok || len(call.Args) != 1 {
			return nil, fmt.Errorf("Match: case %s is not a call", k)
		}
		if a, ok := call.Args[0].(*ast.Ident); !ok || a.Name != "op" {
			return nil, fmt.Errorf("Match: case %s does not pass op", k)
		}
		sel, ok := call.Fun.(*ast.SelectorExpr)
		if !ok {
			return nil, fmt.Errorf("Match: case %s callee", k)
		}
		if p, ok := sel.X.(*ast.Ident); !ok || p.Name != "operand" {
			return nil, fmt.Errorf("Match: case %s callee package", k)
		}
		t.Checkers[k] = sel.Sel.Name
	}
	// implreg.Register
	cases, err = switchCases(findFunc(zf, "implreg", "Register"))
	if err != nil {
		return nil, err
	}
	for k, e := range cases {
		sel, ok := e.(*ast.SelectorExpr)
		if !ok {
			return nil, fmt.Errorf("Register: case %s", k)
		}
		if p, ok := sel.X.(*ast.Ident); !ok || p.Name != "reg" {
			return nil, fmt.Errorf("Register: case %s package", k)
		}
		t.ImplRegVars[k] = sel.Sel.Name
	}

	// sffxsstringsmap
	if cl, ok := findVar(zf, "sffxsstringsmap").(*ast.CompositeLit); ok {
		for _, el := range cl.Elts {
			kv := el.(*ast.KeyValueExpr)
			k, err := sffxsKey(kv.Key, t.Consts)
			if err != nil {
				return nil, err
			}
			ss, err := stringList(kv.Value)
			if err != nil {
				return nil, err
			}
			t.SffxsStrings = append(t.SffxsStrings, sffxsEntry{k, ss})
		}
	} else {
		return nil, fmt.Errorf("sffxsstringsmap not found")
	}
	// sffxsclssuffixessettable
	if cl, ok := findVar(zf, "sffxsclssuffixessettable").(*ast.CompositeLit); ok {
		for _, el := range cl.Elts {
			m, ok := el.(*ast.CompositeLit)
			if !ok {
				return nil, fmt.Errorf("sffxsclssuffixessettable: element")
			}
			var set [][2]int
			for _, e := range m.Elts {
				kv := e.(*ast.KeyValueExpr)
				k, err := sffxsKey(kv.Key, t.Consts)
				if err != nil {
					return nil, err
				}
				if v, ok := kv.Value.(*ast.Ident); !ok || v.Name != "true" {
					continue // a false entry is not accepted
				}
				set = append(set, k)
			}
			t.SffxsClsSets = append(t.SffxsClsSets, set)
		}
	} else {
		return nil, fmt.Errorf("sffxsclssuffixessettable not found")
	}
	// isaslisttable
	if cl, ok := findVar(zf, "isaslisttable").(*ast.CompositeLit); ok {
		for _, el := range cl.Elts {
			ss, err := stringList(el)
			if err != nil {
				return nil, err
			}
			t.IsasLists = append(t.IsasLists, ss)
		}
	} else {
		return nil, fmt.Errorf("isaslisttable not found")
	}
	// opcstringtable
	if e := findVar(zf, "opcstringtable"); e != nil {
		if t.OpcStrings, err = stringList(e); err != nil {
			return nil, err
		}
	} else {
		return nil, fmt.Errorf("opcstringtable not found")
	}
	// function shapes of the four table accessors: `if None < x && x < max { return table[x-1] }; return zero`
	// are exercised through the compiled package by the cross-check below and the harness.

	// forms: the rows of the compiled table are authoritative (what the program does); the source literal is read
	// as well when it has a recognised shape (positional or keyed rows, with or without the uint8 conversion) and
	// compared with the compiled rows by crossCheckForms
	if cl, ok := findVar(zf, "forms").(*ast.CompositeLit); ok {
		if rows, aerr := astFormRows(cl, t); aerr == nil {
			t.ASTForms = rows
		} else {
			t.ASTFormsNote = aerr.Error()
		}
	} else {
		t.ASTFormsNote = "forms literal not found"
	}
	if t.Forms, err = formsFromCompiled(t); err != nil {
		return nil, err
	}
	// opcformstable: `forms[lo:hi]` entries; when the literal has another shape, the ranges the compiled package
	// reports (x86.VerifOpcodeForms: consecutive blocks in opcode order)
	if rs, rerr := astOpcRanges(findVar(zf, "opcformstable"), t); rerr == nil {
		t.OpcRanges = rs
	} else if t.OpcRanges, err = rangesFromCompiled(t); err != nil {
		return nil, fmt.Errorf("opcformstable: %v; %v", rerr, err)
	}
	optabCache[repo] = t
	return t, nil
}

// litFields returns the elements of a struct literal by field position: positional elements as they come, keyed
// elements placed by name (missing fields = nil = zero value).
func litFields(cl *ast.CompositeLit, names []string) ([]ast.Expr, error) {
	out := make([]ast.Expr, len(names))
	keyed := len(cl.Elts) > 0
	for _, e := range cl.Elts {
		if _, ok := e.(*ast.KeyValueExpr); !ok {
			keyed = false
		}
	}
	if !keyed {
		if len(cl.Elts) != len(names) && len(cl.Elts) != 0 {
			return nil, fmt.Errorf("%d positional fields, want %d", len(cl.Elts), len(names))
		}
		copy(out, cl.Elts)
		return out, nil
	}
	for _, e := range cl.Elts {
		kv := e.(*ast.KeyValueExpr)
		k, ok := kv.Key.(*ast.Ident)
		if !ok {
			return nil, fmt.Errorf("non-identifier key")
		}
		found := false
		for i, n := range names {
			if n == k.Name {
				out[i], found = kv.Value, true
			}
		}
		if !found {
			return nil, fmt.Errorf("unknown field %s", k.Name)
		}
	}
	return out, nil
}

// astFormRows reads the `forms` literal of zoptab.go.
func astFormRows(cl *ast.CompositeLit, t *optabAST) ([]optabForm, error) {
	ident := func(e ast.Expr) (string, int, error) {
		if e == nil {
			return "", 0, nil
		}
		if call, ok := e.(*ast.CallExpr); ok && len(call.Args) == 1 { // a conversion such as uint8(x)
			e = call.Args[0]
		}
		id, ok := e.(*ast.Ident)
		if !ok {
			v, ok := evalConst(e, 0, t.Consts)
			if !ok {
				return "", 0, fmt.Errorf("forms: expected a constant")
			}
			return "", int(v), nil
		}
		v, ok := t.Consts[id.Name]
		if !ok {
			return "", 0, fmt.Errorf("forms: unknown constant %s", id.Name)
		}
		return id.Name, int(v), nil
	}
	num := func(e ast.Expr) (int, error) {
		if e == nil {
			return 0, nil
		}
		v, ok := evalConst(e, 0, t.Consts)
		if !ok {
			return 0, fmt.Errorf("forms: cannot evaluate constant expression")
		}
		return int(v), nil
	}
	var out []optabForm
	var err error
	for ri, el := range cl.Elts {
		row, ok := el.(*ast.CompositeLit)
		if !ok {
			return nil, fmt.Errorf("forms row %d: unexpected shape", ri)
		}
		fs, ferr := litFields(row, []string{"Opcode", "SuffixesClass", "Features", "ISAs", "Arity", "Operands"})
		if ferr != nil {
			return nil, fmt.Errorf("forms row %d: %v", ri, ferr)
		}
		var fr optabForm
		if fr.OpcIdent, fr.Opc, err = ident(fs[0]); err != nil {
			return nil, err
		}
		if fr.ClsIdent, fr.Cls, err = ident(fs[1]); err != nil {
			return nil, err
		}
		if fr.Features, err = num(fs[2]); err != nil {
			return nil, fmt.Errorf("forms row %d: features", ri)
		}
		if fr.IsaIdent, fr.Isa, err = ident(fs[3]); err != nil {
			return nil, err
		}
		if fr.Arity, err = num(fs[4]); err != nil {
			return nil, fmt.Errorf("forms row %d: arity", ri)
		}
		if fs[5] != nil {
			ops, ok := fs[5].(*ast.CompositeLit)
			if !ok {
				return nil, fmt.Errorf("forms row %d: operands", ri)
			}
			for _, oe := range ops.Elts {
				o, ok := oe.(*ast.CompositeLit)
				if !ok {
					return nil, fmt.Errorf("forms row %d: operand shape", ri)
				}
				of, ferr := litFields(o, []string{"Type", "Implicit", "Action"})
				if ferr != nil {
					return nil, fmt.Errorf("forms row %d: operand: %v", ri, ferr)
				}
				var od optabOprnd
				if od.TypeIdent, od.Type, err = ident(of[0]); err != nil {
					return nil, err
				}
				if of[1] != nil {
					b, ok := of[1].(*ast.Ident)
					if !ok || (b.Name != "true" && b.Name != "false") {
						return nil, fmt.Errorf("forms row %d: implicit flag", ri)
					}
					od.Implicit = b.Name == "true"
				}
				if od.ActIdent, od.Action, err = ident(of[2]); err != nil {
					return nil, err
				}
				fr.Operands = append(fr.Operands, od)
			}
		}
		out = append(out, fr)
	}
	return out, nil
}

func astOpcRanges(e ast.Expr, t *optabAST) ([][2]int, error) {
	cl, ok := e.(*ast.CompositeLit)
	if !ok {
		return nil, fmt.Errorf("opcformstable not found")
	}
	var out [][2]int
	for i, el := range cl.Elts {
		if id, isNil := el.(*ast.Ident); isNil && id.Name == "nil" {
			out = append(out, [2]int{0, 0})
			continue
		}
		se, ok := el.(*ast.SliceExpr)
		if !ok || se.Max != nil {
			return nil, fmt.Errorf("opcformstable[%d]: not forms[lo:hi]", i)
		}
		if id, ok := se.X.(*ast.Ident); !ok || id.Name != "forms" {
			return nil, fmt.Errorf("opcformstable[%d]: not a slice of forms", i)
		}
		lo, hi := int64(0), int64(len(t.Forms))
		ok1, ok2 := true, true
		if se.Low != nil {
			lo, ok1 = evalConst(se.Low, 0, t.Consts)
		}
		if se.High != nil {
			hi, ok2 = evalConst(se.High, 0, t.Consts)
		}
		if !ok1 || !ok2 {
			return nil, fmt.Errorf("opcformstable[%d]: bounds", i)
		}
		out = append(out, [2]int{int(lo), int(hi)})
	}
	return out, nil
}

// encName encodes an ASCII name for the Lean side (Avo.Name):
// bytes·2^40 + len·2^32 + crc32(bytes), big-endian bytes.  The checksum in the
// low bits carries no meaning; it keeps the Lean kernel's literal hashing
// (low bits only) from colliding on texts with a common ending.
func encName(s string) string {
	if s == "" {
		return "0"
	}
	if len(s) > 255 {
		panic("encName: name too long: " + s)
	}
	return fmt.Sprintf("0x%x%02x%08x", []byte(s), len(s), crc32.ChecksumIEEE([]byte(s)))
}
