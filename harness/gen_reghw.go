package main

// Oracle.RegHW: what the Go assembler and the host CPU do with every physical
// register name avo exposes (all non-pseudo rows of reg.Families).
//
// (a) ENCODING.  For each row (name, kind, size) one instruction per width
//     context is assembled with `go tool asm`:
//        GP   size 1/2/4/8 : MOVB/MOVW/MOVL/MOVQ  src<>(SB), <name>
//        Vec  size 16      : MOVOU (legacy SSE), VMOVDQU (VEX), VMOVDQU64 (EVEX)
//        Vec  size 32      : VMOVDQU (VEX), VMOVDQU64 (EVEX)
//        Vec  size 64      : VMOVDQU64 (EVEX)
//        K    size 8       : KMOVQ (VEX)
//     (a RIP-relative memory source: the destination is the only register
//     operand and no immediate can be re-sized by the assembler).  The
//     instruction bytes are read back with `go tool objdump` and decoded by up
//     to three independent decoders that must agree: a raw prefix/ModRM field
//     extractor (all encodings), binutils `objdump` (all encodings, when
//     installed) and golang.org/x/arch/x86/x86asm (legacy + VEX register
//     number).  Result: register class, architectural register number, operand
//     width, and the legacy high-byte flag (AH/CH/DH/BH address byte 1 of
//     registers 0..3).  Encodings the assembler rejects for a name (MOVOU X16)
//     are dropped as long as another one exists for that register.
//
// (b) EXECUTION.  The very same instructions (once with an all-zeros source,
//     once with an all-ones source) are built into a throw-away Go program
//     under <cwd>/reghw/probe and run through a trampoline that loads and
//     stores the complete register file (15 GP registers, K0-K7, Z0-Z31):
//        init=ones,  src=zeros -> C10    init=zeros, src=ones -> C01
//        init=ones,  src=ones  -> C11    init=zeros, src=zeros -> C00
//     data   = C01  : bytes that take the written value,
//     zeroed = C11  : bytes cleared as a side effect of the encoding (upper half
//                     of a 32-bit GP write; bits above the vector length of a
//                     VEX/EVEX write), with C10 = data ∪ zeroed and C00 = ∅
//     checked here.  Exactly one architectural register may change; its class
//     and number are reported (this identifies the register by what the CPU
//     did, independently of every decoder).  Writes through a view of the
//     stack pointer cannot be executed safely: those rows carry the encoding
//     only.  Without AVX-512 (F+BW+VL) on the host only GP rows are executed.
//
// Output: plain Lean data on stdout — `Avo.Oracle.regHW : List (List HWRow)`, one
// group of measurements per row of reg.Families order (the order of Gen.regs;
// the empty group for pseudo registers) — and a summary for the evidence file in
// <cwd>/reghw/summary.json.

import (
	"bytes"
	"encoding/hex"
	"encoding/json"
	"fmt"
	"os"
	"os/exec"
	"path/filepath"
	"regexp"
	"sort"
	"strconv"
	"strings"

	"github.com/mmcloughlin/avo/reg"
	"golang.org/x/arch/x86/x86asm"
)

// Register classes of the oracle.  The class of a measured row is decided by
// the decoders / by which register file changed on the CPU; it is LABELLED with
// the number the compiled reg package uses for that kind (reg.KindGP …), so that
// `h.cls = r.kind` in Props/C20.lean compares like with like whatever the
// numbering of the Kind constants is.
const (
	hwGP  = int(reg.KindGP)
	hwVec = int(reg.KindVector)
	hwK   = int(reg.KindOpmask)
)

type hwDecoded struct {
	Cls, Num, Width int
	Hi              bool
}

type hwExec struct {
	Cls, Num     int
	Data, Zeroed string // bitsets over the 64 bytes of the register, as Lean hex literals
}

type hwRow struct {
	Name             string
	CtxKind, CtxSize int
	Op               string
	OK               bool
	Why              string // when !OK
	Code             []byte
	Enc              string
	Dec              hwDecoded
	Decoders         []string
	Exec             *hwExec
	ExecNote         string
	line             int // line in the .s file
	group            int // index of the register in reg.Families order (= row of Gen.regs)
}

func hwOpsFor(kind, size int) []string {
	switch kind {
	case int(reg.KindGP):
		switch size {
		case 1:
			return []string{"MOVB"}
		case 2:
			return []string{"MOVW"}
		case 4:
			return []string{"MOVL"}
		case 8:
			return []string{"MOVQ"}
		}
	case int(reg.KindVector):
		switch size {
		case 16:
			return []string{"MOVOU", "VMOVDQU", "VMOVDQU64"}
		case 32:
			return []string{"VMOVDQU", "VMOVDQU64"}
		case 64:
			return []string{"VMOVDQU64"}
		}
	case int(reg.KindOpmask):
		if size == 8 {
			return []string{"KMOVQ"}
		}
	}
	return nil
}

const hwSrcDecl = "#include \"textflag.h\"\n" +
	"GLOBL hwzeros<>(SB), RODATA|NOPTR, $64\n" // all-zero bytes

func hwOnesDecl() string {
	var b strings.Builder
	for i := 0; i < 8; i++ {
		fmt.Fprintf(&b, "DATA hwones<>+%d(SB)/8, $0xffffffffffffffff\n", 8*i)
	}
	b.WriteString("GLOBL hwones<>(SB), RODATA|NOPTR, $64\n")
	return b.String()
}

func runCmd(dir string, name string, args ...string) (string, error) {
	cmd := exec.Command(name, args...)
	cmd.Dir = dir
	var buf bytes.Buffer
	cmd.Stdout = &buf
	cmd.Stderr = &buf
	err := cmd.Run()
	return buf.String(), err
}

// hwAssemble assembles one instruction per candidate row; rows the assembler
// rejects are marked and removed until the rest assembles.  Returns the
// instruction bytes per row.
func hwAssemble(dir string, rows []*hwRow) error {
	active := make([]*hwRow, 0, len(rows))
	for _, r := range rows {
		if r.OK {
			active = append(active, r)
		}
	}
	lineRe := regexp.MustCompile(`enc\.s:(\d+)`)
	for iter := 0; iter < 8; iter++ {
		var b strings.Builder
		b.WriteString(hwSrcDecl)
		b.WriteString("TEXT ·enc(SB), NOSPLIT|NOFRAME, $0-0\n")
		line := 3
		byLine := map[int]*hwRow{}
		for _, r := range active {
			line++
			r.line = line
			byLine[line] = r
			fmt.Fprintf(&b, "\t%s hwzeros<>(SB), %s\n", r.Op, r.Name)
		}
		b.WriteString("\tRET\n")
		if err := os.WriteFile(filepath.Join(dir, "enc.s"), []byte(b.String()), 0o644); err != nil {
			return err
		}
		out, err := runCmd(dir, "go", "tool", "asm", "-I", filepath.Join(goroot(), "pkg", "include"), "-p", "p", "-o", "enc.o", "enc.s")
		if err == nil {
			// read the bytes back
			dump, err := runCmd(dir, "go", "tool", "objdump", "enc.o")
			if err != nil {
				return fmt.Errorf("go tool objdump: %v\n%s", err, dump)
			}
			re := regexp.MustCompile(`^\s+enc\.s:(\d+)\s+0x[0-9a-f]+\s+([0-9a-f]+)\s`)
			for _, l := range strings.Split(dump, "\n") {
				m := re.FindStringSubmatch(l)
				if m == nil {
					continue
				}
				n, _ := strconv.Atoi(m[1])
				bs, _ := hex.DecodeString(m[2])
				if r := byLine[n]; r != nil {
					r.Code = append(r.Code, bs...)
				}
			}
			for _, r := range active {
				if len(r.Code) == 0 {
					r.OK, r.Why = false, "no bytes in object file"
				}
			}
			return nil
		}
		bad := map[int]string{}
		for _, l := range strings.Split(out, "\n") {
			if m := lineRe.FindStringSubmatch(l); m != nil {
				n, _ := strconv.Atoi(m[1])
				if _, dup := bad[n]; !dup {
					bad[n] = strings.TrimSpace(l)
				}
			}
		}
		if len(bad) == 0 {
			return fmt.Errorf("go tool asm failed without line information: %v\n%s", err, out)
		}
		var next []*hwRow
		for _, r := range active {
			if why, isBad := bad[r.line]; isBad {
				r.OK, r.Why = false, "assembler: "+why
			} else {
				next = append(next, r)
			}
		}
		active = next
	}
	return fmt.Errorf("go tool asm: too many rounds")
}

// hwRawDecode: prefix / opcode / ModRM field extraction for the handful of
// move encodings used here.
func hwRawDecode(c []byte) (enc string, d hwDecoded, err error) {
	i := 0
	p66, pF3, pF2 := false, false, false
	for i < len(c) && (c[i] == 0x66 || c[i] == 0xF3 || c[i] == 0xF2) {
		switch c[i] {
		case 0x66:
			p66 = true
		case 0xF3:
			pF3 = true
		case 0xF2:
			pF2 = true
		}
		i++
	}
	if i >= len(c) {
		return "", d, fmt.Errorf("truncated")
	}
	need := func(n int) bool { return i+n <= len(c) }
	modrmReg := func(m byte) int { return int(m>>3) & 7 }
	checkRIP := func(m byte, rest int) error {
		if m&0xC7 != 0x05 {
			return fmt.Errorf("modrm %#x is not RIP-relative", m)
		}
		if rest != 4 {
			return fmt.Errorf("unexpected length (%d bytes after modrm)", rest)
		}
		return nil
	}
	switch {
	case c[i] == 0x62: // EVEX
		if pF3 || pF2 || p66 || !need(6) {
			return "", d, fmt.Errorf("bad EVEX")
		}
		p0, p1, p2, op, m := c[i+1], c[i+2], c[i+3], c[i+4], c[i+5]
		r := int(^p0>>7) & 1
		r2 := int(^p0>>4) & 1
		mm := p0 & 0x0f // bits 3:2 reserved zero, 1:0 map
		w := p1 >> 7
		pp := p1 & 3
		if p1&4 == 0 {
			return "", d, fmt.Errorf("EVEX.P1 bit 2 clear")
		}
		ll := int(p2>>5) & 3
		aaa, z, bb := p2&7, p2>>7, (p2>>4)&1
		if mm != 1 || pp != 2 || w != 1 || op != 0x6F || aaa != 0 || z != 0 || bb != 0 || ll > 2 {
			return "", d, fmt.Errorf("not VMOVDQU64 load: map=%d pp=%d w=%d op=%#x", mm, pp, w, op)
		}
		if e := checkRIP(m, len(c)-(i+6)); e != nil {
			return "", d, e
		}
		return "evex", hwDecoded{Cls: hwVec, Num: modrmReg(m) | r<<3 | r2<<4, Width: 16 << ll}, nil
	case c[i] == 0xC5 || c[i] == 0xC4: // VEX
		if pF3 || pF2 || p66 {
			return "", d, fmt.Errorf("prefix before VEX")
		}
		var r, l, w int
		var pp, mm, op, m byte
		var after int
		if c[i] == 0xC5 {
			if !need(4) {
				return "", d, fmt.Errorf("truncated VEX2")
			}
			b1 := c[i+1]
			r, l, pp, mm, w = int(^b1>>7)&1, int(b1>>2)&1, b1&3, 1, 0
			op, m, after = c[i+2], c[i+3], i+4
		} else {
			if !need(5) {
				return "", d, fmt.Errorf("truncated VEX3")
			}
			b1, b2 := c[i+1], c[i+2]
			r, mm = int(^b1>>7)&1, b1&0x1f
			w, l, pp = int(b2>>7), int(b2>>2)&1, b2&3
			op, m, after = c[i+3], c[i+4], i+5
		}
		if e := checkRIP(m, len(c)-after); e != nil {
			return "", d, e
		}
		switch {
		case mm == 1 && pp == 2 && op == 0x6F: // VMOVDQU xmm/ymm, m
			return "vex", hwDecoded{Cls: hwVec, Num: modrmReg(m) | r<<3, Width: 16 << l}, nil
		case mm == 1 && pp == 0 && w == 1 && l == 0 && op == 0x90: // KMOVQ k, m64
			if r != 0 {
				return "", d, fmt.Errorf("KMOVQ with VEX.R")
			}
			return "vex", hwDecoded{Cls: hwK, Num: modrmReg(m), Width: 8}, nil
		}
		return "", d, fmt.Errorf("unknown VEX opcode map=%d pp=%d op=%#x", mm, pp, op)
	}
	rex := byte(0)
	if c[i]&0xF0 == 0x40 {
		rex = c[i]
		i++
	}
	if i >= len(c) {
		return "", d, fmt.Errorf("truncated")
	}
	rexR, rexW := int(rex>>2)&1, rex&8 != 0
	switch {
	case c[i] == 0x8A && need(2) && !pF3 && !pF2: // MOV r8, r/m8
		m := c[i+1]
		if e := checkRIP(m, len(c)-(i+2)); e != nil {
			return "", d, e
		}
		n := modrmReg(m)
		if rex == 0 && n >= 4 {
			return "legacy", hwDecoded{Cls: hwGP, Num: n - 4, Width: 1, Hi: true}, nil
		}
		return "legacy", hwDecoded{Cls: hwGP, Num: n | rexR<<3, Width: 1}, nil
	case c[i] == 0x8B && need(2) && !pF3 && !pF2: // MOV r, r/m
		m := c[i+1]
		if e := checkRIP(m, len(c)-(i+2)); e != nil {
			return "", d, e
		}
		w := 4
		if rexW {
			w = 8
		} else if p66 {
			w = 2
		}
		return "legacy", hwDecoded{Cls: hwGP, Num: modrmReg(m) | rexR<<3, Width: w}, nil
	case c[i] == 0x0F && need(3) && c[i+1] == 0x6F && pF3 && !p66 && !pF2: // MOVDQU xmm, m128
		m := c[i+2]
		if e := checkRIP(m, len(c)-(i+3)); e != nil {
			return "", d, e
		}
		return "legacy", hwDecoded{Cls: hwVec, Num: modrmReg(m) | rexR<<3, Width: 16}, nil
	}
	return "", d, fmt.Errorf("unknown opcode % x", c)
}

// hwGNUName maps a binutils (AT&T) register name to the architectural meaning.
func hwGNUName(n string) (hwDecoded, bool) {
	gp64 := []string{"rax", "rcx", "rdx", "rbx", "rsp", "rbp", "rsi", "rdi"}
	gp32 := []string{"eax", "ecx", "edx", "ebx", "esp", "ebp", "esi", "edi"}
	gp16 := []string{"ax", "cx", "dx", "bx", "sp", "bp", "si", "di"}
	gp8 := []string{"al", "cl", "dl", "bl", "spl", "bpl", "sil", "dil"}
	gp8h := []string{"ah", "ch", "dh", "bh"}
	for i := 0; i < 8; i++ {
		switch n {
		case gp64[i]:
			return hwDecoded{hwGP, i, 8, false}, true
		case gp32[i]:
			return hwDecoded{hwGP, i, 4, false}, true
		case gp16[i]:
			return hwDecoded{hwGP, i, 2, false}, true
		case gp8[i]:
			return hwDecoded{hwGP, i, 1, false}, true
		}
		if i < 4 && n == gp8h[i] {
			return hwDecoded{hwGP, i, 1, true}, true
		}
	}
	num := func(s string) (int, bool) {
		v, err := strconv.Atoi(s)
		return v, err == nil && strconv.Itoa(v) == s
	}
	if strings.HasPrefix(n, "r") {
		body := n[1:]
		w := 8
		switch {
		case strings.HasSuffix(body, "b"):
			w, body = 1, body[:len(body)-1]
		case strings.HasSuffix(body, "w"):
			w, body = 2, body[:len(body)-1]
		case strings.HasSuffix(body, "d"):
			w, body = 4, body[:len(body)-1]
		}
		if v, ok := num(body); ok && v >= 8 && v <= 15 {
			return hwDecoded{hwGP, v, w, false}, true
		}
	}
	for _, p := range []struct {
		pre string
		w   int
	}{{"xmm", 16}, {"ymm", 32}, {"zmm", 64}} {
		if strings.HasPrefix(n, p.pre) {
			if v, ok := num(n[len(p.pre):]); ok && v >= 0 && v <= 31 {
				return hwDecoded{hwVec, v, p.w, false}, true
			}
		}
	}
	if strings.HasPrefix(n, "k") {
		if v, ok := num(n[1:]); ok && v >= 0 && v <= 7 {
			return hwDecoded{hwK, v, 8, false}, true
		}
	}
	return hwDecoded{}, false
}

var hwGNUMnemonic = map[string]string{"MOVB": "mov", "MOVW": "mov", "MOVL": "mov", "MOVQ": "mov", "MOVOU": "movdqu",
	"VMOVDQU": "vmovdqu", "VMOVDQU64": "vmovdqu64", "KMOVQ": "kmovq"}

// hwBinutils decodes all rows with binutils objdump (16-byte slots, NOP padded).
// Returns nil map when objdump is not installed.
func hwBinutils(dir string, rows []*hwRow) (map[*hwRow]hwDecoded, string, error) {
	path, err := exec.LookPath("objdump")
	if err != nil {
		return nil, "", nil
	}
	const slot = 16
	var img []byte
	var order []*hwRow
	for _, r := range rows {
		if !r.OK {
			continue
		}
		if len(r.Code) > slot {
			return nil, "", fmt.Errorf("instruction longer than %d bytes", slot)
		}
		b := make([]byte, slot)
		for i := range b {
			b[i] = 0x90
		}
		copy(b, r.Code)
		img = append(img, b...)
		order = append(order, r)
	}
	if err := os.WriteFile(filepath.Join(dir, "enc.bin"), img, 0o644); err != nil {
		return nil, "", err
	}
	out, err := runCmd(dir, path, "-D", "-b", "binary", "-m", "i386:x86-64", "-w", "enc.bin")
	if err != nil {
		return nil, "", fmt.Errorf("objdump: %v\n%s", err, out)
	}
	ver, _ := runCmd(dir, path, "--version")
	ver = strings.SplitN(ver, "\n", 2)[0]
	re := regexp.MustCompile(`^\s*([0-9a-f]+):\t([0-9a-f ]+?)\s*\t(\S+)\s+(.*)$`)
	res := map[*hwRow]hwDecoded{}
	for _, l := range strings.Split(out, "\n") {
		m := re.FindStringSubmatch(l)
		if m == nil {
			continue
		}
		addr, _ := strconv.ParseInt(m[1], 16, 64)
		if addr%slot != 0 || int(addr/slot) >= len(order) {
			continue
		}
		r := order[addr/slot]
		nbytes := len(strings.Fields(m[2]))
		ops := m[4]
		if k := strings.Index(ops, "#"); k >= 0 {
			ops = ops[:k]
		}
		ops = strings.TrimSpace(ops)
		if m[3] != hwGNUMnemonic[r.Op] || nbytes != len(r.Code) {
			return nil, ver, fmt.Errorf("objdump decodes %s %s as %q (%d bytes)", r.Op, r.Name, m[3]+" "+ops, nbytes)
		}
		k := strings.LastIndex(ops, ",%")
		if k < 0 || !strings.HasPrefix(ops, "0x0(%rip)") {
			return nil, ver, fmt.Errorf("objdump operands %q", ops)
		}
		d, ok := hwGNUName(ops[k+2:])
		if !ok {
			return nil, ver, fmt.Errorf("objdump register %q", ops[k+2:])
		}
		res[r] = d
	}
	if len(res) != len(order) {
		return nil, ver, fmt.Errorf("objdump decoded %d of %d instructions", len(res), len(order))
	}
	return res, ver, nil
}

// hwX86asm decodes with golang.org/x/arch: full result for legacy encodings,
// class and number for VEX VMOVDQU (the library has no YMM names), nothing for
// EVEX / opmask instructions.
func hwX86asm(r *hwRow) (d hwDecoded, full bool, ok bool) {
	inst, err := x86asm.Decode(r.Code, 64)
	if err != nil || inst.Len != len(r.Code) {
		return d, false, false
	}
	rg, isReg := inst.Args[0].(x86asm.Reg)
	if !isReg {
		return d, false, false
	}
	if _, isMem := inst.Args[1].(x86asm.Mem); !isMem {
		return d, false, false
	}
	switch inst.Op {
	case x86asm.MOV, x86asm.MOVDQU:
		full = true
	case x86asm.VMOVDQU:
		full = false
	default:
		return d, false, false
	}
	switch {
	case rg >= x86asm.AL && rg <= x86asm.BL:
		return hwDecoded{hwGP, int(rg - x86asm.AL), 1, false}, full, true
	case rg >= x86asm.AH && rg <= x86asm.BH:
		return hwDecoded{hwGP, int(rg - x86asm.AH), 1, true}, full, true
	case rg >= x86asm.SPB && rg <= x86asm.R15B:
		return hwDecoded{hwGP, int(rg-x86asm.SPB) + 4, 1, false}, full, true
	case rg >= x86asm.AX && rg <= x86asm.R15W:
		return hwDecoded{hwGP, int(rg - x86asm.AX), 2, false}, full, true
	case rg >= x86asm.EAX && rg <= x86asm.R15L:
		return hwDecoded{hwGP, int(rg - x86asm.EAX), 4, false}, full, true
	case rg >= x86asm.RAX && rg <= x86asm.R15:
		return hwDecoded{hwGP, int(rg - x86asm.RAX), 8, false}, full, true
	case rg >= x86asm.X0 && rg <= x86asm.X15:
		return hwDecoded{hwVec, int(rg - x86asm.X0), 16, false}, full, true
	}
	return d, false, false
}

func hwHostHasAVX512() bool {
	data, err := os.ReadFile("/proc/cpuinfo")
	if err != nil {
		return false
	}
	for _, l := range strings.Split(string(data), "\n") {
		if strings.HasPrefix(l, "flags") {
			fl := " " + strings.Join(strings.Fields(l), " ") + " "
			return strings.Contains(fl, " avx512f ") && strings.Contains(fl, " avx512bw ") && strings.Contains(fl, " avx512vl ")
		}
	}
	return false
}

// hwProbeSources writes the throw-away program.  probes[i] is executed twice
// (source zeros / source ones).
func hwProbeSources(dir string, probes []*hwRow, vec bool) error {
	var s strings.Builder
	s.WriteString(hwSrcDecl)
	s.WriteString(hwOnesDecl())
	// State layout: gp[16]uint64 @0, k[8]uint64 @128, z[32][64]byte @192
	s.WriteString("\n// func call(fn uintptr, in *State, out *State)\nTEXT ·call(SB), $64-24\n")
	s.WriteString("\tMOVQ fn+0(FP), AX\n\tMOVQ AX, 0(SP)\n\tMOVQ out+16(FP), AX\n\tMOVQ AX, 8(SP)\n\tMOVQ in+8(FP), AX\n")
	gp := []string{"AX", "CX", "DX", "BX", "SP", "BP", "SI", "DI", "R8", "R9", "R10", "R11", "R12", "R13", "R14", "R15"}
	if vec {
		for i := 0; i < 32; i++ {
			fmt.Fprintf(&s, "\tVMOVDQU64 %d(AX), Z%d\n", 192+64*i, i)
		}
		for i := 0; i < 8; i++ {
			fmt.Fprintf(&s, "\tKMOVQ %d(AX), K%d\n", 128+8*i, i)
		}
	}
	for i := 1; i < 16; i++ {
		if i != 4 {
			fmt.Fprintf(&s, "\tMOVQ %d(AX), %s\n", 8*i, gp[i])
		}
	}
	s.WriteString("\tMOVQ 0(AX), AX\n\tCALL 0(SP)\n\tMOVQ AX, 16(SP)\n\tMOVQ 8(SP), AX\n")
	for i := 1; i < 16; i++ {
		if i != 4 {
			fmt.Fprintf(&s, "\tMOVQ %s, %d(AX)\n", gp[i], 8*i)
		}
	}
	s.WriteString("\tMOVQ 16(SP), CX\n\tMOVQ CX, 0(AX)\n")
	if vec {
		for i := 0; i < 8; i++ {
			fmt.Fprintf(&s, "\tKMOVQ K%d, %d(AX)\n", i, 128+8*i)
		}
		for i := 0; i < 32; i++ {
			fmt.Fprintf(&s, "\tVMOVDQU64 Z%d, %d(AX)\n", i, 192+64*i)
		}
		s.WriteString("\tVZEROUPPER\n")
	}
	s.WriteString("\tRET\n\n")
	n := 0
	for _, r := range probes {
		for _, src := range []string{"hwzeros", "hwones"} {
			fmt.Fprintf(&s, "TEXT ·t%d(SB), NOSPLIT|NOFRAME, $0-0\n\t%s %s<>(SB), %s\n\tRET\n", n, r.Op, src, r.Name)
			n++
		}
	}
	for i := 0; i < n; i++ {
		fmt.Fprintf(&s, "DATA fntab<>+%d(SB)/8, $·t%d(SB)\n", 8*i, i)
	}
	fmt.Fprintf(&s, "GLOBL fntab<>(SB), RODATA, $%d\n", 8*n)
	s.WriteString("\n// func fnaddr(i int) uintptr\nTEXT ·fnaddr(SB), NOSPLIT, $0-16\n\tMOVQ i+0(FP), BX\n\tLEAQ fntab<>(SB), AX\n\tMOVQ (AX)(BX*8), AX\n\tMOVQ AX, ret+8(FP)\n\tRET\n")

	var g strings.Builder
	g.WriteString("package main\n\nimport (\n\t\"fmt\"\n\t\"runtime\"\n\t\"runtime/debug\"\n)\n\n")
	g.WriteString("type State struct {\n\tGP [16]uint64\n\tK  [8]uint64\n\tZ  [32][64]byte\n}\n\n")
	g.WriteString("func call(fn uintptr, in *State, out *State)\nfunc fnaddr(i int) uintptr\n")
	for i := 0; i < n; i++ {
		fmt.Fprintf(&g, "func t%d()\n", i)
	}
	fmt.Fprintf(&g, "\nconst nfn = %d\nconst vec = %v\n", n, vec)
	g.WriteString(`
func fill(s *State, b byte) {
	w := uint64(b) * 0x0101010101010101
	for i := range s.GP {
		s.GP[i] = w
	}
	for i := range s.K {
		s.K[i] = w
	}
	for i := range s.Z {
		for j := range s.Z[i] {
			s.Z[i][j] = b
		}
	}
}

// one line per (function, initial fill): "<fn> <init> {<class>:<num>:<changed byte set hex>}"
func main() {
	runtime.LockOSThread()
	debug.SetGCPercent(-1)
	in, out := new(State), new(State)
	for f := 0; f < nfn; f++ {
		for _, init := range []byte{0x00, 0xff} {
			fill(in, init)
			fill(out, 0x55)
			call(fnaddr(f), in, out)
			fmt.Printf("%d %d", f, init)
			for i := range in.GP {
				if i == 4 {
					continue
				}
				var m uint64
				for b := 0; b < 8; b++ {
					if byte(in.GP[i]>>(8*b)) != byte(out.GP[i]>>(8*b)) {
						m |= 1 << b
					}
				}
				if m != 0 {
					fmt.Printf(" 1:%d:%x", i, m)
				}
			}
			if vec {
				for i := range in.K {
					var m uint64
					for b := 0; b < 8; b++ {
						if byte(in.K[i]>>(8*b)) != byte(out.K[i]>>(8*b)) {
							m |= 1 << b
						}
					}
					if m != 0 {
						fmt.Printf(" 3:%d:%x", i, m)
					}
				}
				for i := range in.Z {
					var m uint64
					for b := 0; b < 64; b++ {
						if in.Z[i][b] != out.Z[i][b] {
							m |= 1 << b
						}
					}
					if m != 0 {
						fmt.Printf(" 2:%d:%x", i, m)
					}
				}
			}
			fmt.Println()
		}
	}
}
`)
	if err := os.WriteFile(filepath.Join(dir, "go.mod"), []byte("module reghwprobe\n\ngo 1.21\n"), 0o644); err != nil {
		return err
	}
	if err := os.WriteFile(filepath.Join(dir, "probe_amd64.s"), []byte(s.String()), 0o644); err != nil {
		return err
	}
	return os.WriteFile(filepath.Join(dir, "main.go"), []byte(g.String()), 0o644)
}

type hwChange struct {
	cls, num int
	mask     uint64
}

func hwExecute(dir string, rows []*hwRow, summary map[string]any) error {
	vec := hwHostHasAVX512()
	summary["host_avx512"] = vec
	var probes []*hwRow
	for _, r := range rows {
		if !r.OK {
			continue
		}
		switch {
		case r.Dec.Cls == hwGP && r.Dec.Num == 4:
			r.ExecNote = "stack pointer: a write cannot be executed safely; encoding only"
		case r.Dec.Cls != hwGP && !vec:
			r.ExecNote = "host CPU lacks AVX-512 F/BW/VL; encoding only"
		default:
			probes = append(probes, r)
		}
	}
	pdir := filepath.Join(dir, "probe")
	os.RemoveAll(pdir)
	if err := os.MkdirAll(pdir, 0o755); err != nil {
		return err
	}
	if err := hwProbeSources(pdir, probes, vec); err != nil {
		return err
	}
	cmd := exec.Command("go", "build", "-o", "probe.bin", ".")
	cmd.Dir = pdir
	cmd.Env = append(os.Environ(), "GOFLAGS=-mod=mod", "GOWORK=off", "CGO_ENABLED=0", "GOOS=linux", "GOARCH=amd64")
	if out, err := cmd.CombinedOutput(); err != nil {
		return fmt.Errorf("building the execution probe: %v\n%s", err, out)
	}
	out, err := runCmd(pdir, filepath.Join(pdir, "probe.bin"))
	if err != nil {
		return fmt.Errorf("running the execution probe: %v\n%s", err, out)
	}
	// results[fn][init] = changes
	results := map[[2]int][]hwChange{}
	for _, l := range strings.Split(strings.TrimSpace(out), "\n") {
		fs := strings.Fields(l)
		if len(fs) < 2 {
			return fmt.Errorf("probe output %q", l)
		}
		f, e1 := strconv.Atoi(fs[0])
		init, e2 := strconv.Atoi(fs[1])
		if e1 != nil || e2 != nil {
			return fmt.Errorf("probe output %q", l)
		}
		var cs []hwChange
		for _, t := range fs[2:] {
			p := strings.Split(t, ":")
			if len(p) != 3 {
				return fmt.Errorf("probe output %q", l)
			}
			c, _ := strconv.Atoi(p[0])
			c = map[int]int{1: hwGP, 2: hwVec, 3: hwK}[c] // the probe's own labels -> the oracle's class numbers
			n, _ := strconv.Atoi(p[1])
			m, err := strconv.ParseUint(p[2], 16, 64)
			if err != nil {
				return fmt.Errorf("probe output %q", l)
			}
			cs = append(cs, hwChange{c, n, m})
		}
		results[[2]int{f, init}] = cs
	}
	if len(results) != 4*len(probes) {
		return fmt.Errorf("probe produced %d results for %d probes", len(results), len(probes))
	}
	side := map[string][]string{}
	for i, r := range probes {
		c00 := results[[2]int{2 * i, 0}]     // src zeros, init zeros
		c10 := results[[2]int{2 * i, 255}]   // src zeros, init ones
		c01 := results[[2]int{2*i + 1, 0}]   // src ones, init zeros
		c11 := results[[2]int{2*i + 1, 255}] // src ones, init ones
		if len(c00) != 0 {
			return fmt.Errorf("%s %s: writing zeros over zeros changed %v", r.Op, r.Name, c00)
		}
		if len(c01) != 1 || len(c10) != 1 || len(c11) > 1 {
			return fmt.Errorf("%s %s: expected exactly one register to change: zeros->ones %v, ones->zeros %v, ones->ones %v", r.Op, r.Name, c01, c10, c11)
		}
		d, all := c01[0], c10[0]
		var z hwChange
		if len(c11) == 1 {
			z = c11[0]
			if z.cls != d.cls || z.num != d.num {
				return fmt.Errorf("%s %s: side effect in another register: %v vs %v", r.Op, r.Name, z, d)
			}
		}
		if all.cls != d.cls || all.num != d.num || all.mask != d.mask|z.mask || d.mask&z.mask != 0 {
			return fmt.Errorf("%s %s: inconsistent measurements data=%v zeroed=%v all=%v", r.Op, r.Name, d, z, all)
		}
		r.Exec = &hwExec{Cls: d.cls, Num: d.num, Data: fmt.Sprintf("0x%x", d.mask), Zeroed: fmt.Sprintf("0x%x", z.mask)}
		if z.mask != 0 {
			key := fmt.Sprintf("%s (%s, %d-byte operand): data bytes 0x%x, additionally zeroes bytes 0x%x", r.Op, r.Enc, r.Dec.Width, d.mask, z.mask)
			side[key] = append(side[key], r.Name)
		}
	}
	var notes []string
	for k, v := range side {
		notes = append(notes, fmt.Sprintf("%s — %d registers (%s … %s)", k, len(v), v[0], v[len(v)-1]))
	}
	sort.Strings(notes)
	summary["zeroing_side_effects"] = notes
	summary["executed_rows"] = len(probes)
	return nil
}

func init() {
	genLean["RegHW"] = func(repo string) (string, error) {
		cwd, err := os.Getwd()
		if err != nil {
			return "", err
		}
		dir := filepath.Join(cwd, "reghw")
		if err := os.MkdirAll(dir, 0o755); err != nil {
			return "", err
		}
		summary := map[string]any{}
		var rows []*hwRow
		type key struct {
			name       string
			kind, size int
		}
		nviews, ngroups := 0, 0
		identRe := regexp.MustCompile(`^[A-Za-z][A-Za-z0-9]*$`)
		for _, f := range reg.Families {
			for _, r := range f.Registers() {
				g := ngroups
				ngroups++
				if f.Kind == reg.KindPseudo {
					continue // not a hardware register: empty group
				}
				nviews++
				k := key{r.Asm(), int(r.Kind()), int(r.Size())}
				ops := hwOpsFor(k.kind, k.size)
				if !identRe.MatchString(k.name) {
					rows = append(rows, &hwRow{Name: k.name, CtxKind: k.kind, CtxSize: k.size, Op: "-", Why: "not an assembler identifier", group: g})
					continue
				}
				if ops == nil {
					rows = append(rows, &hwRow{Name: k.name, CtxKind: k.kind, CtxSize: k.size, Op: "-", Why: "no move instruction for this kind and size", group: g})
					continue
				}
				for _, op := range ops {
					rows = append(rows, &hwRow{Name: k.name, CtxKind: k.kind, CtxSize: k.size, Op: op, OK: true, group: g})
				}
			}
		}
		if err := hwAssemble(dir, rows); err != nil {
			return "", err
		}
		// decode
		for _, r := range rows {
			if !r.OK {
				continue
			}
			enc, d, err := hwRawDecode(r.Code)
			if err != nil {
				r.OK, r.Why = false, fmt.Sprintf("raw decode of % x: %v", r.Code, err)
				continue
			}
			r.Enc, r.Dec = enc, d
			r.Decoders = []string{"raw"}
		}
		gnu, gnuVer, err := hwBinutils(dir, rows)
		if err != nil {
			return "", err
		}
		nx := 0
		for _, r := range rows {
			if !r.OK {
				continue
			}
			if gnu != nil {
				if gnu[r] != r.Dec {
					return "", fmt.Errorf("decoders disagree on %s %s (% x): raw %+v, binutils %+v", r.Op, r.Name, r.Code, r.Dec, gnu[r])
				}
				r.Decoders = append(r.Decoders, "binutils")
			}
			if d, full, ok := hwX86asm(r); ok {
				if d.Cls != r.Dec.Cls || d.Num != r.Dec.Num || (full && d != r.Dec) {
					return "", fmt.Errorf("decoders disagree on %s %s (% x): raw %+v, x86asm %+v", r.Op, r.Name, r.Code, r.Dec, d)
				}
				r.Decoders = append(r.Decoders, "x86asm")
				nx++
			}
		}
		// drop rejected alternative encodings when another one of the same name exists
		okFor := map[int]bool{}
		for _, r := range rows {
			if r.OK {
				okFor[r.group] = true
			}
		}
		var kept []*hwRow
		dropped := map[string][]string{}
		for _, r := range rows {
			if !r.OK && okFor[r.group] {
				dropped[r.Op] = append(dropped[r.Op], r.Name)
				continue
			}
			kept = append(kept, r)
		}
		rows = kept
		if err := hwExecute(dir, rows, summary); err != nil {
			return "", err
		}
		var b strings.Builder
		b.WriteString("-- MEASURED by avoh gen-lean RegHW: go tool asm + decoders (raw fields, binutils objdump, x86asm) and execution on the host CPU. Do not edit.\n")
		b.WriteString("import AvoVerif.Model.RegHW\nnamespace Avo.Oracle\nopen Avo.Reg\n")
		b.WriteString("-- One group per row of reg.Families order (the order of Gen.regs); pseudo registers have the empty group.\n")
		b.WriteString("-- ⟨name, ctxKind, ctxSize, op, enc, ok, cls, num, width, hi, exec⟩ ; exec = some ⟨cls, num, data, zeroed⟩\n")
		b.WriteString("def regHW : List (List HWRow) := [\n")
		nexec, nfail := 0, 0
		var failed []string
		byGroup := make([][]*hwRow, ngroups)
		for _, r := range rows {
			byGroup[r.group] = append(byGroup[r.group], r)
		}
		for g, grp := range byGroup {
			if g > 0 {
				b.WriteString(",\n")
			}
			b.WriteString("  [")
			for i, r := range grp {
				if i > 0 {
					b.WriteString(",\n   ")
				}
				ex := "none"
				if r.Exec != nil {
					ex = fmt.Sprintf("some ⟨%d, %d, %s, %s⟩", r.Exec.Cls, r.Exec.Num, r.Exec.Data, r.Exec.Zeroed)
					nexec++
				}
				if !r.OK {
					nfail++
					failed = append(failed, fmt.Sprintf("%s %s: %s", r.Op, r.Name, r.Why))
				}
				fmt.Fprintf(&b, "⟨%s, %d, %d, %s, %s, %s, %d, %d, %d, %s, %s⟩", leanStr(r.Name), r.CtxKind, r.CtxSize, leanStr(r.Op), leanStr(r.Enc),
					leanBool(r.OK), r.Dec.Cls, r.Dec.Num, r.Dec.Width, leanBool(r.Dec.Hi), ex)
			}
			b.WriteString("]")
		}
		b.WriteString("]\nend Avo.Oracle\n")
		decs := []string{"raw prefix/ModRM field extraction"}
		if gnu != nil {
			decs = append(decs, "binutils "+gnuVer)
		} else {
			decs = append(decs, "binutils objdump NOT installed (skipped)")
		}
		decs = append(decs, fmt.Sprintf("golang.org/x/arch/x86/x86asm (%d legacy/VEX rows)", nx))
		summary["decoders"] = decs
		summary["register_views"] = nviews
		summary["oracle_rows"] = len(rows)
		summary["rows_with_execution"] = nexec
		summary["rows_failed"] = failed
		var dl []string
		for op, ns := range dropped {
			dl = append(dl, fmt.Sprintf("%s: %d names (%s … %s)", op, len(ns), ns[0], ns[len(ns)-1]))
		}
		sort.Strings(dl)
		summary["encodings_rejected_by_assembler_and_dropped"] = dl
		var enconly []string
		for _, r := range rows {
			if r.OK && r.Exec == nil {
				enconly = append(enconly, fmt.Sprintf("%s %s: %s", r.Op, r.Name, r.ExecNote))
			}
		}
		summary["encoding_only_rows"] = enconly
		js, _ := json.MarshalIndent(summary, "", " ")
		if err := os.WriteFile(filepath.Join(dir, "summary.json"), js, 0o644); err != nil {
			return "", err
		}
		return b.String(), nil
	}
}
