package main

import (
	"go/token"
	"go/types"
	"strings"
)

// C18, signature expressions.  Whether a signature expression is valid is
// decided by the Go type checker, not by avo: the generator mutates the text of
// valid signatures (and of a few non-signatures) and asks go/types itself —
// independently of avo — on which side of the boundary the mutant fell.  A mutant
// the type checker accepts as a function type is a VALID request (its structure,
// read back from go/types, is what the model and the shadow continue with); one
// it rejects, or that is not a function type, or that has a constant value, is
// the invalid request `sigbad`.

// c18typesSig: what the installed type checker says about expr.
// ok = a function type; s = its structure when every type in it is one the model knows.
func c18typesSig(expr string) (ok bool, s *c18sig) {
	defer func() {
		if recover() != nil {
			ok, s = false, nil
		}
	}()
	tv, err := types.Eval(token.NewFileSet(), nil, token.NoPos, expr)
	if err != nil || tv.Value != nil {
		return false, nil
	}
	sig, isSig := tv.Type.(*types.Signature)
	if !isSig {
		return false, nil
	}
	out := &c18sig{}
	conv := func(t *types.Tuple) ([]c18var, bool) {
		var vs []c18var
		for i := 0; i < t.Len(); i++ {
			ty, good := c18fromType(t.At(i).Type(), 6)
			if !good {
				return nil, false
			}
			if n := t.At(i).Name(); n != "" && !c18tokenSafe(n) {
				return nil, false
			}
			vs = append(vs, c18var{name: t.At(i).Name(), t: ty})
		}
		return vs, true
	}
	ps, g1 := conv(sig.Params())
	rs, g2 := conv(sig.Results())
	if !g1 || !g2 {
		return true, nil
	}
	out.params, out.results = ps, rs
	return true, out
}

func c18tokenSafe(s string) bool {
	if s == "" || s == "-" {
		return false
	}
	for _, c := range s {
		if !(c >= 'a' && c <= 'z' || c >= 'A' && c <= 'Z' || c >= '0' && c <= '9' || c == '_') {
			return false
		}
	}
	return true
}

func c18fromType(t types.Type, depth int) (*c18ty, bool) {
	if depth == 0 {
		return nil, false
	}
	switch x := t.(type) {
	case *types.Basic:
		switch x.Kind() {
		case types.Int8:
			return &c18ty{k: "int", size: 1}, true
		case types.Int16:
			return &c18ty{k: "int", size: 2}, true
		case types.Int32:
			return &c18ty{k: "int", size: 4}, true
		case types.Int64, types.Int:
			return &c18ty{k: "int", size: 8}, true
		case types.Uint8:
			return &c18ty{k: "uint", size: 1}, true
		case types.Uint16:
			return &c18ty{k: "uint", size: 2}, true
		case types.Uint32:
			return &c18ty{k: "uint", size: 4}, true
		case types.Uint64, types.Uint, types.Uintptr:
			return &c18ty{k: "uint", size: 8}, true
		case types.Bool:
			return &c18ty{k: "bool", size: 1}, true
		case types.Float32:
			return &c18ty{k: "float", size: 4}, true
		case types.Float64:
			return &c18ty{k: "float", size: 8}, true
		case types.Complex64:
			return &c18ty{k: "complex", size: 8}, true
		case types.Complex128:
			return &c18ty{k: "complex", size: 16}, true
		case types.String:
			return &c18ty{k: "str"}, true
		}
		return nil, false
	case *types.Pointer:
		e, ok := c18fromType(x.Elem(), depth-1)
		return &c18ty{k: "ptr", elem: e}, ok
	case *types.Slice:
		e, ok := c18fromType(x.Elem(), depth-1)
		return &c18ty{k: "slice", elem: e}, ok
	case *types.Array:
		if x.Len() < 1 || x.Len() > 64 {
			return nil, false
		}
		e, ok := c18fromType(x.Elem(), depth-1)
		return &c18ty{k: "arr", n: int(x.Len()), elem: e}, ok
	case *types.Struct:
		out := &c18ty{k: "struct"}
		if x.NumFields() == 0 {
			return nil, false
		}
		for i := 0; i < x.NumFields(); i++ {
			f := x.Field(i)
			if f.Embedded() || !c18tokenSafe(f.Name()) || f.Name() == "_" {
				return nil, false
			}
			ft, ok := c18fromType(f.Type(), depth-1)
			if !ok {
				return nil, false
			}
			out.fields = append(out.fields, c18field{f.Name(), ft})
		}
		return out, true
	case *types.Named, *types.Alias:
		if _, isIface := t.Underlying().(*types.Interface); isIface {
			return &c18ty{k: "other", src: t.String()}, true
		}
		return nil, false
	case *types.Interface, *types.Map, *types.Chan, *types.Signature:
		return &c18ty{k: "other", src: t.String()}, true
	}
	return nil, false
}

var c18sigInserts = []string{"(", ")", "[", "]", "{", "}", "*", ",", ".", "...", " ", ";", "x", "int", "0", "\"", "func", "_", "=", "chan ", "map[int]", "[]", "[2]", "struct{", "interface{}", "\n", "//", "é", "T"}
var c18sigWords = [][2]string{
	{"int64", "int65"}, {"int64", "Int64"}, {"uint8", "byte"}, {"int32", "rune"}, {"int64", "int"}, {"uint64", "uintptr"},
	{"float64", "float"}, {"bool", "boolean"}, {"string", "str"}, {"func", "fun"}, {"func", "Func"}, {"func", "func "},
	{"func(", "func f("}, {"func(", "func[T any]("}, {"struct", "struc"}, {"error", "err"}, {"complex128", "complex256"},
	{"[]", "[...]"}, {"[]", "[-1]"}, {"[]", "[0]"}, {"*", "&"}, {"*", "**"}, {"x ", "x, "}, {"x ", "_ "}, {"y ", "x "}, {"r ", "x "},
	{", ", " "}, {", ", ",, "}, {"; ", ", "}, {"(", "(("}, {")", "))"}, {" ", ""}, {"[]", "...."}, {"[]", "..."},
	{"uint", "unsafe.Pointer"}, {"int8", "any"}, {"int16", "comparable"}, {"float32", "nil"}, {"uint32", "iota"},
}
var c18sigNonSigs = []string{"int", "1+2", "", "x", "struct{}", "[]int", "func", "nil", "true", "\"s\"", "*int", "map[string]int",
	"interface{ f() }", "func() {}", "func(){}()", "len", "func(x int) int { return x }", "(func())", "((func(x int8)))", "func() ()",
	"func(int, x int)", "func(x, y int)", "func(x int,)", "func(x int) (y)", "func(...int)", "func(x ...int, y int)", "func(x ...int)",
	"func(a, b int8) (c, d int16)", "func(x int) (int, error)", "func(x int) (x int)", "func(x int, x int)", "func(_ int, _ int8)",
	"func(x [2][2]int8)", "func(x struct{a int8; a int8})", "func(x struct{int8})", "func(x [1<<3]uint8)", "func(x [len(\"ab\")]uint8)",
	"func(x T)", "func(x int) T", "func(x chan<- int)", "func(x func(int) int)", "func(x *[]*[3]uint16)", "func(x /* c */ int)"}

func c18mutateSig(r *rng, text string) (string, string) {
	b := []rune(text)
	switch k := r.intn(9); {
	case k == 0 && len(b) > 0:
		at := r.intn(len(b))
		return string(b[:at]) + string(b[at+1:]), "delete"
	case k == 1:
		at := r.intn(len(b) + 1)
		return string(b[:at]) + pick(r, c18sigInserts) + string(b[at:]), "insert"
	case k == 2 && len(b) > 1:
		at := r.intn(len(b) - 1)
		b[at], b[at+1] = b[at+1], b[at]
		return string(b), "swap"
	case k == 3 && len(b) > 0:
		return string(b[:r.intn(len(b))]), "truncate"
	case k == 4:
		return text + pick(r, c18sigInserts), "append"
	case k == 5 || k == 6:
		for tries := 0; tries < 12; tries++ {
			w := pick(r, c18sigWords)
			if n := strings.Count(text, w[0]); n > 0 {
				// the i-th occurrence
				i, at := r.intn(n), 0
				for ; ; i-- {
					at += strings.Index(text[at:], w[0])
					if i == 0 {
						break
					}
					at += len(w[0])
				}
				return text[:at] + w[1] + text[at+len(w[0]):], "word"
			}
		}
		return text + " int", "append"
	case k == 7:
		return pick(r, c18sigNonSigs), "other"
	}
	// duplicate a stretch
	if len(b) < 2 {
		return text + text, "dup"
	}
	a := r.intn(len(b) - 1)
	e := a + 1 + r.intn(len(b)-a-1)
	return string(b[:e]) + string(b[a:e]) + string(b[e:]), "dup"
}

// c18sigExpr: a signature expression on the wanted side of the type checker's
// boundary, and (valid side) its structure.
func (h *c18hist) c18sigExpr(wantValid bool) (string, *c18sig) {
	r := h.r
	for tries := 0; tries < 40; tries++ {
		base := c18genSig(r)
		text := base.goSrc()
		if wantValid && !r.chance(1, 3) {
			return text, base
		}
		m, kind := c18mutateSig(r, text)
		if r.chance(1, 4) {
			m, _ = c18mutateSig(r, m)
			kind = "double"
		}
		ok, s := c18typesSig(m)
		if ok && s == nil {
			continue // a function type with a type the model does not describe
		}
		if ok == wantValid {
			if ok {
				h.stats["sig_mutant_valid_"+kind]++
			} else {
				h.stats["sig_mutant_invalid_"+kind]++
			}
			return m, s
		}
	}
	if wantValid {
		base := c18genSig(r)
		return base.goSrc(), base
	}
	h.stats["sig_invalid_from_pool"]++
	return pick(r, c18badSigs), nil
}
