package main

// C12 (own copies, so that the C12 harness builds from the shared core + c12*.go only):
//   * the request encoding of a printer.Config + ir.File (the structured file decoded by
//     lean/AvoVerif/Drv/C12.lean),
//   * the type universe the signatures live in (helper package importing "unsafe" and a second
//     package "m/q"), checked with go/types by the harness itself, independently of avo,
//   * the case DESCRIPTOR (plain data: names, signature expressions, doc lines, pragmas,
//     constraint expressions, the route by which avo is to be driven) and its generator.
//     Every case, generated or read from the corpus, is built from a descriptor.

import (
	"fmt"
	"go/ast"
	"go/parser"
	"go/token"
	"go/types"
	"strconv"
	"strings"
	"unicode/utf8"

	"github.com/mmcloughlin/avo/buildtags"
	"github.com/mmcloughlin/avo/ir"
	"github.com/mmcloughlin/avo/printer"
)

// ---------------------------------------------------------------- encoding

func c12B01(b bool) string {
	if b {
		return "1"
	}
	return "0"
}

type c12Enc struct{ toks []string }

func (e *c12Enc) add(t ...string) { e.toks = append(e.toks, t...) }
func (e *c12Enc) str(s string)    { e.toks = append(e.toks, hexs(s)) }
func (e *c12Enc) int(i int)       { e.toks = append(e.toks, itoa(i)) }
func (e *c12Enc) strs(ss []string) {
	e.int(len(ss))
	for _, s := range ss {
		e.str(s)
	}
}
func (e *c12Enc) String() string { return strings.Join(e.toks, " ") }

func c12EncodeCfg(e *c12Enc, c printer.Config) {
	e.str(c.Name)
	if c.Argv == nil {
		e.add("0")
	} else {
		e.add("1")
		e.strs(c.Argv)
	}
	e.str(c.Pkg)
}

// c12ConstraintLines is the file's constraint block as the printers obtain it.
func c12ConstraintLines(f *ir.File) ([]string, error) {
	if len(f.Constraints) == 0 {
		return nil, nil
	}
	s, err := buildtags.Format(f.Constraints)
	if err != nil {
		return nil, err
	}
	if s == "" {
		return nil, nil
	}
	if !strings.HasSuffix(s, "\n") {
		return nil, fmt.Errorf("constraint block without final newline")
	}
	return strings.Split(strings.TrimSuffix(s, "\n"), "\n"), nil
}

// c12EncodeFile: what the stub printer looks at (constraints, and per function: name, Stub(),
// doc, pragmas) plus the position of the data sections. Instructions are not part of C12.
func c12EncodeFile(e *c12Enc, f *ir.File) error {
	cons, err := c12ConstraintLines(f)
	if err != nil {
		return err
	}
	e.add(c12B01(len(f.Constraints) > 0))
	e.strs(cons)
	e.int(len(f.Sections))
	for _, s := range f.Sections {
		switch s := s.(type) {
		case *ir.Function:
			e.add("fn")
			e.str(s.Name)
			e.str(s.Stub())
			e.strs(s.Doc)
			e.int(len(s.Pragmas))
			for _, p := range s.Pragmas {
				e.str(p.Directive)
				e.strs(p.Arguments)
			}
		case *ir.Global:
			e.add("gl")
			e.str(s.Symbol.Name)
		default:
			return fmt.Errorf("unknown section type %T", s)
		}
	}
	return nil
}

// ---------------------------------------------------------------- type universe

const c12QSource = "package q\n\ntype D int64\n\ntype S struct {\n\tX int32\n\tY uint8\n}\n"

const c12HelperDecls = `
type T struct {
	A int32
	b [3]uint8
}

type U uint16

type V [2]T

type P *T

type A = uint64

type AT = T

type G[X any] struct{ v X }

type I interface{ M(x int) error }

type Ünï uint32

var _ unsafe.Pointer

var _ q.D
`

func c12HelperSource(pkg string) string {
	return "package " + pkg + "\n\nimport (\n\t\"unsafe\"\n\n\t\"m/q\"\n)\n" + c12HelperDecls
}

type c12Universe struct {
	fset *token.FileSet
	file *ast.File
	pkg  *types.Package
	src  string
}

var c12QPkg *types.Package

type c12Importer struct{}

func (c12Importer) Import(path string) (*types.Package, error) {
	switch path {
	case "unsafe":
		return types.Unsafe, nil
	case "m/q":
		if c12QPkg == nil {
			fset := token.NewFileSet()
			f, err := parser.ParseFile(fset, "q.go", c12QSource, 0)
			if err != nil {
				return nil, err
			}
			p, err := (&types.Config{}).Check("m/q", fset, []*ast.File{f}, nil)
			if err != nil {
				return nil, err
			}
			c12QPkg = p
		}
		return c12QPkg, nil
	}
	return nil, fmt.Errorf("c12: no package %q in the universe", path)
}

// c12NewUniverse type-checks the helper declarations (plus extra declarations: the bodyless Go
// declarations of the lookup/implement routes) with go/types. Signature expressions are
// evaluated in its FILE scope, so that the imported packages are visible.
func c12NewUniverse(pkgname, path, extra string) (*c12Universe, error) {
	u := &c12Universe{fset: token.NewFileSet(), src: c12HelperSource(pkgname) + extra}
	f, err := parser.ParseFile(u.fset, "types.go", u.src, 0)
	if err != nil {
		return nil, err
	}
	u.file = f
	conf := types.Config{Importer: c12Importer{}}
	u.pkg, err = conf.Check(path, u.fset, []*ast.File{f}, nil)
	return u, err
}

func (u *c12Universe) eval(expr string) (types.TypeAndValue, error) {
	return types.Eval(u.fset, u.pkg, u.file.Name.Pos(), expr)
}

// ---------------------------------------------------------------- descriptor

type c12FnDesc struct {
	Name         string     `json:"name"`
	Sig          string     `json:"sig"` // Go function type expression
	Doc          []string   `json:"doc,omitempty"`
	Pragmas      [][]string `json:"pragmas,omitempty"` // directive, arguments…
	Route        string     `json:"route"`             // new | parse | expr | lookup
	GlobalBefore bool       `json:"global_before,omitempty"`
}

type c12Desc struct {
	Tool    string      `json:"tool"`
	Pkg     string      `json:"pkg"`
	HasArgv bool        `json:"has_argv,omitempty"`
	Argv    []string    `json:"argv,omitempty"`
	Cons    []string    `json:"cons,omitempty"` // constraint expressions ("// +build" syntax)
	Via     string      `json:"via"`            // ir | ctx | implement
	Fns     []c12FnDesc `json:"fns"`
}

// ---------------------------------------------------------------- generator

var c12Basics = []string{"bool", "int8", "int16", "int32", "int64", "uint8", "uint16", "uint32", "uint64", "int", "uint", "uintptr", "float32", "float64", "complex64", "complex128", "string", "byte", "rune", "any", "error"}

type c12Gen struct {
	r       *rng
	st      map[string]int
	foreign bool // types of other packages allowed (finding C12-missing-import)
	vet     bool // the signatures go through vet's asmdecl: no letters U+0080..U+00FE in names (see signature)
}

// c12TagAtoms: pieces of struct field tags. A tag is an arbitrary Go string: every character that is
// special to SOME layer between avo's caller and the stub file must be sampled — fmt verbs, the quoting
// characters of both literal forms, comment markers, escapes, layout characters, non-ASCII text, bytes
// that are not UTF-8.
var c12TagAtoms = []string{
	"%", "%s", "%08x", "%d", "%v", "%%", "%!", "%[1]d", "%*d", "%!x(MISSING)", "100%", "%2F",
	"\\", "\"", "`", "'", "\\n", "\\\"", "//", "/*", "*/", "\n", "\t", "\r", " ", ";", ",", "{", "}", "(", ")", ":",
	"é", "·", "世界", "\u00a0", "\u2028", "\x00", "\x7f", "\xff", "\xc3", "\U0001F600", "\ufeff",
	"json", "key", "a", "x", "0", "-", "omitempty", "func", "struct{", "=",
	// (weights) the quoting characters and comment markers again
	"`", "a`b", "``", "//", "/*", "// x", "/*y*/", "\\", "\"", "%s`", "%d//", "\\%",
}

var c12TagKeys = []string{"json", "fmt", "dump", "xml", "avo", "k·"}

// c12RawOK: can the string be written as a raw (backquoted) literal in a source file.
func c12RawOK(v string) bool {
	return utf8.ValidString(v) && !strings.ContainsAny(v, "`\r\x00\ufeff")
}

// tagValue is the tag as a string VALUE.
func (g *c12Gen) tagValue() string {
	r := g.r
	switch r.intn(10) {
	case 0, 1:
		return "json:\"x\""
	case 2, 3, 4:
		// conventional key:"value" shape with a value from the alphabet
		v := ""
		for k := r.rangeIn(1, 3); k > 0; k-- {
			v += pick(r, c12TagAtoms)
		}
		return pick(r, c12TagKeys) + ":" + strconv.Quote(v)
	case 5:
		return ""
	default:
		v := ""
		for k := r.rangeIn(1, 4); k > 0; k-- {
			v += pick(r, c12TagAtoms)
		}
		return v
	}
}

// tag is the tag as Go source: a raw literal where possible (half of the time), an interpreted one otherwise.
func (g *c12Gen) tag() string {
	v := g.tagValue()
	g.st["tag"]++
	if strings.Contains(v, "%") {
		g.st["tag_percent"]++
	}
	if c12RawOK(v) && g.r.chance(1, 2) {
		g.st["tag_raw_literal"]++
		return "`" + v + "`"
	}
	return strconv.Quote(v)
}

func (g *c12Gen) fields(depth int) string {
	n := g.r.intn(4)
	var fs []string
	names := []string{"a", "b", "C", "d", "e"}
	if g.r.chance(1, 6) {
		names = []string{"é", "β2", "Ĉ", "d_ö", "世"}
		if g.vet {
			names = []string{"ā", "β2", "Ĉ", "d_ж", "世"}
		}
		g.st["field_nonascii"]++
	}
	opt := func() string { // an optional tag on ANY kind of field
		if g.r.chance(1, 4) {
			return " " + g.tag()
		}
		return ""
	}
	for i := 0; i < n; i++ {
		switch g.r.intn(8) {
		case 0:
			fs = append(fs, "_ "+g.typ(depth+1)+opt())
		case 1:
			if i+1 < len(names)-1 {
				fs = append(fs, names[i]+"x, "+names[i]+"y "+g.typ(depth+1)+opt())
				continue
			}
			fallthrough
		case 2:
			fs = append(fs, names[i]+" "+g.typ(depth+1)+" "+g.tag())
		case 3:
			if i == 0 {
				g.st["type_embedded"]++
				fs = append(fs, pick(g.r, []string{"T", "*T", "U", "error", "G[int8]", "Ünï"})+opt())
				continue
			}
			fallthrough
		default:
			fs = append(fs, names[i]+" "+g.typ(depth+1)+opt())
		}
	}
	return strings.Join(fs, "; ")
}

func (g *c12Gen) typ(depth int) string {
	r, st := g.r, g.st
	k := r.intn(24)
	if depth >= 3 && k >= 11 {
		k = r.intn(11)
	}
	switch {
	case k < 9:
		st["type_basic"]++
		return pick(r, c12Basics)
	case k < 11:
		st["type_named"]++
		return pick(r, []string{"T", "U", "V", "P", "A", "AT", "G[int32]", "G[T]", "I", "Ünï", "G[Ünï]"})
	case k < 13:
		st["type_pointer"]++
		return "*" + g.typ(depth+1)
	case k < 15:
		st["type_slice"]++
		return "[]" + g.typ(depth+1)
	case k < 17:
		st["type_array"]++
		return fmt.Sprintf("[%d]%s", r.intn(5), g.typ(depth+1))
	case k < 19:
		st["type_struct"]++
		return "struct{" + g.fields(depth) + "}"
	case k < 20:
		st["type_interface"]++
		return pick(r, []string{"interface{}", "interface{ M(x int) }", "interface{ M(x int); N() (a, b string) }", "interface{ error; Is(error) bool }", "interface{ I }", "interface{ m(...T) }"})
	case k < 21:
		st["type_func"]++
		if r.chance(1, 3) {
			// generated components: literal types (and their tags) inside func types
			return "func(" + pick(r, []string{"", "k ", "_ "}) + g.typ(depth+1) + ") " + g.typ(depth+1)
		}
		return pick(r, []string{"func(int) (int, error)", "func()", "func(...int)", "func(x, y T) (ok bool)", "func(struct{ a int }) []U", "func(func(int)) func() T"})
	case k < 22:
		st["type_chan_map"]++
		if r.chance(1, 3) {
			switch r.intn(3) {
			case 0:
				return "map[" + pick(r, []string{"string", "uint8", "[2]int32", "T", "Ünï", "struct{ k int8 " + g.tag() + " }"}) + "]" + g.typ(depth+1)
			case 1:
				return "chan " + g.typ(depth+1)
			default:
				return "<-chan " + g.typ(depth+1)
			}
		}
		return pick(r, []string{"map[string]int", "chan int", "<-chan uint8", "chan<- T", "chan (<-chan int)", "map[T][]U", "map[[2]int]struct{}", "chan struct{ a, b int }"})
	default:
		if g.foreign && r.chance(1, 3) {
			st["type_foreign"]++
			return pick(r, []string{"unsafe.Pointer", "q.D", "q.S", "*q.S", "[]q.D"})
		}
		st["type_basic"]++
		return pick(r, c12Basics)
	}
}

var c12StorableResults = []string{"uint64", "int32", "bool", "float64", "float32", "*byte", "uint8", "int16", "uintptr", "[]byte", "string", "[2]uint32", "struct{a uint16; b uint64}", "complex128", "T", "V", "*T", "[]T", "A", "U", "G[uint32]", "struct{ T; n int8 }", "Ünï", "struct{lo uint32 `fmt:\"%08x\"`; hi uint32 \"%d`\\\\\"}"}

// signature returns a Go signature expression.
func (g *c12Gen) signature(storableResults bool) string {
	r, st := g.r, g.st
	np := r.intn(5)
	mode := r.intn(3) // 0 unnamed, 1 named, 2 named with blanks
	pn, qn, rn := "p", "q", "r"
	if r.chance(1, 6) {
		pn, qn, rn = pick(r, []string{"π", "ñ", "x_é", "Δ"}), "ǫ", pick(r, []string{"ρ", "résultat", "ж"})
		if storableResults {
			// built pairs go through vet's asmdecl, whose own lexer for `name+off(FP)` knows the letters
			// [A-Za-z0-9_] and U+00FF.. only (its regexp range starts at \xFF): the assembler accepts
			// `ñ0+0(FP)`, vet reads it as `0+0(FP)`. Not avo's to repair: Latin-1 letters are sampled in the
			// type-checked part only.
			pn, rn = pick(r, []string{"π", "Δ", "x_ж"}), pick(r, []string{"ρ", "ж"})
		}
		st["sig_names_nonascii"]++
	}
	var ps []string
	for i := 0; i < np; i++ {
		t := g.typ(0)
		if i == np-1 && r.chance(1, 4) {
			t = "..." + t
			st["sig_variadic"]++
		}
		switch mode {
		case 0:
			ps = append(ps, t)
		case 1:
			if i+1 < np && r.chance(1, 4) && !strings.HasPrefix(t, "...") {
				ps = append(ps, fmt.Sprintf("%s%d, %s%d %s", pn, i, qn, i, t))
			} else {
				ps = append(ps, fmt.Sprintf("%s%d %s", pn, i, t))
			}
		default:
			if r.chance(1, 2) {
				ps = append(ps, "_ "+t)
			} else {
				ps = append(ps, fmt.Sprintf("%s%d %s", pn, i, t))
			}
		}
	}
	st[fmt.Sprintf("sig_params_mode%d", mode)]++
	nr := r.intn(4)
	res := ""
	rmode := r.intn(3)
	var rs []string
	for i := 0; i < nr; i++ {
		t := g.typ(1)
		if storableResults {
			t = pick(r, c12StorableResults)
		}
		switch rmode {
		case 0:
			rs = append(rs, t)
		case 1:
			rs = append(rs, fmt.Sprintf("%s%d %s", rn, i, t))
		default:
			if r.chance(1, 2) {
				rs = append(rs, "_ "+t)
			} else {
				rs = append(rs, fmt.Sprintf("%s%d %s", rn, i, t))
			}
		}
	}
	st[fmt.Sprintf("sig_results_%d", nr)]++
	switch {
	case nr == 0:
	case nr == 1 && rmode == 0:
		res = " " + rs[0]
	default:
		res = " (" + strings.Join(rs, ", ") + ")"
	}
	return "func(" + strings.Join(ps, ", ") + ")" + res
}

var c12FnNames = []string{"f", "Add", "sum_avx2", "Σ", "mul", "X", "dot_product", "_priv", "αβγ", "F2", "Use"}
var c12DocPool = []string{"f does things.", "", "100% of %d", "  indented code", "trailing  ", "# Heading", " - item", "Deprecated: no.", "café", "//go:nosplit", "go:build x", "%s %v %", "a\tb", "1. first", "[Link]: https://x.y", "* star", "\tx := 1", "nbsp\u00a0", "zwsp\u200b", "em\u2003", "nel\u0085", "//", "// nested", "/* block */", "func g()", "package q"}
var c12ConsPool = []string{"amd64", "linux", "!purego", "amd64,!appengine", "linux darwin", "!amd64,!arm64 gc", "go1.18", "amd64,gc,!purego linux,!cgo", "arm64", "!windows", "cgo", "amd64 arm64,!noasm", "go1.21,!go1.30", "linux,amd64 darwin,amd64 !cgo", "a_b.c", "x", "!x,!y,!z", "ünï", "amd64,!ünï β"}
var c12BuildConsPool = []string{"amd64", "linux", "!purego", "amd64,!appengine", "linux darwin", "!amd64,!arm64 gc", "go1.18", "amd64,gc,!purego linux,!cgo", "arm64", "!windows", "amd64 arm64,!noasm", "windows", "!linux"}
var c12Argvs = [][]string{{"go", "run", "asm.go", "-out", "x.s", "-stubs", "stub.go"}, {}, {"./gen"}, {"a b", "100%", "-pkg=p"}, {"go", "run", ".", "-stubs", "stub_amd64.go", "trailing "}}

// c12WordAtoms: words of doc lines, pragma arguments, tool names and argv over the alphabet: fmt verbs,
// quoting characters, escapes, comment markers, non-ASCII text (no white space inside a word).
var c12WordAtoms = []string{"%", "%d", "%s", "%v", "%%", "%!", "%08x", "100%", "%!s(MISSING)", "%[2]d", "\\", "\\n", "\"q\"", "`", "`raw`", "it's",
	"/*", "*/", "//", "·", "世界", "é", "<b>", "&amp;", "$x", "{}", "a.b", "x=1", "runtime·f", "\\x00", "f(x)", ";", "word", "Ünï"}

func (g *c12Gen) words(lo, hi int) []string {
	var ws []string
	for k := g.r.rangeIn(lo, hi); k > 0; k-- {
		ws = append(ws, pick(g.r, c12WordAtoms))
	}
	return ws
}

// Witnesses of the listed findings.
const c12DocNewline = "x\nfunc zz()"
const c12PragmaNewline = "noescape\nvar ZZ = 1"
const c12DocPlusBuild = "+build linux"

func (g *c12Gen) desc(forBuild bool) c12Desc {
	r, st := g.r, g.st
	d := c12Desc{Tool: pick(r, []string{"avo", "gen", "my tool", "100%", "t\"q\"`", "é·世", "a\\b%s", "/*x*/ //y", "%d%v%!"}), Pkg: pick(r, []string{"p", "mypkg", "x_y", "asm", "π", "pkgé", "_p9"})}
	foreign := g.foreign
	g.foreign = foreign && r.chance(1, 12)
	defer func() { g.foreign = foreign }()
	if r.chance(1, 3) {
		d.HasArgv = true
		d.Argv = pick(r, c12Argvs)
		if r.chance(1, 3) {
			d.Argv = append([]string{"go", "run", "asm.go"}, g.words(1, 3)...)
			st["argv_words"]++
		}
	}
	if !forBuild && r.chance(1, 40) {
		d.Pkg = pick(r, []string{"", "9p", "a b"}) // invalid package clause: the printer must report an error
		st["bad_package"]++
	}
	switch {
	case forBuild:
		// constraints mostly satisfied on the host so that the pair is really built
		if r.chance(2, 3) {
			d.Cons = []string{pick(r, c12BuildConsPool)}
			if r.chance(1, 4) {
				d.Cons = append(d.Cons, pick(r, c12BuildConsPool))
			}
		}
	default:
		n := 0
		switch r.intn(8) {
		case 0, 1, 2:
			n = 1
		case 3, 4:
			n = 2
		case 5:
			n = 3 + r.intn(3)
		}
		for ; n > 0; n-- {
			d.Cons = append(d.Cons, pick(r, c12ConsPool))
		}
	}
	st[fmt.Sprintf("constraints_%d", len(d.Cons))]++
	d.Via = pick(r, []string{"ir", "ir", "ctx", "ctx", "ctx"})
	if forBuild {
		d.Via = "ctx"
	}
	nf := r.intn(5)
	if r.chance(1, 20) {
		nf = 6 + r.intn(10)
	}
	if forBuild && nf == 0 {
		nf = 1
	}
	st[fmt.Sprintf("functions_%s", c12Bucket(nf))]++
	used := map[string]bool{}
	for k := 0; k < nf; k++ {
		fn := c12FnDesc{}
		if !forBuild && r.chance(1, 6) {
			fn.GlobalBefore = true
		}
		fn.Name = pick(r, c12FnNames)
		if used[fn.Name] {
			fn.Name = fmt.Sprintf("%s%d", fn.Name, k)
		}
		used[fn.Name] = true
		fn.Sig = g.signature(forBuild)
		fn.Route = pick(r, []string{"new", "parse", "expr", "lookup"})
		if r.chance(1, 2) {
			for j := r.rangeIn(1, 4); j > 0; j-- {
				fn.Doc = append(fn.Doc, pick(r, c12DocPool))
			}
			if r.chance(1, 3) {
				fn.Doc = append(fn.Doc, fn.Name+" "+strings.Join(g.words(1, 4), " "))
				st["doc_words"]++
			}
			if !forBuild && r.chance(1, 80) {
				st["doc_plusbuild"]++
				fn.Doc = append(fn.Doc, pick(r, []string{c12DocPlusBuild, "+build ignore", "+build"}))
			}
		}
		if r.chance(2, 5) {
			pool := []string{"noescape", "nosplit", "norace", "nocheckptr", "noinline", "uintptrescapes", "nowritebarrier", "systemstack"}
			if forBuild {
				pool = []string{"noescape", "nosplit", "norace", "nocheckptr", "noinline"}
			}
			fn.Pragmas = append(fn.Pragmas, []string{pick(r, pool)})
			if r.chance(1, 3) {
				fn.Pragmas = append(fn.Pragmas, []string{pick(r, pool)})
			}
			if !forBuild && r.chance(1, 4) {
				fn.Pragmas = append(fn.Pragmas, []string{"linkname", fn.Name, "runtime." + fn.Name})
			}
			if !forBuild && r.chance(1, 8) {
				fn.Pragmas = append(fn.Pragmas, []string{"wasmimport", "env", "f  x"})
			}
			if !forBuild && r.chance(1, 3) {
				// directive arguments over the alphabet
				fn.Pragmas = append(fn.Pragmas, append([]string{pick(r, []string{"linkname", "wasmimport", "cgo_import_dynamic", "x9"})}, g.words(1, 3)...))
				st["pragma_words"]++
			}
		}
		d.Fns = append(d.Fns, fn)
	}
	return d
}

func c12Bucket(n int) string {
	switch {
	case n == 0:
		return "0"
	case n <= 3:
		return "1-3"
	case n <= 10:
		return "4-10"
	default:
		return "11+"
	}
}
