package main

import (
	"bytes"
	"flag"
	"fmt"
	"io"
	"os"
	"path/filepath"
	"strings"

	"github.com/mmcloughlin/avo/attr"
	"github.com/mmcloughlin/avo/build"
	"github.com/mmcloughlin/avo/buildtags"
	"github.com/mmcloughlin/avo/gotypes"
	"github.com/mmcloughlin/avo/ir"
	"github.com/mmcloughlin/avo/operand"
	"github.com/mmcloughlin/avo/pass"
	"github.com/mmcloughlin/avo/printer"
	"github.com/mmcloughlin/avo/reg"
	"github.com/mmcloughlin/avo/x86"
)

// C18: random histories of builder calls (valid and invalid, across several
// functions and data sections) against a fresh real build.Context — through
// its methods or through the package-level functions after swapping the global
// context — every call under recover; then Result() and build.Main with
// Compile + two Output passes writing to buffers.

// ---------------------------------------------------------------- types

type c18ty struct {
	k      string // int uint bool float complex str ptr slice arr struct other
	size   int
	elem   *c18ty
	n      int
	fields []c18field
	src    string // Go source text for "other"
}

type c18field struct {
	name string
	t    *c18ty
}

func (t *c18ty) goSrc() string {
	switch t.k {
	case "int":
		return fmt.Sprintf("int%d", t.size*8)
	case "uint":
		return fmt.Sprintf("uint%d", t.size*8)
	case "bool":
		return "bool"
	case "float":
		return fmt.Sprintf("float%d", t.size*8)
	case "complex":
		return fmt.Sprintf("complex%d", t.size*8)
	case "str":
		return "string"
	case "ptr":
		return "*" + t.elem.goSrc()
	case "slice":
		return "[]" + t.elem.goSrc()
	case "arr":
		return fmt.Sprintf("[%d]%s", t.n, t.elem.goSrc())
	case "struct":
		var fs []string
		for _, f := range t.fields {
			fs = append(fs, f.name+" "+f.t.goSrc())
		}
		return "struct{" + strings.Join(fs, "; ") + "}"
	}
	return t.src
}

func (t *c18ty) toks() []string {
	switch t.k {
	case "int":
		return []string{fmt.Sprintf("i%d", t.size*8)}
	case "uint":
		return []string{fmt.Sprintf("u%d", t.size*8)}
	case "bool":
		return []string{"bool"}
	case "float":
		return []string{fmt.Sprintf("f%d", t.size*8)}
	case "complex":
		return []string{fmt.Sprintf("c%d", t.size*8)}
	case "str":
		return []string{"str"}
	case "ptr":
		return append([]string{"ptr"}, t.elem.toks()...)
	case "slice":
		return append([]string{"slice"}, t.elem.toks()...)
	case "arr":
		return append([]string{"arr", itoa(t.n)}, t.elem.toks()...)
	case "struct":
		out := []string{"struct", itoa(len(t.fields))}
		for _, f := range t.fields {
			out = append(out, f.name)
			out = append(out, f.t.toks()...)
		}
		return out
	}
	return []string{"other"}
}

var c18others = []string{"error", "map[string]int", "chan int", "func()", "interface{}"}

func c18genTy(r *rng, depth int) *c18ty {
	k := r.intn(100)
	if depth <= 0 && k >= 62 {
		k = r.intn(62)
	}
	switch {
	case k < 22:
		return &c18ty{k: "int", size: 1 << r.intn(4)}
	case k < 40:
		return &c18ty{k: "uint", size: 1 << r.intn(4)}
	case k < 45:
		return &c18ty{k: "bool", size: 1}
	case k < 53:
		return &c18ty{k: "float", size: 4 << r.intn(2)}
	case k < 57:
		return &c18ty{k: "complex", size: 8 << r.intn(2)}
	case k < 60:
		return &c18ty{k: "str"}
	case k < 62:
		return &c18ty{k: "other", src: pick(r, c18others)}
	case k < 72:
		return &c18ty{k: "ptr", elem: c18genTy(r, depth-1)}
	case k < 82:
		return &c18ty{k: "slice", elem: c18genTy(r, depth-1)}
	case k < 90:
		return &c18ty{k: "arr", n: 1 + r.intn(4), elem: c18genTy(r, depth-1)}
	default:
		t := &c18ty{k: "struct"}
		for i, n := 0, 1+r.intn(3); i < n; i++ {
			t.fields = append(t.fields, c18field{name: string(rune('a' + i)), t: c18genTy(r, depth-1)})
		}
		return t
	}
}

// prim returns size and class (sint uint bool float) when Resolve yields a Basic.
func (t *c18ty) prim() (int, string, bool) {
	switch t.k {
	case "int":
		return t.size, "sint", true
	case "uint":
		return t.size, "uint", true
	case "bool":
		return 1, "bool", true
	case "float":
		return t.size, "float", true
	case "ptr":
		return 8, "uint", true
	}
	return 0, "", false
}

// shadow of a component value: nil type = error component
type c18comp struct {
	t  *c18ty
	gp bool
}

func (c c18comp) nav(m string, idx int, fld string) c18comp {
	if c.t == nil {
		return c
	}
	bad := c18comp{}
	switch m {
	case "base":
		if c.t.k == "slice" || c.t.k == "str" {
			return c18comp{&c18ty{k: "uint", size: 8}, c.gp}
		}
	case "len":
		if c.t.k == "slice" || c.t.k == "str" {
			return c18comp{&c18ty{k: "int", size: 8}, c.gp}
		}
	case "cap":
		if c.t.k == "slice" {
			return c18comp{&c18ty{k: "int", size: 8}, c.gp}
		}
	case "real", "imag":
		if c.t.k == "complex" {
			return c18comp{&c18ty{k: "float", size: c.t.size / 2}, c.gp}
		}
	case "idx":
		if c.t.k == "arr" && idx >= 0 && idx < c.t.n {
			return c18comp{c.t.elem, c.gp}
		}
	case "fld":
		if c.t.k == "struct" {
			for _, f := range c.t.fields {
				if f.name == fld {
					return c18comp{f.t, c.gp}
				}
			}
		}
	case "deref":
		if c.t.k == "ptr" {
			return c18comp{c.t.elem, true}
		}
	}
	return bad
}

type c18var struct {
	name string
	t    *c18ty
}

type c18sig struct {
	params, results []c18var
}

func (s *c18sig) goSrc() string {
	var ps, rs []string
	for _, p := range s.params {
		ps = append(ps, strings.TrimSpace(p.name+" "+p.t.goSrc()))
	}
	for _, p := range s.results {
		rs = append(rs, strings.TrimSpace(p.name+" "+p.t.goSrc()))
	}
	out := "func(" + strings.Join(ps, ", ") + ")"
	if len(rs) > 0 {
		out += " (" + strings.Join(rs, ", ") + ")"
	}
	return out
}

func (s *c18sig) toks() []string {
	out := []string{"sig", itoa(len(s.params))}
	enc := func(vs []c18var) {
		for _, v := range vs {
			n := v.name
			if n == "" {
				n = "-"
			}
			out = append(out, n)
			out = append(out, v.t.toks()...)
		}
	}
	enc(s.params)
	out = append(out, itoa(len(s.results)))
	enc(s.results)
	return out
}

func c18genSig(r *rng) *c18sig {
	s := &c18sig{}
	named := r.chance(5, 6)
	for i, n := 0, r.intn(5); i < n; i++ {
		v := c18var{t: c18genTy(r, 2)}
		if named {
			v.name = []string{"x", "y", "z", "w", "v"}[i]
			if r.chance(1, 16) {
				v.name = "_" // may repeat; the last one is the one a lookup finds
			}
		}
		s.params = append(s.params, v)
	}
	rnamed := r.chance(1, 2)
	for i, n := 0, r.intn(4); i < n; i++ {
		v := c18var{t: c18genTy(r, 2)}
		if rnamed {
			v.name = []string{"r", "s", "t", "q"}[i]
		}
		s.results = append(s.results, v)
	}
	return s
}

var c18badSigs = []string{"func(x int", "int", "func(x foo)", "1+2", "", "func(x int) (", "[]int", "func(x int) y", "struct{}", "func(", "x"}

// ---------------------------------------------------------------- instruction catalogue

type c18ins struct {
	name   string
	arity  int // -1: variadic
	valid  []string
	branch int
	ik     []int
	nolbl  bool // label operands never generated unless listed valid
	ctx    func(c *build.Context, o []operand.Op)
	pkg    func(o []operand.Op)
}

var c18cat = []c18ins{
	{name: "ADDQ", arity: 2, valid: []string{"imm8,r64", "imm32,r64", "imm8,m", "imm32,m", "r64,r64", "m,r64", "r64,m"},
		ctx: func(c *build.Context, o []operand.Op) { c.ADDQ(o[0], o[1]) }, pkg: func(o []operand.Op) { build.ADDQ(o[0], o[1]) }},
	{name: "XORL", arity: 2, valid: []string{"imm8,r32", "imm32,r32", "imm8,m", "imm32,m", "r32,r32", "m,r32", "r32,m"},
		ctx: func(c *build.Context, o []operand.Op) { c.XORL(o[0], o[1]) }, pkg: func(o []operand.Op) { build.XORL(o[0], o[1]) }},
	{name: "MOVL", arity: 2, valid: []string{"imm32,r32", "imm32,m", "r32,r32", "m,r32", "r32,m"},
		ctx: func(c *build.Context, o []operand.Op) { c.MOVL(o[0], o[1]) }, pkg: func(o []operand.Op) { build.MOVL(o[0], o[1]) }},
	{name: "MOVQ", arity: 2, valid: []string{"imm64,r64", "imm32,r64", "imm32,m", "r64,r64", "m,r64", "r64,m", "m,xmm", "r32,xmm", "r64,xmm", "xmm,m", "xmm,r32", "xmm,r64", "xmm,xmm"},
		ctx: func(c *build.Context, o []operand.Op) { c.MOVQ(o[0], o[1]) }, pkg: func(o []operand.Op) { build.MOVQ(o[0], o[1]) }},
	{name: "CMPQ", arity: 2, valid: []string{"m,imm8", "m,imm32", "m,r64", "r64,imm8", "r64,imm32", "r64,m", "r64,r64"},
		ctx: func(c *build.Context, o []operand.Op) { c.CMPQ(o[0], o[1]) }, pkg: func(o []operand.Op) { build.CMPQ(o[0], o[1]) }},
	{name: "LEAQ", arity: 2, valid: []string{"m,r64"},
		ctx: func(c *build.Context, o []operand.Op) { c.LEAQ(o[0], o[1]) }, pkg: func(o []operand.Op) { build.LEAQ(o[0], o[1]) }},
	{name: "PXOR", arity: 2, valid: []string{"m,xmm", "xmm,xmm"},
		ctx: func(c *build.Context, o []operand.Op) { c.PXOR(o[0], o[1]) }, pkg: func(o []operand.Op) { build.PXOR(o[0], o[1]) }},
	{name: "PADDD", arity: 2, valid: []string{"m,xmm", "xmm,xmm"},
		ctx: func(c *build.Context, o []operand.Op) { c.PADDD(o[0], o[1]) }, pkg: func(o []operand.Op) { build.PADDD(o[0], o[1]) }},
	{name: "MOVUPS", arity: 2, valid: []string{"m,xmm", "xmm,m", "xmm,xmm"},
		ctx: func(c *build.Context, o []operand.Op) { c.MOVUPS(o[0], o[1]) }, pkg: func(o []operand.Op) { build.MOVUPS(o[0], o[1]) }},
	{name: "VPADDD", arity: -1, valid: []string{"m,ymm,ymm", "ymm,ymm,ymm", "m,xmm,xmm", "xmm,xmm,xmm", "m,xmm,k,xmm", "m,ymm,k,ymm", "xmm,xmm,k,xmm", "ymm,ymm,k,ymm",
		"m,zmm,zmm", "zmm,zmm,zmm", "m,zmm,k,zmm", "zmm,zmm,k,zmm"},
		ctx: func(c *build.Context, o []operand.Op) { c.VPADDD(o...) }, pkg: func(o []operand.Op) { build.VPADDD(o...) }},
	{name: "KORQ", arity: 3, valid: []string{"k,k,k"},
		ctx: func(c *build.Context, o []operand.Op) { c.KORQ(o[0], o[1], o[2]) }, pkg: func(o []operand.Op) { build.KORQ(o[0], o[1], o[2]) }},
	{name: "KMOVQ", arity: 2, valid: []string{"k,k", "k,m", "k,r64", "m,k", "r64,k"},
		ctx: func(c *build.Context, o []operand.Op) { c.KMOVQ(o[0], o[1]) }, pkg: func(o []operand.Op) { build.KMOVQ(o[0], o[1]) }},
	{name: "MULQ", arity: 1, valid: []string{"m", "r64"}, ik: []int{1},
		ctx: func(c *build.Context, o []operand.Op) { c.MULQ(o[0]) }, pkg: func(o []operand.Op) { build.MULQ(o[0]) }},
	{name: "JMP", arity: 1, valid: []string{"lbl"}, branch: 1,
		ctx: func(c *build.Context, o []operand.Op) { c.JMP(o[0]) }, pkg: func(o []operand.Op) { build.JMP(o[0]) }},
	{name: "JNE", arity: 1, valid: []string{"lbl"}, branch: 2,
		ctx: func(c *build.Context, o []operand.Op) { c.JNE(o[0]) }, pkg: func(o []operand.Op) { build.JNE(o[0]) }},
	{name: "JCC", arity: 1, valid: []string{"lbl"}, branch: 2,
		ctx: func(c *build.Context, o []operand.Op) { c.JCC(o[0]) }, pkg: func(o []operand.Op) { build.JCC(o[0]) }},
	{name: "CDQ", arity: 0, valid: []string{""}, ik: []int{1},
		ctx: func(c *build.Context, o []operand.Op) { c.CDQ() }, pkg: func(o []operand.Op) { build.CDQ() }},
	{name: "CQO", arity: 0, valid: []string{""}, ik: []int{1},
		ctx: func(c *build.Context, o []operand.Op) { c.CQO() }, pkg: func(o []operand.Op) { build.CQO() }},
	{name: "RDTSC", arity: 0, valid: []string{""}, ik: []int{1},
		ctx: func(c *build.Context, o []operand.Op) { c.RDTSC() }, pkg: func(o []operand.Op) { build.RDTSC() }},
	{name: "CPUID", arity: 0, valid: []string{""}, ik: []int{1},
		ctx: func(c *build.Context, o []operand.Op) { c.CPUID() }, pkg: func(o []operand.Op) { build.CPUID() }},
	{name: "RET", arity: 0, valid: []string{""},
		ctx: func(c *build.Context, o []operand.Op) { c.RET() }, pkg: func(o []operand.Op) { build.RET() }},
	{name: "NOP", arity: 0, valid: []string{""},
		ctx: func(c *build.Context, o []operand.Op) { c.NOP() }, pkg: func(o []operand.Op) { build.NOP() }},
}

var c18catIdx = func() map[string]*c18ins {
	m := map[string]*c18ins{}
	for i := range c18cat {
		m[c18cat[i].name] = &c18cat[i]
	}
	return m
}()

// operand classes the generator draws from; "mnb" = memory operand without base,
// "mx0" = base + index with scale 0 (accepted by the constructors, rejected by pass.Verify)
var c18classes = []string{"r64", "r32", "xmm", "ymm", "k", "imm8", "imm32", "m", "lbl", "mnb", "mx0",
	"r16", "r8", "zmm", "imm16", "imm64", "nil"}

// ---------------------------------------------------------------- the two routes

type c18api struct {
	pkg bool
	c   *build.Context
}

func (a *c18api) Function(n string) {
	if a.pkg {
		build.Function(n)
	} else {
		a.c.Function(n)
	}
}
func (a *c18api) Attributes(v attr.Attribute) {
	if a.pkg {
		build.Attributes(v)
	} else {
		a.c.Attributes(v)
	}
}
func (a *c18api) Doc(l ...string) {
	if a.pkg {
		build.Doc(l...)
	} else {
		a.c.Doc(l...)
	}
}
func (a *c18api) Pragma(d string, args ...string) {
	if a.pkg {
		build.Pragma(d, args...)
	} else {
		a.c.Pragma(d, args...)
	}
}
func (a *c18api) SignatureExpr(e string) {
	if a.pkg {
		build.SignatureExpr(e)
	} else {
		a.c.SignatureExpr(e)
	}
}
func (a *c18api) Label(n string) {
	if a.pkg {
		build.Label(n)
	} else {
		a.c.Label(n)
	}
}
func (a *c18api) Comment(l ...string) {
	if a.pkg {
		build.Comment(l...)
	} else {
		a.c.Comment(l...)
	}
}
func (a *c18api) Instruction(i *ir.Instruction) {
	if a.pkg {
		build.Instruction(i)
	} else {
		a.c.Instruction(i)
	}
}
func (a *c18api) Param(n string) gotypes.Component {
	if a.pkg {
		return build.Param(n)
	}
	return a.c.Param(n)
}
func (a *c18api) ParamIndex(i int) gotypes.Component {
	if a.pkg {
		return build.ParamIndex(i)
	}
	return a.c.ParamIndex(i)
}
func (a *c18api) Return(n string) gotypes.Component {
	if a.pkg {
		return build.Return(n)
	}
	return a.c.Return(n)
}
func (a *c18api) ReturnIndex(i int) gotypes.Component {
	if a.pkg {
		return build.ReturnIndex(i)
	}
	return a.c.ReturnIndex(i)
}
func (a *c18api) Load(s gotypes.Component, d reg.Register) {
	if a.pkg {
		build.Load(s, d)
	} else {
		a.c.Load(s, d)
	}
}
func (a *c18api) Store(s reg.Register, d gotypes.Component) {
	if a.pkg {
		build.Store(s, d)
	} else {
		a.c.Store(s, d)
	}
}
func (a *c18api) Dereference(p gotypes.Component) gotypes.Component {
	if a.pkg {
		return build.Dereference(p)
	}
	return a.c.Dereference(p)
}
func (a *c18api) AllocLocal(n int) {
	if a.pkg {
		build.AllocLocal(n)
	} else {
		a.c.AllocLocal(n)
	}
}

// The package level has no StaticGlobal / DataAttributes / AppendDatum / Signature:
// these go to the (swapped-in) context itself; AddDatum is DATA there.
func (a *c18api) StaticGlobal(n string)           { a.c.StaticGlobal(n) }
func (a *c18api) DataAttributes(v attr.Attribute) { a.c.DataAttributes(v) }
func (a *c18api) AppendDatum(v operand.Constant)  { a.c.AppendDatum(v) }
func (a *c18api) AddDatum(off int, v operand.Constant) {
	if a.pkg {
		build.DATA(off, v)
	} else {
		a.c.AddDatum(off, v)
	}
}
func (a *c18api) Constraints(t buildtags.ConstraintsConvertable) {
	if a.pkg {
		build.Constraints(t)
	} else {
		a.c.Constraints(t)
	}
}
func (a *c18api) Constraint(t buildtags.ConstraintConvertable) {
	if a.pkg {
		build.Constraint(t)
	} else {
		a.c.Constraint(t)
	}
}
func (a *c18api) ConstraintExpr(e string) {
	if a.pkg {
		build.ConstraintExpr(e)
	} else {
		a.c.ConstraintExpr(e)
	}
}
func (a *c18api) ins(name string, o ...operand.Op) {
	e := c18catIdx[name]
	if a.pkg {
		e.pkg(o)
	} else {
		e.ctx(a.c, o)
	}
}

// ---------------------------------------------------------------- one history

type c18hist struct {
	r    *rng
	a    *c18api
	toks []string
	nops int

	// what happened
	panics      int
	firstPanic  string
	origin      []string // per recorded error: the builder call that reported it
	nilCalls    int      // calls that were handed a nil argument
	stop        bool     // no further requests
	nilPanicked bool     // the call with the nil argument panicked

	// shadow state used to steer generation and to set the finding flags
	haveFn     bool
	sig        *c18sig
	fnN, globN int
	defined    map[string]bool // labels defined in the current function
	refs       map[string]bool // labels referenced in the current function
	pendingLbl map[string]bool // labels since the last instruction node
	lastLabel  bool
	ik, ek     map[int]bool
	lblN       int

	haveGlob bool
	data     [][2]int
	gsize    int

	comps  []gotypes.Component
	shadow []c18comp
	errc   gotypes.Component // some error component, to stand in after a panic

	f3a, f3b, f4, f9 bool

	pFault     int // per-mille probability that a generated request is made invalid
	pStub      int // per-mille probability that a name / doc / pragma is made unprintable for the stub file
	pPassFault int // per-mille probability of a compile-time fault injection
	negIdx     bool
	adjDup     bool
	single     int // >0: inject exactly this compile-time fault once (otherwise valid history)
	singleAt   int

	gp64, gp32, gp16, gp8, xmm, ymm, kreg []reg.Register
	derefs                                int
	stats                                 map[string]int
}

func (h *c18hist) op(toks ...string) {
	h.toks = append(h.toks, toks...)
	h.nops++
}

// call runs one real builder call under recover.
func (h *c18hist) call(what string, f func()) (panicked bool) {
	before := h.a.c.VerifErrCount()
	defer func() {
		if r := recover(); r != nil {
			panicked = true
			if h.nilPanicked {
				// the call with the nil argument was abandoned half way: what the context does
				// afterwards is a consequence of that panic, not a separate one
				h.stats["panic_after_nil_panic"]++
			} else {
				h.panics++
				if h.firstPanic == "" {
					h.firstPanic = fmt.Sprintf("%d:%s", h.nops, what)
				}
				if strings.HasPrefix(what, "nil:") {
					h.nilPanicked = true
				}
			}
		}
		// which call reported which message
		for n := h.a.c.VerifErrCount(); before < n; before++ {
			h.origin = append(h.origin, what)
		}
	}()
	f()
	return false
}

func (h *c18hist) closeFn() {
	if h.haveFn {
		for k := range h.ik {
			if !h.ek[k] {
				h.f4 = true
			}
		}
	}
}

func (h *c18hist) openFn() {
	h.closeFn()
	h.haveFn = true
	h.sig = &c18sig{}
	h.defined, h.refs, h.pendingLbl = map[string]bool{}, map[string]bool{}, map[string]bool{}
	h.ik, h.ek = map[int]bool{}, map[int]bool{}
	h.lastLabel = false
}

// noteInstr records an instruction node added to the active function.
func (h *c18hist) noteInstr(ik []int, ek []int) {
	if !h.haveFn {
		return
	}
	for _, k := range ik {
		h.ik[k] = true
	}
	for _, k := range ek {
		h.ek[k] = true
	}
	h.pendingLbl = map[string]bool{}
	h.lastLabel = false
}

func (h *c18hist) fnName() string {
	h.fnN++
	if h.r.intn(1000) < h.pStub {
		h.stats["fn_bad_name"]++
		return pick(h.r, c18badNames)
	}
	if h.r.chance(1, 25) && h.fnN > 2 {
		return "f1"
	}
	return fmt.Sprintf("f%d", h.fnN)
}

// names that cannot stand after "func" in the stub file (ASCII only: the model's
// identifier syntax is the ASCII part of Go's)
var c18badNames = []string{"", "1 f", "a b", "func", "a-b", "9", "f.g", "type"}

// fnTok: the request token(s) for Function(name)
func c18fnTok(name string) []string {
	plain := name != ""
	for _, ch := range name {
		if !(ch >= 'a' && ch <= 'z' || ch >= '0' && ch <= '9') {
			plain = false
		}
	}
	if plain {
		return []string{"fn", name}
	}
	return []string{"fnx", hexs(name)}
}

// texts with a line break followed by something that is not a comment
var c18brokenLines = []string{"no\nescape", "x\n1+2", "a\n)"}

func (h *c18hist) genDoc(forceNL bool) {
	if forceNL || h.r.intn(1000) < h.pStub {
		t := pick(h.r, c18brokenLines)
		h.op("docnl")
		h.call("Doc", func() { h.a.Doc("doc line", t) })
		h.stats["doc_nl"]++
		return
	}
	h.op("doc")
	h.call("Doc", func() { h.a.Doc("doc line", "more") })
}

func (h *c18hist) genPragma(forceNL bool) {
	if forceNL || h.r.intn(1000) < h.pStub {
		t := pick(h.r, c18brokenLines)
		h.op("pragmanl")
		if h.r.chance(1, 2) {
			h.call("Pragma", func() { h.a.Pragma(t) })
		} else {
			h.call("Pragma", func() { h.a.Pragma("nosplit", "arg", t) })
		}
		h.stats["pragma_nl"]++
		return
	}
	h.op("pragma")
	h.call("Pragma", func() { h.a.Pragma("noescape") })
}

var c18attrs = []int{0, 0, 4, 16, 20, 24, 2, 32, 64, 8, 1, 2048, 128, 4096}

// ---- operands

type c18opnd struct {
	op    operand.Op
	tok   string
	class string
	kinds []int
}

func (h *c18hist) physGP(size int) reg.Register {
	switch size {
	case 8:
		return pick(h.r, []reg.Register{reg.RAX, reg.RCX, reg.RDX, reg.RBX})
	case 4:
		return pick(h.r, []reg.Register{reg.EAX, reg.ECX, reg.EDX, reg.EBX})
	case 2:
		return pick(h.r, []reg.Register{reg.AX, reg.CX})
	}
	return pick(h.r, []reg.Register{reg.AL, reg.CL})
}

func (h *c18hist) regOf(class string) reg.Register {
	v := h.r.chance(3, 4)
	switch class {
	case "r64":
		if v {
			return pick(h.r, h.gp64)
		}
		return h.physGP(8)
	case "r32":
		if v {
			return pick(h.r, h.gp32)
		}
		return h.physGP(4)
	case "r16":
		if v {
			return pick(h.r, h.gp16)
		}
		return h.physGP(2)
	case "r8":
		if v {
			return pick(h.r, h.gp8)
		}
		return h.physGP(1)
	case "xmm":
		if v {
			return pick(h.r, h.xmm)
		}
		return pick(h.r, []reg.Register{reg.X0, reg.X1, reg.X2})
	case "ymm":
		if v {
			return pick(h.r, h.ymm)
		}
		return pick(h.r, []reg.Register{reg.Y0, reg.Y3})
	case "zmm":
		return pick(h.r, []reg.Register{reg.Z0, reg.Z5, reg.Z31})
	case "k":
		if v {
			return pick(h.r, h.kreg)
		}
		return pick(h.r, []reg.Register{reg.K1, reg.K2})
	}
	panic("class " + class)
}

func c18kindOf(class string) int {
	switch class {
	case "xmm", "ymm", "zmm":
		return 2
	case "k":
		return 3
	}
	return 1
}

// label names: four plain ones, and names that differ from them only in case, by one
// more character, or by a look-alike letter (label identity is string equality)
var c18labels = []string{"l0", "l1", "l2", "l3"}
var c18labelsNear = []string{"L1", "l10", "l1_", "_l1", "l01", "ł1", "L0", "l"}
var c18labelsAll = append(append([]string{}, c18labels...), c18labelsNear...)

func (h *c18hist) labelName() string {
	if h.r.chance(1, 6) {
		return pick(h.r, c18labelsNear)
	}
	return pick(h.r, c18labels)
}

func (h *c18hist) label(forJump bool) string {
	return h.labelName()
}

func (h *c18hist) opnd(class string, lbl string) c18opnd {
	switch class {
	case "r64", "r32", "r16", "r8", "xmm", "ymm", "zmm", "k":
		k := c18kindOf(class)
		return c18opnd{h.regOf(class), fmt.Sprintf("r:%d", k), class, []int{k}}
	case "imm8":
		if h.r.chance(1, 4) {
			return c18opnd{operand.I8(-1 - h.r.intn(128)), "i", class, nil}
		}
		return c18opnd{operand.U8(h.r.intn(256)), "i", class, nil}
	case "imm16":
		return c18opnd{operand.U16(h.r.intn(1 << 16)), "i", class, nil}
	case "imm64":
		return c18opnd{operand.U64(h.r.u64() | 1<<40), "i", class, nil}
	case "nil":
		return c18opnd{nil, "nil", class, nil}
	case "imm32":
		return c18opnd{operand.U32(1000 + h.r.intn(100000)), "i", class, nil}
	case "lbl":
		return c18opnd{operand.LabelRef(lbl), "l:" + lbl, class, nil}
	case "mnb":
		return c18opnd{operand.Mem{Disp: 8 * h.r.intn(4)}, "m:-:-:0", class, nil}
	case "mx0":
		return c18opnd{operand.Mem{Base: h.regOf("r64"), Index: h.regOf("r64"), Scale: 0}, "m:1:1:0", class, []int{1, 1}}
	case "m":
		switch h.r.intn(4) {
		case 0:
			return c18opnd{operand.NewParamAddr("x", 8*h.r.intn(3)), "m:0:-:0", class, []int{0}}
		case 1:
			return c18opnd{operand.NewStackAddr(8 * h.r.intn(3)), "m:0:-:0", class, []int{0}}
		case 2:
			sc := uint8(1 << h.r.intn(4))
			return c18opnd{operand.Mem{Base: h.regOf("r64"), Index: h.regOf("r64"), Scale: sc, Disp: 16}, fmt.Sprintf("m:1:1:%d", sc), class, []int{1, 1}}
		}
		return c18opnd{operand.Mem{Base: h.regOf("r64"), Disp: 8 * h.r.intn(4)}, "m:1:-:0", class, []int{1}}
	}
	panic("class " + class)
}

// classMatch says whether a generated operand of class c fits the slot class s of a form.
func c18fits(c, s string) bool {
	if c == s {
		return true
	}
	return s == "m" && c == "mx0" // index with scale 0 still matches every m form
}

func c18valid(e *c18ins, classes []string) bool {
	for _, v := range e.valid {
		var slots []string
		if v != "" {
			slots = strings.Split(v, ",")
		}
		if len(slots) != len(classes) {
			continue
		}
		ok := true
		for i := range slots {
			if !c18fits(classes[i], slots[i]) {
				ok = false
			}
		}
		if ok {
			return true
		}
	}
	return false
}

// instrToks encodes branch, implicit kinds and operands.
func c18instrToks(branch int, ik []int, ops []c18opnd) []string {
	out := []string{itoa(branch), itoa(len(ik))}
	for _, k := range ik {
		out = append(out, itoa(k))
	}
	out = append(out, itoa(len(ops)))
	for _, o := range ops {
		out = append(out, o.tok)
	}
	return out
}

// genInstr issues one instruction through a generated constructor.
func (h *c18hist) genInstr(name string, wantValid bool, forceClasses []string, lbl string) {
	e := c18catIdx[name]
	var classes []string
	if forceClasses != nil {
		classes = forceClasses
	} else if wantValid {
		v := pick(h.r, e.valid)
		if v != "" {
			classes = strings.Split(v, ",")
		}
		// sometimes the scale-0 variant of a memory operand (valid for the builder)
		for i := range classes {
			if classes[i] == "m" && h.r.intn(1000) < h.pPassFault {
				classes[i] = "mx0"
			}
		}
	} else {
		n := e.arity
		if n < 0 {
			n = pick(h.r, []int{0, 1, 2, 3, 3, 4, 4, 5})
		}
		for tries := 0; ; tries++ {
			classes = nil
			for i := 0; i < n; i++ {
				c := pick(h.r, c18classes)
				if e.branch != 0 && (c == "r64" || c == "m" || c == "mx0") && name == "JMP" {
					c = "xmm" // indirect jumps are valid forms that avo cannot put in a CFG: not generated
				}
				classes = append(classes, c)
			}
			if !c18valid(e, classes) || tries > 20 {
				break
			}
		}
	}
	if lbl == "" {
		lbl = h.label(true)
	}
	var ops []c18opnd
	var raw []operand.Op
	var ek []int
	for _, c := range classes {
		o := h.opnd(c, lbl)
		ops = append(ops, o)
		raw = append(raw, o.op)
		ek = append(ek, o.kinds...)
	}
	valid := c18valid(e, classes)
	h.op(append([]string{"ins", map[bool]string{true: "1", false: "0"}[valid]}, c18instrToks(e.branch, e.ik, ops)...)...)
	h.call(name, func() { h.a.ins(name, raw...) })
	if valid {
		h.noteInstr(e.ik, ek)
		if e.branch != 0 && h.haveFn {
			h.refs[lbl] = true
			if c18nearLabel(lbl) {
				h.stats["label_near_miss_referenced"]++
			}
		}
		h.stats["ins_ok"]++
	} else {
		h.stats["ins_bad"]++
	}
}

// rawNoBase adds, through Context.Instruction, a hand-built MOVQ whose memory operand
// the generated constructors would not let through: no base register (with or
// without an index register and scale), or base + index with scale 0.
func (h *c18hist) rawNoBase(force bool) {
	dst := h.regOf("r64")
	i, err := x86.MOVQ(operand.NewStackAddr(0), dst)
	if err != nil {
		panic(err)
	}
	k := h.r.intn(6)
	if !force && h.r.chance(1, 3) {
		k = 6
	}
	h.rawMem(i, k)
}

// rawKind: the k-th shape of rawNoBase
func (h *c18hist) rawKind(k int) {
	i, err := x86.MOVQ(operand.NewStackAddr(0), h.regOf("r64"))
	if err != nil {
		panic(err)
	}
	h.rawMem(i, k)
}

func (h *c18hist) rawMem(i *ir.Instruction, k int) {
	var tok string
	ek := []int{1}
	set := func(m operand.Mem, t string, kinds ...int) {
		i.Operands[0] = m
		i.Inputs[0] = m
		tok = t
		ek = append(ek, kinds...)
	}
	switch k {
	case 0, 1:
		set(operand.Mem{Disp: 8}, "m:-:-:0")
	case 2:
		sc := uint8(1 << h.r.intn(4))
		set(operand.Mem{Index: h.regOf("r64"), Scale: sc}, fmt.Sprintf("m:-:1:%d", sc), 1)
	case 3:
		set(operand.Mem{Disp: 16, Index: h.regOf("r64"), Scale: 1}, "m:-:1:1", 1)
	case 4:
		set(operand.Mem{Index: h.regOf("r64"), Scale: 0}, "m:-:1:0", 1)
	case 5:
		set(operand.Mem{Base: h.regOf("r64"), Index: h.regOf("r64"), Scale: 0}, "m:1:1:0", 1, 1)
	default:
		tok = "m:0:-:0"
		ek = append(ek, 0)
	}
	h.op("raw", "0", "0", "2", tok, "r:1")
	h.call("Instruction", func() { h.a.Instruction(i) })
	h.noteInstr(nil, ek)
	h.stats["raw"]++
	h.stats["raw_"+tok]++
}

func c18nearLabel(name string) bool {
	for _, l := range c18labelsNear {
		if l == name {
			return true
		}
	}
	return false
}

func (h *c18hist) genLabel(name string) {
	if c18nearLabel(name) {
		h.stats["label_near_miss_defined"]++
	}
	h.op("lab", name)
	h.call("Label", func() { h.a.Label(name) })
	if h.haveFn {
		if h.pendingLbl[name] {
			h.f9 = true
		}
		h.pendingLbl[name] = true
		h.defined[name] = true
		h.lastLabel = true
	}
}

// fixups make the active function compile: define referenced labels, never end on a label.
func (h *c18hist) fixups() {
	if !h.haveFn {
		return
	}
	if h.r.intn(1000) < h.pPassFault {
		h.stats["fixups_skipped"]++
		return
	}
	for _, l := range c18labelsAll {
		if h.refs[l] && !h.defined[l] {
			h.genLabel(l)
			h.genInstr("NOP", true, nil, "")
		}
	}
	if h.lastLabel {
		h.genInstr("RET", true, nil, "")
	}
}

func (h *c18hist) genFunction() {
	h.fixups()
	name := h.fnName()
	if h.r.intn(1000) < h.pFault && h.r.chance(1, 5) {
		// Implement(name) on a context without a package: an error, no function is started
		name = fmt.Sprintf("f%d", h.fnN)
		h.op("impl", name)
		h.call("Implement", func() {
			if h.a.pkg {
				build.Implement(name)
			} else {
				h.a.c.Implement(name)
			}
		})
		h.stats["implement"]++
		return
	}
	switch {
	case h.a.pkg && h.r.chance(1, 2):
		// TEXT(name, attrs, signature) = Function + Attributes + SignatureExpr
		at := pick(h.r, c18attrs)
		bad := h.r.intn(1000) < h.pFault
		expr, s := h.c18sigExpr(!bad)
		h.op(c18fnTok(name)...)
		h.openFn()
		h.op("attr", itoa(at))
		if bad {
			h.op("sigbad")
		} else {
			h.op(s.toks()...)
			h.sig = s
		}
		h.call("TEXT", func() { build.TEXT(name, attr.Attribute(at), expr) })
		h.stats["TEXT"]++
	default:
		h.op(c18fnTok(name)...)
		h.call("Function", func() { h.a.Function(name) })
		h.openFn()
	}
	h.stats["fn"]++
}

func (h *c18hist) genSig() {
	if h.r.intn(1000) < h.pFault {
		expr, _ := h.c18sigExpr(false)
		h.op("sigbad")
		h.call("SignatureExpr", func() { h.a.SignatureExpr(expr) })
		h.stats["sigbad"]++
		return
	}
	expr, s := h.c18sigExpr(true)
	h.op(s.toks()...)
	if h.r.chance(1, 4) {
		// Signature(*gotypes.Signature) with a signature parsed separately
		h.call("Signature", func() {
			gs, err := gotypes.ParseSignature(expr)
			if err != nil {
				panic("harness: generated signature does not parse: " + expr + ": " + err.Error())
			}
			h.a.c.Signature(gs)
		})
	} else {
		h.call("SignatureExpr", func() { h.a.SignatureExpr(expr) })
	}
	if h.haveFn {
		h.sig = s
	}
	h.stats["sig"]++
}

func (h *c18hist) pushComp(c gotypes.Component, s c18comp) {
	if c == nil {
		c = h.errc
	}
	h.comps = append(h.comps, c)
	h.shadow = append(h.shadow, s)
}

func (h *c18hist) curSig() *c18sig {
	if h.haveFn {
		return h.sig
	}
	return &c18sig{}
}

func (h *c18hist) genRoot() {
	s := h.curSig()
	results := h.r.chance(1, 3)
	vars := s.params
	if results {
		vars = s.results
	}
	bad := h.r.intn(1000) < h.pFault
	if !bad && len(vars) == 0 {
		results = !results
		vars = s.params
		if results {
			vars = s.results
		}
		if len(vars) == 0 {
			if h.haveFn {
				h.genSig()
			}
			return
		}
	}
	byName := h.r.chance(1, 2)
	var c gotypes.Component
	var sh c18comp
	if byName {
		name := "nope"
		if !bad && len(vars) > 0 {
			v := pick(h.r, vars)
			name = v.name
		}
		if bad {
			name = h.nearMissName(vars, s, results)
		}
		for _, v := range vars {
			if v.name == name && name != "" {
				sh = c18comp{v.t, false}
			}
		}
		tn := name
		if tn == "" {
			tn = "-"
		}
		if results {
			h.op("ret", tn)
			h.call("Return", func() { c = h.a.Return(name) })
		} else {
			h.op("par", tn)
			h.call("Param", func() { c = h.a.Param(name) })
		}
	} else {
		i := 0
		if len(vars) > 0 {
			i = h.r.intn(len(vars))
		}
		if bad {
			i = len(vars) + h.r.intn(3)
			if h.r.chance(1, 6) {
				i = pick(h.r, c18farIndices)
				h.stats["root_far_index"]++
			}
			if h.negIdx && h.r.chance(1, 2) {
				i = -1 - h.r.intn(2)
				if h.r.chance(1, 4) {
					i = pick(h.r, c18farNegIndices)
				}
			}
			if i < 0 {
				h.f3a = true
			}
		}
		if i >= 0 && i < len(vars) {
			sh = c18comp{vars[i].t, false}
		}
		if results {
			h.op("ridx", itoa(i))
			h.call("ReturnIndex", func() { c = h.a.ReturnIndex(i) })
		} else {
			h.op("pidx", itoa(i))
			h.call("ParamIndex", func() { c = h.a.ParamIndex(i) })
		}
	}
	h.pushComp(c, sh)
	h.stats["root"]++
}

// indices far outside every tuple / array (the wrap-around points of 32 and 64 bit arithmetic)
var c18farIndices = []int{1 << 31, 1<<32 + 1, 1<<63 - 1, 1 << 62, 255, 256, 65536}
var c18farNegIndices = []int{-1<<63 + 1, -1 << 31, -1<<32 - 1, -256, -1 << 62}

// nearMissName: a name that is not among vars but close to one that is, or that
// another part of the signature answers to: the name of a variable of the other
// tuple, the names the printers give to unnamed variables, a name in another
// case, with a character more or less; sometimes the empty name.
func (h *c18hist) nearMissName(vars []c18var, s *c18sig, results bool) string {
	r := h.r
	other := s.results
	if results {
		other = s.params
	}
	var cands []string
	for _, v := range other {
		cands = append(cands, v.name)
	}
	for _, v := range vars {
		if v.name != "" {
			cands = append(cands, strings.ToUpper(v.name), v.name+v.name, v.name+"1", v.name+"_", "_"+v.name, v.name+"0")
		}
	}
	cands = append(cands, "arg", "arg0", "arg1", "ret", "ret0", "ret1", "nope", "", "", "_", "X")
	for tries := 0; tries < 8; tries++ {
		n := pick(r, cands)
		taken := false
		for _, v := range vars {
			if v.name == n && n != "" {
				taken = true
			}
		}
		if !taken {
			if n != "nope" && n != "" {
				h.stats["root_near_miss_name"]++
			}
			return n
		}
	}
	return "nope"
}

// pickSlotWhere prefers (recent) slots whose shadow satisfies want.
func (h *c18hist) pickSlotWhere(want func(c18comp) bool) int {
	var cands []int
	for i := len(h.shadow) - 1; i >= 0 && len(cands) < 6; i-- {
		if want(h.shadow[i]) {
			cands = append(cands, i)
		}
	}
	if len(cands) == 0 {
		return -1
	}
	return pick(h.r, cands)
}

func c18navigable(c c18comp) bool {
	if c.t == nil {
		return false
	}
	switch c.t.k {
	case "slice", "str", "complex", "arr", "struct", "ptr":
		return true
	}
	return false
}

func c18isPrim(c c18comp) bool {
	if c.t == nil {
		return false
	}
	_, _, ok := c.t.prim()
	return ok
}

func (h *c18hist) pickSlot() int {
	if len(h.comps) == 0 {
		return -1
	}
	// prefer recent ones
	if h.r.chance(2, 3) && len(h.comps) > 3 {
		return len(h.comps) - 1 - h.r.intn(3)
	}
	return h.r.intn(len(h.comps))
}

func (h *c18hist) genNav() {
	// in a history with builder-time faults every eighth navigation is a wrong one, preferably on a typed component
	bad := h.r.intn(1000) < h.pFault || (h.pFault > 0 && h.r.chance(1, 8))
	slot := h.pickSlot()
	if !bad {
		slot = h.pickSlotWhere(c18navigable)
	} else if s := h.pickSlotWhere(c18navigable); s >= 0 && h.r.chance(1, 2) {
		slot = s
	}
	if slot < 0 {
		if h.haveFn || bad {
			h.genRoot()
		}
		return
	}
	sh := h.shadow[slot]
	c := h.comps[slot]
	m := pick(h.r, []string{"base", "len", "cap", "real", "imag", "idx", "fld", "deref"})
	idx, fld := 0, "a"
	negArr := false
	nearMiss := false
	if sh.t != nil && !bad {
		switch sh.t.k {
		case "slice":
			m = pick(h.r, []string{"base", "len", "cap"})
		case "str":
			m = pick(h.r, []string{"base", "len"})
		case "complex":
			m = pick(h.r, []string{"real", "imag"})
		case "arr":
			m, idx = "idx", h.r.intn(sh.t.n)
			if h.negIdx && h.r.chance(1, 2) {
				idx, negArr = -1, true
			}
		case "struct":
			m, fld = "fld", pick(h.r, sh.t.fields).name
		case "ptr":
			m = "deref"
		}
	} else {
		idx = h.r.intn(6)
		fld = pick(h.r, []string{"a", "b", "c", "zz", "A", "aa", "a_", "", "b1", "_"})
		if h.r.chance(1, 8) {
			idx = pick(h.r, c18farIndices)
			h.stats["nav_far_index"]++
		}
		if sh.t != nil && h.r.chance(1, 2) {
			// near miss: the selector that is valid on a *similar* kind, and the result is used right away
			switch sh.t.k {
			case "str":
				m = "cap"
			case "slice":
				m = pick(h.r, []string{"real", "idx"})
			case "complex":
				m = pick(h.r, []string{"len", "base"})
			case "arr":
				m = pick(h.r, []string{"len", "fld"})
			case "struct":
				m = pick(h.r, []string{"idx", "base"})
				if h.r.chance(1, 2) {
					// a field name that is nearly one of the struct's: other case, a character more, none
					f := pick(h.r, sh.t.fields).name
					m, fld = "fld", pick(h.r, []string{strings.ToUpper(f), f + f, f + "_", "_" + f, f + "0", "", "_", "A", "zz"})
					for _, g := range sh.t.fields {
						if g.name == fld {
							fld = "zz"
						}
					}
					h.stats["nav_near_miss_field"]++
				}
			case "ptr":
				m = pick(h.r, []string{"base", "fld"})
			}
			nearMiss = true
			h.stats["nav_near_miss_on_"+sh.t.k]++
		}
		if sh.t != nil && sh.t.k == "arr" && h.r.chance(1, 2) {
			// just past the end of an array, and used right away
			m, idx, negArr = "idx", sh.t.n+h.r.intn(2), true
			if h.r.chance(1, 6) {
				idx = pick(h.r, c18farIndices)
				h.stats["nav_far_index"]++
			}
		}
		if h.negIdx && m == "idx" && h.r.chance(1, 2) {
			idx = -1 - h.r.intn(2)
			if h.r.chance(1, 4) {
				idx = pick(h.r, c18farNegIndices)
			}
		}
	}
	var out gotypes.Component
	switch m {
	case "idx":
		if idx < 0 {
			h.f3b = true
		}
		h.op("nav", itoa(slot), "idx", itoa(idx))
		h.call("Index", func() { out = c.Index(idx) })
	case "fld":
		tf := fld
		if tf == "" {
			tf = "-" // the token for the empty name
		}
		h.op("nav", itoa(slot), "fld", tf)
		h.call("Field", func() { out = c.Field(fld) })
	case "deref":
		h.op("nav", itoa(slot), "deref")
		r := pick(h.r, h.gp64)
		h.call("Component.Dereference", func() { out = c.Dereference(r) })
	default:
		h.op("nav", itoa(slot), m)
		h.call(m, func() {
			switch m {
			case "base":
				out = c.Base()
			case "len":
				out = c.Len()
			case "cap":
				out = c.Cap()
			case "real":
				out = c.Real()
			case "imag":
				out = c.Imag()
			}
		})
	}
	h.pushComp(out, sh.nav(m, idx, fld))
	h.stats["nav"]++
	if negArr && h.haveFn {
		// use the component obtained with a negative index right away
		h.loadStoreSlot(len(h.comps)-1, c18comp{sh.t.elem, sh.gp}, false)
	} else if nearMiss && h.haveFn {
		h.loadStoreSlot(len(h.comps)-1, h.shadow[len(h.shadow)-1], false)
	}
}

// ded: is there a MOV for (memory of this primitive, register class)?  Rule written
// from the instruction set: integers/booleans/pointers move to a general purpose
// register at least as wide (extension) and from one of exactly their size;
// 4/8-byte values of any class move to/from XMM; non-float values to/from opmask
// registers; nothing moves to/from YMM.
func c18ded(sh c18comp, rclass string, store bool) bool {
	if sh.t == nil {
		return false
	}
	n, cls, ok := sh.t.prim()
	if !ok {
		return false
	}
	gp := map[string]int{"r64": 8, "r32": 4, "r16": 2, "r8": 1}
	if m, isgp := gp[rclass]; isgp {
		if cls == "float" {
			return false
		}
		if store {
			return m == n
		}
		return m >= n
	}
	switch rclass {
	case "xmm":
		return n == 4 || n == 8
	case "k":
		return cls != "float"
	}
	return false
}

func (h *c18hist) genLoadStore() {
	bad := h.r.intn(1000) < h.pFault
	slot := h.pickSlot()
	if !bad {
		slot = h.pickSlotWhere(c18isPrim)
	}
	if slot < 0 {
		if h.r.chance(1, 2) {
			h.genNav()
		} else {
			h.genRoot()
		}
		return
	}
	h.loadStoreSlot(slot, h.shadow[slot], bad)
}

// loadStoreSlot issues Load/Store of a slot; like is the type the register class is chosen for.
func (h *c18hist) loadStoreSlot(slot int, like c18comp, bad bool) {
	sh := h.shadow[slot]
	c := h.comps[slot]
	store := h.r.chance(1, 3)
	classes := []string{"r64", "r32", "r16", "r8", "xmm", "ymm", "k"}
	rclass := pick(h.r, classes)
	if !bad {
		// look for a deducible class
		for tries := 0; tries < 12 && !c18ded(like, rclass, store); tries++ {
			rclass = pick(h.r, classes)
		}
	}
	r := h.regOf(rclass)
	ded := c18ded(sh, rclass, store)
	d := "0"
	if ded {
		d = "1"
	}
	rk := c18kindOf(rclass)
	if store {
		h.op("store", itoa(slot), itoa(rk), d)
		h.call("Store", func() { h.a.Store(r, c) })
	} else {
		h.op("load", itoa(slot), itoa(rk), d)
		h.call("Load", func() { h.a.Load(c, r) })
	}
	if ded {
		bk := 0
		if sh.gp {
			bk = 1
		}
		h.noteInstr(nil, []int{bk, rk})
		h.stats["mov_ok"]++
	} else {
		h.stats["mov_err"]++
	}
}

func (h *c18hist) genDeref() {
	bad := h.r.intn(1000) < h.pFault
	slot := h.pickSlot()
	if !bad {
		slot = h.pickSlotWhere(func(c c18comp) bool { return c.t != nil && c.t.k == "ptr" })
	}
	if slot < 0 || h.derefs >= 3 {
		h.genNav()
		return
	}
	h.derefs++
	sh := h.shadow[slot]
	c := h.comps[slot]
	ded := c18ded(sh, "r64", false)
	d := "0"
	if ded {
		d = "1"
	}
	h.op("deref", itoa(slot), d)
	var out gotypes.Component
	h.call("Dereference", func() { out = h.a.Dereference(c) })
	if ded {
		bk := 0
		if sh.gp {
			bk = 1
		}
		h.noteInstr(nil, []int{bk, 1})
	}
	h.pushComp(out, sh.nav("deref", 0, ""))
	h.stats["deref"]++
}

func (h *c18hist) constOf(size int) operand.Constant {
	switch size {
	case 1:
		return operand.U8(h.r.intn(256))
	case 2:
		return operand.U16(h.r.intn(65536))
	case 4:
		if h.r.chance(1, 3) {
			return operand.F32(1.5)
		}
		return operand.U32(h.r.u64() & 0xffffffff)
	case 8:
		if h.r.chance(1, 3) {
			return operand.F64(2.25)
		}
		return operand.U64(h.r.u64())
	}
	return operand.String(strings.Repeat("s", size))
}

func (h *c18hist) genSize() int {
	if h.r.chance(1, 6) {
		return pick(h.r, []int{0, 3, 5, 11, 12})
	}
	return 1 << h.r.intn(4)
}

func (h *c18hist) openGlob() {
	h.haveGlob = true
	h.data = nil
	h.gsize = 0
}

func (h *c18hist) addData(off, size int) {
	if !h.haveGlob {
		return
	}
	h.data = append(h.data, [2]int{off, size})
	if off+size > h.gsize {
		h.gsize = off + size
	}
}

func (h *c18hist) overlapsAny(off, size int) bool {
	for _, d := range h.data {
		if !(d[0]+d[1] <= off || off+size <= d[0]) {
			return true
		}
	}
	return false
}

func (h *c18hist) genDatum() {
	size := h.genSize()
	// in a history with builder-time faults every sixth placement is aimed at existing data
	bad := h.r.intn(1000) < h.pFault || (h.pFault > 0 && len(h.data) > 0 && h.r.chance(1, 6))
	if h.r.chance(1, 3) {
		// at scale: relative to the 8 … 4096-byte boundaries of the section
		h.genDatumBoundary(bad)
		return
	}
	off := h.gsize
	switch {
	case !bad && len(h.data) > 0 && h.r.chance(1, 10):
		// a zero-width datum at the start or the end of an existing one: a valid request
		// (it overlaps nothing) that later placements must not be confused by
		d := pick(h.r, h.data)
		size = 0
		off = d[0]
		if h.r.chance(1, 2) {
			off = d[0] + d[1]
		}
		h.stats["datum_zero_width_at_edge"]++
	case bad && len(h.data) > 0:
		d := pick(h.r, h.data)
		if h.r.chance(1, 3) {
			// prefer a place where something of width zero sits
			for _, e := range h.data {
				if e[1] == 0 && h.r.chance(1, 2) {
					d = e
				}
			}
		}
		if d[1] == 0 {
			h.stats["datum_bad_at_zero_width"]++
		}
		off = d[0] + h.r.intn(d[1]+1)
		if h.r.chance(1, 2) && off > 0 {
			off--
		}
	case h.r.chance(1, 3):
		off = h.gsize + h.r.intn(9)
	case h.r.chance(1, 4):
		off = h.r.intn(h.gsize + 8)
	}
	v := h.constOf(size)
	if bad && h.haveGlob && h.r.chance(1, 5) {
		// before the start of the section: just below 0, overlapping 0 from below, far below
		off = -pick(h.r, []int{1, 1, size, size + 1, 8, 1 << 31, 1 << 62})
		if off == 0 {
			off = -1
		}
		h.op("datumneg", itoa(-off-1), itoa(size))
		h.call("AddDatum", func() { h.a.AddDatum(off, v) })
		h.stats["datum_negative"]++
		return
	}
	h.noteDatum(off, size)
	h.op("datum", itoa(off), itoa(size))
	h.call("AddDatum", func() {
		h.a.AddDatum(off, v)
	})
	if !h.overlapsAny(off, size) {
		h.addData(off, size)
	}
	h.stats["datum"]++
}

func (h *c18hist) genGlob() {
	h.globN++
	name := fmt.Sprintf("d%d", h.globN)
	switch h.r.intn(6) {
	case 0: // ConstData(name, v) = StaticGlobal + DataAttributes(RODATA|NOPTR) + AppendDatum
		size := h.genSize()
		v := h.constOf(size)
		h.op("glob", name)
		h.openGlob()
		h.op("dattr", itoa(int(attr.RODATA|attr.NOPTR)))
		h.op("app", itoa(size))
		h.addData(0, size)
		h.call("ConstData", func() {
			if h.a.pkg {
				build.ConstData(name, v)
			} else {
				h.a.c.ConstData(name, v)
			}
		})
	case 1:
		if h.a.pkg { // GLOBL(name, a) = StaticGlobal + DataAttributes
			at := pick(h.r, c18attrs)
			h.op("glob", name)
			h.openGlob()
			h.op("dattr", itoa(at))
			h.call("GLOBL", func() { build.GLOBL(name, attr.Attribute(at)) })
			break
		}
		fallthrough
	default:
		h.op("glob", name)
		h.call("StaticGlobal", func() { h.a.StaticGlobal(name) })
		h.openGlob()
	}
	h.stats["glob"]++
}

// pressure: Function(name) and a block with n simultaneously live fresh virtual registers of one kind.
func (h *c18hist) genPressure(limits map[int]int) {
	h.fixups()
	kind := pick(h.r, []int{1, 1, 3, 3, 2})
	lim := limits[kind]
	n := 1 + h.r.intn(lim)
	if h.r.chance(1, 3) {
		n = lim - h.r.intn(2)
	}
	if h.r.intn(1000) < h.pPassFault || h.r.intn(1000) < h.pPassFault {
		n = lim + 1 + h.r.intn(3)
	}
	h.fnN++
	name := fmt.Sprintf("f%d", h.fnN)
	h.op("press", name, itoa(kind), itoa(n))
	h.call("pressure", func() {
		h.a.Function(name)
		var vs []reg.Register
		for i := 0; i < n; i++ {
			switch kind {
			case 1:
				var v reg.Register
				if h.a.pkg {
					v = build.GP64()
				} else {
					v = h.a.c.GP64()
				}
				vs = append(vs, v)
				h.a.ins("MOVQ", operand.U32(uint32(i)), v)
			case 3:
				var v reg.Register
				if h.a.pkg {
					v = build.K()
				} else {
					v = h.a.c.K()
				}
				vs = append(vs, v)
				h.a.ins("KMOVQ", operand.NewStackAddr(8*i), v)
			default:
				var v reg.Register
				if h.a.pkg {
					v = build.XMM()
				} else {
					v = h.a.c.XMM()
				}
				vs = append(vs, v)
				h.a.ins("MOVUPS", operand.NewStackAddr(16*i), v)
			}
		}
		for i := 1; i < n; i++ {
			switch kind {
			case 1:
				h.a.ins("ADDQ", vs[i], vs[0])
			case 3:
				h.a.ins("KORQ", vs[i], vs[0], vs[0])
			default:
				h.a.ins("PADDD", vs[i], vs[0])
			}
		}
		h.a.ins("RET")
	})
	h.openFn()
	if kind == 1 {
		h.noteInstr(nil, []int{1})
	} else {
		h.noteInstr(nil, []int{kind, 0})
	}
	h.stats["press"]++
	if n > lim {
		h.stats["press_over"]++
	}
}

// genSingle injects the one compile-time fault of a "single" history.
func (h *c18hist) genSingle(limits map[int]int) {
	if !h.haveFn && h.single != 10 {
		h.genFunction()
	}
	switch h.single {
	case 1, 2, 3, 4:
		h.labelFault(h.single - 1)
	case 5:
		h.rawNoBase(true)
	case 6:
		name := pick(h.r, []string{"ADDQ", "MOVQ", "LEAQ", "MOVUPS"})
		h.genInstr(name, true, map[string][]string{
			"ADDQ": {"mx0", "r64"}, "MOVQ": {"r64", "mx0"}, "LEAQ": {"mx0", "r64"}, "MOVUPS": {"mx0", "xmm"}}[name], "")
	case 7:
		h.pPassFault = 1000
		h.genPressure(limits)
		h.pPassFault = 0
	case 8:
		h.genStubBreak()
	case 10:
		h.genConsFault()
	default:
		h.genNil(h.r.intn(len(c18nilKinds)))
	}
}

// genStubBreak: one request that makes the stub text of a function unprintable.
func (h *c18hist) genStubBreak() {
	switch h.r.intn(4) {
	case 0, 1:
		save := h.pStub
		h.pStub = 1000
		h.genFunction()
		h.pStub = save
		h.genInstr("RET", true, nil, "")
	case 2:
		h.genPragma(true)
	default:
		h.genDoc(true)
	}
	h.stats["inject_stubbreak"]++
}

// builder calls handed a nil argument (same order as nilKinds in Drv/C18.lean)
var c18nilKinds = []string{"Load.src", "Load.dst", "Store.src", "Store.dst", "Dereference", "AddDatum", "AppendDatum",
	"Constraints", "Constraint", "Instruction", "Signature"}

// genNil issues one builder call with a nil argument (everything else about the call is valid).
func (h *c18hist) genNil(k int) {
	kind := c18nilKinds[k]
	u64 := &c18ty{k: "uint", size: 8}
	primSlot := func() int {
		// a parameter that resolves to a primitive
		sg := &c18sig{params: []c18var{{"x", u64}}, results: []c18var{{"r", u64}}}
		h.op(sg.toks()...)
		h.call("SignatureExpr", func() { h.a.SignatureExpr(sg.goSrc()) })
		h.sig = sg
		if kind == "Store.src" {
			h.scriptRootName(true, "r", c18comp{u64, false})
		} else {
			h.scriptRootName(false, "x", c18comp{u64, false})
		}
		return len(h.comps) - 1
	}
	switch kind {
	case "AddDatum", "AppendDatum":
		if !h.haveGlob {
			h.genGlob()
		}
	case "Constraints", "Constraint":
	default:
		if !h.haveFn {
			h.genFunction()
		}
	}
	var f func()
	switch kind {
	case "Load.src":
		r := h.regOf("r64")
		f = func() { h.a.Load(nil, r) }
	case "Load.dst":
		c := h.comps[primSlot()]
		f = func() { h.a.Load(c, nil) }
	case "Store.src":
		c := h.comps[primSlot()]
		f = func() { h.a.Store(nil, c) }
	case "Store.dst":
		r := h.regOf("r64")
		f = func() { h.a.Store(r, nil) }
	case "Dereference":
		f = func() { h.a.Dereference(nil) }
	case "AddDatum":
		off := h.gsize
		f = func() { h.a.AddDatum(off, nil) }
	case "AppendDatum":
		f = func() { h.a.AppendDatum(nil) }
	case "Constraints":
		f = func() { h.a.Constraints(nil) }
	case "Constraint":
		f = func() { h.a.Constraint(nil) }
	case "Instruction":
		f = func() { h.a.Instruction(nil) }
	case "Signature":
		f = func() { h.a.c.Signature(nil) }
	}
	h.op("nil", kind)
	h.nilCalls++
	h.call("nil:"+kind, f)
	h.stats["nil_"+kind]++
	if kind == "Signature" {
		// the function now has a nil signature: every later Param/Return call would panic for
		// the same reason; the history ends here (Main is still run)
		h.stop = true
	}
	if h.nilPanicked {
		// the call was abandoned half way; how much of its effect is in place is not pinned down by
		// anything (before or after the mutation of the section, say), so no further builder call
		// is issued on this context: Result() and Main are still run, a panic there is attributed
		// to this call
		h.stop = true
	}
}

// genLabelFault injects one label fault into the active function.
func (h *c18hist) genLabelFault() {
	if !h.haveFn {
		h.genFunction()
	}
	k := h.r.intn(4)
	if k == 3 && !h.adjDup {
		k = h.r.intn(3)
	}
	h.labelFault(k)
}

func (h *c18hist) labelFault(k int) {
	h.lblN++
	l := fmt.Sprintf("e%d", h.lblN)
	switch k {
	case 0: // duplicate label
		h.genInstr("JNE", true, nil, l)
		h.genLabel(l)
		h.genInstr("NOP", true, nil, "")
		if h.r.chance(1, 2) {
			h.genInstr("ADDQ", true, nil, "")
		}
		h.genLabel(l)
		h.genInstr("RET", true, nil, "")
		h.stats["inject_duplabel"]++
	case 1: // function ends with a (referenced) label
		h.genInstr(pick(h.r, []string{"JNE", "JMP", "JCC"}), true, nil, l)
		h.genInstr("NOP", true, nil, "")
		h.genLabel(l)
		if h.r.chance(1, 2) {
			h.op("com")
			h.call("Comment", func() { h.a.Comment("tail") })
		}
		save := h.pPassFault
		h.pPassFault = 1000 // no fixups
		h.genFunction()
		h.pPassFault = save
		h.stats["inject_endlabel"]++
	case 2: // undefined label
		h.genInstr(pick(h.r, []string{"JNE", "JMP"}), true, nil, l)
		h.stats["inject_unklabel"]++
	default: // the same label twice in a row
		h.genInstr("JNE", true, nil, l)
		h.genLabel(l)
		if h.r.chance(1, 3) {
			h.op("com")
			h.call("Comment", func() { h.a.Comment("between") })
		}
		h.genLabel(l)
		h.genInstr("RET", true, nil, "")
		h.stats["inject_adjdup"]++
	}
}

// implicitOnly: a valid function whose general purpose registers are all implicit operands.
func (h *c18hist) genImplicitOnly() {
	h.fixups()
	name := h.fnName()
	h.op(c18fnTok(name)...)
	h.call("Function", func() { h.a.Function(name) })
	h.openFn()
	if h.r.chance(1, 2) {
		h.genInstr("PXOR", true, []string{"xmm", "xmm"}, "")
	}
	h.genInstr(pick(h.r, []string{"RDTSC", "CPUID", "RDTSC"}), true, nil, "")
	h.genInstr(pick(h.r, []string{"CDQ", "CQO", "CDQ"}), true, nil, "")
	h.genInstr("RET", true, nil, "")
	h.stats["implicit_only_fn"]++
}

func (h *c18hist) genOne(limits map[int]int) {
	r := h.r
	// requests that need an active function / data section while there is none are
	// issued on purpose only as faults
	needFn := func() bool {
		if h.haveFn {
			return true
		}
		if r.intn(1000) < h.pFault {
			return true // deliberately without active function
		}
		h.genFunction()
		return false
	}
	needGlob := func() bool {
		if h.haveGlob {
			return true
		}
		if r.intn(1000) < h.pFault {
			return true
		}
		h.genGlob()
		return false
	}
	w := r.intn(1000)
	switch {
	case w < 60:
		h.genFunction()
	case w < 80:
		if needFn() {
			a := pick(r, c18attrs)
			if r.chance(1, 4) {
				// every value is a valid request; NOFRAME (512) is left out: a NOFRAME function whose
				// allocation reaches the base pointer is a compile error of its own, outside the property's list
				a = r.intn(1<<16) &^ 512
				h.stats["attr_any"]++
			}
			h.op("attr", itoa(a))
			h.call("Attributes", func() { h.a.Attributes(attr.Attribute(a)) })
		}
	case w < 90:
		if needFn() {
			h.genDoc(false)
		}
	case w < 100:
		if needFn() {
			h.genPragma(false)
		}
	case w < 140:
		if needFn() {
			h.genSig()
		}
	case w < 400:
		if needFn() {
			e := &c18cat[r.intn(len(c18cat))]
			wantValid := !(r.intn(1000) < h.pFault) || e.arity == 0
			lbl := ""
			if e.branch != 0 && wantValid {
				// jump to a label of this function; an undefined one only as a compile-time fault
				lbl = h.label(true)
				if r.intn(1000) < h.pPassFault {
					lbl = "undef"
				}
			}
			h.genInstr(e.name, wantValid, nil, lbl)
		}
	case w < 410:
		if needFn() && r.intn(1000) < 200+h.pPassFault {
			h.rawNoBase(false)
		}
	case w < 460:
		if needFn() {
			name := h.labelName()
			if h.haveFn && h.defined[name] && !(r.intn(1000) < h.pPassFault) {
				// a second definition only as a compile-time fault
				for _, l := range c18labelsAll {
					if !h.defined[l] {
						name = l
					}
				}
				if h.defined[name] {
					h.lblN++
					name = fmt.Sprintf("m%d", h.lblN)
				}
			}
			h.genLabel(name)
		}
	case w < 480:
		if needFn() {
			h.op("com")
			if h.r.chance(1, 3) {
				h.call("Commentf", func() {
					if h.a.pkg {
						build.Commentf("comment %d of %s", 3, "x")
					} else {
						h.a.c.Commentf("comment %d of %s", 3, "x")
					}
				})
			} else {
				h.call("Comment", func() { h.a.Comment("a comment") })
			}
		}
	case w < 560:
		if needFn() {
			h.genRoot()
		}
	case w < 640:
		h.genNav()
	case w < 730:
		if needFn() {
			h.genLoadStore()
		}
	case w < 750:
		if needFn() {
			h.genDeref()
		}
	case w < 770:
		if needFn() {
			n := pick(r, []int{0, 8, 16, 24, 64, 3})
			h.op("local", itoa(n))
			h.call("AllocLocal", func() { h.a.AllocLocal(n) })
		}
	case w < 800:
		h.genGlob()
	case w < 810:
		if needGlob() {
			a := pick(r, c18attrs)
			if r.chance(1, 4) {
				a = r.intn(1 << 16)
				h.stats["dattr_any"]++
			}
			h.op("dattr", itoa(a))
			h.call("DataAttributes", func() { h.a.DataAttributes(attr.Attribute(a)) })
		}
	case w < 870:
		if needGlob() {
			h.genDatum()
		}
	case w < 900:
		if needGlob() {
			size := h.genSize()
			v := h.constOf(size)
			h.op("app", itoa(size))
			h.call("AppendDatum", func() { h.a.AppendDatum(v) })
			h.addData(h.gsize, size)
		}
	case w < 940:
		h.genCons()
	case w < 950:
		h.genPressure(limits)
	case w < 952:
		h.genImplicitOnly()
	case w < 967:
		if h.pPassFault > 0 {
			h.genLabelFault()
		}
	default:
		if needFn() {
			h.genInstr(pick(r, []string{"ADDQ", "MOVQ", "RET", "NOP", "XORL"}), true, nil, "")
		}
	}
}

// Fixed histories run first on every invocation: the witnesses of the listed
// findings (regressions once repaired) and one plain case per fault kind.
var c18scripts = []func(h *c18hist){
	// ParamIndex(-1): must be an error component (reported at Load), not a panic
	func(h *c18hist) {
		h.scriptFn(&c18sig{params: []c18var{{"x", &c18ty{k: "int", size: 8}}}})
		h.scriptRootIdx(false, -1)
		h.loadStoreSlot(0, c18comp{&c18ty{k: "int", size: 8}, false}, false)
		h.genInstr("RET", true, nil, "")
	},
	// ReturnIndex(-1)
	func(h *c18hist) {
		h.scriptFn(&c18sig{results: []c18var{{"", &c18ty{k: "uint", size: 4}}}})
		h.scriptRootIdx(true, -1)
		h.genInstr("RET", true, nil, "")
	},
	// Param("x").Index(-1) on an array: must be reported when loaded
	func(h *c18hist) {
		arr := &c18ty{k: "arr", n: 2, elem: &c18ty{k: "float", size: 8}}
		h.scriptFn(&c18sig{params: []c18var{{"x", arr}}})
		h.scriptRootName(false, "x", c18comp{arr, false})
		h.scriptIndex(0, -1)
		h.loadStoreSlot(1, c18comp{arr.elem, false}, false)
		h.genInstr("RET", true, nil, "")
	},
	// valid function whose general purpose registers are all implicit: RDTSC; CDQ; RET
	func(h *c18hist) {
		h.scriptFn(nil)
		h.genInstr("RDTSC", true, nil, "")
		h.genInstr("CDQ", true, nil, "")
		h.genInstr("RET", true, nil, "")
	},
	// the same label twice in a row (referenced)
	func(h *c18hist) {
		h.scriptFn(nil)
		h.labelFault(3)
	},
	// one plain case per compile-time fault kind, and a valid history
	func(h *c18hist) { h.scriptFn(nil); h.labelFault(0) },
	func(h *c18hist) { h.scriptFn(nil); h.labelFault(1) },
	func(h *c18hist) { h.scriptFn(nil); h.labelFault(2) },
	func(h *c18hist) { h.scriptFn(nil); h.rawNoBase(true); h.genInstr("RET", true, nil, "") },
	func(h *c18hist) {
		h.scriptFn(nil)
		h.genInstr("MOVQ", true, []string{"r64", "mx0"}, "")
		h.genInstr("RET", true, nil, "")
	},
	func(h *c18hist) {
		h.scriptFn(&c18sig{params: []c18var{{"x", &c18ty{k: "int", size: 8}}}, results: []c18var{{"r", &c18ty{k: "int", size: 8}}}})
		h.scriptRootName(false, "x", c18comp{&c18ty{k: "int", size: 8}, false})
		h.scriptRootName(true, "r", c18comp{&c18ty{k: "int", size: 8}, false})
		h.genInstr("ADDQ", true, []string{"imm8", "r64"}, "")
		h.genInstr("RET", true, nil, "")
	},
	// an instruction before any function
	func(h *c18hist) { h.genInstr("RET", true, nil, ""); h.scriptFn(nil); h.genInstr("RET", true, nil, "") },
	// stub printer fails after the assembly was written: Function(""), Function("1 f"), Pragma("no\nescape"), Doc
	func(h *c18hist) { h.scriptFnName(""); h.genInstr("RET", true, nil, "") },
	func(h *c18hist) { h.scriptFnName("1 f"); h.genInstr("RET", true, nil, "") },
	func(h *c18hist) { h.scriptFn(nil); h.genPragma(true); h.genInstr("RET", true, nil, "") },
	func(h *c18hist) { h.scriptFn(nil); h.genDoc(true); h.genInstr("RET", true, nil, "") },
	// … but not when a later Doc replaces the broken one, and not when Compile fails first
	func(h *c18hist) { h.scriptFn(nil); h.genDoc(true); h.genDoc(false); h.genInstr("RET", true, nil, "") },
	func(h *c18hist) { h.scriptFnName("a b"); h.labelFault(2); h.genInstr("RET", true, nil, "") },
	// base-less memory operand with index and scale, through Context.Instruction
	func(h *c18hist) { h.scriptFn(nil); h.rawKind(2); h.genInstr("RET", true, nil, "") },
	func(h *c18hist) { h.scriptFn(nil); h.rawKind(3); h.genInstr("RET", true, nil, "") },
	func(h *c18hist) { h.scriptFn(nil); h.rawKind(5); h.genInstr("RET", true, nil, "") },
	// Implement without Package
	func(h *c18hist) {
		h.op("impl", "f1")
		h.call("Implement", func() { h.a.c.Implement("f1") })
	},
	// a build constraint with a character that only looks like a digit (No), between two valid ones;
	// the same through the text route; a valid one with letters and digits of other scripts
	func(h *c18hist) {
		h.scriptFn(nil)
		h.scriptCons(1, [][]string{{"amd64"}})
		h.scriptCons(1, [][]string{{"v½"}})
		h.scriptCons(1, [][]string{{"linux"}})
		h.genInstr("RET", true, nil, "")
	},
	func(h *c18hist) {
		h.scriptFn(nil)
		h.scriptCons(2, [][]string{{"sse4²"}})
		h.genInstr("RET", true, nil, "")
	},
	func(h *c18hist) {
		h.scriptFn(nil)
		h.scriptCons(0, [][]string{{"!Ⅷ", "x"}, {"①"}})
		h.genInstr("RET", true, nil, "")
	},
	func(h *c18hist) {
		h.scriptFn(nil)
		h.scriptCons(2, [][]string{{"sse4٣", "!日本"}, {"x.y", "ǅʰ"}})
		h.genInstr("RET", true, nil, "")
	},
	// a datum overlapping an earlier one, with a zero-width datum sitting at the same offset in between
	func(h *c18hist) {
		h.scriptGlob()
		h.scriptDatum(0, 8)
		h.scriptDatum(0, 0)
		h.scriptDatum(4, 4)
	},
	// a datum before the start of the section
	func(h *c18hist) { h.scriptGlob(); h.scriptDatum(0, 8); h.scriptDatum(-4, 4); h.scriptDatum(8, 8) },
	// the name the printers give to an unnamed parameter is not a name it answers to
	func(h *c18hist) {
		u := &c18ty{k: "uint", size: 8}
		h.scriptFn(&c18sig{params: []c18var{{"", u}}, results: []c18var{{"", u}}})
		h.scriptRootName(false, "arg", c18comp{})
		h.loadStoreSlot(0, c18comp{u, false}, false)
		h.scriptRootName(true, "ret", c18comp{})
		h.loadStoreSlot(1, c18comp{u, false}, false)
		h.genInstr("RET", true, nil, "")
	},
	// one call with a nil argument each
	c18nilScript(0), c18nilScript(1), c18nilScript(2), c18nilScript(3), c18nilScript(4), c18nilScript(5),
	c18nilScript(6), c18nilScript(7), c18nilScript(8), c18nilScript(9), c18nilScript(10),
}

func c18nilScript(k int) func(h *c18hist) {
	return func(h *c18hist) {
		h.scriptFn(nil)
		h.genInstr("RET", true, nil, "")
		h.genNil(k)
	}
}

// scriptCons: the given line by route 0 Constraints, 1 Constraint, 2 ConstraintExpr
func (h *c18hist) scriptCons(route int, c [][]string) {
	toks, _ := c18shapeToks(c)
	k := c18shapeConstraint(c)
	switch route {
	case 0:
		h.op(append([]string{"conss", "1"}, toks...)...)
		h.call("Constraints", func() { h.a.Constraints(buildtags.Constraints{k}) })
	case 1:
		h.op(append([]string{"cons"}, toks...)...)
		h.call("Constraint", func() { h.a.Constraint(k) })
	default:
		var fs []string
		for _, o := range c {
			fs = append(fs, strings.Join(o, ","))
		}
		text := strings.Join(fs, " ")
		h.op("consx", c18cps(text), c18bit(c18toolExpr(text)))
		h.call("ConstraintExpr", func() { h.a.ConstraintExpr(text) })
	}
}

func (h *c18hist) scriptGlob() {
	h.globN++
	name := fmt.Sprintf("d%d", h.globN)
	h.op("glob", name)
	h.call("StaticGlobal", func() { h.a.StaticGlobal(name) })
	h.openGlob()
}

func (h *c18hist) scriptDatum(off, size int) {
	v := h.constOf(size)
	if off < 0 {
		h.op("datumneg", itoa(-off-1), itoa(size))
		h.call("AddDatum", func() { h.a.AddDatum(off, v) })
		return
	}
	h.op("datum", itoa(off), itoa(size))
	h.call("AddDatum", func() { h.a.AddDatum(off, v) })
	if !h.overlapsAny(off, size) {
		h.addData(off, size)
	}
}

func (h *c18hist) scriptFnName(name string) {
	h.fnN++
	h.op(c18fnTok(name)...)
	h.call("Function", func() { h.a.Function(name) })
	h.openFn()
}

func (h *c18hist) scriptFn(s *c18sig) {
	name := h.fnName()
	h.op(c18fnTok(name)...)
	h.call("Function", func() { h.a.Function(name) })
	h.openFn()
	if s != nil {
		h.op(s.toks()...)
		h.call("SignatureExpr", func() { h.a.SignatureExpr(s.goSrc()) })
		h.sig = s
	}
}

func (h *c18hist) scriptRootIdx(results bool, i int) {
	var c gotypes.Component
	if i < 0 {
		h.f3a = true
	}
	if results {
		h.op("ridx", itoa(i))
		h.call("ReturnIndex", func() { c = h.a.ReturnIndex(i) })
	} else {
		h.op("pidx", itoa(i))
		h.call("ParamIndex", func() { c = h.a.ParamIndex(i) })
	}
	h.pushComp(c, c18comp{})
}

func (h *c18hist) scriptRootName(results bool, name string, sh c18comp) {
	var c gotypes.Component
	if results {
		h.op("ret", name)
		h.call("Return", func() { c = h.a.Return(name) })
	} else {
		h.op("par", name)
		h.call("Param", func() { c = h.a.Param(name) })
	}
	h.pushComp(c, sh)
}

func (h *c18hist) scriptIndex(slot, idx int) {
	var out gotypes.Component
	if idx < 0 {
		h.f3b = true
	}
	c := h.comps[slot]
	h.op("nav", itoa(slot), "idx", itoa(idx))
	h.call("Index", func() { out = c.Index(idx) })
	h.pushComp(out, h.shadow[slot].nav("idx", idx, ""))
}

func (h *c18hist) randomBody(limits map[int]int) {
	target := 1 + h.r.intn(80)
	if h.r.chance(1, 10) {
		target = 1 + h.r.intn(6)
	}
	// histories start with a function unless the point is to fault
	if !(h.r.intn(1000) < h.pFault) && h.r.chance(9, 10) {
		h.genFunction()
	}
	h.singleAt = h.r.intn(target)
	for h.nops < target && !h.stop {
		if h.single > 0 && h.nops >= h.singleAt {
			h.genSingle(limits)
			h.single = 0
			continue
		}
		h.genOne(limits)
	}
	if h.single > 0 {
		h.genSingle(limits)
	}
}

// ---------------------------------------------------------------- classification of messages
//
// The class of a message is not taken from its wording: at start-up every class
// is provoked once, by a canonical request on a scratch context, and the text it
// yields — with quoted parts and numbers removed — is what later messages of
// that class are recognised by.  A reworded message is reworded in the
// calibration too.  Messages of the Go parser / type checker (signature
// expressions) are recognised by the call that reported them; anything else is
// the distinct class "unknown".

func c18skeleton(msg string) string {
	var out []byte
	var quote byte
	for i := 0; i < len(msg); i++ {
		ch := msg[i]
		switch {
		case quote != 0:
			if ch == '\\' && i+1 < len(msg) {
				i++
			} else if ch == quote {
				quote = 0
				out = append(out, ch)
			}
		case ch == '"' || ch == '\'':
			quote = ch
			out = append(out, ch)
		case ch >= '0' && ch <= '9':
		default:
			out = append(out, ch)
		}
	}
	return strings.TrimSpace(string(out))
}

type c18calib struct {
	msg, pass map[string]string // skeleton -> class tag
	got       []string          // what was calibrated, in the fixed order of the witnesses
}

var c18cal *c18calib

func c18mainOn(ctx *build.Context, passes ...pass.Interface) (int, string) {
	var diag bytes.Buffer
	status := -1
	func() {
		defer func() { _ = recover() }()
		status = build.Main(&build.Config{ErrOut: &diag, Passes: passes}, ctx)
	}()
	return status, diag.String()
}

func c18calibrate(limits map[int]int) *c18calib {
	cal := &c18calib{msg: map[string]string{}, pass: map[string]string{}}
	u64 := "func(x uint64)"
	withParam := func(sig string, f func(c *build.Context, x gotypes.Component)) func(c *build.Context) {
		return func(c *build.Context) {
			c.Function("f")
			c.SignatureExpr(sig)
			f(c, c.Param("x"))
		}
	}
	load := func(nav func(x gotypes.Component) gotypes.Component) func(c *build.Context, x gotypes.Component) {
		return func(c *build.Context, x gotypes.Component) { c.Load(nav(x), c.GP64()) }
	}
	cons := func(terms ...string) func(c *build.Context) {
		return func(c *build.Context) {
			var o buildtags.Option
			for _, t := range terms {
				o = append(o, buildtags.Term(t))
			}
			c.Constraint(buildtags.Constraint{o})
		}
	}
	builder := []struct {
		tag string
		f   func(c *build.Context)
	}{
		{"nofunc", func(c *build.Context) { c.RET() }},
		{"noglobal", func(c *build.Context) { c.AppendDatum(operand.U8(1)) }},
		{"badops", func(c *build.Context) { c.Function("f"); c.ADDQ(reg.X0, reg.X1) }},
		{"unkvar", func(c *build.Context) { c.Function("f"); c.SignatureExpr(u64); c.Load(c.Param("nope"), c.GP64()) }},
		{"idxrange", func(c *build.Context) { c.Function("f"); c.SignatureExpr(u64); c.Load(c.ParamIndex(5), c.GP64()) }},
		{"notprim", withParam("func(x string)", load(func(x gotypes.Component) gotypes.Component { return x }))},
		{"notptr", withParam(u64, func(c *build.Context, x gotypes.Component) { c.Load(x.Dereference(c.GP64()), c.GP64()) })},
		{"nobase", withParam(u64, load(func(x gotypes.Component) gotypes.Component { return x.Base() }))},
		{"nolen", withParam(u64, load(func(x gotypes.Component) gotypes.Component { return x.Len() }))},
		{"nocap", withParam(u64, load(func(x gotypes.Component) gotypes.Component { return x.Cap() }))},
		{"noreal", withParam(u64, load(func(x gotypes.Component) gotypes.Component { return x.Real() }))},
		{"noimag", withParam(u64, load(func(x gotypes.Component) gotypes.Component { return x.Imag() }))},
		{"notarray", withParam(u64, load(func(x gotypes.Component) gotypes.Component { return x.Index(0) }))},
		{"arrbounds", withParam("func(x [2]uint64)", load(func(x gotypes.Component) gotypes.Component { return x.Index(5) }))},
		{"notstruct", withParam(u64, load(func(x gotypes.Component) gotypes.Component { return x.Field("a") }))},
		{"nofield", withParam("func(x struct{a uint64})", load(func(x gotypes.Component) gotypes.Component { return x.Field("zz") }))},
		{"mov", withParam(u64, func(c *build.Context, x gotypes.Component) { c.Load(x, c.YMM()) })},
		{"overlap", func(c *build.Context) {
			c.StaticGlobal("d")
			c.AddDatum(0, operand.U64(1))
			c.AddDatum(4, operand.U64(2))
		}},
		{"negoff", func(c *build.Context) {
			c.StaticGlobal("d")
			c.AddDatum(-4, operand.U32(1))
		}},
		{"constraint", cons("!!x")},
		{"constraint", cons("!")},
		{"constraint", cons("a-b")},
		{"constraint", cons()},
		{"constraint", func(c *build.Context) { c.Constraint(buildtags.Constraint{}) }},
		{"nopkg", func(c *build.Context) { c.Implement("f") }},
	}
	for _, w := range builder {
		c := build.NewContext()
		func() {
			defer func() { _ = recover() }()
			w.f(c)
		}()
		if msgs := c.VerifErrMessages(); len(msgs) == 1 {
			cal.msg[c18skeleton(msgs[0])] = w.tag
			cal.got = append(cal.got, w.tag)
		} else {
			cal.got = append(cal.got, fmt.Sprintf("%s!%d", w.tag, len(msgs)))
		}
	}
	rawMov := func(c *build.Context, m operand.Mem) {
		i, err := x86.MOVQ(operand.NewStackAddr(0), reg.RAX)
		if err != nil {
			panic(err)
		}
		i.Operands[0], i.Inputs[0] = m, m
		c.Instruction(i)
	}
	press := func(kind int) func(c *build.Context) {
		return func(c *build.Context) {
			n := limits[kind] + 1
			var vs []reg.Register
			for i := 0; i < n; i++ {
				switch kind {
				case 1:
					v := c.GP64()
					vs = append(vs, v)
					c.MOVQ(operand.U32(uint32(i)), v)
				case 3:
					v := c.K()
					vs = append(vs, v)
					c.KMOVQ(operand.NewStackAddr(8*i), v)
				default:
					v := c.XMM()
					vs = append(vs, v)
					c.MOVUPS(operand.NewStackAddr(16*i), v)
				}
			}
			for i := 1; i < n; i++ {
				switch kind {
				case 1:
					c.ADDQ(vs[i], vs[0])
				case 3:
					c.KORQ(vs[i], vs[0], vs[0])
				default:
					c.PADDD(vs[i], vs[0])
				}
			}
		}
	}
	passes := []struct {
		tag string
		f   func(c *build.Context)
	}{
		{"membase", func(c *build.Context) { rawMov(c, operand.Mem{Disp: 8}) }},
		{"memscale", func(c *build.Context) { c.MOVQ(operand.Mem{Base: reg.RAX, Index: reg.RCX, Scale: 0}, reg.RBX) }},
		{"duplabel", func(c *build.Context) {
			c.JNE(operand.LabelRef("a"))
			c.Label("a")
			c.NOP()
			c.Label("a")
		}},
		{"endlabel", func(c *build.Context) { c.JMP(operand.LabelRef("a")); c.NOP(); c.Label("a") }},
		{"unklabel", func(c *build.Context) { c.JMP(operand.LabelRef("a")) }},
		{"alloc", press(1)},
		{"alloc", press(2)},
		{"alloc", press(3)},
	}
	for _, w := range passes {
		c := build.NewContext()
		c.Function("f")
		func() {
			defer func() { _ = recover() }()
			w.f(c)
			if w.tag != "endlabel" {
				c.RET()
			}
		}()
		st, diag := c18mainOn(c, pass.Compile)
		if st == 1 && len(c.VerifErrMessages()) == 0 && strings.Count(diag, "\n") == 1 {
			cal.pass[c18skeleton(diag)] = w.tag
			cal.got = append(cal.got, w.tag)
		} else {
			cal.got = append(cal.got, w.tag+"!")
		}
	}
	return cal
}

// classify: by calibrated text; messages of SignatureExpr/TEXT/Signature that are
// none of the calibrated ones come from the Go parser / type checker.
func c18classify(msg, origin string) string {
	if t, ok := c18cal.msg[c18skeleton(msg)]; ok {
		return t
	}
	switch origin {
	case "SignatureExpr", "TEXT":
		return "sig"
	case "Constraints", "Constraint", "ConstraintExpr":
		// messages of buildtags validation quote the offending term / character, which may itself be a
		// quote or a backslash: recognised by the call that reported them, like the type checker's
		return "constraint"
	}
	return "unknown"
}

func c18classifyPass(diag string) string {
	if t, ok := c18cal.pass[c18skeleton(diag)]; ok {
		return t
	}
	return "other"
}

// c18scratch: directory for the files of the Flags route (next to the -ops file)
var c18scratch string

// c18mainViaFlags runs build.Main with the Config that build.NewFlags(...).Config() yields for
// "-out F1 -stubs F2 -log F3 -e -pkg p" and reads the three files back into the buffers.
func c18mainViaFlags(ctx *build.Context, asm, stubs, diag *bytes.Buffer, stats map[string]int, allErrors bool) int {
	names := []string{filepath.Join(c18scratch, "out.s"), filepath.Join(c18scratch, "stubs.go"), filepath.Join(c18scratch, "log.txt")}
	// a previous generation's output is in place
	for _, n := range names[:2] {
		if err := os.WriteFile(n, []byte("STALE\n"), 0o644); err != nil {
			panic("harness: " + err.Error())
		}
	}
	fs := flag.NewFlagSet("c18", flag.ContinueOnError)
	fl := build.NewFlags(fs)
	args := []string{"-out", names[0], "-stubs", names[1], "-log", names[2], "-pkg", "p"}
	if allErrors {
		args = append(args, "-e") // otherwise at most 10 messages and "too many errors"
	}
	if err := fs.Parse(args); err != nil {
		panic("harness: " + err.Error())
	}
	cfg := fl.Config()
	defer func() {
		// Output passes close their files only when they ran to completion
		for _, p := range cfg.Passes {
			if o, ok := p.(*pass.Output); ok {
				_ = o.Writer.Close()
			}
		}
		if c, ok := cfg.ErrOut.(io.Closer); ok {
			_ = c.Close()
		}
		for i, b := range []*bytes.Buffer{asm, stubs, diag} {
			data, err := os.ReadFile(names[i])
			if err == nil {
				b.Write(data)
			}
		}
	}()
	status := build.Main(cfg, ctx)
	if status != 0 {
		// observation only (outside the property's observation points): the output files were
		// opened — and truncated — when the flags were parsed
		if fi, err := os.Stat(names[0]); err == nil && fi.Size() == 0 {
			stats["flags_failure_truncated_previous_output"]++
		}
	}
	return status
}

type nopCloser struct{ *bytes.Buffer }

func (nopCloser) Close() error { return nil }

// ---------------------------------------------------------------- driver of one history

type c18result struct {
	req, resp       string
	mainReq         string
	mainResp        string
	acceptReq       string
	maxReq, maxResp string
	class           string

	// for the child-process route: the history once more, and what was seen in-process
	api     string   // ctx | pkg
	hdrRest []string // f3a= … n=
	toks    []string
	msgs    []string
	errs    int
	clean   bool // no nil argument, no panic
}

// c18opt: how one history is produced and run.
type c18opt struct {
	script func(h *c18hist)
	pkg    bool // (scripts) through the package-level functions
	flags  int  // 0: drawn (random histories only), 1: Main on buffers, 2: Main on build.NewFlags(...).Config()
	limit  int  // with flags: 0 drawn, 1 "-e" (unlimited), 2 the default limit of 10 messages
}

func c18bit(b bool) string {
	if b {
		return "1"
	}
	return "0"
}

func c18run(r *rng, limits map[int]int, stats map[string]int, opt c18opt) c18result {
	script, scriptPkg := opt.script, opt.pkg
	ctx := build.NewContext()
	h := &c18hist{r: r, a: &c18api{c: ctx}, stats: stats}
	route := "ctx"
	if (script == nil && r.chance(1, 4)) || (script != nil && scriptPkg) {
		route = "pkg"
		h.a.pkg = true
		old := build.VerifSwapContext(ctx)
		defer build.VerifSwapContext(old)
	}
	stats["route_"+route]++
	// distribution of histories
	mode := r.intn(100)
	switch {
	case mode < 26: // valid
		stats["mode_valid"]++
	case mode < 41: // valid but for one compile-time fault
		h.single = 1 + r.intn(7)
		if h.single == 4 && !r.chance(1, 4) {
			h.single = 1 + r.intn(3)
		}
		stats[fmt.Sprintf("mode_single_pass_fault_%d", h.single)]++
	case mode < 46: // valid but for one request that makes a stub unprintable
		h.single = 8
		stats["mode_single_stub_break"]++
	case mode < 52: // valid but for one call with a nil argument
		h.single = 9
		stats["mode_single_nil_argument"]++
	case mode < 55: // valid but for one invalid build constraint
		h.single = 10
		stats["mode_single_bad_constraint"]++
	case mode < 72:
		h.pFault = pick(r, []int{20, 60, 150, 300})
		if r.chance(1, 4) {
			h.pStub = 40
		}
		stats["mode_builder_faults"]++
	case mode < 90:
		h.pPassFault = pick(r, []int{60, 150, 400})
		if r.chance(1, 4) {
			h.pStub = 40
		}
		stats["mode_pass_faults"]++
	default:
		h.pFault = pick(r, []int{30, 100})
		h.pPassFault = pick(r, []int{100, 300})
		h.pStub = pick(r, []int{0, 40})
		stats["mode_mixed"]++
	}
	if h.pFault > 0 && r.chance(1, 3) {
		h.negIdx = true
	}
	if h.pPassFault > 0 && r.chance(1, 3) {
		h.adjDup = true
	}
	// register pool (allocated from the context under test)
	alloc := func(n int, f func() reg.Register) []reg.Register {
		var out []reg.Register
		for i := 0; i < n; i++ {
			out = append(out, f())
		}
		return out
	}
	h.gp64 = alloc(3, func() reg.Register { return ctx.GP64() })
	h.gp32 = alloc(2, func() reg.Register { return ctx.GP32() })
	h.gp16 = alloc(1, func() reg.Register { return ctx.GP16() })
	h.gp8 = alloc(1, func() reg.Register { return ctx.GP8() })
	h.xmm = alloc(3, func() reg.Register { return ctx.XMM() })
	h.ymm = alloc(1, func() reg.Register { return ctx.YMM() })
	h.kreg = alloc(2, func() reg.Register { return ctx.K() })
	h.errc = gotypes.NewSignatureVoid().Params().Lookup("harness-placeholder")

	if script != nil {
		h.pFault, h.pPassFault, h.pStub, h.single = 0, 0, 0, 0
		script(h)
	} else {
		h.randomBody(limits)
	}
	if !h.nilPanicked {
		h.fixups()
	}
	h.closeFn()

	if c18childCfg != nil {
		// the child process of the `child` route: the same history, handed to build.Generate()
		c18childGenerate(ctx)
	}
	viaFlags := c18scratch != "" && ((script == nil && opt.flags == 0 && r.chance(1, 8)) || opt.flags == 2)
	mx := 0
	if viaFlags && (opt.limit == 2 || (opt.limit == 0 && r.chance(1, 2))) {
		mx = 10
	}
	routeTag := route
	if viaFlags {
		routeTag += ".flags"
	}
	if mx > 0 {
		routeTag += fmt.Sprintf(".mx%d", mx)
	}
	hdrRest := []string{"f3a=" + c18bit(h.f3a), "f3b=" + c18bit(h.f3b), "f4=" + c18bit(h.f4), "f9=" + c18bit(h.f9), "n=" + itoa(h.nops)}
	hdr := append([]string{"route=" + routeTag}, hdrRest...)
	line := strings.Join(append(hdr, h.toks...), " ")

	// ---- observe
	msgs := ctx.VerifErrMessages()
	var resp []string
	resp = append(resp, "e", itoa(len(msgs)))
	for i, m := range msgs {
		org := ""
		if i < len(h.origin) {
			org = h.origin[i]
		}
		resp = append(resp, c18classify(m, org))
	}
	var file *ir.File
	var rerr error
	h.call("Result", func() { file, rerr = ctx.Result() })
	nResultErrs := 0
	if rerr != nil {
		if el, ok := rerr.(build.ErrorList); ok {
			nResultErrs = len(el)
		} else {
			nResultErrs = 1
		}
	}
	if file != nil {
		fns := file.Functions()
		resp = append(resp, "f", itoa(len(fns)))
		for _, fn := range fns {
			resp = append(resp, fmt.Sprintf("%d:%d", len(fn.Nodes), fn.LocalSize))
		}
		var gl []*ir.Global
		for _, s := range file.Sections {
			if g, ok := s.(*ir.Global); ok {
				gl = append(gl, g)
			}
		}
		resp = append(resp, "g", itoa(len(gl)))
		for _, g := range gl {
			resp = append(resp, fmt.Sprintf("%d:%d", len(g.Data), g.Size))
		}
		resp = append(resp, "c", itoa(len(file.Constraints)))
		order := "-"
		for _, sec := range file.Sections {
			if _, ok := sec.(*ir.Function); ok {
				order += "F"
			} else {
				order += "G"
			}
		}
		resp = append(resp, "o", order)
	}
	var asm, stubs, diag bytes.Buffer
	cfg := &build.Config{
		ErrOut:    &diag,
		MaxErrors: 0,
		Passes: []pass.Interface{
			pass.Compile,
			&pass.Output{Writer: nopCloser{&asm}, Printer: printer.NewGoAsm(printer.Config{Name: "avo", Pkg: "p"})},
			&pass.Output{Writer: nopCloser{&stubs}, Printer: printer.NewStubs(printer.Config{Name: "avo", Pkg: "p"})},
		},
	}
	status := -1
	builderPanics := h.panics
	var mainPanicked bool
	if viaFlags {
		// the configuration build.Generate uses: build.NewFlags on a private FlagSet, -out/-stubs/-log files, -e or not
		stats["main_via_flags"]++
		if mx > 0 {
			stats["main_via_flags_limit10"]++
		}
		mainPanicked = h.call("Main", func() { status = c18mainViaFlags(ctx, &asm, &stubs, &diag, stats, mx == 0) })
	} else {
		mainPanicked = h.call("Main", func() { status = build.Main(cfg, ctx) })
	}
	// one diagnostic line per message; a message that itself contains line breaks (buildtags quotes
	// the offending character raw: "character '\n' disallowed") is still one diagnostic
	nlIn := func(ms []string) int {
		n := 0
		for _, m := range ms {
			n += strings.Count(m, "\n")
		}
		return n
	}
	diagLines := strings.Count(diag.String(), "\n")
	loggedMsgs := msgs
	if mx > 0 && len(loggedMsgs) > mx {
		loggedMsgs = loggedMsgs[:mx]
	}
	if !mainPanicked && diagLines >= len(loggedMsgs)+nlIn(loggedMsgs) {
		diagLines -= nlIn(loggedMsgs)
	}
	perr := "-"
	if len(msgs) == 0 && status != 0 && !mainPanicked {
		perr = c18classifyPass(diag.String())
	}
	// the status of a generation is what the operating system keeps of os.Exit(status): its low 8 bits
	// (the acceptor does this reduction itself, on the value Main returned)
	st := "0"
	if uint8(status) != 0 {
		st = "1"
	}
	if status != 0 && uint8(status) == 0 {
		stats["status_multiple_of_256"]++
	}
	if mainPanicked {
		st = "panic"
	}
	respLine := strings.Join(resp, " ")
	if builderPanics > 0 {
		respLine = "panic@" + h.firstPanic + " " + respLine
	}
	mainLine := strings.Join([]string{"s", st, "a", c18bit(asm.Len() > 0), "t", c18bit(stubs.Len() > 0), "d", itoa(diagLines)}, " ")

	out := c18result{req: "c18 " + line, resp: respLine, mainReq: "c18main " + line, mainResp: mainLine,
		api: route, hdrRest: hdrRest, toks: h.toks, msgs: msgs, errs: nResultErrs, clean: h.nilCalls == 0 && h.panics == 0 && !mainPanicked}
	ostatus := status
	if mainPanicked {
		ostatus = 0
	}
	pat := "-"
	if h.firstPanic != "" {
		pat = h.firstPanic[strings.Index(h.firstPanic, ":")+1:]
	}
	obs := fmt.Sprintf("errs=%d status=%d asm=%d stubs=%d diag=%d panics=%d pat=%s perr=%s", nResultErrs, ostatus, asm.Len(), stubs.Len(), diagLines, h.panics, pat, perr)
	out.acceptReq = "accept-c18 " + obs + " " + line

	// error limit (not part of the property): same context, MaxErrors = mx
	if len(msgs) > 0 && !mainPanicked {
		mx := 1 + r.intn(12)
		var d2 bytes.Buffer
		cfg2 := &build.Config{ErrOut: &d2, MaxErrors: mx, Passes: cfg.Passes}
		ok := true
		func() {
			defer func() {
				if recover() != nil {
					ok = false
				}
			}()
			build.Main(cfg2, ctx)
		}()
		if ok {
			out.maxReq = fmt.Sprintf("c18max %d %d", mx, len(msgs))
			logged := msgs
			if len(logged) > mx {
				logged = logged[:mx]
			}
			out.maxResp = itoa(strings.Count(d2.String(), "\n") - nlIn(logged))
		}
	}
	switch {
	case h.panics > 0:
		out.class = "panic"
	case len(msgs) > 0:
		out.class = "builder_error"
	case status != 0 && asm.Len() > 0:
		out.class = "output_pass_error"
	case status != 0:
		out.class = "pass_error_" + perr
	default:
		out.class = "ok"
	}
	if h.nilCalls > 0 {
		// what a call with a nil argument does is not pinned down beyond "no panic":
		// only the acceptor judges such a history
		out.req, out.mainReq, out.maxReq = "", "", ""
		out.class = "nil_" + out.class
	}
	return out
}

func init() {
	register("c18", "random builder histories against build.Context / package-level API, Result and Main", func(args []string) error {
		f := newStdFlags("c18")
		if err := f.fs.Parse(args); err != nil {
			return err
		}
		o, err := openOut(f)
		if err != nil {
			return err
		}
		defer o.close()
		// allocatable registers per kind, from the compiled register families (cross-checked
		// against the regenerated table by the driver: request c18lim)
		limits := c18limits()
		o.emit("c18lim", fmt.Sprintf("%d %d %d", limits[1], limits[2], limits[3]))
		c18scratch = filepath.Join(filepath.Dir(*f.ops), fmt.Sprintf("c18files-%d", os.Getpid()))
		if err := os.MkdirAll(c18scratch, 0o755); err != nil {
			return err
		}
		defer os.RemoveAll(c18scratch)
		c18cal = c18calibrate(limits)
		o.emit("c18cal", strings.Join(c18cal.got, " "))
		stats := map[string]int{}
		classes := map[string]int{}
		sizes := map[string]int{}
		r := newRng(*f.seed)
		// what the operating system keeps of os.Exit(k), measured in child processes
		for _, k := range c18exitKs {
			o.emit(fmt.Sprintf("c18exit %d", k), itoa(c18measureExit(k)))
		}
		// fixed histories first; an entry with a spec is also run through the child-process route
		type planned struct {
			opt   c18opt
			spec  string // how the child rebuilds the script ("" = not run in a child)
			child int    // 1: child with -e, 2: child with the default limit
		}
		var plan []planned
		for _, sc := range c18scripts {
			plan = append(plan, planned{opt: c18opt{script: sc, flags: 1}})
		}
		// long histories: k faults, k around every multiple of 256 (the process exit status keeps 8 bits)
		for i, k := range c18longKs {
			for j, kind := range []string{"same", "mixed"} {
				spec := fmt.Sprintf("long:%s:%d", kind, k)
				sc := c18longScript(kind, k)
				pkg := (i+j)%3 == 2
				plan = append(plan,
					planned{opt: c18opt{script: sc, pkg: pkg, flags: 1}, spec: spec, child: 1 + (i+j)%2},
					planned{opt: c18opt{script: sc, pkg: !pkg, flags: 2, limit: 1 + (i+j+1)%2}})
			}
		}
		// the boundary of the toolchain's tag-character table, swept: one small history per edge
		// code point (quick: one route/position per code point, in rotation; thorough: all 24)
		edges := c18edgeRunes()
		stats["cons_edge_runes"] = len(edges)
		for i, x := range edges {
			if *f.tier == "thorough" {
				for k := 0; k < 24; k++ {
					plan = append(plan, planned{opt: c18opt{script: c18edgeScript(x, k), pkg: (i+k)%4 == 3, flags: 1}})
				}
			} else {
				plan = append(plan, planned{opt: c18opt{script: c18edgeScript(x, i+int(*f.seed%24)), pkg: i%4 == 3, flags: 1}})
			}
		}
		// data placements around the 64 … 4096-byte boundaries, swept (quick: every fourth case, rotating with the seed)
		for i, c := range c18dataSweep() {
			if *f.tier == "thorough" || (i/16+i)%4 == int(*f.seed%4) {
				plan = append(plan, planned{opt: c18opt{script: c18dataScript(c), pkg: i%5 == 4, flags: 1}})
			}
		}
		fixed := len(plan)
		stats["fixed_histories"] = fixed
		total := *f.n + fixed - len(c18scripts)
		for k := 0; k < total; k++ {
			var pl planned
			if k < fixed {
				pl = plan[k]
			} else if k%48 == 0 {
				// a random history also through the child-process route
				pl.spec, pl.child = "-", 1+(k/48)%2
			}
			fr := r.fork()
			state := fr.s
			res := c18run(fr, limits, stats, pl.opt)
			if pl.spec != "" && res.clean {
				o.emit(c18childObserve(state, pl.spec, res, pl.child == 1, stats), "ok")
			}
			if res.req != "" {
				o.emit(res.req, res.resp)
				o.emit(res.mainReq, res.mainResp)
			}
			o.emit(res.acceptReq, "ok")
			if res.maxReq != "" {
				o.emit(res.maxReq, res.maxResp)
			}
			classes[res.class]++
			n := strings.Count(res.acceptReq, " ")
			switch {
			case n < 40:
				sizes["tokens<40"]++
			case n < 150:
				sizes["tokens<150"]++
			case n < 400:
				sizes["tokens<400"]++
			default:
				sizes["tokens>=400"]++
			}
		}
		return writeJSON(*f.stats, map[string]any{"histories": total, "outcome_classes": classes, "generator": stats, "request_sizes": sizes})
	})
}
