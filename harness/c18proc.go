package main

import (
	"flag"
	"fmt"
	"io"
	"os"
	"os/exec"
	"path/filepath"
	"strconv"
	"strings"

	"github.com/mmcloughlin/avo/build"
	"github.com/mmcloughlin/avo/reg"
)

// C18, the process.  The property's "non-zero status" is the exit status of the
// generator process: build.Generate() hands Main's result to os.Exit, and the
// operating system keeps its low 8 bits.  Three things here:
//
//   - c18exitchild: os.Exit(k) in a child, for a fixed list of k: the measured
//     side of the model's exitCode (request c18exit);
//   - the `child` route: this binary once more (subcommand c18child) rebuilds a
//     history from the same generator state and ends in build.Generate() with
//     -out/-stubs/-log files; the parent reads the real exit code and the files;
//   - long histories with k builder-time faults for k around every multiple of
//     256 up to 1024, all the same fault or a mix of kinds.

func c18limits() map[int]int {
	limits := map[int]int{}
	for _, k := range []reg.Kind{reg.KindGP, reg.KindVector, reg.KindOpmask} {
		ids := map[reg.ID]bool{}
		for _, p := range reg.FamilyOfKind(k).Registers() {
			if p.Info()&reg.Restricted == 0 {
				ids[p.ID()] = true
			}
		}
		limits[int(k)] = len(ids)
	}
	return limits
}

// ---- long histories

var c18longKs = []int{255, 256, 257, 511, 512, 513, 767, 768, 769, 1023, 1024, 1025}

// c18longScript: a history with exactly k builder-time faults.
// same: Function; k times an instruction whose operands match no form (the body of an unrolled loop); RET.
// mixed: the fault kinds in rotation, valid requests in between.
func c18longScript(kind string, k int) func(h *c18hist) {
	return func(h *c18hist) {
		h.scriptFn(nil)
		h.genInstr("ADDQ", true, []string{"imm8", "r64"}, "")
		switch kind {
		case "same":
			for i := 0; i < k; i++ {
				h.genInstr("ADDQ", false, []string{"r64", "imm8"}, "")
			}
		default:
			h.scriptGlob()
			h.scriptDatum(0, 8)
			for i := 0; i < k; i++ {
				switch i % 8 {
				case 0:
					h.genInstr("PXOR", false, []string{"r64", "xmm"}, "")
				case 1:
					h.op("sigbad")
					h.call("SignatureExpr", func() { h.a.SignatureExpr("func(x int") })
				case 2:
					h.scriptDatum(4, 4) // overlaps the first datum
				case 3:
					h.scriptCons(i%3, [][]string{{"linux"}, {"a-b"}})
				case 4:
					h.scriptRootName(false, "nope", c18comp{})
					h.loadStoreSlot(len(h.comps)-1, c18comp{&c18ty{k: "uint", size: 8}, false}, false)
				case 5:
					h.op("impl", "g")
					h.call("Implement", func() {
						if h.a.pkg {
							build.Implement("g")
						} else {
							h.a.c.Implement("g")
						}
					})
				case 6:
					h.scriptDatum(-1-i, 4)
				default:
					h.scriptRootIdx(true, 3+i)
					h.loadStoreSlot(len(h.comps)-1, c18comp{&c18ty{k: "uint", size: 8}, false}, false)
				}
				if i%5 == 0 {
					h.genInstr("NOP", true, nil, "")
				}
			}
		}
		h.genInstr("RET", true, nil, "")
		h.stats[fmt.Sprintf("long_%s_%d", kind, k)]++
	}
}

func c18scriptBySpec(spec string) func(h *c18hist) {
	p := strings.Split(spec, ":")
	if len(p) == 3 && p[0] == "long" {
		k, err := strconv.Atoi(p[2])
		if err != nil {
			panic("harness: script spec " + spec)
		}
		return c18longScript(p[1], k)
	}
	if spec == "-" {
		return nil
	}
	panic("harness: script spec " + spec)
}

// ---- the child process

type c18childConfig struct {
	dir       string
	allErrors bool
}

var c18childCfg *c18childConfig

func c18childFiles(dir string) []string {
	return []string{filepath.Join(dir, "child-out.s"), filepath.Join(dir, "child-stubs.go"), filepath.Join(dir, "child-log.txt")}
}

// c18childGenerate (in the child): the context holds the history; what an avo
// program does last: build.Generate() — flag.Parse of os.Args, Flags.Config(),
// Main, os.Exit(status) unless 0.
func c18childGenerate(ctx *build.Context) {
	n := c18childFiles(c18childCfg.dir)
	args := []string{"gen", "-out", n[0], "-stubs", n[1], "-log", n[2], "-pkg", "p"}
	if c18childCfg.allErrors {
		args = append(args, "-e")
	}
	build.VerifSwapContext(ctx)
	os.Args = args
	flag.CommandLine.SetOutput(io.Discard)
	build.Generate()
	os.Exit(0) // Generate returned: success
}

// c18childObserve (in the parent): run the history again in a child that ends in
// build.Generate() and judge what the operating system and the file system show.
func c18childObserve(state uint64, spec string, res c18result, allErrors bool, stats map[string]int) (req string) {
	self, err := os.Executable()
	if err != nil {
		panic("harness: " + err.Error())
	}
	names := c18childFiles(c18scratch)
	for _, n := range names {
		_ = os.Remove(n)
	}
	cmd := exec.Command(self, "c18child", strconv.FormatUint(state, 10), c18bit(res.api == "pkg"), spec, c18scratch, c18bit(allErrors))
	var se strings.Builder
	cmd.Stderr = &se
	status := 0
	if err := cmd.Run(); err != nil {
		ee, ok := err.(*exec.ExitError)
		if !ok {
			panic("harness: c18child: " + err.Error())
		}
		status = ee.ExitCode()
	}
	if status < 0 || strings.Contains(se.String(), "C18CHILD-HARNESS") {
		panic("harness: c18child: " + se.String())
	}
	size := func(n string) int {
		fi, err := os.Stat(n)
		if err != nil {
			return 0
		}
		return int(fi.Size())
	}
	logText, _ := os.ReadFile(names[2])
	diag := string(logText)
	mx := 0
	if !allErrors {
		mx = 10
	}
	logged := res.msgs
	if mx > 0 && len(logged) > mx {
		logged = logged[:mx]
	}
	lines := strings.Count(diag, "\n")
	for _, m := range logged {
		lines -= strings.Count(m, "\n")
	}
	perr := "-"
	if res.errs == 0 && status != 0 {
		perr = c18classifyPass(diag)
	}
	route := res.api + ".child"
	if mx > 0 {
		route += fmt.Sprintf(".mx%d", mx)
	}
	stats["child_runs"]++
	if status != 0 {
		stats["child_exit_nonzero"]++
	} else {
		stats["child_exit_zero"]++
	}
	if mx > 0 {
		stats["child_limit10"]++
	}
	obs := fmt.Sprintf("errs=%d status=%d asm=%d stubs=%d diag=%d panics=0 pat=- perr=%s", res.errs, status, size(names[0]), size(names[1]), lines, perr)
	hdr := append([]string{"route=" + route}, res.hdrRest...)
	return "accept-c18 " + obs + " " + strings.Join(append(hdr, res.toks...), " ")
}

// c18exitCodes: what the operating system reports for os.Exit(k), measured.
var c18exitKs = []int{0, 1, 2, 10, 255, 256, 257, 511, 512, 768, 1000, 1024, 65536, 65537, -1, -256, 1 << 31}

func c18measureExit(k int) int {
	self, err := os.Executable()
	if err != nil {
		panic("harness: " + err.Error())
	}
	err = exec.Command(self, "c18exitchild", strconv.Itoa(k)).Run()
	if err == nil {
		return 0
	}
	if ee, ok := err.(*exec.ExitError); ok && ee.ExitCode() >= 0 {
		return ee.ExitCode()
	}
	panic("harness: c18exitchild: " + err.Error())
}

func init() {
	register("c18exitchild", "os.Exit(k) (child of c18: the measured side of the model's exit code)", func(args []string) error {
		k, err := strconv.Atoi(args[0])
		if err != nil {
			os.Exit(97)
		}
		os.Exit(k)
		return nil
	})
	register("c18child", "child process of the c18 `child` route: the history once more, then build.Generate()", func(args []string) error {
		// usage: c18child <generator state> <pkg 0|1> <script spec> <scratch dir> <-e 0|1>; a harness problem: exit status 97 and C18CHILD-HARNESS on stderr
		defer func() {
			if e := recover(); e != nil {
				fmt.Fprintln(os.Stderr, "C18CHILD-HARNESS", e)
				os.Exit(97)
			}
		}()
		if len(args) != 5 {
			panic("usage")
		}
		state, err := strconv.ParseUint(args[0], 10, 64)
		if err != nil {
			panic(err)
		}
		c18childCfg = &c18childConfig{dir: args[3], allErrors: args[4] == "1"}
		c18run(&rng{s: state}, c18limits(), map[string]int{}, c18opt{script: c18scriptBySpec(args[2]), pkg: args[1] == "1"})
		panic("c18run returned in the child")
	})
}
