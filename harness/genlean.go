package main

import (
	"fmt"
	"go/ast"
	"go/parser"
	"go/token"
	"os"
	"path/filepath"
	"strconv"
	"strings"

	"github.com/mmcloughlin/avo/attr"
)

// gen-lean: the translator from /repo sources (and toolchain headers) to Lean
// definitions.  It emits data only, never proofs.

var genLean = map[string]func(repo string) (string, error){}

func init() {
	register("gen-lean", "gen-lean <name> [repo]: emit AvoVerif/Gen or Oracle module <name> on stdout", func(args []string) error {
		if len(args) < 1 {
			return fmt.Errorf("need a module name")
		}
		repo := "/repo"
		if len(args) > 1 {
			repo = args[1]
		}
		g, ok := genLean[args[0]]
		if !ok {
			return fmt.Errorf("unknown module %q", args[0])
		}
		s, err := g(repo)
		if err != nil {
			return err
		}
		fmt.Print(s)
		return nil
	})
}

func leanStr(s string) string {
	var b strings.Builder
	b.WriteByte('"')
	for _, r := range s {
		switch {
		case r == '"':
			b.WriteString("\\\"")
		case r == '\\':
			b.WriteString("\\\\")
		case r == '\n':
			b.WriteString("\\n")
		case r == '\t':
			b.WriteString("\\t")
		case r < 0x20 || r == 0x7f:
			fmt.Fprintf(&b, "\\x%02x", r)
		default:
			b.WriteRune(r)
		}
	}
	b.WriteByte('"')
	return b.String()
}

func leanStrList(xs []string) string {
	q := make([]string, len(xs))
	for i, x := range xs {
		q[i] = leanStr(x)
	}
	return "[" + strings.Join(q, ", ") + "]"
}

func leanBool(b bool) string {
	if b {
		return "true"
	}
	return "false"
}

func parseFile(path string) (*token.FileSet, *ast.File, error) {
	fset := token.NewFileSet()
	f, err := parser.ParseFile(fset, path, nil, parser.ParseComments)
	return fset, f, err
}

// constBlockInts evaluates the integer constants of a file's const blocks:
// explicit literals, `1 << iota`, `iota` and implicit repetition.
func constBlockInts(f *ast.File) (names []string, vals map[string]int64) {
	vals = map[string]int64{}
	for _, d := range f.Decls {
		gd, ok := d.(*ast.GenDecl)
		if !ok || gd.Tok != token.CONST {
			continue
		}
		var last ast.Expr
		for iota, sp := range gd.Specs {
			vs := sp.(*ast.ValueSpec)
			var e ast.Expr
			if len(vs.Values) > 0 {
				e = vs.Values[0]
				last = e
			} else {
				e = last
			}
			if e == nil {
				continue
			}
			v, ok := evalConst(e, int64(iota), vals)
			if !ok {
				continue
			}
			for _, n := range vs.Names {
				names = append(names, n.Name)
				vals[n.Name] = v
			}
		}
	}
	return
}

func evalConst(e ast.Expr, iota int64, env map[string]int64) (int64, bool) {
	switch x := e.(type) {
	case *ast.BasicLit:
		if x.Kind == token.INT {
			v, err := strconv.ParseInt(x.Value, 0, 64)
			return v, err == nil
		}
	case *ast.Ident:
		if x.Name == "iota" {
			return iota, true
		}
		v, ok := env[x.Name]
		return v, ok
	case *ast.ParenExpr:
		return evalConst(x.X, iota, env)
	case *ast.CallExpr: // conversion T(x)
		if len(x.Args) == 1 {
			return evalConst(x.Args[0], iota, env)
		}
	case *ast.BinaryExpr:
		a, ok1 := evalConst(x.X, iota, env)
		b, ok2 := evalConst(x.Y, iota, env)
		if !ok1 || !ok2 {
			return 0, false
		}
		switch x.Op {
		case token.SHL:
			return a << uint(b), true
		case token.OR:
			return a | b, true
		case token.ADD:
			return a + b, true
		case token.SUB:
			return a - b, true
		case token.MUL:
			return a * b, true
		}
	}
	return 0, false
}

func init() {
	// Gen.TextFlags: the attribute-name table, obtained BEHAVIOURALLY from the compiled attr package (the harness
	// is built against the repo's working tree through the module replace): attr.Attribute(1<<i).Asm() for every
	// bit i of the 16-bit attribute word.  A bit without a name is printed as its decimal value; anything else is
	// the flag's name.  No source text of avo is parsed, so moving, renaming or re-shaping the table (init
	// function, switch, slice, generated differently, ...) cannot break the extraction.
	//   textflagConsts : (name, value) per named bit        attrname : (value, name) per named bit
	genLean["TextFlags"] = func(repo string) (string, error) {
		var consts, entries []string
		for i := 0; i < 16; i++ {
			v := attr.Attribute(1) << uint(i)
			s, err := textFlagName(v)
			if err != nil {
				return "", err
			}
			if s == "" {
				continue
			}
			consts = append(consts, fmt.Sprintf("(%s, %d)", leanStr(s), int(v)))
			entries = append(entries, fmt.Sprintf("(%d, %s)", int(v), leanStr(s)))
		}
		if entries == nil {
			return "", fmt.Errorf("attr.Attribute(1<<i).Asm() names no bit at all")
		}
		var b strings.Builder
		b.WriteString("-- REGENERATED from the compiled attr package (attr.Attribute(1<<i).Asm(), i < 16) by avoh gen-lean TextFlags. Do not edit.\nnamespace Avo.Gen\n")
		fmt.Fprintf(&b, "def textflagConsts : List (String × Nat) := [%s]\n", strings.Join(consts, ", "))
		fmt.Fprintf(&b, "def attrname : List (Nat × String) := [%s]\n", strings.Join(entries, ", "))
		b.WriteString("end Avo.Gen\n")
		return b.String(), nil
	}

	// Oracle.TextFlagH: macro values of the installed toolchain's textflag.h.
	genLean["TextFlagH"] = func(repo string) (string, error) {
		path := filepath.Join(goroot(), "pkg", "include", "textflag.h")
		data, err := os.ReadFile(path)
		if err != nil {
			return "", err
		}
		var entries []string
		for _, line := range strings.Split(string(data), "\n") {
			fs := strings.Fields(line)
			if len(fs) >= 3 && fs[0] == "#define" {
				v, err := strconv.ParseInt(fs[2], 0, 64)
				if err != nil {
					continue
				}
				entries = append(entries, fmt.Sprintf("(%s, %d)", leanStr(fs[1]), v))
			}
		}
		if len(entries) == 0 {
			return "", fmt.Errorf("no macros found in %s", path)
		}
		return "-- MEASURED from " + path + " by avoh gen-lean TextFlagH. Do not edit.\nnamespace Avo.Oracle\n" +
			"def textflagH : List (String × Nat) := [" + strings.Join(entries, ", ") + "]\nend Avo.Oracle\n", nil
	}
}

// textFlagName is the name the real attr package prints for the single-bit attribute v ("" when the bit has no
// name and is printed numerically); a panic of the real code is an extraction error.
func textFlagName(v attr.Attribute) (name string, err error) {
	defer func() {
		if e := recover(); e != nil {
			name, err = "", fmt.Errorf("attr.Attribute(%d).Asm() panicked: %v", int(v), e)
		}
	}()
	s := v.Asm()
	if s == strconv.Itoa(int(v)) {
		return "", nil
	}
	if s == "" || strings.ContainsAny(s, "|\n") {
		return "", fmt.Errorf("attr.Attribute(%d).Asm() = %q: neither a decimal value nor a single flag name", int(v), s)
	}
	return s, nil
}
