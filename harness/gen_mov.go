package main

import (
	"fmt"
	"go/ast"
	"go/token"
	"go/types"
	"path/filepath"
	"strconv"
	"strings"
)

// gen-lean Mov: build/zmov.go's first-match switch as structured rows, in
// source order, plus the default branch and the table of basic Go types
// (go/types flags and gc/amd64 sizes as avo's gotypes package sees them).

type movCase struct {
	An, Bn   int
	PredA    string // operand.IsX applied to a
	PredB    string
	Mask     int64
	Op       string // "!=" or "=="
	Value    int64
	Opcode   string // method called on c
	Args     []string
	Recv     string
	Line     int
	CondText string
}

type movAST struct {
	Cases      []movCase
	Params     []string // a, b, an, bn, t
	DefaultFn  string   // method called in the default branch
	DefaultMsg string
}

var typeInfoConsts = map[string]int64{
	"IsBoolean": int64(types.IsBoolean), "IsInteger": int64(types.IsInteger), "IsUnsigned": int64(types.IsUnsigned),
	"IsFloat": int64(types.IsFloat), "IsComplex": int64(types.IsComplex), "IsString": int64(types.IsString),
	"IsUntyped": int64(types.IsUntyped), "IsOrdered": int64(types.IsOrdered), "IsNumeric": int64(types.IsNumeric),
	"IsConstType": int64(types.IsConstType),
}

// typesExpr evaluates an expression over types.IsX constants, | and integer literals.
func typesExpr(e ast.Expr) (int64, error) {
	switch x := e.(type) {
	case *ast.ParenExpr:
		return typesExpr(x.X)
	case *ast.BasicLit:
		if x.Kind == token.INT {
			return strconv.ParseInt(x.Value, 0, 64)
		}
	case *ast.SelectorExpr:
		if p, ok := x.X.(*ast.Ident); ok && p.Name == "types" {
			if v, ok := typeInfoConsts[x.Sel.Name]; ok {
				return v, nil
			}
		}
	case *ast.BinaryExpr:
		if x.Op == token.OR {
			a, err := typesExpr(x.X)
			if err != nil {
				return 0, err
			}
			b, err := typesExpr(x.Y)
			if err != nil {
				return 0, err
			}
			return a | b, nil
		}
	}
	return 0, fmt.Errorf("unrecognised type-info expression")
}

func flattenAnd(e ast.Expr, out *[]ast.Expr) {
	if b, ok := e.(*ast.BinaryExpr); ok && b.Op == token.LAND {
		flattenAnd(b.X, out)
		flattenAnd(b.Y, out)
		return
	}
	*out = append(*out, e)
}

func parseMov(repo string) (*movAST, error) {
	path := filepath.Join(repo, "build", "zmov.go")
	fset, f, err := parseFile(path)
	if err != nil {
		return nil, err
	}
	fd := findFunc(f, "Context", "mov")
	if fd == nil || fd.Body == nil {
		return nil, fmt.Errorf("func (c *Context) mov not found")
	}
	m := &movAST{}
	for _, fld := range fd.Type.Params.List {
		for _, n := range fld.Names {
			m.Params = append(m.Params, n.Name)
		}
	}
	if strings.Join(m.Params, ",") != "a,b,an,bn,t" {
		return nil, fmt.Errorf("mov: unexpected parameter list %v", m.Params)
	}
	recv := fd.Recv.List[0].Names[0].Name
	// statements before the switch may only name `t.Info()` (info := t.Info()); the names are aliases of it
	infoAlias := map[string]bool{}
	isInfoCall := func(e ast.Expr) bool {
		for {
			p, ok := e.(*ast.ParenExpr)
			if !ok {
				break
			}
			e = p.X
		}
		if id, ok := e.(*ast.Ident); ok {
			return infoAlias[id.Name]
		}
		ic, ok := e.(*ast.CallExpr)
		if !ok || len(ic.Args) != 0 {
			return false
		}
		isel, ok := ic.Fun.(*ast.SelectorExpr)
		if !ok || isel.Sel.Name != "Info" {
			return false
		}
		tv, ok := isel.X.(*ast.Ident)
		return ok && tv.Name == "t"
	}
	body := fd.Body.List
	for len(body) > 1 {
		as, ok := body[0].(*ast.AssignStmt)
		if !ok || len(as.Lhs) != 1 || len(as.Rhs) != 1 || !isInfoCall(as.Rhs[0]) {
			return nil, fmt.Errorf("mov: statement before the switch is not `name := t.Info()`")
		}
		id, ok := as.Lhs[0].(*ast.Ident)
		if !ok {
			return nil, fmt.Errorf("mov: statement before the switch is not `name := t.Info()`")
		}
		infoAlias[id.Name] = true
		body = body[1:]
	}
	if len(body) != 1 {
		return nil, fmt.Errorf("mov: body is not a single switch")
	}
	sw, ok := body[0].(*ast.SwitchStmt)
	if !ok || sw.Tag != nil || sw.Init != nil {
		return nil, fmt.Errorf("mov: body is not a tagless switch")
	}
	sawDefault := false
	for ci, st := range sw.Body.List {
		cc := st.(*ast.CaseClause)
		line := fset.Position(cc.Pos()).Line
		if len(cc.Body) != 1 {
			return nil, fmt.Errorf("zmov.go:%d: case body is not a single statement", line)
		}
		es, ok := cc.Body[0].(*ast.ExprStmt)
		if !ok {
			return nil, fmt.Errorf("zmov.go:%d: case body is not a call", line)
		}
		call, ok := es.X.(*ast.CallExpr)
		if !ok {
			return nil, fmt.Errorf("zmov.go:%d: case body is not a call", line)
		}
		sel, ok := call.Fun.(*ast.SelectorExpr)
		if !ok {
			return nil, fmt.Errorf("zmov.go:%d: callee", line)
		}
		rx, ok := sel.X.(*ast.Ident)
		if !ok || rx.Name != recv {
			return nil, fmt.Errorf("zmov.go:%d: call is not on the receiver", line)
		}
		if cc.List == nil {
			if ci != len(sw.Body.List)-1 {
				// a default clause elsewhere is still evaluated last by Go; record it all the same
			}
			sawDefault = true
			m.DefaultFn = sel.Sel.Name
			if len(call.Args) == 1 {
				if bl, ok := call.Args[0].(*ast.BasicLit); ok && bl.Kind == token.STRING {
					m.DefaultMsg, _ = strconv.Unquote(bl.Value)
				}
			}
			continue
		}
		// `case A, B:` is `case A:` followed by `case B:` with the same body
		for _, caseExpr := range cc.List {
			c := movCase{Line: line, Recv: rx.Name, Opcode: sel.Sel.Name, An: -1, Bn: -1}
			for _, a := range call.Args {
				id, ok := a.(*ast.Ident)
				if !ok {
					return nil, fmt.Errorf("zmov.go:%d: non-identifier argument", line)
				}
				c.Args = append(c.Args, id.Name)
			}
			var conj []ast.Expr
			flattenAnd(caseExpr, &conj)
			seenT := false
			for _, e := range conj {
				for {
					p, ok := e.(*ast.ParenExpr)
					if !ok {
						break
					}
					e = p.X
				}
				switch x := e.(type) {
				case *ast.BinaryExpr:
					// an == N | bn == N | (t.Info() & M) op V   (either operand order)
					if id, ok := x.Y.(*ast.Ident); ok && x.Op == token.EQL && (id.Name == "an" || id.Name == "bn") {
						x = &ast.BinaryExpr{X: x.Y, Op: x.Op, Y: x.X}
					}
					if id, ok := x.X.(*ast.Ident); ok && x.Op == token.EQL && (id.Name == "an" || id.Name == "bn") {
						bl, ok := x.Y.(*ast.BasicLit)
						if !ok {
							return nil, fmt.Errorf("zmov.go:%d: size comparison", line)
						}
						v, err := strconv.Atoi(bl.Value)
						if err != nil {
							return nil, err
						}
						if id.Name == "an" {
							if c.An >= 0 {
								return nil, fmt.Errorf("zmov.go:%d: an compared twice", line)
							}
							c.An = v
						} else {
							if c.Bn >= 0 {
								return nil, fmt.Errorf("zmov.go:%d: bn compared twice", line)
							}
							c.Bn = v
						}
						continue
					}
					if x.Op != token.NEQ && x.Op != token.EQL {
						return nil, fmt.Errorf("zmov.go:%d: unrecognised comparison", line)
					}
					unparen := func(e ast.Expr) ast.Expr {
						for {
							p, ok := e.(*ast.ParenExpr)
							if !ok {
								return e
							}
							e = p.X
						}
					}
					lhs, rhs := unparen(x.X), x.Y
					and, ok := lhs.(*ast.BinaryExpr)
					if !ok || and.Op != token.AND {
						// V op (t.Info() & M)
						lhs, rhs = unparen(x.Y), x.X
						and, ok = lhs.(*ast.BinaryExpr)
					}
					if !ok || and.Op != token.AND {
						return nil, fmt.Errorf("zmov.go:%d: unrecognised type condition", line)
					}
					infoSide, maskSide := and.X, and.Y
					if !isInfoCall(infoSide) {
						infoSide, maskSide = and.Y, and.X
					}
					if !isInfoCall(infoSide) {
						return nil, fmt.Errorf("zmov.go:%d: type condition is not on t.Info()", line)
					}
					if seenT {
						return nil, fmt.Errorf("zmov.go:%d: two type conditions", line)
					}
					seenT = true
					if c.Mask, err = typesExpr(maskSide); err != nil {
						return nil, fmt.Errorf("zmov.go:%d: %v", line, err)
					}
					if c.Value, err = typesExpr(rhs); err != nil {
						return nil, fmt.Errorf("zmov.go:%d: %v", line, err)
					}
					c.Op = x.Op.String()
				case *ast.CallExpr:
					s, ok := x.Fun.(*ast.SelectorExpr)
					if !ok || len(x.Args) != 1 {
						return nil, fmt.Errorf("zmov.go:%d: unrecognised predicate", line)
					}
					if p, ok := s.X.(*ast.Ident); !ok || p.Name != "operand" {
						return nil, fmt.Errorf("zmov.go:%d: predicate is not from package operand", line)
					}
					arg, ok := x.Args[0].(*ast.Ident)
					if !ok {
						return nil, fmt.Errorf("zmov.go:%d: predicate argument", line)
					}
					switch arg.Name {
					case "a":
						if c.PredA != "" {
							return nil, fmt.Errorf("zmov.go:%d: two predicates on a", line)
						}
						c.PredA = s.Sel.Name
					case "b":
						if c.PredB != "" {
							return nil, fmt.Errorf("zmov.go:%d: two predicates on b", line)
						}
						c.PredB = s.Sel.Name
					default:
						return nil, fmt.Errorf("zmov.go:%d: predicate on %s", line, arg.Name)
					}
				default:
					return nil, fmt.Errorf("zmov.go:%d: unrecognised conjunct", line)
				}
			}
			if c.An < 0 || c.Bn < 0 || c.PredA == "" || c.PredB == "" || !seenT {
				return nil, fmt.Errorf("zmov.go:%d: case does not have the five expected conjuncts", line)
			}
			m.Cases = append(m.Cases, c)
		}
	}
	if !sawDefault {
		m.DefaultFn = ""
	}
	return m, nil
}

// basicGoTypes lists every basic type a component can resolve to.
func basicGoTypes() []*types.Basic {
	var out []*types.Basic
	for _, k := range []types.BasicKind{types.Bool, types.Int, types.Int8, types.Int16, types.Int32, types.Int64,
		types.Uint, types.Uint8, types.Uint16, types.Uint32, types.Uint64, types.Uintptr, types.Float32, types.Float64,
		types.UnsafePointer} {
		out = append(out, types.Typ[k])
	}
	return out
}

// movSizes: the sizes of the gc compiler on amd64 as go/types knows them — an
// independent source (NOT avo's gotypes.Sizes, which is under test).
var movSizes = types.SizesFor("gc", "amd64")

func init() {
	genLean["Mov"] = func(repo string) (string, error) {
		// (1) behaviour: the REAL Context.Load / Context.Store run over the complete class-level domain
		tab, err := c08Tabulate()
		if err != nil {
			return "", err
		}
		// (2) the source of build/zmov.go as rows — a cross-check only: when the extractor does not recognise the
		// shape of the (generated) file the rows are empty, movAstOK is false and the theorems about the rows are
		// vacuous; the property theorems are about the behaviour table
		m, astErr := parseMov(repo)
		if astErr != nil {
			m = &movAST{}
		}
		var b strings.Builder
		b.WriteString("-- REGENERATED by avoh gen-lean Mov. movTab: outcomes of the real Context.Load/Store over the class-level domain (behaviour);\n")
		b.WriteString("-- mov: the cases of Context.mov in build/zmov.go in source order (go/ast, cross-check only). Do not edit.\n")
		b.WriteString("import AvoVerif.Model.Mov\nset_option maxRecDepth 1000000\nnamespace Avo.Gen\nopen Avo.Mov\n")
		if astErr != nil {
			fmt.Fprintf(&b, "/- go/ast extraction of build/zmov.go not possible: %s -/\n", strings.NewReplacer("-/", "- /", "/-", "/ -").Replace(astErr.Error()))
		}
		fmt.Fprintf(&b, "def movAstOK : Bool := %s\n", leanBool(astErr == nil))
		b.WriteString("def mov : List MovRow := [")
		for i, c := range m.Cases {
			if i > 0 {
				b.WriteString(",")
			}
			op := 0
			if c.Op == "==" {
				op = 1
			}
			inOrder := len(c.Args) == 2 && c.Args[0] == "a" && c.Args[1] == "b"
			fmt.Fprintf(&b, "\n  ⟨%d, %s, %d, %s, %d, %d, %d, %s, %s⟩ /- %s -/", c.An, encName(c.PredA), c.Bn, encName(c.PredB), c.Mask, op, c.Value, encName(c.Opcode), leanBool(inOrder), c.Opcode)
		}
		b.WriteString("]\n")
		// basic types: flags from go/types, sizes from go/types' own gc/amd64 table
		b.WriteString("/-- basic Go types: (name, go/types Info flags, gc/amd64 size by go/types.SizesFor) -/\ndef basicTypes : List (Nat × Nat × Nat) := [")
		for i, t := range basicGoTypes() {
			if i > 0 {
				b.WriteString(", ")
			}
			fmt.Fprintf(&b, "(%s, %d, %d)", encName(t.Name()), int64(t.Info()), movSizes.Sizeof(t))
		}
		b.WriteString("]\n")
		fmt.Fprintf(&b, "def tIsBoolean : Nat := %d\ndef tIsInteger : Nat := %d\ndef tIsUnsigned : Nat := %d\ndef tIsFloat : Nat := %d\n", types.IsBoolean, types.IsInteger, types.IsUnsigned, types.IsFloat)
		b.WriteString("/-- behaviour of Context.Load (dir 0) / Context.Store (dir 1): type flags, type size, register kind, size, byte-lane mask,\nkind of the address base register (0 = FP pseudo register, 1 = general purpose), outcome (none = error recorded, no instruction) -/\n")
		b.WriteString("def movTab : List TabGroup := [")
		gkey := ""
		for _, r := range tab {
			out := "none"
			if r.outcome != "" {
				out = "some " + encName(r.outcome)
			}
			if k := fmt.Sprintf("%d %s", r.dir, r.tname); k != gkey {
				if gkey != "" {
					b.WriteString("]⟩,")
				}
				gkey = k
				fmt.Fprintf(&b, "\n ⟨%d, %d, %d, [", r.dir, r.tinfo, r.tsize)
			} else {
				b.WriteString(",")
			}
			fmt.Fprintf(&b, "\n  ⟨%d, %d, %d, %d, %s⟩ /- %s -/", r.rkind, r.rsize, r.rmask, r.mbase, out, r.note)
		}
		if gkey != "" {
			b.WriteString("]⟩")
		}
		b.WriteString("]\nend Avo.Gen\n")
		return b.String(), nil
	}
}
