package main

import (
	"fmt"
	"go/ast"
	"go/token"
	"path/filepath"
	"sort"
	"strconv"
	"strings"
)

// gen-lean Consts: per constant type of operand/zconst.go and operand/const.go
// the underlying Go type, the format verb of Asm() and Bytes(); the bit size
// the float types pass to asmfloat, and asmfloat's FormatFloat arguments.
func init() {
	genLean["Consts"] = func(repo string) (string, error) {
		type row struct {
			name, under, verb, bytes string
		}
		rows := map[string]*row{}
		get := func(n string) *row {
			if rows[n] == nil {
				rows[n] = &row{name: n}
			}
			return rows[n]
		}
		floatBits := map[string][]string{}
		floatGuard := map[string][]string{}
		var fmtChar, fmtPrec, fmtBitsArg, suffix string
		for _, file := range []string{"zconst.go", "const.go"} {
			_, f, err := parseFile(filepath.Join(repo, "operand", file))
			if err != nil {
				return "", err
			}
			for _, d := range f.Decls {
				switch d := d.(type) {
				case *ast.GenDecl:
					if d.Tok != token.TYPE {
						continue
					}
					for _, sp := range d.Specs {
						ts := sp.(*ast.TypeSpec)
						if id, ok := ts.Type.(*ast.Ident); ok {
							get(ts.Name.Name).under = id.Name
						}
					}
				case *ast.FuncDecl:
					if d.Recv == nil || len(d.Recv.List) != 1 {
						if d.Name.Name == "asmfloat" {
							ast.Inspect(d.Body, func(n ast.Node) bool {
								switch x := n.(type) {
								case *ast.CallExpr:
									if sel, ok := x.Fun.(*ast.SelectorExpr); ok && sel.Sel.Name == "FormatFloat" && len(x.Args) == 4 {
										if bl, ok := x.Args[1].(*ast.BasicLit); ok {
											fmtChar = bl.Value
										}
										fmtPrec = c13exprString(x.Args[2])
										fmtBitsArg = c13exprString(x.Args[3])
									}
								case *ast.AssignStmt:
									if x.Tok == token.ADD_ASSIGN && len(x.Rhs) == 1 {
										if bl, ok := x.Rhs[0].(*ast.BasicLit); ok {
											suffix = bl.Value
										}
									}
								}
								return true
							})
						}
						continue
					}
					recvT, ok := d.Recv.List[0].Type.(*ast.Ident)
					if !ok || d.Body == nil {
						continue
					}
					if d.Name.Name == "String" {
						// every asmfloat(…, bits) call in order, and the guard of a fallback if there is one
						ast.Inspect(d.Body, func(n ast.Node) bool {
							switch x := n.(type) {
							case *ast.CallExpr:
								if id, ok := x.Fun.(*ast.Ident); ok && id.Name == "asmfloat" && len(x.Args) == 2 {
									floatBits[recvT.Name] = append(floatBits[recvT.Name], c13exprString(x.Args[1]))
								}
							case *ast.IfStmt:
								g := c13exprString(x.Cond)
								if as, ok := x.Init.(*ast.AssignStmt); ok && len(as.Rhs) == 1 {
									g = c13exprString(as.Rhs[0]) + ";" + g
								}
								floatGuard[recvT.Name] = append(floatGuard[recvT.Name], g)
							}
							return true
						})
						continue
					}
					if len(d.Body.List) != 1 {
						continue
					}
					ret, ok := d.Body.List[0].(*ast.ReturnStmt)
					if !ok || len(ret.Results) != 1 {
						continue
					}
					switch d.Name.Name {
					case "Asm":
						if call, ok := ret.Results[0].(*ast.CallExpr); ok && len(call.Args) >= 1 {
							if bl, ok := call.Args[0].(*ast.BasicLit); ok && bl.Kind == token.STRING {
								s, _ := strconv.Unquote(bl.Value)
								get(recvT.Name).verb = s
							}
						}
					case "Bytes":
						get(recvT.Name).bytes = c13exprString(ret.Results[0])
					}
				}
			}
		}
		var names []string
		for n, r := range rows {
			if r.verb != "" { // constant types only
				names = append(names, n)
			}
		}
		sort.Strings(names)
		if len(names) == 0 {
			return "", fmt.Errorf("no constant types found")
		}
		var b strings.Builder
		b.WriteString("-- REGENERATED from operand/zconst.go and operand/const.go by avoh gen-lean Consts. Do not edit.\nnamespace Avo.Gen\n")
		b.WriteString("/-- (type, underlying Go type, Asm() format, Bytes() expression) -/\n")
		b.WriteString("def constTable : List (String × String × String × String) := [\n")
		for i, n := range names {
			r := rows[n]
			sep := ","
			if i == len(names)-1 {
				sep = ""
			}
			fmt.Fprintf(&b, "  (%s, %s, %s, %s)%s\n", leanStr(r.name), leanStr(r.under), leanStr(r.verb), leanStr(r.bytes), sep)
		}
		b.WriteString("]\n")
		var fb []string
		for _, n := range []string{"F32", "F64"} {
			fb = append(fb, fmt.Sprintf("(%s, %s, %s)", leanStr(n), leanStrList(floatBits[n]), leanStrList(floatGuard[n])))
		}
		fmt.Fprintf(&b, "/-- per float type: the bit sizes passed to asmfloat inside String(), in order, and the guards (init;cond) of its if statements -/\ndef floatStringBits : List (String × List String × List String) := [%s]\n", strings.Join(fb, ", "))
		fmt.Fprintf(&b, "/-- strconv.FormatFloat(x, fmt, prec, bitSize) inside asmfloat, and the suffix added to integral values -/\n")
		fmt.Fprintf(&b, "def asmfloatFormat : String × String × String × String := (%s, %s, %s, %s)\n", leanStr(fmtChar), leanStr(fmtPrec), leanStr(fmtBitsArg), leanStr(suffix))
		b.WriteString("end Avo.Gen\n")
		return b.String(), nil
	}
}

func c13exprString(e ast.Expr) string {
	switch x := e.(type) {
	case *ast.BasicLit:
		return x.Value
	case *ast.Ident:
		return x.Name
	case *ast.UnaryExpr:
		return x.Op.String() + c13exprString(x.X)
	case *ast.CallExpr:
		var as []string
		for _, a := range x.Args {
			as = append(as, c13exprString(a))
		}
		return c13exprString(x.Fun) + "(" + strings.Join(as, ",") + ")"
	case *ast.SelectorExpr:
		return c13exprString(x.X) + "." + x.Sel.Name
	case *ast.BinaryExpr:
		return c13exprString(x.X) + x.Op.String() + c13exprString(x.Y)
	case *ast.ParenExpr:
		return "(" + c13exprString(x.X) + ")"
	}
	return "?"
}
