// Command avoh is the Go side of the avo verification machinery: it extracts
// tables from /repo (gen-lean ...), drives the real avo code on generated
// inputs and writes one request per line (ops file) together with the
// implementation's canonicalised response per line (impl file).
package main

import (
	"bufio"
	"flag"
	"fmt"
	"os"
	"sort"
)

type subcmd struct {
	name string
	help string
	run  func(args []string) error
}

var subcmds = map[string]*subcmd{}

func register(name, help string, run func(args []string) error) {
	subcmds[name] = &subcmd{name, help, run}
}

func main() {
	if len(os.Args) < 2 {
		usage()
		os.Exit(2)
	}
	sc, ok := subcmds[os.Args[1]]
	if !ok {
		usage()
		os.Exit(2)
	}
	if err := sc.run(os.Args[2:]); err != nil {
		fmt.Fprintf(os.Stderr, "avoh %s: %v\n", sc.name, err)
		os.Exit(3)
	}
}

func usage() {
	var names []string
	for n := range subcmds {
		names = append(names, n)
	}
	sort.Strings(names)
	fmt.Fprintln(os.Stderr, "usage: avoh <subcommand> [flags]")
	for _, n := range names {
		fmt.Fprintf(os.Stderr, "  %-14s %s\n", n, subcmds[n].help)
	}
}

// stdFlags are the flags shared by all differential subcommands.
type stdFlags struct {
	fs     *flag.FlagSet
	seed   *uint64
	n      *int
	ops    *string
	impl   *string
	stats  *string
	tier   *string
	repo   *string
	replay *string
}

func newStdFlags(name string) *stdFlags {
	fs := flag.NewFlagSet(name, flag.ContinueOnError)
	return &stdFlags{
		fs:     fs,
		seed:   fs.Uint64("seed", 1, "PRNG seed"),
		n:      fs.Int("n", 1000, "number of cases"),
		ops:    fs.String("ops", "ops.txt", "request lines output"),
		impl:   fs.String("impl", "impl.txt", "implementation responses output"),
		stats:  fs.String("stats", "stats.json", "input distribution output"),
		tier:   fs.String("tier", "quick", "quick|thorough"),
		repo:   fs.String("repo", "/repo", "path of the avo source tree"),
		replay: fs.String("replay", "", "file with request lines to replay instead of generating"),
	}
}

// out pairs the two output streams of a differential run.
type out struct {
	ops, impl *bufio.Writer
	fo, fi    *os.File
	count     int
}

func openOut(f *stdFlags) (*out, error) {
	fo, err := os.Create(*f.ops)
	if err != nil {
		return nil, err
	}
	fi, err := os.Create(*f.impl)
	if err != nil {
		return nil, err
	}
	return &out{ops: bufio.NewWriterSize(fo, 1<<20), impl: bufio.NewWriterSize(fi, 1<<20), fo: fo, fi: fi}, nil
}

// emit writes one request and the implementation's response.
func (o *out) emit(req, resp string) {
	o.ops.WriteString(req)
	o.ops.WriteByte('\n')
	o.impl.WriteString(resp)
	o.impl.WriteByte('\n')
	o.count++
}

func (o *out) close() {
	o.ops.Flush()
	o.impl.Flush()
	o.fo.Close()
	o.fi.Close()
}
