package main

import (
	"bufio"
	"encoding/hex"
	"fmt"
	"os"
	"path/filepath"
	"sort"
	"strings"
	"sync"
)

// C05: an accepted instruction assembles to exactly the operation and operands given.
func init() {
	register("c05", "operand text (model vs Asm()) and the assembler/decoder oracle on sampled instances of every form", func(args []string) error {
		f := newStdFlags("c05")
		dump := f.fs.String("dump", "", "write a TSV of every case (exploration)")
		work := f.fs.String("work", "", "scratch directory for assembler files (default: directory of -ops)")
		reps := f.fs.Int("reps", 0, "thorough: instances per form (default 5)")
		if err := f.fs.Parse(args); err != nil {
			return err
		}
		db, err := loadForms(*f.repo)
		if err != nil {
			return err
		}
		o, err := openOut(f)
		if err != nil {
			return err
		}
		defer o.close()
		c05InitCall(db)
		r := newRng(*f.seed)
		g := c05NewGen(r)
		dir := *work
		if dir == "" {
			dir = filepath.Join(filepath.Dir(*f.ops), "asm")
		}
		if err := os.MkdirAll(dir, 0o755); err != nil {
			return err
		}

		// ---- choose form rows
		var rows []*formRow
		var replayed []*c05Case
		var replayedClass []c05ClassLine
		if *f.replay != "" {
			lines, err := readLines(*f.replay)
			if err != nil {
				return err
			}
			if replayed, err = c05Replay(db, g, lines); err != nil {
				return err
			}
			if replayedClass, err = c05ReplayClass(db, lines); err != nil {
				return err
			}
		} else if *f.tier == "thorough" {
			k := *reps
			if k <= 0 {
				k = 5
			}
			for i := range db.rows {
				for j := 0; j < k; j++ {
					rows = append(rows, &db.rows[i])
				}
			}
		} else {
			// quick: EVERY row of the table once (a change to a single row is exercised whatever the seed), then
			// -n further instances spread over the opcodes
			for i := range db.rows {
				rows = append(rows, &db.rows[i])
			}
			var opcodes []string
			for op := range c05Call {
				opcodes = append(opcodes, op)
			}
			sort.Strings(opcodes)
			per := *f.n / len(opcodes)
			extra := *f.n - per*len(opcodes)
			for _, op := range opcodes {
				k := per
				if r.intn(len(opcodes)) < extra {
					k++
				}
				idxs := c05Call[op]
				for j := 0; j < k; j++ {
					rows = append(rows, &db.rows[pick(r, idxs)])
				}
			}
		}

		// ---- build cases
		var cases []*c05Case
		var panics []*c05Case
		var classLines []c05ClassLine // `opclass` requests of the derived near-miss stream (and of a replay)
		add := func(c *c05Case) {
			if c == nil {
				return
			}
			if c.status == "panic" {
				panics = append(panics, c)
				return
			}
			c.id = len(cases)
			cases = append(cases, c)
		}
		for _, row := range rows {
			stream := "form"
			switch x := r.intn(100); {
			case x < 8:
				stream = "nearmiss"
			case x < 14:
				stream = "malformed"
			case x < 18 && !c05HasEVEX(row):
				stream = "hivec"
			case x == 18 && c05HasEVEX(row):
				stream = "k0mask"
			case x >= 19 && x < 25:
				stream = "shape"
			}
			c := g.build(db, row, stream)
			if c == nil && stream != "form" {
				g.stats["fallback_to_form_"+stream]++
				c = g.build(db, row, "form")
			}
			add(c)
			for _, t := range row.TypeNames {
				if t == "al" || t == "cl" || t == "ax" || t == "eax" || t == "rax" || t == "xmm0" {
					add(g.build(db, row, "sibling"))
					break
				}
			}
		}
		// ---- per operand type: a floor of well-typed instances and of near misses aimed at that operand
		// (rare types — imm16, imm64, rel8, imm2u, fixed registers — otherwise appear a handful of times per quick run)
		if *f.replay == "" {
			byType := map[string][]int{}
			for i := range db.rows {
				seen := map[string]bool{}
				for _, t := range db.rows[i].explicitTypes() {
					if !seen[t] {
						seen[t] = true
						byType[t] = append(byType[t], i)
					}
				}
			}
			var tnames []string
			for t := range byType {
				tnames = append(tnames, t)
			}
			sort.Strings(tnames)
			nForm, nMiss := 16, 10
			if *f.tier == "thorough" {
				nForm, nMiss = 60, 60
			}
			for _, t := range tnames {
				k := nForm
				if strings.HasPrefix(t, "imm") || strings.HasPrefix(t, "rel") {
					k = 3 * nForm
				}
				for j := 0; j < k; j++ {
					add(g.build(db, &db.rows[pick(r, byType[t])], "form"))
				}
				g.target = t
				for j := 0; j < nMiss; j++ {
					add(g.build(db, &db.rows[pick(r, byType[t])], "nearmiss"))
				}
				g.target = ""
			}
			// ---- systematically derived near misses: for EVERY operand type every one-attribute change of a member of
			// the class (c05derive.go), `reps` times on rows drawn from the forms that have an operand of that type
			typeCode := map[string]uint8{}
			for code, name := range db.oprndName {
				typeCode[name] = code
			}
			reps := 3
			if *f.tier == "thorough" {
				reps = 12
			}
			var derivable []string
			for _, t := range tnames {
				if _, ok := typeCode[t]; ok && c05Family(t) != "" {
					derivable = append(derivable, t)
				} else {
					g.stats["derived_type_without_catalogue"]++
				}
			}
			seenLine := map[string]bool{}
			for _, t := range derivable {
				for j := 0; j < reps; j++ {
					cs, ls := g.derived(db, &db.rows[pick(r, byType[t])], t, typeCode)
					for _, c := range cs {
						add(c)
					}
					for _, l := range ls {
						if !seenLine[l.req] {
							seenLine[l.req] = true
							classLines = append(classLines, l)
						}
					}
				}
			}
			total, tried, triedAsm := 0, 0, 0
			for _, t := range derivable {
				for _, k := range c05DeriveKinds(t) {
					total++
					if g.stats["derivedpair:"+t+":"+k] > 0 {
						tried++
					}
					if c05DeriveRoute(t, k) == "asm" && g.stats["derivedasm:"+t+":"+k] > 0 {
						triedAsm++
					}
				}
			}
			g.stats["derived_types"] = len(derivable)
			g.stats["derived_pairs_total"] = total
			g.stats["derived_pairs_tried"] = tried
			g.stats["derived_pairs_through_ctor"] = triedAsm
		}
		for _, c := range replayed {
			add(c)
		}
		if *f.replay == "" {
			for _, c := range c05Scripted(db, g) {
				add(c)
			}
		}

		// ---- assemble and decode in parallel batches
		asm := &c05Asm{dir: dir, goroot: goroot()}
		const batch = 500
		var wg sync.WaitGroup
		sem := make(chan struct{}, 12)
		errs := make(chan error, len(cases)/batch+2)
		for b := 0; b*batch < len(cases); b++ {
			lo, hi := b*batch, (b+1)*batch
			if hi > len(cases) {
				hi = len(cases)
			}
			wg.Add(1)
			go func(b int, cs []*c05Case) {
				defer wg.Done()
				sem <- struct{}{}
				defer func() { <-sem }()
				tag := fmt.Sprintf("b%d", b)
				if err := asm.assemble(tag, cs); err != nil {
					errs <- err
					return
				}
				if err := asm.disassemble(tag, cs); err != nil {
					errs <- err
					return
				}
				for _, c := range cs {
					if c.status == "ok" {
						c05XDecode(c)
					}
				}
				_ = tag
			}(b, cases[lo:hi])
		}
		wg.Wait()
		close(errs)
		for e := range errs {
			return e
		}

		if *dump != "" {
			df, err := os.Create(*dump)
			if err != nil {
				return err
			}
			w := bufio.NewWriter(df)
			for _, c := range cases {
				sig := "?"
				if c.form != nil {
					sig = strings.Join(c.form.explicitTypes(), ",")
				}
				fmt.Fprintf(w, "%s\t%s\t%s\t%s\t%s\t%s\t%s\t%s\t%s\t%s\t%d\n", c.call, strings.Join(c.sfx, "."), sig, c.stream,
					strings.TrimSpace(c.line), c.status, c.errmsg, hex.EncodeToString(c.code), strings.Join(c.dis, " ; "), c.xdis, c.xmem)
			}
			w.Flush()
			df.Close()
		}

		for _, l := range replayedClass {
			classLines = append(classLines, l)
		}
		for _, l := range classLines {
			o.emit(l.req, l.resp)
		}
		st := c05Emit(o, db, cases, panics)
		st["opclass_lines"] = len(classLines)
		for k, v := range g.stats {
			st[k] = v
		}
		st["asm_runs"] = asm.runs
		st["asm_bisections"] = asm.bisects
		st["cases"] = len(cases)
		return writeJSON(*f.stats, st)
	})
}
