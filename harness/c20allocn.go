package main

import (
	"fmt"
	"strings"

	"github.com/mmcloughlin/avo/operand"
	"github.com/mmcloughlin/avo/reg"
)

// C20, reg.Allocation on PARTIAL allocations: LookupRegister / LookupDefault /
// LookupRegisterDefault (and operand.ApplyAllocation on a register operand and on
// the base of a memory operand, which is what BindRegisters does) for every
// register view — virtual registers of each kind / spec with index 0..40 and
// large, every physical register — x allocations that do / do not contain the id
// (empty, partial, full, entries naming registers with / without that view,
// virtual ids, pseudo / unknown kinds).  Exact: `alook` against
// Model/RegAllocn.lean; acceptor `accept-alookup` (AllocLookupOK: a virtual
// register without an entry is never turned into a physical one; a result IS the
// register the entry names).  `amerge`: Allocation.Merge.

type c20Pair struct{ k, v reg.ID }

func c20ID(virt bool, k, idx int) reg.ID {
	v := 0
	if virt {
		v = 1
	}
	return reg.ID(uint32(v) | uint32(k&0xff)<<8 | uint32(idx&0xffff)<<16)
}

func c20AllocnEmit(emit func(kind, req, resp string), r reg.Register, pairs []c20Pair, stats map[string]int) {
	var ps []string
	a := reg.NewEmptyAllocation()
	for _, p := range pairs {
		a[p.k] = p.v
		ps = append(ps, fmt.Sprint(uint32(p.k)), fmt.Sprint(uint32(p.v)))
	}
	req := strings.TrimSpace(fmt.Sprintf("alook %d %d %d %s", uint32(r.ID()), r.Mask(), len(pairs), strings.Join(ps, " ")))
	entry := "-"
	if t, ok := a[r.ID()]; ok {
		entry = fmt.Sprint(uint32(t))
	}
	var res reg.Physical
	var dflt reg.ID
	var rd, ap, mb reg.Register
	failed := func() (failed bool) {
		defer func() {
			if e := recover(); e != nil {
				failed = true
			}
		}()
		res = a.LookupRegister(r)
		dflt = a.LookupDefault(r.ID())
		rd = a.LookupRegisterDefault(r)
		ap, _ = operand.ApplyAllocation(r, a).(reg.Register)
		if m, ok := operand.ApplyAllocation(operand.Mem{Base: r, Index: r, Scale: 1}, a).(operand.Mem); ok {
			mb = m.Base
		}
		if res != nil {
			_, _, _, _ = res.ID(), res.Mask(), res.Size(), res.Asm()
		}
		return false
	}()
	if failed {
		emit("alook", req, "panic")
		return
	}
	im := func(x reg.Register) string {
		if x == nil {
			return "nil"
		}
		return fmt.Sprintf("%d:%d", uint32(x.ID()), x.Mask())
	}
	emit("alook", req, fmt.Sprintf("%s %d %s %s %s", c20LookupResp(res), uint32(dflt), im(rd), im(ap), im(mb)))
	acc := "panic"
	if res != nil {
		acc = c20Res(res, false)
	}
	rdid, rdmask := "nil", "nil"
	if rd != nil {
		rdid, rdmask = fmt.Sprint(uint32(rd.ID())), fmt.Sprint(rd.Mask())
	}
	emit("accept-alookup", fmt.Sprintf("accept-alookup %d %d %s %s %s %s", uint32(r.ID()), r.Mask(), entry, rdid, rdmask, acc), "ok")
	if stats != nil {
		switch {
		case !r.ID().IsVirtual():
			stats["alook:physical"]++
		case entry != "-":
			stats["alook:virtual-with-entry"]++
		default:
			stats["alook:virtual-without-entry"]++
			n := map[reg.Kind]int{reg.KindGP: 16, reg.KindVector: 32, reg.KindOpmask: 8}[r.Kind()]
			if int(r.ID().Index()) < n {
				stats["alook:virtual-without-entry-index-below-physical-count"]++
			}
		}
	}
}

func c20MergeEmit(emit func(kind, req, resp string), as, bs []c20Pair) {
	a, b := reg.NewEmptyAllocation(), reg.NewEmptyAllocation()
	var ta, tb []string
	for _, p := range as {
		a[p.k] = p.v
		ta = append(ta, fmt.Sprint(uint32(p.k)), fmt.Sprint(uint32(p.v)))
	}
	for _, p := range bs {
		b[p.k] = p.v
		tb = append(tb, fmt.Sprint(uint32(p.k)), fmt.Sprint(uint32(p.v)))
	}
	req := strings.Join(strings.Fields(fmt.Sprintf("amerge %d %s %d %s", len(as), strings.Join(ta, " "), len(bs), strings.Join(tb, " "))), " ")
	resp := func() (resp string) {
		defer func() {
			if e := recover(); e != nil {
				resp = "panic"
			}
		}()
		if err := a.Merge(b); err != nil {
			return "err"
		}
		out := []string{"ok"}
		for _, p := range as {
			out = append(out, fmt.Sprintf("%d:%d", uint32(p.k), uint32(a[p.k])))
		}
		for _, p := range bs {
			dup := false
			for _, q := range as {
				dup = dup || q.k == p.k
			}
			if !dup {
				out = append(out, fmt.Sprintf("%d:%d", uint32(p.k), uint32(a[p.k])))
			}
		}
		if len(a) != len(out)-1 {
			out = append(out, fmt.Sprintf("len=%d", len(a)))
		}
		return strings.Join(out, " ")
	}()
	emit("amerge", req, resp)
}

var c20AllocnSpecs = map[int][]reg.Spec{1: {reg.S8L, reg.S8H, reg.S16, reg.S32, reg.S64}, 2: {reg.S128, reg.S256, reg.S512}, 3: {reg.S64}}
var c20AllocnCount = map[int]int{1: 16, 2: 32, 3: 8}

func c20AllocnGenerate(r *rng, n int, all []reg.Physical, emit func(kind, req, resp string), stats map[string]int) {
	idxs := []int{255, 256, 1000, 65535}
	for i := 0; i <= 40; i++ {
		idxs = append(idxs, i)
	}
	noView := map[int]int{1: 6, 2: 20, 3: 5}
	for k := 1; k <= 3; k++ {
		for _, s := range c20AllocnSpecs[k] {
			for _, idx := range idxs {
				v := reg.NewVirtual(reg.Index(idx), reg.Kind(k), s)
				vid := v.ID()
				cnt := c20AllocnCount[k]
				other := k%3 + 1
				without := []c20Pair{{c20ID(true, k, idx+1), c20ID(false, k, (idx+1)%cnt)}, {c20ID(true, other, idx), c20ID(false, other, idx%c20AllocnCount[other])},
					{c20ID(false, k, idx), c20ID(false, k, (idx+2)%cnt)}}
				var full []c20Pair
				for i := 0; i < 9; i++ {
					full = append(full, c20Pair{c20ID(true, k, i), c20ID(false, k, i%cnt)})
				}
				for _, pairs := range [][]c20Pair{
					nil,
					without,
					{{vid, c20ID(false, k, idx%cnt)}},
					append([]c20Pair{{vid, c20ID(false, k, noView[k])}}, without...),
					{{vid, c20ID(true, k, (idx+3)%65536)}},
					{{vid, c20ID(false, 0, 0)}},
					{{vid, c20ID(false, 7, 1)}},
					full,
				} {
					c20AllocnEmit(emit, v, pairs, stats)
				}
			}
		}
	}
	for _, p := range all {
		if p.Kind() == reg.KindPseudo {
			continue
		}
		k := int(p.Kind())
		c20AllocnEmit(emit, p, nil, stats)
		c20AllocnEmit(emit, p, []c20Pair{{p.ID(), c20ID(false, k, (int(p.PhysicalIndex())+1)%c20AllocnCount[k])}}, stats)
		c20AllocnEmit(emit, p, []c20Pair{{c20ID(true, k, int(p.PhysicalIndex())), p.ID()}}, stats)
	}
	randID := func() reg.ID {
		k := r.rangeIn(1, 3)
		if r.chance(1, 10) {
			k = pick(r, []int{0, 4, 7})
		}
		return c20ID(r.chance(1, 2), k, pick(r, []int{0, 1, 2, 3, 4, 5, 6, 7, 8, 15, 16, 31, 32, 40}))
	}
	randPairs := func() []c20Pair {
		var ps []c20Pair
		seen := map[reg.ID]bool{}
		for i := r.intn(7); i > 0; i-- {
			k := randID()
			if !seen[k] {
				seen[k] = true
				ps = append(ps, c20Pair{k, randID()})
			}
		}
		return ps
	}
	for i := 0; i < n; i++ {
		k := r.rangeIn(1, 3)
		v := reg.NewVirtual(reg.Index(pick(r, idxs)), reg.Kind(k), pick(r, c20AllocnSpecs[k]))
		c20AllocnEmit(emit, v, randPairs(), stats)
		if p := all[r.intn(len(all))]; r.chance(1, 3) && p.Kind() != reg.KindPseudo {
			c20AllocnEmit(emit, p, randPairs(), stats)
		}
		c20MergeEmit(emit, randPairs(), randPairs())
	}
	c20MergeEmit(emit, nil, nil)
	c20MergeEmit(emit, []c20Pair{{257, 256}}, []c20Pair{{257, 256}, {65793, 65792}})
	c20MergeEmit(emit, []c20Pair{{257, 256}}, []c20Pair{{257, 65792}})
}

func c20AllocnPairs(ts []string) ([]c20Pair, bool) {
	if len(ts)%2 != 0 {
		return nil, false
	}
	var ps []c20Pair
	for i := 0; i < len(ts); i += 2 {
		k, v := c20Atou(ts[i]), c20Atou(ts[i+1])
		if k < 0 || v < 0 {
			return nil, false
		}
		ps = append(ps, c20Pair{reg.ID(k), reg.ID(v)})
	}
	return ps, true
}

func c20Atou(s string) int64 {
	if s == "" || len(s) > 10 {
		return -1
	}
	var n int64
	for _, c := range s {
		if c < '0' || c > '9' {
			return -1
		}
		n = n*10 + int64(c-'0')
	}
	if n > 0xffffffff {
		return -1
	}
	return n
}

func c20AllocnReg(id, mask int64) reg.Register {
	if id < 0 || mask < 0 || mask > 0xffff {
		return nil
	}
	if reg.ID(id).IsVirtual() {
		return reg.NewVirtual(reg.ID(id).Index(), reg.ID(id).Kind(), reg.Spec(mask))
	}
	if p := reg.LookupID(reg.ID(id), reg.Spec(mask)); p != nil {
		return p
	}
	return nil
}

func c20AllocnReplay(ts []string, emit func(kind, req, resp string)) {
	only := func(kind string) func(k, req, resp string) {
		return func(k, req, resp string) {
			if k == kind {
				emit(k, req, resp)
			}
		}
	}
	switch ts[0] {
	case "alook":
		if len(ts) < 4 {
			return
		}
		r := c20AllocnReg(c20Atou(ts[1]), c20Atou(ts[2]))
		ps, ok := c20AllocnPairs(ts[4:])
		if r != nil && ok {
			c20AllocnEmit(only("alook"), r, ps, nil)
		}
	case "accept-alookup": // the entry of the register itself is what matters
		if len(ts) < 4 {
			return
		}
		r := c20AllocnReg(c20Atou(ts[1]), c20Atou(ts[2]))
		if r == nil {
			return
		}
		var ps []c20Pair
		if t := c20Atou(ts[3]); t >= 0 {
			ps = []c20Pair{{r.ID(), reg.ID(t)}}
		}
		c20AllocnEmit(only("accept-alookup"), r, ps, nil)
	case "amerge":
		if len(ts) < 3 {
			return
		}
		na := int(c20Atou(ts[1]))
		if na < 0 || len(ts) < 3+2*na {
			return
		}
		as, ok1 := c20AllocnPairs(ts[2 : 2+2*na])
		bs, ok2 := c20AllocnPairs(ts[3+2*na:])
		if ok1 && ok2 {
			c20MergeEmit(emit, as, bs)
		}
	}
}
