package main

import (
	"fmt"
	"path/filepath"
	"sort"
	"strings"
	"sync"

	"github.com/mmcloughlin/avo/x86"
)

// formsDB is the compiled form table (through the verif hook) with operand type
// and implicit register names resolved from the enum blocks of x86/zoptab.go.
type formRow struct {
	x86.VerifForm
	Index     int
	TypeNames []string // per operand: lower-case operand type ("r64", "m128", …) or implicit register name ("rax")
	Suffixes  [][]string
}

type formsDB struct {
	rows      []formRow
	byOpcode  map[string][]int
	oprndName map[uint8]string
	implName  map[uint8]string
	sffxCls   map[uint8]string
}

var (
	dbOnce sync.Once
	db     *formsDB
	dbErr  error
)

func loadForms(repo string) (*formsDB, error) {
	dbOnce.Do(func() {
		// the enum blocks (oprndtype…, implreg…, sffxscls…) are looked for in x86/zoptab.go first and then in every
		// other non-test file of the package: moving them to another file is a harmless refactoring
		files := []string{filepath.Join(repo, "x86", "zoptab.go")}
		if more, gerr := filepath.Glob(filepath.Join(repo, "x86", "*.go")); gerr == nil {
			sort.Strings(more)
			for _, m := range more {
				if m != files[0] && !strings.HasSuffix(m, "_test.go") {
					files = append(files, m)
				}
			}
		}
		var names []string
		vals := map[string]int64{}
		for i, path := range files {
			_, f, err := parseFile(path)
			if err != nil {
				if i == 0 && len(files) == 1 {
					dbErr = err
					return
				}
				continue
			}
			ns, vs := constBlockInts(f)
			for _, n := range ns {
				if _, dup := vals[n]; !dup {
					names = append(names, n)
					vals[n] = vs[n]
				}
			}
		}
		d := &formsDB{byOpcode: map[string][]int{}, oprndName: map[uint8]string{}, implName: map[uint8]string{}, sffxCls: map[uint8]string{}}
		for _, n := range names {
			switch {
			case strings.HasPrefix(n, "oprndtype") && n != "oprndtypeNone" && n != "oprndtypemax":
				d.oprndName[uint8(vals[n])] = strings.ToLower(strings.TrimPrefix(n, "oprndtype"))
			case strings.HasPrefix(n, "implreg") && n != "implregNone" && n != "implregmax":
				d.implName[uint8(vals[n])] = strings.ToLower(strings.TrimPrefix(n, "implreg"))
			case strings.HasPrefix(n, "sffxscls") && n != "sffxsclsmax":
				d.sffxCls[uint8(vals[n])] = strings.TrimPrefix(n, "sffxscls")
			}
		}
		for i, vf := range x86.VerifForms() {
			r := formRow{VerifForm: vf, Index: i, Suffixes: x86.VerifSuffixSets(vf.SuffixesClass)}
			// the hook iterates a Go map: canonicalise so that generation is reproducible across processes
			sort.Slice(r.Suffixes, func(a, b int) bool {
				return strings.Join(r.Suffixes[a], ".") < strings.Join(r.Suffixes[b], ".")
			})
			for _, o := range vf.Operands {
				var nm string
				if o.Implicit {
					nm = d.implName[o.Type]
				} else {
					nm = d.oprndName[o.Type]
				}
				if nm == "" {
					dbErr = fmt.Errorf("form %d (%s): unnamed operand type %d", i, vf.Opcode, o.Type)
					return
				}
				r.TypeNames = append(r.TypeNames, nm)
			}
			d.rows = append(d.rows, r)
			d.byOpcode[vf.Opcode] = append(d.byOpcode[vf.Opcode], i)
		}
		db = d
	})
	return db, dbErr
}

// explicitTypes returns the names of the explicit operands of a form.
func (r *formRow) explicitTypes() []string {
	var out []string
	for i, o := range r.Operands {
		if !o.Implicit {
			out = append(out, r.TypeNames[i])
		}
	}
	return out
}

const (
	featTerminal = 1 << iota
	featBranch
	featCondBranch
	featCancelling
)
