package main

// C12, the ROUTES by which a stub file comes into being: the configuration layer.
//
//   c12cli   generated COMMAND LINES for the flags build.NewFlags registers (-out, -stubs, -pkg, -e, -log; the
//            four spellings -f v, -f=v, --f v, --f=v; repeated flags; the `--` terminator and a trailing
//            non-flag argument) x LAYOUTS on disk (bare file names in the working directory, ./, ../, a
//            sub-directory, a sibling directory, absolute paths, assembly and stubs in different directories,
//            either file on standard output, no stub file) x DIRECTORY NAMES (equal to the package, different
//            — module major version `v2`, `go-foo`, `foo_amd64` —, not an identifier) x -pkg given / omitted /
//            empty, executed by two routes:
//              flags     build.NewFlags(private FlagSet) + Parse + Flags.Config() + build.Main(cfg, ctx), in
//                        process, with the working directory, os.Args and os.Stdout of the case;
//              generate  a child process (this binary, subcommand c12child) whose working directory and
//                        os.Args are the case's, calling build.Generate() on the package-level context.
//            Real files are written under -work. Per case:
//              cli …            exact: the package clause of the stub file that came out and where assembly
//                               and stubs went == the Lean model of the command line (parseArgs/cliPkg);
//              accept-cli …     measured against the PLAN (independent of avo and of the model): exit
//                               status, which file holds what, package clause (go/parser) = the requested
//                               package: the explicit -pkg, otherwise the working directory's base name;
//              wf-stubs, stubs, accept-stubs, accept-verbatim, accept-cons, accept-gostub
//                               on the stub file that came out, exactly as for printer.NewStubs called
//                               directly, under the configuration the plan expects (Argv = go run main.go +
//                               the command line, Pkg = requested package);
//              accept-build …   pairs that landed in one directory: with a file of the REQUESTED package beside
//                               them, go list / build / vet -asmdecl / link (c12BuildPairs).
//   c12child the child of the generate route.

import (
	"encoding/json"
	"flag"
	"fmt"
	"go/parser"
	"go/token"
	"io"
	"os"
	"os/exec"
	"path/filepath"
	"sort"
	"strings"

	"github.com/mmcloughlin/avo/build"
	"github.com/mmcloughlin/avo/pass"
	"github.com/mmcloughlin/avo/printer"
)

type c12CliPlan struct {
	Layout  string   `json:"layout"`
	Route   string   `json:"route"` // flags | generate
	Cwd     string   `json:"cwd"`   // absolute
	Args    []string `json:"args"`
	WantPkg string   `json:"want_pkg"`
	// where the files are expected (absolute path, "-" = standard output, "" = not written), and the
	// spelling of that destination on the command line
	StubAt, AsmAt   string
	StubArg, AsmArg string
	Mentioned       map[string]string // absolute path -> spelling, for every file named on the command line
	PairDir         string            // both files in this directory (built), else ""
	PkgGiven        bool
	Root            string
	StubDirBase     string
}

// c12CliMainBase: the harness's main function lives in main.go; printer.NewGoRunConfig names the generator
// `go run <base name of the file of main.main>`.
const c12CliMainBase = "main.go"

var c12CliDirNames = []string{"v2", "go-foo", "foo_amd64", "xxhash", "asm", "gen_out", "9lives", "x.y", "π", "demo"}
var c12CliPkgNames = []string{"xxhash", "demo", "mypkg", "π", "p", "v2", "foo", "asm"}

func (g *c12Gen) cliFlag(name, val string) []string {
	switch g.r.intn(4) {
	case 0:
		return []string{"-" + name, val}
	case 1:
		return []string{"-" + name + "=" + val}
	case 2:
		return []string{"--" + name, val}
	default:
		return []string{"--" + name + "=" + val}
	}
}

// cliPlan lays one case out under root (absolute, inside the throw-away module m rooted at mod).
func (g *c12Gen) cliPlan(mod string, k int) c12CliPlan {
	r, st := g.r, g.st
	p := c12CliPlan{Mentioned: map[string]string{}}
	pkg := pick(r, c12CliPkgNames)
	dir := pick(r, c12CliDirNames)
	switch r.intn(5) {
	case 0:
		dir = pkg // the common layout: the directory is named after the package
		st["cli_dir_equals_pkg"]++
	}
	layouts := []string{"cwd-bare", "cwd-dot", "sub-up", "sibling", "abs", "down", "split", "stub-stdout", "asm-stdout", "asm-default", "no-stubs"}
	p.Layout = pick(r, layouts)
	if r.chance(1, 3) {
		p.Layout = pick(r, []string{"sub-up", "sibling", "abs", "down"}) // the layouts in which the files leave the working directory
	}
	st["cli_layout_"+p.Layout]++
	// only pairs that land in ONE directory with a plain import-path name live inside the module's package
	// tree (they are built); everything else under a directory the go tool ignores
	root := filepath.Join(mod, "_x", fmt.Sprintf("c%d", k))
	switch p.Layout {
	case "cwd-bare", "cwd-dot", "sub-up", "sibling", "abs", "down":
		if strings.IndexFunc(dir, func(r rune) bool { return r == ' ' || r >= 0x80 || r == '.' }) < 0 {
			root = filepath.Join(mod, fmt.Sprintf("c%d", k))
		}
	}
	p.Root = root
	d := filepath.Join(root, dir)
	asmName, stubName := "asm.s", "stub.go"
	var asmArg, stubArg string // "" = flag not given
	other := filepath.Join(root, "other"+dir)
	switch p.Layout {
	case "cwd-bare":
		p.Cwd, asmArg, stubArg = d, asmName, stubName
	case "cwd-dot":
		p.Cwd, asmArg, stubArg = d, "./"+asmName, "./"+stubName
	case "sub-up":
		p.Cwd, asmArg, stubArg = filepath.Join(d, "gen"), "../"+asmName, "../"+stubName
	case "sibling":
		p.Cwd, asmArg, stubArg = filepath.Join(root, "gen"), "../"+dir+"/"+asmName, "../"+dir+"/"+stubName
	case "abs":
		p.Cwd, asmArg, stubArg = filepath.Join(root, "else where"), filepath.Join(d, asmName), filepath.Join(d, stubName)
	case "down":
		p.Cwd, asmArg, stubArg = root, dir+"/"+asmName, dir+"/"+stubName
	case "split":
		p.Cwd, asmArg, stubArg = root, dir+"/"+asmName, "other"+dir+"/"+stubName
	case "stub-stdout":
		p.Cwd, asmArg, stubArg = root, dir+"/"+asmName, "-"
	case "asm-stdout":
		p.Cwd, asmArg, stubArg = root, "-", dir+"/"+stubName
	case "asm-default":
		p.Cwd, asmArg, stubArg = root, "", dir+"/"+stubName
	case "no-stubs":
		p.Cwd, asmArg, stubArg = d, asmName, ""
	}
	for _, x := range []string{d, other, p.Cwd, filepath.Join(root, "_early")} {
		os.MkdirAll(x, 0o755)
	}
	resolve := func(arg string) string {
		switch {
		case arg == "" || arg == "-":
			return arg
		case filepath.IsAbs(arg):
			return filepath.Clean(arg)
		}
		return filepath.Join(p.Cwd, arg)
	}
	p.AsmArg, p.StubArg = asmArg, stubArg
	p.AsmAt, p.StubAt = resolve(asmArg), resolve(stubArg)
	if asmArg == "" {
		p.AsmAt = "-" // the default of -out
	}
	// -pkg
	given := ""
	switch r.intn(10) {
	case 0, 1, 2:
		st["cli_pkg_omitted"]++
	case 3:
		st["cli_pkg_empty"]++
		p.PkgGiven = true
	default:
		given = pkg
		p.PkgGiven = true
		st["cli_pkg_given"]++
	}
	p.WantPkg = given
	if given == "" {
		p.WantPkg = filepath.Base(p.Cwd)
	}
	// the command line
	var groups [][]string
	if asmArg != "" {
		if r.chance(1, 6) { // an earlier -out that the later one overrides (the file is created, and stays empty)
			early := filepath.Join(root, "_early", "early.s") // (a directory the go tool ignores)
			groups = append(groups, g.cliFlag("out", early))
			p.Mentioned[early] = early
			st["cli_repeated_flag"]++
		}
		groups = append(groups, g.cliFlag("out", asmArg))
	}
	if stubArg != "" {
		if r.chance(1, 6) {
			early := filepath.Join(root, "_early", "early.go")
			groups = append(groups, g.cliFlag("stubs", early))
			p.Mentioned[early] = early
			st["cli_repeated_flag"]++
		}
		groups = append(groups, g.cliFlag("stubs", stubArg))
	}
	if p.PkgGiven {
		if given != "" && r.chance(1, 6) {
			groups = append(groups, g.cliFlag("pkg", "overridden"))
			st["cli_repeated_flag"]++
		}
		groups = append(groups, g.cliFlag("pkg", given))
	}
	// keep repeated flags in order (the last one wins); move whole flags around otherwise: rotate
	if n := len(groups); n > 1 && r.chance(1, 2) {
		// put the -pkg group(s) first: `-pkg P -out … -stubs …`
		var pk, rest [][]string
		for _, gr := range groups {
			if name := strings.TrimLeft(gr[0], "-"); name == "pkg" || strings.HasPrefix(name, "pkg=") {
				pk = append(pk, gr)
			} else {
				rest = append(rest, gr)
			}
		}
		groups = append(pk, rest...)
		st["cli_pkg_first"]++
	}
	if r.chance(1, 4) {
		groups = append([][]string{{pick(r, []string{"-e", "--e", "-e=true", "-e=false", "-e=0"})}}, groups...)
	}
	if r.chance(1, 5) {
		groups = append(groups, g.cliFlag("log", filepath.Join(root, "log.txt")))
	}
	switch r.intn(12) {
	case 0:
		groups = append(groups, []string{"--", "-pkg", "afterterminator", "-stubs", filepath.Join(root, "never.go")})
		st["cli_terminator"]++
	case 1:
		groups = append(groups, []string{"positional", "-pkg=afterpositional"})
		st["cli_positional"]++
	}
	for _, gr := range groups {
		p.Args = append(p.Args, gr...)
	}
	for _, x := range []struct{ at, arg string }{{p.AsmAt, asmArg}, {p.StubAt, stubArg}} {
		if x.at != "" && x.at != "-" {
			p.Mentioned[x.at] = x.arg
		}
	}
	if p.StubAt != "" && p.StubAt != "-" {
		p.StubDirBase = filepath.Base(filepath.Dir(p.StubAt))
		if p.AsmAt != "" && p.AsmAt != "-" && filepath.Dir(p.StubAt) == filepath.Dir(p.AsmAt) {
			p.PairDir = filepath.Dir(p.StubAt)
		}
	}
	return p
}

type c12CliObs struct {
	status          string // "0", "1", …, flag-error, panic
	stubAt, asmAt   string // absolute path, "-", ""
	stub, asm       string
	stdout          string
	unexpectedFiles []string
}

func c12LooksLikeStub(t string) bool {
	return strings.HasPrefix(t, "package ") || strings.Contains(t, "\npackage ")
}
func c12LooksLikeAsm(t string) bool {
	return strings.HasPrefix(t, "TEXT ·") || strings.Contains(t, "\nTEXT ·")
}

// c12CliObserve reads the files named on the command line and the captured standard output.
func c12CliObserve(p c12CliPlan, status, stdout string) c12CliObs {
	o := c12CliObs{status: status, stdout: stdout}
	var paths []string
	for path := range p.Mentioned {
		paths = append(paths, path)
	}
	sort.Strings(paths)
	for _, path := range paths {
		b, err := os.ReadFile(path)
		if err != nil {
			continue
		}
		t := string(b)
		switch {
		case c12LooksLikeStub(t) && o.stubAt == "":
			o.stubAt, o.stub = path, t
		case c12LooksLikeAsm(t) && o.asmAt == "":
			o.asmAt, o.asm = path, t
		case t != "":
			o.unexpectedFiles = append(o.unexpectedFiles, path)
		}
	}
	// standard output: assembly first, then stubs (the order of the printers), each starting with its
	// generated-code comment
	if stdout != "" {
		parts := []string{stdout}
		if i := strings.Index(stdout[1:], "\n// Code generated by "); i >= 0 {
			parts = []string{stdout[:i+2], stdout[i+2:]}
		}
		for _, t := range parts {
			switch {
			case c12LooksLikeStub(t) && o.stubAt == "":
				o.stubAt, o.stub = "-", t
			case c12LooksLikeAsm(t) && o.asmAt == "":
				o.asmAt, o.asm = "-", t
			}
		}
	}
	return o
}

// c12CliRunFlags: the `flags` route, in process.
func c12CliRunFlags(p c12CliPlan, ctx *build.Context, scratch string) (status, stdout string) {
	wd, err := os.Getwd()
	if err != nil {
		panic("harness: " + err.Error())
	}
	capPath := filepath.Join(scratch, "stdout.txt")
	capf, err := os.Create(capPath)
	if err != nil {
		panic("harness: " + err.Error())
	}
	errf, err := os.Create(filepath.Join(scratch, "stderr.txt"))
	if err != nil {
		panic("harness: " + err.Error())
	}
	oldArgs, oldOut, oldErr := os.Args, os.Stdout, os.Stderr
	if err := os.Chdir(p.Cwd); err != nil {
		panic("harness: " + err.Error())
	}
	os.Args = append([]string{"gen"}, p.Args...)
	os.Stdout, os.Stderr = capf, errf
	var cfg *build.Config
	defer func() {
		os.Args, os.Stdout, os.Stderr = oldArgs, oldOut, oldErr
		os.Chdir(wd)
		if cfg != nil {
			for _, ps := range cfg.Passes {
				if o, ok := ps.(*pass.Output); ok {
					_ = o.Writer.Close()
				}
			}
			if c, ok := cfg.ErrOut.(io.Closer); ok && cfg.ErrOut != errf {
				_ = c.Close()
			}
		}
		capf.Close()
		errf.Close()
		b, _ := os.ReadFile(capPath)
		stdout = string(b)
		if e := recover(); e != nil {
			status = "panic"
		}
	}()
	fs := flag.NewFlagSet("gen", flag.ContinueOnError)
	fs.SetOutput(io.Discard)
	fl := build.NewFlags(fs)
	if err := fs.Parse(p.Args); err != nil {
		return "flag-error", ""
	}
	cfg = fl.Config()
	return itoa(build.Main(cfg, ctx)), ""
}

// c12CliRunChild: the `generate` route, a child process.
func c12CliRunChild(p c12CliPlan, d c12Desc, idx int, scratch string) (status, stdout string) {
	self, err := os.Executable()
	if err != nil {
		panic("harness: " + err.Error())
	}
	dj, _ := json.Marshal(d)
	aj, _ := json.Marshal(p.Args)
	descPath := filepath.Join(scratch, "child.json")
	if err := os.WriteFile(descPath, dj, 0o644); err != nil {
		panic("harness: " + err.Error())
	}
	cmd := exec.Command(self, "c12child", descPath, itoa(idx), string(aj))
	cmd.Dir = p.Cwd
	var so, se strings.Builder
	cmd.Stdout, cmd.Stderr = &so, &se
	err = cmd.Run()
	status = "0"
	if err != nil {
		if ee, ok := err.(*exec.ExitError); ok {
			status = itoa(ee.ExitCode())
		} else {
			panic("harness: " + err.Error())
		}
	}
	if status == "97" {
		panic("harness: c12child: " + se.String())
	}
	return status, so.String()
}

func c12CliDest(at string, p c12CliPlan) string {
	switch at {
	case "":
		return "none"
	case "-":
		return "stdout"
	}
	return "file:" + hexs(p.Mentioned[at])
}

func init() {
	register("c12child", "child process of the c12cli generate route (build.Generate on the package-level context)", func(args []string) error {
		// usage: c12child <desc.json> <idx> <args-json>; exit status 97 = harness problem
		fail := func(err error) error {
			fmt.Fprintln(os.Stderr, err)
			os.Exit(97)
			return nil
		}
		if len(args) != 3 {
			return fail(fmt.Errorf("usage"))
		}
		b, err := os.ReadFile(args[0])
		if err != nil {
			return fail(err)
		}
		var d c12Desc
		if err := json.Unmarshal(b, &d); err != nil {
			return fail(err)
		}
		var idx int
		fmt.Sscan(args[1], &idx)
		var cl []string
		if err := json.Unmarshal([]byte(args[2]), &cl); err != nil {
			return fail(err)
		}
		c, err := c12BuildCaseMain(d, idx, true, ".", map[string]int{}, true)
		if err != nil {
			return fail(err)
		}
		build.VerifSwapContext(c.ctx)
		os.Args = append([]string{"gen"}, cl...)
		flag.CommandLine.SetOutput(io.Discard)
		build.Generate() // parses flag.CommandLine from os.Args, Flags.Config(), Main; exits on failure
		return nil
	})
	register("c12cli", "stub files through the configuration layer: command lines x layouts x routes", func(args []string) error {
		f := newStdFlags("c12cli")
		work := f.fs.String("work", ".", "scratch directory")
		if err := f.fs.Parse(args); err != nil {
			return err
		}
		o, err := openOut(f)
		if err != nil {
			return err
		}
		defer o.close()
		r := newRng(*f.seed ^ 0xc12c11)
		st := map[string]int{}
		g := &c12Gen{r: r, st: st, vet: true}
		absWork, err := filepath.Abs(*work)
		if err != nil {
			return err
		}
		mod := filepath.Join(absWork, "climod")
		os.RemoveAll(mod)
		if err := os.MkdirAll(filepath.Join(mod, "q"), 0o755); err != nil {
			return err
		}
		if err := os.WriteFile(filepath.Join(mod, "go.mod"), []byte("module m\n\ngo 1.22\n"), 0o644); err != nil {
			return err
		}
		if err := os.WriteFile(filepath.Join(mod, "q", "q.go"), []byte(c12QSource), 0o644); err != nil {
			return err
		}
		nchild := 8
		if *f.tier != "quick" {
			nchild = 60
		}
		var pairs []c12Built
		for k := 0; k < *f.n; k++ {
			var plan c12CliPlan
			switch k {
			case 0, 1, 2:
				// forced shapes (every run): the command line of seeded change C12-9 in the first cases
				plan = c12CliForced(filepath.Join(mod, fmt.Sprintf("c%d", k)), k)
			default:
				plan = g.cliPlan(mod, k)
			}
			root := plan.Root
			plan.Route = "flags"
			if nchild > 0 && k%5 == 2 {
				plan.Route = "generate"
				nchild--
			}
			st["cli_route_"+plan.Route]++
			d := g.desc(true)
			d.Via = "ctx"
			d.Cons = nil // the pair must be selected on the host so that it is really built
			if r.chance(1, 3) {
				d.Cons = []string{pick(r, []string{"amd64", "!purego", "amd64,!appengine"})}
			}
			d.Pkg = plan.WantPkg
			c, err := c12BuildCaseMain(d, k, true, *work, st, plan.Route == "flags")
			if err != nil {
				st["gen_error"]++
				if st["gen_error"] <= 5 {
					fmt.Fprintf(os.Stderr, "c12cli: case %d dropped: %v\n", k, err)
				}
				continue
			}
			var status, stdout string
			if plan.Route == "flags" {
				status, stdout = c12CliRunFlags(plan, c.ctx, root)
				if file, err := c.ctx.Result(); err == nil {
					c.file = file
				}
			} else {
				status, stdout = c12CliRunChild(plan, d, k, root)
			}
			if c.file == nil {
				st["no_file"]++
				continue
			}
			obs := c12CliObserve(plan, status, stdout)
			st["cli_cases"]++
			valid := token.IsIdentifier(plan.WantPkg)
			wantFail := plan.StubAt != "" && !valid
			if plan.PkgGiven && plan.WantPkg != filepath.Base(plan.Cwd) {
				st["cli_explicit_pkg"]++
				if plan.StubAt != "" && plan.StubAt != "-" && plan.StubDirBase != plan.WantPkg {
					st["cli_explicit_pkg_dir_differs"]++
					if filepath.Dir(plan.StubAt) != plan.Cwd {
						st["cli_explicit_pkg_other_dir_differs"]++
					}
				}
			}
			if !plan.PkgGiven || plan.WantPkg == filepath.Base(plan.Cwd) {
				if plan.StubAt != "" && plan.StubAt != "-" && filepath.Dir(plan.StubAt) != plan.Cwd && plan.StubDirBase != plan.WantPkg {
					st["cli_default_pkg_other_dir_differs"]++
				}
			}
			// ---- exact: the Lean model of the command line
			planHex := hexs(fmt.Sprintf("layout=%s route=%s cwd=%s want=%s args=%q", plan.Layout, plan.Route, plan.Cwd, plan.WantPkg, plan.Args))
			req := "cli " + hexs(filepath.Base(plan.Cwd)) + " " + itoa(len(plan.Args))
			for _, a := range plan.Args {
				req += " " + hexs(a)
			}
			clause := "-"
			if obs.stubAt != "" {
				if af, err := parser.ParseFile(token.NewFileSet(), "stub.go", obs.stub, parser.PackageClauseOnly); err == nil {
					clause = hexs(af.Name.Name)
				} else {
					clause = "unparsable"
				}
			}
			if !wantFail || status == "0" {
				st["cli_exact"]++
				resp := "pkg=" + clause + " out=" + c12CliDest(obs.asmAt, plan) + " stubs=" + c12CliDest(obs.stubAt, plan)
				if status == "flag-error" {
					resp = "err"
				}
				o.emit(req, resp)
			}
			// ---- measured against the plan
			verdict := "ok"
			switch {
			case status == "panic" || status == "flag-error":
				verdict = status
			case wantFail && status == "0":
				verdict = "status-0-with-invalid-package"
			case !wantFail && status != "0":
				verdict = "status-" + status
			case wantFail:
				st["cli_expected_failure"]++
			case obs.asmAt != plan.AsmAt:
				verdict = "assembly-not-where-requested"
			case obs.stubAt != plan.StubAt:
				verdict = "stubs-not-where-requested"
			case len(obs.unexpectedFiles) > 0:
				verdict = "unexpected-file-content"
			case obs.stubAt != "" && clause != hexs(plan.WantPkg):
				verdict = "package-not-the-requested-one"
			}
			o.emit("accept-cli "+verdict+" "+planHex, "ok")
			if wantFail || status != "0" || obs.stubAt == "" {
				continue
			}
			// ---- the stub file that came out, judged like every other stub file
			c.cfg = printer.Config{Argv: append([]string{"go", "run", c12CliMainBase}, plan.Args...), Pkg: plan.WantPkg}
			c.desc.Tool, c.desc.HasArgv, c.desc.Argv = "", true, c.cfg.Argv
			astatus := "ok"
			if obs.asmAt == "" {
				astatus = "none"
			}
			c.produced = &c12Produced{stub: obs.stub, status: "ok", asm: obs.asm, astatus: astatus}
			st["cli_judged"]++
			stub, _, _ := c12Emit(o, c, st)
			// ---- the pair in one directory, beside a file of the REQUESTED package
			rel := ""
			if plan.PairDir != "" {
				if rel, err = filepath.Rel(mod, plan.PairDir); err != nil {
					return err
				}
			}
			// (directories whose name is not a plain import path element are judged on the text only)
			if plan.PairDir != "" && stub != "" && !strings.HasPrefix(rel, "_x") {
				c.pkgpath = "m/" + filepath.ToSlash(rel)
				os.WriteFile(filepath.Join(plan.PairDir, "types.go"), []byte(c12HelperSource(plan.WantPkg)), 0o644)
				e := &c12Enc{}
				c12EncodeCfg(e, c.cfg)
				c12EncodeFile(e, c.file)
				pairs = append(pairs, c12Built{c, e.String(), plan.PairDir, stub})
				st["cli_pair"]++
				if plan.StubDirBase != plan.WantPkg {
					st["cli_pair_dir_differs"]++
				}
			}
		}
		if err := c12BuildPairs(mod, pairs, o, st); err != nil {
			return err
		}
		st["cases"] = *f.n
		return writeJSON(*f.stats, st)
	})
}

// c12CliForced: the shapes every run contains. 0: generator in a sub-directory of a module
// major-version directory writing `../`, explicit -pkg (seeded change C12-9); 1: the same through
// absolute paths from elsewhere, -pkg first; 2: no -pkg, files written to another directory: the
// documented default (working directory's base name).
func c12CliForced(root string, k int) c12CliPlan {
	p := c12CliPlan{Mentioned: map[string]string{}, Layout: "forced", Root: root}
	d := filepath.Join(root, "v2")
	switch k {
	case 0:
		p.Cwd = filepath.Join(d, "asm")
		p.AsmArg, p.StubArg = "../asm.s", "../stub.go"
		p.Args = []string{"-out", p.AsmArg, "-stubs", p.StubArg, "-pkg", "xxhash"}
		p.WantPkg, p.PkgGiven = "xxhash", true
	case 1:
		p.Cwd = filepath.Join(root, "tools")
		p.AsmArg, p.StubArg = filepath.Join(d, "asm.s"), filepath.Join(d, "stub.go")
		p.Args = []string{"--pkg=xxhash", "-out=" + p.AsmArg, "--stubs", p.StubArg}
		p.WantPkg, p.PkgGiven = "xxhash", true
	default:
		p.Cwd = filepath.Join(root, "xxhash")
		p.AsmArg, p.StubArg = "../v2/asm.s", "../v2/stub.go"
		p.Args = []string{"-out", p.AsmArg, "-stubs", p.StubArg}
		p.WantPkg = "xxhash"
	}
	os.MkdirAll(d, 0o755)
	os.MkdirAll(p.Cwd, 0o755)
	p.AsmAt, p.StubAt = filepath.Join(d, "asm.s"), filepath.Join(d, "stub.go")
	p.Mentioned[p.AsmAt], p.Mentioned[p.StubAt] = p.AsmArg, p.StubArg
	p.PairDir, p.StubDirBase = d, "v2"
	return p
}
