package main

// C11: the assembly printer.
//   c11     exact byte comparison of printer.NewGoAsm(cfg).Print(file) with the Lean model's
//           rendering on generated files (well-formed and malformed token streams), plus the
//           acceptor that reads the implementation's text back into sections, instructions
//           and label bindings;
//   c11asm  compiled programs: go tool asm must accept the printed text, and the decoded
//           object code must have, per TEXT symbol, the instructions in order and every
//           branch landing on the instruction its label is bound to.

import (
	"fmt"
	"os"
	"os/exec"
	"path/filepath"
	"regexp"
	"strconv"
	"strings"

	"github.com/mmcloughlin/avo/attr"
	"github.com/mmcloughlin/avo/build"
	"github.com/mmcloughlin/avo/ir"
	"github.com/mmcloughlin/avo/operand"
	"github.com/mmcloughlin/avo/pass"
	"github.com/mmcloughlin/avo/printer"
	"github.com/mmcloughlin/avo/reg"
)

// p11PrintAsm calls the real printer; a panic is the distinct outcome "panic".
func p11PrintAsm(cfg printer.Config, f *ir.File) (out string, status string) {
	defer func() {
		if e := recover(); e != nil {
			out, status = "", "panic"
		}
	}()
	b, err := printer.NewGoAsm(cfg).Print(f)
	if err != nil {
		return "", "error"
	}
	return string(b), "ok"
}

func p11EmitPrint(o *out, cfg printer.Config, f *ir.File, st map[string]int) (string, bool) {
	e := &p11Enc{}
	p11EncodeCfg(e, cfg)
	if err := p11EncodeFile(e, f); err != nil {
		st["encode_error"]++
		return "", false
	}
	text, status := p11PrintAsm(cfg, f)
	st["print_"+status]++
	if status != "ok" {
		o.emit("print "+e.String(), status)
		return "", false
	}
	o.emit("print "+e.String(), hexs(text))
	wf := p11WellFormedFile(cfg, f)
	o.emit("wf "+e.String(), p11B01(wf))
	if wf {
		st["wellformed"]++
		o.emit("accept-print "+e.String()+" "+hexs(text), "ok")
	} else {
		st["malformed"]++
	}
	return text, true
}

func init() {
	register("c11", "assembly printer: model tie and read-back acceptor on generated files", func(args []string) error {
		f := newStdFlags("c11")
		if err := f.fs.Parse(args); err != nil {
			return err
		}
		o, err := openOut(f)
		if err != nil {
			return err
		}
		defer o.close()
		r := newRng(*f.seed)
		st := map[string]int{}
		// fixed corner cases first
		for _, file := range p11CornerFiles() {
			p11EmitPrint(o, printer.Config{Name: "avo", Pkg: "p"}, file, st)
		}
		for k := 0; k < *f.n; k++ {
			malformed := k%5 == 4
			file := p11GenFile(r, st, malformed)
			p11EmitPrint(o, p11GenConfig(r), file, st)
			for _, s := range file.Sections {
				switch s := s.(type) {
				case *ir.Function:
					st["functions"]++
					st[fmt.Sprintf("nodes_%s", p11Bucket(len(s.Nodes)))]++
					if s.Attributes != 0 {
						st["fn_with_attrs"]++
					}
					if s.ArgumentBytes() > 0 {
						st["fn_with_args"]++
					}
					if s.FrameBytes() != 0 {
						st["fn_with_frame"]++
					}
				case *ir.Global:
					st["globals"]++
				}
			}
		}
		return writeJSON(*f.stats, st)
	})
	register("c11asm", "compiled programs through go tool asm and objdump", p11RunC11Asm)
}

func p11Bucket(n int) string {
	switch {
	case n == 0:
		return "0"
	case n <= 3:
		return "1-3"
	case n <= 10:
		return "4-10"
	default:
		return "11+"
	}
}

// p11CornerFiles: hand-picked shapes the random stream may miss.
func p11CornerFiles() []*ir.File {
	var fs []*ir.File
	mk := func(nodes ...ir.Node) {
		f := ir.NewFile()
		fn := ir.NewFunction("f")
		fn.Nodes = nodes
		f.AddSection(fn)
		fs = append(fs, f)
	}
	ins := func(op string, term, br bool, ops ...operand.Op) *ir.Instruction {
		return &ir.Instruction{Opcode: op, Operands: ops, IsTerminal: term, IsBranch: br}
	}
	fs = append(fs, ir.NewFile())
	mk()
	mk(ir.Label("a"))
	mk(ir.NewComment())
	mk(ir.NewComment("only"))
	mk(ins("RET", true, false))
	mk(ins("RET", true, false), ir.Label("a"))
	mk(ins("RET", true, false), ir.NewComment())
	mk(ins("ADDQ", false, false, reg.RAX, reg.RBX), ins("VPTERNLOGQ", false, false), ins("X", false, false, reg.RAX))
	mk(ins("ADDQ", false, false, reg.RAX, reg.RBX), ins("JMP", false, true, operand.LabelRef("a")), ins("VPTERNLOGQ", false, false, reg.RAX), ir.Label("a"), ins("RET", true, false))
	mk(ir.Label("a"), ir.Label("b"), ir.NewComment("c"), ir.NewComment("d"), ir.Label("e"))
	mk(ins("A", false, false, reg.RAX), ir.NewComment(), ins("LONGOPCODE", false, false, reg.RAX), ir.NewComment("x"), ir.NewComment("y"), ins("B", false, false, reg.RAX))
	return fs
}

// ---------------------------------------------------------------------------

var p11ReUndef = regexp.MustCompile(`undefined label (\S+)`)

// asmInstrs: constructors whose output the Go assembler accepts with
// physical registers.
func p11GenAsmBody(r *rng, ctx *build.Context, st map[string]int, virt bool) {
	gp := func() reg.Register {
		return pick(r, []reg.Register{reg.RAX, reg.RBX, reg.RCX, reg.RDX, reg.RSI, reg.RDI, reg.R8, reg.R9, reg.R10, reg.R11})
	}
	var vregs []reg.GPVirtual
	if virt {
		for k := r.rangeIn(1, 3); k > 0; k-- {
			v := ctx.GP64()
			ctx.MOVQ(operand.U64(r.u64()), v)
			vregs = append(vregs, v)
		}
	}
	gpv := func() reg.Register {
		if len(vregs) > 0 && r.chance(1, 2) {
			return pick(r, vregs)
		}
		return gp()
	}
	xmm := func() reg.Register { return pick(r, p11XmmRegs[:5]) }
	ymm := func() reg.Register { return pick(r, p11YmmRegs[:5]) }
	zmm := func() reg.Register { return pick(r, p11ZmmRegs) }
	mem := func() operand.Mem {
		m := operand.Mem{Base: gp(), Disp: pick(r, []int{0, 8, -16, 128, 4096, -1 << 20})}
		if r.chance(1, 2) {
			m.Index = pick(r, []reg.Register{reg.RBX, reg.RCX, reg.RSI, reg.R9})
			m.Scale = pick(r, []uint8{1, 2, 4, 8})
		}
		return m
	}
	nlabels := r.intn(4)
	var labels []string
	for k := 0; k < nlabels; k++ {
		labels = append(labels, fmt.Sprintf("l%d", k))
	}
	placed := map[string]bool{}
	n := r.rangeIn(1, 16)
	for k := 0; k < n; k++ {
		// place a label?
		if len(labels) > 0 && r.chance(1, 4) {
			l := pick(r, labels)
			if !placed[l] {
				placed[l] = true
				ctx.Label(l)
			}
		}
		if r.chance(1, 8) {
			ctx.Comment(p11GenCommentLines(r)...)
		}
		switch r.intn(22) {
		case 0:
			ctx.ADDQ(gpv(), gpv())
		case 1:
			ctx.ADDQ(operand.I32(r.rangeIn(-1<<31, 1<<31-1)), gpv())
		case 2:
			ctx.MOVQ(mem(), gpv())
		case 3:
			ctx.MOVQ(gpv(), mem())
		case 4:
			ctx.MOVQ(operand.U64(r.u64()), gpv())
		case 5:
			ctx.XORL(reg.EAX, reg.EAX)
		case 6:
			ctx.LEAQ(mem(), gpv())
		case 7:
			ctx.SHLQ(operand.U8(r.intn(64)), gpv())
		case 8:
			ctx.CMPQ(gpv(), operand.I8(r.rangeIn(-128, 127)))
		case 9:
			ctx.PXOR(xmm(), xmm())
		case 10:
			ctx.MOVUPS(mem(), xmm())
		case 11:
			ctx.VADDPD(ymm(), ymm(), ymm())
		case 12:
			ctx.VPXOR(mem(), ymm(), ymm())
		case 13:
			ctx.VMOVDQU64(mem(), zmm())
		case 14:
			ctx.VADDPD_Z(zmm(), zmm(), pick(r, p11KRegs), zmm())
		case 15:
			ctx.IMUL3Q(operand.I32(r.rangeIn(-1000, 1000)), gpv(), gpv())
		case 16, 17, 18:
			if len(labels) > 0 {
				l := operand.LabelRef(pick(r, labels))
				switch r.intn(5) {
				case 0:
					ctx.JMP(l)
				case 1:
					ctx.JNE(l)
				case 2:
					ctx.JLT(l)
				case 3:
					ctx.JCC(l)
				default:
					ctx.JEQ(l)
				}
				st["asm_branches"]++
			} else {
				ctx.TESTQ(gpv(), gpv())
			}
		case 19:
			ctx.MOVL(operand.U32(r.u64()), reg.ECX)
		case 20:
			ctx.BSWAPQ(gpv())
		default:
			if r.chance(1, 3) {
				ctx.RET()
			} else {
				ctx.SUBQ(gpv(), gpv())
			}
		}
	}
	// every referenced label must be bound to an instruction
	for _, l := range labels {
		if !placed[l] {
			ctx.Label(l)
			placed[l] = true
		}
	}
	ctx.RET()
}

func p11GenAsmProgram(r *rng, st map[string]int, witnessF10 bool) *build.Context {
	ctx := build.NewContext()
	if r.chance(1, 3) {
		ctx.ConstraintExpr(pick(r, p11ConstraintPool))
	}
	nf := r.rangeIn(1, 3)
	for k := 0; k < nf; k++ {
		if r.chance(1, 5) {
			ctx.StaticGlobal(fmt.Sprintf("tbl%d", k))
			ctx.DataAttributes(attr.RODATA | attr.NOPTR)
			for j := r.rangeIn(1, 4); j > 0; j-- {
				ctx.AppendDatum(operand.U64(r.u64()))
			}
		}
		ctx.Function(fmt.Sprintf("f%d", k))
		switch r.intn(4) {
		case 0:
		case 1, 2:
			ctx.Attributes(attr.NOSPLIT)
		default:
			ctx.Attributes(attr.NOSPLIT | attr.NOFRAME)
		}
		ctx.SignatureExpr(pick(r, p11SigPool[:7]))
		if r.chance(1, 3) {
			ctx.AllocLocal(8 * r.rangeIn(1, 40))
		}
		if witnessF10 && k == 0 {
			// F10: a label referenced only by CALL
			ctx.XORL(reg.EAX, reg.EAX)
			ctx.CALL(operand.LabelRef("sub"))
			ctx.RET()
			ctx.Label("sub")
			ctx.ADDQ(operand.I8(1), reg.RAX)
			ctx.RET()
			continue
		}
		if r.chance(1, 1000) {
			ctx.CALL(operand.LabelRef("sub"))
			ctx.RET()
			ctx.Label("sub")
			st["asm_call_label"]++
		}
		p11GenAsmBody(r, ctx, st, r.chance(1, 3))
	}
	return ctx
}

func p11NonBranchLabelRefs(f *ir.File) map[string][]string {
	m := map[string][]string{}
	for _, fn := range f.Functions() {
		for _, i := range fn.Instructions() {
			if i.IsBranch {
				continue
			}
			for _, op := range i.Operands {
				if l, ok := op.(operand.LabelRef); ok {
					m[string(l)] = append(m[string(l)], i.Opcode)
				}
			}
		}
	}
	return m
}

// p11Prog is one line of the assembler's -S listing.
type p11Prog struct {
	pc, line, size int
	as, args       string
}

type p11Sym struct {
	name    string
	flags   string
	size    int
	locals  int
	argsize int
	progs   []p11Prog
	code    []byte
}

var (
	reSymHdr  = regexp.MustCompile(`^(\S+) STEXT (.*)size=(\d+) args=0x([0-9a-f]+) locals=0x([0-9a-f]+)`)
	reAnyHdr  = regexp.MustCompile(`^\S+ S[A-Z]+ `)
	reProg    = regexp.MustCompile(`^\t0x([0-9a-f]+) (\d+) \(([^()]*):(\d+)\)\t(\S+)(?:\t(.*))?$`)
	reHexLine = regexp.MustCompile(`^\t0x([0-9a-f]{4,}) ((?:[0-9a-f]{2} )+)`)
	reGnuLine = regexp.MustCompile(`^\s*([0-9a-f]+):\t([0-9a-f ]+)\t(\S+)\s*(.*)$`)
)

// p11ParseListing parses `go tool asm -S` output: per TEXT symbol its Progs
// (pc, source line, mnemonic) and machine code.
func p11ParseListing(out string) []p11Sym {
	var syms []p11Sym
	intext := false
	for _, l := range strings.Split(out, "\n") {
		if m := reSymHdr.FindStringSubmatch(l); m != nil {
			name := m[1]
			if i := strings.LastIndex(name, "."); i >= 0 {
				name = name[i+1:]
			}
			size, _ := strconv.Atoi(m[3])
			as, err := strconv.ParseInt(m[4], 16, 64)
			if err != nil || as > 1<<31 {
				as = -1 // ArgsSizeUnknown: the TEXT line has no "-args" part
			}
			locals, _ := strconv.ParseInt(m[5], 16, 64)
			syms = append(syms, p11Sym{name: name, flags: m[2], size: size, argsize: int(as), locals: int(locals)})
			intext = true
			continue
		}
		if reAnyHdr.MatchString(l) {
			intext = false
			continue
		}
		if !intext {
			continue
		}
		s := &syms[len(syms)-1]
		if m := reProg.FindStringSubmatch(l); m != nil {
			pc, _ := strconv.ParseInt(m[1], 16, 64)
			line, _ := strconv.Atoi(m[4])
			s.progs = append(s.progs, p11Prog{pc: int(pc), line: line, as: m[5], args: m[6]})
			continue
		}
		if m := reHexLine.FindStringSubmatch(l); m != nil {
			for _, h := range strings.Fields(m[2]) {
				b, _ := strconv.ParseUint(h, 16, 8)
				s.code = append(s.code, byte(b))
			}
		}
	}
	for si := range syms {
		s := &syms[si]
		for i := range s.progs {
			next := s.size
			if i+1 < len(s.progs) {
				next = s.progs[i+1].pc
			}
			s.progs[i].size = next - s.progs[i].pc
		}
	}
	return syms
}

type p11Gnu struct {
	mnemonic, ops string
}

const p11VMA = 0x100000

// p11Binutils decodes the concatenated machine code of the symbols with
// binutils objdump: address → instruction.
func p11Binutils(path string, syms []p11Sym) (map[int]p11Gnu, error) {
	var flat []byte
	for _, s := range syms {
		flat = append(flat, s.code...)
	}
	if err := os.WriteFile(path, flat, 0o644); err != nil {
		return nil, err
	}
	out, err := exec.Command("objdump", "-D", "-b", "binary", "-m", "i386:x86-64", "--insn-width=16",
		fmt.Sprintf("--adjust-vma=%#x", p11VMA), path).CombinedOutput()
	if err != nil {
		return nil, fmt.Errorf("binutils objdump: %v: %s", err, out)
	}
	m := map[int]p11Gnu{}
	for _, l := range strings.Split(string(out), "\n") {
		if g := reGnuLine.FindStringSubmatch(l); g != nil {
			a, _ := strconv.ParseInt(g[1], 16, 64)
			m[int(a)] = p11Gnu{g[3], strings.TrimSpace(g[4])}
		}
	}
	return m, nil
}

func p11RunC11Asm(args []string) error {
	f := newStdFlags("c11asm")
	work := f.fs.String("work", ".", "scratch directory for .s/.o files")
	if err := f.fs.Parse(args); err != nil {
		return err
	}
	o, err := openOut(f)
	if err != nil {
		return err
	}
	defer o.close()
	r := newRng(*f.seed ^ 0xa5a5)
	st := map[string]int{}
	dir := filepath.Join(*work, "asm")
	if err := os.MkdirAll(dir, 0o755); err != nil {
		return err
	}
	include := filepath.Join(goroot(), "pkg", "include")
	for k := 0; k < *f.n; k++ {
		ctx := p11GenAsmProgram(r, st, k == 0)
		file, err := ctx.Result()
		if err != nil {
			st["build_error"]++
			continue
		}
		refs := p11NonBranchLabelRefs(file)
		if err := pass.Compile.Execute(file); err != nil {
			st["compile_error"]++
			continue
		}
		st["compiled"]++
		// PruneSelfMoves invalidates the CFG structures; recompute the IR's label binding
		for _, fn := range file.Functions() {
			if err := pass.LabelTarget(fn); err != nil {
				st["labeltarget_error"]++
			}
		}
		cfg := printer.Config{Name: "avo", Pkg: "p"}
		text, ok := p11EmitPrint(o, cfg, file, st)
		if !ok {
			continue
		}
		e := &p11Enc{}
		p11EncodeCfg(e, cfg)
		if err := p11EncodeFile(e, file); err != nil {
			return err
		}
		spath := filepath.Join(dir, fmt.Sprintf("f%d.s", k))
		opath := filepath.Join(dir, fmt.Sprintf("f%d.o", k))
		if err := os.WriteFile(spath, []byte(text), 0o644); err != nil {
			return err
		}
		cmd := exec.Command("go", "tool", "asm", "-S", "-I", include, "-p", "p", "-o", opath, spath)
		msg, err := cmd.CombinedOutput()
		if err != nil {
			st["asm_rejected"]++
			reason := "other"
			if m := p11ReUndef.FindStringSubmatch(string(msg)); m != nil {
				if ops := refs[m[1]]; len(ops) > 0 {
					reason = "undefined-label/nonbranch-ref=" + strings.Join(ops, ",")
				} else {
					reason = "undefined-label/other"
				}
			}
			first := strings.SplitN(strings.TrimSpace(string(msg)), "\n", 2)[0]
			o.emit("accept-assembles "+reason+" "+hexs(first)+" "+e.String(), "ok")
			continue
		}
		st["asm_accepted"]++
		o.emit("accept-assembles ok - "+e.String(), "ok")
		syms := p11ParseListing(string(msg))
		gnu, err := p11Binutils(filepath.Join(dir, fmt.Sprintf("f%d.bin", k)), syms)
		if err != nil {
			return err
		}
		fns := file.Functions()
		a := &p11Enc{}
		a.int(len(syms))
		base := p11VMA
		decodeOK := "ok"
		for si, s := range syms {
			if len(s.code) != s.size {
				decodeOK = fmt.Sprintf("code-size/%s", s.name)
			}
			a.str(s.name)
			a.int(s.argsize)
			a.int(s.locals)
			a.add(p11B01(strings.Contains(s.flags, "nosplit")))
			var ents []string
			nent := 0
			// machine-code instruction starts according to binutils
			var starts []int
			for pc := 0; pc < s.size; pc++ {
				if _, ok := gnu[base+pc]; ok {
					starts = append(starts, pc)
				}
			}
			var want []int
			for _, p := range s.progs {
				if p.size == 0 {
					continue
				}
				want = append(want, p.pc)
				t := 0
				if g := gnu[base+p.pc]; strings.HasPrefix(g.mnemonic, "j") && strings.HasPrefix(g.ops, "0x") {
					v, err := strconv.ParseUint(strings.Fields(g.ops)[0][2:], 16, 64)
					if err == nil {
						t = int(int64(v)) - base + 1
						if t < 1 {
							t = 1 << 40
						}
					}
				}
				ents = append(ents, itoa(p.line), itoa(p.pc), itoa(t))
				nent++
			}
			if fmt.Sprint(starts) != fmt.Sprint(want) {
				decodeOK = fmt.Sprintf("boundaries/%s", s.name)
			}
			base += s.size
			a.int(nent)
			a.add(ents...)
			var fn *ir.Function
			if si < len(fns) {
				fn = fns[si]
			}
			if fn == nil {
				a.add("0", "0")
				continue
			}
			is := fn.Instructions()
			idx := map[*ir.Instruction]int{}
			for i, in := range is {
				idx[in] = i
			}
			var brs []string
			nbr := 0
			for i, in := range is {
				if l := in.TargetLabel(); l != nil {
					brs = append(brs, itoa(i), hexs(string(*l)))
					nbr++
				}
			}
			a.int(nbr)
			a.add(brs...)
			var lts []string
			nlt := 0
			// deterministic order: as the labels occur in the node list
			for _, l := range fn.Labels() {
				if t, ok := fn.LabelTarget[l]; ok {
					lts = append(lts, hexs(string(l)), itoa(idx[t]))
					nlt++
				}
			}
			a.int(nlt)
			a.add(lts...)
			st["asm_functions"]++
			st["asm_instructions"] += len(is)
		}
		// the assembler's Prog boundaries are the machine code's instruction boundaries
		o.emit("accept-decode "+decodeOK+" "+e.String(), "ok")
		o.emit("accept-asm "+e.String()+" "+hexs(text)+" "+a.String(), "ok")
		if os.Getenv("AVOH_KEEP") == "" {
			os.Remove(opath)
			os.Remove(spath)
			os.Remove(filepath.Join(dir, fmt.Sprintf("f%d.bin", k)))
		}
	}
	return writeJSON(*f.stats, st)
}
