package main

// C11: the assembly printer.
//   c11     exact byte comparison of printer.NewGoAsm(cfg).Print(file) with the Lean model's
//           rendering on generated files (well-formed and malformed token streams), plus the
//           acceptor that reads the implementation's text back into sections, instructions
//           and label bindings;
//   c11asm  compiled programs: go tool asm must accept the printed text, and the decoded
//           object code must have, per TEXT symbol, the instructions in order and every
//           branch landing on the instruction its label is bound to.

import (
	"fmt"
	"go/token"
	"go/types"
	"os"
	"os/exec"
	"path/filepath"
	"regexp"
	"strconv"
	"strings"

	"github.com/mmcloughlin/avo/attr"
	"github.com/mmcloughlin/avo/build"
	"github.com/mmcloughlin/avo/ir"
	"github.com/mmcloughlin/avo/operand"
	"github.com/mmcloughlin/avo/pass"
	"github.com/mmcloughlin/avo/printer"
	"github.com/mmcloughlin/avo/reg"
	"github.com/mmcloughlin/avo/x86"
)

// p11PrintAsm calls the real printer; a panic is the distinct outcome "panic".
func p11PrintAsm(cfg printer.Config, f *ir.File) (out string, status string) {
	defer func() {
		if e := recover(); e != nil {
			out, status = "", "panic"
		}
	}()
	b, err := printer.NewGoAsm(cfg).Print(f)
	if err != nil {
		return "", "error"
	}
	return string(b), "ok"
}

func p11EmitPrint(o *out, cfg printer.Config, f *ir.File, st map[string]int) (string, bool) {
	e := &p11Enc{}
	p11EncodeCfg(e, cfg)
	if err := p11EncodeFile(e, f); err != nil {
		st["encode_error"]++
		return "", false
	}
	text, status := p11PrintAsm(cfg, f)
	st["print_"+status]++
	if status != "ok" {
		o.emit("print "+e.String(), status)
		return "", false
	}
	o.emit("print "+e.String(), hexs(text))
	p11EmitFloatLits(o, f, st)
	wf := p11WellFormedFile(cfg, f)
	o.emit("wf "+e.String(), p11B01(wf))
	if wf {
		st["wellformed"]++
		o.emit("accept-print "+e.String()+" "+hexs(text), "ok")
	} else {
		st["malformed"]++
	}
	return text, true
}

// p11EmitFloatLits: every floating-point DATA value of the file, as the printer writes it, must be ONE float token of
// the assembler's scanner between `$(` and `)` (Lean: Model/AsmLit floatOperandOK, theorem withPoint_float).
func p11EmitFloatLits(o *out, f *ir.File, st map[string]int) {
	for _, s := range f.Sections {
		g, ok := s.(*ir.Global)
		if !ok {
			continue
		}
		for _, d := range g.Data {
			kind := ""
			switch d.Value.(type) {
			case operand.F32:
				kind = "f32"
			case operand.F64:
				kind = "f64"
			default:
				continue
			}
			st["float_literals"]++
			o.emit("accept-floatlit "+kind+" "+hexs(d.Value.Asm()), "ok")
		}
	}
}

func init() {
	register("c11", "assembly printer: model tie and read-back acceptor on generated files", func(args []string) error {
		f := newStdFlags("c11")
		if err := f.fs.Parse(args); err != nil {
			return err
		}
		o, err := openOut(f)
		if err != nil {
			return err
		}
		defer o.close()
		r := newRng(*f.seed)
		st := map[string]int{}
		if lines, ok := p11CorpusLines(*f.replay); ok {
			// corpus: `file <seed> <malformed 0|1> <long 0|1>` regenerates one file from its own seed
			for _, l := range lines {
				fs := strings.Fields(l)
				if len(fs) != 4 || fs[0] != "file" {
					continue
				}
				seed, err := strconv.ParseUint(fs[1], 10, 64)
				if err != nil {
					return fmt.Errorf("corpus line %q: %v", l, err)
				}
				cr := newRng(seed)
				file := p11GenFile(cr, st, fs[2] == "1")
				if fns := file.Functions(); len(fns) > 0 && fs[3] == "1" {
					p11SpliceLongRun(cr, st, pick(cr, fns))
				}
				p11EmitPrint(o, p11GenConfig(cr), file, st)
			}
			return writeJSON(*f.stats, st)
		}
		// fixed corner cases first
		for _, file := range p11CornerFiles() {
			p11EmitPrint(o, printer.Config{Name: "avo", Pkg: "p"}, file, st)
		}
		for k := 0; k < *f.n; k++ {
			malformed := k%5 == 4
			file := p11GenFile(r, st, malformed)
			if r.chance(1, 15) {
				// many sections (the base generator stops at 4)
				for j, m := len(file.Sections), r.rangeIn(5, 14); j < m; j++ {
					if r.chance(7, 10) {
						file.AddSection(p11GenFunction(r, st, malformed, j))
					} else {
						file.AddSection(p11GenGlobal(r, malformed, j))
					}
				}
				st["files_over_4_sections"]++
			}
			if fns := file.Functions(); len(fns) > 0 && r.chance(1, 12) {
				p11SpliceLongRun(r, st, pick(r, fns))
			}
			p11EmitPrint(o, p11GenConfig(r), file, st)
			for _, s := range file.Sections {
				switch s := s.(type) {
				case *ir.Function:
					st["functions"]++
					st[fmt.Sprintf("nodes_%s", p11Bucket(len(s.Nodes)))]++
					blk := 0
					for _, n := range s.Nodes {
						if in, ok := n.(*ir.Instruction); ok && !in.IsTerminal && !in.IsUnconditionalBranch() {
							blk++
							if blk == 65 {
								st["blocks_over_64"]++
							}
						} else {
							blk = 0
						}
					}
					if s.Attributes != 0 {
						st["fn_with_attrs"]++
					}
					if s.ArgumentBytes() > 0 {
						st["fn_with_args"]++
					}
					if s.FrameBytes() != 0 {
						st["fn_with_frame"]++
					}
				case *ir.Global:
					st["globals"]++
				}
			}
		}
		return writeJSON(*f.stats, st)
	})
	register("c11asm", "compiled programs through go tool asm and objdump", p11RunC11Asm)
}

// p11SpliceLongRun inserts, at a random position of the node list, a run of 65..400 instructions none of which
// ends a block (not terminal, not an unconditional branch): one flush of more than 64 buffered instructions.
func p11SpliceLongRun(r *rng, st map[string]int, fn *ir.Function) {
	n := r.rangeIn(65, 140)
	if r.chance(1, 4) {
		n = r.rangeIn(141, 400)
	}
	var run []ir.Node
	for len(run) < n {
		i := p11GenInstr(r, st)
		c := *i
		c.IsTerminal = false
		if c.IsBranch && !c.IsConditional {
			c.IsConditional = true
		}
		run = append(run, &c)
	}
	at := r.intn(len(fn.Nodes) + 1)
	nodes := append([]ir.Node{}, fn.Nodes[:at]...)
	nodes = append(nodes, run...)
	fn.Nodes = append(nodes, fn.Nodes[at:]...)
	st["long_runs"]++
}

// p11CorpusLines: the lines of a corpus file (corpus/C11/*.txt, concatenated by the check).  A replay file written
// by ./check (JSON) is not a corpus: the recorded run is regenerated from its seed and tier instead.
func p11CorpusLines(path string) ([]string, bool) {
	if path == "" {
		return nil, false
	}
	data, err := os.ReadFile(path)
	if err != nil || strings.HasPrefix(strings.TrimSpace(string(data)), "{") {
		return nil, false
	}
	lines, err := readLines(path)
	if err != nil {
		return nil, false
	}
	return lines, true
}

func p11Bucket(n int) string {
	switch {
	case n == 0:
		return "0"
	case n <= 3:
		return "1-3"
	case n <= 10:
		return "4-10"
	default:
		return "11+"
	}
}

// p11CornerFiles: hand-picked shapes the random stream may miss.
func p11CornerFiles() []*ir.File {
	var fs []*ir.File
	mk := func(nodes ...ir.Node) {
		f := ir.NewFile()
		fn := ir.NewFunction("f")
		fn.Nodes = nodes
		f.AddSection(fn)
		fs = append(fs, f)
	}
	ins := func(op string, term, br bool, ops ...operand.Op) *ir.Instruction {
		return &ir.Instruction{Opcode: op, Operands: ops, IsTerminal: term, IsBranch: br}
	}
	fs = append(fs, ir.NewFile())
	mk()
	mk(ir.Label("a"))
	mk(ir.NewComment())
	mk(ir.NewComment("only"))
	mk(ins("RET", true, false))
	mk(ins("RET", true, false), ir.Label("a"))
	mk(ins("RET", true, false), ir.NewComment())
	mk(ins("ADDQ", false, false, reg.RAX, reg.RBX), ins("VPTERNLOGQ", false, false), ins("X", false, false, reg.RAX))
	mk(ins("ADDQ", false, false, reg.RAX, reg.RBX), ins("JMP", false, true, operand.LabelRef("a")), ins("VPTERNLOGQ", false, false, reg.RAX), ir.Label("a"), ins("RET", true, false))
	mk(ir.Label("a"), ir.Label("b"), ir.NewComment("c"), ir.NewComment("d"), ir.Label("e"))
	mk(ins("A", false, false, reg.RAX), ir.NewComment(), ins("LONGOPCODE", false, false, reg.RAX), ir.NewComment("x"), ir.NewComment("y"), ins("B", false, false, reg.RAX))
	return fs
}

// ---------------------------------------------------------------------------
// c11asm: generated programs

// Label names the Go assembler reads as plain identifiers (measured: every one of them assembles to a
// relative jump to the label).
var p11AsmLabelPool = []string{"l0", "l1", "l2", "loop", "done", "L1", "tail_2", "again", "x", "end", "λabel", "é", "R16", "GO_ARGS", "true", "ret", "TEXT", "DATA_", "_", "a_very_long_label_name_with_many_parts_0123456789"}

// Function and data symbol names: valid Go identifiers, including ones that are register names, pseudo-register
// names or textflag.h macros when they stand alone (behind `·` they are ordinary symbol characters).
var p11AsmFuncPool = []string{"f", "Add", "sum_avx2", "Σ", "AX", "SB", "NOSPLIT", "g", "_x", "R8", "a1", "long_function_name_with_many_parts"}
var p11AsmDataPool = []string{"tbl", "consts", "k256", "Σtab", "AX", "mask_1", "DUPOK"}

// p11Hazard: a label name that pass.Compile accepts without complaint but that the Go assembler does not read as
// a label.  The class is a property of the NAME under the assembler's lexical rules (hand-tagged here,
// independent of avo); what happens is measured.
type p11Hazard struct{ name, class string }

var p11HazardLabels = []p11Hazard{
	// general registers: `JMP AX` is an indirect jump through the register (silent miscompile), `Jcc AX` is rejected
	{"AX", "register"}, {"R8", "register"}, {"SP", "register"}, {"g", "register"},
	// other registers: every branch is rejected
	{"X0", "register"}, {"K1", "register"}, {"AL", "register"}, {"Z31", "register"}, {"CS", "register"}, {"TLS", "register"},
	{"SB", "pseudo-register"}, {"FP", "pseudo-register"}, {"PC", "pseudo-register"},
	// macros of textflag.h (the header is included whenever a section has a named flag)
	{"NOSPLIT", "textflag-macro"}, {"DUPOK", "textflag-macro"}, {"NOFRAME", "textflag-macro"},
	// not an identifier of the assembler's lexer
	{"a.b", "not-identifier"}, {"x-1", "not-identifier"}, {"x+1", "not-identifier"}, {"a b", "not-identifier"},
	{"1x", "not-identifier"}, {"a$b", "not-identifier"}, {"a(b)", "not-identifier"}, {"x,y", "not-identifier"},
	// identifier characters the lexer rewrites (U+00B7 -> '.', U+2215 -> '/'): the reference no longer names the label
	{"a·b", "lexer-rewritten"}, {"a∕b", "lexer-rewritten"},
}

func p11HazardClass(label string) string {
	for _, h := range p11HazardLabels {
		if h.name == label {
			return h.class
		}
	}
	return ""
}

// p11BranchTable: the branch opcodes of avo's instruction table, obtained behaviourally: every opcode of the
// compiled table whose name starts with J and whose constructor accepts a label operand.  rel8only: the
// constructor rejects a far relative offset (JCXZL, JCXZQ: only a short encoding exists).
type p11BranchOp struct {
	opcode   string
	rel8only bool
}

var p11BranchOpsCache []p11BranchOp

func p11BranchOps() []p11BranchOp {
	if p11BranchOpsCache != nil {
		return p11BranchOpsCache
	}
	seen := map[string]bool{}
	for _, f := range x86.VerifForms() {
		if seen[f.Opcode] || !strings.HasPrefix(f.Opcode, "J") {
			continue
		}
		seen[f.Opcode] = true
		if i, err := x86.VerifBuild(f.Opcode, nil, []operand.Op{operand.LabelRef("l")}); err != nil || i == nil {
			continue
		}
		far, err := x86.VerifBuild(f.Opcode, nil, []operand.Op{operand.Rel(1 << 20)})
		p11BranchOpsCache = append(p11BranchOpsCache, p11BranchOp{f.Opcode, err != nil || far == nil})
	}
	return p11BranchOpsCache
}

func p11Branch(ctx *build.Context, st map[string]int, opcode, label string) {
	i, err := x86.VerifBuild(opcode, nil, []operand.Op{operand.LabelRef(label)})
	if err != nil || i == nil {
		st["branch_ctor_error"]++
		return
	}
	ctx.Instruction(i)
	st["asm_branches"]++
	st["br_"+opcode]++
}

// p11ArgBytes: the argument size of a signature under the ABI0 stack layout, computed with go/types (gc/amd64
// sizes) — an expectation independent of avo's gotypes package: parameters in order at their alignment, results
// starting at the next multiple of the word size, no padding after the last result.
func p11ArgBytes(expr string) (int, error) {
	tv, err := types.Eval(token.NewFileSet(), nil, token.NoPos, expr)
	if err != nil {
		return 0, err
	}
	sig, ok := tv.Type.(*types.Signature)
	if !ok {
		return 0, fmt.Errorf("%q is not a signature", expr)
	}
	sizes := types.SizesFor("gc", "amd64")
	off := int64(0)
	place := func(t *types.Tuple) {
		for i := 0; i < t.Len(); i++ {
			ty := t.At(i).Type()
			a := sizes.Alignof(ty)
			off = (off + a - 1) / a * a
			off += sizes.Sizeof(ty)
		}
	}
	place(sig.Params())
	if sig.Results().Len() > 0 {
		off = (off + 7) / 8 * 8
		place(sig.Results())
	}
	return int(off), nil
}

// p11Want: what the generator asked for, per function (by position in the file).
type p11Want struct {
	name        string
	frame, args int
}

type p11AsmCase struct {
	ctx  *build.Context
	tag  string // "plain" | "hazard=<class>/<label-hex>/<opcode>" | "f10"
	want []p11Want
}

var p11AsmAttrPool = []attr.Attribute{
	0, attr.NOSPLIT, attr.NOSPLIT, attr.NOSPLIT | attr.NOFRAME, attr.DUPOK, attr.DUPOK | attr.NOSPLIT, attr.TOPFRAME | attr.NOSPLIT,
	attr.WRAPPER, attr.NEEDCTXT | attr.NOSPLIT, 4096, attr.NOSPLIT | 4096, 128, attr.NOPROF | attr.REFLECTMETHOD, attr.NOFRAME,
	attr.TOPFRAME | attr.NOSPLIT | attr.NOFRAME | attr.DUPOK,
}

var p11AsmDataAttrPool = []attr.Attribute{attr.RODATA | attr.NOPTR, attr.RODATA | attr.NOPTR, attr.NOPTR, attr.RODATA, 0, attr.DUPOK | attr.NOPTR}

// asmInstrs: constructors whose output the Go assembler accepts with
// physical registers.
func p11GenAsmBody(r *rng, ctx *build.Context, st map[string]int, virt bool, globals []operand.Mem) {
	gp := func() reg.Register {
		return pick(r, []reg.Register{reg.RAX, reg.RBX, reg.RCX, reg.RDX, reg.RSI, reg.RDI, reg.R8, reg.R9, reg.R10, reg.R11})
	}
	var vregs []reg.GPVirtual
	if virt {
		for k := r.rangeIn(1, 3); k > 0; k-- {
			v := ctx.GP64()
			ctx.MOVQ(operand.U64(r.u64()), v)
			vregs = append(vregs, v)
		}
	}
	gpv := func() reg.Register {
		if len(vregs) > 0 && r.chance(1, 2) {
			return pick(r, vregs)
		}
		return gp()
	}
	xmm := func() reg.Register { return pick(r, p11XmmRegs[:5]) }
	ymm := func() reg.Register { return pick(r, p11YmmRegs[:5]) }
	zmm := func() reg.Register { return pick(r, p11ZmmRegs) }
	mem := func() operand.Mem {
		if len(globals) > 0 && r.chance(1, 6) {
			return pick(r, globals)
		}
		m := operand.Mem{Base: gp(), Disp: pick(r, []int{0, 8, -16, 128, 4096, -1 << 20})}
		if r.chance(1, 2) {
			m.Index = pick(r, []reg.Register{reg.RBX, reg.RCX, reg.RSI, reg.R9})
			m.Scale = pick(r, []uint8{1, 2, 4, 8})
		}
		return m
	}
	var branchOps []string
	for _, b := range p11BranchOps() {
		if !b.rel8only {
			branchOps = append(branchOps, b.opcode)
		}
	}
	nlabels := r.intn(4)
	var labels []string
	for len(labels) < nlabels {
		l := pick(r, p11AsmLabelPool)
		dup := false
		for _, x := range labels {
			dup = dup || x == l
		}
		if !dup {
			labels = append(labels, l)
		}
	}
	placed := map[string]bool{}
	n := r.rangeIn(1, 16)
	// a long run of instructions without label, comment, terminal or unconditional jump: one flushed block of
	// more than 64 buffered instructions
	longAt, longLen := -1, 0
	if r.chance(1, 12) {
		longAt, longLen = r.intn(n), r.rangeIn(65, 200)
		st["asm_long_blocks"]++
	}
	plain := func() {
		switch r.intn(19) {
		case 0:
			ctx.ADDQ(gpv(), gpv())
		case 1:
			ctx.ADDQ(operand.I32(r.rangeIn(-1<<31, 1<<31-1)), gpv())
		case 2:
			ctx.MOVQ(mem(), gpv())
		case 3:
			ctx.MOVQ(gpv(), mem())
		case 4:
			ctx.MOVQ(operand.U64(r.u64()), gpv())
		case 5:
			ctx.XORL(reg.EAX, reg.EAX)
		case 6:
			ctx.LEAQ(mem(), gpv())
		case 7:
			ctx.SHLQ(operand.U8(r.intn(64)), gpv())
		case 8:
			ctx.CMPQ(gpv(), operand.I8(r.rangeIn(-128, 127)))
		case 9:
			ctx.PXOR(xmm(), xmm())
		case 10:
			ctx.MOVUPS(mem(), xmm())
		case 11:
			ctx.VADDPD(ymm(), ymm(), ymm())
		case 12:
			ctx.VPXOR(mem(), ymm(), ymm())
		case 13:
			ctx.VMOVDQU64(mem(), zmm())
		case 14:
			ctx.VADDPD_Z(zmm(), zmm(), pick(r, p11KRegs), zmm())
		case 15:
			ctx.IMUL3Q(operand.I32(r.rangeIn(-1000, 1000)), gpv(), gpv())
		case 16:
			ctx.MOVL(operand.U32(r.u64()), reg.ECX)
		case 17:
			ctx.BSWAPQ(gpv())
		default:
			ctx.TESTQ(gpv(), gpv())
		}
	}
	for k := 0; k < n; k++ {
		if k == longAt {
			for j := 0; j < longLen; j++ {
				plain()
			}
		}
		// place a label?
		if len(labels) > 0 && r.chance(1, 4) {
			l := pick(r, labels)
			if !placed[l] {
				placed[l] = true
				ctx.Label(l)
			}
		}
		if r.chance(1, 8) {
			ctx.Comment(p11GenCommentLines(r)...)
		}
		switch r.intn(22) {
		case 16, 17, 18:
			if len(labels) > 0 {
				p11Branch(ctx, st, pick(r, branchOps), pick(r, labels))
			} else {
				plain()
			}
		case 19:
			if r.chance(1, 3) {
				ctx.RET()
			} else {
				ctx.SUBQ(gpv(), gpv())
			}
		default:
			plain()
		}
	}
	// every referenced label must be bound to an instruction
	for _, l := range labels {
		if !placed[l] {
			ctx.Label(l)
			placed[l] = true
		}
	}
	ctx.RET()
}

// p11AsmFunction opens a function with a generated name, attributes, signature and frame, and records what was
// asked for.
func p11AsmFunction(r *rng, c *p11AsmCase, k int, attrs attr.Attribute) {
	ctx := c.ctx
	name := fmt.Sprintf("%s%d", pick(r, p11AsmFuncPool), k)
	if k == 0 && r.chance(1, 3) {
		name = pick(r, p11AsmFuncPool)
	}
	ctx.Function(name)
	if attrs != 0 {
		ctx.Attributes(attrs)
	}
	sig := pick(r, p11SigPool[:7])
	ctx.SignatureExpr(sig)
	w := p11Want{name: name}
	w.args, _ = p11ArgBytes("func " + strings.TrimPrefix(sig, "func"))
	if r.chance(1, 3) {
		for j := r.rangeIn(1, 2); j > 0; j-- {
			sz := 8 * r.rangeIn(1, 40)
			ctx.AllocLocal(sz)
			w.frame += sz
		}
	}
	c.want = append(c.want, w)
}

func p11GenAsmAttr(r *rng) attr.Attribute {
	if r.chance(1, 10) {
		return attr.Attribute(r.u64())
	}
	return pick(r, p11AsmAttrPool)
}

// p11GenF10 is the witness of finding F10: a label referenced only by CALL.
func p11GenF10(r *rng, st map[string]int) *p11AsmCase {
	c := &p11AsmCase{ctx: build.NewContext(), tag: "f10"}
	p11AsmFunction(r, c, 0, attr.NOSPLIT)
	ctx := c.ctx
	ctx.XORL(reg.EAX, reg.EAX)
	ctx.CALL(operand.LabelRef("sub"))
	ctx.RET()
	ctx.Label("sub")
	ctx.ADDQ(operand.I8(1), reg.RAX)
	ctx.RET()
	st["asm_call_label"]++
	return c
}

// p11GenHazard: one function that branches with `opcode` to a label with a hazardous name.
func p11GenHazard(r *rng, st map[string]int, h p11Hazard, opcode string) *p11AsmCase {
	c := &p11AsmCase{ctx: build.NewContext(), tag: "hazard=" + h.class + "/" + hexs(h.name) + "/" + opcode}
	// a named flag, so that textflag.h is included (macro names are only macros then)
	p11AsmFunction(r, c, 0, attr.NOSPLIT)
	ctx := c.ctx
	ctx.XORL(reg.EAX, reg.EAX)
	p11Branch(ctx, st, opcode, h.name)
	ctx.ADDQ(operand.I8(1), reg.RAX)
	ctx.Label(h.name)
	ctx.RET()
	st["asm_hazard_files"]++
	st["hazard_"+h.class]++
	return c
}

// p11GenShortBranches: every branch opcode once, each to a label two instructions away (the only shape in which
// the rel8-only opcodes can be used).
func p11GenShortBranches(r *rng, st map[string]int) *p11AsmCase {
	c := &p11AsmCase{ctx: build.NewContext(), tag: "plain"}
	p11AsmFunction(r, c, 0, p11GenAsmAttr(r))
	ctx := c.ctx
	for i, b := range p11BranchOps() {
		l := fmt.Sprintf("s%d", i)
		p11Branch(ctx, st, b.opcode, l)
		ctx.ADDQ(operand.I8(1), reg.RAX)
		ctx.Label(l)
		ctx.SUBQ(operand.I8(1), reg.RBX)
	}
	ctx.RET()
	st["asm_short_branch_files"]++
	return c
}

func p11GenAsmProgram(r *rng, st map[string]int) *p11AsmCase {
	c := &p11AsmCase{ctx: build.NewContext(), tag: "plain"}
	ctx := c.ctx
	if r.chance(1, 3) {
		ctx.ConstraintExpr(pick(r, p11ConstraintPool))
	}
	var globals []operand.Mem
	nf := r.rangeIn(1, 3)
	for k := 0; k < nf; k++ {
		if r.chance(1, 4) {
			m := ctx.StaticGlobal(fmt.Sprintf("%s%d", pick(r, p11AsmDataPool), k))
			ctx.DataAttributes(pick(r, p11AsmDataAttrPool))
			for j := r.rangeIn(1, 4); j > 0; j-- {
				ctx.AppendDatum(operand.U64(r.u64()))
			}
			globals = append(globals, m)
			st["asm_globals"]++
		}
		p11AsmFunction(r, c, k, p11GenAsmAttr(r))
		if r.chance(1, 100) {
			// F10 as one function of an otherwise ordinary file: such a file is judged function by function.
			// (No other branch in this function: after an undefined label the assembler also rejects every
			// other branch of the function, which would blur the classification.)
			ctx.CALL(operand.LabelRef("sub"))
			ctx.RET()
			ctx.Label("sub")
			ctx.ADDQ(operand.I8(1), reg.RAX)
			ctx.RET()
			st["asm_call_label"]++
			continue
		}
		p11GenAsmBody(r, ctx, st, r.chance(1, 3), globals)
	}
	return c
}

// p11Prog is one line of the assembler's -S listing.
type p11Prog struct {
	pc, line, size int
	as, args       string
}

type p11Sym struct {
	name    string
	flags   string
	size    int
	locals  int
	argsize int
	funcid  int
	progs   []p11Prog
	code    []byte
}

var (
	reSymHdr  = regexp.MustCompile(`^(\S+) STEXT (.*)size=(\d+) args=0x([0-9a-f]+) locals=0x([0-9a-f]+) funcid=0x([0-9a-f]+)`)
	reAnyHdr  = regexp.MustCompile(`^\S+ S[A-Z]+ `)
	reProg    = regexp.MustCompile(`^\t0x([0-9a-f]+) (\d+) \(([^()]*):(\d+)\)\t(\S+)(?:\t(.*))?$`)
	reHexLine = regexp.MustCompile(`^\t0x([0-9a-f]{4,}) ((?:[0-9a-f]{2} )+)`)
	reGnuLine = regexp.MustCompile(`^\s*([0-9a-f]+):\t([0-9a-f ]+)\t(\S+)\s*(.*)$`)
)

// p11ParseListing parses `go tool asm -S` output: per TEXT symbol its Progs
// (pc, source line, mnemonic) and machine code.
func p11ParseListing(out string) []p11Sym {
	var syms []p11Sym
	intext := false
	for _, l := range strings.Split(out, "\n") {
		if m := reSymHdr.FindStringSubmatch(l); m != nil {
			name := m[1]
			if i := strings.LastIndex(name, "."); i >= 0 {
				name = name[i+1:]
			}
			size, _ := strconv.Atoi(m[3])
			as, err := strconv.ParseInt(m[4], 16, 64)
			if err != nil || as > 1<<31 {
				as = -1 // ArgsSizeUnknown: the TEXT line has no "-args" part
			}
			locals, _ := strconv.ParseInt(m[5], 16, 64)
			funcid, _ := strconv.ParseInt(m[6], 16, 64)
			syms = append(syms, p11Sym{name: name, flags: m[2], size: size, argsize: int(as), locals: int(locals), funcid: int(funcid)})
			intext = true
			continue
		}
		if reAnyHdr.MatchString(l) {
			intext = false
			continue
		}
		if !intext {
			continue
		}
		s := &syms[len(syms)-1]
		if m := reProg.FindStringSubmatch(l); m != nil {
			pc, _ := strconv.ParseInt(m[1], 16, 64)
			line, _ := strconv.Atoi(m[4])
			s.progs = append(s.progs, p11Prog{pc: int(pc), line: line, as: m[5], args: m[6]})
			continue
		}
		if m := reHexLine.FindStringSubmatch(l); m != nil {
			for _, h := range strings.Fields(m[2]) {
				b, _ := strconv.ParseUint(h, 16, 8)
				s.code = append(s.code, byte(b))
			}
		}
	}
	for si := range syms {
		s := &syms[si]
		for i := range s.progs {
			next := s.size
			if i+1 < len(s.progs) {
				next = s.progs[i+1].pc
			}
			s.progs[i].size = next - s.progs[i].pc
		}
	}
	return syms
}

type p11Gnu struct {
	mnemonic, ops string
}

const p11VMA = 0x100000

// p11Binutils decodes the concatenated machine code of the symbols with
// binutils objdump: address → instruction.
func p11Binutils(path string, syms []p11Sym) (map[int]p11Gnu, error) {
	var flat []byte
	for _, s := range syms {
		flat = append(flat, s.code...)
	}
	if err := os.WriteFile(path, flat, 0o644); err != nil {
		return nil, err
	}
	out, err := exec.Command("objdump", "-D", "-b", "binary", "-m", "i386:x86-64", "--insn-width=16",
		fmt.Sprintf("--adjust-vma=%#x", p11VMA), path).CombinedOutput()
	if err != nil {
		return nil, fmt.Errorf("binutils objdump: %v: %s", err, out)
	}
	m := map[int]p11Gnu{}
	for _, l := range strings.Split(string(out), "\n") {
		if g := reGnuLine.FindStringSubmatch(l); g != nil {
			a, _ := strconv.ParseInt(g[1], 16, 64)
			m[int(a)] = p11Gnu{g[3], strings.TrimSpace(g[4])}
		}
	}
	return m, nil
}

func p11NonBranchLabelRefs(f *ir.File) map[string][]string {
	m := map[string][]string{}
	for _, fn := range f.Functions() {
		for _, i := range fn.Instructions() {
			if i.IsBranch {
				continue
			}
			for _, op := range i.Operands {
				if l, ok := op.(operand.LabelRef); ok {
					m[string(l)] = append(m[string(l)], i.Opcode)
				}
			}
		}
	}
	return m
}

var (
	// `file.s:7: message` / `file.s:5:7: message` (lexer, parser) and `asm: pkg.fn: message: 00002 (file.s:5)\t…` (encoder)
	reAsmErrParse  = regexp.MustCompile(`^\S+\.s:(\d+)(?::\d+)?: (.*)$`)
	reAsmErrEncode = regexp.MustCompile(`^asm: [^:]+: ([^:]+): \d+ \(\S+\.s:(\d+)\)`)
	reAsmTrailer   = regexp.MustCompile(`^asm: (assembly of \S+ failed|assembly failed|too many errors)$`)
	reUndefLabel   = regexp.MustCompile(`^undefined label (.+)$`)
)

// p11Slug: the first (at most two) purely alphabetic words of an assembler message.
func p11Slug(msg string) string {
	var ws []string
	for _, w := range strings.Fields(msg) {
		w = strings.TrimRight(w, ",:;")
		ok := w != ""
		for _, c := range w {
			ok = ok && (c >= 'a' && c <= 'z' || c >= 'A' && c <= 'Z')
		}
		if !ok || len(ws) == 2 {
			break
		}
		ws = append(ws, strings.ToLower(w))
	}
	if len(ws) == 0 {
		return "message"
	}
	return strings.Join(ws, "-")
}

// p11LexRewrite: what the assembler's lexer makes of an identifier (U+00B7 -> '.', U+2215 -> '/').
func p11LexRewrite(s string) string {
	return strings.NewReplacer("·", ".", "∕", "/").Replace(s)
}

// p11ClassifyReject explains a rejection by `go tool asm` of the printed text of ONE function (plus data
// sections).  Every message of the assembler must be explained by the same cause, otherwise the answer is "other":
//
//	label-name/<class>/<slug>     every message points at a label line `L:` or at an instruction whose operand is the
//	                              label L (or names L as undefined), and L's name is hazardous (class of the NAME)
//	undefined-label/nonbranch-ref=<opcodes>
//	                              every message says that a label is undefined which the program references from
//	                              non-branch instructions only (F10)
func p11ClassifyReject(msg, text string, file *ir.File) string {
	refs := p11NonBranchLabelRefs(file)
	labels := map[string]bool{}
	branchRef := map[string]bool{}
	for _, fn := range file.Functions() {
		for _, n := range fn.Nodes {
			if l, ok := n.(ir.Label); ok {
				labels[string(l)] = true
			}
		}
		for _, i := range fn.Instructions() {
			for _, op := range i.Operands {
				if l, ok := op.(operand.LabelRef); ok {
					labels[string(l)] = true
					if i.IsBranch {
						branchRef[string(l)] = true
					}
				}
			}
		}
	}
	lines := strings.Split(text, "\n")
	culpritAt := func(n int) string {
		if n < 1 || n > len(lines) {
			return ""
		}
		l := lines[n-1]
		if strings.HasPrefix(l, "\t") {
			fs := strings.Fields(l)
			if len(fs) >= 2 {
				rest := strings.TrimSpace(strings.TrimPrefix(strings.TrimSpace(l), fs[0]))
				if labels[rest] {
					return rest
				}
			}
			return ""
		}
		if strings.HasSuffix(l, ":") && labels[strings.TrimSuffix(l, ":")] {
			return strings.TrimSuffix(l, ":")
		}
		return ""
	}
	cause, slug, n := "", "", 0
	for _, l := range strings.Split(strings.TrimSpace(msg), "\n") {
		l = strings.TrimRight(l, "\r")
		if l == "" || reAsmTrailer.MatchString(l) {
			continue
		}
		var line int
		var m string
		if g := reAsmErrParse.FindStringSubmatch(l); g != nil {
			line, _ = strconv.Atoi(g[1])
			m = g[2]
		} else if g := reAsmErrEncode.FindStringSubmatch(l); g != nil {
			line, _ = strconv.Atoi(g[2])
			m = g[1]
		} else {
			return "other"
		}
		this := ""
		if g := reUndefLabel.FindStringSubmatch(m); g != nil {
			for name := range labels {
				rw := p11LexRewrite(name)
				if g[1] != name && g[1] != rw && g[1] != "p"+rw {
					continue
				}
				if c := p11HazardClass(name); c != "" {
					this = "label-name/" + c
				} else if ops := refs[name]; len(ops) > 0 && !branchRef[name] {
					this = "undefined-label/nonbranch-ref=" + strings.Join(ops, ",")
				}
			}
		} else if name := culpritAt(line); name != "" {
			if c := p11HazardClass(name); c != "" {
				this = "label-name/" + c
			} else if ops := refs[name]; len(ops) > 0 && !branchRef[name] {
				// the instruction that refers to the pruned label cannot be encoded either
				this = "undefined-label/nonbranch-ref=" + strings.Join(ops, ",")
			}
		}
		if this == "" || (cause != "" && this != cause) {
			return "other"
		}
		if n == 0 {
			slug = p11Slug(m)
		}
		cause = this
		n++
	}
	if cause == "" {
		return "other"
	}
	if strings.HasPrefix(cause, "label-name/") {
		return cause + "/" + slug
	}
	return cause
}

// p11Asm measures one compiled file: print, assemble, decode, and emit the acceptor requests.
type p11Asm struct {
	o            *out
	st           map[string]int
	dir, include string
	seq          int
	cfg          printer.Config
	// pre: assembler runs done ahead of time (in parallel) by the caller, keyed by the printed text; nil = run here
	pre map[string]p11AsmRun
	// what the last measure call saw (for callers that look at more of the object: harness/c11cov.go)
	lastAccepted bool
	lastListing  string
}

// p11AsmRun is the outcome of one `go tool asm -S` run.
type p11AsmRun struct {
	msg []byte
	err error
}

// p11RunAsm assembles one printed file.
func p11RunAsm(include, spath, opath string) p11AsmRun {
	msg, err := exec.Command("go", "tool", "asm", "-S", "-I", include, "-p", "p", "-o", opath, spath).CombinedOutput()
	return p11AsmRun{msg, err}
}

// subFile: the data sections of a file and ONE of its functions.
func p11SubFile(file *ir.File, fn *ir.Function) *ir.File {
	sub := ir.NewFile()
	sub.Constraints = file.Constraints
	sub.Includes = append([]string(nil), file.Includes...)
	for _, s := range file.Sections {
		if g, ok := s.(*ir.Global); ok {
			sub.AddSection(g)
		} else if s == ir.Section(fn) {
			sub.AddSection(fn)
		}
	}
	return sub
}

func (a *p11Asm) measure(file *ir.File, tag string, want []p11Want, split bool) error {
	o, st := a.o, a.st
	text, ok := p11EmitPrint(o, a.cfg, file, st)
	if !ok {
		st["print_dropped"]++
		return nil
	}
	e := &p11Enc{}
	p11EncodeCfg(e, a.cfg)
	if err := p11EncodeFile(e, file); err != nil {
		return err
	}
	a.seq++
	base := filepath.Join(a.dir, fmt.Sprintf("f%d", a.seq))
	spath, opath := base+".s", base+".o"
	if err := os.WriteFile(spath, []byte(text), 0o644); err != nil {
		return err
	}
	if os.Getenv("AVOH_KEEP") == "" {
		defer func() {
			os.Remove(opath)
			os.Remove(spath)
			os.Remove(base + ".bin")
		}()
	}
	run, have := a.pre[text]
	if !have {
		run = p11RunAsm(a.include, spath, opath)
	}
	msg, err := run.msg, run.err
	a.lastAccepted, a.lastListing = err == nil, string(msg)
	fns := file.Functions()
	if err != nil {
		st["asm_rejected"]++
		first := strings.SplitN(strings.TrimSpace(string(msg)), "\n", 2)[0]
		if len(fns) > 1 && split {
			// judge function by function: a rejection is attributed to the function(s) that are rejected alone
			st["asm_split_files"]++
			before := st["asm_rejected"]
			for i, fn := range fns {
				var w []p11Want
				if i < len(want) {
					w = want[i : i+1]
				}
				if err := a.measure(p11SubFile(file, fn), tag, w, false); err != nil {
					return err
				}
			}
			if st["asm_rejected"] == before {
				o.emit("accept-assembles whole-file-rejected-parts-accepted "+hexs(first)+" "+tag+" "+e.String(), "ok")
			}
			return nil
		}
		reason := p11ClassifyReject(string(msg), text, file)
		st["reject_"+strings.SplitN(reason, "/", 3)[0]]++
		o.emit("accept-assembles "+reason+" "+hexs(first)+" "+tag+" "+e.String(), "ok")
		return nil
	}
	st["asm_accepted"]++
	o.emit("accept-assembles ok - "+tag+" "+e.String(), "ok")
	syms := p11ParseListing(string(msg))
	gnu, err := p11Binutils(base+".bin", syms)
	if err != nil {
		return err
	}
	en := &p11Enc{}
	en.int(len(syms))
	pcbase := p11VMA
	decodeOK := "ok"
	for si, s := range syms {
		if len(s.code) != s.size {
			decodeOK = fmt.Sprintf("code-size/%s", s.name)
		}
		en.str(s.name)
		en.int(s.argsize)
		en.int(s.locals)
		flag := func(w string) string { return p11B01(strings.Contains(" "+s.flags, " "+w+" ")) }
		en.add(flag("nosplit"), flag("dupok"), flag("topframe"), p11B01(s.funcid == 0x16))
		if si < len(want) {
			en.int(want[si].frame)
			en.int(want[si].args)
		} else {
			en.add("-1", "-1")
		}
		var ents []string
		nent := 0
		// machine-code instruction starts according to binutils
		var starts []int
		for pc := 0; pc < s.size; pc++ {
			if _, ok := gnu[pcbase+pc]; ok {
				starts = append(starts, pc)
			}
		}
		var wantStarts []int
		for _, p := range s.progs {
			if p.size == 0 {
				continue
			}
			wantStarts = append(wantStarts, p.pc)
			t := 0
			if g := gnu[pcbase+p.pc]; strings.HasPrefix(g.mnemonic, "j") {
				// a jump: relative target, or (indirect jump, undecodable operand) the impossible target
				t = 1 << 40
				if strings.HasPrefix(g.ops, "0x") {
					v, err := strconv.ParseUint(strings.Fields(g.ops)[0][2:], 16, 64)
					if err == nil && int(int64(v))-pcbase >= 0 {
						t = int(int64(v)) - pcbase + 1
					}
				}
				st["asm_machine_jumps"]++
			}
			ents = append(ents, itoa(p.line), itoa(p.pc), itoa(t))
			nent++
		}
		if fmt.Sprint(starts) != fmt.Sprint(wantStarts) {
			decodeOK = fmt.Sprintf("boundaries/%s", s.name)
		}
		pcbase += s.size
		en.int(nent)
		en.add(ents...)
		var fn *ir.Function
		if si < len(fns) {
			fn = fns[si]
		}
		if fn == nil {
			en.add("0", "0")
			continue
		}
		is := fn.Instructions()
		idx := map[*ir.Instruction]int{}
		for i, in := range is {
			idx[in] = i
		}
		var brs []string
		nbr := 0
		for i, in := range is {
			if l := in.TargetLabel(); l != nil {
				brs = append(brs, itoa(i), hexs(string(*l)))
				nbr++
			}
		}
		en.int(nbr)
		en.add(brs...)
		var lts []string
		nlt := 0
		// deterministic order: as the labels occur in the node list
		for _, l := range fn.Labels() {
			if t, ok := fn.LabelTarget[l]; ok {
				lts = append(lts, hexs(string(l)), itoa(idx[t]))
				nlt++
			}
		}
		en.int(nlt)
		en.add(lts...)
		st["asm_functions"]++
		st["asm_instructions"] += len(is)
		blk := 0
		for _, n := range fn.Nodes {
			if in, ok := n.(*ir.Instruction); ok && !in.IsTerminal && !in.IsUnconditionalBranch() {
				blk++
				if blk == 65 {
					st["asm_blocks_over_64"]++
				}
			} else {
				blk = 0
			}
		}
	}
	// the assembler's Prog boundaries are the machine code's instruction boundaries
	o.emit("accept-decode "+decodeOK+" "+tag+" "+e.String(), "ok")
	o.emit("accept-asm "+tag+" "+e.String()+" "+hexs(text)+" "+en.String(), "ok")
	return nil
}

func p11RunC11Asm(args []string) error {
	f := newStdFlags("c11asm")
	work := f.fs.String("work", ".", "scratch directory for .s/.o files")
	if err := f.fs.Parse(args); err != nil {
		return err
	}
	o, err := openOut(f)
	if err != nil {
		return err
	}
	defer o.close()
	r := newRng(*f.seed ^ 0xa5a5)
	st := map[string]int{}
	dir := filepath.Join(*work, "asm")
	if err := os.MkdirAll(dir, 0o755); err != nil {
		return err
	}
	a := &p11Asm{o: o, st: st, dir: dir, include: filepath.Join(goroot(), "pkg", "include"), cfg: printer.Config{Name: "avo", Pkg: "p"}}
	// the fixed part of every run: the F10 witness, every hazardous label with JMP and with one conditional branch,
	// every branch opcode in the short shape
	var fixed []func() *p11AsmCase
	fixed = append(fixed, func() *p11AsmCase { return p11GenF10(r, st) })
	var cond []string
	for _, b := range p11BranchOps() {
		if b.opcode != "JMP" && !b.rel8only {
			cond = append(cond, b.opcode)
		}
	}
	for _, h := range p11HazardLabels {
		h := h
		fixed = append(fixed, func() *p11AsmCase { return p11GenHazard(r, st, h, "JMP") })
		if len(cond) > 0 {
			fixed = append(fixed, func() *p11AsmCase { return p11GenHazard(r, st, h, pick(r, cond)) })
		}
	}
	fixed = append(fixed, func() *p11AsmCase { return p11GenShortBranches(r, st) })
	st["branch_opcodes_in_table"] = len(p11BranchOps())
	var corpus []func() *p11AsmCase
	lines, isCorpus := p11CorpusLines(*f.replay)
	for _, l := range lines {
		// corpus: `prog <seed>` | `short <seed>` | `hazard <label-hex> <opcode> <seed>`
		fs := strings.Fields(l)
		if len(fs) < 2 {
			continue
		}
		seed, err := strconv.ParseUint(fs[len(fs)-1], 10, 64)
		if err != nil {
			continue
		}
		switch {
		case fs[0] == "prog" && len(fs) == 2:
			corpus = append(corpus, func() *p11AsmCase { return p11GenAsmProgram(newRng(seed), st) })
		case fs[0] == "short" && len(fs) == 2:
			corpus = append(corpus, func() *p11AsmCase { return p11GenShortBranches(newRng(seed), st) })
		case fs[0] == "hazard" && len(fs) == 4:
			name, err := unhexs(fs[1])
			if err != nil {
				continue
			}
			h := p11Hazard{name, p11HazardClass(name)}
			if h.class == "" {
				h.class = "unclassified"
			}
			op := fs[2]
			corpus = append(corpus, func() *p11AsmCase { return p11GenHazard(newRng(seed), st, h, op) })
		}
	}
	n := *f.n
	if isCorpus {
		n = len(corpus)
	}
	for k := 0; k < n; k++ {
		var c *p11AsmCase
		switch {
		case isCorpus:
			c = corpus[k]()
		case k < len(fixed):
			c = fixed[k]()
		case k%40 == 7:
			c = p11GenShortBranches(r, st)
		case k%40 == 23:
			c = p11GenHazard(r, st, pick(r, p11HazardLabels), pick(r, append(cond, "JMP")))
		default:
			c = p11GenAsmProgram(r, st)
		}
		st["generated"]++
		file, err := c.ctx.Result()
		if err != nil {
			st["build_error"]++
			continue
		}
		if err := pass.Compile.Execute(file); err != nil {
			st["compile_error"]++
			continue
		}
		st["compiled"]++
		// PruneSelfMoves invalidates the CFG structures; recompute the IR's label binding
		for _, fn := range file.Functions() {
			if err := pass.LabelTarget(fn); err != nil {
				st["labeltarget_error"]++
			}
		}
		if err := a.measure(file, c.tag, c.want, true); err != nil {
			return err
		}
	}
	seen := 0
	for _, b := range p11BranchOps() {
		if st["br_"+b.opcode] > 0 {
			seen++
		}
	}
	st["branch_opcodes_used"] = seen
	return writeJSON(*f.stats, st)
}
