package main

import (
	"bytes"
	"encoding/hex"
	"fmt"
	"os"
	"os/exec"
	"path/filepath"
	"strconv"
	"strings"

	"golang.org/x/arch/x86/x86asm"

	"github.com/mmcloughlin/avo/attr"
	"github.com/mmcloughlin/avo/build"
	"github.com/mmcloughlin/avo/operand"
	"github.com/mmcloughlin/avo/pass"
	"github.com/mmcloughlin/avo/printer"
	"github.com/mmcloughlin/avo/reg"
)

// C16, the function as it is FINALLY printed and assembled.
//
// The `locals` stream looks at what AllocLocal returned and at FrameBytes / the TEXT size.  The property however is
// about the bytes the compiled function touches: every pass of pass.Compile that runs after the function was built may
// rewrite operands or the frame.  This file generates functions whose instructions USE their locals (stores, loads,
// LEAQ of 0..32 bytes at every position inside a local), with and without BP clobbering — written by the author through
// every view of BP, or forced on the register allocator by 15 simultaneously live values —, NOFRAME / NOSPLIT or not,
// with and without CALLs, one or several functions per file, and looks at the COMPILED function:
//
//   final        exact: frame, TEXT size and the displacement of every SP-relative operand of the compiled
//                instructions (Operands; Inputs/Outputs must agree with them) against the Lean model of the pipeline
//   accept-final the printed text: every `off(SP)` operand as printed, judged by the Lean acceptor (addresses the region
//                handed out, regions disjoint, inside the frame the assembler allocates, off the BP save slot)
//   accept-asm   measured: the printed file assembled by `go tool asm`, disassembled, the prologue (PUSHQ BP / SUBQ)
//                and every RSP displacement and access width decoded from the machine code

type c16fRef struct{ loc, delta, width int }

// c16fInstr is one generator request (it may expand to several avo instructions, see c16fBuild).
type c16fInstr struct {
	kind byte // n plain, s store, l load, a LEAQ, b author BP write, r BP read, c CALL, p pressure begin, e pressure end
	ref  c16fRef
	virt bool // s/l outside a pressure block: through a fresh virtual register
	arg  int  // b: view 0..4; p: number of virtuals
}

type c16fOp struct {
	alloc bool
	size  int
	in    c16fInstr
}

type c16fSpec struct {
	noframe, nosplit bool
	args             int
	ops              []c16fOp
}

const c16fLeafRef = "·c16leaf(SB)"

// c16fTok is one EMITTED avo instruction (or allocation) as the model sees it.
type c16fTok struct {
	alloc bool
	size  int
	w     bool
	refs  []c16fRef
	tag   string
}

func (t c16fTok) String() string {
	if t.alloc {
		return "a" + itoa(t.size)
	}
	s := "i" + c16b(t.w)
	for _, r := range t.refs {
		s += fmt.Sprintf("/%d:%d:%d", r.loc, r.delta, r.width)
	}
	if t.tag != "" {
		s += "@" + t.tag
	}
	return s
}

var c16fStoreOp = map[int]string{1: "MOVB", 2: "MOVW", 4: "MOVL", 8: "MOVQ", 16: "MOVOU", 32: "VMOVDQU"}

func c16fGPView(r reg.GPVirtual, width int) reg.Register {
	switch width {
	case 1:
		return r.As8()
	case 2:
		return r.As16()
	case 4:
		return r.As32()
	}
	return r.As64()
}

func c16fPhysView(r reg.GPPhysical, width int) reg.Register {
	switch width {
	case 1:
		return r.As8()
	case 2:
		return r.As16()
	case 4:
		return r.As32()
	}
	return r.As64()
}

// c16fBuild emits one function through the chosen route and returns the Mem values AllocLocal returned, the sizes
// requested and the log of what was really emitted.
func c16fBuild(api c16api, name string, s c16fSpec) (mems []operand.Mem, sizes []int, log []c16fTok) {
	api.Function(name)
	var a attr.Attribute
	if s.noframe {
		a |= attr.NOFRAME
	}
	if s.nosplit {
		a |= attr.NOSPLIT
	}
	api.Attributes(a)
	api.SignatureExpr(c16sigs[s.args])
	var press []reg.GPVirtual
	emit := func(w bool, tag string, refs ...c16fRef) {
		log = append(log, c16fTok{w: w, refs: refs, tag: tag})
	}
	closePress := func() {
		for i := 1; i < len(press); i++ {
			api.ins("ADDQ", press[i], press[0])
			emit(false, "e")
		}
		if len(press) > 0 {
			// later instructions read RAX / RBX: define them here, or they would be live across the block
			api.ins("MOVQ", operand.U32(1), reg.RAX)
			emit(false, "e")
			api.ins("MOVQ", operand.U32(2), reg.RBX)
			emit(false, "e")
		}
		press = nil
	}
	mem := func(r c16fRef) operand.Mem { return mems[r.loc].Offset(r.delta) }
	okRef := func(r c16fRef) bool { return r.loc >= 0 && r.loc < len(mems) }
	for _, op := range s.ops {
		if op.alloc {
			mems = append(mems, api.AllocLocal(op.size))
			sizes = append(sizes, op.size)
			log = append(log, c16fTok{alloc: true, size: op.size})
			continue
		}
		in := op.in
		kind := in.kind
		if len(press) > 0 && (kind == 'b' || kind == 'r' || kind == 'c' || kind == 'p') {
			kind = 'n' // no physical register may be named while 15 values are live
		}
		if (kind == 's' || kind == 'l' || kind == 'a') && !okRef(in.ref) {
			kind = 'n'
		}
		switch kind {
		case 'n':
			if len(press) > 0 {
				api.ins("XORQ", press[(in.arg+1)%len(press)], press[in.arg%len(press)])
			} else {
				api.ins("ADDQ", reg.RAX, reg.RBX)
			}
			emit(false, "n")
		case 's', 'l':
			w := in.ref.width
			opc := c16fStoreOp[w]
			var r reg.Register
			tag := string(kind)
			switch {
			case w == 16:
				r = reg.X0
			case w == 32:
				r = reg.Y0
			case len(press) > 0:
				r = c16fGPView(press[(in.ref.loc+in.ref.delta+len(press)*1000)%len(press)], w)
			case in.virt:
				v := api.GP64()
				api.ins("MOVQ", operand.U32(0x77), v)
				emit(false, "n")
				r = c16fGPView(v, w)
				tag += "v"
			case kind == 's':
				r = c16fPhysView(reg.RAX, w)
			default:
				r = c16fPhysView(reg.RDX, w)
			}
			if kind == 's' {
				api.ins(opc, r, mem(in.ref))
			} else {
				api.ins(opc, mem(in.ref), r)
			}
			emit(false, tag, in.ref)
		case 'a':
			ref := c16fRef{in.ref.loc, in.ref.delta, 0}
			if len(press) > 0 {
				api.ins("LEAQ", mem(ref), press[in.arg%len(press)])
			} else {
				api.ins("LEAQ", mem(ref), reg.RSI)
			}
			emit(false, "a", ref)
		case 'b':
			switch in.arg % 5 {
			case 0:
				api.ins("MOVQ", operand.U32(0x1234), reg.RBP)
			case 1:
				api.ins("MOVL", operand.U32(0x1234), reg.EBP)
			case 2:
				api.ins("XORL", reg.EBP, reg.EBP)
			case 3:
				api.ins("MOVW", operand.U16(5), reg.BP)
			default:
				api.ins("MOVB", operand.U8(5), reg.BPB)
			}
			emit(true, "b"+itoa(in.arg%5))
		case 'r':
			api.ins("MOVQ", reg.RBP, reg.RAX)
			emit(false, "r")
		case 'c':
			api.ins("CALL", operand.LabelRef(c16fLeafRef))
			emit(false, "c")
		case 'p':
			k := in.arg
			if k < 2 {
				k = 2
			}
			if k > 15 {
				k = 15
			}
			for i := 0; i < k; i++ {
				v := api.GP64()
				api.ins("MOVQ", operand.U32(uint32(0x1111*(i+1))), v)
				press = append(press, v)
				emit(false, "p"+itoa(k))
			}
		case 'e':
			closePress()
		}
	}
	closePress()
	api.ins("RET")
	emit(false, "ret")
	return
}

// ---- generator ----

func c16fSize(r *rng, small bool) int {
	switch r.intn(20) {
	case 0, 1:
		return 0
	case 2, 3, 4, 5, 6:
		return r.rangeIn(1, 7)
	case 7, 8, 9:
		return 8
	case 10, 11:
		return 16 << r.intn(3)
	case 12, 13, 14:
		return r.rangeIn(9, 200)
	case 15:
		if small {
			return 24
		}
		return r.rangeIn(201, 6000)
	case 16:
		return 8 * r.rangeIn(1, 12)
	default:
		return r.rangeIn(1, 64)
	}
}

// c16fGen draws one function.  mode: 0 no BP write, 1 author-written, 2 forced on the allocator, 3 author-written with
// 13 further live values.  asmable: the frame is completed to a multiple of 8 (cmd/asm refuses other frames loudly)
// and the function never makes Compile fail.
func c16fGen(r *rng, asmable bool) (c16fSpec, int) {
	s := c16fSpec{args: 8 * r.intn(4)}
	switch r.intn(12) {
	case 0:
		s.noframe = true
	case 1, 2, 3:
		s.nosplit = true
	}
	mode := 0
	switch r.intn(20) {
	case 0, 1, 2, 3, 4, 5:
		mode = 0
	case 6, 7, 8, 9, 10, 11, 12:
		mode = 1
	case 13, 14, 15, 16, 17, 18:
		mode = 2
	default:
		mode = 3
	}
	if s.noframe && asmable && mode != 0 {
		s.noframe = false
	}
	if asmable && mode == 0 && r.chance(1, 5) {
		s.noframe = true // NOFRAME with locals: the assembler allocates the frame and saves no BP
	}
	var sizes []int
	total := 0
	nl := r.intn(7)
	if r.chance(1, 10) {
		nl = 0
	}
	n := nl + r.intn(14)
	hasCall := r.chance(1, 4)
	pressOpen, pressDone := false, false
	left := nl
	pickRef := func() (c16fRef, bool) {
		if len(sizes) == 0 {
			return c16fRef{}, false
		}
		loc := r.intn(len(sizes))
		if r.chance(1, 3) {
			loc = len(sizes) - 1 // the local that reaches the top of the frame
		}
		sz := sizes[loc]
		var ws []int
		for _, w := range []int{1, 2, 4, 8, 16, 32} {
			if w <= sz {
				ws = append(ws, w)
			}
		}
		if len(ws) == 0 {
			return c16fRef{loc: loc}, true // empty local: LEAQ only
		}
		w := ws[r.intn(len(ws))]
		d := 0
		switch r.intn(4) {
		case 0:
			d = 0
		case 1:
			d = sz - w // the last bytes of the local
		default:
			d = r.intn(sz - w + 1)
		}
		return c16fRef{loc, d, w}, true
	}
	for i := 0; i < n || left > 0; i++ {
		if left > 0 && (r.chance(1, 2) || i >= n) {
			sz := c16fSize(r, s.nosplit)
			sizes = append(sizes, sz)
			total += sz
			left--
			s.ops = append(s.ops, c16fOp{alloc: true, size: sz})
			continue
		}
		var in c16fInstr
		switch x := r.intn(16); {
		case x < 5:
			ref, ok := pickRef()
			if !ok {
				in.kind = 'n'
			} else if ref.width == 0 {
				in = c16fInstr{kind: 'a', ref: ref}
			} else {
				in = c16fInstr{kind: 's', ref: ref, virt: r.chance(1, 4)}
			}
		case x < 8:
			ref, ok := pickRef()
			if !ok || ref.width == 0 {
				in.kind = 'n'
			} else {
				in = c16fInstr{kind: 'l', ref: ref, virt: r.chance(1, 4)}
			}
		case x < 10:
			ref, ok := pickRef()
			if !ok {
				in.kind = 'n'
			} else {
				in = c16fInstr{kind: 'a', ref: ref, arg: r.intn(15)}
			}
		case x < 12:
			if mode == 1 || mode == 3 {
				in = c16fInstr{kind: 'b', arg: r.intn(5)}
			} else {
				in = c16fInstr{kind: 'n', arg: r.intn(15)}
			}
		case x == 12:
			if mode >= 2 {
				in.kind = 'n' // a later read of BP would keep it live across the pressure block
			} else {
				in.kind = 'r'
			}
		case x == 13:
			if hasCall {
				in.kind = 'c'
			} else {
				in.kind = 'n'
			}
		case x == 14:
			if (mode == 2 || mode == 3) && !pressDone && !pressOpen {
				k := 15
				if mode == 3 {
					k = 13
				}
				in = c16fInstr{kind: 'p', arg: k}
				pressOpen = true
			} else if pressOpen && r.chance(1, 3) {
				in.kind = 'e'
				pressOpen, pressDone = false, true
			} else {
				in = c16fInstr{kind: 'n', arg: r.intn(15)}
			}
		default:
			in = c16fInstr{kind: 'n', arg: r.intn(15)}
		}
		s.ops = append(s.ops, c16fOp{in: in})
	}
	if (mode == 2 || mode == 3) && !pressDone && !pressOpen {
		// the pressure block was not drawn: put it in front of the last third of the program
		k := 15
		if mode == 3 {
			k = 13
		}
		at := len(s.ops) * 2 / 3
		ops := append([]c16fOp{}, s.ops[:at]...)
		ops = append(ops, c16fOp{in: c16fInstr{kind: 'p', arg: k}})
		s.ops = append(ops, s.ops[at:]...)
	}
	if (mode == 1 || mode == 3) && r.chance(2, 3) {
		// make sure the author's BP write is there, at a random place outside the pressure block's reach (front)
		at := 0
		if len(s.ops) > 0 {
			at = r.intn(len(s.ops) + 1)
		}
		for j := 0; j < at; j++ {
			if !s.ops[j].alloc && s.ops[j].in.kind == 'p' {
				at = j
				break
			}
		}
		ops := append([]c16fOp{}, s.ops[:at]...)
		ops = append(ops, c16fOp{in: c16fInstr{kind: 'b', arg: r.intn(5)}})
		s.ops = append(ops, s.ops[at:]...)
	}
	if asmable {
		if pad := (8 - total%8) % 8; pad > 0 {
			s.ops = append(s.ops, c16fOp{alloc: true, size: pad})
			ref := c16fRef{len(sizes), r.intn(pad), 1}
			s.ops = append(s.ops, c16fOp{in: c16fInstr{kind: 's', ref: ref}})
		}
	}
	return s, mode
}

// ---- driving the real code ----

type c16fPLine struct {
	line   int
	opcode string
	ops    []string
}

type c16fPrinted struct {
	textLine int
	textSize string
	instrs   []c16fPLine
}

// c16fParsePrinted splits the printed file into functions: TEXT line number, size token and instruction lines.
func c16fParsePrinted(asm []byte) map[string]*c16fPrinted {
	res := map[string]*c16fPrinted{}
	var cur *c16fPrinted
	for i, line := range strings.Split(string(asm), "\n") {
		ln := i + 1
		if strings.HasPrefix(line, "TEXT ·") {
			n := strings.TrimPrefix(line, "TEXT ·")
			if j := strings.Index(n, "(SB)"); j >= 0 {
				n = n[:j]
			}
			fs := strings.Split(line, ", ")
			cur = &c16fPrinted{textLine: ln, textSize: fs[len(fs)-1]}
			res[n] = cur
			continue
		}
		if cur == nil || !strings.HasPrefix(line, "\t") {
			continue
		}
		body := strings.TrimSpace(line)
		if body == "" || strings.HasPrefix(body, "//") {
			continue
		}
		opc, rest, _ := strings.Cut(body, " ")
		pl := c16fPLine{line: ln, opcode: opc}
		if rest = strings.TrimSpace(rest); rest != "" {
			pl.ops = strings.Split(rest, ", ")
		}
		cur.instrs = append(cur.instrs, pl)
	}
	return res
}

type c16fResult struct {
	panicked, err bool
	mems          []operand.Mem
	sizes         []int
	log           []c16fTok
	before, frame int
	scanClob      bool
	disps         []int  // SP-relative operands of the compiled instructions, program order
	io            string // "=" or what differs in Inputs/Outputs
	printed       *c16fPrinted
	asm           []byte
}

func c16fName(i, n int) string {
	if n == 1 {
		return "f"
	}
	return "f" + itoa(i)
}

func c16fIsSP(m operand.Mem) bool {
	return m.Base != nil && m.Base == reg.Register(reg.StackPointer) && m.Index == nil && m.Symbol.Name == ""
}

// c16fRun builds the specs as the functions of ONE file, compiles and prints it.
func c16fRun(specs []c16fSpec, pkg bool) (out []c16fResult) {
	out = make([]c16fResult, len(specs))
	fail := func(f func(*c16fResult)) {
		for i := range out {
			f(&out[i])
		}
	}
	ctx := build.NewContext()
	if pkg {
		old := build.VerifSwapContext(ctx)
		defer build.VerifSwapContext(old)
	}
	defer func() {
		if e := recover(); e != nil {
			fail(func(x *c16fResult) { x.panicked = true })
		}
	}()
	api := c16api{pkg: pkg, ctx: ctx}
	for i, s := range specs {
		out[i].mems, out[i].sizes, out[i].log = c16fBuild(api, c16fName(i, len(specs)), s)
	}
	file, err := ctx.Result()
	if err != nil {
		fail(func(x *c16fResult) { x.err = true })
		return
	}
	fns := file.Functions()
	if len(fns) != len(specs) {
		fail(func(x *c16fResult) { x.err = true })
		return
	}
	for i, fn := range fns {
		out[i].before = fn.FrameBytes()
	}
	if err := pass.Compile.Execute(file); err != nil {
		fail(func(x *c16fResult) { x.err = true })
		// Compile refuses a NOFRAME function that writes BP after registers were bound: tell the model whether the
		// allocator had handed BP out
		for k, fn := range fns {
			for _, i := range fn.Instructions() {
				for _, o := range i.OutputRegisters() {
					if p := reg.ToPhysical(o); p != nil && p.Kind() == reg.KindGP && p.PhysicalIndex() == reg.RBP.PhysicalIndex() {
						out[k].scanClob = true
					}
				}
			}
		}
		return
	}
	for k, fn := range fns {
		res := &out[k]
		res.frame = fn.FrameBytes()
		res.io = "="
		for _, i := range fn.Instructions() {
			for _, o := range i.OutputRegisters() {
				if p := reg.ToPhysical(o); p != nil && p.Kind() == reg.KindGP && p.PhysicalIndex() == reg.RBP.PhysicalIndex() {
					res.scanClob = true
				}
			}
			opAsm := map[string]bool{}
			for _, o := range i.Operands {
				if m, ok := o.(operand.Mem); ok && c16fIsSP(m) {
					res.disps = append(res.disps, m.Disp)
					opAsm[m.Asm()] = true
				}
			}
			for _, list := range [][]operand.Op{i.Inputs, i.Outputs} {
				for _, o := range list {
					if m, ok := o.(operand.Mem); ok && m.Base != nil && m.Base == reg.Register(reg.StackPointer) && !opAsm[m.Asm()] {
						res.io = "io-differs-from-operands:" + strings.ReplaceAll(m.Asm(), " ", "_")
					}
				}
			}
		}
	}
	asm, err := printer.NewGoAsm(printer.Config{Name: "avoh", Pkg: "p"}).Print(file)
	if err != nil {
		fail(func(x *c16fResult) { x.err = true })
		return
	}
	pr := c16fParsePrinted(asm)
	for i := range specs {
		out[i].printed = pr[c16fName(i, len(specs))]
		out[i].asm = asm
	}
	return
}

func c16fRefs(log []c16fTok) (refs []c16fRef) {
	for _, t := range log {
		refs = append(refs, t.refs...)
	}
	return
}

// c16fEmit writes the `final` / `accept-final` lines of one function (and, through c16emitCase, its `locals` lines).
func c16fEmit(o *out, s c16fSpec, res c16fResult, st map[string]int) {
	var toks []string
	genClob := false
	nlocals, nonempty := 0, 0
	distinct := map[int]bool{}
	hasCall := false
	for _, t := range res.log {
		toks = append(toks, t.String())
		genClob = genClob || t.w
		if t.alloc {
			nlocals++
			distinct[t.size] = true
			if t.size > 0 {
				nonempty++
			}
		}
		if t.tag == "c" {
			hasCall = true
		}
	}
	forcedByAlloc := !res.panicked && res.scanClob && !genClob
	if forcedByAlloc {
		toks = append(toks, "i1@f") // the allocator made some instruction write BP: tell the model
	}
	line := "final " + c16b(s.noframe) + " " + itoa(s.args) + " " + itoa(len(toks)) + " " + strings.Join(toks, " ")
	switch {
	case res.panicked:
		st["final_panic"]++
		o.emit(line, "panic")
		return
	case res.err:
		st["final_error"]++
		o.emit(line, "error")
		return
	}
	refs := c16fRefs(res.log)
	text := "?"
	if res.printed != nil {
		text = res.printed.textSize
	}
	resp := []string{"ok", itoa(res.frame), text, itoa(len(res.disps))}
	for _, d := range res.disps {
		resp = append(resp, itoa(d))
	}
	resp = append(resp, res.io)
	o.emit(line, strings.Join(resp, " "))
	st["final_functions"]++
	st["final_refs"] += len(refs)
	if s.noframe {
		st["final_noframe"]++
	}
	if hasCall {
		st["final_with_call"]++
	}
	if len(distinct) >= 2 {
		st["final_mixed_sizes"]++
	}
	clob := genClob || res.scanClob
	if clob {
		st["final_bp_clobbered"]++
		if nonempty > 0 {
			st["final_bp_clobbered_with_locals"]++
			if len(refs) > 0 {
				st["final_bp_clobbered_with_used_locals"]++
			}
		}
		if res.frame != res.before {
			st["final_forced_local"]++
		}
	}
	if genClob {
		st["final_bp_author"]++
	}
	if forcedByAlloc {
		st["final_bp_forced_by_allocator"]++
		if nonempty > 0 && len(refs) > 0 {
			st["final_bp_forced_by_allocator_with_used_locals"]++
		}
	}
	// the printed text: every operand that mentions SP, in order
	var printedSP []string
	if res.printed != nil {
		for _, pl := range res.printed.instrs {
			for _, op := range pl.ops {
				if strings.Contains(op, "(SP)") {
					printedSP = append(printedSP, strings.ReplaceAll(op, " ", "_"))
				}
			}
		}
	}
	if res.printed == nil || len(printedSP) != len(refs) {
		// the printed function cannot be matched with what was emitted: not a judgement, a broken correspondence
		o.emit(fmt.Sprintf("final-printed-operands %d", len(refs)), fmt.Sprintf("%d", len(printedSP)))
		st["final_unmatched"]++
		return
	}
	areq := []string{"accept-final", itoa(len(res.mems))}
	for j, m := range res.mems {
		areq = append(areq, itoa(m.Disp), itoa(res.sizes[j]))
	}
	forced := "-"
	if res.frame != res.before {
		forced = fmt.Sprintf("%d:%d", res.before, res.frame-res.before)
	}
	areq = append(areq, forced, itoa(len(refs)))
	for j, rf := range refs {
		areq = append(areq, itoa(rf.loc), itoa(rf.delta), itoa(rf.width), printedSP[j])
	}
	areq = append(areq, text)
	o.emit(strings.Join(areq, " "), "ok")
	st["final_judged"]++
	// the same function through the `locals` stream (regions returned / FrameBytes / TEXT size)
	c := c16case{noframe: s.noframe, nosplit: s.nosplit, args: s.args}
	r0 := c16result{mems: res.mems, scanClob: res.scanClob, before: res.before, frame: res.frame, text: text, asm: res.asm}
	for _, t := range res.log {
		if t.alloc {
			c.ops = append(c.ops, c16op{alloc: true, size: t.size})
		} else if t.tag != "ret" {
			c.ops = append(c.ops, c16op{kind: 0})
			r0.flags = append(r0.flags, t.w)
		}
	}
	st2 := map[string]int{} // kept apart: the floors of the `locals` stream must keep counting that stream only
	c16emitCase(o, c, r0, st2)
	for k, v := range st2 {
		st["final_locals_"+k] += v
	}
}

// c16fParse rebuilds a spec from a `final …` request line (replay / corpus).
func c16fParse(line string) (c16fSpec, bool) {
	ts := strings.Fields(line)
	if len(ts) < 4 || ts[0] != "final" {
		return c16fSpec{}, false
	}
	s := c16fSpec{noframe: ts[1] == "1"}
	s.args, _ = strconv.Atoi(ts[2])
	if _, ok := c16sigs[s.args]; !ok {
		s.args = 0
	}
	pressSeen := false
	for _, t := range ts[4:] {
		body, tag, _ := strings.Cut(t, "@")
		if strings.HasPrefix(body, "a") {
			v, err := strconv.Atoi(body[1:])
			if err != nil {
				return s, false
			}
			s.ops = append(s.ops, c16fOp{alloc: true, size: v})
			continue
		}
		if len(body) < 2 || body[0] != 'i' {
			return s, false
		}
		parts := strings.Split(body[2:], "/")
		var ref c16fRef
		hasRef := false
		if len(parts) > 1 {
			if _, err := fmt.Sscanf(parts[1], "%d:%d:%d", &ref.loc, &ref.delta, &ref.width); err != nil {
				return s, false
			}
			hasRef = true
		}
		var in c16fInstr
		switch {
		case tag == "ret" || tag == "f" || tag == "e":
			if tag == "e" && pressSeen {
				pressSeen = false
				in.kind = 'e'
				s.ops = append(s.ops, c16fOp{in: in})
			}
			continue
		case strings.HasPrefix(tag, "p"):
			if pressSeen {
				continue
			}
			pressSeen = true
			k, _ := strconv.Atoi(tag[1:])
			in = c16fInstr{kind: 'p', arg: k}
		case strings.HasPrefix(tag, "b"):
			v, _ := strconv.Atoi(tag[1:])
			in = c16fInstr{kind: 'b', arg: v}
		case body[1] == '1':
			in = c16fInstr{kind: 'b'}
		case hasRef && (tag == "l" || tag == "lv"):
			in = c16fInstr{kind: 'l', ref: ref, virt: tag == "lv"}
		case hasRef && (tag == "a" || ref.width == 0):
			in = c16fInstr{kind: 'a', ref: ref}
		case hasRef:
			if _, ok := c16fStoreOp[ref.width]; !ok {
				return s, false
			}
			in = c16fInstr{kind: 's', ref: ref, virt: tag == "sv"}
		case tag == "r":
			in.kind = 'r'
		case tag == "c":
			in.kind = 'c'
		default:
			in.kind = 'n'
		}
		s.ops = append(s.ops, c16fOp{in: in})
	}
	return s, true
}

// ---- measured: assemble, disassemble ----

type c16fMeasured struct {
	ok       bool
	why      string
	depth    int // bytes between the stack pointer after the prologue and the return address
	bpOff    int // where the prologue stored BP, relative to the stack pointer after the prologue; -1: not stored
	byLine   map[int][][2]int
	bodySeen int
}

// c16fDisasm assembles the printed file and decodes, per function, the prologue and every RSP-relative memory operand
// of the body (by source line).
func c16fDisasm(dir, stem string, asm []byte, pkgname string, textLines map[string]int) (map[string]*c16fMeasured, string, error) {
	sfile := filepath.Join(dir, stem+".s")
	ofile := filepath.Join(dir, stem+".o")
	if err := os.WriteFile(sfile, asm, 0o644); err != nil {
		return nil, "", err
	}
	cmd := exec.Command("go", "tool", "asm", "-I", filepath.Join(goroot(), "pkg", "include"), "-p", pkgname, "-o", ofile, sfile)
	cmd.Env = envForGo()
	if outp, err := cmd.CombinedOutput(); err != nil {
		return nil, c16firstLine(string(outp)), nil
	}
	cmd = exec.Command("go", "tool", "objdump", ofile)
	cmd.Env = envForGo()
	dump, err := cmd.Output()
	if err != nil {
		return nil, "", fmt.Errorf("objdump: %v", err)
	}
	res := map[string]*c16fMeasured{}
	var cur *c16fMeasured
	textLine := -1
	inPrologue := false
	for _, line := range strings.Split(string(dump), "\n") {
		if strings.HasPrefix(line, "TEXT ") {
			name := strings.TrimPrefix(line, "TEXT ")
			if j := strings.Index(name, "(SB)"); j >= 0 {
				name = name[:j]
			}
			if j := strings.LastIndex(name, "."); j >= 0 {
				name = name[j+1:]
			}
			cur = &c16fMeasured{ok: true, bpOff: -1, byLine: map[int][][2]int{}}
			res[name] = cur
			textLine = -1
			if tl, ok := textLines[name]; ok {
				textLine = tl // a frameless leaf has no prologue at all: the TEXT line comes from the printed file
			} else {
				cur.ok, cur.why = false, "no TEXT line known for "+name
			}
			inPrologue = true
			continue
		}
		fs := strings.Fields(line)
		if cur == nil || len(fs) < 4 {
			continue
		}
		j := strings.LastIndex(fs[0], ":")
		if j < 0 {
			continue
		}
		ln, err := strconv.Atoi(fs[0][j+1:])
		if err != nil {
			continue
		}
		code, err := hex.DecodeString(fs[2])
		if err != nil {
			cur.ok, cur.why = false, "hex "+fs[2]
			continue
		}
		inst, err := x86asm.Decode(code, 64)
		if err != nil {
			cur.ok, cur.why = false, "decode "+fs[2]
			continue
		}
		if ln == textLine {
			// prologue (stack check, BP save, frame allocation) or the morestack tail
			if !inPrologue {
				continue
			}
			switch inst.Op {
			case x86asm.PUSH:
				cur.depth += 8
				if inst.Args[0] == x86asm.RBP {
					cur.bpOff = -cur.depth // fixed up below
				}
			case x86asm.SUB:
				if inst.Args[0] == x86asm.RSP {
					if imm, ok := inst.Args[1].(x86asm.Imm); ok {
						cur.depth += int(imm)
					} else {
						cur.ok, cur.why = false, "SUB reg, SP in the prologue"
					}
				}
			case x86asm.ADD:
				// a frame of 128 bytes is allocated with ADDQ $-128, SP (shorter encoding)
				if inst.Args[0] == x86asm.RSP {
					if imm, ok := inst.Args[1].(x86asm.Imm); ok {
						cur.depth -= int(imm)
					} else {
						cur.ok, cur.why = false, "ADD reg, SP in the prologue"
					}
				}
			case x86asm.MOV:
				// older prologues store BP with a MOV after allocating the frame
				if m, ok := inst.Args[0].(x86asm.Mem); ok && m.Base == x86asm.RSP && inst.Args[1] == x86asm.RBP {
					cur.bpOff = int(m.Disp) + 1<<40 // absolute marker
				}
			}
			continue
		}
		inPrologue = false
		for _, a := range inst.Args {
			if m, ok := a.(x86asm.Mem); ok && m.Base == x86asm.RSP {
				w := inst.MemBytes
				if inst.Op == x86asm.LEA {
					w = 0
				}
				cur.byLine[ln] = append(cur.byLine[ln], [2]int{int(m.Disp), w})
				cur.bodySeen++
			}
		}
	}
	for _, m := range res {
		switch {
		case m.bpOff >= 1<<39:
			m.bpOff -= 1 << 40
		case m.bpOff < 0 && m.bpOff != -1:
			// pushed when the depth was d: the word sits at [depth-d, depth-d+8) above the final stack pointer
			m.bpOff = m.depth - (-m.bpOff)
		case m.bpOff == -1:
		}
	}
	return res, "", nil
}

// c16fAsmFile generates one file of asmable functions, runs it through the `final` streams and measures it.
func c16fAsmFile(dir string, idx, nfn int, r *rng, o *out, st map[string]int) error {
	specs := make([]c16fSpec, nfn)
	for i := range specs {
		specs[i], _ = c16fGen(r, true)
	}
	results := c16fRun(specs, false)
	for i, res := range results {
		c16fEmit(o, specs[i], res, st)
	}
	if results[0].panicked || results[0].err || results[0].asm == nil {
		st["asm_file_not_compiled"]++
		return nil
	}
	// the leaf the generated CALLs name
	asm := append([]byte{}, results[0].asm...)
	textLines := map[string]int{}
	for i, res := range results {
		if res.printed != nil {
			textLines[c16fName(i, len(specs))] = res.printed.textLine
		}
	}
	meas, buildErr, err := c16fDisasm(dir, "asm"+itoa(idx), asm, "p", textLines)
	if err != nil {
		return err
	}
	if meas == nil {
		o.emit("accept-asm-build "+hexs(buildErr), "ok")
		st["asm_build_failed"]++
		return nil
	}
	for i, res := range results {
		name := c16fName(i, len(specs))
		m := meas[name]
		if m == nil || !m.ok || res.printed == nil {
			o.emit("asm-measure-failed "+name, "ok")
			st["asm_unmatched"]++
			continue
		}
		refs := c16fRefs(res.log)
		// measured operands in the order of the printed instructions that mention SP
		var seen [][2]int
		for _, pl := range res.printed.instrs {
			nsp := 0
			for _, op := range pl.ops {
				if strings.Contains(op, "(SP)") {
					nsp++
				}
			}
			if nsp == 0 {
				continue
			}
			got := m.byLine[pl.line]
			if len(got) != nsp {
				seen = nil
				break
			}
			seen = append(seen, got...)
		}
		if len(seen) != len(refs) {
			o.emit(fmt.Sprintf("asm-measure-failed %s operands %d", name, len(refs)), itoa(len(seen)))
			st["asm_unmatched"]++
			continue
		}
		req := []string{"accept-asm", itoa(len(res.mems))}
		for j, mm := range res.mems {
			req = append(req, itoa(mm.Disp), itoa(res.sizes[j]))
		}
		forced := "-"
		if res.frame != res.before {
			forced = fmt.Sprintf("%d:%d", res.before, res.frame-res.before)
		}
		top := m.depth
		var reserved []string
		nres := 1
		if m.bpOff >= 0 {
			if m.bpOff < top {
				top = m.bpOff
			}
			reserved = append(reserved, itoa(m.bpOff), "8")
			nres++
			st["asm_bp_saved"]++
		}
		reserved = append(reserved, itoa(m.depth), "8")
		req = append(req, forced, itoa(top), itoa(nres))
		req = append(req, reserved...)
		req = append(req, itoa(len(refs)))
		for j, rf := range refs {
			req = append(req, itoa(rf.loc), itoa(rf.delta), itoa(seen[j][1]), itoa(seen[j][0]))
			if seen[j][1] != rf.width {
				st["asm_width_differs_from_generator"]++
			}
		}
		o.emit(strings.Join(req, " "), "ok")
		st["asm_functions"]++
		st["asm_refs"] += len(refs)
		clob := res.scanClob
		nonempty := false
		for _, sz := range res.sizes {
			nonempty = nonempty || sz > 0
		}
		if clob && nonempty && len(refs) > 0 {
			st["asm_bp_clobbered_with_used_locals"]++
		}
		if specs[i].noframe {
			st["asm_noframe"]++
		}
	}
	return nil
}

var _ = bytes.NewBuffer
