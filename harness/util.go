package main

import (
	"encoding/hex"
	"encoding/json"
	"os"
	"os/exec"
	"strings"
)

var gorootCache string

func goroot() string {
	if gorootCache == "" {
		out, err := exec.Command("go", "env", "GOROOT").Output()
		if err != nil {
			panic(err)
		}
		gorootCache = strings.TrimSpace(string(out))
	}
	return gorootCache
}

// hexs encodes a string as hex ("-" for empty) so that it is a single token.
func hexs(s string) string {
	if s == "" {
		return "-"
	}
	return hex.EncodeToString([]byte(s))
}

func unhexs(s string) (string, error) {
	if s == "-" {
		return "", nil
	}
	b, err := hex.DecodeString(s)
	return string(b), err
}

// readLines reads a file of request lines (blank lines and #-comments skipped).
func readLines(path string) ([]string, error) {
	data, err := os.ReadFile(path)
	if err != nil {
		return nil, err
	}
	var out []string
	if strings.HasPrefix(strings.TrimSpace(string(data)), "{") {
		// a replay file written by ./check: collect every "request" string in it
		var v any
		if err := json.Unmarshal(data, &v); err != nil {
			return nil, err
		}
		var walk func(x any)
		walk = func(x any) {
			switch x := x.(type) {
			case map[string]any:
				for k, y := range x {
					if s, ok := y.(string); ok && k == "request" {
						out = append(out, s)
					} else {
						walk(y)
					}
				}
			case []any:
				for _, y := range x {
					walk(y)
				}
			}
		}
		walk(v)
		return out, nil
	}
	for _, l := range strings.Split(string(data), "\n") {
		l = strings.TrimSpace(l)
		if l == "" || strings.HasPrefix(l, "#") {
			continue
		}
		out = append(out, l)
	}
	return out, nil
}

func writeJSON(path string, v any) error {
	b, err := json.MarshalIndent(v, "", " ")
	if err != nil {
		return err
	}
	return os.WriteFile(path, b, 0o644)
}

func itoa(i int) string { return strconvItoa(i) }

func strconvItoa(i int) string {
	if i == 0 {
		return "0"
	}
	neg := i < 0
	if neg {
		i = -i
	}
	var b [24]byte
	p := len(b)
	for i > 0 {
		p--
		b[p] = byte('0' + i%10)
		i /= 10
	}
	if neg {
		p--
		b[p] = '-'
	}
	return string(b[p:])
}

func envForGo() []string {
	env := os.Environ()
	return append(env, "GOPROXY=off", "GOSUMDB=off", "GOTOOLCHAIN=local")
}
