package main

import (
	"encoding/hex"
	"encoding/json"
	"os"
	"os/exec"
	"strings"
)

var gorootCache string

func goroot() string {
	if gorootCache == "" {
		out, err := exec.Command("go", "env", "GOROOT").Output()
		if err != nil {
			panic(err)
		}
		gorootCache = strings.TrimSpace(string(out))
	}
	return gorootCache
}

// hexs encodes a string as hex ("-" for empty) so that it is a single token.
func hexs(s string) string {
	if s == "" {
		return "-"
	}
	return hex.EncodeToString([]byte(s))
}

func writeJSON(path string, v any) error {
	b, err := json.MarshalIndent(v, "", " ")
	if err != nil {
		return err
	}
	return os.WriteFile(path, b, 0o644)
}

func itoa(i int) string { return strconvItoa(i) }

func strconvItoa(i int) string {
	if i == 0 {
		return "0"
	}
	neg := i < 0
	if neg {
		i = -i
	}
	var b [24]byte
	p := len(b)
	for i > 0 {
		p--
		b[p] = byte('0' + i%10)
		i /= 10
	}
	if neg {
		p--
		b[p] = '-'
	}
	return string(b[p:])
}
