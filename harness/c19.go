package main

import (
	"fmt"
	"strings"

	"github.com/mmcloughlin/avo/attr"
	"github.com/mmcloughlin/avo/ir"
	"github.com/mmcloughlin/avo/pass"
)

// C19: exhaustive correspondence of Attribute.Asm / ContainsTextFlags (all
// 65536 values, both directive kinds) and generated IncludeTextFlagHeader runs.
func init() {
	register("c19", "attribute printing (exhaustive) and textflag include pass", func(args []string) error {
		f := newStdFlags("c19")
		if err := f.fs.Parse(args); err != nil {
			return err
		}
		o, err := openOut(f)
		if err != nil {
			return err
		}
		defer o.close()
		macro, nonmacro := 0, 0
		for v := 0; v < 65536; v++ {
			a := attr.Attribute(v)
			clause := "-"
			if a != 0 { // printer/goasm.go function(): clause printed only when Attributes != 0
				clause = a.Asm()
			}
			c := "0"
			if a.ContainsTextFlags() {
				c = "1"
				macro++
			} else {
				nonmacro++
			}
			o.emit(fmt.Sprintf("attr %d", v), a.Asm()+" "+c+" "+clause)
			// acceptors: GLOBL prints Asm() always; TEXT omits the clause for 0
			o.emit(fmt.Sprintf("accept-attr %d %s %s", v, a.Asm(), c), "ok")
			if clause == "-" {
				o.emit(fmt.Sprintf("accept-attr %d %s", v, c), "ok")
			}
		}
		// include pass on generated files
		r := newRng(*f.seed)
		for k := 0; k < *f.n; k++ {
			file := ir.NewFile()
			var incl []string
			for j := r.intn(3); j > 0; j-- {
				incl = append(incl, pick(r, []string{"a.h", "textflag.h", "b.h", "textflag.h"}))
			}
			file.Includes = append([]string{}, incl...)
			var secs []int
			for j := r.intn(4); j > 0; j-- {
				var v int
				switch r.intn(4) {
				case 0:
					v = 0
				case 1:
					v = 128 << r.intn(2) * (1 + 127*r.intn(2)) // unnamed bits 128, 4096.. region
				case 2:
					v = 1 << r.intn(16)
				default:
					v = int(r.u64() & 0xffff)
				}
				v &= 0xffff
				secs = append(secs, v)
				if r.chance(1, 2) {
					fn := ir.NewFunction("f")
					fn.Attributes = attr.Attribute(v)
					file.AddSection(fn)
				} else {
					g := ir.NewStaticGlobal("g")
					g.Attributes = attr.Attribute(v)
					file.AddSection(g)
				}
			}
			if err := pass.IncludeTextFlagHeader(file); err != nil {
				return err
			}
			req := []string{"inclpass", itoa(len(incl))}
			req = append(req, incl...)
			req = append(req, itoa(len(secs)))
			for _, s := range secs {
				req = append(req, itoa(s))
			}
			resp := append([]string{itoa(len(file.Includes))}, file.Includes...)
			o.emit(strings.Join(req, " "), strings.Join(resp, " "))
			acc := append([]string{"accept-incl", itoa(len(file.Includes))}, file.Includes...)
			acc = append(acc, itoa(len(secs)))
			for _, s := range secs {
				acc = append(acc, attr.Attribute(s).Asm())
			}
			o.emit(strings.Join(acc, " "), "ok")
		}
		return writeJSON(*f.stats, map[string]any{
			"attr_values": 65536, "with_macro": macro, "without_macro": nonmacro, "include_pass_files": *f.n,
		})
	})
}
