package main

import (
	"fmt"
	"strings"

	"github.com/mmcloughlin/avo/attr"
	"github.com/mmcloughlin/avo/ir"
	"github.com/mmcloughlin/avo/pass"
	"github.com/mmcloughlin/avo/printer"
)

// C19: exhaustive correspondence of Attribute.Asm / ContainsTextFlags (all
// 65536 values, both directive kinds) and generated IncludeTextFlagHeader runs.
func init() {
	register("c19", "attribute printing (exhaustive) and textflag include pass", func(args []string) error {
		f := newStdFlags("c19")
		if err := f.fs.Parse(args); err != nil {
			return err
		}
		o, err := openOut(f)
		if err != nil {
			return err
		}
		defer o.close()
		macro, nonmacro := 0, 0
		// the TEXT and GLOBL clauses are taken from the REAL printer: files of 256 functions + 256 globals, one per value
		textClause := make([]string, 65536)
		globlClause := make([]string, 65536)
		for base := 0; base < 65536; base += 256 {
			file := ir.NewFile()
			for v := base; v < base+256; v++ {
				fn := ir.NewFunction(fmt.Sprintf("f%d", v))
				fn.Attributes = attr.Attribute(v)
				file.AddSection(fn)
				g := ir.NewStaticGlobal(fmt.Sprintf("g%d", v))
				g.Attributes = attr.Attribute(v)
				file.AddSection(g)
			}
			out, err := printer.NewGoAsm(printer.Config{Name: "c19"}).Print(file)
			if err != nil {
				return err
			}
			for _, line := range strings.Split(string(out), "\n") {
				var v int
				switch {
				case strings.HasPrefix(line, "TEXT "):
					// TEXT ·f<v>(SB)[, <clause>], $0
					rest := strings.TrimPrefix(line, "TEXT ")
					i := strings.Index(rest, "(SB)")
					if i < 0 {
						continue
					}
					if _, err := fmt.Sscanf(rest[strings.IndexByte(rest, 'f')+1:i], "%d", &v); err != nil || v < 0 || v > 65535 {
						continue
					}
					rest = strings.TrimPrefix(rest[i+4:], ", ")
					j := strings.LastIndex(rest, "$")
					if j < 0 {
						continue
					}
					cl := strings.TrimSuffix(strings.TrimSpace(rest[:j]), ",")
					if cl == "" {
						cl = "-"
					}
					textClause[v] = cl
				case strings.HasPrefix(line, "GLOBL "):
					// GLOBL g<v><>(SB), <clause>, $0
					rest := strings.TrimPrefix(line, "GLOBL ")
					i := strings.Index(rest, "<>(SB), ")
					if i < 0 {
						continue
					}
					if _, err := fmt.Sscanf(rest[1:i], "%d", &v); err != nil || v < 0 || v > 65535 {
						continue
					}
					rest = rest[i+8:]
					j := strings.LastIndex(rest, ", $")
					if j < 0 {
						continue
					}
					globlClause[v] = rest[:j]
				}
			}
		}
		for v := 0; v < 65536; v++ {
			a := attr.Attribute(v)
			clause := textClause[v] // "-" when the printer omitted the flags operand, "" when no TEXT line was found
			if clause == "" {
				clause = "missing"
			}
			gcl := globlClause[v]
			if gcl == "" {
				gcl = "missing"
			}
			c := "0"
			if a.ContainsTextFlags() {
				c = "1"
				macro++
			} else {
				nonmacro++
			}
			o.emit(fmt.Sprintf("attr %d", v), a.Asm()+" "+c+" "+clause)
			// acceptors: the text the printer really put on the GLOBL and the TEXT line must evaluate to v
			o.emit(fmt.Sprintf("accept-attr %d %s %s", v, gcl, c), "ok")
			if clause == "-" {
				o.emit(fmt.Sprintf("accept-attr %d %s", v, c), "ok")
			} else {
				o.emit(fmt.Sprintf("accept-attr %d %s %s", v, clause, c), "ok")
			}
		}
		// include pass on generated files
		r := newRng(*f.seed)
		for k := 0; k < *f.n; k++ {
			file := ir.NewFile()
			var incl []string
			for j := r.intn(3); j > 0; j-- {
				incl = append(incl, pick(r, []string{"a.h", "textflag.h", "b.h", "textflag.h"}))
			}
			file.Includes = append([]string{}, incl...)
			var secs []int
			for j := r.intn(4); j > 0; j-- {
				var v int
				switch r.intn(4) {
				case 0:
					v = 0
				case 1:
					v = 128 << r.intn(2) * (1 + 127*r.intn(2)) // unnamed bits 128, 4096.. region
				case 2:
					v = 1 << r.intn(16)
				default:
					v = int(r.u64() & 0xffff)
				}
				v &= 0xffff
				secs = append(secs, v)
				if r.chance(1, 2) {
					fn := ir.NewFunction("f")
					fn.Attributes = attr.Attribute(v)
					file.AddSection(fn)
				} else {
					g := ir.NewStaticGlobal("g")
					g.Attributes = attr.Attribute(v)
					file.AddSection(g)
				}
			}
			if err := pass.IncludeTextFlagHeader(file); err != nil {
				return err
			}
			req := []string{"inclpass", itoa(len(incl))}
			req = append(req, incl...)
			req = append(req, itoa(len(secs)))
			for _, s := range secs {
				req = append(req, itoa(s))
			}
			resp := append([]string{itoa(len(file.Includes))}, file.Includes...)
			o.emit(strings.Join(req, " "), strings.Join(resp, " "))
			acc := append([]string{"accept-incl", itoa(len(file.Includes))}, file.Includes...)
			acc = append(acc, itoa(len(secs)))
			for _, s := range secs {
				acc = append(acc, attr.Attribute(s).Asm())
			}
			o.emit(strings.Join(acc, " "), "ok")
		}
		return writeJSON(*f.stats, map[string]any{
			"attr_values": 65536, "with_macro": macro, "without_macro": nonmacro, "include_pass_files": *f.n,
		})
	})
}
