package main

import (
	"fmt"
	"strings"

	"github.com/mmcloughlin/avo/attr"
	"github.com/mmcloughlin/avo/ir"
	"github.com/mmcloughlin/avo/printer"
)

// C19: exhaustive correspondence of Attribute.Asm / ContainsTextFlags (all
// 65536 values, both directive kinds) and generated IncludeTextFlagHeader runs.
func init() {
	register("c19", "attribute printing (exhaustive) and textflag include pass", func(args []string) error {
		f := newStdFlags("c19")
		work := f.fs.String("work", ".", "scratch directory of the measured route")
		nasm := f.fs.Int("nasm", 100, "number of assembled files")
		if err := f.fs.Parse(args); err != nil {
			return err
		}
		o, err := openOut(f)
		if err != nil {
			return err
		}
		defer o.close()
		macro, nonmacro := 0, 0
		if _, isCorpus := c19CorpusLines(*f.replay); isCorpus {
			// corpus/C19/*.txt: recorded files only (c19file.go)
			st := map[string]int{}
			if err := c19FileStreams(o, f, *work, 0, st); err != nil {
				return err
			}
			return writeJSON(*f.stats, st)
		}
		// the TEXT and GLOBL clauses are taken from the REAL printer: files of 256 functions + 256 globals, one per value
		textClause := make([]string, 65536)
		globlClause := make([]string, 65536)
		for base := 0; base < 65536; base += 256 {
			file := ir.NewFile()
			for v := base; v < base+256; v++ {
				fn := ir.NewFunction(fmt.Sprintf("f%d", v))
				fn.Attributes = attr.Attribute(v)
				file.AddSection(fn)
				g := ir.NewStaticGlobal(fmt.Sprintf("g%d", v))
				g.Attributes = attr.Attribute(v)
				file.AddSection(g)
			}
			out, err := printer.NewGoAsm(printer.Config{Name: "c19"}).Print(file)
			if err != nil {
				return err
			}
			for _, line := range strings.Split(string(out), "\n") {
				var v int
				switch {
				case strings.HasPrefix(line, "TEXT "):
					// TEXT ·f<v>(SB)[, <clause>], $0
					rest := strings.TrimPrefix(line, "TEXT ")
					i := strings.Index(rest, "(SB)")
					if i < 0 {
						continue
					}
					if _, err := fmt.Sscanf(rest[strings.IndexByte(rest, 'f')+1:i], "%d", &v); err != nil || v < 0 || v > 65535 {
						continue
					}
					rest = strings.TrimPrefix(rest[i+4:], ", ")
					j := strings.LastIndex(rest, "$")
					if j < 0 {
						continue
					}
					cl := strings.TrimSuffix(strings.TrimSpace(rest[:j]), ",")
					if cl == "" {
						cl = "-"
					}
					textClause[v] = cl
				case strings.HasPrefix(line, "GLOBL "):
					// GLOBL g<v><>(SB), <clause>, $0
					rest := strings.TrimPrefix(line, "GLOBL ")
					i := strings.Index(rest, "<>(SB), ")
					if i < 0 {
						continue
					}
					if _, err := fmt.Sscanf(rest[1:i], "%d", &v); err != nil || v < 0 || v > 65535 {
						continue
					}
					rest = rest[i+8:]
					j := strings.LastIndex(rest, ", $")
					if j < 0 {
						continue
					}
					globlClause[v] = rest[:j]
				}
			}
		}
		for v := 0; v < 65536; v++ {
			a := attr.Attribute(v)
			clause := textClause[v] // "-" when the printer omitted the flags operand, "" when no TEXT line was found
			if clause == "" {
				clause = "missing"
			}
			gcl := globlClause[v]
			if gcl == "" {
				gcl = "missing"
			}
			c := "0"
			if a.ContainsTextFlags() {
				c = "1"
				macro++
			} else {
				nonmacro++
			}
			o.emit(fmt.Sprintf("attr %d", v), a.Asm()+" "+c+" "+clause)
			// acceptors: the text the printer really put on the GLOBL and the TEXT line must evaluate to v
			o.emit(fmt.Sprintf("accept-attr %d %s %s", v, gcl, c), "ok")
			if clause == "-" {
				o.emit(fmt.Sprintf("accept-attr %d %s", v, c), "ok")
			} else {
				o.emit(fmt.Sprintf("accept-attr %d %s %s", v, clause, c), "ok")
			}
		}
		// file level: the include pass over all prior include lists, three routes (c19file.go)
		st := map[string]int{}
		if err := c19FileStreams(o, f, *work, *nasm, st); err != nil {
			return err
		}
		st["attr_values"], st["with_macro"], st["without_macro"], st["include_pass_files"] = 65536, macro, nonmacro, *f.n
		return writeJSON(*f.stats, st)
	})
}
