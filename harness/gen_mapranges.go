package main

import (
	"fmt"
	"go/ast"
	"go/types"
	"path/filepath"
	"sort"
	"strings"

	"golang.org/x/tools/go/packages"
)

// Gen.MapRanges (C17): a census of every place in the generation path where the
// order of a Go map can become observable:
//
//	range      `for … := range m` with m of map type
//	maps.Keys  calls of maps.Keys / maps.Values / maps.All (std or x/exp) on a map — whether ranged
//	           directly or collected with slices.Collect/AppendSeq; NOT counted when the call is the
//	           direct argument of slices.Sorted / SortedFunc / SortedStableFunc (order erased at once)
//	reflect    reflect.Value.MapKeys / MapRange / Seq / Seq2
//	sync.Map   (*sync.Map).Range
//
// The obligation in Props/C17Tables is stated on `mapIterTypes`: the SET of (package, underlying map
// type) pairs, so that moving a loop into a helper, renaming a variable or a named map type, inlining
// Clone+DifferenceUpdate or adding another loop over a map type that package already iterates does not
// change it, while the first iteration over a new map type in a package does. The sites are emitted
// for information (`mapIterSites`) and never compared.
func init() {
	genLean["MapRanges"] = func(repo string) (string, error) {
		cfg := &packages.Config{
			Mode: packages.NeedName | packages.NeedFiles | packages.NeedSyntax | packages.NeedTypes | packages.NeedTypesInfo | packages.NeedImports | packages.NeedDeps,
			Dir:  repo,
			Env:  append(envForGo(), "GOFLAGS=-mod=mod"),
		}
		pkgs, err := packages.Load(cfg, "./reg", "./ir", "./pass", "./printer", "./build", "./gotypes", "./buildtags", "./attr",
			"./operand", "./x86", "./internal/prnt", "./internal/stack", "./src")
		if err != nil {
			return "", err
		}
		qual := func(p *types.Package) string { return p.Name() }
		mapType := func(t types.Type) (string, bool) {
			if t == nil {
				return "", false
			}
			if m, ok := t.Underlying().(*types.Map); ok {
				return types.TypeString(m, qual), true
			}
			// type parameter constrained to maps, pointer to map: not used in avo; be conservative
			return "", false
		}
		type site struct{ file, fn, kind, expr string }
		var sites []site
		typeSet := map[[2]string]bool{}
		typeCount := map[[2]string]int{}
		shapeSet := map[[3]string]bool{}
		for _, p := range pkgs {
			if len(p.Errors) > 0 {
				return "", fmt.Errorf("package %s: %v", p.PkgPath, p.Errors[0])
			}
			pkgRel := strings.TrimPrefix(strings.TrimPrefix(p.PkgPath, "github.com/mmcloughlin/avo"), "/")
			calleeOf := func(c *ast.CallExpr) (pkgPath, recv, name string) {
				var id *ast.Ident
				switch f := ast.Unparen(c.Fun).(type) {
				case *ast.SelectorExpr:
					id = f.Sel
				case *ast.Ident:
					id = f
				case *ast.IndexExpr: // explicit instantiation maps.Keys[M]
					if s, ok := ast.Unparen(f.X).(*ast.SelectorExpr); ok {
						id = s.Sel
					}
				case *ast.IndexListExpr:
					if s, ok := ast.Unparen(f.X).(*ast.SelectorExpr); ok {
						id = s.Sel
					}
				}
				if id == nil {
					return
				}
				fn, ok := p.TypesInfo.Uses[id].(*types.Func)
				if !ok || fn.Pkg() == nil {
					return
				}
				pkgPath, name = fn.Pkg().Path(), fn.Name()
				if sig, ok := fn.Type().(*types.Signature); ok && sig.Recv() != nil {
					rt := sig.Recv().Type()
					if pt, ok := rt.(*types.Pointer); ok {
						rt = pt.Elem()
					}
					if nt, ok := rt.(*types.Named); ok {
						recv = nt.Obj().Name()
					}
				}
				return
			}
			isMapsPkg := func(path string) bool { return path == "maps" || path == "golang.org/x/exp/maps" }
			for _, f := range p.Syntax {
				path := p.Fset.Position(f.Pos()).Filename
				rel, _ := filepath.Rel(repo, path)
				if strings.HasSuffix(rel, "_test.go") || strings.Contains(rel, "verif_export") {
					continue
				}
				// calls whose order is erased immediately: slices.Sorted*(maps.Keys(m))
				sortedArg := map[ast.Expr]bool{}
				ast.Inspect(f, func(n ast.Node) bool {
					if c, ok := n.(*ast.CallExpr); ok && len(c.Args) > 0 {
						pp, _, name := calleeOf(c)
						if (pp == "slices" || pp == "golang.org/x/exp/slices") && strings.HasPrefix(name, "Sorted") {
							sortedArg[ast.Unparen(c.Args[0])] = true
						}
					}
					return true
				})
				var curFn string
				add := func(kind, typ string, e ast.Expr) {
					sites = append(sites, site{rel, curFn, kind, types.ExprString(e)})
					typeSet[[2]string{pkgRel, typ}] = true
					typeCount[[2]string{pkgRel, typ}]++
				}
				ast.Inspect(f, func(n ast.Node) bool {
					switch x := n.(type) {
					case *ast.FuncDecl:
						curFn = x.Name.Name
						if x.Recv != nil && len(x.Recv.List) == 1 {
							curFn = types.ExprString(x.Recv.List[0].Type) + "." + curFn
						}
					case *ast.RangeStmt:
						if ts, ok := mapType(p.TypesInfo.TypeOf(x.X)); ok {
							add("range", ts, x.X)
							for _, fl := range strings.Split(c17LoopShape(p.TypesInfo, x), "+") {
								if c17LeakFlags[fl] {
									shapeSet[[3]string{pkgRel, ts, fl}] = true
								}
							}
						}
					case *ast.CallExpr:
						pp, recv, name := calleeOf(x)
						switch {
						case isMapsPkg(pp) && (name == "Keys" || name == "Values" || name == "All") && len(x.Args) == 1:
							if sortedArg[x] {
								break
							}
							ts, ok := mapType(p.TypesInfo.TypeOf(x.Args[0]))
							if !ok {
								ts = "maps." + name + "(?)"
							}
							add("maps."+name, ts, x.Args[0])
							shapeSet[[3]string{pkgRel, ts, "maps." + name}] = true
						case pp == "reflect" && recv == "Value" && (name == "MapKeys" || name == "MapRange" || name == "Seq" || name == "Seq2"):
							add("reflect."+name, "reflect.Value", x.Fun)
							shapeSet[[3]string{pkgRel, "reflect.Value", "reflect." + name}] = true
						case pp == "sync" && recv == "Map" && name == "Range":
							add("sync.Map.Range", "sync.Map", x.Fun)
							shapeSet[[3]string{pkgRel, "sync.Map", "sync.Map.Range"}] = true
						}
					}
					return true
				})
			}
		}
		sort.Slice(sites, func(i, j int) bool {
			a, b := sites[i], sites[j]
			if a.file != b.file {
				return a.file < b.file
			}
			if a.fn != b.fn {
				return a.fn < b.fn
			}
			if a.kind != b.kind {
				return a.kind < b.kind
			}
			return a.expr < b.expr
		})
		var tys [][2]string
		for k := range typeSet {
			tys = append(tys, k)
		}
		sort.Slice(tys, func(i, j int) bool {
			if tys[i][0] != tys[j][0] {
				return tys[i][0] < tys[j][0]
			}
			return tys[i][1] < tys[j][1]
		})
		var b strings.Builder
		b.WriteString("-- REGENERATED by avoh gen-lean MapRanges (go/types over /repo). Do not edit.\nnamespace Avo.Gen\n")
		b.WriteString("/-- (package, underlying map type) of every map whose order is enumerated somewhere in the generation path\n(range over a map, maps.Keys/Values/All, reflect MapKeys/MapRange, sync.Map.Range) -/\ndef mapIterTypes : List (String × String) := [\n")
		for i, t := range tys {
			if i > 0 {
				b.WriteString(",\n")
			}
			fmt.Fprintf(&b, "  (%s, %s)", leanStr(t[0]), leanStr(t[1]))
		}
		b.WriteString("]\n")
		b.WriteString("/-- number of enumeration sites per (package, underlying map type) -/\ndef mapIterCounts : List ((String × String) × Nat) := [\n")
		for i, t := range tys {
			if i > 0 {
				b.WriteString(",\n")
			}
			fmt.Fprintf(&b, "  ((%s, %s), %d)", leanStr(t[0]), leanStr(t[1]), typeCount[t])
		}
		b.WriteString("]\n")
		var shapes [][3]string
		for k := range shapeSet {
			shapes = append(shapes, k)
		}
		sort.Slice(shapes, func(i, j int) bool {
			for k := 0; k < 3; k++ {
				if shapes[i][k] != shapes[j][k] {
					return shapes[i][k] < shapes[j][k]
				}
			}
			return false
		})
		b.WriteString("/-- (package, underlying map type, flag): a way in which the enumeration order of some `range` over that map type\ncan leave the loop (ret-elem, break, append, set-outer, call, closure; maps.Keys etc. by name) —\nsee c17LoopShape in harness/gen_mapranges.go -/\ndef mapIterShapes : List (String × String × String) := [\n")
		for i, t := range shapes {
			if i > 0 {
				b.WriteString(",\n")
			}
			fmt.Fprintf(&b, "  (%s, %s, %s)", leanStr(t[0]), leanStr(t[1]), leanStr(t[2]))
		}
		b.WriteString("]\n")
		b.WriteString("/-- for information only (never compared): (file, function, kind, expression) of every such site -/\ndef mapIterSites : List (String × String × String × String) := [\n")
		for i, s := range sites {
			if i > 0 {
				b.WriteString(",\n")
			}
			fmt.Fprintf(&b, "  (%s, %s, %s, %s)", leanStr(s.file), leanStr(s.fn), leanStr(s.kind), leanStr(s.expr))
		}
		b.WriteString("]\nend Avo.Gen\n")
		return b.String(), nil
	}
}

// c17LoopShape describes, syntactically, the ways in which the order of a `range` over a map can leave the loop —
// a '+'-joined, sorted set of flags:
//
//	ret-elem    a return inside the loop whose results mention something declared in the loop (key, value, body
//	            locals): first-match search — the answer is the first element that qualifies
//	ret-const   a return inside the loop whose results mention nothing declared in the loop (all-or-nothing tests)
//	break       a break / goto / labelled continue leaving the loop early
//	append      append inside the loop (the order of the slice is the order of the map unless it is sorted after)
//	set-outer   plain assignment (=) to a variable declared outside the loop (last-writer-wins / running minimum)
//	acc-outer   op-assignment (|=, +=, …) or ++/-- on a variable declared outside the loop
//	set-outer   … also a plain assignment to a field, through a pointer, or to an element whose index does not
//	            mention anything declared in the loop
//	store       assignment to an element indexed by something declared in the loop, op-assignment through an
//	            index / selector / pointer (commute with the other iterations)
//	call        a call used as a statement (or deferred / go), whose effects may depend on the order
//	closure     a function literal in the body (not analysed further)
//
// Calls inside expressions and declarations of locals carry no flag.  A loop with none of the flags is "pure".
// c17LeakFlags: the flags through which the enumeration order can leave a loop.  `store`, `acc-outer`, `ret-const`
// and `pure` loops compute the same thing in every order (keyed writes, commutative accumulation, all-or-nothing
// tests) and are not reported, so adding such a loop over a known map type changes nothing.
var c17LeakFlags = map[string]bool{"ret-elem": true, "break": true, "append": true, "set-outer": true, "call": true, "closure": true}

func c17LoopShape(info *types.Info, rs *ast.RangeStmt) string {
	inner := func(id *ast.Ident) bool { // declared inside the loop?
		obj := info.Uses[id]
		if obj == nil {
			obj = info.Defs[id]
		}
		return obj != nil && obj.Pos() >= rs.Pos() && obj.Pos() < rs.End()
	}
	mentionsInner := func(e ast.Expr) bool {
		found := false
		ast.Inspect(e, func(n ast.Node) bool {
			if id, ok := n.(*ast.Ident); ok && inner(id) {
				found = true
			}
			return !found
		})
		return found
	}
	flags := map[string]bool{}
	var walk func(n ast.Node, depth int) // depth: nesting in inner for/switch/select (for unlabelled break)
	walk = func(n ast.Node, depth int) {
		ast.Inspect(n, func(m ast.Node) bool {
			if m == nil || m == n {
				return true
			}
			switch x := m.(type) {
			case *ast.FuncLit:
				flags["closure"] = true
				return false
			case *ast.ForStmt, *ast.RangeStmt, *ast.SwitchStmt, *ast.TypeSwitchStmt, *ast.SelectStmt:
				walk(x, depth+1)
				return false
			case *ast.ReturnStmt:
				el := false
				for _, r := range x.Results {
					if mentionsInner(r) {
						el = true
					}
				}
				if el {
					flags["ret-elem"] = true
				} else {
					flags["ret-const"] = true
				}
			case *ast.BranchStmt:
				switch {
				case x.Tok.String() == "goto", x.Label != nil:
					flags["break"] = true
				case x.Tok.String() == "break" && depth == 0:
					flags["break"] = true
				}
			case *ast.IncDecStmt:
				if id, ok := ast.Unparen(x.X).(*ast.Ident); ok {
					if !inner(id) {
						flags["acc-outer"] = true
					}
				} else {
					flags["store"] = true
				}
			case *ast.AssignStmt:
				for _, l := range x.Lhs {
					switch t := ast.Unparen(l).(type) {
					case *ast.Ident:
						if t.Name == "_" || inner(t) || x.Tok.String() == ":=" && info.Defs[t] != nil {
							continue
						}
						if x.Tok.String() == "=" || x.Tok.String() == ":=" {
							flags["set-outer"] = true
						} else {
							flags["acc-outer"] = true
						}
					case *ast.IndexExpr:
						// a write keyed by something of the current element commutes with the writes of the other
						// elements; a write to a fixed place is last-writer-wins
						if mentionsInner(t.Index) || x.Tok.String() != "=" {
							flags["store"] = true
						} else {
							flags["set-outer"] = true
						}
					default:
						if x.Tok.String() == "=" {
							flags["set-outer"] = true
						} else {
							flags["store"] = true
						}
					}
				}
			case *ast.ExprStmt:
				if _, ok := x.X.(*ast.CallExpr); ok {
					flags["call"] = true
				}
			case *ast.DeferStmt, *ast.GoStmt:
				flags["call"] = true
			case *ast.CallExpr:
				if id, ok := ast.Unparen(x.Fun).(*ast.Ident); ok && id.Name == "append" {
					if _, isB := info.Uses[id].(*types.Builtin); isB {
						flags["append"] = true
					}
				}
			}
			return true
		})
	}
	walk(rs.Body, 0)
	if len(flags) == 0 {
		return "pure"
	}
	var fs []string
	for f := range flags {
		fs = append(fs, f)
	}
	sort.Strings(fs)
	return strings.Join(fs, "+")
}
