package main

import (
	"fmt"
	"go/types"
	"strings"

	"github.com/mmcloughlin/avo/build"
	"github.com/mmcloughlin/avo/gotypes"
	"github.com/mmcloughlin/avo/ir"
	"github.com/mmcloughlin/avo/operand"
	"github.com/mmcloughlin/avo/reg"
)

// C08 correspondence: for EVERY reachable input of Context.Load / Context.Store
// (all basic Go types × register classes GP 8L/8H/16/32/64, XMM/YMM/ZMM, K —
// virtual and physical representatives — × parameter/result address and
// dereferenced-pointer address) call the real methods on a real signature and
// compare the appended instruction's opcode (or the error) with the model;
// then (c08cpu.go) measure on the CPU what the selected instructions do.

type c08Reg struct {
	class string // gp8l gp8h gp16 gp32 gp64 xmm ymm zmm k
	r     reg.Register
	phys  bool
}

func c08Registers() []c08Reg {
	col := reg.NewCollection()
	return []c08Reg{
		{"gp8l", col.GP8L(), false}, {"gp8h", col.GP8H(), false}, {"gp16", col.GP16(), false}, {"gp32", col.GP32(), false}, {"gp64", col.GP64(), false},
		{"xmm", col.XMM(), false}, {"ymm", col.YMM(), false}, {"zmm", col.ZMM(), false}, {"k", col.K(), false},
		{"gp8l", reg.AL, true}, {"gp8l", reg.R9B, true}, {"gp8l", reg.SIB, true}, {"gp8h", reg.CH, true}, {"gp16", reg.AX, true}, {"gp16", reg.R10W, true},
		{"gp32", reg.EAX, true}, {"gp32", reg.R11L, true}, {"gp64", reg.RAX, true}, {"gp64", reg.R12, true}, {"gp64", reg.RBP, true},
		{"xmm", reg.X0, true}, {"xmm", reg.X17, true}, {"ymm", reg.Y3, true}, {"ymm", reg.Y31, true}, {"zmm", reg.Z5, true}, {"zmm", reg.Z30, true},
		{"k", reg.K0, true}, {"k", reg.K5, true},
	}
}

// c08Types: the Go source spelling of every basic type a component can
// resolve to (pointers resolve to uintptr).
var c08Types = []string{"bool", "int", "int8", "int16", "int32", "int64", "uint", "uint8", "uint16", "uint32", "uint64", "uintptr",
	"float32", "float64", "unsafe.Pointer", "*int32", "byte", "rune"}

// c08NonPrimitive: components that do not resolve to a basic type.
var c08NonPrimitive = []string{"string", "complex64", "complex128", "[]byte", "[4]int32", "struct{ a, b int32 }"}

type c08Outcome struct {
	resp string // "op NAME" | "error" | "panic" | "odd"
	inst *ir.Instruction
	msg  string
}

func c08NewCtx(sig string) (*build.Context, error) {
	c := build.NewContext()
	c.Function("f")
	if strings.Contains(sig, "unsafe.Pointer") {
		// the expression parser has no package "unsafe": build the same signature from go/types values
		t := types.Typ[types.UnsafePointer]
		p := types.NewPointer(t)
		params := types.NewTuple(types.NewVar(0, nil, "x", t), types.NewVar(0, nil, "p", p))
		results := types.NewTuple(types.NewVar(0, nil, "r", t), types.NewVar(0, nil, "q", p))
		c.Signature(gotypes.NewSignature(nil, types.NewSignatureType(nil, nil, nil, params, results, false)))
	} else {
		c.SignatureExpr(sig)
	}
	if c.VerifErrCount() != 0 {
		return nil, fmt.Errorf("signature %q: %v", sig, c.VerifErrMessages())
	}
	return c, nil
}

func c08Observe(c *build.Context, call func()) (out c08Outcome) {
	n0, e0, _ := c06State(c)
	panicked := false
	func() {
		defer func() {
			if recover() != nil {
				panicked = true
			}
		}()
		call()
	}()
	n1, e1, last := c06State(c)
	switch {
	case panicked:
		out.resp = "panic"
	case n1 == n0+1 && e1 == e0 && last != nil:
		out.resp = "op " + last.Opcode
		if len(last.Suffixes) > 0 {
			out.resp += "." + strings.Join(last.Suffixes, ".")
		}
		out.inst = last
	case n1 == n0 && e1 == e0+1:
		out.resp = "error"
		msgs := c.VerifErrMessages()
		out.msg = msgs[len(msgs)-1]
	default:
		out.resp = fmt.Sprintf("odd:nodes%+d:errs%+d", n1-n0, e1-e0)
	}
	return out
}

// c08Case is one reachable input with what the implementation did.
type c08Case struct {
	dir   string // load | store
	typ   string // Go spelling
	basic *types.Basic
	reg   c08Reg
	shape string // param | deref
	mem   operand.Mem
	out   c08Outcome
}

func c08Run(dir, typ, shape string, rg c08Reg) (*c08Case, error) {
	sig := fmt.Sprintf("func(x %s, p *%s) (r %s, q *%s)", typ, typ, typ, typ)
	c, err := c08NewCtx(sig)
	if err != nil {
		return nil, err
	}
	var comp gotypes.Component
	base := reg.R14
	switch {
	case dir == "load" && shape == "param":
		comp = c.Param("x")
	case dir == "load" && shape == "deref":
		comp = c.Param("p").Dereference(base)
	case dir == "store" && shape == "param":
		comp = c.Return("r")
	default:
		comp = c.Return("q").Dereference(base)
	}
	cs := &c08Case{dir: dir, typ: typ, reg: rg, shape: shape}
	if b, err := comp.Resolve(); err == nil {
		cs.basic, cs.mem = b.Type, b.Addr
	}
	if dir == "load" {
		cs.out = c08Observe(c, func() { c.Load(comp, rg.r) })
	} else {
		cs.out = c08Observe(c, func() { c.Store(rg.r, comp) })
	}
	return cs, nil
}

// c08WantBasic: the basic type a component of the spelled type must resolve to (pointers resolve to uintptr).
func c08WantBasic(typ string) *types.Basic {
	if typ == "unsafe.Pointer" {
		return types.Typ[types.UnsafePointer]
	}
	if strings.HasPrefix(typ, "*") {
		return types.Typ[types.Uintptr]
	}
	if obj := types.Universe.Lookup(typ); obj != nil {
		if b, ok := obj.Type().Underlying().(*types.Basic); ok {
			return types.Typ[b.Kind()]
		}
	}
	return nil
}

// c08Sub: a navigation from a parameter/result of a composite (possibly named) type to a primitive part.
type c08Sub struct {
	name  string
	typ   func() types.Type
	nav   func(gotypes.Component) gotypes.Component
	want  *types.Basic
	store bool // part may be the target of a Store
}

func c08Named(name string, under types.Type) types.Type {
	return types.NewNamed(types.NewTypeName(0, nil, name, nil), under, nil)
}

var c08Subs = []c08Sub{
	{"complex64.real", func() types.Type { return types.Typ[types.Complex64] }, gotypes.Component.Real, types.Typ[types.Float32], true},
	{"complex64.imag", func() types.Type { return types.Typ[types.Complex64] }, gotypes.Component.Imag, types.Typ[types.Float32], true},
	{"complex128.real", func() types.Type { return types.Typ[types.Complex128] }, gotypes.Component.Real, types.Typ[types.Float64], true},
	{"complex128.imag", func() types.Type { return types.Typ[types.Complex128] }, gotypes.Component.Imag, types.Typ[types.Float64], true},
	{"named-complex64.real", func() types.Type { return c08Named("C", types.Typ[types.Complex64]) }, gotypes.Component.Real, types.Typ[types.Float32], true},
	{"named-complex64.imag", func() types.Type { return c08Named("C", types.Typ[types.Complex64]) }, gotypes.Component.Imag, types.Typ[types.Float32], true},
	{"named-complex128.real", func() types.Type { return c08Named("D", types.Typ[types.Complex128]) }, gotypes.Component.Real, types.Typ[types.Float64], true},
	{"named-complex128.imag", func() types.Type { return c08Named("D", types.Typ[types.Complex128]) }, gotypes.Component.Imag, types.Typ[types.Float64], true},
	{"string.len", func() types.Type { return types.Typ[types.String] }, gotypes.Component.Len, types.Typ[types.Int], true},
	{"string.base", func() types.Type { return types.Typ[types.String] }, gotypes.Component.Base, types.Typ[types.Uintptr], true},
	{"named-string.len", func() types.Type { return c08Named("S", types.Typ[types.String]) }, gotypes.Component.Len, types.Typ[types.Int], true},
	{"slice.len", func() types.Type { return types.NewSlice(types.Typ[types.Uint16]) }, gotypes.Component.Len, types.Typ[types.Int], true},
	{"slice.cap", func() types.Type { return types.NewSlice(types.Typ[types.Uint16]) }, gotypes.Component.Cap, types.Typ[types.Int], true},
	{"slice.base", func() types.Type { return types.NewSlice(types.Typ[types.Uint16]) }, gotypes.Component.Base, types.Typ[types.Uintptr], true},
	{"named-slice.cap", func() types.Type { return c08Named("L", types.NewSlice(types.Typ[types.Float32])) }, gotypes.Component.Cap, types.Typ[types.Int], true},
	{"array.elem", func() types.Type { return types.NewArray(types.Typ[types.Int16], 3) }, func(c gotypes.Component) gotypes.Component { return c.Index(2) }, types.Typ[types.Int16], true},
	{"named-uint32", func() types.Type { return types.NewArray(c08Named("U", types.Typ[types.Uint32]), 2) }, func(c gotypes.Component) gotypes.Component { return c.Index(1) }, types.Typ[types.Uint32], true},
	{"struct.field", func() types.Type {
		return types.NewStruct([]*types.Var{types.NewField(0, nil, "a", types.Typ[types.Int8], false), types.NewField(0, nil, "b", types.Typ[types.Uint32], false)}, nil)
	}, func(c gotypes.Component) gotypes.Component { return c.Field("b") }, types.Typ[types.Uint32], true},
}

func c08RunSub(dir string, sub c08Sub, shape string, rg c08Reg) (*c08Case, error) {
	t := sub.typ()
	pt := types.NewPointer(t)
	params := types.NewTuple(types.NewVar(0, nil, "x", t), types.NewVar(0, nil, "p", pt))
	results := types.NewTuple(types.NewVar(0, nil, "r", t), types.NewVar(0, nil, "q", pt))
	c := build.NewContext()
	c.Function("f")
	c.Signature(gotypes.NewSignature(nil, types.NewSignatureType(nil, nil, nil, params, results, false)))
	if c.VerifErrCount() != 0 {
		return nil, fmt.Errorf("signature for %s: %v", sub.name, c.VerifErrMessages())
	}
	var comp gotypes.Component
	base := reg.R14
	switch {
	case dir == "load" && shape == "param":
		comp = c.Param("x")
	case dir == "load" && shape == "deref":
		comp = c.Param("p").Dereference(base)
	case dir == "store" && shape == "param":
		comp = c.Return("r")
	default:
		comp = c.Return("q").Dereference(base)
	}
	comp = sub.nav(comp)
	cs := &c08Case{dir: dir, typ: sub.name, reg: rg, shape: shape}
	if b, err := comp.Resolve(); err == nil {
		cs.basic, cs.mem = b.Type, b.Addr
	}
	if dir == "load" {
		cs.out = c08Observe(c, func() { c.Load(comp, rg.r) })
	} else {
		cs.out = c08Observe(c, func() { c.Store(rg.r, comp) })
	}
	return cs, nil
}

func c08TypeToken(t string) string {
	return strings.NewReplacer(" ", "", "{", "(", "}", ")", ",", ";").Replace(t)
}

func init() {
	register("c08", "Load/Store move deduction: exhaustive correspondence + CPU measurement", func(args []string) error {
		f := newStdFlags("c08")
		cpuRows := f.fs.Int("cpu", 40, "number of selected rows to measure on the CPU (0: none, -1: all)")
		workdir := f.fs.String("work", "", "scratch directory for the generated CPU test module")
		if err := f.fs.Parse(args); err != nil {
			return err
		}
		o, err := openOut(f)
		if err != nil {
			return err
		}
		defer o.close()
		r := newRng(*f.seed)
		hist := map[string]int{}
		opcodes := map[string]int{}
		var selected []*c08Case
		n := 0
		for _, dir := range []string{"load", "store"} {
			for _, typ := range c08Types {
				for _, rg := range c08Registers() {
					for _, shape := range []string{"param", "deref"} {
						cs, err := c08Run(dir, typ, shape, rg)
						if err != nil {
							return err
						}
						if cs.basic == nil {
							return fmt.Errorf("%s %s: component did not resolve", dir, typ)
						}
						n++
						// the expected basic type comes from the SPELLED type (go/types universe), not from what
						// the component resolved to: a component resolving to another type is a violation
						want := c08WantBasic(typ)
						if want == nil {
							return fmt.Errorf("no expectation for type %s", typ)
						}
						if cs.basic.Kind() != want.Kind() {
							o.emit(fmt.Sprintf("accept-movsel %s %s %s %d %d %s => resolved-as:%s", dir, c08TypeToken(want.Name()), rg.class, int(want.Info()), int(gotypes.Sizes.Sizeof(want)), c06EncOp(rg.r), cs.basic.Name()), "ok")
						}
						ti, ts := int(want.Info()), int(gotypes.Sizes.Sizeof(want))
						regTok := c06EncOp(rg.r)
						o.emit(fmt.Sprintf("mov %s %d %d %s %s", dir, ti, ts, c06EncOp(cs.mem), regTok), cs.out.resp)
						o.emit(fmt.Sprintf("accept-movsel %s %s %s %d %d %s => %s", dir, c08TypeToken(cs.basic.Name()), rg.class, ti, ts, regTok, cs.out.resp), "ok")
						if strings.HasPrefix(cs.out.resp, "op ") {
							hist["instruction"]++
							opcodes[cs.out.resp[3:]]++
							// the instruction must move between exactly the component address and the register given
							want := []operand.Op{cs.mem, rg.r}
							if dir == "store" {
								want = []operand.Op{rg.r, cs.mem}
							}
							if c06EncOps(cs.out.inst.Operands) != c06EncOps(want) {
								o.emit(fmt.Sprintf("accept-movsel %s %s %s %d %d %s => operands-changed", dir, c08TypeToken(cs.basic.Name()), rg.class, ti, ts, regTok), "ok")
							}
							selected = append(selected, cs)
						} else {
							hist[cs.out.resp]++
							if cs.out.resp == "error" && cs.out.msg != "could not deduce mov instruction" {
								hist["error-other-message"]++
								o.emit(fmt.Sprintf("accept-movsel %s %s %s %d %d %s => error-message:%s", dir, c08TypeToken(cs.basic.Name()), rg.class, ti, ts, regTok, c06Hex(cs.out.msg)), "ok")
							}
						}
					}
				}
			}
			// sub-components of composite and NAMED types (parts of complex numbers, string/slice headers): the
			// expected basic type is given by the table c08Subs, independently of gotypes
			for _, sub := range c08Subs {
				for _, rg := range c08Registers() {
					for _, shape := range []string{"param", "deref"} {
						cs, err := c08RunSub(dir, sub, shape, rg)
						if err != nil {
							return err
						}
						n++
						want := sub.want
						ti, ts := int(want.Info()), int(gotypes.Sizes.Sizeof(want))
						regTok := c06EncOp(rg.r)
						tag := c08TypeToken(want.Name())
						if cs.basic == nil {
							o.emit(fmt.Sprintf("accept-movsel %s %s %s %d %d %s => unresolved:%s", dir, tag, rg.class, ti, ts, regTok, c06Hex(sub.name)), "ok")
							continue
						}
						if cs.basic.Kind() != want.Kind() {
							o.emit(fmt.Sprintf("accept-movsel %s %s %s %d %d %s => resolved-as:%s", dir, tag, rg.class, ti, ts, regTok, cs.basic.Name()), "ok")
						}
						hist["sub:"+sub.name]++
						o.emit(fmt.Sprintf("mov %s %d %d %s %s", dir, ti, ts, c06EncOp(cs.mem), regTok), cs.out.resp)
						o.emit(fmt.Sprintf("accept-movsel %s %s %s %d %d %s => %s", dir, tag, rg.class, ti, ts, regTok, cs.out.resp), "ok")
					}
				}
			}
			for _, typ := range c08NonPrimitive {
				for _, rg := range c08Registers()[:9] {
					cs, err := c08Run(dir, typ, "param", rg)
					if err != nil {
						return err
					}
					n++
					resp := cs.out.resp
					if strings.HasPrefix(resp, "op ") {
						resp = "moved:" + resp[3:]
					}
					hist["nonprimitive-"+resp]++
					o.emit(fmt.Sprintf("accept-nonprim %s %s %s", dir, c08TypeToken(typ), resp), "ok")
				}
			}
		}
		stats := map[string]any{"inputs": n, "histogram": hist, "opcodes_selected": opcodes}
		// CPU measurement of the selected rows
		if *cpuRows != 0 && len(selected) > 0 {
			// distinct (dir, type, class, opcode): physical/virtual and address shape do not change the instruction
			seen := map[string]bool{}
			var rows []*c08Case
			for _, cs := range selected {
				if cs.reg.phys || cs.shape != "param" {
					continue
				}
				k := cs.dir + " " + cs.basic.Name() + " " + cs.reg.class
				if !seen[k] {
					seen[k] = true
					rows = append(rows, cs)
				}
			}
			if *cpuRows > 0 && *cpuRows < len(rows) {
				// always keep 4-byte integers with XMM (F7) and one row per opcode; fill up at random
				keep := map[int]bool{}
				byOpc := map[string]bool{}
				for i, cs := range rows {
					if !byOpc[cs.dir+cs.out.resp] {
						byOpc[cs.dir+cs.out.resp] = true
						keep[i] = true
					}
					if cs.reg.class == "xmm" && gotypes.Sizes.Sizeof(cs.basic) == 4 {
						keep[i] = true
					}
				}
				for len(keep) < *cpuRows {
					keep[r.intn(len(rows))] = true
				}
				var sel []*c08Case
				for i, cs := range rows {
					if keep[i] {
						sel = append(sel, cs)
					}
				}
				rows = sel
			}
			wd := *workdir
			if wd == "" {
				return fmt.Errorf("-work directory required for the CPU measurement")
			}
			cst, err := c08CPU(o, rows, wd, *f.repo)
			if err != nil {
				// the functions around the real Load/Store could not be generated, built or run: that is itself
				// evidence (e.g. Load emitting an instruction the assembler rejects), reported as a failing acceptor
				msg := err.Error()
				if len(msg) > 600 {
					msg = msg[:600]
				}
				o.emit("accept-cpu-run "+c06Hex(msg), "ok")
				stats["cpu"] = map[string]any{"failed": msg}
			} else {
				stats["cpu"] = cst
			}
		}
		return writeJSON(*f.stats, stats)
	})
}
