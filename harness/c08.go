package main

import (
	"fmt"
	"go/types"
	"os"
	"strings"

	"github.com/mmcloughlin/avo/build"
	"github.com/mmcloughlin/avo/gotypes"
	"github.com/mmcloughlin/avo/ir"
	"github.com/mmcloughlin/avo/operand"
	"github.com/mmcloughlin/avo/reg"
)

// C08 correspondence: for EVERY reachable input of Context.Load / Context.Store
// (all basic Go types × register classes GP 8L/8H/16/32/64, XMM/YMM/ZMM, K —
// virtual and physical representatives — × parameter/result address and
// dereferenced-pointer address) call the real methods on a real signature and
// compare the appended instruction's opcode (or the error) with the model;
// then (c08cpu.go) measure on the CPU what the selected instructions do.

type c08Reg struct {
	class string // gp8l gp8h gp16 gp32 gp64 xmm ymm zmm k
	r     reg.Register
	phys  bool
}

func c08Registers() []c08Reg {
	col := reg.NewCollection()
	return []c08Reg{
		{"gp8l", col.GP8L(), false}, {"gp8h", col.GP8H(), false}, {"gp16", col.GP16(), false}, {"gp32", col.GP32(), false}, {"gp64", col.GP64(), false},
		{"xmm", col.XMM(), false}, {"ymm", col.YMM(), false}, {"zmm", col.ZMM(), false}, {"k", col.K(), false},
		{"gp8l", reg.AL, true}, {"gp8l", reg.R9B, true}, {"gp8l", reg.SIB, true}, {"gp8h", reg.CH, true}, {"gp16", reg.AX, true}, {"gp16", reg.R10W, true},
		{"gp32", reg.EAX, true}, {"gp32", reg.R11L, true}, {"gp64", reg.RAX, true}, {"gp64", reg.R12, true}, {"gp64", reg.RBP, true},
		{"xmm", reg.X0, true}, {"xmm", reg.X17, true}, {"ymm", reg.Y3, true}, {"ymm", reg.Y31, true}, {"zmm", reg.Z5, true}, {"zmm", reg.Z30, true},
		{"k", reg.K0, true}, {"k", reg.K5, true},
	}
}

// c08Types: the Go source spelling of every basic type a component can
// resolve to (pointers resolve to uintptr).
var c08Types = []string{"bool", "int", "int8", "int16", "int32", "int64", "uint", "uint8", "uint16", "uint32", "uint64", "uintptr",
	"float32", "float64", "unsafe.Pointer", "*int32", "byte", "rune"}

// c08NonPrimitive: components that do not resolve to a basic type.
var c08NonPrimitive = []string{"string", "complex64", "complex128", "[]byte", "[4]int32", "struct{ a, b int32 }"}

type c08Outcome struct {
	resp string // "op NAME" | "error" | "panic" | "odd"
	inst *ir.Instruction
	msg  string
}

// c08Sizes: gc/amd64 sizes as go/types knows them — the expectations of this
// check never come from avo's own gotypes.Sizes.
var c08Sizes = types.SizesFor("gc", "amd64")

func c08NewCtx(sig string) (*build.Context, error) {
	c := build.NewContext()
	c.Function("f")
	if strings.Contains(sig, "unsafe.Pointer") {
		// the expression parser has no package "unsafe": build the same signature from go/types values
		t := types.Typ[types.UnsafePointer]
		p := types.NewPointer(t)
		params := types.NewTuple(types.NewVar(0, nil, "x", t), types.NewVar(0, nil, "p", p))
		results := types.NewTuple(types.NewVar(0, nil, "r", t), types.NewVar(0, nil, "q", p))
		c.Signature(gotypes.NewSignature(nil, types.NewSignatureType(nil, nil, nil, params, results, false)))
	} else {
		c.SignatureExpr(sig)
	}
	if c.VerifErrCount() != 0 {
		return nil, fmt.Errorf("signature %q: %v", sig, c.VerifErrMessages())
	}
	return c, nil
}

// c08Insts: the instructions of the function being built (comments, labels and
// other nodes a refactored Load/Store might add are not instructions).
func c08Insts(c *build.Context) (insts []*ir.Instruction, errs int) {
	f, _ := c.Result()
	if f != nil {
		if fns := f.Functions(); len(fns) > 0 {
			for _, n := range fns[len(fns)-1].Nodes {
				if i, ok := n.(*ir.Instruction); ok {
					insts = append(insts, i)
				}
			}
		}
	}
	return insts, c.VerifErrCount()
}

func c08Observe(c *build.Context, call func()) (out c08Outcome) {
	i0, e0 := c08Insts(c)
	panicked := false
	func() {
		defer func() {
			if recover() != nil {
				panicked = true
			}
		}()
		call()
	}()
	i1, e1 := c08Insts(c)
	n0, n1 := len(i0), len(i1)
	switch {
	case panicked:
		out.resp = "panic"
	case n1 == n0+1 && e1 == e0:
		last := i1[n1-1]
		out.resp = "op " + last.Opcode
		if len(last.Suffixes) > 0 {
			out.resp += "." + strings.Join(last.Suffixes, ".")
		}
		out.inst = last
	case n1 == n0 && e1 > e0:
		out.resp = "error"
		msgs := c.VerifErrMessages()
		out.msg = msgs[len(msgs)-1]
	default:
		out.resp = fmt.Sprintf("odd:insts%+d:errs%+d", n1-n0, e1-e0)
	}
	return out
}

// c08Case is one reachable input with what the implementation did.
type c08Case struct {
	dir    string // load | store
	typ    string // Go spelling
	basic  *types.Basic
	reg    c08Reg
	shape  string // param | deref | cderef
	via    string // ctx (Context.Load/Store) | pkg (package-level build.Load/Store on a swapped-in context)
	mem    operand.Mem
	out    c08Outcome
	ret    reg.Register // what Load returned
	ptrOut *c08Outcome  // cderef: what Context.Dereference did to load the pointer
	ptrMem operand.Mem  // cderef: the pointer's own address
}

// c08Comp picks the component: parameter x / result r, the pointee of p / q
// through gotypes' Dereference on a given base register, or through
// Context.Dereference (build.Dereference), which itself Loads the pointer.
func c08Comp(c *build.Context, cs *c08Case, nav func(gotypes.Component) gotypes.Component) gotypes.Component {
	var comp gotypes.Component
	root := func(name string) gotypes.Component {
		if cs.dir == "load" {
			if cs.via == "pkg" {
				return build.Param(name)
			}
			return c.Param(name)
		}
		if cs.via == "pkg" {
			return build.Return(name)
		}
		return c.Return(name)
	}
	pname, vname := "p", "x"
	if cs.dir == "store" {
		pname, vname = "q", "r"
	}
	switch cs.shape {
	case "param":
		comp = root(vname)
	case "deref":
		comp = root(pname).Dereference(reg.R14)
	default: // cderef
		ptr := root(pname)
		if b, err := ptr.Resolve(); err == nil {
			cs.ptrMem = b.Addr
		}
		o := c08Observe(c, func() {
			if cs.via == "pkg" {
				comp = build.Dereference(ptr)
			} else {
				comp = c.Dereference(ptr)
			}
		})
		cs.ptrOut = &o
	}
	if nav != nil && comp != nil {
		comp = nav(comp)
	}
	return comp
}

func c08Exec(c *build.Context, cs *c08Case, nav func(gotypes.Component) gotypes.Component) {
	if cs.via == "pkg" {
		old := build.VerifSwapContext(c)
		defer build.VerifSwapContext(old)
	}
	comp := c08Comp(c, cs, nav)
	if comp == nil {
		cs.out = c08Outcome{resp: "panic"}
		return
	}
	if b, err := comp.Resolve(); err == nil {
		cs.basic, cs.mem = b.Type, b.Addr
	}
	rg := cs.reg
	switch {
	case cs.dir == "load" && cs.via == "pkg":
		cs.out = c08Observe(c, func() { cs.ret = build.Load(comp, rg.r) })
	case cs.dir == "load":
		cs.out = c08Observe(c, func() { cs.ret = c.Load(comp, rg.r) })
	case cs.via == "pkg":
		cs.out = c08Observe(c, func() { build.Store(rg.r, comp) })
	default:
		cs.out = c08Observe(c, func() { c.Store(rg.r, comp) })
	}
}

func c08Run(dir, typ, shape, via string, rg c08Reg) (*c08Case, error) {
	sig := fmt.Sprintf("func(x %s, p *%s) (r %s, q *%s)", typ, typ, typ, typ)
	c, err := c08NewCtx(sig)
	if err != nil {
		return nil, err
	}
	cs := &c08Case{dir: dir, typ: typ, reg: rg, shape: shape, via: via}
	c08Exec(c, cs, nil)
	return cs, nil
}

// c08TabRow: one line of the behaviour table Gen.movTab.
type c08TabRow struct {
	dir, tinfo, tsize, rkind, rsize, rmask, mbase int
	outcome                                       string // opcode, "" = error
	note, tname                                   string
}

// c08Spelling: Go source spelling of a basic type.
func c08Spelling(t *types.Basic) string {
	if t.Kind() == types.UnsafePointer {
		return "unsafe.Pointer"
	}
	return t.Name()
}

// c08Tabulate runs the real Context.Load / Context.Store over the complete
// class-level domain (direction x basic type x a virtual register of every
// class x address on the FP pseudo register / on a general-purpose base).
func c08Tabulate() ([]c08TabRow, error) {
	var rows []c08TabRow
	for di, dir := range []string{"load", "store"} {
		for _, t := range basicGoTypes() {
			for _, rg := range c08Registers()[:9] {
				for mi, shape := range []string{"param", "deref"} {
					cs, err := c08Run(dir, c08Spelling(t), shape, "ctx", rg)
					if err != nil {
						return nil, err
					}
					row := c08TabRow{dir: di, tinfo: int(t.Info()), tsize: int(c08Sizes.Sizeof(t)), rkind: int(rg.r.Kind()), rsize: int(rg.r.Size()),
						rmask: int(rg.r.Mask()), mbase: mi, tname: t.Name(), note: dir + " " + t.Name() + " " + rg.class + " " + shape}
					switch {
					case strings.HasPrefix(cs.out.resp, "op "):
						row.outcome = cs.out.resp[3:]
					case cs.out.resp == "error":
						row.outcome = ""
					default:
						row.outcome = "!" + cs.out.resp // never a modelled opcode: the theorems fail
					}
					rows = append(rows, row)
				}
			}
		}
	}
	return rows, nil
}

// c08WantBasic: the basic type a component of the spelled type must resolve to (pointers resolve to uintptr).
func c08WantBasic(typ string) *types.Basic {
	if typ == "unsafe.Pointer" {
		return types.Typ[types.UnsafePointer]
	}
	if strings.HasPrefix(typ, "*") {
		return types.Typ[types.Uintptr]
	}
	if obj := types.Universe.Lookup(typ); obj != nil {
		if b, ok := obj.Type().Underlying().(*types.Basic); ok {
			return types.Typ[b.Kind()]
		}
	}
	return nil
}

// c08Sub: a navigation from a parameter/result of a composite (possibly named) type to a primitive part.
type c08Sub struct {
	name  string
	typ   func() types.Type
	nav   func(gotypes.Component) gotypes.Component
	want  *types.Basic
	store bool // part may be the target of a Store
}

func c08Named(name string, under types.Type) types.Type {
	return types.NewNamed(types.NewTypeName(0, nil, name, nil), under, nil)
}

var c08Subs = []c08Sub{
	{"complex64.real", func() types.Type { return types.Typ[types.Complex64] }, gotypes.Component.Real, types.Typ[types.Float32], true},
	{"complex64.imag", func() types.Type { return types.Typ[types.Complex64] }, gotypes.Component.Imag, types.Typ[types.Float32], true},
	{"complex128.real", func() types.Type { return types.Typ[types.Complex128] }, gotypes.Component.Real, types.Typ[types.Float64], true},
	{"complex128.imag", func() types.Type { return types.Typ[types.Complex128] }, gotypes.Component.Imag, types.Typ[types.Float64], true},
	{"named-complex64.real", func() types.Type { return c08Named("C", types.Typ[types.Complex64]) }, gotypes.Component.Real, types.Typ[types.Float32], true},
	{"named-complex64.imag", func() types.Type { return c08Named("C", types.Typ[types.Complex64]) }, gotypes.Component.Imag, types.Typ[types.Float32], true},
	{"named-complex128.real", func() types.Type { return c08Named("D", types.Typ[types.Complex128]) }, gotypes.Component.Real, types.Typ[types.Float64], true},
	{"named-complex128.imag", func() types.Type { return c08Named("D", types.Typ[types.Complex128]) }, gotypes.Component.Imag, types.Typ[types.Float64], true},
	{"string.len", func() types.Type { return types.Typ[types.String] }, gotypes.Component.Len, types.Typ[types.Int], true},
	{"string.base", func() types.Type { return types.Typ[types.String] }, gotypes.Component.Base, types.Typ[types.Uintptr], true},
	{"named-string.len", func() types.Type { return c08Named("S", types.Typ[types.String]) }, gotypes.Component.Len, types.Typ[types.Int], true},
	{"slice.len", func() types.Type { return types.NewSlice(types.Typ[types.Uint16]) }, gotypes.Component.Len, types.Typ[types.Int], true},
	{"slice.cap", func() types.Type { return types.NewSlice(types.Typ[types.Uint16]) }, gotypes.Component.Cap, types.Typ[types.Int], true},
	{"slice.base", func() types.Type { return types.NewSlice(types.Typ[types.Uint16]) }, gotypes.Component.Base, types.Typ[types.Uintptr], true},
	{"named-slice.cap", func() types.Type { return c08Named("L", types.NewSlice(types.Typ[types.Float32])) }, gotypes.Component.Cap, types.Typ[types.Int], true},
	{"array.elem", func() types.Type { return types.NewArray(types.Typ[types.Int16], 3) }, func(c gotypes.Component) gotypes.Component { return c.Index(2) }, types.Typ[types.Int16], true},
	{"named-uint32", func() types.Type { return types.NewArray(c08Named("U", types.Typ[types.Uint32]), 2) }, func(c gotypes.Component) gotypes.Component { return c.Index(1) }, types.Typ[types.Uint32], true},
	{"struct.field", func() types.Type {
		return types.NewStruct([]*types.Var{types.NewField(0, nil, "a", types.Typ[types.Int8], false), types.NewField(0, nil, "b", types.Typ[types.Uint32], false)}, nil)
	}, func(c gotypes.Component) gotypes.Component { return c.Field("b") }, types.Typ[types.Uint32], true},
}

func c08RunSub(dir string, sub c08Sub, shape, via string, rg c08Reg) (*c08Case, error) {
	t := sub.typ()
	pt := types.NewPointer(t)
	params := types.NewTuple(types.NewVar(0, nil, "x", t), types.NewVar(0, nil, "p", pt))
	results := types.NewTuple(types.NewVar(0, nil, "r", t), types.NewVar(0, nil, "q", pt))
	c := build.NewContext()
	c.Function("f")
	c.Signature(gotypes.NewSignature(nil, types.NewSignatureType(nil, nil, nil, params, results, false)))
	if c.VerifErrCount() != 0 {
		return nil, fmt.Errorf("signature for %s: %v", sub.name, c.VerifErrMessages())
	}
	cs := &c08Case{dir: dir, typ: sub.name, reg: rg, shape: shape, via: via}
	c08Exec(c, cs, sub.nav)
	return cs, nil
}

func c08TypeToken(t string) string {
	return strings.NewReplacer(" ", "", "{", "(", "}", ")", ",", ";").Replace(t)
}

type c08Counters struct {
	hist    map[string]int
	opcodes map[string]int
	n       int
}

// c08Emit writes the request lines of one case; want is the basic type the
// component must resolve to, taken from the SPELLED type / the table c08Subs
// (never from what the component resolved to).  Reports whether an
// instruction was selected.
func c08Emit(o *out, cs *c08Case, want *types.Basic, k *c08Counters) bool {
	k.n++
	ti, ts := int(want.Info()), int(c08Sizes.Sizeof(want))
	regTok := c06EncOp(cs.reg.r)
	head := fmt.Sprintf("accept-movsel %s %s %s %d %d %s =>", cs.dir, c08TypeToken(want.Name()), cs.reg.class, ti, ts, regTok)
	k.hist["shape:"+cs.shape+"/"+cs.via]++
	if cs.ptrOut != nil {
		// Context.Dereference: the pointer itself is loaded into a fresh 64-bit general-purpose register with the
		// move for an 8-byte unsigned integer, and the pointee is addressed through exactly that register
		up := types.Typ[types.Uintptr]
		var preg reg.Register
		if cs.ptrOut.inst != nil && len(cs.ptrOut.inst.Operands) == 2 {
			preg, _ = cs.ptrOut.inst.Operands[1].(reg.Register)
		}
		ptok := "r:-"
		if preg != nil {
			ptok = c06EncOp(preg)
		}
		phead := fmt.Sprintf("accept-movsel load uintptr gp64 %d 8 %s =>", int(up.Info()), ptok)
		if preg == nil {
			o.emit(phead+" dereference:"+strings.ReplaceAll(cs.ptrOut.resp, " ", "_"), "ok")
		} else {
			o.emit(phead+" "+cs.ptrOut.resp, "ok")
			if c06EncOps(cs.ptrOut.inst.Operands) != c06EncOps([]operand.Op{cs.ptrMem, preg}) {
				o.emit(phead+" operands-changed", "ok")
			}
			if cs.basic != nil && (cs.mem.Base == nil || c06EncOp(cs.mem.Base) != ptok || cs.mem.Index != nil || cs.mem.Symbol.Name != "") {
				o.emit(phead+" pointee-not-addressed-through-the-loaded-register", "ok")
			}
		}
	}
	if cs.basic == nil {
		o.emit(head+" unresolved:"+c06Hex(cs.typ), "ok")
		return false
	}
	if cs.basic.Kind() != want.Kind() {
		o.emit(head+" resolved-as:"+cs.basic.Name(), "ok")
	}
	o.emit(fmt.Sprintf("mov %s %d %d %s %s", cs.dir, ti, ts, c06EncOp(cs.mem), regTok), cs.out.resp)
	o.emit(head+" "+cs.out.resp, "ok")
	if cs.dir == "load" && cs.out.resp != "panic" && (cs.ret == nil || c06EncOp(cs.ret) != regTok) {
		// `x := Load(src, dst)`: the register returned is the destination given
		o.emit(head+" returned-another-register", "ok")
	}
	if !strings.HasPrefix(cs.out.resp, "op ") {
		k.hist[cs.out.resp]++
		return false
	}
	k.hist["instruction"]++
	k.opcodes[cs.out.resp[3:]]++
	// the instruction must move between exactly the component address and the register given
	wantOps := []operand.Op{cs.mem, cs.reg.r}
	if cs.dir == "store" {
		wantOps = []operand.Op{cs.reg.r, cs.mem}
	}
	if c06EncOps(cs.out.inst.Operands) != c06EncOps(wantOps) {
		o.emit(head+" operands-changed", "ok")
	}
	return true
}

// c08Replay: corpus lines `request<TAB>expected answer` are passed to the model as they are (regression tests of the
// acceptors: known-bad implementation outputs must stay rejected, known-good ones accepted).
func c08Replay(o *out, path string) error {
	data, err := os.ReadFile(path)
	if err != nil {
		return err
	}
	for _, line := range strings.Split(string(data), "\n") {
		if strings.TrimSpace(line) == "" || strings.HasPrefix(line, "#") {
			continue
		}
		req, want, ok := strings.Cut(line, "\t")
		if !ok {
			return fmt.Errorf("corpus line without expected answer: %q", line)
		}
		o.emit(req, want)
	}
	return nil
}

func init() {
	register("c08", "Load/Store move deduction: exhaustive correspondence + CPU measurement", func(args []string) error {
		f := newStdFlags("c08")
		cpuRows := f.fs.Int("cpu", 40, "number of selected rows to measure on the CPU (0: none, -1: all)")
		workdir := f.fs.String("work", "", "scratch directory for the generated CPU test module")
		if err := f.fs.Parse(args); err != nil {
			return err
		}
		o, err := openOut(f)
		if err != nil {
			return err
		}
		defer o.close()
		if *f.replay != "" && strings.HasSuffix(*f.replay, ".in") {
			if err := c08Replay(o, *f.replay); err != nil {
				return err
			}
			return writeJSON(*f.stats, map[string]any{"replayed": o.count})
		}
		r := newRng(*f.seed)
		k := &c08Counters{hist: map[string]int{}, opcodes: map[string]int{}}
		var selected []*c08Case
		shapes := []string{"param", "deref", "cderef"}
		vias := []string{"ctx", "pkg"}
		for _, dir := range []string{"load", "store"} {
			for _, typ := range c08Types {
				want := c08WantBasic(typ)
				if want == nil {
					return fmt.Errorf("no expectation for type %s", typ)
				}
				for _, rg := range c08Registers() {
					for _, shape := range shapes {
						for _, via := range vias {
							cs, err := c08Run(dir, typ, shape, via, rg)
							if err != nil {
								return err
							}
							if c08Emit(o, cs, want, k) {
								selected = append(selected, cs)
							}
						}
					}
				}
			}
			// sub-components of composite and NAMED types (parts of complex numbers, string/slice headers, array
			// elements, struct fields): the expected basic type is given by the table c08Subs, independently of gotypes
			for si, sub := range c08Subs {
				for ri, rg := range c08Registers() {
					for hi, shape := range shapes {
						cs, err := c08RunSub(dir, sub, shape, vias[(si+ri+hi)%2], rg)
						if err != nil {
							return err
						}
						k.hist["sub:"+sub.name]++
						c08Emit(o, cs, sub.want, k)
					}
				}
			}
			for _, typ := range c08NonPrimitive {
				for _, rg := range c08Registers()[:9] {
					cs, err := c08Run(dir, typ, "param", "ctx", rg)
					if err != nil {
						return err
					}
					k.n++
					resp := cs.out.resp
					if strings.HasPrefix(resp, "op ") {
						resp = "moved:" + resp[3:]
					}
					k.hist["nonprimitive-"+resp]++
					o.emit(fmt.Sprintf("accept-nonprim %s %s %s", dir, c08TypeToken(typ), resp), "ok")
				}
			}
		}
		stats := map[string]any{"inputs": k.n, "histogram": k.hist, "opcodes_selected": k.opcodes}
		// CPU measurement of the selected rows
		if *cpuRows != 0 {
			// distinct (dir, type, class): physical/virtual, entry point and address shape do not change the instruction
			seen := map[string]bool{}
			var rows []*c08Case
			for _, cs := range selected {
				if cs.reg.phys || cs.shape != "param" || cs.via != "ctx" {
					continue
				}
				key := cs.dir + " " + cs.basic.Name() + " " + cs.reg.class
				if !seen[key] {
					seen[key] = true
					rows = append(rows, cs)
				}
			}
			if *cpuRows > 0 && *cpuRows < len(rows) {
				// always keep 4-byte integers with XMM (F7), one row per (direction, opcode) and per (direction,
				// register class) — so high-byte registers are measured in every tier; fill up at random
				keep := map[int]bool{}
				first := map[string]bool{}
				for i, cs := range rows {
					for _, key := range []string{"o" + cs.dir + cs.out.resp, "c" + cs.dir + cs.reg.class} {
						if !first[key] {
							first[key] = true
							keep[i] = true
						}
					}
					if cs.reg.class == "xmm" && c08Sizes.Sizeof(cs.basic) == 4 {
						keep[i] = true
					}
				}
				for len(keep) < *cpuRows {
					keep[r.intn(len(rows))] = true
				}
				var sel []*c08Case
				for i, cs := range rows {
					if keep[i] {
						sel = append(sel, cs)
					}
				}
				rows = sel
			}
			wd := *workdir
			if wd == "" {
				return fmt.Errorf("-work directory required for the CPU measurement")
			}
			cst, err := c08CPU(o, rows, wd, *f.repo)
			if err != nil {
				// the functions around the real Load/Store could not be generated, built or run: that is itself
				// evidence (e.g. Load emitting an instruction the assembler rejects), reported as a failing acceptor
				msg := err.Error()
				if len(msg) > 600 {
					msg = msg[:600]
				}
				o.emit("accept-cpu-run "+c06Hex(msg), "ok")
				stats["cpu"] = map[string]any{"failed": msg}
			} else {
				stats["cpu"] = cst
			}
		}
		return writeJSON(*f.stats, stats)
	})
}
