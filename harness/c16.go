package main

import (
	"bytes"
	"fmt"
	"os"
	"os/exec"
	"path/filepath"
	"strconv"
	"strings"

	"github.com/mmcloughlin/avo/attr"
	"github.com/mmcloughlin/avo/build"
	"github.com/mmcloughlin/avo/ir"
	"github.com/mmcloughlin/avo/operand"
	"github.com/mmcloughlin/avo/pass"
	"github.com/mmcloughlin/avo/printer"
	"github.com/mmcloughlin/avo/reg"
)

// C16: stack locals.  Random interleavings of AllocLocal with instruction
// emission through the real build.Context, then pass.Compile and the Go
// assembly printer: offsets returned, FrameBytes, the TEXT line frame
// (exact comparison with the Lean model + acceptor stating the property on
// the implementation's regions), and a measured part executed on the CPU.

type c16op struct {
	alloc bool
	size  int // alloc
	kind  int // instr: see c16emit
}

type c16case struct {
	noframe bool
	nosplit bool
	args    int // argument bytes: 0, 8, 16, 24
	ops     []c16op
}

var c16sigs = map[int]string{0: "func()", 8: "func(x uint64)", 16: "func(x uint64) uint64", 24: "func(a, b uint64) uint64"}

const c16nkinds = 12

// c16api: the calls the generator makes, either methods of a build.Context or the package-level functions of
// package build (which act on the package's global context; the harness swaps that for a fresh one).
type c16api struct {
	pkg bool
	ctx *build.Context
}

func (a c16api) Function(name string) {
	if a.pkg {
		build.Function(name)
	} else {
		a.ctx.Function(name)
	}
}

func (a c16api) Attributes(x attr.Attribute) {
	if a.pkg {
		build.Attributes(x)
	} else {
		a.ctx.Attributes(x)
	}
}

func (a c16api) SignatureExpr(e string) {
	if a.pkg {
		build.SignatureExpr(e)
	} else {
		a.ctx.SignatureExpr(e)
	}
}

func (a c16api) AllocLocal(n int) operand.Mem {
	if a.pkg {
		return build.AllocLocal(n)
	}
	return a.ctx.AllocLocal(n)
}

func (a c16api) GP64() reg.GPVirtual {
	if a.pkg {
		return build.GP64()
	}
	return a.ctx.GP64()
}

// ins emits one instruction by opcode name through the generated constructor of the chosen route.
func (a c16api) ins(op string, ops ...operand.Op) {
	type two = func(operand.Op, operand.Op)
	var f2 two
	switch op {
	case "NOP":
		if a.pkg {
			build.NOP()
		} else {
			a.ctx.NOP()
		}
		return
	case "RET":
		if a.pkg {
			build.RET()
		} else {
			a.ctx.RET()
		}
		return
	case "ADDQ":
		f2 = pick2(a.pkg, build.ADDQ, a.ctx.ADDQ)
	case "MOVQ":
		f2 = pick2(a.pkg, build.MOVQ, a.ctx.MOVQ)
	case "MOVB":
		f2 = pick2(a.pkg, build.MOVB, a.ctx.MOVB)
	case "MOVW":
		f2 = pick2(a.pkg, build.MOVW, a.ctx.MOVW)
	case "MOVL":
		f2 = pick2(a.pkg, build.MOVL, a.ctx.MOVL)
	case "LEAQ":
		f2 = pick2(a.pkg, build.LEAQ, a.ctx.LEAQ)
	case "XORQ":
		f2 = pick2(a.pkg, build.XORQ, a.ctx.XORQ)
	case "XORL":
		f2 = pick2(a.pkg, build.XORL, a.ctx.XORL)
	case "MOVOU":
		f2 = pick2(a.pkg, build.MOVOU, a.ctx.MOVOU)
	case "VMOVDQU":
		f2 = pick2(a.pkg, build.VMOVDQU, a.ctx.VMOVDQU)
	case "CALL":
		if a.pkg {
			build.CALL(ops[0])
		} else {
			a.ctx.CALL(ops[0])
		}
		return
	default:
		panic("c16: opcode " + op)
	}
	f2(ops[0], ops[1])
}

func pick2(pkg bool, p, c func(operand.Op, operand.Op)) func(operand.Op, operand.Op) {
	if pkg {
		return p
	}
	return c
}

// c16emit emits instruction `kind`; reports whether the generator asked for a
// write to a view of the base pointer register.
func c16emit(ctx c16api, kind int, locals []operand.Mem, r *rng) bool {
	pickLocal := func() (operand.Mem, bool) {
		if len(locals) == 0 {
			return operand.Mem{}, false
		}
		return locals[r.intn(len(locals))], true
	}
	switch kind {
	case 0:
		ctx.ins("ADDQ", reg.RAX, reg.RBX)
	case 1:
		ctx.ins("MOVQ", operand.U32(7), reg.RCX)
	case 2: // store to a local
		if m, ok := pickLocal(); ok {
			ctx.ins("MOVQ", reg.RAX, m)
		} else {
			ctx.ins("NOP")
		}
	case 3: // load from a local
		if m, ok := pickLocal(); ok {
			ctx.ins("MOVB", m.Offset(r.intn(4)), reg.DL)
		} else {
			ctx.ins("NOP")
		}
	case 4: // virtual registers
		v := ctx.GP64()
		ctx.ins("MOVQ", operand.U32(1), v)
		ctx.ins("ADDQ", v, reg.RAX)
		return false
	case 5:
		if m, ok := pickLocal(); ok {
			ctx.ins("LEAQ", m, reg.RSI)
		} else {
			ctx.ins("XORQ", reg.RSI, reg.RSI)
		}
	case 6:
		ctx.ins("MOVQ", operand.U32(0x1234), reg.RBP)
		return true
	case 7:
		ctx.ins("MOVL", operand.U32(0x1234), reg.EBP)
		return true
	case 8:
		ctx.ins("XORL", reg.EBP, reg.EBP)
		return true
	case 9:
		ctx.ins("MOVW", operand.U16(5), reg.BP)
		return true
	case 10:
		ctx.ins("MOVB", operand.U8(5), reg.BPB)
		return true
	case 11: // reads BP only
		ctx.ins("MOVQ", reg.RBP, reg.RAX)
	}
	return false
}

func c16size(r *rng) int {
	switch r.intn(20) {
	case 0, 1, 2:
		return 0
	case 3, 4, 5, 6:
		return r.rangeIn(1, 7)
	case 7, 8:
		return 8
	case 9:
		return 16 << r.intn(4)
	case 10, 11, 12:
		return r.rangeIn(9, 200)
	case 13, 14:
		return r.rangeIn(201, 70000)
	case 15:
		return 1 << r.rangeIn(16, 30)
	case 16:
		return r.rangeIn(1<<20, 1<<31)
	case 17:
		if r.chance(1, 3) {
			return -r.rangeIn(1, 64) // outside the property's quantifier
		}
		return 24
	default:
		return r.rangeIn(1, 64)
	}
}

func c16gen(r *rng) c16case {
	c := c16case{args: 8 * r.intn(4)}
	switch r.intn(12) {
	case 0:
		c.noframe = true
	case 1, 2, 3:
		c.nosplit = true
	}
	n := r.intn(13)
	bpMode := r.intn(3) // 0: never writes BP, 1: may, 2: likely
	for i := 0; i < n; i++ {
		if r.chance(1, 2) {
			c.ops = append(c.ops, c16op{alloc: true, size: c16size(r)})
			continue
		}
		k := r.intn(6)
		if r.chance(1, 8) {
			k = 11
		}
		if bpMode > 0 && r.chance(bpMode, 6) {
			k = 6 + r.intn(5)
		}
		c.ops = append(c.ops, c16op{kind: k})
	}
	return c
}

type c16result struct {
	panicked bool
	err      bool
	mems     []operand.Mem
	flags    []bool // per instr op: writes BP (generator's view)
	scanClob bool   // compiled instructions write a BP view
	before   int
	frame    int
	text     string
	allocBP  bool
	asm      []byte
}

// c16run drives the real code on one case (one function in a context of its own).
func c16run(c c16case, r *rng) c16result {
	return c16runMulti([]c16case{c}, r, false)[0]
}

// c16runMulti drives the real code on several cases as the functions f0, f1, … of ONE context (method calls on a
// fresh build.Context, or the package-level functions of package build acting on a swapped-in global context),
// compiles the file as a whole and prints it.
func c16runMulti(cs []c16case, r *rng, pkg bool) (out []c16result) {
	out = make([]c16result, len(cs))
	fail := func(f func(*c16result)) {
		for i := range out {
			f(&out[i])
		}
	}
	ctx := build.NewContext()
	if pkg {
		old := build.VerifSwapContext(ctx)
		defer build.VerifSwapContext(old)
	}
	defer func() {
		if e := recover(); e != nil {
			fail(func(x *c16result) { x.panicked = true })
		}
	}()
	api := c16api{pkg: pkg, ctx: ctx}
	name := func(i int) string {
		if len(cs) == 1 {
			return "f"
		}
		return "f" + itoa(i)
	}
	for i, c := range cs {
		res := &out[i]
		api.Function(name(i))
		var a attr.Attribute
		if c.noframe {
			a |= attr.NOFRAME
		}
		if c.nosplit {
			a |= attr.NOSPLIT
		}
		api.Attributes(a)
		api.SignatureExpr(c16sigs[c.args])
		for _, op := range c.ops {
			if op.alloc {
				res.mems = append(res.mems, api.AllocLocal(op.size))
			} else {
				res.flags = append(res.flags, c16emit(api, op.kind, res.mems, r))
			}
		}
		api.ins("RET")
	}
	file, err := ctx.Result()
	if err != nil {
		fail(func(x *c16result) { x.err = true })
		return
	}
	fns := file.Functions()
	if len(fns) != len(cs) {
		fail(func(x *c16result) { x.err = true })
		return
	}
	for i, fn := range fns {
		out[i].before = fn.FrameBytes()
	}
	if err := pass.Compile.Execute(file); err != nil {
		fail(func(x *c16result) { x.err = true })
		return
	}
	for k, fn := range fns {
		res := &out[k]
		res.frame = fn.FrameBytes()
		for _, i := range fn.Instructions() {
			for _, o := range i.OutputRegisters() {
				if p := reg.ToPhysical(o); p != nil && p.Kind() == reg.KindGP && p.PhysicalIndex() == reg.RBP.PhysicalIndex() {
					res.scanClob = true
				}
			}
		}
	}
	asm, err := printer.NewGoAsm(printer.Config{Name: "avoh", Pkg: "p"}).Print(file)
	if err != nil {
		fail(func(x *c16result) { x.err = true })
		return
	}
	for _, line := range strings.Split(string(asm), "\n") {
		if !strings.HasPrefix(line, "TEXT ·") {
			continue
		}
		n := strings.TrimPrefix(line, "TEXT ·")
		if j := strings.Index(n, "(SB)"); j >= 0 {
			n = n[:j]
		}
		fs := strings.Split(line, ", ")
		for i := range cs {
			if name(i) == n {
				out[i].text = fs[len(fs)-1]
				out[i].asm = asm
			}
		}
	}
	return
}

func c16emitCase(o *out, c c16case, res c16result, st map[string]int) {
	req := []string{"locals", c16b(c.noframe), itoa(c.args)}
	var ops []string
	fi := 0
	genClob := false
	neg := false
	for _, op := range c.ops {
		if op.alloc {
			ops = append(ops, "a"+itoa(op.size))
			if op.size < 0 {
				neg = true
			}
		} else {
			w := fi < len(res.flags) && res.flags[fi]
			fi++
			genClob = genClob || w
			ops = append(ops, "i"+c16b(w))
		}
	}
	if !res.panicked && !res.err && res.scanClob && !genClob {
		// the allocator (or a pass) made some instruction write BP: tell the model
		ops = append(ops, "i1")
		st["bp_written_without_request"]++
	}
	ops = append(ops, "i0") // the final RET
	req = append(req, itoa(len(ops)))
	req = append(req, ops...)
	line := strings.Join(req, " ")
	switch {
	case res.panicked:
		st["panic"]++
		o.emit(line, "panic")
		return
	case res.err:
		st["error"]++
		o.emit(line, "error")
		return
	}
	if neg {
		st["out_of_scope_negative_size"]++
	} else {
		st["in_scope"]++
	}
	if genClob || res.scanClob {
		st["bp_clobbered"]++
	}
	var regs, acc []string
	ai := 0
	for _, op := range c.ops {
		if !op.alloc {
			continue
		}
		m := res.mems[ai]
		ai++
		asm := m.Asm()
		if strings.ContainsAny(asm, " ") {
			asm = strings.ReplaceAll(asm, " ", "_")
		}
		regs = append(regs, fmt.Sprintf("%d:%d:%s", m.Disp, op.size, asm))
		acc = append(acc, itoa(m.Disp), itoa(op.size), asm)
		switch {
		case op.size == 0:
			st["size_zero"]++
		case op.size > 0 && op.size%8 != 0:
			st["size_unaligned"]++
		case op.size >= 1<<16:
			st["size_large"]++
		}
	}
	forced := "-"
	if res.frame != res.before {
		forced = fmt.Sprintf("%d:%d", res.before, res.frame-res.before)
		st["forced_local"]++
	}
	resp := append([]string{"ok", itoa(len(regs))}, regs...)
	resp = append(resp, forced, itoa(res.frame), res.text)
	o.emit(line, strings.Join(resp, " "))
	areq := append([]string{"accept-locals", itoa(len(regs))}, acc...)
	areq = append(areq, forced, itoa(res.frame), res.text)
	o.emit(strings.Join(areq, " "), "ok")
	st["judged_functions"]++
	if res.frame >= 1<<31 {
		st["frame_ge_2^31"]++
	}
	if c.args > 0 {
		st["judged_with_args"]++
	}
	if genClob {
		// the model was told "BP is written" on the generator's word: the compiled function must really write it
		o.emit("accept-bpwrite 1 "+c16b(res.scanClob), "ok")
		st["bp_write_requested"]++
	}
}

// c16parse rebuilds a case from a `locals …` request line (replay / corpus).
func c16parse(line string) (c16case, bool) {
	ts := strings.Fields(line)
	if len(ts) < 4 || ts[0] != "locals" {
		return c16case{}, false
	}
	c := c16case{noframe: ts[1] == "1"}
	c.args, _ = strconv.Atoi(ts[2])
	if _, ok := c16sigs[c.args]; !ok {
		c.args = 0
	}
	toks := ts[4:]
	if len(toks) > 0 && toks[len(toks)-1] == "i0" {
		toks = toks[:len(toks)-1] // final RET
	}
	for _, t := range toks {
		switch {
		case strings.HasPrefix(t, "a"):
			v, err := strconv.Atoi(t[1:])
			if err != nil {
				return c, false
			}
			c.ops = append(c.ops, c16op{alloc: true, size: v})
		case t == "i1":
			c.ops = append(c.ops, c16op{kind: 6})
		default:
			c.ops = append(c.ops, c16op{kind: 0})
		}
	}
	return c, true
}

// ---- measured part: run generated functions on the CPU ----

func c16pattern(i, k int) int { return (i*41+k*7+13)%251 + 1 }

func c16positions(size int, r *rng) []int {
	var ps []int
	if size <= 48 {
		for k := 0; k < size; k++ {
			ps = append(ps, k)
		}
		return ps
	}
	for k := 0; k < 12; k++ {
		ps = append(ps, k)
	}
	for j := 0; j < 8; j++ {
		ps = append(ps, r.rangeIn(12, size-13))
	}
	for k := size - 12; k < size; k++ {
		ps = append(ps, k)
	}
	return ps
}

type c16cpuFn struct {
	name     string
	sizes    []int
	mems     []operand.Mem
	pos      [][]int
	nbytes   int
	clob     bool
	forced   bool
	writesBP bool // the compiled function writes BP
}

func c16cpu(dir string, n int, r *rng, o *out, st map[string]int) error {
	if err := os.RemoveAll(dir); err != nil {
		return err
	}
	if err := os.MkdirAll(dir, 0o755); err != nil {
		return err
	}
	ctx := build.NewContext()
	var fns []*c16cpuFn
	for i := 0; i < n; i++ {
		f := &c16cpuFn{name: fmt.Sprintf("f%d", i)}
		ctx.Function(f.name)
		nosplit := r.chance(1, 4)
		if nosplit {
			ctx.Attributes(attr.NOSPLIT)
		}
		ctx.SignatureExpr("func(out *byte)")
		nl := r.intn(7)
		f.clob = r.chance(1, 2)
		// a third of the others: no BP write in the source, but 15 simultaneously live values force the allocator onto BP
		f.forced = !f.clob && r.chance(1, 2)
		clobAt := r.intn(nl + 1)
		var deferred []int
		write := func(j int) {
			for _, k := range f.pos[j] {
				ctx.MOVB(operand.U8(c16pattern(j, k)), f.mems[j].Offset(k))
			}
		}
		emitClob := func() {
			switch r.intn(3) {
			case 0:
				ctx.MOVQ(operand.U32(0x5a5a5a5a), reg.RBP)
			case 1:
				ctx.XORL(reg.EBP, reg.EBP)
			default:
				ctx.MOVQ(operand.I32(-1), reg.RBP)
			}
		}
		for j := 0; j < nl; j++ {
			if f.clob && j == clobAt {
				emitClob()
			}
			var size int
			switch r.intn(10) {
			case 0:
				size = 0
			case 1, 2, 3:
				size = r.rangeIn(1, 7)
			case 4:
				size = 8 * r.rangeIn(1, 4)
			case 5:
				size = r.rangeIn(100, 20000)
			default:
				size = r.rangeIn(1, 48)
			}
			if nosplit && size > 48 {
				size = r.rangeIn(1, 48) // NOSPLIT frames must stay small
			}
			f.sizes = append(f.sizes, size)
			f.mems = append(f.mems, ctx.AllocLocal(size))
			f.pos = append(f.pos, c16positions(size, r))
			if !f.forced && r.chance(1, 2) {
				write(j)
			} else {
				deferred = append(deferred, j)
			}
		}
		if f.clob && clobAt >= nl {
			emitClob()
		}
		// cmd/asm rejects frames that are not a multiple of 8 ("unaligned stack
		// size"): complete the frame with one more (unaligned) local.
		total := 0
		for _, sz := range f.sizes {
			total += sz
		}
		if pad := (8 - total%8) % 8; pad > 0 {
			f.sizes = append(f.sizes, pad)
			f.mems = append(f.mems, ctx.AllocLocal(pad))
			f.pos = append(f.pos, c16positions(pad, r))
			deferred = append(deferred, len(f.mems)-1)
		}
		if f.forced {
			// all locals exist and none has been written: 15 values, each stored into some local while all are live
			vs := make([]reg.GPVirtual, 15)
			for i := range vs {
				vs[i] = ctx.GP64()
				ctx.MOVQ(operand.U32(uint32(0x0101*(i+1))), vs[i])
			}
			for i, v := range vs {
				if len(f.mems) == 0 {
					break
				}
				j := r.intn(len(f.mems))
				switch sz := f.sizes[j]; {
				case sz >= 8:
					ctx.MOVQ(v, f.mems[j].Offset(r.intn(sz-7)))
				case sz >= 1:
					ctx.MOVB(v.As8(), f.mems[j].Offset(r.intn(sz)))
				}
				_ = i
			}
			for i := 1; i < len(vs); i++ {
				ctx.ADDQ(vs[i], vs[0])
			}
		}
		// write the remaining locals in a random order
		for len(deferred) > 0 {
			k := r.intn(len(deferred))
			write(deferred[k])
			deferred = append(deferred[:k], deferred[k+1:]...)
		}
		// read everything back into out[]
		ptr := ctx.GP64()
		ctx.Load(ctx.Param("out"), ptr)
		tmp := ctx.GP8()
		idx := 0
		for j := range f.mems {
			for _, k := range f.pos[j] {
				ctx.MOVB(f.mems[j].Offset(k), tmp)
				ctx.MOVB(tmp, operand.Mem{Base: ptr, Disp: idx})
				idx++
			}
		}
		f.nbytes = idx
		ctx.RET()
		fns = append(fns, f)
	}
	file, err := ctx.Result()
	if err != nil {
		return fmt.Errorf("cpu: build: %v", err)
	}
	if err := pass.Compile.Execute(file); err != nil {
		return fmt.Errorf("cpu: compile: %v", err)
	}
	for k, fn := range file.Functions() {
		if k >= len(fns) {
			break
		}
		for _, i := range fn.Instructions() {
			for _, o := range i.OutputRegisters() {
				if p := reg.ToPhysical(o); p != nil && p.Kind() == reg.KindGP && p.PhysicalIndex() == reg.RBP.PhysicalIndex() {
					fns[k].writesBP = true
				}
			}
		}
	}
	cfg := printer.Config{Name: "avoh", Pkg: "main"}
	asm, err := printer.NewGoAsm(cfg).Print(file)
	if err != nil {
		return err
	}
	stubs, err := printer.NewStubs(cfg).Print(file)
	if err != nil {
		return err
	}
	var mainsrc bytes.Buffer
	mainsrc.WriteString(`package main

import (
	"fmt"
	"runtime"
	"runtime/debug"
)

func c16tramp(fn uintptr, out *byte, res *[3]uintptr)
func c16fnaddr(i int) uintptr

//go:noinline
func c16grow(n int) int {
	var pad [1024]byte
	if n == 0 {
		return int(pad[0])
	}
	return c16grow(n-1) + int(pad[n%1024])
}

// call runs function i twice through the assembly trampoline: the first call grows the goroutine stack if the
// frame needs it (moving the stack changes BP), the second is the measured one.  The trampoline CALLs the ABI0
// entry directly (no compiler-generated wrapper that would save and restore BP around the call), records BP right
// before and right after the CALL and checks canary words in its own frame above the callee's argument.
//
//go:noinline
func call(i int, buf []byte) string {
	var res [3]uintptr
	c16tramp(c16fnaddr(i), &buf[0], &res)
	for k := range buf {
		buf[k] = 0
	}
	c16tramp(c16fnaddr(i), &buf[0], &res)
	switch {
	case res[2] != 0:
		return "canary"
	case res[0] != res[1]:
		return "0"
	}
	return "1"
}

func main() {
	runtime.LockOSThread()
	debug.SetGCPercent(-1)
	c16grow(96) // pre-grow the stack
`)
	for i, f := range fns {
		fmt.Fprintf(&mainsrc, "\t{\n\t\tbuf := make([]byte, %d)\n\t\tok := call(%d, buf)\n\t\tfmt.Printf(\"%d %%v %%x\\n\", ok, buf[:%d])\n\t}\n", f.nbytes+1, i, i, f.nbytes)
	}
	mainsrc.WriteString("}\n")
	var tramp bytes.Buffer
	tramp.WriteString(`#include "textflag.h"
#include "funcdata.h"

// func c16tramp(fn uintptr, out *byte, res *[3]uintptr)
// frame: 0(SP) the callee's argument, 8(SP) BP before the call, 16..48(SP) canaries.  After the call only SP-relative
// addressing is used (FP is resolved relative to SP), so a callee that destroys BP cannot mislead the measurement.
TEXT ·c16tramp(SB), $56-24
	NO_LOCAL_POINTERS
	MOVQ out+8(FP), AX
	MOVQ AX, 0(SP)
	MOVQ $0x5ca1ab1e0ddba115, AX
	MOVQ AX, 16(SP)
	MOVQ AX, 24(SP)
	MOVQ AX, 32(SP)
	MOVQ AX, 40(SP)
	MOVQ AX, 48(SP)
	MOVQ fn+0(FP), AX
	MOVQ BP, 8(SP)
	CALL AX
	MOVQ BP, CX
	MOVQ res+16(FP), DX
	MOVQ 8(SP), BX
	MOVQ BX, 0(DX)
	MOVQ CX, 8(DX)
	MOVQ $0x5ca1ab1e0ddba115, AX
	MOVQ 16(SP), SI
	XORQ AX, SI
	MOVQ 24(SP), DI
	XORQ AX, DI
	ORQ DI, SI
	MOVQ 32(SP), DI
	XORQ AX, DI
	ORQ DI, SI
	MOVQ 40(SP), DI
	XORQ AX, DI
	ORQ DI, SI
	MOVQ 48(SP), DI
	XORQ AX, DI
	ORQ DI, SI
	MOVQ SI, 16(DX)
	RET

`)
	for i, f := range fns {
		fmt.Fprintf(&tramp, "DATA c16tab<>+%d(SB)/8, $·%s(SB)\n", 8*i, f.name)
	}
	fmt.Fprintf(&tramp, "GLOBL c16tab<>(SB), RODATA|NOPTR, $%d\n", 8*len(fns))
	tramp.WriteString("\n// func c16fnaddr(i int) uintptr\nTEXT ·c16fnaddr(SB), NOSPLIT, $0-16\n\tMOVQ i+0(FP), BX\n\tLEAQ c16tab<>(SB), AX\n\tMOVQ (AX)(BX*8), AX\n\tMOVQ AX, ret+8(FP)\n\tRET\n")
	files := map[string][]byte{
		"go.mod":   []byte("module c16cpu\n\ngo 1.21\n"),
		"locals.s": asm,
		"stubs.go": stubs,
		"main.go":  mainsrc.Bytes(),
		"tramp.s":  tramp.Bytes(),
	}
	for name, data := range files {
		if err := os.WriteFile(filepath.Join(dir, name), data, 0o644); err != nil {
			return err
		}
	}
	cmd := exec.Command("go", "build", "-o", "c16cpu", ".")
	cmd.Dir = dir
	if outp, err := cmd.CombinedOutput(); err != nil {
		// the generated assembly does not build: a violation of what the property needs
		o.emit("accept-cpu-build "+hexs(c16firstLine(string(outp))), "ok")
		st["cpu_build_failed"]++
		return nil
	}
	absdir, err := filepath.Abs(dir)
	if err != nil {
		return err
	}
	run := exec.Command(filepath.Join(absdir, "c16cpu"))
	run.Dir = absdir
	outp, rerr := run.Output()
	lines := strings.Split(strings.TrimSpace(string(outp)), "\n")
	got := map[int][]string{}
	for _, l := range lines {
		fs := strings.Fields(l)
		if len(fs) >= 2 {
			i, err := strconv.Atoi(fs[0])
			if err == nil {
				got[i] = fs[1:]
			}
		}
	}
	for i, f := range fns {
		g, ok := got[i]
		// request: accept-cpu <bp> <nlocals> (off size npos (pos val)*)*
		req := []string{"accept-cpu"}
		if !ok {
			// crashed before reaching this function (corrupted stack): report as bp not preserved
			req = append(req, "crash")
		} else {
			req = append(req, g[0]) // 1: BP preserved and canaries intact, 0: BP changed, canary: caller's frame overwritten
		}
		var data []byte
		if ok && len(g) > 1 {
			data = c16unhexBytes(g[1])
		}
		req = append(req, itoa(len(f.mems)))
		idx := 0
		for j, m := range f.mems {
			req = append(req, itoa(m.Disp), itoa(f.sizes[j]), itoa(len(f.pos[j])))
			for _, k := range f.pos[j] {
				v := -1
				if idx < len(data) {
					v = int(data[idx])
				}
				idx++
				if v < 0 {
					v = 0
				}
				req = append(req, itoa(k), itoa(v))
			}
		}
		o.emit(strings.Join(req, " "), "ok")
		st["cpu_functions"]++
		st["cpu_locals"] += len(f.mems)
		if f.clob {
			st["cpu_bp_clobbering"]++
		}
		if f.forced && f.writesBP {
			st["cpu_bp_forced_by_allocator"]++
		}
		if f.writesBP && len(f.mems) > 0 {
			st["cpu_bp_written_with_locals"]++
		}
	}
	if rerr != nil {
		st["cpu_run_error"]++
	}
	return nil
}

func c16firstLine(s string) string {
	s = strings.TrimSpace(s)
	if len(s) > 300 {
		s = s[:300]
	}
	return s
}

func c16unhexBytes(s string) []byte {
	var out []byte
	for i := 0; i+1 < len(s); i += 2 {
		v, err := strconv.ParseUint(s[i:i+2], 16, 8)
		if err != nil {
			return out
		}
		out = append(out, byte(v))
	}
	return out
}

func init() {
	register("c16", "stack locals: AllocLocal / FrameBytes / TEXT frame, and CPU read-back", func(args []string) error {
		f := newStdFlags("c16")
		cpu := f.fs.Int("cpu", 0, "number of functions executed on the CPU")
		cpudir := f.fs.String("cpudir", "cpu", "scratch directory of the measured part")
		nfinal := f.fs.Int("final", -1, "number of files of the `final` stream (compiled and printed functions); -1: n/3")
		nasm := f.fs.Int("asm", 0, "number of generated files that are assembled and disassembled")
		asmdir := f.fs.String("asmdir", "asm", "scratch directory of the assembled files")
		if err := f.fs.Parse(args); err != nil {
			return err
		}
		o, err := openOut(f)
		if err != nil {
			return err
		}
		defer o.close()
		st := map[string]int{}
		r := newRng(*f.seed)
		if *f.replay != "" {
			lines, err := readLines(*f.replay)
			if err != nil {
				return err
			}
			for _, l := range lines {
				if c, ok := c16parse(l); ok {
					c16emitCase(o, c, c16run(c, r), st)
				} else if s, ok := c16fParse(l); ok {
					c16fEmit(o, s, c16fRun([]c16fSpec{s}, false)[0], st)
				}
			}
			return writeJSON(*f.stats, st)
		}
		// fixed edge cases first
		fixed := []c16case{
			{},
			{ops: []c16op{{kind: 6}}},
			{ops: []c16op{{alloc: true, size: 0}, {kind: 6}}},
			{ops: []c16op{{kind: 6}, {alloc: true, size: 0}, {alloc: true, size: 0}}},
			{ops: []c16op{{alloc: true, size: 1}, {kind: 8}}},
			{noframe: true, ops: []c16op{{kind: 6}}},
			{noframe: true, ops: []c16op{{alloc: true, size: 8}}},
			{args: 24, ops: []c16op{{alloc: true, size: 3}, {alloc: true, size: 0}, {alloc: true, size: 5}, {kind: 2}, {alloc: true, size: 1 << 31}}},
			{ops: []c16op{{alloc: true, size: 8}, {alloc: true, size: -8}, {kind: 6}}},
		}
		for _, c := range fixed {
			c16emitCase(o, c, c16run(c, r), st)
		}
		for k := 0; k < *f.n; k++ {
			switch r.intn(8) {
			case 0, 1:
				// several functions in one context (the file is compiled and printed as a whole); half of them
				// through the package-level functions of package build.  A NOFRAME function writing BP makes
				// Compile refuse the WHOLE file: keep such functions to single-function contexts.
				n := 2 + r.intn(3)
				cs := make([]c16case, n)
				for i := range cs {
					cs[i] = c16gen(r)
					if cs[i].noframe {
						for _, op := range cs[i].ops {
							if !op.alloc && op.kind >= 6 && op.kind <= 10 {
								cs[i].noframe = false
							}
						}
					}
				}
				pkg := r.chance(1, 2)
				for i, res := range c16runMulti(cs, r, pkg) {
					c16emitCase(o, cs[i], res, st)
					st["multi_function_context_functions"]++
					if pkg {
						st["package_level_route_functions"]++
					}
				}
			case 2:
				c := c16gen(r)
				c16emitCase(o, c, c16runMulti([]c16case{c}, r, true)[0], st)
				st["package_level_route_functions"]++
			default:
				c := c16gen(r)
				c16emitCase(o, c, c16run(c, r), st)
			}
		}
		// the functions as they are finally compiled and printed (c16final.go)
		if *nfinal < 0 {
			*nfinal = *f.n / 3
		}
		rf := r.fork()
		for k := 0; k < *nfinal; k++ {
			nfn := 1
			if rf.chance(2, 5) {
				nfn = 2 + rf.intn(3)
			}
			specs := make([]c16fSpec, nfn)
			for i := range specs {
				specs[i], _ = c16fGen(rf, false)
				if nfn > 1 && specs[i].noframe {
					// a NOFRAME function writing BP makes Compile refuse the WHOLE file: single-function files only
					for _, op := range specs[i].ops {
						if !op.alloc && (op.in.kind == 'b' || op.in.kind == 'p') {
							specs[i].noframe = false
						}
					}
				}
			}
			pkg := rf.chance(1, 4)
			for i, res := range c16fRun(specs, pkg) {
				c16fEmit(o, specs[i], res, st)
				if nfn > 1 {
					st["final_multi_function_file_functions"]++
				}
				if pkg {
					st["final_package_level_route_functions"]++
				}
			}
		}
		if *nasm > 0 {
			if err := os.RemoveAll(*asmdir); err != nil {
				return err
			}
			if err := os.MkdirAll(*asmdir, 0o755); err != nil {
				return err
			}
			ra := r.fork()
			for k := 0; k < *nasm; k++ {
				if err := c16fAsmFile(*asmdir, k, 12+ra.intn(12), ra, o, st); err != nil {
					return err
				}
			}
		}
		if *cpu > 0 {
			if err := c16cpu(*cpudir, *cpu, r.fork(), o, st); err != nil {
				return err
			}
		}
		return writeJSON(*f.stats, st)
	})
}

var _ = ir.NewFile

func c16b(b bool) string {
	if b {
		return "1"
	}
	return "0"
}
