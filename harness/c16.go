package main

import (
	"bytes"
	"fmt"
	"os"
	"os/exec"
	"path/filepath"
	"strconv"
	"strings"

	"github.com/mmcloughlin/avo/attr"
	"github.com/mmcloughlin/avo/build"
	"github.com/mmcloughlin/avo/ir"
	"github.com/mmcloughlin/avo/operand"
	"github.com/mmcloughlin/avo/pass"
	"github.com/mmcloughlin/avo/printer"
	"github.com/mmcloughlin/avo/reg"
)

// C16: stack locals.  Random interleavings of AllocLocal with instruction
// emission through the real build.Context, then pass.Compile and the Go
// assembly printer: offsets returned, FrameBytes, the TEXT line frame
// (exact comparison with the Lean model + acceptor stating the property on
// the implementation's regions), and a measured part executed on the CPU.

type c16op struct {
	alloc bool
	size  int // alloc
	kind  int // instr: see c16emit
}

type c16case struct {
	noframe bool
	nosplit bool
	args    int // argument bytes: 0, 8, 16, 24
	ops     []c16op
}

var c16sigs = map[int]string{0: "func()", 8: "func(x uint64)", 16: "func(x uint64) uint64", 24: "func(a, b uint64) uint64"}

const c16nkinds = 12

// c16api: the calls the generator makes, either methods of a build.Context or the package-level functions of
// package build (which act on the package's global context; the harness swaps that for a fresh one).
type c16api struct {
	pkg bool
	ctx *build.Context
}

func (a c16api) Function(name string) {
	if a.pkg {
		build.Function(name)
	} else {
		a.ctx.Function(name)
	}
}

func (a c16api) Attributes(x attr.Attribute) {
	if a.pkg {
		build.Attributes(x)
	} else {
		a.ctx.Attributes(x)
	}
}

func (a c16api) SignatureExpr(e string) {
	if a.pkg {
		build.SignatureExpr(e)
	} else {
		a.ctx.SignatureExpr(e)
	}
}

func (a c16api) AllocLocal(n int) operand.Mem {
	if a.pkg {
		return build.AllocLocal(n)
	}
	return a.ctx.AllocLocal(n)
}

func (a c16api) GP64() reg.GPVirtual {
	if a.pkg {
		return build.GP64()
	}
	return a.ctx.GP64()
}

// ins emits one instruction by opcode name through the generated constructor of the chosen route.
func (a c16api) ins(op string, ops ...operand.Op) {
	type two = func(operand.Op, operand.Op)
	var f2 two
	switch op {
	case "NOP":
		if a.pkg {
			build.NOP()
		} else {
			a.ctx.NOP()
		}
		return
	case "RET":
		if a.pkg {
			build.RET()
		} else {
			a.ctx.RET()
		}
		return
	case "ADDQ":
		f2 = pick2(a.pkg, build.ADDQ, a.ctx.ADDQ)
	case "MOVQ":
		f2 = pick2(a.pkg, build.MOVQ, a.ctx.MOVQ)
	case "MOVB":
		f2 = pick2(a.pkg, build.MOVB, a.ctx.MOVB)
	case "MOVW":
		f2 = pick2(a.pkg, build.MOVW, a.ctx.MOVW)
	case "MOVL":
		f2 = pick2(a.pkg, build.MOVL, a.ctx.MOVL)
	case "LEAQ":
		f2 = pick2(a.pkg, build.LEAQ, a.ctx.LEAQ)
	case "XORQ":
		f2 = pick2(a.pkg, build.XORQ, a.ctx.XORQ)
	case "XORL":
		f2 = pick2(a.pkg, build.XORL, a.ctx.XORL)
	default:
		panic("c16: opcode " + op)
	}
	f2(ops[0], ops[1])
}

func pick2(pkg bool, p, c func(operand.Op, operand.Op)) func(operand.Op, operand.Op) {
	if pkg {
		return p
	}
	return c
}

// c16emit emits instruction `kind`; reports whether the generator asked for a
// write to a view of the base pointer register.
func c16emit(ctx c16api, kind int, locals []operand.Mem, r *rng) bool {
	pickLocal := func() (operand.Mem, bool) {
		if len(locals) == 0 {
			return operand.Mem{}, false
		}
		return locals[r.intn(len(locals))], true
	}
	switch kind {
	case 0:
		ctx.ins("ADDQ", reg.RAX, reg.RBX)
	case 1:
		ctx.ins("MOVQ", operand.U32(7), reg.RCX)
	case 2: // store to a local
		if m, ok := pickLocal(); ok {
			ctx.ins("MOVQ", reg.RAX, m)
		} else {
			ctx.ins("NOP")
		}
	case 3: // load from a local
		if m, ok := pickLocal(); ok {
			ctx.ins("MOVB", m.Offset(r.intn(4)), reg.DL)
		} else {
			ctx.ins("NOP")
		}
	case 4: // virtual registers
		v := ctx.GP64()
		ctx.ins("MOVQ", operand.U32(1), v)
		ctx.ins("ADDQ", v, reg.RAX)
		return false
	case 5:
		if m, ok := pickLocal(); ok {
			ctx.ins("LEAQ", m, reg.RSI)
		} else {
			ctx.ins("XORQ", reg.RSI, reg.RSI)
		}
	case 6:
		ctx.ins("MOVQ", operand.U32(0x1234), reg.RBP)
		return true
	case 7:
		ctx.ins("MOVL", operand.U32(0x1234), reg.EBP)
		return true
	case 8:
		ctx.ins("XORL", reg.EBP, reg.EBP)
		return true
	case 9:
		ctx.ins("MOVW", operand.U16(5), reg.BP)
		return true
	case 10:
		ctx.ins("MOVB", operand.U8(5), reg.BPB)
		return true
	case 11: // reads BP only
		ctx.ins("MOVQ", reg.RBP, reg.RAX)
	}
	return false
}

func c16size(r *rng) int {
	switch r.intn(20) {
	case 0, 1, 2:
		return 0
	case 3, 4, 5, 6:
		return r.rangeIn(1, 7)
	case 7, 8:
		return 8
	case 9:
		return 16 << r.intn(4)
	case 10, 11, 12:
		return r.rangeIn(9, 200)
	case 13, 14:
		return r.rangeIn(201, 70000)
	case 15:
		return 1 << r.rangeIn(16, 30)
	case 16:
		return r.rangeIn(1<<20, 1<<31)
	case 17:
		if r.chance(1, 3) {
			return -r.rangeIn(1, 64) // outside the property's quantifier
		}
		return 24
	default:
		return r.rangeIn(1, 64)
	}
}

func c16gen(r *rng) c16case {
	c := c16case{args: 8 * r.intn(4)}
	switch r.intn(12) {
	case 0:
		c.noframe = true
	case 1, 2, 3:
		c.nosplit = true
	}
	n := r.intn(13)
	bpMode := r.intn(3) // 0: never writes BP, 1: may, 2: likely
	for i := 0; i < n; i++ {
		if r.chance(1, 2) {
			c.ops = append(c.ops, c16op{alloc: true, size: c16size(r)})
			continue
		}
		k := r.intn(6)
		if r.chance(1, 8) {
			k = 11
		}
		if bpMode > 0 && r.chance(bpMode, 6) {
			k = 6 + r.intn(5)
		}
		c.ops = append(c.ops, c16op{kind: k})
	}
	return c
}

type c16result struct {
	panicked  bool
	err       bool
	mems      []operand.Mem
	flags     []bool // per instr op: writes BP (generator's view)
	scanClob  bool   // compiled instructions write a BP view
	before    int
	frame     int
	text      string
	allocBP   bool
	asm       []byte
}

// c16run drives the real code on one case (one function in a context of its own).
func c16run(c c16case, r *rng) c16result {
	return c16runMulti([]c16case{c}, r, false)[0]
}

// c16runMulti drives the real code on several cases as the functions f0, f1, … of ONE context (method calls on a
// fresh build.Context, or the package-level functions of package build acting on a swapped-in global context),
// compiles the file as a whole and prints it.
func c16runMulti(cs []c16case, r *rng, pkg bool) (out []c16result) {
	out = make([]c16result, len(cs))
	fail := func(f func(*c16result)) {
		for i := range out {
			f(&out[i])
		}
	}
	ctx := build.NewContext()
	if pkg {
		old := build.VerifSwapContext(ctx)
		defer build.VerifSwapContext(old)
	}
	defer func() {
		if e := recover(); e != nil {
			fail(func(x *c16result) { x.panicked = true })
		}
	}()
	api := c16api{pkg: pkg, ctx: ctx}
	name := func(i int) string {
		if len(cs) == 1 {
			return "f"
		}
		return "f" + itoa(i)
	}
	for i, c := range cs {
		res := &out[i]
		api.Function(name(i))
		var a attr.Attribute
		if c.noframe {
			a |= attr.NOFRAME
		}
		if c.nosplit {
			a |= attr.NOSPLIT
		}
		api.Attributes(a)
		api.SignatureExpr(c16sigs[c.args])
		for _, op := range c.ops {
			if op.alloc {
				res.mems = append(res.mems, api.AllocLocal(op.size))
			} else {
				res.flags = append(res.flags, c16emit(api, op.kind, res.mems, r))
			}
		}
		api.ins("RET")
	}
	file, err := ctx.Result()
	if err != nil {
		fail(func(x *c16result) { x.err = true })
		return
	}
	fns := file.Functions()
	if len(fns) != len(cs) {
		fail(func(x *c16result) { x.err = true })
		return
	}
	for i, fn := range fns {
		out[i].before = fn.FrameBytes()
	}
	if err := pass.Compile.Execute(file); err != nil {
		fail(func(x *c16result) { x.err = true })
		return
	}
	for k, fn := range fns {
		res := &out[k]
		res.frame = fn.FrameBytes()
		for _, i := range fn.Instructions() {
			for _, o := range i.OutputRegisters() {
				if p := reg.ToPhysical(o); p != nil && p.Kind() == reg.KindGP && p.PhysicalIndex() == reg.RBP.PhysicalIndex() {
					res.scanClob = true
				}
			}
		}
	}
	asm, err := printer.NewGoAsm(printer.Config{Name: "avoh", Pkg: "p"}).Print(file)
	if err != nil {
		fail(func(x *c16result) { x.err = true })
		return
	}
	for _, line := range strings.Split(string(asm), "\n") {
		if !strings.HasPrefix(line, "TEXT ·") {
			continue
		}
		n := strings.TrimPrefix(line, "TEXT ·")
		if j := strings.Index(n, "(SB)"); j >= 0 {
			n = n[:j]
		}
		fs := strings.Split(line, ", ")
		for i := range cs {
			if name(i) == n {
				out[i].text = fs[len(fs)-1]
				out[i].asm = asm
			}
		}
	}
	return
}

func c16emitCase(o *out, c c16case, res c16result, st map[string]int) {
	req := []string{"locals", c16b(c.noframe), itoa(c.args)}
	var ops []string
	fi := 0
	genClob := false
	neg := false
	for _, op := range c.ops {
		if op.alloc {
			ops = append(ops, "a"+itoa(op.size))
			if op.size < 0 {
				neg = true
			}
		} else {
			w := fi < len(res.flags) && res.flags[fi]
			fi++
			genClob = genClob || w
			ops = append(ops, "i"+c16b(w))
		}
	}
	if !res.panicked && !res.err && res.scanClob && !genClob {
		// the allocator (or a pass) made some instruction write BP: tell the model
		ops = append(ops, "i1")
		st["bp_written_without_request"]++
	}
	ops = append(ops, "i0") // the final RET
	req = append(req, itoa(len(ops)))
	req = append(req, ops...)
	line := strings.Join(req, " ")
	switch {
	case res.panicked:
		st["panic"]++
		o.emit(line, "panic")
		return
	case res.err:
		st["error"]++
		o.emit(line, "error")
		return
	}
	if neg {
		st["out_of_scope_negative_size"]++
	} else {
		st["in_scope"]++
	}
	if genClob || res.scanClob {
		st["bp_clobbered"]++
	}
	var regs, acc []string
	ai := 0
	for _, op := range c.ops {
		if !op.alloc {
			continue
		}
		m := res.mems[ai]
		ai++
		asm := m.Asm()
		if strings.ContainsAny(asm, " ") {
			asm = strings.ReplaceAll(asm, " ", "_")
		}
		regs = append(regs, fmt.Sprintf("%d:%d:%s", m.Disp, op.size, asm))
		acc = append(acc, itoa(m.Disp), itoa(op.size), asm)
		switch {
		case op.size == 0:
			st["size_zero"]++
		case op.size > 0 && op.size%8 != 0:
			st["size_unaligned"]++
		case op.size >= 1<<16:
			st["size_large"]++
		}
	}
	forced := "-"
	if res.frame != res.before {
		forced = fmt.Sprintf("%d:%d", res.before, res.frame-res.before)
		st["forced_local"]++
	}
	resp := append([]string{"ok", itoa(len(regs))}, regs...)
	resp = append(resp, forced, itoa(res.frame), res.text)
	o.emit(line, strings.Join(resp, " "))
	areq := append([]string{"accept-locals", itoa(len(regs))}, acc...)
	areq = append(areq, forced, itoa(res.frame), res.text)
	o.emit(strings.Join(areq, " "), "ok")
	st["judged_functions"]++
	if res.frame >= 1<<31 {
		st["frame_ge_2^31"]++
	}
	if c.args > 0 {
		st["judged_with_args"]++
	}
	if genClob {
		// the model was told "BP is written" on the generator's word: the compiled function must really write it
		o.emit("accept-bpwrite 1 "+c16b(res.scanClob), "ok")
		st["bp_write_requested"]++
	}
}

// c16parse rebuilds a case from a `locals …` request line (replay / corpus).
func c16parse(line string) (c16case, bool) {
	ts := strings.Fields(line)
	if len(ts) < 4 || ts[0] != "locals" {
		return c16case{}, false
	}
	c := c16case{noframe: ts[1] == "1"}
	c.args, _ = strconv.Atoi(ts[2])
	if _, ok := c16sigs[c.args]; !ok {
		c.args = 0
	}
	toks := ts[4:]
	if len(toks) > 0 && toks[len(toks)-1] == "i0" {
		toks = toks[:len(toks)-1] // final RET
	}
	for _, t := range toks {
		switch {
		case strings.HasPrefix(t, "a"):
			v, err := strconv.Atoi(t[1:])
			if err != nil {
				return c, false
			}
			c.ops = append(c.ops, c16op{alloc: true, size: v})
		case t == "i1":
			c.ops = append(c.ops, c16op{kind: 6})
		default:
			c.ops = append(c.ops, c16op{kind: 0})
		}
	}
	return c, true
}

// ---- measured part: run generated functions on the CPU ----

func c16pattern(i, k int) int { return (i*41+k*7+13)%251 + 1 }

func c16positions(size int, r *rng) []int {
	var ps []int
	if size <= 48 {
		for k := 0; k < size; k++ {
			ps = append(ps, k)
		}
		return ps
	}
	for k := 0; k < 12; k++ {
		ps = append(ps, k)
	}
	for j := 0; j < 8; j++ {
		ps = append(ps, r.rangeIn(12, size-13))
	}
	for k := size - 12; k < size; k++ {
		ps = append(ps, k)
	}
	return ps
}

type c16cpuFn struct {
	name   string
	sizes  []int
	mems   []operand.Mem
	pos    [][]int
	nbytes int
	clob   bool
}

func c16cpu(dir string, n int, r *rng, o *out, st map[string]int) error {
	if err := os.RemoveAll(dir); err != nil {
		return err
	}
	if err := os.MkdirAll(dir, 0o755); err != nil {
		return err
	}
	ctx := build.NewContext()
	var fns []*c16cpuFn
	for i := 0; i < n; i++ {
		f := &c16cpuFn{name: fmt.Sprintf("f%d", i)}
		ctx.Function(f.name)
		nosplit := r.chance(1, 4)
		if nosplit {
			ctx.Attributes(attr.NOSPLIT)
		}
		ctx.SignatureExpr("func(out *byte)")
		nl := r.intn(7)
		f.clob = r.chance(1, 2)
		clobAt := r.intn(nl + 1)
		var deferred []int
		write := func(j int) {
			for _, k := range f.pos[j] {
				ctx.MOVB(operand.U8(c16pattern(j, k)), f.mems[j].Offset(k))
			}
		}
		emitClob := func() {
			switch r.intn(3) {
			case 0:
				ctx.MOVQ(operand.U32(0x5a5a5a5a), reg.RBP)
			case 1:
				ctx.XORL(reg.EBP, reg.EBP)
			default:
				ctx.MOVQ(operand.I32(-1), reg.RBP)
			}
		}
		for j := 0; j < nl; j++ {
			if f.clob && j == clobAt {
				emitClob()
			}
			var size int
			switch r.intn(10) {
			case 0:
				size = 0
			case 1, 2, 3:
				size = r.rangeIn(1, 7)
			case 4:
				size = 8 * r.rangeIn(1, 4)
			case 5:
				size = r.rangeIn(100, 20000)
			default:
				size = r.rangeIn(1, 48)
			}
			if nosplit && size > 48 {
				size = r.rangeIn(1, 48) // NOSPLIT frames must stay small
			}
			f.sizes = append(f.sizes, size)
			f.mems = append(f.mems, ctx.AllocLocal(size))
			f.pos = append(f.pos, c16positions(size, r))
			if r.chance(1, 2) {
				write(j)
			} else {
				deferred = append(deferred, j)
			}
		}
		if f.clob && clobAt >= nl {
			emitClob()
		}
		// cmd/asm rejects frames that are not a multiple of 8 ("unaligned stack
		// size"): complete the frame with one more (unaligned) local.
		total := 0
		for _, sz := range f.sizes {
			total += sz
		}
		if pad := (8 - total%8) % 8; pad > 0 {
			f.sizes = append(f.sizes, pad)
			f.mems = append(f.mems, ctx.AllocLocal(pad))
			f.pos = append(f.pos, c16positions(pad, r))
			deferred = append(deferred, len(f.mems)-1)
		}
		// write the remaining locals in a random order
		for len(deferred) > 0 {
			k := r.intn(len(deferred))
			write(deferred[k])
			deferred = append(deferred[:k], deferred[k+1:]...)
		}
		// read everything back into out[]
		ptr := ctx.GP64()
		ctx.Load(ctx.Param("out"), ptr)
		tmp := ctx.GP8()
		idx := 0
		for j := range f.mems {
			for _, k := range f.pos[j] {
				ctx.MOVB(f.mems[j].Offset(k), tmp)
				ctx.MOVB(tmp, operand.Mem{Base: ptr, Disp: idx})
				idx++
			}
		}
		f.nbytes = idx
		ctx.RET()
		fns = append(fns, f)
	}
	file, err := ctx.Result()
	if err != nil {
		return fmt.Errorf("cpu: build: %v", err)
	}
	if err := pass.Compile.Execute(file); err != nil {
		return fmt.Errorf("cpu: compile: %v", err)
	}
	cfg := printer.Config{Name: "avoh", Pkg: "main"}
	asm, err := printer.NewGoAsm(cfg).Print(file)
	if err != nil {
		return err
	}
	stubs, err := printer.NewStubs(cfg).Print(file)
	if err != nil {
		return err
	}
	var mainsrc bytes.Buffer
	mainsrc.WriteString(`package main

import (
	"fmt"
	"runtime/debug"
)

func getbp() uintptr

// call runs f twice: the first call grows the goroutine stack if the frame
// needs it (moving the stack changes BP), the second is the measured one.
//
//go:noinline
func call(f func(*byte), buf []byte) bool {
	f(&buf[0])
	for i := range buf {
		buf[i] = 0
	}
	b1 := getbp()
	f(&buf[0])
	b2 := getbp()
	return b1 == b2
}

func main() {
	debug.SetGCPercent(-1)
`)
	for i, f := range fns {
		fmt.Fprintf(&mainsrc, "\t{\n\t\tbuf := make([]byte, %d)\n\t\tok := call(%s, buf)\n\t\tfmt.Printf(\"%d %%v %%x\\n\", ok, buf[:%d])\n\t}\n", f.nbytes+1, f.name, i, f.nbytes)
	}
	mainsrc.WriteString("}\n")
	files := map[string][]byte{
		"go.mod":      []byte("module c16cpu\n\ngo 1.21\n"),
		"locals.s":    asm,
		"stubs.go":    stubs,
		"main.go":     mainsrc.Bytes(),
		"getbp.s":     []byte("#include \"textflag.h\"\n\n// func getbp() uintptr\nTEXT ·getbp(SB), NOSPLIT|NOFRAME, $0-8\n\tMOVQ BP, ret+0(FP)\n\tRET\n"),
	}
	for name, data := range files {
		if err := os.WriteFile(filepath.Join(dir, name), data, 0o644); err != nil {
			return err
		}
	}
	cmd := exec.Command("go", "build", "-o", "c16cpu", ".")
	cmd.Dir = dir
	if outp, err := cmd.CombinedOutput(); err != nil {
		// the generated assembly does not build: a violation of what the property needs
		o.emit("accept-cpu-build "+hexs(c16firstLine(string(outp))), "ok")
		st["cpu_build_failed"]++
		return nil
	}
	absdir, err := filepath.Abs(dir)
	if err != nil {
		return err
	}
	run := exec.Command(filepath.Join(absdir, "c16cpu"))
	run.Dir = absdir
	outp, rerr := run.Output()
	lines := strings.Split(strings.TrimSpace(string(outp)), "\n")
	got := map[int][]string{}
	for _, l := range lines {
		fs := strings.Fields(l)
		if len(fs) >= 2 {
			i, err := strconv.Atoi(fs[0])
			if err == nil {
				got[i] = fs[1:]
			}
		}
	}
	for i, f := range fns {
		g, ok := got[i]
		// request: accept-cpu <bp> <nlocals> (off size npos (pos val)*)*
		req := []string{"accept-cpu"}
		if !ok {
			// crashed before reaching this function (corrupted stack): report as bp not preserved
			req = append(req, "crash")
		} else {
			req = append(req, c16b(g[0] == "true"))
		}
		var data []byte
		if ok && len(g) > 1 {
			data = c16unhexBytes(g[1])
		}
		req = append(req, itoa(len(f.mems)))
		idx := 0
		for j, m := range f.mems {
			req = append(req, itoa(m.Disp), itoa(f.sizes[j]), itoa(len(f.pos[j])))
			for _, k := range f.pos[j] {
				v := -1
				if idx < len(data) {
					v = int(data[idx])
				}
				idx++
				if v < 0 {
					v = 0
				}
				req = append(req, itoa(k), itoa(v))
			}
		}
		o.emit(strings.Join(req, " "), "ok")
		st["cpu_functions"]++
		st["cpu_locals"] += len(f.mems)
		if f.clob {
			st["cpu_bp_clobbering"]++
		}
	}
	if rerr != nil {
		st["cpu_run_error"]++
	}
	return nil
}

func c16firstLine(s string) string {
	s = strings.TrimSpace(s)
	if len(s) > 300 {
		s = s[:300]
	}
	return s
}

func c16unhexBytes(s string) []byte {
	var out []byte
	for i := 0; i+1 < len(s); i += 2 {
		v, err := strconv.ParseUint(s[i:i+2], 16, 8)
		if err != nil {
			return out
		}
		out = append(out, byte(v))
	}
	return out
}

func init() {
	register("c16", "stack locals: AllocLocal / FrameBytes / TEXT frame, and CPU read-back", func(args []string) error {
		f := newStdFlags("c16")
		cpu := f.fs.Int("cpu", 0, "number of functions executed on the CPU")
		cpudir := f.fs.String("cpudir", "cpu", "scratch directory of the measured part")
		if err := f.fs.Parse(args); err != nil {
			return err
		}
		o, err := openOut(f)
		if err != nil {
			return err
		}
		defer o.close()
		st := map[string]int{}
		r := newRng(*f.seed)
		if *f.replay != "" {
			lines, err := readLines(*f.replay)
			if err != nil {
				return err
			}
			for _, l := range lines {
				if c, ok := c16parse(l); ok {
					c16emitCase(o, c, c16run(c, r), st)
				}
			}
			return writeJSON(*f.stats, st)
		}
		// fixed edge cases first
		fixed := []c16case{
			{},
			{ops: []c16op{{kind: 6}}},
			{ops: []c16op{{alloc: true, size: 0}, {kind: 6}}},
			{ops: []c16op{{kind: 6}, {alloc: true, size: 0}, {alloc: true, size: 0}}},
			{ops: []c16op{{alloc: true, size: 1}, {kind: 8}}},
			{noframe: true, ops: []c16op{{kind: 6}}},
			{noframe: true, ops: []c16op{{alloc: true, size: 8}}},
			{args: 24, ops: []c16op{{alloc: true, size: 3}, {alloc: true, size: 0}, {alloc: true, size: 5}, {kind: 2}, {alloc: true, size: 1 << 31}}},
			{ops: []c16op{{alloc: true, size: 8}, {alloc: true, size: -8}, {kind: 6}}},
		}
		for _, c := range fixed {
			c16emitCase(o, c, c16run(c, r), st)
		}
		for k := 0; k < *f.n; k++ {
			switch r.intn(8) {
			case 0, 1:
				// several functions in one context (the file is compiled and printed as a whole); half of them
				// through the package-level functions of package build.  A NOFRAME function writing BP makes
				// Compile refuse the WHOLE file: keep such functions to single-function contexts.
				n := 2 + r.intn(3)
				cs := make([]c16case, n)
				for i := range cs {
					cs[i] = c16gen(r)
					if cs[i].noframe {
						for _, op := range cs[i].ops {
							if !op.alloc && op.kind >= 6 && op.kind <= 10 {
								cs[i].noframe = false
							}
						}
					}
				}
				pkg := r.chance(1, 2)
				for i, res := range c16runMulti(cs, r, pkg) {
					c16emitCase(o, cs[i], res, st)
					st["multi_function_context_functions"]++
					if pkg {
						st["package_level_route_functions"]++
					}
				}
			case 2:
				c := c16gen(r)
				c16emitCase(o, c, c16runMulti([]c16case{c}, r, true)[0], st)
				st["package_level_route_functions"]++
			default:
				c := c16gen(r)
				c16emitCase(o, c, c16run(c, r), st)
			}
		}
		if *cpu > 0 {
			if err := c16cpu(*cpudir, *cpu, r.fork(), o, st); err != nil {
				return err
			}
		}
		return writeJSON(*f.stats, st)
	})
}

var _ = ir.NewFile

func c16b(b bool) string {
	if b {
		return "1"
	}
	return "0"
}
