package main

// rng is splitmix64; every random choice of the harness derives from one state
// seeded by VERIF_SEED so that a disagreement replays exactly.
type rng struct{ s uint64 }

// newRng scrambles the seed so that consecutive seeds give unrelated streams
// (splitmix64 output of seed and of seed+1 would otherwise be shifted copies).
func newRng(seed uint64) *rng {
	z := seed + 0x632BE59BD9B4E019
	z = (z ^ (z >> 30)) * 0xBF58476D1CE4E5B9
	z = (z ^ (z >> 27)) * 0x94D049BB133111EB
	z ^= z >> 31
	z = (z ^ (z >> 32)) * 0xD6E8FEB86659FD93
	return &rng{s: z ^ (z >> 29)}
}

func (r *rng) u64() uint64 {
	r.s += 0x9E3779B97F4A7C15
	z := r.s
	z = (z ^ (z >> 30)) * 0xBF58476D1CE4E5B9
	z = (z ^ (z >> 27)) * 0x94D049BB133111EB
	return z ^ (z >> 31)
}

// intn returns a value in [0,n).
func (r *rng) intn(n int) int {
	if n <= 0 {
		return 0
	}
	return int(r.u64() % uint64(n))
}

// rangeIn returns a value in [lo,hi].
func (r *rng) rangeIn(lo, hi int) int { return lo + r.intn(hi-lo+1) }

func (r *rng) chance(num, den int) bool { return r.intn(den) < num }

func (r *rng) fork() *rng { return &rng{s: r.u64()} }

func pick[T any](r *rng, xs []T) T { return xs[r.intn(len(xs))] }
