package main

import (
	"bytes"
	"crypto/sha256"
	"encoding/hex"
	"fmt"
	"io"
	"os"
	"os/exec"
	"path/filepath"
	"sort"
	"strings"

	"github.com/mmcloughlin/avo/attr"
	"github.com/mmcloughlin/avo/build"
	"github.com/mmcloughlin/avo/gotypes"
	"github.com/mmcloughlin/avo/ir"
	"github.com/mmcloughlin/avo/operand"
	"github.com/mmcloughlin/avo/pass"
	"github.com/mmcloughlin/avo/printer"
	"github.com/mmcloughlin/avo/reg"
	"github.com/mmcloughlin/avo/x86"
)

// ---------------------------------------------------------------------------------------------
// Two streams of programs, each generated FROM SCRATCH for every run (the generators draw only from
// the seeded rng and iterate no Go map themselves):
//
//   f<k>  ir-level: two random functions built with newFgen (prog.go) and compiled with pass.Compile
//   c<k>  build-level: a whole file built through build.Context (route 0: methods of a fresh context;
//         route 1: the package-level functions build.TEXT/GP64/ADDQ/… on a swapped-in fresh global
//         context) with signatures, Param/Load/Store, data sections, constraints, docs, pragmas,
//         comments, labels, locals, several functions per file and extra #include lines, run through
//         build.Main with the passes [custom include pass, pass.Compile, Output(goasm), Output(stubs)].
//
// A digest is "<asm>.<stubs>.<alloc+isa>" (three truncated sha256) or "err:<message>" / "panic".
//
// History in the process (c17dirty.go): before every second in-process run, and before every generation in
// the children other than child 0 (the clean reference process), a generated batch of unrelated work goes
// through the public API of pass / reg / build / printer — throw-away allocators with SetPriority / Add /
// AddInterference / Allocate, accessor results mutated by the caller, printers on other files, Collections,
// the real package-level context.  `accept-order` lines compare the register assignment of the clique
// program on a new allocator in the fresh child with the same in the dirty processes; `allochist` lines
// compare generated histories over several allocators exactly with the process model.
// ---------------------------------------------------------------------------------------------

// c17ISA holds, per compiled function of the last compile call, the distinct ISA names of its
// instructions in first-occurrence order and the ISA list the pass computed.
var c17ISA [][2][]string

// c17Last keeps the bytes of the last compile (for the diagnostic dump on a mismatch).
var c17LastAsm, c17LastStub []byte

func c17h(b []byte) string {
	s := sha256.Sum256(b)
	return hex.EncodeToString(s[:])[:10]
}

// c17Digest digests the outputs and, per function, Allocation and ISA (sorted by virtual id: the digest
// itself must not depend on map order).
func c17Digest(asm, stub []byte, file *ir.File) string {
	c17LastAsm, c17LastStub = asm, stub
	var ab bytes.Buffer
	for _, f := range file.Functions() {
		var names []string
		seen := map[string]bool{}
		for _, i := range f.Instructions() {
			for _, n := range i.ISA {
				if !seen[n] {
					seen[n] = true
					names = append(names, n)
				}
			}
		}
		c17ISA = append(c17ISA, [2][]string{names, f.ISA})
		ids := make([]int, 0, len(f.Allocation))
		for v := range f.Allocation {
			ids = append(ids, int(v))
		}
		sort.Ints(ids)
		// physical registers in the order of the virtual ids (ranks, not the ids themselves: a
		// renumbering of virtual registers that keeps their order is not a change of the assignment)
		for _, v := range ids {
			fmt.Fprintf(&ab, "%d;", f.Allocation[reg.ID(v)])
		}
		fmt.Fprintf(&ab, "|%v|%d|", f.ISA, f.LocalSize)
	}
	return c17h(asm) + "." + c17h(stub) + "." + c17h(ab.Bytes())
}

func c17ErrDigest(err error) string {
	return "err:" + strings.NewReplacer(" ", "_", "\n", "|", "\t", "_").Replace(err.Error())
}

// ---- stream f: ir-level ------------------------------------------------------------------------

func c17Compile(db *formsDB, seed uint64, k int) (digest string, ok bool) {
	c17ISA = nil
	r := newRng(seed*1000003 + uint64(k))
	cfg := genCfg{minInstr: 3, maxInstr: 10 + r.intn(40), nGP: 2 + r.intn(12), nVec: r.intn(10), nK: r.intn(5),
		physPct: r.intn(30), branchPct: r.intn(20), randomFormPct: 40, strict: true, pressureTail: r.chance(1, 2)}
	g := newFgen(r.fork(), db, cfg)
	fn := g.generate()
	file := ir.NewFile()
	file.AddSection(fn)
	fn2 := ir.NewFunction("g")
	g2 := newFgen(r.fork(), db, cfg)
	g2.fn = fn2
	g2.generate()
	file.AddSection(fn2)
	err, panicked := safely(func() error { return pass.Compile.Execute(file) })
	if panicked {
		return "panic", false
	}
	if err != nil {
		return c17ErrDigest(err), true
	}
	cfgp := printer.Config{Name: "avo", Pkg: "p"}
	asm, err1 := printer.NewGoAsm(cfgp).Print(file)
	stub, err2 := printer.NewStubs(cfgp).Print(file)
	if err1 != nil || err2 != nil {
		return "printerr", true
	}
	return c17Digest(asm, stub, file), true
}

// ---- stream c: through build.Context -------------------------------------------------------------

// c17API is the set of entry points used by the generator, bound either to a context or to the
// package-level functions.
type c17API struct {
	Function       func(string)
	Attributes     func(attr.Attribute)
	SignatureExpr  func(string)
	Doc            func(...string)
	Pragma         func(string, ...string)
	ConstraintExpr func(string)
	GP64           func() reg.GPVirtual
	GP32           func() reg.GPVirtual
	XMM, YMM, ZMM  func() reg.VecVirtual
	K              func() reg.OpmaskVirtual
	Param          func(string) gotypes.Component
	ReturnIndex    func(int) gotypes.Component
	Return         func(string) gotypes.Component
	Load           func(gotypes.Component, reg.Register) reg.Register
	Store          func(reg.Register, gotypes.Component)
	Dereference    func(gotypes.Component) gotypes.Component
	AllocLocal     func(int) operand.Mem
	Label          func(string)
	Comment        func(...string)
	Instruction    func(*ir.Instruction)
	GLOBL          func(string, attr.Attribute) operand.Mem
	DATA           func(int, operand.Constant)
	ConstData      func(string, operand.Constant) operand.Mem
	ADDQ, XORQ     func(a, b operand.Op)
	MOVQ           func(a, b operand.Op)
	VPADDD         func(...operand.Op)
	RET            func()
}

func c17APIContext(c *build.Context) c17API {
	return c17API{Function: c.Function, Attributes: c.Attributes, SignatureExpr: c.SignatureExpr, Doc: c.Doc, Pragma: c.Pragma,
		ConstraintExpr: c.ConstraintExpr, GP64: c.GP64, GP32: c.GP32, XMM: c.XMM, YMM: c.YMM, ZMM: c.ZMM, K: c.K,
		Param: c.Param, ReturnIndex: c.ReturnIndex, Return: c.Return, Load: c.Load, Store: c.Store, Dereference: c.Dereference, AllocLocal: c.AllocLocal,
		Label: c.Label, Comment: c.Comment, Instruction: c.Instruction,
		GLOBL: func(n string, a attr.Attribute) operand.Mem { m := c.StaticGlobal(n); c.DataAttributes(a); return m },
		DATA:  c.AddDatum, ConstData: c.ConstData, ADDQ: c.ADDQ, XORQ: c.XORQ, MOVQ: c.MOVQ, VPADDD: c.VPADDD, RET: c.RET}
}

func c17APIGlobal() c17API {
	return c17API{Function: build.Function, Attributes: build.Attributes, SignatureExpr: build.SignatureExpr, Doc: build.Doc,
		Pragma: build.Pragma, ConstraintExpr: build.ConstraintExpr, GP64: build.GP64, GP32: build.GP32, XMM: build.XMM, YMM: build.YMM,
		ZMM: build.ZMM, K: build.K, Param: build.Param, ReturnIndex: build.ReturnIndex, Return: build.Return, Load: build.Load,
		Store: build.Store, Dereference: build.Dereference, AllocLocal: build.AllocLocal, Label: build.Label, Comment: build.Comment, Instruction: build.Instruction,
		GLOBL: build.GLOBL, DATA: build.DATA, ConstData: build.ConstData, ADDQ: build.ADDQ, XORQ: build.XORQ, MOVQ: build.MOVQ,
		VPADDD: build.VPADDD, RET: build.RET}
}

// c17Shape records what a generated file contains (input distribution and floors).
type c17Shape struct {
	funcs, includes, data, constraints, instrs, virtuals int
	webs, webMerges, webVec, webPhys                     int // copy webs (see c17Build)
	sigs                                                 []int
}

type c17sig struct {
	expr string
	// loads: (component path, destination class) ; stores: (return index, class)
	loads  []c17io
	stores []c17io
}
type c17io struct {
	name  string // parameter name or "" (for stores: result index in idx)
	sub   string // "", "base", "len", "cap", "real", "imag", "idx1"
	idx   int
	class string // "q" 64-bit GP, "l" 32, "w" 16, "b" 8, "sd" float64 in XMM, "ss" float32 in XMM
}

var c17Sigs = []c17sig{
	{"func(x, y uint64) uint64", []c17io{{"x", "", 0, "q"}, {"y", "", 0, "q"}}, []c17io{{"", "", 0, "q"}}},
	{"func(a []byte, n int) (r uint32, ok bool)", []c17io{{"a", "base", 0, "q"}, {"a", "len", 0, "q"}, {"a", "cap", 0, "q"}, {"n", "", 0, "q"}}, []c17io{{"", "", 0, "l"}, {"", "", 1, "b"}}},
	{"func(p *[4]uint64, s string) (lo, hi uint64)", []c17io{{"p", "", 0, "q"}, {"s", "base", 0, "q"}, {"s", "len", 0, "q"}}, []c17io{{"", "", 0, "q"}, {"", "", 1, "q"}}},
	{"func(x float64, y float32, z uint16) float64", []c17io{{"x", "", 0, "sd"}, {"y", "", 0, "ss"}, {"z", "", 0, "w"}}, []c17io{{"", "", 0, "sd"}}},
	{"func()", nil, nil},
	{"func(c complex128, v [2]int32) (re float64, e int32)", []c17io{{"c", "real", 0, "sd"}, {"c", "imag", 0, "sd"}, {"v", "idx1", 0, "l"}}, []c17io{{"", "", 0, "sd"}, {"", "", 1, "l"}}},
	{"func(b bool, i8 int8, u32 uint32, f func()) (r0 uintptr, r1 int16)", []c17io{{"b", "", 0, "b"}, {"i8", "", 0, "b"}, {"u32", "", 0, "l"}}, []c17io{{"", "", 0, "q"}, {"", "", 1, "w"}}},
}

var c17Constraints = []string{"amd64", "amd64,!purego", "!appengine,gc amd64", "linux darwin,amd64", "go1.18,!noasm"}
var c17Includes = []string{"go_asm.h", "funcdata.h", "mydefs.h", "textflag.h", "consts_amd64.h"}

// c17Build plays the k-th build-level program of the seed on the api.
func c17Build(a c17API, seed uint64, k int) (incs []string, sh c17Shape) {
	r := newRng(seed*7919 + 0xC17C17 + uint64(k)*2654435761)
	emit := func(i *ir.Instruction, err error) {
		if err == nil {
			a.Instruction(i)
			sh.instrs++
		}
	}
	if r.chance(1, 2) {
		a.ConstraintExpr(pick(r, c17Constraints))
		sh.constraints++
	}
	// extra includes: 0 (25%), 1, 2 or 3 distinct ones; order drawn
	nInc := []int{0, 1, 2, 2, 2, 3, 3, 3}[r.intn(8)]
	perm := []int{0, 1, 2, 3, 4}
	for i := len(perm) - 1; i > 0; i-- {
		j := r.intn(i + 1)
		perm[i], perm[j] = perm[j], perm[i]
	}
	for i := 0; i < nInc; i++ {
		incs = append(incs, c17Includes[perm[i]])
	}
	sh.includes = nInc
	var dataMems []operand.Mem
	addData := func(idx int) {
		switch r.intn(3) {
		case 0:
			m := a.GLOBL(fmt.Sprintf("tbl%d", idx), attr.RODATA|attr.NOPTR)
			n := 1 + r.intn(6)
			for j := 0; j < n; j++ {
				a.DATA(8*j, operand.U64(r.u64()))
			}
			dataMems = append(dataMems, m)
		case 1:
			dataMems = append(dataMems, a.ConstData(fmt.Sprintf("c%d", idx), operand.U64(r.u64())))
		default:
			m := a.GLOBL(fmt.Sprintf("mix%d", idx), attr.RODATA|attr.NOPTR)
			a.DATA(0, operand.U32(uint32(r.u64())))
			a.DATA(4, operand.U16(uint16(r.u64())))
			a.DATA(6, operand.U8(uint8(r.u64())))
			a.DATA(8, operand.String("avo"+itoa(idx)))
			a.DATA(16, operand.F64(float64(r.intn(1000))/8))
			dataMems = append(dataMems, m)
		}
		sh.data++
	}
	nData := r.intn(3)
	for i := 0; i < nData; i++ {
		addData(i)
	}
	nFn := 1 + r.intn(3)
	sh.funcs = nFn
	for fi := 0; fi < nFn; fi++ {
		si := r.intn(len(c17Sigs))
		sig := c17Sigs[si]
		sh.sigs = append(sh.sigs, si)
		name := fmt.Sprintf("fn%d", fi)
		a.Function(name)
		if r.chance(1, 2) {
			a.Doc(name+" is generated.", "It has "+itoa(len(sig.loads))+" loads.")
		}
		if r.chance(1, 4) {
			a.Pragma("noescape")
		}
		a.Attributes([]attr.Attribute{0, attr.NOSPLIT, attr.NOSPLIT, attr.NOSPLIT | attr.NOPTR}[r.intn(4)])
		a.SignatureExpr(sig.expr)
		nGP, nX, nY, nZ, nK := 2+r.intn(13), 1+r.intn(6), r.intn(6), r.intn(4), r.intn(4)
		if r.chance(1, 6) {
			nGP = 14 + r.intn(4) // register pressure: BP needed or allocation fails
		}
		sh.virtuals += nGP + nX + nY + nZ + nK
		gp := make([]reg.GPVirtual, nGP)
		for i := range gp {
			gp[i] = a.GP64()
		}
		xs := make([]reg.VecVirtual, nX)
		for i := range xs {
			xs[i] = a.XMM()
		}
		ys := make([]reg.VecVirtual, nY)
		for i := range ys {
			ys[i] = a.YMM()
		}
		zs := make([]reg.VecVirtual, nZ)
		for i := range zs {
			zs[i] = a.ZMM()
		}
		ks := make([]reg.OpmaskVirtual, nK)
		for i := range ks {
			ks[i] = a.K()
		}
		var local operand.Mem
		hasLocal := r.chance(1, 3)
		if hasLocal {
			local = a.AllocLocal(8 * (1 + r.intn(4)))
		}
		G := func() reg.GPVirtual { return gp[r.intn(nGP)] }
		X := func() reg.VecVirtual { return xs[r.intn(nX)] }
		comp := func(io c17io, c gotypes.Component) gotypes.Component {
			switch io.sub {
			case "base":
				return c.Base()
			case "len":
				return c.Len()
			case "cap":
				return c.Cap()
			case "real":
				return c.Real()
			case "imag":
				return c.Imag()
			case "idx1":
				return c.Index(1)
			}
			return c
		}
		view := func(g reg.GPVirtual, class string) reg.Register {
			switch class {
			case "l":
				return g.As32()
			case "w":
				return g.As16()
			case "b":
				return g.As8()
			}
			return g
		}
		// initialise every virtual (ties: all equal priority, all the same candidate lists)
		li := 0
		for i := range gp {
			if li < len(sig.loads) && (sig.loads[li].class == "q" || sig.loads[li].class == "l" || sig.loads[li].class == "w" || sig.loads[li].class == "b") {
				a.Load(comp(sig.loads[li], a.Param(sig.loads[li].name)), view(gp[i], sig.loads[li].class))
				li++
				continue
			}
			if len(dataMems) > 0 && r.chance(1, 4) {
				a.MOVQ(pick(r, dataMems).Offset(0), gp[i])
			} else {
				a.MOVQ(operand.U32(uint32(r.intn(1000))), gp[i])
			}
			sh.instrs++
		}
		xi := 0
		for ; li < len(sig.loads); li++ {
			io := sig.loads[li]
			if io.class == "sd" || io.class == "ss" {
				a.Load(comp(io, a.Param(io.name)), xs[xi%nX])
				xi++
			}
		}
		for i := xi; i < nX; i++ {
			emit(x86.PXOR(xs[i], xs[i]))
		}
		for i := range ys {
			emit(x86.VPXOR(ys[i], ys[i], ys[i]))
		}
		for i := range zs {
			emit(x86.VPXORD(zs[i], zs[i], zs[i]))
		}
		for i := range ks {
			emit(x86.KMOVQ(G(), ks[i]))
		}
		if si == 2 && r.chance(1, 2) {
			// *[4]uint64: Dereference allocates a GP64 of its own and loads the pointer
			a.Load(a.Dereference(a.Param("p")).Index(1+r.intn(3)), G())
		}
		// Copy webs: plain register-to-register moves in which ONE virtual register is copied from (or to) SEVERAL
		// others on different control-flow paths — the phi-like merges every coalescing / affinity / hint heuristic of
		// an allocator keys on.  The sources are made before the merged register (smaller ids, allocated first on
		// ties), are all live at the dispatch (so they get different registers) and die with their copy (so the
		// merged register interferes with none of them and every source's register is still a candidate for it).
		web := func(wi int) {
			lbl := func(s string) string { return fmt.Sprintf("w%d_%d_%s", fi, wi, s) }
			jmp := func(to string) { emit(x86.JMP(operand.LabelRef(lbl(to)))) }
			k := 2 + r.intn(3)
			sh.webs++
			switch variant := r.intn(8); {
			case variant < 4: // GP diamond / switch merge, 64 or 32 bit, optionally with a physical source
				wide := r.chance(2, 3)
				view := func(g reg.GPVirtual) reg.Register {
					if wide {
						return g
					}
					return g.As32()
				}
				mov := func(x, y reg.Register) {
					if wide {
						emit(x86.MOVQ(x, y))
					} else {
						emit(x86.MOVL(x, y))
					}
				}
				var merged reg.GPVirtual
				if r.chance(1, 5) {
					merged = a.GP64() // smaller id than the sources
				}
				src := make([]reg.GPVirtual, k)
				for i := range src {
					src[i] = a.GP64()
					a.MOVQ(operand.U32(uint32(100+r.intn(900))), src[i])
					sh.instrs++
				}
				if merged == nil {
					merged = a.GP64()
				}
				sh.virtuals += k + 1
				phys := -1
				if r.chance(1, 4) {
					phys = r.intn(k)
					sh.webPhys++
				}
				for i := 0; i+1 < k; i++ {
					emit(x86.CMPQ(src[i], src[i+1]))
					emit(x86.JE(operand.LabelRef(lbl(fmt.Sprint("p", i)))))
				}
				for i := k - 1; i >= 0; i-- {
					if i < k-1 {
						a.Label(lbl(fmt.Sprint("p", i)))
					}
					if i == phys {
						mov(view2(pick(r, []reg.GPPhysical{reg.RAX, reg.RCX, reg.RDX, reg.R8, reg.R15}), wide), view(merged))
					} else {
						mov(view(src[i]), view(merged))
					}
					if i > 0 {
						jmp("end")
					}
				}
				a.Label(lbl("end"))
				a.ADDQ(merged, gp[0])
				sh.instrs++
				sh.webMerges++
			case variant < 5: // fan-out: one register copied to several others on different paths
				from := a.GP64()
				a.MOVQ(operand.U32(uint32(r.intn(1000))), from)
				dst := make([]reg.GPVirtual, k)
				for i := range dst {
					dst[i] = a.GP64()
				}
				sh.virtuals += k + 1
				for i := 0; i+1 < k; i++ {
					emit(x86.CMPQ(from, operand.U8(uint8(i))))
					emit(x86.JE(operand.LabelRef(lbl(fmt.Sprint("p", i)))))
				}
				for i := k - 1; i >= 0; i-- {
					if i < k-1 {
						a.Label(lbl(fmt.Sprint("p", i)))
					}
					emit(x86.MOVQ(from, dst[i]))
					a.ADDQ(dst[i], gp[0])
					if i > 0 {
						jmp("end")
					}
				}
				a.Label(lbl("end"))
				sh.instrs += 1 + k
			case variant < 6: // loop-carried copy: set before the loop, replaced on the back edge
				s1, s2 := a.GP64(), a.GP64()
				a.MOVQ(operand.U32(uint32(r.intn(1000))), s1)
				a.MOVQ(operand.U32(uint32(r.intn(1000))), s2)
				merged, n := a.GP64(), a.GP64()
				sh.virtuals += 4
				a.MOVQ(operand.U32(uint32(2+r.intn(5))), n)
				emit(x86.MOVQ(s1, merged))
				a.Label(lbl("loop"))
				a.ADDQ(merged, gp[0])
				emit(x86.MOVQ(s2, merged))
				emit(x86.DECQ(n))
				emit(x86.JNZ(operand.LabelRef(lbl("loop"))))
				a.ADDQ(merged, gp[0])
				sh.instrs += 5
				sh.webMerges++
			case variant < 7: // vector merge
				src := make([]reg.VecVirtual, k)
				for i := range src {
					src[i] = a.XMM()
					emit(x86.PXOR(src[i], src[i]))
				}
				merged := a.XMM()
				sh.virtuals += k + 1
				sel := G()
				for i := 0; i+1 < k; i++ {
					emit(x86.CMPQ(sel, operand.U8(uint8(i))))
					emit(x86.JE(operand.LabelRef(lbl(fmt.Sprint("p", i)))))
				}
				for i := k - 1; i >= 0; i-- {
					if i < k-1 {
						a.Label(lbl(fmt.Sprint("p", i)))
					}
					if r.chance(1, 2) {
						emit(x86.MOVAPS(src[i], merged))
					} else {
						emit(x86.MOVOU(src[i], merged))
					}
					if i > 0 {
						jmp("end")
					}
				}
				a.Label(lbl("end"))
				emit(x86.PADDD(merged, xs[0]))
				sh.webVec++
				sh.webMerges++
			default: // opmask merge
				if nK == 0 {
					sh.webs--
					return
				}
				src := make([]reg.OpmaskVirtual, k)
				for i := range src {
					src[i] = a.K()
					emit(x86.KMOVQ(G(), src[i]))
				}
				merged := a.K()
				sh.virtuals += k + 1
				sel := G()
				for i := 0; i+1 < k; i++ {
					emit(x86.CMPQ(sel, operand.U8(uint8(i))))
					emit(x86.JE(operand.LabelRef(lbl(fmt.Sprint("p", i)))))
				}
				for i := k - 1; i >= 0; i-- {
					if i < k-1 {
						a.Label(lbl(fmt.Sprint("p", i)))
					}
					emit(x86.KMOVQ(src[i], merged))
					if i > 0 {
						jmp("end")
					}
				}
				a.Label(lbl("end"))
				emit(x86.KMOVQ(merged, G()))
				sh.webMerges++
			}
		}
		nWeb := 0
		if k%4 == 3 {
			nWeb = 2 + r.intn(3)
		} else if r.chance(1, 2) {
			nWeb = 1
		}
		websBefore := r.intn(nWeb + 1)
		for wi := 0; wi < websBefore; wi++ {
			web(wi)
		}
		loop := r.chance(1, 3)
		cnt := G()
		if loop {
			a.Label(fmt.Sprintf("loop%d", fi))
		}
		n := 3 + r.intn(38)
		for j := 0; j < n; j++ {
			switch r.intn(22) {
			case 0, 1:
				a.ADDQ(G(), G())
				sh.instrs++
			case 2:
				a.XORQ(G(), G())
				sh.instrs++
			case 3:
				emit(x86.IMULQ(G(), G()))
			case 4:
				emit(x86.SUBQ(operand.U8(uint8(r.intn(100))), G()))
			case 5:
				emit(x86.MOVL(G().As32(), G().As32()))
			case 6:
				emit(x86.MOVB(G().As8(), G().As8()))
			case 7:
				emit(x86.MULXQ(G(), G(), G()))
			case 8:
				emit(x86.POPCNTQ(G(), G()))
			case 9:
				emit(x86.ADCXQ(G(), G()))
			case 10:
				emit(x86.MULQ(G())) // implicit RAX, RDX
			case 11:
				emit(x86.MOVQ(pick(r, []reg.Register{reg.RAX, reg.RDX, reg.RCX, reg.R15}), G()))
			case 12:
				emit(x86.PADDD(X(), X()))
			case 13:
				emit(x86.AESENC(X(), X()))
			case 14:
				if nY > 0 {
					a.VPADDD(ys[r.intn(nY)], ys[r.intn(nY)], ys[r.intn(nY)])
					sh.instrs++
				} else {
					emit(x86.LZCNTQ(G(), G()))
				}
			case 15:
				if nY > 0 && nK > 0 {
					a.VPADDD(ys[r.intn(nY)], ys[r.intn(nY)], ks[r.intn(nK)], ys[r.intn(nY)]) // AVX512F + AVX512VL
					sh.instrs++
				} else {
					emit(x86.ANDNQ(G(), G(), G()))
				}
			case 16:
				if nZ > 0 {
					emit(x86.VPMULLQ(zs[r.intn(nZ)], zs[r.intn(nZ)], zs[r.intn(nZ)])) // AVX512DQ
				} else {
					emit(x86.BSWAPQ(G()))
				}
			case 17:
				if nZ > 0 {
					emit(x86.VPADDB(zs[r.intn(nZ)], zs[r.intn(nZ)], zs[r.intn(nZ)])) // AVX512BW
				} else {
					emit(x86.SHLQ(operand.U8(uint8(1+r.intn(7))), G()))
				}
			case 18:
				if hasLocal {
					if r.chance(1, 2) {
						a.MOVQ(G(), local)
					} else {
						a.MOVQ(local, G())
					}
					sh.instrs++
				} else {
					emit(x86.LEAQ(operand.Mem{Base: G(), Index: G(), Scale: 8, Disp: 16}, G()))
				}
			case 19:
				if len(dataMems) > 0 {
					emit(x86.ADDQ(pick(r, dataMems).Offset(0), G()))
				} else {
					emit(x86.PCLMULQDQ(operand.U8(1), X(), X()))
				}
			case 20:
				a.Comment("step " + itoa(j))
			case 21:
				emit(x86.SHA256RNDS2(reg.X0, X(), X()))
			}
		}
		for wi := websBefore; wi < nWeb; wi++ {
			web(wi)
		}
		if r.chance(1, 2) {
			// keep every GP (and vector) virtual alive to the end: interference between all of them
			for i := 1; i < nGP; i++ {
				a.ADDQ(gp[i], gp[0])
				sh.instrs++
			}
			for i := 1; i < nX; i++ {
				emit(x86.PADDD(xs[i], xs[0]))
			}
			for i := 1; i < nY; i++ {
				emit(x86.VPADDD(ys[i], ys[0], ys[0]))
			}
		}
		if loop {
			emit(x86.DECQ(cnt))
			emit(x86.JNZ(operand.LabelRef(fmt.Sprintf("loop%d", fi))))
		}
		for _, st := range sig.stores {
			switch st.class {
			case "sd":
				a.Store(X(), a.ReturnIndex(st.idx))
			default:
				a.Store(view(G(), st.class), a.ReturnIndex(st.idx))
			}
		}
		if nY+nZ > 0 {
			emit(x86.VZEROUPPER())
		}
		a.RET()
		sh.instrs++
		if r.chance(1, 4) {
			addData(10 + fi)
		}
	}
	return incs, sh
}

// view2: the 64- or 32-bit view of a physical general-purpose register
func view2(p reg.GPPhysical, wide bool) reg.Register {
	if wide {
		return p
	}
	return p.As32()
}

type c17buf struct{ bytes.Buffer }

func (*c17buf) Close() error { return nil }

// c17CompileCtx builds the k-th build-level program through the chosen route and runs build.Main.
func c17CompileCtx(seed uint64, k, route int) (digest string, sh c17Shape) {
	c17ISA = nil
	var file *ir.File
	var asm, stub c17buf
	var errout bytes.Buffer
	var incs []string
	status := -1
	_, panicked := safely(func() error {
		c := build.NewContext()
		if route == 1 {
			old := build.VerifSwapContext(c)
			defer build.VerifSwapContext(old)
			incs, sh = c17Build(c17APIGlobal(), seed, k)
		} else {
			incs, sh = c17Build(c17APIContext(c), seed, k)
		}
		pc := printer.Config{Name: "avo", Pkg: "p", Argv: []string{"gen", "-out", "x.s"}}
		cfg := &build.Config{ErrOut: &errout, MaxErrors: 0, Passes: []pass.Interface{
			pass.Func(func(f *ir.File) error { file = f; f.Includes = append(f.Includes, incs...); return nil }),
			pass.Compile,
			&pass.Output{Writer: &asm, Printer: printer.NewGoAsm(pc)},
			&pass.Output{Writer: &stub, Printer: printer.NewStubs(pc)},
		}}
		status = build.Main(cfg, c)
		return nil
	})
	if panicked {
		return "panic", sh
	}
	if status != 0 {
		return c17ErrDigest(fmt.Errorf("status=%d %s", status, errout.String())), sh
	}
	c17LastFile = file
	return c17Digest(asm.Bytes(), stub.Bytes(), file), sh
}

// c17One compiles program (stream, k) once.
func c17One(db *formsDB, seed uint64, stream string, k, route int) (d string) {
	// a panic anywhere (also in the generator, which calls avo's constructors and accessors: the process may
	// have been damaged by the history) is the outcome "panic" of this generation
	if _, panicked := safely(func() error {
		if stream == "f" {
			d, _ = c17Compile(db, seed, k)
		} else {
			d, _ = c17CompileCtx(seed, k, route)
		}
		return nil
	}); panicked {
		return "panic"
	}
	return d
}

func init() {
	register("c17", "determinism: repeated in-process and cross-process generation+compilation of generated programs", func(args []string) error {
		f := newStdFlags("c17")
		child := f.fs.Int("child", -1, "child mode (index p): print one digest per program of both streams")
		runs := f.fs.Int("runs", 20, "in-process repetitions")
		procs := f.fs.Int("procs", 4, "separate processes")
		nctx := f.fs.Int("nctx", -1, "number of build-level programs (default n)")
		dump := f.fs.String("dump", "", "directory for the outputs of differing runs")
		show := f.fs.Int("show", -1, "print the assembly and stubs of build-level program k and exit")
		nhist := f.fs.Int("nhist", 300, "number of generated allocator histories")
		if err := f.fs.Parse(args); err != nil {
			return err
		}
		db, err := loadForms(*f.repo)
		if err != nil {
			return err
		}
		if *nctx < 0 {
			*nctx = *f.n
		}
		if *show >= 0 {
			d, _ := c17CompileCtx(*f.seed, *show, 0)
			fmt.Printf("digest %s\n%s\n----\n%s", d, c17LastAsm, c17LastStub)
			return nil
		}
		type prog struct {
			stream string
			k      int
			seed   uint64
		}
		var progs []prog
		var isaLines [][]string
		var histLines [][]string
		if *f.replay != "" {
			// replay: `accept-det <stream><k>@<seed> …` regenerates exactly that program (the digests recorded in
			// the line are ignored, the runs are repeated); `isa n names…` is recomputed by the real pass
			lines, err := readLines(*f.replay)
			if err != nil {
				return err
			}
			for _, l := range lines {
				t := strings.Fields(l)
				switch {
				case len(t) >= 2 && t[0] == "accept-det":
					var pg prog
					at := strings.IndexByte(t[1], '@')
					if at < 2 || (t[1][0] != 'f' && t[1][0] != 'c') {
						return fmt.Errorf("replay: bad program token %q", t[1])
					}
					pg.stream = t[1][:1]
					if _, err := fmt.Sscanf(t[1][1:], "%d@%d", &pg.k, &pg.seed); err != nil {
						return fmt.Errorf("replay: bad program token %q", t[1])
					}
					progs = append(progs, pg)
				case len(t) >= 2 && t[0] == "isa":
					isaLines = append(isaLines, t[2:])
				case len(t) >= 2 && t[0] == "allochist":
					histLines = append(histLines, t)
				}
			}
			// canonical order, no duplicates: parent and children must enumerate the same list (a JSON replay
			// file is walked in map order by readLines)
			sort.Slice(progs, func(i, j int) bool {
				a, b := progs[i], progs[j]
				if a.stream != b.stream {
					return a.stream < b.stream
				}
				if a.seed != b.seed {
					return a.seed < b.seed
				}
				return a.k < b.k
			})
			uniq := progs[:0]
			for i, pg := range progs {
				if i == 0 || pg != progs[i-1] {
					uniq = append(uniq, pg)
				}
			}
			progs = uniq
			sort.Slice(isaLines, func(i, j int) bool { return strings.Join(isaLines[i], " ") < strings.Join(isaLines[j], " ") })
			sort.Slice(histLines, func(i, j int) bool { return strings.Join(histLines[i], " ") < strings.Join(histLines[j], " ") })
			*nctx = 1 << 30
		} else {
			for k := 0; k < *f.n; k++ {
				progs = append(progs, prog{"f", k, *f.seed})
			}
			for k := 0; k < *nctx; k++ {
				progs = append(progs, prog{"c", k, *f.seed})
			}
		}
		if *child >= 0 {
			// A child generates the programs in an order of its own (different histories in the process):
			// even children forwards, odd children backwards; the route of the build-level stream alternates.
			// Every child first reports the order in which a new allocator of each kind hands out its registers in a
			// FRESH process.  Child 0 then only runs the pipeline (the clean reference); the other children make
			// their process dirty through the public API before every generation, and report the order again at
			// the end.
			for _, k := range c17ProbeKinds {
				fmt.Println("order", int(k), strings.Join(c17Probe(k), " "))
			}
			dst := map[string]int{}
			rd := newRng(*f.seed*31 + 0xD1A7 + uint64(*child))
			ds := make([]string, len(progs))
			for j := range progs {
				i := j
				if *child%2 == 1 {
					i = len(progs) - 1 - j
				}
				if *child > 0 {
					c17Dirty(rd, dst)
				}
				ds[i] = c17One(db, progs[i].seed, progs[i].stream, progs[i].k, (*child/2+progs[i].k)%2)
			}
			for _, d := range ds {
				fmt.Println(d)
			}
			for _, k := range c17ProbeKinds {
				fmt.Println("order-end", int(k), strings.Join(c17Probe(k), " "))
			}
			return nil
		}
		o, err := openOut(f)
		if err != nil {
			return err
		}
		defer o.close()
		// children first (fresh hash seeds)
		childDigests := make([][]string, *procs)
		childOrders := make([][][]string, *procs)
		childOrdersEnd := make([][][]string, *procs)
		self, _ := os.Executable()
		for p := 0; p < *procs; p++ {
			out, err := exec.Command(self, "c17", "-child", fmt.Sprint(p), "-seed", fmt.Sprint(*f.seed), "-n", fmt.Sprint(*f.n),
				"-nctx", fmt.Sprint(*nctx), "-repo", *f.repo, "-replay", *f.replay).Output()
			if err != nil {
				return fmt.Errorf("child %d: %v", p, err)
			}
			for _, l := range strings.Split(strings.TrimSpace(string(out)), "\n") {
				t := strings.Fields(l)
				switch {
				case len(t) >= 2 && t[0] == "order":
					childOrders[p] = append(childOrders[p], t[1:])
				case len(t) >= 2 && t[0] == "order-end":
					childOrdersEnd[p] = append(childOrdersEnd[p], t[1:])
				case len(t) == 1:
					childDigests[p] = append(childDigests[p], t[0])
				}
			}
			if len(childDigests[p]) != len(progs) || len(childOrders[p]) != len(c17ProbeKinds) || len(childOrdersEnd[p]) != len(c17ProbeKinds) {
				return fmt.Errorf("child %d printed %d digests, want %d (and %d+%d order lines)", p, len(childDigests[p]), len(progs), len(childOrders[p]), len(childOrdersEnd[p]))
			}
		}
		stats := map[string]int{}
		rd := newRng(*f.seed*131 + 0xD1A7D1A7)
		// `accept-order kind n fresh… m now…`: the order in which a new allocator of the kind hands out its registers
		// (the register assignment of the clique program) in a fresh process and now, in this process with its history
		emitOrders := func(tag string, now func(i int) []string) {
			if *procs == 0 {
				return
			}
			for i, k := range c17ProbeKinds {
				fresh := childOrders[0][i][1:]
				nw := now(i)
				o.emit(fmt.Sprintf("accept-order %s:k%d %d %s %d %s", tag, int(k), len(fresh), strings.Join(fresh, " "), len(nw), strings.Join(nw, " ")), "ok")
				stats["order_lines"]++
			}
		}
		dumped := 0
		for pi, pg := range progs {
			var ds []string
			var first [2][]byte
			var sh c17Shape
			for i := 0; i < *runs; i++ {
				var d string
				if i%2 == 1 {
					// unrelated earlier work in the process, through the public API
					c17Dirty(rd, stats)
				}
				if _, panicked := safely(func() error {
					if pg.stream == "f" {
						d, _ = c17Compile(db, pg.seed, pg.k)
					} else {
						d, sh = c17CompileCtx(pg.seed, pg.k, i%2)
						if i%5 == 4 {
							// another generation in between (history in the process)
							c17CompileCtx(pg.seed, (pg.k+1+i)%(*nctx), (i/5)%2)
							c17ISA = nil
							d, sh = c17CompileCtx(pg.seed, pg.k, i%2)
						}
					}
					return nil
				}); panicked {
					d = "panic"
				}
				if i == 0 {
					first = [2][]byte{c17LastAsm, c17LastStub}
				} else if d != ds[0] && *dump != "" && dumped < 5 && !strings.HasPrefix(d, "err:") && !strings.HasPrefix(ds[0], "err:") {
					dumped++
					os.MkdirAll(*dump, 0o755)
					base := filepath.Join(*dump, fmt.Sprintf("%s%d", pg.stream, pg.k))
					os.WriteFile(base+"-run0.s", first[0], 0o644)
					os.WriteFile(base+"-run0.go", first[1], 0o644)
					os.WriteFile(base+fmt.Sprintf("-run%d.s", i), c17LastAsm, 0o644)
					os.WriteFile(base+fmt.Sprintf("-run%d.go", i), c17LastStub, 0o644)
				}
				ds = append(ds, d)
			}
			for p := 0; p < *procs; p++ {
				ds = append(ds, childDigests[p][pi])
			}
			pre := pg.stream + "_"
			switch {
			case ds[0] == "panic":
				stats[pre+"panic"]++
			case strings.HasPrefix(ds[0], "err:"):
				stats[pre+"compile_error"]++
			default:
				stats[pre+"compiled"]++
				if pg.stream == "c" {
					if sh.includes >= 2 {
						stats["c_compiled_ge2_includes"]++
					}
					if sh.funcs >= 2 {
						stats["c_compiled_ge2_funcs"]++
					}
					if sh.data >= 1 {
						stats["c_compiled_with_data"]++
					}
					if sh.constraints >= 1 {
						stats["c_compiled_with_constraints"]++
					}
					if sh.webMerges >= 1 {
						stats["c_compiled_with_copyweb_merge"]++
					}
					if sh.webs >= 2 {
						stats["c_compiled_ge2_copywebs"]++
					}
					stats["c_copywebs"] += sh.webs
					stats["c_copyweb_vector"] += sh.webVec
					stats["c_copyweb_physical_source"] += sh.webPhys
					stats["c_instrs"] += sh.instrs
					stats["c_virtuals"] += sh.virtuals
				}
				multi := false
				for _, p := range c17ISA {
					if len(p[1]) >= 3 {
						multi = true
					}
				}
				if multi {
					stats[pre+"compiled_ge3_isa"]++
				}
			}
			o.emit(fmt.Sprintf("accept-det %s%d@%d %d %s", pg.stream, pg.k, pg.seed, len(ds), strings.Join(ds, " ")), "ok")
			if pi%64 == 63 {
				emitOrders(fmt.Sprintf("parent-after-%d", pi+1), func(i int) []string { return c17Probe(c17ProbeKinds[i]) })
			}
			for _, p := range c17ISA {
				req := append([]string{"isa", itoa(len(p[0]))}, p[0]...)
				resp := append([]string{itoa(len(p[1]))}, p[1]...)
				o.emit(strings.Join(req, " "), strings.Join(resp, " "))
				stats["isa_lists"]++
			}
		}
		if pi := len(progs); pi > 0 {
			emitOrders("parent-end", func(i int) []string { return c17Probe(c17ProbeKinds[i]) })
			for p := 0; p < *procs; p++ {
				p := p
				emitOrders(fmt.Sprintf("child%d-start", p), func(i int) []string { return childOrders[p][i][1:] })
				emitOrders(fmt.Sprintf("child%d-end", p), func(i int) []string { return childOrdersEnd[p][i][1:] })
			}
		}
		if *f.replay == "" {
			// generated histories over several allocators, played in this (by now dirty) process
			for h := 0; h < *nhist; h++ {
				if h%8 == 0 {
					c17Dirty(rd, stats)
				}
				var req, resp string
				if _, panicked := safely(func() error { req, resp = c17History(rd, stats); return nil }); panicked {
					// the harness's own calls into avo (register families, constructors) panicked: judged by the acceptor
					o.emit("accept-order history-generation 1 panic 1 panic", "ok")
					continue
				}
				o.emit(req, resp)
				stats["hist_lines"]++
			}
		}
		for _, t := range histLines {
			resp, err := c17ReplayHistory(t)
			if err != nil {
				return err
			}
			o.emit(strings.Join(t, " "), resp)
			stats["hist_lines"]++
		}
		stats["dirty_accessor_methods"] = len(c17DirtyMethods)
		for _, names := range isaLines {
			// the real pass on a function whose instructions carry these ISA names
			fn := ir.NewFunction("isa")
			for _, n := range names {
				fn.AddInstruction(&ir.Instruction{Opcode: "NOP", ISA: []string{n}})
			}
			if err := pass.RequiredISAExtensions(fn); err != nil {
				return err
			}
			o.emit(strings.Join(append([]string{"isa", itoa(len(names))}, names...), " "), strings.Join(append([]string{itoa(len(fn.ISA))}, fn.ISA...), " "))
			stats["isa_lists"]++
		}
		stats["runs_per_program"] = *runs + *procs
		return writeJSON(*f.stats, stats)
	})
}

var _ io.Writer = (*c17buf)(nil)
