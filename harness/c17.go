package main

import (
	"crypto/sha256"
	"encoding/hex"
	"fmt"
	"os"
	"os/exec"
	"sort"
	"strings"

	"github.com/mmcloughlin/avo/ir"
	"github.com/mmcloughlin/avo/pass"
	"github.com/mmcloughlin/avo/printer"
	"github.com/mmcloughlin/avo/reg"
)

// c17Compile builds the k-th program of the seed from scratch, compiles it and
// returns a digest of (asm bytes, stub bytes, allocation) or the error class.
// c17ISA holds, per compiled function of the last c17Compile call, the distinct ISA names of its
// instructions in first-occurrence order and the ISA list the pass computed.
var c17ISA [][2][]string

func c17Compile(db *formsDB, seed uint64, k int) (digest string, ok bool) {
	c17ISA = nil
	r := newRng(seed*1000003 + uint64(k))
	cfg := genCfg{minInstr: 3, maxInstr: 10 + r.intn(40), nGP: 2 + r.intn(12), nVec: r.intn(10), nK: r.intn(5),
		physPct: r.intn(30), branchPct: r.intn(20), randomFormPct: 40, strict: true, pressureTail: r.chance(1, 2)}
	g := newFgen(r.fork(), db, cfg)
	fn := g.generate()
	file := ir.NewFile()
	file.AddSection(fn)
	fn2 := ir.NewFunction("g")
	g2 := newFgen(r.fork(), db, cfg)
	g2.fn = fn2
	g2.generate()
	file.AddSection(fn2)
	err, panicked := safely(func() error { return pass.Compile.Execute(file) })
	if panicked {
		return "panic", false
	}
	if err != nil {
		return "err:" + strings.ReplaceAll(err.Error(), " ", "_"), true
	}
	cfgp := printer.Config{Name: "avo", Pkg: "p"}
	asm, err1 := printer.NewGoAsm(cfgp).Print(file)
	stub, err2 := printer.NewStubs(cfgp).Print(file)
	if err1 != nil || err2 != nil {
		return "printerr", true
	}
	h := sha256.New()
	h.Write(asm)
	h.Write([]byte{0})
	h.Write(stub)
	h.Write([]byte{0})
	for _, f := range file.Functions() {
		var names []string
		seen := map[string]bool{}
		for _, i := range f.Instructions() {
			for _, n := range i.ISA {
				if !seen[n] {
					seen[n] = true
					names = append(names, n)
				}
			}
		}
		c17ISA = append(c17ISA, [2][]string{names, f.ISA})
		ids := make([]int, 0, len(f.Allocation))
		for v := range f.Allocation {
			ids = append(ids, int(v))
		}
		sort.Ints(ids)
		for _, v := range ids {
			fmt.Fprintf(h, "%d=%d;", v, f.Allocation[reg.ID(v)])
		}
		fmt.Fprintf(h, "|%v|", f.ISA)
	}
	return hex.EncodeToString(h.Sum(nil))[:24], true
}

func init() {
	register("c17", "determinism: repeated in-process and cross-process compilation of generated programs", func(args []string) error {
		f := newStdFlags("c17")
		child := f.fs.Bool("child", false, "child mode: print one digest per program")
		runs := f.fs.Int("runs", 20, "in-process repetitions")
		procs := f.fs.Int("procs", 4, "separate processes")
		if err := f.fs.Parse(args); err != nil {
			return err
		}
		db, err := loadForms(*f.repo)
		if err != nil {
			return err
		}
		if *child {
			for k := 0; k < *f.n; k++ {
				d, _ := c17Compile(db, *f.seed, k)
				fmt.Println(d)
			}
			return nil
		}
		o, err := openOut(f)
		if err != nil {
			return err
		}
		defer o.close()
		// children first (fresh hash seeds)
		childDigests := make([][]string, *procs)
		self, _ := os.Executable()
		for p := 0; p < *procs; p++ {
			out, err := exec.Command(self, "c17", "-child", "-seed", fmt.Sprint(*f.seed), "-n", fmt.Sprint(*f.n), "-repo", *f.repo).Output()
			if err != nil {
				return fmt.Errorf("child %d: %v", p, err)
			}
			childDigests[p] = strings.Fields(string(out))
			if len(childDigests[p]) != *f.n {
				return fmt.Errorf("child %d printed %d digests, want %d", p, len(childDigests[p]), *f.n)
			}
		}
		stats := map[string]int{}
		for k := 0; k < *f.n; k++ {
			var ds []string
			for i := 0; i < *runs; i++ {
				d, _ := c17Compile(db, *f.seed, k)
				ds = append(ds, d)
			}
			for p := 0; p < *procs; p++ {
				ds = append(ds, childDigests[p][k])
			}
			switch {
			case ds[0] == "panic":
				stats["panic"]++
			case strings.HasPrefix(ds[0], "err:"):
				stats["compile_error"]++
			default:
				stats["compiled"]++
			}
			o.emit(fmt.Sprintf("accept-det %d %d %s", k, len(ds), strings.Join(ds, " ")), "ok")
			for _, p := range c17ISA {
				req := append([]string{"isa", itoa(len(p[0]))}, p[0]...)
				resp := append([]string{itoa(len(p[1]))}, p[1]...)
				o.emit(strings.Join(req, " "), strings.Join(resp, " "))
				stats["isa_lists"]++
			}
		}
		stats["runs_per_program"] = *runs + *procs
		return writeJSON(*f.stats, stats)
	})
}
