package main

import (
	"fmt"
	"go/build/constraint"
	"sort"
	"strings"
	"unicode"
	"unicode/utf8"

	"github.com/mmcloughlin/avo/buildtags"
)

// C18, build constraints.  Which terms are valid is not avo's to decide: it is
// what the Go toolchain (go/build/constraint) takes as a tag.  The generator
// therefore samples tag names over the whole of Unicode — every general
// category, every position of the name, negated or not, every option/term
// position, through every route and every convertible type — and never decides
// validity itself: each term travels with the verdict of the installed
// go/build/constraint on it, the model decides with the table measured from the
// same toolchain (Oracle/TagChars), and the driver refuses the request
// (bad-termclass) when the two disagree.

// c18toolTerm: does the installed toolchain read `t` as a tag or its negation?
func c18toolTerm(t string) bool {
	x, err := constraint.Parse("// +build " + t)
	if err != nil {
		return false
	}
	switch e := x.(type) {
	case *constraint.TagExpr:
		return e.Tag == t
	case *constraint.NotExpr:
		if tag, ok := e.X.(*constraint.TagExpr); ok {
			return "!"+tag.Tag == t
		}
	}
	return false
}

// c18toolExpr: the verdict on a `// +build` text: at least one white-space
// separated option, each a comma separated list of terms the toolchain takes.
func c18toolExpr(text string) bool {
	fs := strings.Fields(text)
	if len(fs) == 0 {
		return false
	}
	for _, f := range fs {
		for _, t := range strings.Split(f, ",") {
			if !c18toolTerm(t) {
				return false
			}
		}
	}
	return true
}

// c18cps: a text as code points (what every Go consumer of the string sees:
// an invalid byte is U+FFFD), "-" for the empty text.
func c18cps(s string) string {
	if s == "" {
		return "-"
	}
	var parts []string
	for _, r := range s {
		parts = append(parts, fmt.Sprintf("%x", r))
	}
	return strings.Join(parts, ".")
}

// ---- sampling of code points

type c18category struct {
	name string
	tab  *unicode.RangeTable // nil: pseudo category
}

// every two-letter general category of the unicode package, plus "ascii" (the
// 128 ASCII code points) and "Cn" (unassigned: in no category); "Cs"
// (surrogates) cannot occur in a Go string.
var c18categories = func() []c18category {
	var out []c18category
	for name, tab := range unicode.Categories {
		if len(name) == 2 && name != "Cs" {
			out = append(out, c18category{name, tab})
		}
	}
	out = append(out, c18category{"ascii", nil}, c18category{"Cn", nil})
	sort.Slice(out, func(i, j int) bool { return out[i].name < out[j].name })
	return out
}()

func c18runeFromTable(r *rng, tab *unicode.RangeTable) rune {
	n := len(tab.R16) + len(tab.R32)
	k := r.intn(n)
	if k < len(tab.R16) {
		e := tab.R16[k]
		cnt := int(e.Hi-e.Lo)/int(e.Stride) + 1
		return rune(int(e.Lo) + r.intn(cnt)*int(e.Stride))
	}
	e := tab.R32[k-len(tab.R16)]
	cnt := int(e.Hi-e.Lo)/int(e.Stride) + 1
	return rune(int(e.Lo) + r.intn(cnt)*int(e.Stride))
}

func c18unassigned(c rune) bool {
	if c >= 0xD800 && c <= 0xDFFF {
		return false
	}
	for _, cat := range c18categories {
		if cat.tab != nil && unicode.Is(cat.tab, c) {
			return false
		}
	}
	return !unicode.Is(unicode.Cs, c)
}

func (c c18category) sample(r *rng) rune {
	switch {
	case c.tab != nil:
		return c18runeFromTable(r, c.tab)
	case c.name == "ascii":
		return rune(r.intn(128))
	}
	for {
		var x rune
		if r.chance(1, 2) {
			x = rune(r.intn(0x3000))
		} else {
			x = rune(r.intn(utf8.MaxRune + 1))
		}
		if c18unassigned(x) {
			return x
		}
	}
}

// c18tagRune draws a code point of the wanted validity (to the toolchain) and
// reports the category it came from; categories are tried uniformly.
func c18tagRune(r *rng, valid bool) (rune, string) {
	for {
		cat := pick(r, c18categories)
		for tries := 0; tries < 8; tries++ {
			x := cat.sample(r)
			if c14ToolchainTagChar(x) == valid {
				return x, cat.name
			}
		}
	}
}

var c18asciiTagChars = []rune("abcdefghijklmnopqrstuvwxyzABCDEFGHIJKLMNOPQRSTUVWXYZ0123456789_.")

var c18goodTerms = []string{"linux", "amd64", "!windows", "go1.18", "a_b", "386", "!purego", "x.y", "ignore", "_", ".", "!0"}

// c18goodName: a tag name the toolchain takes; about a third of them contain
// non-ASCII letters / digits, of every valid category.
func (h *c18hist) c18goodName() string {
	r := h.r
	if r.chance(1, 3) {
		return strings.TrimPrefix(pick(r, c18goodTerms), "!")
	}
	n := 1 + r.intn(5)
	uni := r.chance(1, 2)
	var b []rune
	for i := 0; i < n; i++ {
		if uni && r.chance(1, 2) {
			x, cat := c18tagRune(r, true)
			h.stats["cons_validchar_"+cat]++
			b = append(b, x)
		} else {
			b = append(b, pick(r, c18asciiTagChars))
		}
	}
	return string(b)
}

func (h *c18hist) c18goodTerm() string {
	t := h.c18goodName()
	if h.r.chance(1, 4) {
		h.stats["cons_valid_negated"]++
		t = "!" + t
	}
	if !c18toolTerm(t) {
		panic("harness: generated valid term rejected by the toolchain: " + fmt.Sprintf("%q", t))
	}
	return t
}

// c18badTerm: a term the toolchain does not take.  kind is recorded in the stats.
func (h *c18hist) c18badTerm() string {
	for {
		// (a `!` inserted in front of a name is a negation, not a fault: drawn again)
		if t, ok := h.c18badTermOnce(); ok {
			return t
		}
	}
}

func (h *c18hist) c18badTermOnce() (string, bool) {
	r := h.r
	name := []rune(h.c18goodName())
	neg := r.chance(1, 3)
	var t string
	kind := ""
	switch k := r.intn(20); {
	case k < 13:
		// one character that is not a tag character, anywhere in the name
		x, cat := c18tagRune(r, false)
		pos := r.intn(3)
		if r.chance(1, 2) || len(name) == 0 {
			// inserted
			at := []int{0, len(name) / 2, len(name)}[pos]
			name = append(name[:at:at], append([]rune{x}, name[at:]...)...)
		} else {
			at := []int{0, len(name) / 2, len(name) - 1}[pos]
			name[at] = x
		}
		if len(name) == 1 {
			h.stats["cons_badchar_alone"]++
		} else {
			h.stats["cons_badchar_pos_"+[]string{"first", "middle", "last"}[pos]]++
		}
		h.stats["cons_badchar_"+cat]++
		if x >= utf8.RuneSelf {
			h.stats["cons_badchar_nonascii"]++
		}
		kind = "char"
		t = string(name)
	case k < 15:
		kind, t, neg = "bangbang", "!!"+string(name), false
	case k < 16:
		kind, t, neg = "bang", "!", false
	case k < 17:
		kind, t, neg = "empty", "", false
	case k < 18:
		// `!` after the first position
		at := 1 + r.intn(len(name))
		kind, t = "innerbang", string(name[:at])+"!"+string(name[at:])
	default:
		// a byte sequence that is not UTF-8 (every consumer sees U+FFFD there)
		bad := pick(r, []string{"\xff", "\xc3", "\xe2\x82", "\xed\xa0\x80", "\xf8"})
		at := r.intn(len(name) + 1)
		kind, t = "notutf8", string(name[:at])+bad+string(name[at:])
	}
	if neg {
		h.stats["cons_bad_negated"]++
		t = "!" + t
	}
	if c18toolTerm(t) {
		if kind == "char" && strings.HasPrefix(t, "!") {
			return "", false
		}
		panic("harness: generated invalid term accepted by the toolchain: " + fmt.Sprintf("%q kind=%s", t, kind))
	}
	h.stats["cons_badterm_"+kind]++
	return t, true
}

// c18spaces: the code points strings.Fields splits on
var c18spaces = func() []rune {
	var out []rune
	for r := rune(0); r < 0x3100; r++ {
		if unicode.IsSpace(r) {
			out = append(out, r)
		}
	}
	return out
}()

func (h *c18hist) c18sep() string {
	r := h.r
	if r.chance(3, 4) {
		return " "
	}
	var b []rune
	for i, n := 0, 1+r.intn(2); i < n; i++ {
		b = append(b, pick(r, c18spaces))
	}
	h.stats["cons_expr_odd_space"]++
	return string(b)
}

// c18consShape: one constraint line as options of terms; bad = make it invalid.
// For the text route the faults that only a data structure can express (an
// option without terms) are replaced by their text counterparts.
func (h *c18hist) c18consShape(bad, text bool) [][]string {
	r := h.r
	nopt := 1 + r.intn(3)
	if r.chance(1, 2) {
		nopt = 1
	}
	var c [][]string
	for i := 0; i < nopt; i++ {
		nterm := 1 + r.intn(3)
		if r.chance(1, 2) {
			nterm = 1
		}
		var o []string
		for j := 0; j < nterm; j++ {
			o = append(o, h.c18goodTerm())
		}
		c = append(c, o)
	}
	if !bad {
		return c
	}
	oi := r.intn(nopt)
	ti := r.intn(len(c[oi]))
	switch k := r.intn(10); {
	case k < 8:
		c[oi][ti] = h.c18badTerm()
		h.stats[fmt.Sprintf("cons_bad_at_opt%d_term%d", min(oi, 1), min(ti, 1))]++
	case k < 9:
		h.stats["cons_bad_emptyline"]++
		return nil
	default:
		if text {
			// "a," / ",a": an empty term
			h.stats["cons_bad_danglingcomma"]++
			if r.chance(1, 2) {
				c[oi] = append(c[oi], "")
			} else {
				c[oi] = append([]string{""}, c[oi]...)
			}
		} else {
			h.stats["cons_bad_emptyoption"]++
			c[oi] = nil
		}
	}
	return c
}

func c18shapeToks(c [][]string) (toks []string, valid bool) {
	valid = len(c) > 0
	toks = append(toks, itoa(len(c)))
	for _, o := range c {
		toks = append(toks, itoa(len(o)))
		if len(o) == 0 {
			valid = false
		}
		for _, t := range o {
			tv := c18toolTerm(t)
			valid = valid && tv
			toks = append(toks, c18cps(t), c18bit(tv))
		}
	}
	return toks, valid
}

func c18shapeConstraint(c [][]string) buildtags.Constraint {
	k := buildtags.Constraint{}
	for _, o := range c {
		opt := buildtags.Option{}
		for _, t := range o {
			opt = append(opt, buildtags.Term(t))
		}
		k = append(k, opt)
	}
	return k
}

// c18asConstraint: the same line through one of the types that convert to a
// Constraint (Term, Option, Constraint, and the constructors Not / Opt / Any).
func (h *c18hist) c18asConstraint(c [][]string) buildtags.ConstraintConvertable {
	r := h.r
	k := c18shapeConstraint(c)
	switch {
	case len(c) == 1 && len(c[0]) == 1 && r.chance(1, 2):
		t := c[0][0]
		if strings.HasPrefix(t, "!") && r.chance(1, 2) {
			h.stats["cons_conv_Not"]++
			return buildtags.Not(t[1:])
		}
		h.stats["cons_conv_Term"]++
		return buildtags.Term(t)
	case len(c) == 1 && len(c[0]) > 0 && r.chance(1, 2):
		if r.chance(1, 2) {
			h.stats["cons_conv_Opt"]++
			return buildtags.Opt(k[0]...)
		}
		h.stats["cons_conv_Option"]++
		return k[0]
	case len(c) > 0 && r.chance(1, 3):
		all := true
		var os []buildtags.OptionConvertable
		for _, o := range k {
			if len(o) == 0 {
				all = false
			}
			os = append(os, o)
		}
		if all {
			h.stats["cons_conv_Any"]++
			return buildtags.Any(os...)
		}
	}
	h.stats["cons_conv_Constraint"]++
	return k
}

// c18exprText: the `// +build` text of a line (options separated by white space, terms by commas).
func (h *c18hist) c18exprText(c [][]string) string {
	var b strings.Builder
	if h.r.chance(1, 8) {
		b.WriteString(h.c18sep())
	}
	for i, o := range c {
		if i > 0 {
			b.WriteString(h.c18sep())
		}
		b.WriteString(strings.Join(o, ","))
	}
	if h.r.chance(1, 8) {
		b.WriteString(h.c18sep())
	}
	return b.String()
}

// genConsCall issues one constraint request by the given route (0 Constraints, 1
// Constraint, 2 ConstraintExpr); bad = make it invalid.  Returns whether the
// request is valid to the toolchain.
func (h *c18hist) genConsCall(route int, bad bool) bool {
	r := h.r
	var valid bool
	switch route {
	case 0:
		n := r.intn(3)
		if bad && n == 0 {
			n = 1
		}
		badAt := r.intn(max(n, 1))
		var cs buildtags.Constraints
		var shapes [][][]string
		toks := []string{"conss", itoa(n)}
		valid = true
		for i := 0; i < n; i++ {
			c := h.c18consShape(bad && i == badAt, false)
			t, v := c18shapeToks(c)
			toks = append(toks, t...)
			valid = valid && v
			shapes = append(shapes, c)
			cs = append(cs, c18shapeConstraint(c))
		}
		if n == 0 {
			h.stats["cons_Constraints_none"]++
		}
		h.op(toks...)
		var arg buildtags.ConstraintsConvertable = cs
		if n == 1 && r.chance(1, 2) {
			// a single line through the types that convert to Constraints
			switch x := h.c18asConstraint(shapes[0]).(type) {
			case buildtags.Term:
				arg = x
			case buildtags.Option:
				arg = x
			case buildtags.Constraint:
				arg = x
			}
		} else if n > 0 && r.chance(1, 3) {
			var ks []buildtags.ConstraintConvertable
			for _, k := range cs {
				ks = append(ks, k)
			}
			h.stats["cons_conv_And"]++
			arg = buildtags.And(ks...)
		}
		h.call("Constraints", func() { h.a.Constraints(arg) })
	case 1:
		c := h.c18consShape(bad, false)
		t, v := c18shapeToks(c)
		valid = v
		h.op(append([]string{"cons"}, t...)...)
		arg := h.c18asConstraint(c)
		h.call("Constraint", func() { h.a.Constraint(arg) })
	default:
		c := h.c18consShape(bad, true)
		text := h.c18exprText(c)
		valid = c18toolExpr(text)
		h.op("consx", c18cps(text), c18bit(valid))
		h.call("ConstraintExpr", func() { h.a.ConstraintExpr(text) })
	}
	name := []string{"Constraints", "Constraint", "ConstraintExpr"}[route]
	if h.a.pkg {
		name = "pkg_" + name
	}
	if valid {
		h.stats["cons_valid_"+name]++
	} else {
		h.stats["cons_invalid_"+name]++
	}
	h.stats["cons"]++
	return valid
}

func (h *c18hist) genCons() {
	// in a history with builder-time faults every third constraint request is made invalid
	bad := h.r.intn(1000) < h.pFault || (h.pFault > 0 && h.r.chance(1, 3))
	h.genConsCall(h.r.intn(3), bad)
}

// genConsFault: exactly one invalid constraint request (the single fault of an otherwise valid history).
func (h *c18hist) genConsFault() {
	route := h.r.intn(3)
	for tries := 0; ; tries++ {
		// (a fault of the text route can dissolve: a white-space character splits the term in two valid ones)
		if !h.genConsCall(route, true) {
			break
		}
		if tries > 20 {
			panic("harness: no invalid constraint request after 20 tries")
		}
	}
	h.stats["inject_badconstraint"]++
}

// ---- the boundary of the measured table, swept

// c18edgeRunes: for every maximal range [a,b] of code points the toolchain takes
// in a tag: a-1, a, b, b+1 (and the whole of Latin-1).
func c18edgeRunes() []rune {
	seen := map[rune]bool{}
	var out []rune
	add := func(x rune) {
		if x < 0 || x > utf8.MaxRune || (x >= 0xD800 && x <= 0xDFFF) || seen[x] {
			return
		}
		seen[x] = true
		out = append(out, x)
	}
	for x := rune(0); x < 256; x++ {
		add(x)
	}
	for _, rg := range c14RuneRanges(c14ToolchainTagChar) {
		add(rune(rg[0] - 1))
		add(rune(rg[0]))
		add(rune(rg[1]))
		add(rune(rg[1] + 1))
	}
	return out
}

// c18edgeScript: Function; one constraint request whose only doubtful character is x; RET.
// k selects route, position of x and negation.
func c18edgeScript(x rune, k int) func(h *c18hist) {
	return func(h *c18hist) {
		h.scriptFn(nil)
		var t string
		switch (k / 3) % 4 {
		case 0:
			t = "x" + string(x)
		case 1:
			t = string(x) + "x"
		case 2:
			t = "a" + string(x) + "b"
		default:
			t = string(x)
		}
		if (k/12)%2 == 1 {
			t = "!" + t
		}
		before := k%5 == 0
		if before {
			h.genConsCall(1, false)
		}
		switch k % 3 {
		case 0:
			c := [][]string{{t}}
			toks, _ := c18shapeToks(c)
			h.op(append([]string{"conss", "1"}, toks...)...)
			arg := buildtags.Constraints{c18shapeConstraint(c)}
			h.call("Constraints", func() { h.a.Constraints(arg) })
		case 1:
			c := [][]string{{"amd64", t}}
			toks, _ := c18shapeToks(c)
			h.op(append([]string{"cons"}, toks...)...)
			arg := c18shapeConstraint(c)
			h.call("Constraint", func() { h.a.Constraint(arg) })
		default:
			text := "linux " + t
			h.op("consx", c18cps(text), c18bit(c18toolExpr(text)))
			h.call("ConstraintExpr", func() { h.a.ConstraintExpr(text) })
		}
		if c14ToolchainTagChar(x) {
			h.stats["cons_edge_valid"]++
		} else {
			h.stats["cons_edge_invalid"]++
		}
		if !before && k%2 == 0 {
			h.genConsCall(1, false)
		}
		h.genInstr("RET", true, nil, "")
	}
}
