package main

import (
	"bytes"
	"context"
	"encoding/json"
	"fmt"
	"os"
	"os/exec"
	"path/filepath"
	"strconv"
	"strings"
	"sync"
	"time"

	"github.com/mmcloughlin/avo/reg"
)

// ---------------------------------------------------------------------------
// Oracle/AsmBP (C15), MEASURED on every run with the installed toolchain and
// the host CPU:
//
//  1. for the full grid attrs x frame (incl. 2^31 and 2^32+8: the assembler truncates the frame to int32)
//     x {leaf, calls}: an assembly function
//     that sets BP to a sentinel (and optionally calls a trivial function) is
//     built with `go build` and called through an assembly trampoline that
//     records BP before and after the call.  One child process per case.
//  2. for every general-purpose register name of avo's table and each width:
//     does a write through that name change the BP the caller observes?
//
// The generated Go/asm sources use the c15 prefix; everything lives in a
// throw-away module below <cwd>/asmbp.
// ---------------------------------------------------------------------------

const c15Sentinel = 0x1234567

// c15TrampAsm is the trampoline shared by all measured programs.  It has a
// frame of its own, so the assembler saves the Go caller's BP in its prologue
// and restores it from the stack slot (SP-relative) in its epilogue: a callee
// that destroys BP cannot damage the Go caller.  After the call only SP-relative
// addressing is used (the pseudo-register FP is resolved relative to SP).
const c15TrampAsm = `#include "textflag.h"
#include "funcdata.h"

// func c15tramp(fn uintptr, out *[2]uintptr)
TEXT ·c15tramp(SB), $32-16
	NO_LOCAL_POINTERS
	MOVQ fn+0(FP), AX
	MOVQ BP, 8(SP)
	CALL AX
	MOVQ BP, CX
	MOVQ out+8(FP), DX
	MOVQ 8(SP), BX
	MOVQ BX, 0(DX)
	MOVQ CX, 8(DX)
	RET

// func c15leaf()
TEXT ·c15leaf(SB), NOSPLIT|NOFRAME, $0-0
	RET
`

// c15MainGo calls every function of the table twice (the first call may grow
// the goroutine stack, which moves the frame BP points into) and prints the
// second measurement.
const c15MainGo = `package main

import (
	"fmt"
	"os"
	"runtime"
	"runtime/debug"
	"strconv"
)

func c15tramp(fn uintptr, out *[2]uintptr)
func c15fnaddr(i int) uintptr
func c15leaf()

//go:noinline
func c15grow(n int) int {
	var pad [1024]byte
	if n == 0 {
		return int(pad[0])
	}
	return c15grow(n-1) + int(pad[n%%1024])
}

func main() {
	runtime.LockOSThread()
	debug.SetGCPercent(-1)
	c15grow(64) // pre-grow the stack: 64 KiB
	n := %d
	w := os.Stdout
	start := 0
	if len(os.Args) > 1 {
		start, _ = strconv.Atoi(os.Args[1])
	}
	for i := start; i < n; i++ {
		var out [2]uintptr
		for k := 0; k < 2; k++ {
			c15tramp(c15fnaddr(i), &out)
		}
		fmt.Fprintf(w, "%%d %%d %%d\n", i, out[0], out[1])
	}
}
`

func c15TableAsm(names []string) string {
	var b strings.Builder
	b.WriteString("#include \"textflag.h\"\n\n")
	for i, n := range names {
		fmt.Fprintf(&b, "DATA c15tab<>+%d(SB)/8, $·%s(SB)\n", 8*i, n)
	}
	fmt.Fprintf(&b, "GLOBL c15tab<>(SB), RODATA|NOPTR, $%d\n", 8*len(names))
	// the table symbol is file-local (<>): its reader lives in the same file
	b.WriteString("\n// func c15fnaddr(i int) uintptr\nTEXT ·c15fnaddr(SB), NOSPLIT, $0-16\n\tMOVQ i+0(FP), BX\n\tLEAQ c15tab<>(SB), AX\n\tMOVQ (AX)(BX*8), AX\n\tMOVQ AX, ret+8(FP)\n\tRET\n")
	return b.String()
}

func c15GoEnv() []string {
	return append(os.Environ(), "GOFLAGS=-mod=mod", "GOWORK=off", "CGO_ENABLED=0", "GOOS=linux", "GOARCH=amd64",
		"GOPROXY=off", "GOSUMDB=off", "GOTOOLCHAIN=local")
}

// c15WriteModule writes a throw-away module: go.mod, main.go, the trampoline, the table and extra files.
func c15WriteModule(dir string, fnNames []string, extra map[string]string) error {
	os.RemoveAll(dir)
	if err := os.MkdirAll(dir, 0o755); err != nil {
		return err
	}
	files := map[string]string{
		"go.mod":        "module c15run\n\ngo 1.21\n",
		"main.go":       fmt.Sprintf(c15MainGo, len(fnNames)),
		"tramp_amd64.s": c15TrampAsm,
		"table_amd64.s": c15TableAsm(fnNames),
	}
	for k, v := range extra {
		files[k] = v
	}
	for name, data := range files {
		if err := os.WriteFile(filepath.Join(dir, name), []byte(data), 0o644); err != nil {
			return err
		}
	}
	return nil
}

// c15Build runs go build in dir; returns the combined output on failure.
func c15Build(dir string) (string, error) {
	cmd := exec.Command("go", "build", "-o", "c15run.bin", ".")
	cmd.Dir = dir
	cmd.Env = c15GoEnv()
	out, err := cmd.CombinedOutput()
	return string(out), err
}

// c15Run executes the built program in a child process and parses `i before after` lines.
func c15Run(dir string, args ...string) (map[int][2]uint64, string, error) {
	abs, err := filepath.Abs(dir)
	if err != nil {
		return nil, "", err
	}
	ctx, cancel := context.WithTimeout(context.Background(), 60*time.Second)
	defer cancel()
	cmd := exec.CommandContext(ctx, filepath.Join(abs, "c15run.bin"), args...)
	cmd.Dir = abs
	cmd.Env = append(os.Environ(), "GODEBUG=asyncpreemptoff=1", "GOMAXPROCS=1", "GOTRACEBACK=none")
	var so, se bytes.Buffer
	cmd.Stdout, cmd.Stderr = &so, &se
	rerr := cmd.Run()
	res := map[int][2]uint64{}
	for _, l := range strings.Split(strings.TrimSpace(so.String()), "\n") {
		fs := strings.Fields(l)
		if len(fs) != 3 {
			continue
		}
		i, e0 := strconv.Atoi(fs[0])
		a, e1 := strconv.ParseUint(fs[1], 10, 64)
		b, e2 := strconv.ParseUint(fs[2], 10, 64)
		if e0 == nil && e1 == nil && e2 == nil {
			res[i] = [2]uint64{a, b}
		}
	}
	return res, c15FirstLine(se.String()), rerr
}

func c15FirstLine(s string) string {
	s = strings.TrimSpace(s)
	if i := strings.IndexByte(s, '\n'); i >= 0 {
		s = s[:i]
	}
	if len(s) > 300 {
		s = s[:300]
	}
	return s
}

type c15GridRow struct {
	Attrs     int    `json:"attrs"`
	Frame     int    `json:"frame"`
	HasCall   bool   `json:"hasCall"`
	Accepted  bool   `json:"accepted"`
	Preserved bool   `json:"bpPreserved"`
	Note      string `json:"note,omitempty"`
}

func c15AttrText(a int) string {
	var parts []string
	if a&4 != 0 {
		parts = append(parts, "NOSPLIT")
	}
	if a&512 != 0 {
		parts = append(parts, "NOFRAME")
	}
	if len(parts) == 0 {
		return ""
	}
	return strings.Join(parts, "|") + ", "
}

func c15GridFn(name string, attrs, frame int, hasCall, touchBP bool) string {
	var b strings.Builder
	b.WriteString("#include \"textflag.h\"\n\n")
	fmt.Fprintf(&b, "TEXT ·%s(SB), %s$%d-0\n", name, c15AttrText(attrs), frame)
	if touchBP {
		fmt.Fprintf(&b, "\tMOVQ $%#x, BP\n", c15Sentinel)
	}
	if hasCall {
		b.WriteString("\tCALL ·c15leaf(SB)\n")
	}
	b.WriteString("\tRET\n")
	return b.String()
}

// c15MeasureCase builds and runs one grid case in its own module and child process.
func c15MeasureCase(dir string, row *c15GridRow, touchBP bool) error {
	src := c15GridFn("c15f", row.Attrs, row.Frame, row.HasCall, touchBP)
	if err := c15WriteModule(dir, []string{"c15f"}, map[string]string{"fn_amd64.s": src, "stubs.go": "package main\n\nfunc c15f()\n"}); err != nil {
		return err
	}
	if out, err := c15Build(dir); err != nil {
		row.Accepted = false
		row.Note = "toolchain rejects: " + c15FirstLine(strings.ReplaceAll(out, "# c15run\n", ""))
		return nil
	}
	row.Accepted = true
	res, stderr, rerr := c15Run(dir)
	m, ok := res[0]
	if rerr != nil || !ok {
		row.Preserved = false
		row.Note = fmt.Sprintf("crashed: %v %s", rerr, stderr)
		return nil
	}
	row.Preserved = m[0] == m[1]
	if !row.Preserved && m[1] != c15Sentinel {
		return fmt.Errorf("case attrs=%d frame=%d call=%v: BP after the call is %#x: neither the caller's %#x nor the sentinel", row.Attrs, row.Frame, row.HasCall, m[1], m[0])
	}
	return nil
}

type c15WriteRow struct {
	Name    string `json:"name"`
	Size    int    `json:"size"`
	Mask    int    `json:"mask"`
	Changed bool   `json:"changedBP"`
}

// c15MeasureWrites: for every non-restricted general-purpose register view of the
// compiled reg package, NOT{B,W,L,Q} through its assembler name, called through
// the trampoline; did the caller-visible BP change?
func c15MeasureWrites(dir string) ([]c15WriteRow, []string, error) {
	var rows []c15WriteRow
	var skipped []string
	var names []string
	var src strings.Builder
	src.WriteString("#include \"textflag.h\"\n\n")
	stubs := "package main\n\n"
	for _, r := range reg.GeneralPurpose.Registers() {
		if r.Info()&reg.Restricted != 0 {
			skipped = append(skipped, fmt.Sprintf("%s/%d (restricted: stack pointer)", r.Asm(), r.Size()))
			continue
		}
		op, ok := map[uint]string{1: "NOTB", 2: "NOTW", 4: "NOTL", 8: "NOTQ"}[r.Size()]
		if !ok {
			return nil, nil, fmt.Errorf("general-purpose register %s of size %d", r.Asm(), r.Size())
		}
		fn := fmt.Sprintf("c15w%d", len(rows))
		fmt.Fprintf(&src, "TEXT ·%s(SB), NOSPLIT|NOFRAME, $0-0\n\t%s %s\n\tRET\n\n", fn, op, r.Asm())
		stubs += "func " + fn + "()\n"
		names = append(names, fn)
		rows = append(rows, c15WriteRow{Name: r.Asm(), Size: int(r.Size()), Mask: int(r.Mask())})
	}
	if err := c15WriteModule(dir, names, map[string]string{"fn_amd64.s": src.String(), "stubs.go": stubs}); err != nil {
		return nil, nil, err
	}
	if out, err := c15Build(dir); err != nil {
		return nil, nil, fmt.Errorf("building the register-write probe: %v\n%s", err, out)
	}
	res, stderr, rerr := c15Run(dir)
	if rerr != nil || len(res) != len(rows) {
		return nil, nil, fmt.Errorf("running the register-write probe: %v %s (%d of %d results)", rerr, stderr, len(res), len(rows))
	}
	for i := range rows {
		rows[i].Changed = res[i][0] != res[i][1]
	}
	return rows, skipped, nil
}

func init() {
	genLean["AsmBP"] = func(repo string) (string, error) {
		cwd, err := os.Getwd()
		if err != nil {
			return "", err
		}
		dir := filepath.Join(cwd, "asmbp")
		os.RemoveAll(dir)
		if err := os.MkdirAll(dir, 0o755); err != nil {
			return "", err
		}
		var grid []*c15GridRow
		for _, a := range []int{0, 4, 512, 516} {
			for _, fr := range []int{0, 8, 16, 4096, 1 << 31, 1<<32 + 8} {
				for _, c := range []bool{false, true} {
					grid = append(grid, &c15GridRow{Attrs: a, Frame: fr, HasCall: c})
				}
			}
		}
		// control: the same programs without the write to BP must report "preserved"
		// (otherwise the measurement itself, e.g. a moving stack, is broken)
		controls := []*c15GridRow{{Attrs: 0, Frame: 0}, {Attrs: 0, Frame: 4096, HasCall: true}, {Attrs: 516, Frame: 0, HasCall: true}}
		var wg sync.WaitGroup
		sem := make(chan struct{}, 8)
		errs := make([]error, len(grid)+len(controls))
		for i, row := range grid {
			wg.Add(1)
			go func(i int, row *c15GridRow) {
				defer wg.Done()
				sem <- struct{}{}
				defer func() { <-sem }()
				errs[i] = c15MeasureCase(filepath.Join(dir, fmt.Sprintf("case_a%d_f%d_c%s", row.Attrs, row.Frame, b01(row.HasCall))), row, true)
			}(i, row)
		}
		for i, row := range controls {
			wg.Add(1)
			go func(i int, row *c15GridRow) {
				defer wg.Done()
				sem <- struct{}{}
				defer func() { <-sem }()
				errs[len(grid)+i] = c15MeasureCase(filepath.Join(dir, fmt.Sprintf("control_%d", i)), row, false)
			}(i, row)
		}
		wg.Wait()
		for _, e := range errs {
			if e != nil {
				return "", e
			}
		}
		for i, c := range controls {
			if !c.Accepted || !c.Preserved {
				return "", fmt.Errorf("control %d (function that does not touch BP) reports accepted=%v preserved=%v %s", i, c.Accepted, c.Preserved, c.Note)
			}
		}
		writes, skipped, err := c15MeasureWrites(filepath.Join(dir, "writes"))
		if err != nil {
			return "", err
		}
		ver, _ := exec.Command("go", "version").Output()
		summary := map[string]any{"go_version": strings.TrimSpace(string(ver)), "grid": grid, "controls": controls,
			"register_writes": len(writes), "register_writes_skipped": skipped, "sentinel": c15Sentinel}
		if b, err := json.MarshalIndent(summary, "", " "); err == nil {
			os.WriteFile(filepath.Join(dir, "summary.json"), b, 0o644)
		}
		var b strings.Builder
		b.WriteString("-- MEASURED by avoh gen-lean AsmBP: go build + execution on the host CPU through an assembly trampoline (" + strings.TrimSpace(string(ver)) + "). Do not edit.\n")
		b.WriteString("import AvoVerif.Model.BP\nnamespace Avo.Oracle\nopen Avo.BP\n")
		b.WriteString("-- ⟨attrs, frame, hasCall, accepted, bpPreserved⟩: a function `MOVQ $sentinel, BP; [CALL leaf;] RET` declared with these\n-- attributes and frame size; accepted = the toolchain builds it; bpPreserved = the caller's BP is the same after the call\n")
		b.WriteString("def asmBP : List AsmBPRow := [\n")
		for i, r := range grid {
			sep := ","
			if i == len(grid)-1 {
				sep = ""
			}
			note := ""
			if r.Note != "" {
				note = "  -- " + strings.ReplaceAll(r.Note, "\n", " ")
			}
			fmt.Fprintf(&b, "  ⟨%d, %d, %s, %s, %s⟩%s%s\n", r.Attrs, r.Frame, leanBool(r.HasCall), leanBool(r.Accepted), leanBool(r.Preserved), sep, note)
		}
		b.WriteString("]\n")
		b.WriteString("-- (assembler name, size in bytes, mask, a write through this name changes the caller-visible BP); the stack pointer views are not executed\n")
		b.WriteString("def asmBPWrites : List BPWriteRow := [\n")
		for i, w := range writes {
			sep := ","
			if i == len(writes)-1 {
				sep = ""
			}
			fmt.Fprintf(&b, "  ⟨%s, %d, %d, %s⟩%s\n", leanStr(w.Name), w.Size, w.Mask, leanBool(w.Changed), sep)
		}
		b.WriteString("]\nend Avo.Oracle\n")
		return b.String(), nil
	}
}
