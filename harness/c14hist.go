package main

import (
	"go/build/constraint"
	"runtime"
	"strconv"
	"strings"

	avobuild "github.com/mmcloughlin/avo/build"
	"github.com/mmcloughlin/avo/buildtags"
	"github.com/mmcloughlin/avo/ir"
	"github.com/mmcloughlin/avo/pass"
	"github.com/mmcloughlin/avo/printer"
	"github.com/mmcloughlin/avo/x86"
)

// C14, call histories in one process (model: lean/AvoVerif/Model/TagsHist.lean).
//
// The property speaks about the constraint lines avo PRINTS INTO GENERATED FILES: what the header of a printed file
// means must be what the file's constraints mean at the moment of printing.  One formula -> one fresh file -> one
// print per printer (the `accept-tags` stream) never prints an *ir.File twice with different constraints, so anything
// the printers (or Format, Evaluate, Validate) remember between calls is invisible there.  Here up to four files live
// side by side; their constraints are set, appended to, parsed from text (directly on the ir.File or through the
// build.Context routes Constraints / Constraint / ConstraintExpr), replaced IN PLACE, cleared and set again; every
// file is printed again and again by both printers (and by buildtags.Format directly) in both orders, alternating
// with the other files; files are dropped (garbage collected) and new ones allocated in their place.
//
//	hist <k names> <n> op…            exact: per print  class : avo Evaluate bits : toolchain bits of the header
//	                                  extracted from the real output : the constraints the file holds;  errs per slot
//	accept-hist <k names> <n> op… <m> (P.i.k <formula> ev= st= tc= mf=)…
//	                                  the property on every print (acceptHist, theorem acceptHist_sound)
//
// Only the constraint header region of the printed text is looked at (C11/C12 own the rest).

type c14HistStats struct {
	HistRequests, HistOps, HistPrints, HistPrintsAsm, HistPrintsStub, HistPrintsFormat int
	// the same allocation printed before with a different non-empty header-bearing set, no other file printed in
	// between / another file printed in between
	HistReprintChanged, HistReprintChangedInterleaved int
	// … printed before with constraints, now without (cleared) / printed without after having been printed with, now with again
	HistReprintCleared, HistReprintSetAgain int
	// consecutive prints of one file with a change in between: assembly then stubs / stubs then assembly
	HistChangedAsmThenStub, HistChangedStubThenAsm int
	HistReprintUnchanged                           int
	// a print of a file allocated in a slot whose former file had been printed with constraints
	HistReallocPrinted, HistDrops int
	// changes per route
	HistRawSet, HistRawAppend, HistRawExpr, HistCtxConstraints, HistCtxConstraint, HistCtxConstraintExpr int
	HistCtxRefused, HistInPlaceLine, HistInPlaceTerm, HistClears                                         int
	HistInvalidAtPrint, HistPanics, HistFilesRaw, HistFilesHand, HistFilesCtx                            int
	HistAfterInPlace, HistCtxGlobalRoutes                                                                int
}

const c14HistSlots = 4

type c14HistFile struct {
	kind byte // 'r' bare ir.NewFile, 'h' hand-built file with functions, 'c' file of a build.Context, 'g' the same changed through the package-level functions of avo/build
	f    *ir.File
	ctx  *avobuild.Context
	// bookkeeping for the coverage statistics only
	printed      bool   // this allocation has been printed
	lastTok      string // formula token at its last print
	everNonEmpty bool   // some earlier print of this allocation had constraints
	lastKind     byte
	inPlaceSince bool
}

type c14History struct {
	r     *c14Run
	names []string
	slots [c14HistSlots]*c14HistFile
	// per slot: a former allocation was printed with constraints
	formerPrinted [c14HistSlots]bool
	lastPrinted   *c14HistFile // file of the most recent print
	outs          []string
	obs           []string
}

func c14NewHistFile(kind byte) (hf *c14HistFile, errs string) {
	defer func() {
		if r := recover(); r != nil {
			hf, errs = nil, "panic"
		}
	}()
	switch kind {
	case 'r':
		return &c14HistFile{kind: kind, f: ir.NewFile()}, ""
	case 'h':
		f, e := c14File(nil, 1)
		if e != "" {
			return nil, e
		}
		return &c14HistFile{kind: kind, f: f}, ""
	default:
		c := avobuild.NewContext()
		c.Function("f")
		c.Doc("f is generated.")
		c.SignatureExpr("func(x uint64) uint64")
		ret, err := x86.RET()
		if err != nil {
			return nil, "ret"
		}
		c.Instruction(ret)
		f, err := c.Result()
		if err != nil {
			return nil, "ctx"
		}
		if err := pass.Compile.Execute(f); err != nil {
			return nil, "compile"
		}
		return &c14HistFile{kind: kind, f: f, ctx: c}, ""
	}
}

// c14ExtractHeader: the constraint lines of the leading comment region of a printed file (Go or assembly).
func c14ExtractHeader(content string) string {
	var b strings.Builder
	for _, line := range strings.Split(content, "\n") {
		t := strings.TrimSpace(line)
		if t == "" {
			continue
		}
		if !strings.HasPrefix(t, "//") {
			break
		}
		if strings.HasPrefix(t, "//go:build") || strings.HasPrefix(t, "// +build") || strings.HasPrefix(t, "//+build") {
			b.WriteString(t + "\n")
		}
	}
	return b.String()
}

func c14Atoi(s string) (int, bool) {
	n, err := strconv.Atoi(s)
	return n, err == nil && n >= 0
}

// ctxDo runs a change of a Context file: directly on the Context, or (kind 'g') through the package-level
// functions build.Constraints / build.Constraint / build.ConstraintExpr with the package context swapped in.
func (hf *c14HistFile) ctxDo(st *c14Stats, direct func(c *avobuild.Context), global func()) {
	before := hf.ctx.VerifErrCount()
	if hf.kind == 'g' {
		st.HistCtxGlobalRoutes++
		old := avobuild.VerifSwapContext(hf.ctx)
		defer avobuild.VerifSwapContext(old)
		global()
	} else {
		direct(hf.ctx)
	}
	if hf.ctx.VerifErrCount() != before {
		st.HistCtxRefused++
	}
}

// exec runs one operation token on the real objects.
func (h *c14History) exec(tok string) {
	st := h.r.st
	st.HistOps++
	head, payload, hasPayload := strings.Cut(tok, "=")
	parts := strings.Split(head, ".")
	if len(parts) < 2 {
		return
	}
	i, ok := c14Atoi(parts[1])
	if !ok || i >= c14HistSlots {
		return
	}
	switch parts[0] {
	case "N":
		if len(parts) != 3 || len(parts[2]) != 1 {
			return
		}
		if old := h.slots[i]; old != nil && old.everNonEmpty {
			h.formerPrinted[i] = true
		}
		hf, errs := c14NewHistFile(parts[2][0])
		if errs != "" {
			st.HistPanics++
			h.outs = append(h.outs, "newfile-"+errs)
			h.slots[i] = nil
			return
		}
		switch hf.kind {
		case 'r':
			st.HistFilesRaw++
		case 'h':
			st.HistFilesHand++
		default:
			st.HistFilesCtx++
		}
		h.slots[i] = hf
		return
	case "D":
		if old := h.slots[i]; old != nil && old.everNonEmpty {
			h.formerPrinted[i] = true
		}
		if h.lastPrinted == h.slots[i] {
			h.lastPrinted = nil
		}
		h.slots[i] = nil
		st.HistDrops++
		runtime.GC()
		return
	}
	hf := h.slots[i]
	if hf == nil {
		if parts[0] == "P" {
			h.outs = append(h.outs, "nofile")
		}
		return
	}
	if parts[0] == "P" {
		if len(parts) == 3 && len(parts[2]) == 1 {
			h.print(i, hf, parts[2][0])
		}
		return
	}
	res := c14Guard(func() string {
		switch parts[0] {
		case "S":
			fm, err := c14DecFormula(payload)
			if err != nil || !hasPayload {
				return ""
			}
			if hf.ctx != nil {
				st.HistCtxConstraints++
				cs := c14ToAvo(fm)
				hf.ctxDo(st, func(c *avobuild.Context) { c.Constraints(cs) }, func() { avobuild.Constraints(cs) })
			} else {
				st.HistRawSet++
				hf.f.Constraints = c14ToAvo(fm)
			}
		case "A":
			fm, err := c14DecFormula(payload)
			if err != nil || len(fm) != 1 {
				return ""
			}
			c := c14ToAvo(fm)[0]
			if hf.ctx != nil {
				st.HistCtxConstraint++
				hf.ctxDo(st, func(cx *avobuild.Context) { cx.Constraint(c) }, func() { avobuild.Constraint(c) })
			} else {
				st.HistRawAppend++
				hf.f.Constraints = append(hf.f.Constraints, c)
			}
		case "X":
			text, err := unhexs(payload)
			if err != nil {
				return ""
			}
			if hf.ctx != nil {
				st.HistCtxConstraintExpr++
				hf.ctxDo(st, func(c *avobuild.Context) { c.ConstraintExpr(text) }, func() { avobuild.ConstraintExpr(text) })
			} else {
				st.HistRawExpr++
				if c, err := buildtags.ParseConstraint(text); err == nil {
					hf.f.Constraints = append(hf.f.Constraints, c)
				}
			}
		case "R":
			fm, err := c14DecFormula(payload)
			if err != nil || len(fm) != 1 || len(parts) != 3 {
				return ""
			}
			if j, ok := c14Atoi(parts[2]); ok && j < len(hf.f.Constraints) {
				hf.f.Constraints[j] = c14ToAvo(fm)[0]
				st.HistInPlaceLine++
				hf.inPlaceSince = true
			}
		case "T":
			term, err := unhexs(payload)
			if err != nil || len(parts) != 5 {
				return ""
			}
			j, ok1 := c14Atoi(parts[2])
			k, ok2 := c14Atoi(parts[3])
			l, ok3 := c14Atoi(parts[4])
			if ok1 && ok2 && ok3 && j < len(hf.f.Constraints) && k < len(hf.f.Constraints[j]) && l < len(hf.f.Constraints[j][k]) {
				hf.f.Constraints[j][k][l] = buildtags.Term(term)
				st.HistInPlaceTerm++
				hf.inPlaceSince = true
			}
		case "C":
			st.HistClears++
			if hf.ctx != nil {
				hf.ctxDo(st, func(c *avobuild.Context) { c.Constraints(buildtags.Constraints{}) }, func() { avobuild.Constraints(buildtags.Constraints{}) })
			} else {
				hf.f.Constraints = nil
			}
		}
		return ""
	})
	if res == "panic" {
		st.HistPanics++
		h.outs = append(h.outs, "panic")
	}
}

func (h *c14History) print(i int, hf *c14HistFile, kind byte) {
	st := h.r.st
	names := h.names
	nassign := 1 << uint(len(names))
	cs := hf.f.Constraints
	csTok := c14EncFormula(c14FromAvo(cs))
	st.HistPrints++

	// coverage bookkeeping: what kind of re-print is this
	if hf.printed {
		switch {
		case hf.lastTok == csTok:
			st.HistReprintUnchanged++
		default:
			if hf.lastTok != "Z" && csTok != "Z" {
				if h.lastPrinted == hf {
					st.HistReprintChanged++
				} else {
					st.HistReprintChangedInterleaved++
				}
			}
			if hf.lastTok != "Z" && csTok == "Z" {
				st.HistReprintCleared++
			}
			if hf.lastTok == "Z" && csTok != "Z" && hf.everNonEmpty {
				st.HistReprintSetAgain++
			}
			if h.lastPrinted == hf && hf.lastTok != "Z" {
				if hf.lastKind == 'a' && kind == 's' {
					st.HistChangedAsmThenStub++
				}
				if hf.lastKind == 's' && kind == 'a' {
					st.HistChangedStubThenAsm++
				}
			}
			if hf.inPlaceSince {
				st.HistAfterInPlace++
			}
		}
	} else if h.formerPrinted[i] && csTok != "Z" {
		st.HistReallocPrinted++
	}
	hf.printed, hf.lastTok, hf.lastKind, hf.inPlaceSince = true, csTok, kind, false
	if csTok != "Z" {
		hf.everNonEmpty = true
	}
	h.lastPrinted = hf

	valid := c14Guard(func() string {
		if cs.Validate() == nil {
			return "1"
		}
		return "0"
	})
	if valid != "1" {
		st.HistInvalidAtPrint++
		h.outs = append(h.outs, "inv:"+csTok)
		return
	}
	ev := make([]byte, nassign)
	evTok := c14Guard(func() string {
		for a := 0; a < nassign; a++ {
			ev[a] = c14Bit(cs.Evaluate(c14Assign(names, a, false)))
		}
		return string(ev)
	})

	cfg := printer.Config{Pkg: "p", Name: "avo"}
	var content, fname string
	perr := c14Guard(func() string {
		switch kind {
		case 'a':
			st.HistPrintsAsm++
			fname = "x.s"
			b, err := printer.NewGoAsm(cfg).Print(hf.f)
			if err != nil {
				return "err"
			}
			content = string(b)
		case 's':
			st.HistPrintsStub++
			fname = "x.go"
			b, err := printer.NewStubs(cfg).Print(hf.f)
			if err != nil {
				return "err"
			}
			content = string(b)
		default:
			st.HistPrintsFormat++
			fname = "x.go"
			s, err := buildtags.Format(hf.f.Constraints)
			if err != nil {
				return "err"
			}
			content = s + "\npackage p\n"
		}
		return ""
	})
	cls, status := "lines", "ok"
	var exprs []constraint.Expr
	tb := make([]byte, nassign)
	mf := make([]byte, nassign)
	switch perr {
	case "":
		header := c14ExtractHeader(content)
		if header == "" {
			cls = "none"
		}
		exprs, status = c14ParseHeader(header)
		status = strings.ReplaceAll(status, ":", "_")
	case "panic":
		st.HistPanics++
		cls, status = "panic", "format-panic"
	default:
		cls, status = "ERR", "format-err"
	}
	for a := 0; a < nassign; a++ {
		if status != "ok" {
			tb[a], mf[a] = 'x', 'x'
			continue
		}
		v := c14Assign(names, a, false)
		tb[a] = c14Bit(c14EvalExprs(exprs, v))
		m, err := c14MatchFile(fname, []byte(content), v)
		if err != nil {
			mf[a] = 'x'
		} else {
			mf[a] = c14Bit(m)
		}
	}
	h.outs = append(h.outs, cls+":"+evTok+":"+string(tb)+":"+csTok)
	h.obs = append(h.obs, "P."+itoa(i)+"."+string(kind)+" "+csTok+" ev="+evTok+" st="+status+" tc="+string(tb)+" mf="+string(mf))
}

// runHist executes one history and emits its two lines.
func (r *c14Run) runHist(names []string, ops []string, gen func(h *c14History) string) {
	h := &c14History{r: r, names: names}
	r.st.HistRequests++
	if gen != nil {
		for {
			tok := gen(h)
			if tok == "" {
				break
			}
			ops = append(ops, tok)
			h.exec(tok)
		}
	} else {
		for _, tok := range ops {
			h.exec(tok)
		}
	}
	errs := make([]string, c14HistSlots)
	for i, hf := range h.slots {
		switch {
		case hf == nil:
			errs[i] = "-"
		case hf.ctx != nil:
			errs[i] = itoa(hf.ctx.VerifErrCount())
		default:
			errs[i] = "0"
		}
	}
	opsTok := itoa(len(ops))
	if len(ops) > 0 {
		opsTok += " " + strings.Join(ops, " ")
	}
	utok := c14UniverseTok(names)
	r.o.emit("hist "+utok+" "+opsTok, strings.Join(append(h.outs, "errs="+strings.Join(errs, ",")), " "))
	obsTok := itoa(len(h.obs))
	if len(h.obs) > 0 {
		obsTok += " " + strings.Join(h.obs, " ")
	}
	r.o.emit("accept-hist "+utok+" "+opsTok+" "+obsTok, "ok")
}

// ---------------------------------------------------------------- generation

func c14HistOption(r *rng, pool []string) []string {
	o := []string{}
	for t := r.rangeIn(1, 3); t > 0; t-- {
		term := pick(r, pool)
		if r.chance(1, 3) {
			term = "!" + term
		}
		o = append(o, term)
	}
	return o
}

func c14HistConstraint(r *rng, pool []string) [][]string {
	c := [][]string{}
	for o := r.rangeIn(1, 3); o > 0; o-- {
		c = append(c, c14HistOption(r, pool))
	}
	return c
}

// small valid sets (well inside every size limit): the stream is about histories, the formula stream about shapes
func c14HistFormula(r *rng, pool []string) c14Formula {
	f := c14Formula{}
	for l := r.rangeIn(1, 3); l > 0; l-- {
		f = append(f, c14HistConstraint(r, pool))
	}
	return f
}

func c14HistBody(c [][]string) string {
	opts := make([]string, len(c))
	for i, o := range c {
		opts[i] = strings.Join(o, ",")
	}
	return " " + strings.Join(opts, " ")
}

var c14HistNames = []string{"a", "b", "c", "linux", "amd64", "arm64", "386", "cgo", "go1.18", "purego", "x_y", "_", "a.b", "é", "日本", "٣٤", "ß9"}

// c14GenHistory: a generator of operation tokens that looks at the REAL state of the files (number of lines etc.) to
// choose operations that apply; the model replays the same tokens.
func c14GenHistory(r *rng) (names []string, gen func(h *c14History) string) {
	k := r.rangeIn(2, 4)
	seen := map[string]bool{}
	for len(names) < k {
		n := pick(r, c14HistNames)
		if !seen[n] {
			seen[n] = true
			names = append(names, n)
		}
	}
	pool := names
	steps := r.rangeIn(8, 22)
	nfiles := r.rangeIn(1, 3)
	focus := 0
	pendingPrint := 0 // after a change, print the changed file soon (and often twice: both printers)
	kindOf := func() string { return pick(r, []string{"r", "h", "c", "c", "g"}) }
	printKind := func() string { return pick(r, []string{"a", "a", "a", "a", "s", "s", "s", "s", "f"}) }
	n := 0
	realloc := -1
	gen = func(h *c14History) string {
		if n < nfiles {
			n++
			return "N." + itoa(n-1) + "." + kindOf()
		}
		if n >= nfiles+steps {
			return ""
		}
		n++
		// the first operation on a new file is to give it constraints, the second to print it
		var live []int
		for i, s := range h.slots {
			if s != nil {
				live = append(live, i)
			}
		}
		if realloc >= 0 && h.slots[realloc] == nil && r.chance(3, 4) {
			// a file was dropped after it had been printed: allocate a new one in its place
			i := realloc
			realloc, focus = -1, i
			return "N." + itoa(i) + "." + kindOf()
		}
		if len(live) == 0 {
			return "N." + itoa(r.intn(c14HistSlots)) + "." + kindOf()
		}
		if h.slots[focus] == nil || r.chance(1, 3) {
			focus = pick(r, live)
		}
		hf := h.slots[focus]
		fi := itoa(focus)
		if pendingPrint > 0 && r.chance(5, 6) {
			pendingPrint--
			return "P." + fi + "." + printKind()
		}
		nl := len(hf.f.Constraints)
		switch x := r.intn(100); {
		case x < 30:
			return "P." + fi + "." + printKind()
		case x < 37: // allocate: in place of the live file in focus, or in any slot
			if r.chance(1, 2) {
				return "N." + fi + "." + kindOf()
			}
			return "N." + itoa(r.intn(c14HistSlots)) + "." + kindOf()
		case x < 41:
			if hf.printed {
				realloc = focus
			}
			return "D." + fi
		case x < 49:
			pendingPrint = r.rangeIn(1, 2)
			return "C." + fi
		case x < 62 || nl == 0:
			pendingPrint = r.rangeIn(1, 3)
			fm := c14HistFormula(r, pool)
			if hf.ctx != nil && r.chance(1, 8) {
				fm[0][0][0] = pick(r, []string{"a-b", "!!a", "", "a b"}) // refused by the Context
			}
			if hf.ctx != nil && r.chance(1, 30) {
				fm[0] = [][]string{}
			}
			return "S." + fi + "=" + c14EncFormula(fm)
		case x < 72 && nl < 5:
			pendingPrint = r.rangeIn(1, 3)
			c := c14HistConstraint(r, pool)
			if hf.ctx != nil && r.chance(1, 8) {
				c[0][0] = pick(r, []string{"a-b", "!!a", ""})
			}
			return "A." + fi + "=" + c14EncConstraint(c)
		case x < 82 && nl < 5:
			pendingPrint = r.rangeIn(1, 3)
			text := c14HistBody(c14HistConstraint(r, pool))
			if r.chance(1, 6) {
				text = c14MutateText(r, text)
			}
			return "X." + fi + "=" + hexs(text)
		case x < 91:
			pendingPrint = r.rangeIn(1, 3)
			return "R." + fi + "." + itoa(r.intn(nl)) + "=" + c14EncConstraint(c14HistConstraint(r, pool))
		default:
			pendingPrint = r.rangeIn(1, 3)
			j := r.intn(nl)
			c := hf.f.Constraints[j]
			if len(c) == 0 {
				return "C." + fi
			}
			kk := r.intn(len(c))
			if len(c[kk]) == 0 {
				return "C." + fi
			}
			l := r.intn(len(c[kk]))
			term := pick(r, pool)
			if r.chance(1, 3) {
				term = "!" + term
			}
			return "T." + fi + "." + itoa(j) + "." + itoa(kk) + "." + itoa(l) + "=" + hexs(term)
		}
	}
	return names, gen
}

// c14FixedHistories: hand-written histories (every tier): the shapes the class is about.
func c14FixedHistories() [][2][]string {
	// formula tokens below are hex: 61=a 62=b 63=c, 21=!
	return [][2][]string{
		// a Context: add, print assembly, add, print stubs, print assembly
		{{"a", "b"}, {"N.0.c", "X.0=" + hexs("a"), "P.0.a", "X.0=" + hexs("!b"), "P.0.s", "P.0.a"}},
		// replace through Context.Constraints between prints, both orders
		{{"a", "b"}, {"N.0.c", "S.0=61", "P.0.s", "S.0=62", "P.0.a", "P.0.s", "S.0=61,2162", "P.0.s", "P.0.a"}},
		// clear and set again on a bare file
		{{"a", "b"}, {"N.0.r", "S.0=61+62", "P.0.a", "C.0", "P.0.a", "P.0.s", "S.0=62", "P.0.s", "P.0.a"}},
		// two files alternating
		{{"a", "b", "c"}, {"N.0.r", "N.1.c", "S.0=61", "S.1=62", "P.0.a", "P.1.a", "S.0=63", "P.0.s", "P.1.s", "A.1=2161", "P.0.a", "P.1.a", "P.1.s"}},
		// drop and allocate again
		{{"a", "b"}, {"N.0.r", "S.0=61", "P.0.a", "D.0", "N.0.r", "P.0.a", "S.0=62", "P.0.a", "N.0.h", "S.0=2161", "P.0.s", "D.0", "N.0.c", "A.0=62", "P.0.s"}},
		// in-place changes of a line / of a term, Format called directly
		{{"a", "b"}, {"N.0.h", "S.0=61;62", "P.0.f", "P.0.a", "R.0.1=2162", "P.0.f", "P.0.a", "T.0.0.0.0=" + hexs("!a"), "P.0.s", "P.0.f", "P.0.a"}},
		// refused changes leave the header as it was
		{{"a", "b"}, {"N.0.c", "S.0=61", "P.0.a", "S.0=" + c14EncFormula(c14Formula{{{"a-b"}}}), "P.0.s", "X.0=" + hexs("!!b"), "P.0.a", "A.0=62", "P.0.s"}},
	}
}

// c14ReplayHist decodes a `hist` / `accept-hist` request line.
func (r *c14Run) c14ReplayHist(ts []string) {
	if len(ts) < 2 {
		return
	}
	k, ok := c14Atoi(ts[1])
	if !ok || len(ts) < 3+k {
		return
	}
	var names []string
	for _, t := range ts[2 : 2+k] {
		n, err := unhexs(t)
		if err != nil {
			return
		}
		names = append(names, n)
	}
	nops, ok := c14Atoi(ts[2+k])
	if !ok || len(ts) < 3+k+nops {
		return
	}
	r.runHist(names, append([]string{}, ts[3+k:3+k+nops]...), nil)
}
