package main

// C07, histories on ONE build.Context.
//
// A history is a sequence of builder calls on a single build.Context: several
// functions one after the other (same signature, the same with shifted or
// rotated parameters, a different one with the same names), and inside each
// function allocations, Load/Store of parameter/result components, Dereference
// of pointer components (of the same pointer several times, in one function and
// in several), Load/Store through the components Dereference returned (also
// nested), other instructions and labels — through the Context's methods or
// through the package-level functions of package build.
//
// After every call the harness reads what the call appended to the node lists
// of ALL functions of the file and which registers it handed out.  Written per
// history:
//   ctxhist <ops>                  the file (per function: opcode + operands of every node) and the
//                                  calls that recorded an error, exactly as the Lean model computes
//                                  them; a virtual register is named by the call that first showed it
//   accept-ctxhist <ops> => file   the implementation's own file, registers by their own identity,
//                                  judged by the acceptor domOKb (every memory operand based on a
//                                  virtual register is dominated in the same function by its load)
//   accept-hresolve k <ops> => …   for every Load/Store/Dereference: the memory operand of the
//                                  EMITTED instruction, judged by C07's ResolveSpec against the
//                                  signature of the function the call was made in
// Every line carries the whole history, so `-replay` can re-run it.

import (
	"fmt"
	"strconv"
	"strings"

	"github.com/mmcloughlin/avo/build"
	"github.com/mmcloughlin/avo/gotypes"
	"github.com/mmcloughlin/avo/ir"
	"github.com/mmcloughlin/avo/operand"
	"github.com/mmcloughlin/avo/reg"
)

type c07hRef struct {
	handle int // -1: Param/Return selection
	sel    c07sel
	path   []c07step
}

func (r c07hRef) toks() string {
	if r.handle >= 0 {
		return "h " + itoa(r.handle) + " " + c07pathToks(r.path)
	}
	return "r " + r.sel.toks() + " " + c07pathToks(r.path)
}

type c07hReg struct {
	alloc int    // ≥ 0: the register returned by allocation call number alloc
	phys  string // else: physical register (Go assembler name) …
	cls   string // … of this class
}

func (r c07hReg) tok() string {
	if r.alloc >= 0 {
		return "a:" + itoa(r.alloc)
	}
	return "p:" + r.phys + ":" + r.cls
}

type c07hOp struct {
	kind   string // F A D L S X B
	name   string
	sig    *c07sig
	cls    string
	ref    c07hRef
	reg    c07hReg
	opcode string
	regs   []c07hReg
}

func (o c07hOp) toks() string {
	switch o.kind {
	case "F":
		return "F " + o.name + " " + o.sig.toks()
	case "A":
		return "A " + o.cls
	case "D":
		return "D " + o.ref.toks()
	case "L":
		return "L " + o.ref.toks() + " " + o.reg.tok()
	case "S":
		return "S " + o.reg.tok() + " " + o.ref.toks()
	case "X":
		parts := []string{"X", o.opcode, itoa(len(o.regs))}
		for _, r := range o.regs {
			parts = append(parts, r.tok())
		}
		return strings.Join(parts, " ")
	}
	return "B"
}

func c07hToks(ops []c07hOp) string {
	parts := []string{itoa(len(ops))}
	for _, o := range ops {
		parts = append(parts, o.toks())
	}
	return strings.Join(parts, " ")
}

// physical registers by (assembler name, class)
var c07hPhys = map[string]reg.Register{
	"AX:gp64": reg.RAX, "BX:gp64": reg.RBX, "R9:gp64": reg.R9, "R14:gp64": reg.R14,
	"AX:gp32": reg.EAX, "R9:gp32": reg.R9L, "AX:gp16": reg.AX, "R9:gp16": reg.R9W,
	"AL:gp8": reg.AL, "R9:gp8": reg.R9B, "X3:xmm": reg.X3, "X11:xmm": reg.X11,
}

// 64-bit general-purpose registers for explicit Component.Dereference(r) steps
var c07hDerefRegs = []string{"AX", "BX", "SI", "R8", "R13"}

// ---------------------------------------------------------------- running a history on the real code

type c07hInstr struct {
	fn   int
	inst *ir.Instruction // nil: label
}

type c07hOutcome struct {
	fi, pos int          // where the file stood before the call: current function, its nodes so far
	handed  reg.Register // A: the register returned
	emitted []c07hInstr  // nodes appended (to any function of the file) by this call
	err     bool
	comp    gotypes.Component // D: the returned component
	base    reg.Register      // D: register the returned component is based on (nil: not observable)
}

type c07hRun struct {
	c        *build.Context
	ops      []c07hOp
	out      []c07hOutcome
	sigs     []*c07sig // per function of the file
	curSig   *c07sig
	via      string // c | p | m  (Context methods, package-level functions, alternating)
	allocs   map[int]reg.Register
	handles  map[int]gotypes.Component
	first    map[reg.ID]int // virtual register → call that first showed it
	lens     []int
	panicked bool
}

func (h *c07hRun) pkg(k int) bool {
	switch h.via {
	case "p":
		return true
	case "m":
		return k%2 == 1
	}
	return false
}

func (h *c07hRun) see(r reg.Register, k int) {
	if r == nil {
		return
	}
	if v, ok := r.(reg.Virtual); ok {
		if _, seen := h.first[v.ID()]; !seen {
			h.first[v.ID()] = k
		}
	}
}

func (h *c07hRun) regOf(r c07hReg) reg.Register {
	if r.alloc >= 0 {
		return h.allocs[r.alloc]
	}
	return c07hPhys[r.phys+":"+r.cls]
}

func (h *c07hRun) compOf(ref c07hRef, pkg bool) gotypes.Component {
	var c gotypes.Component
	if ref.handle >= 0 {
		c = h.handles[ref.handle]
		if c == nil {
			return nil
		}
		return c07apply(c, ref.path)
	}
	sel := ref.sel
	switch {
	case pkg && sel.isRet && sel.at:
		c = build.ReturnIndex(sel.i)
	case pkg && sel.isRet:
		c = build.Return(sel.name)
	case pkg && sel.at:
		c = build.ParamIndex(sel.i)
	case pkg:
		c = build.Param(sel.name)
	case sel.isRet && sel.at:
		c = h.c.ReturnIndex(sel.i)
	case sel.isRet:
		c = h.c.Return(sel.name)
	case sel.at:
		c = h.c.ParamIndex(sel.i)
	default:
		c = h.c.Param(sel.name)
	}
	return c07apply(c, ref.path)
}

// the pointee type of a handle, and the full path of a reference from its root variable, in the generator's view
func (h *c07hRun) fullRef(ref c07hRef, names map[int]string) (c07sel, []c07step, bool) {
	if ref.handle < 0 {
		return ref.sel, ref.path, true
	}
	d := h.ops[ref.handle]
	sel, pre, ok := h.fullRef(d.ref, names)
	name, known := names[ref.handle]
	if !ok || !known {
		return sel, nil, false
	}
	full := append(append(append([]c07step{}, pre...), c07step{kind: "d", name: name}), ref.path...)
	return sel, full, true
}

// a Dereference-free path from a value of type t to some scalar (to observe the base register of a component)
func c07hLeaf(t *c07ty, depth int) ([]c07step, bool) {
	if depth > 6 {
		return nil, false
	}
	u := t.under()
	switch u.kind {
	case c07Ptr:
		return nil, true
	case c07Basic:
		switch u.basic {
		case "string":
			return []c07step{{kind: "len"}}, true
		case "complex64", "complex128":
			return []c07step{{kind: "real"}}, true
		}
		return nil, true
	case c07Slice:
		return []c07step{{kind: "len"}}, true
	case c07Array:
		if u.n == 0 {
			return nil, false
		}
		p, ok := c07hLeaf(u.elem, depth+1)
		return append([]c07step{{kind: "i", i: 0}}, p...), ok
	case c07Struct:
		seen := map[string]bool{}
		for _, f := range u.fields {
			if seen[f.name] {
				continue
			}
			seen[f.name] = true
			if p, ok := c07hLeaf(f.t, depth+1); ok {
				return append([]c07step{{kind: "f", name: f.name}}, p...), true
			}
		}
	}
	return nil, false
}

func (h *c07hRun) snapshot() (fns []*ir.Function) {
	f, _ := h.c.Result()
	return f.Functions()
}

func (h *c07hRun) call(k int, f func()) (o c07hOutcome) {
	e0 := h.c.VerifErrCount()
	o.fi = len(h.lens) - 1
	if o.fi >= 0 {
		o.pos = h.lens[o.fi]
	}
	func() {
		defer func() {
			if e := recover(); e != nil {
				h.panicked = true
			}
		}()
		f()
	}()
	fns := h.snapshot()
	for len(h.lens) < len(fns) {
		h.lens = append(h.lens, 0)
	}
	for i, fn := range fns {
		for _, n := range fn.Nodes[h.lens[i]:] {
			switch n := n.(type) {
			case *ir.Instruction:
				o.emitted = append(o.emitted, c07hInstr{i, n})
				for _, op := range n.Operands {
					switch op := op.(type) {
					case reg.Register:
						h.see(op, k)
					case operand.Mem:
						h.see(op.Base, k)
						h.see(op.Index, k)
					}
				}
			case ir.Label:
				o.emitted = append(o.emitted, c07hInstr{i, nil})
			}
		}
		h.lens[i] = len(fn.Nodes)
	}
	o.err = h.c.VerifErrCount() > e0
	return o
}

func (h *c07hRun) typeAt(ref c07hRef) *c07ty {
	sel, full, ok := h.fullRef(ref, h.placeholderNames())
	if !ok {
		return nil
	}
	v := h.curSig.selVar(sel)
	if v == nil {
		return nil
	}
	return c07walk(v.t, full)
}

func (h *c07hRun) placeholderNames() map[int]string {
	m := map[int]string{}
	for k := range h.handles {
		m[k] = "AX"
	}
	return m
}

func (h *c07hRun) run() {
	h.c = build.NewContext()
	h.allocs, h.handles, h.first = map[int]reg.Register{}, map[int]gotypes.Component{}, map[reg.ID]int{}
	h.out = make([]c07hOutcome, len(h.ops))
	if h.via != "c" {
		// the package-level functions of package build act on this Context
		old := build.VerifSwapContext(h.c)
		defer build.VerifSwapContext(old)
	}
	for k, op := range h.ops {
		k, op := k, op
		pkg := h.pkg(k)
		switch op.kind {
		case "F":
			h.curSig = op.sig
			h.sigs = append(h.sigs, op.sig)
			// components of the previous function are not used in this one
			h.handles = map[int]gotypes.Component{}
			h.out[k] = h.call(k, func() {
				expr := strings.HasSuffix(op.name, "_expr")
				switch {
				case pkg && expr:
					build.Function(op.name)
					build.SignatureExpr("func" + op.sig.src())
				case pkg:
					build.Function(op.name)
					h.c.Signature(op.sig.real) // there is no package-level Signature(*gotypes.Signature)
				case expr:
					h.c.Function(op.name)
					h.c.SignatureExpr("func" + op.sig.src())
				default:
					h.c.Function(op.name)
					h.c.Signature(op.sig.real)
				}
			})
		case "A":
			h.out[k] = h.call(k, func() {
				var r reg.Register
				switch {
				case op.cls == "gp8" && pkg:
					r = build.GP8()
				case op.cls == "gp8":
					r = h.c.GP8()
				case op.cls == "gp16" && pkg:
					r = build.GP16()
				case op.cls == "gp16":
					r = h.c.GP16()
				case op.cls == "gp32" && pkg:
					r = build.GP32()
				case op.cls == "gp32":
					r = h.c.GP32()
				case op.cls == "gp64" && pkg:
					r = build.GP64()
				case op.cls == "gp64":
					r = h.c.GP64()
				case pkg:
					r = build.XMM()
				default:
					r = h.c.XMM()
				}
				h.allocs[k] = r
				h.see(r, k)
			})
			h.out[k].handed = h.allocs[k]
		case "B":
			// a label may be reached by a jump: components obtained before it are not used after it
			h.handles = map[int]gotypes.Component{}
			h.out[k] = h.call(k, func() {
				if pkg {
					build.Label("l" + itoa(k))
				} else {
					h.c.Label("l" + itoa(k))
				}
			})
		case "X":
			h.out[k] = h.call(k, func() {
				var rs []operand.Op
				for _, r := range op.regs {
					x := h.regOf(r)
					if x == nil {
						panic("c07h: unknown register")
					}
					rs = append(rs, x)
				}
				h.c.Instruction(&ir.Instruction{Opcode: op.opcode, Operands: rs})
			})
		case "L", "S":
			h.out[k] = h.call(k, func() {
				comp := h.compOf(op.ref, pkg)
				r := h.regOf(op.reg)
				if comp == nil || r == nil {
					// a reference the model treats as an error: nothing to call (never generated)
					h.c.Load(h.c.Param("\x00no such parameter"), reg.RAX)
					return
				}
				switch {
				case op.kind == "L" && pkg:
					build.Load(comp, r)
				case op.kind == "L":
					h.c.Load(comp, r)
				case pkg:
					build.Store(r, comp)
				default:
					h.c.Store(r, comp)
				}
			})
		case "D":
			var ret gotypes.Component
			pointee := h.typeAt(c07hRef{handle: op.ref.handle, sel: op.ref.sel, path: append(append([]c07step{}, op.ref.path...), c07step{kind: "d", name: "AX"})})
			o := h.call(k, func() {
				comp := h.compOf(op.ref, pkg)
				if comp == nil {
					h.c.Load(h.c.Param("\x00no such parameter"), reg.RAX)
					return
				}
				if pkg {
					ret = build.Dereference(comp)
				} else {
					ret = h.c.Dereference(comp)
				}
			})
			o.comp = ret
			if ret != nil && pointee != nil {
				// observe the register the returned component is based on
				if leaf, ok := c07hLeaf(pointee, 0); ok {
					func() {
						defer func() { recover() }()
						if b, err := c07apply(ret, leaf).Resolve(); err == nil {
							o.base = b.Addr.Base
							h.see(o.base, k)
						}
					}()
				}
			}
			if ret != nil {
				// (avo's error component when the reference was not a pointer: using it records an error)
				h.handles[k] = ret
			}
			h.out[k] = o
		}
	}
}

// ---------------------------------------------------------------- rendering

func (h *c07hRun) regTok(r reg.Register, raw bool) string {
	if v, ok := r.(reg.Virtual); ok {
		if raw {
			return "v" + strconv.FormatUint(uint64(v.ID()), 10)
		}
		if k, seen := h.first[v.ID()]; seen {
			return "v" + itoa(k)
		}
		return "v?"
	}
	return "p" + r.Asm()
}

func (h *c07hRun) instrToks(in *ir.Instruction, raw bool) string {
	if in == nil {
		return "# 0"
	}
	parts := []string{in.Opcode, itoa(len(in.Operands))}
	for _, op := range in.Operands {
		switch op := op.(type) {
		case reg.Register:
			parts = append(parts, "r", h.regTok(op, raw))
		case operand.Mem:
			sym := op.Symbol.Name
			if op.Symbol.Static {
				sym += "<>"
			}
			if sym == "" {
				sym = "-"
			}
			base := "nil"
			switch {
			case op.Base == nil:
			case op.Base == reg.FramePointer:
				base = "FP"
			default:
				base = h.regTok(op.Base, raw)
			}
			if op.Index != nil {
				base += "+index"
			}
			parts = append(parts, "m", sym, itoa(op.Disp), base)
		default:
			parts = append(parts, "o", "other")
		}
	}
	return strings.Join(parts, " ")
}

func (h *c07hRun) fileToks(raw bool) string {
	fns := h.snapshot()
	parts := []string{itoa(len(fns))}
	for _, fn := range fns {
		var body []string
		for _, n := range fn.Nodes {
			switch n := n.(type) {
			case *ir.Instruction:
				body = append(body, h.instrToks(n, raw))
			case ir.Label:
				body = append(body, "# 0")
			}
		}
		parts = append(parts, "fn", fn.Name, itoa(len(body)))
		parts = append(parts, body...)
	}
	return strings.Join(parts, " ")
}

// emit writes the request lines of one executed history.
func (h *c07hRun) emit(o *out, stats map[string]int) {
	hist := c07hToks(h.ops)
	if h.panicked {
		o.emit("ctxhist "+hist, "panic")
		o.emit("accept-ctxhist "+hist+" => panic", "ok")
		stats["hist_panicked"]++
		return
	}
	var errs []string
	for k, oc := range h.out {
		if oc.err {
			errs = append(errs, itoa(k))
		}
	}
	o.emit("ctxhist "+hist, h.fileToks(false)+" errs "+strings.Join(append([]string{itoa(len(errs))}, errs...), " "))
	var obs []string
	for k, op := range h.ops {
		oc := h.out[k]
		r := oc.handed
		if op.kind == "D" {
			r = oc.base
		} else if op.kind != "A" {
			continue
		}
		tok := "-"
		if r != nil {
			tok = h.regTok(r, true)
		}
		fi, pos := oc.fi, oc.pos
		if fi < 0 {
			fi, pos = 0, 0
		}
		obs = append(obs, op.kind+" "+itoa(k)+" "+itoa(fi)+" "+itoa(pos)+" "+tok)
	}
	o.emit("accept-ctxhist "+hist+" => "+h.fileToks(true)+" obs "+itoa(len(obs))+" "+strings.Join(obs, " "), "ok")
	// the operand of every emitted Load/Store/Dereference instruction against the signature of ITS function
	names := map[int]string{}
	fnIdx := -1
	var cur *c07sig
	for k, op := range h.ops {
		oc := h.out[k]
		switch op.kind {
		case "F":
			fnIdx++
			cur = op.sig
			continue
		case "D":
			if oc.base != nil {
				names[k] = oc.base.Asm()
			}
		case "L", "S":
		default:
			continue
		}
		sel, full, ok := h.fullRef(op.ref, names)
		if !ok || cur == nil {
			stats["hresolve_unobservable"]++
			continue
		}
		outcome := "err"
		var mem *operand.Mem
		for _, e := range oc.emitted {
			if e.inst == nil {
				continue
			}
			if e.fn != fnIdx {
				outcome = "emitted-into-another-function"
			}
			for _, x := range e.inst.Operands {
				if m, isMem := x.(operand.Mem); isMem {
					mm := m
					mem = &mm
				}
			}
		}
		if mem == nil && outcome == "err" {
			// nothing emitted (an error, or no mov for this register): what Resolve itself says about the component
			func() {
				defer func() {
					if recover() != nil {
						outcome = "panic"
					}
				}()
				if comp := h.compAgain(op.ref, cur, sel); comp != nil {
					res, text := c07outcome(comp)
					outcome = res
					if strings.HasPrefix(res, "ok ") {
						outcome += " " + text
					}
				}
			}()
		}
		if mem != nil && outcome == "err" {
			sym := mem.Symbol.Name
			if sym == "" {
				sym = "-"
			}
			base := "nil"
			if mem.Base == reg.FramePointer {
				base = "FP"
			} else if mem.Base != nil {
				base = mem.Base.Asm()
			}
			if mem.Index != nil {
				base += "+index"
			}
			// the basic type is what Resolve reports for the component (the instruction does not carry it)
			basic := "?"
			func() {
				defer func() { recover() }()
				comp := h.compAgain(op.ref, cur, sel)
				if comp != nil {
					if b, err := comp.Resolve(); err == nil {
						basic = c07basicTok(b.Type.Kind())
					}
				}
			}()
			outcome = "ok " + sym + " " + itoa(mem.Disp) + " " + base + " " + basic + " " + mem.Asm()
		}
		o.emit("accept-hresolve "+itoa(k)+" "+hist+" => "+cur.toks()+" "+sel.toks()+" "+c07pathToks(full)+" => "+outcome, "ok")
		stats["hresolve_lines"]++
		if strings.HasPrefix(outcome, "ok ") {
			stats["hresolve_ok"]++
		}
	}
}

func (h *c07hRun) handleComp(k int) gotypes.Component { return h.out[k].comp }

// compAgain rebuilds the component of a reference after the history has run (for Resolve's own view of it).
func (h *c07hRun) compAgain(ref c07hRef, cur *c07sig, sel c07sel) gotypes.Component {
	if ref.handle >= 0 {
		if hc := h.handleComp(ref.handle); hc != nil {
			return c07apply(hc, ref.path)
		}
		return nil
	}
	t := h.sigOf(cur).Params()
	if sel.isRet {
		t = h.sigOf(cur).Results()
	}
	if sel.at {
		return c07apply(t.At(sel.i), ref.path)
	}
	return c07apply(t.Lookup(sel.name), ref.path)
}

func (h *c07hRun) sigOf(s *c07sig) *gotypes.Signature { return s.real }

// ---------------------------------------------------------------- generator

var c07hNames = []string{"s", "p", "x", "i", "n", "dst"}

func (g *c07gen) hPointee(depth int) *c07ty {
	nf := g.r.rangeIn(1, 4)
	t := &c07ty{kind: c07Struct}
	used := map[string]bool{}
	for i := 0; i < nf; i++ {
		name := pick(g.r, []string{"A", "B", "a", "b", "next", "v"})
		if used[name] {
			name += itoa(i)
		}
		used[name] = true
		var ft *c07ty
		switch {
		case depth > 0 && g.r.chance(1, 3):
			ft = &c07ty{kind: c07Ptr, elem: g.hPointee(depth - 1)}
		case g.r.chance(1, 4):
			ft = g.ty(2, 24)
		default:
			ft = g.basic()
		}
		t.fields = append(t.fields, c07field{name, ft, false})
	}
	if g.r.chance(1, 4) {
		g.nnamed++
		return &c07ty{kind: c07Named, name: "T" + itoa(g.nnamed), elem: t}
	}
	if g.r.chance(1, 6) {
		return &c07ty{kind: c07Array, n: g.r.rangeIn(1, 3), elem: t}
	}
	return t
}

func (g *c07gen) hSig() *c07sig {
	s := &c07sig{}
	np := g.r.rangeIn(1, 4)
	used := map[string]bool{}
	for i := 0; i < np; i++ {
		var t *c07ty
		if g.r.chance(3, 5) {
			t = &c07ty{kind: c07Ptr, elem: g.hPointee(2)}
			if g.r.chance(1, 6) {
				t = &c07ty{kind: c07Ptr, elem: t}
			}
		} else {
			t = g.ty(2, 40)
		}
		name := pick(g.r, c07hNames)
		for used[name] {
			name += "q"
		}
		used[name] = true
		if g.r.chance(1, 10) {
			name = ""
		}
		s.params = append(s.params, c07var{name, t})
	}
	// unnamed and named parameters cannot be mixed
	unnamed := false
	for _, v := range s.params {
		if v.name == "" {
			unnamed = true
		}
	}
	if unnamed {
		for i := range s.params {
			s.params[i].name = ""
		}
	}
	nr := g.r.intn(3)
	named := g.r.chance(1, 3)
	for i := 0; i < nr; i++ {
		var t *c07ty
		if g.r.chance(1, 2) {
			t = g.basic()
		} else {
			t = g.ty(1, 16)
		}
		name := ""
		if named {
			name = "r" + itoa(i)
		}
		s.results = append(s.results, c07var{name, t})
	}
	s.pgroups = c07grouping(g.r, s.params)
	s.rgroups = c07grouping(g.r, s.results)
	return s
}

// variant derives the signature of the next function of a history.
func (g *c07gen) hVariant(prev *c07sig) (*c07sig, string) {
	switch g.r.intn(5) {
	case 0, 1:
		return prev, "same"
	case 2:
		// the same variables behind one more parameter: every frame offset moves
		s := &c07sig{results: prev.results, variadic: prev.variadic}
		pad := pick(g.r, []*c07ty{{kind: c07Basic, basic: "int8"}, {kind: c07Basic, basic: "int64"},
			{kind: c07Array, n: 3, elem: &c07ty{kind: c07Basic, basic: "uint16"}}, {kind: c07Basic, basic: "string"}})
		name := "pad" + itoa(len(prev.params))
		if len(prev.params) > 0 && prev.params[0].name == "" {
			name = ""
		}
		s.params = append([]c07var{{name, pad}}, prev.params...)
		s.pgroups = c07grouping(g.r, s.params)
		s.rgroups = c07grouping(g.r, s.results)
		return s, "shift"
	case 3:
		if len(prev.params) > 1 && !prev.variadic {
			s := &c07sig{results: prev.results}
			s.params = append(append([]c07var{}, prev.params[1:]...), prev.params[0])
			s.pgroups = c07grouping(g.r, s.params)
			s.rgroups = c07grouping(g.r, s.results)
			return s, "rotate"
		}
	}
	return g.hSig(), "fresh"
}

type c07hGenFn struct {
	sig     *c07sig
	handles []c07hGenHandle
}

type c07hGenHandle struct {
	k   int
	t   *c07ty // pointee
	key string // what was dereferenced (for the statistics)
}

type c07hLeafRef struct {
	ref  c07hRef
	leaf *c07ty
}

func (g *c07gen) hFixDerefs(p []c07step) []c07step {
	q := append([]c07step{}, p...)
	for i := range q {
		if q[i].kind == "d" {
			q[i].name = pick(g.r, c07hDerefRegs)
		}
	}
	return q
}

// references to scalars / pointers reachable in the current function: through the variables and through live handles
func (g *c07gen) hRefs(fn *c07hGenFn, wantPtr bool, onlyHandles bool) []c07hLeafRef {
	var out []c07hLeafRef
	add := func(base c07hRef, t *c07ty, derefs int) {
		var ps [][]c07step
		g.paths(t, nil, derefs, &ps)
		for _, p := range ps {
			end := c07walk(t, p)
			if end == nil {
				continue
			}
			if wantPtr && end.under().kind != c07Ptr {
				continue
			}
			if !wantPtr && !end.isScalar() {
				continue
			}
			r := base
			r.path = g.hFixDerefs(p)
			out = append(out, c07hLeafRef{r, end})
		}
	}
	if !onlyHandles {
		for _, isRet := range []bool{false, true} {
			vs := fn.sig.params
			if isRet {
				vs = fn.sig.results
			}
			for i, v := range vs {
				sel := c07sel{isRet: isRet, at: true, i: i}
				if v.name != "" && v.name != "_" && g.r.chance(1, 2) {
					sel = c07sel{isRet: isRet, name: v.name}
				}
				derefs := 0
				if g.r.chance(1, 5) {
					derefs = 1 // explicit Component.Dereference(physical register) on the way
				}
				add(c07hRef{handle: -1, sel: sel}, v.t, derefs)
			}
		}
	}
	for _, hd := range fn.handles {
		add(c07hRef{handle: hd.k}, hd.t, 0)
	}
	return out
}

func c07hClsFor(t *c07ty) string {
	u := t.under()
	if u.kind == c07Ptr {
		return "gp64"
	}
	switch u.basic {
	case "bool", "int8", "uint8":
		return "gp8"
	case "int16", "uint16":
		return "gp16"
	case "int32", "uint32":
		return "gp32"
	case "float32", "float64":
		return "xmm"
	}
	return "gp64"
}

func (g *c07gen) hHistory(stats map[string]int) []c07hOp {
	var ops []c07hOp
	nf := pick(g.r, []int{1, 2, 2, 3, 3, 4})
	via := pick(g.r, []string{"c", "c", "p", "m"})
	var prev *c07sig
	allocs := map[string][]int{}
	derefKeys := map[string]int{} // dereferenced reference → function it was last dereferenced in
	sameAcross, sameWithin, nested, uses := false, false, false, false
	for fi := 0; fi < nf; fi++ {
		var s *c07sig
		variant := "first"
		if prev == nil {
			s = g.hSig()
		} else {
			s, variant = g.hVariant(prev)
		}
		if s.real == nil {
			if err := s.build(g.r); err != nil {
				panic(err)
			}
		}
		stats["fn_sig_"+variant]++
		prev = s
		name := "f" + itoa(fi) + "_" + via
		if len(s.decls()) == 0 && !s.usesUnsafe() && g.r.chance(1, 4) {
			name += "_expr"
			stats["fn_signature_expr"]++
		}
		ops = append(ops, c07hOp{kind: "F", name: name, sig: s})
		fn := &c07hGenFn{sig: s}
		withinKeys := map[string]bool{}
		n := g.r.rangeIn(3, 12)
		for j := 0; j < n; j++ {
			k := len(ops)
			c := g.r.intn(100)
			switch {
			case c < 12:
				cls := pick(g.r, []string{"gp64", "gp64", "gp32", "gp16", "gp8", "xmm"})
				ops = append(ops, c07hOp{kind: "A", cls: cls})
				allocs[cls] = append(allocs[cls], k)
			case c < 45:
				// Dereference: of a pointer (mostly), repeatedly of the same one, of what is not a pointer
				refs := g.hRefs(fn, true, g.r.chance(1, 4))
				var ref c07hRef
				var pointee *c07ty
				switch {
				case len(refs) > 0 && g.r.chance(9, 10):
					lr := pick(g.r, refs)
					ref, pointee = lr.ref, lr.leaf.under().elem
				default:
					all := g.hRefs(fn, false, false)
					if len(all) == 0 || g.r.chance(1, 2) {
						// not a primitive / does not exist
						ref = c07hRef{handle: -1, sel: c07sel{at: true, i: g.r.intn(len(s.params) + 1)}}
						if g.r.chance(1, 2) {
							ref.path = []c07step{pick(g.r, []c07step{{kind: "f", name: "nosuch"}, {kind: "i", i: 99}, {kind: "len"}})}
						}
						if ref.sel.i < len(s.params) {
							// small integers and booleans are loaded with an extending move (C08's subject): not here;
							// a pointer is the valid case above
							if t := c07walk(s.params[ref.sel.i].t, ref.path); t != nil && t.isScalar() &&
								(t.under().kind == c07Ptr || (c07hClsFor(t) != "gp64" && c07hClsFor(t) != "xmm")) {
								continue
							}
						}
						stats["deref_of_non_primitive_or_missing"]++
					} else {
						lr := pick(g.r, all)
						if c07hClsFor(lr.leaf) != "gp64" || lr.leaf.under().kind == c07Ptr {
							continue
						}
						ref = lr.ref // an 8-byte integer: loaded, but what comes back is the error component
						stats["deref_of_integer"]++
					}
				}
				key := ref.toks()
				if pointee != nil {
					if last, ok := derefKeys[key]; ok && last != fi {
						sameAcross = true
					}
					if withinKeys[key] {
						sameWithin = true
					}
					derefKeys[key] = fi
					withinKeys[key] = true
					if ref.handle >= 0 {
						nested = true
					}
					fn.handles = append(fn.handles, c07hGenHandle{k, pointee, key})
				}
				ops = append(ops, c07hOp{kind: "D", ref: ref})
			case c < 85:
				// Load / Store of a scalar: through a handle when there is one (2 in 3), else a variable
				refs := g.hRefs(fn, false, len(fn.handles) > 0 && g.r.chance(2, 3))
				if len(refs) == 0 {
					continue
				}
				lr := pick(g.r, refs)
				cls := c07hClsFor(lr.leaf)
				r := c07hReg{alloc: -1}
				if as := allocs[cls]; len(as) > 0 && g.r.chance(3, 4) {
					r.alloc = pick(g.r, as)
				} else {
					var cands []string
					for key := range c07hPhys {
						if strings.HasSuffix(key, ":"+cls) {
							cands = append(cands, key)
						}
					}
					sortStrings(cands)
					key := pick(g.r, cands)
					r.phys, r.cls = key[:strings.Index(key, ":")], cls
				}
				kind := "L"
				if g.r.chance(1, 3) {
					kind = "S"
				}
				if lr.ref.handle >= 0 {
					uses = true
				}
				ops = append(ops, c07hOp{kind: kind, ref: lr.ref, reg: r})
				if g.r.chance(1, 8) {
					ops = append(ops, c07hOp{kind: kind, ref: lr.ref, reg: r}) // the same component again
					stats["repeated_load_store"]++
				}
			case c < 93:
				if as := allocs["gp64"]; len(as) > 0 {
					ops = append(ops, c07hOp{kind: "X", opcode: pick(g.r, []string{"ADDQ", "XORQ"}),
						regs: []c07hReg{{alloc: pick(g.r, as)}, {alloc: pick(g.r, as)}}})
				} else {
					ops = append(ops, c07hOp{kind: "X", opcode: "NOP"})
				}
			default:
				ops = append(ops, c07hOp{kind: "B"})
				fn.handles = nil
				withinKeys = map[string]bool{}
				stats["labels"]++
			}
		}
	}
	stats["histories"]++
	stats["hist_via_"+via]++
	if nf > 1 {
		stats["hist_multi_function"]++
	}
	if sameAcross {
		stats["hist_same_pointer_dereferenced_in_two_functions"]++
	}
	if sameWithin {
		stats["hist_same_pointer_dereferenced_twice_in_a_function"]++
	}
	if nested {
		stats["hist_nested_dereference"]++
	}
	if uses {
		stats["hist_load_store_through_handle"]++
	}
	return ops
}

func sortStrings(xs []string) {
	for i := 1; i < len(xs); i++ {
		for j := i; j > 0 && xs[j] < xs[j-1]; j-- {
			xs[j], xs[j-1] = xs[j-1], xs[j]
		}
	}
}

// ---------------------------------------------------------------- replay

func (p *c07parser) sel() (c07sel, error) {
	pr, err := p.next()
	if err != nil {
		return c07sel{}, err
	}
	st, err := p.next()
	if err != nil {
		return c07sel{}, err
	}
	sel := c07sel{isRet: pr == "R"}
	switch {
	case strings.HasPrefix(st, "at:"):
		sel.at = true
		if sel.i, err = strconv.Atoi(c07afterColon(st)); err != nil {
			return sel, err
		}
	case strings.HasPrefix(st, "name:"):
		sel.name = c07afterColon(st)
	default:
		return sel, fmt.Errorf("bad selector %q", st)
	}
	return sel, nil
}

func (p *c07parser) path() ([]c07step, error) {
	n, err := p.nat()
	if err != nil {
		return nil, err
	}
	var path []c07step
	for i := 0; i < n; i++ {
		t, err := p.next()
		if err != nil {
			return nil, err
		}
		switch {
		case t == "base" || t == "len" || t == "cap" || t == "real" || t == "imag":
			path = append(path, c07step{kind: t})
		case strings.HasPrefix(t, "i:"):
			v, err := strconv.Atoi(c07afterColon(t))
			if err != nil {
				return nil, err
			}
			path = append(path, c07step{kind: "i", i: v})
		case strings.HasPrefix(t, "f:"):
			path = append(path, c07step{kind: "f", name: c07afterColon(t)})
		case strings.HasPrefix(t, "d:"):
			path = append(path, c07step{kind: "d", name: c07afterColon(t)})
		default:
			return nil, fmt.Errorf("bad step %q", t)
		}
	}
	return path, nil
}

func (p *c07parser) href() (c07hRef, error) {
	k, err := p.next()
	if err != nil {
		return c07hRef{}, err
	}
	r := c07hRef{handle: -1}
	switch k {
	case "r":
		if r.sel, err = p.sel(); err != nil {
			return r, err
		}
	case "h":
		if r.handle, err = p.nat(); err != nil {
			return r, err
		}
	default:
		return r, fmt.Errorf("bad reference %q", k)
	}
	r.path, err = p.path()
	return r, err
}

func (p *c07parser) hreg() (c07hReg, error) {
	t, err := p.next()
	if err != nil {
		return c07hReg{}, err
	}
	fs := strings.Split(t, ":")
	switch {
	case len(fs) == 2 && fs[0] == "a":
		k, err := strconv.Atoi(fs[1])
		return c07hReg{alloc: k}, err
	case len(fs) == 3 && fs[0] == "p":
		if _, ok := c07hPhys[fs[1]+":"+fs[2]]; !ok {
			return c07hReg{}, fmt.Errorf("unknown register %q", t)
		}
		return c07hReg{alloc: -1, phys: fs[1], cls: fs[2]}, nil
	}
	return c07hReg{}, fmt.Errorf("bad register %q", t)
}

func (p *c07parser) hist() ([]c07hOp, error) {
	n, err := p.nat()
	if err != nil {
		return nil, err
	}
	var ops []c07hOp
	for i := 0; i < n; i++ {
		k, err := p.next()
		if err != nil {
			return nil, err
		}
		op := c07hOp{kind: k}
		switch k {
		case "F":
			if op.name, err = p.next(); err != nil {
				return nil, err
			}
			if op.sig, err = p.sig(); err != nil {
				return nil, err
			}
		case "A":
			if op.cls, err = p.next(); err != nil {
				return nil, err
			}
		case "D":
			if op.ref, err = p.href(); err != nil {
				return nil, err
			}
		case "L":
			if op.ref, err = p.href(); err != nil {
				return nil, err
			}
			if op.reg, err = p.hreg(); err != nil {
				return nil, err
			}
		case "S":
			if op.reg, err = p.hreg(); err != nil {
				return nil, err
			}
			if op.ref, err = p.href(); err != nil {
				return nil, err
			}
		case "X":
			if op.opcode, err = p.next(); err != nil {
				return nil, err
			}
			m, err := p.nat()
			if err != nil {
				return nil, err
			}
			for j := 0; j < m; j++ {
				r, err := p.hreg()
				if err != nil {
					return nil, err
				}
				op.regs = append(op.regs, r)
			}
		case "B":
		default:
			return nil, fmt.Errorf("bad call %q", k)
		}
		ops = append(ops, op)
	}
	return ops, nil
}

func c07hViaOf(ops []c07hOp) string {
	for _, op := range ops {
		if op.kind == "F" {
			fs := strings.Split(op.name, "_")
			if len(fs) >= 2 && (fs[1] == "c" || fs[1] == "p" || fs[1] == "m") {
				return fs[1]
			}
		}
	}
	return "c"
}

func c07hReplayLine(o *out, stats map[string]int, line string, seen map[string]bool) (err error) {
	defer func() {
		if r := recover(); r != nil {
			err = fmt.Errorf("%v", r)
		}
	}()
	fs := strings.Fields(line)
	if len(fs) == 0 {
		return nil
	}
	start := 1
	switch fs[0] {
	case "ctxhist", "accept-ctxhist":
	case "accept-hresolve":
		start = 2
	default:
		stats["replay_skipped_"+fs[0]]++
		return nil
	}
	p := &c07parser{toks: fs[start:]}
	ops, err := p.hist()
	if err != nil {
		return err
	}
	key := c07hToks(ops)
	if seen[key] {
		return nil
	}
	seen[key] = true
	h := &c07hRun{ops: ops, via: c07hViaOf(ops)}
	h.run()
	h.emit(o, stats)
	stats["histories"]++
	return nil
}

// hand-written histories run before the generated ones
func c07hCorpus() [][]c07hOp {
	mk := func(expr string) *c07sig {
		s, err := c07sigFromTypes(expr)
		if err != nil {
			panic(err)
		}
		sig, err := gotypes.ParseSignature(expr)
		if err != nil {
			panic(err)
		}
		s.real = sig
		return s
	}
	pair := mk("func(i uint64, s *struct{ A, B uint64 }) uint64")
	shifted := mk("func(pad int8, i uint64, s *struct{ A, B uint64 }) uint64")
	list := mk("func(s *struct{ v uint32; next *struct{ v uint32; w [3]int16 } }, n int) (r0 uint32)")
	P := func(name string, path ...c07step) c07hRef {
		return c07hRef{handle: -1, sel: c07sel{name: name}, path: path}
	}
	R0 := c07hRef{handle: -1, sel: c07sel{isRet: true, at: true, i: 0}}
	H := func(k int, path ...c07step) c07hRef { return c07hRef{handle: k, path: path} }
	f := func(n string) c07step { return c07step{kind: "f", name: n} }
	body := func(base int, field string) []c07hOp {
		return []c07hOp{
			{kind: "A", cls: "gp64"}, {kind: "L", ref: P("i"), reg: c07hReg{alloc: base + 1}},
			{kind: "D", ref: P("s")},
			{kind: "A", cls: "gp64"}, {kind: "L", ref: H(base+3, f(field)), reg: c07hReg{alloc: base + 4}},
			{kind: "X", opcode: "ADDQ", regs: []c07hReg{{alloc: base + 1}, {alloc: base + 4}}},
			{kind: "S", reg: c07hReg{alloc: base + 4}, ref: R0}, {kind: "X", opcode: "RET"},
		}
	}
	var out [][]c07hOp
	for _, via := range []string{"c", "p", "m"} {
		// two functions of one signature dereferencing the same parameter (and a third behind a shifted frame)
		h := []c07hOp{{kind: "F", name: "GetA_" + via, sig: pair}}
		h = append(h, body(0, "A")...)
		h = append(h, c07hOp{kind: "F", name: "GetB_" + via, sig: pair})
		h = append(h, body(9, "B")...)
		h = append(h, c07hOp{kind: "F", name: "GetC_" + via, sig: shifted})
		h = append(h, body(18, "B")...)
		out = append(out, h)
		// the same pointer dereferenced twice in one function, across a label, and a nested pointer
		g := []c07hOp{{kind: "F", name: "walk_" + via, sig: list},
			{kind: "A", cls: "gp32"}, {kind: "D", ref: P("s")}, {kind: "L", ref: H(2, f("v")), reg: c07hReg{alloc: 1}},
			{kind: "D", ref: P("s")}, {kind: "D", ref: H(4, f("next"))}, {kind: "L", ref: H(5, f("v")), reg: c07hReg{alloc: 1}},
			{kind: "B"}, {kind: "D", ref: P("s")}, {kind: "D", ref: H(8, f("next"))},
			{kind: "A", cls: "gp16"}, {kind: "L", ref: H(9, f("w"), c07step{kind: "i", i: 2}), reg: c07hReg{alloc: 10}},
			{kind: "S", reg: c07hReg{alloc: 1}, ref: c07hRef{handle: -1, sel: c07sel{isRet: true, name: "r0"}}},
			{kind: "F", name: "walk2_" + via, sig: list},
			{kind: "D", ref: P("s")}, {kind: "D", ref: H(14, f("next"))}, {kind: "L", ref: H(15, f("v")), reg: c07hReg{alloc: 1}},
			{kind: "D", ref: P("n")}, {kind: "D", ref: P("s", f("nosuch"))}, {kind: "L", ref: P("s"), reg: c07hReg{alloc: -1, phys: "BX", cls: "gp64"}},
		}
		out = append(out, g)
	}
	return out
}

func init() {
	register("c07h", "C07: histories of calls on one build.Context (several functions, Dereference/Load/Store) vs model + acceptors", func(args []string) error {
		f := newStdFlags("c07h")
		chunk := f.fs.Uint64("chunk", 0, "chunk number mixed into the seed")
		if err := f.fs.Parse(args); err != nil {
			return err
		}
		o, err := openOut(f)
		if err != nil {
			return err
		}
		defer o.close()
		stats := map[string]int{}
		if *f.replay != "" {
			lines, err := readLines(*f.replay)
			if err != nil {
				return err
			}
			seen := map[string]bool{}
			for _, l := range lines {
				if err := c07hReplayLine(o, stats, l, seen); err != nil {
					return fmt.Errorf("replay %q: %v", l, err)
				}
			}
			stats["requests"] = o.count
			return writeJSON(*f.stats, stats)
		}
		for _, ops := range c07hCorpus() {
			h := &c07hRun{ops: ops, via: c07hViaOf(ops)}
			h.run()
			h.emit(o, stats)
			stats["corpus_histories"]++
		}
		g := &c07gen{r: newRng((*f.seed ^ 0xc07a11) + *chunk*0x51ed27), stats: stats}
		for k := 0; k < *f.n; k++ {
			ops := g.hHistory(stats)
			h := &c07hRun{ops: ops, via: c07hViaOf(ops)}
			h.run()
			h.emit(o, stats)
			for _, oc := range h.out {
				if oc.base != nil {
					stats["derefs_with_observed_base"]++
				}
			}
			for i, op := range ops {
				switch op.kind {
				case "D":
					stats["calls_dereference"]++
					if len(h.out[i].emitted) > 0 {
						stats["dereference_emitted_load"]++
					}
				case "L", "S":
					stats["calls_load_store"]++
					if op.ref.handle >= 0 && len(h.out[i].emitted) > 0 {
						stats["load_store_through_handle_emitted"]++
					}
				}
				if h.out[i].err {
					stats["calls_with_error"]++
				}
			}
		}
		stats["requests"] = o.count
		return writeJSON(*f.stats, stats)
	})
}
