package main

import (
	"fmt"
	"strings"

	"github.com/mmcloughlin/avo/ir"
	"github.com/mmcloughlin/avo/operand"
	"github.com/mmcloughlin/avo/pass"
	"github.com/mmcloughlin/avo/printer"
	"github.com/mmcloughlin/avo/reg"
	"github.com/mmcloughlin/avo/x86"
)

// ---------------------------------------------------------------------------
// File-level route (C01, C03): FILES of 1..5 generated functions through the real entry point
// pass.Compile.Execute(file).  The property quantifies over the compiled OUTPUT, i.e. over every function of every
// file; the stream `c01` judges one function at a time.  Here every position of a function that has no valid
// assignment (first / middle / last / several / all / none) is generated, next to functions that compile, and
//   * accept-file : Compile reported success  =>  no function of the file is one for which the real allocation passes,
//                   run on an identical copy of that ONE function, found no valid assignment (Lean: checkFile, sound
//                   for statement FileOK; model theorem compileFile_okB: compileFile ok <=> all functions compile);
//   * Compile reported success => EVERY function of the file is judged by the per-function acceptors on what Compile
//                   left in it: accept-bind (no virtual register in operands/inputs/outputs, shape, class, width,
//                   restricted targets), accept-enc, accept-alloc (Compile's allocation against the liveness of the copy);
//   * accept-print: the text the real Go-assembly printer produces for the compiled file mentions no virtual register.
// An error of Compile is always acceptable.
// ---------------------------------------------------------------------------

type c01fBuilder struct {
	name  string
	fails bool // designed to have no valid assignment / to be rejected by a stage
	build func(r *rng) *ir.Function
}

func c01fAdder(fn *ir.Function, stats map[string]int) func(op string, ops ...operand.Op) {
	return func(op string, ops ...operand.Op) {
		if inst, err := x86.VerifBuild(op, nil, ops); err == nil && inst != nil {
			fn.AddInstruction(inst)
		} else {
			stats["file_build_rejected"]++
		}
	}
}

// c01fPressureGP keeps k general-purpose values (mixed widths: each occupies one register) alive at once.
func c01fPressureGP(r *rng, k int, stats map[string]int) *ir.Function {
	col := reg.NewCollection()
	fn := ir.NewFunction("gp")
	add := c01fAdder(fn, stats)
	type w struct {
		mov string
		imm operand.Op
	}
	var vs []reg.Register
	var ws []w
	for j := 0; j < k; j++ {
		switch r.intn(6) {
		case 0:
			vs, ws = append(vs, col.GP32()), append(ws, w{"MOVL", operand.U32(uint32(j))})
		case 1:
			vs, ws = append(vs, col.GP16()), append(ws, w{"MOVW", operand.U16(uint16(j))})
		case 2:
			vs, ws = append(vs, col.GP8L()), append(ws, w{"MOVB", operand.U8(uint8(j))})
		default:
			vs, ws = append(vs, col.GP64()), append(ws, w{"MOVQ", operand.U64(uint64(j) + 1<<33)})
		}
	}
	for j, v := range vs {
		add(ws[j].mov, ws[j].imm, v)
	}
	for j, v := range vs {
		add(ws[j].mov, v, operand.NewParamAddr("z", 8*j))
	}
	add("RET")
	return fn
}

// c01fPressureVec keeps k vector values (X/Y/Z views) alive at once.
func c01fPressureVec(r *rng, k int, stats map[string]int) *ir.Function {
	col := reg.NewCollection()
	fn := ir.NewFunction("vec")
	add := c01fAdder(fn, stats)
	var vs []reg.Register
	var ops []string
	for j := 0; j < k; j++ {
		switch r.intn(3) {
		case 0:
			vs, ops = append(vs, col.XMM()), append(ops, "MOVOU")
		case 1:
			vs, ops = append(vs, col.YMM()), append(ops, "VMOVDQU")
		default:
			vs, ops = append(vs, col.ZMM()), append(ops, "VMOVDQU64")
		}
	}
	for j, v := range vs {
		add(ops[j], operand.NewParamAddr("x", 0), v)
	}
	for j, v := range vs {
		add(ops[j], v, operand.NewParamAddr("z", 64*j))
	}
	add("RET")
	return fn
}

// c01fPressureK keeps k opmask values alive at once.
func c01fPressureK(r *rng, k int, stats map[string]int) *ir.Function {
	col := reg.NewCollection()
	fn := ir.NewFunction("k")
	add := c01fAdder(fn, stats)
	var vs []reg.Register
	for j := 0; j < k; j++ {
		vs = append(vs, col.K())
	}
	for _, v := range vs {
		add("KMOVQ", operand.NewParamAddr("x", 0), v)
	}
	for j, v := range vs {
		add("KMOVQ", v, operand.NewParamAddr("z", 8*j))
	}
	add("RET")
	return fn
}

// c01fHighBytes keeps the HIGH-BYTE views of k virtual registers alive at once: only A, C, D, B have one, so with
// k >= 5 one of the views cannot be bound, the register stays virtual and VerifyAllocation must report it.
func c01fHighBytes(r *rng, k int, stats map[string]int) *ir.Function {
	col := reg.NewCollection()
	fn := ir.NewFunction("hb")
	add := c01fAdder(fn, stats)
	var vs []reg.Register
	for j := 0; j < k; j++ {
		v := col.GP16()
		vs = append(vs, v)
		add("MOVW", operand.U16(uint16(0x100*j+j)), v)
	}
	for j, v := range vs {
		add("MOVB", asSpec(v, reg.S8H), operand.NewParamAddr("z", j))
	}
	add("RET")
	return fn
}

// c01fRex: a high-byte view of a virtual register next to an author-written register; with R8B..R15B / SIB / DIB the
// instruction needs a REX prefix and cannot encode AH..BH: VerifyAllocation must report it (the function IS bound then).
func c01fRex(r *rng, clash bool, stats map[string]int) *ir.Function {
	col := reg.NewCollection()
	fn := ir.NewFunction("rex")
	add := c01fAdder(fn, stats)
	v := col.GP16()
	add("MOVW", operand.U16(0x1234), v)
	other := pick(r, []reg.Register{reg.CL, reg.DL, reg.BL, reg.AL})
	if clash {
		other = pick(r, []reg.Register{reg.R8B, reg.R9B, reg.R15B, reg.SIB, reg.DIB})
	}
	add("MOVB", operand.U8(1), other)
	add(pick(r, []string{"ADDB", "XORB", "MOVB"}), asSpec(v, reg.S8H), other)
	add("MOVB", other, operand.NewParamAddr("z", 0))
	add("RET")
	return fn
}

// c01fBadLabel: rejected by a stage BEFORE allocation (a jump to a label the function does not define).
func c01fBadLabel(r *rng, stats map[string]int) *ir.Function {
	col := reg.NewCollection()
	fn := ir.NewFunction("lbl")
	add := c01fAdder(fn, stats)
	v := col.GP64()
	add("MOVQ", operand.U64(1), v)
	add("JMP", operand.LabelRef("nowhere"))
	add("MOVQ", v, operand.NewParamAddr("z", 0))
	add("RET")
	return fn
}

func c01fBuilders(db *formsDB, tier string, stats map[string]int) (good, bad []c01fBuilder) {
	good = []c01fBuilder{
		{"fgen", false, func(r *rng) *ir.Function { return newFgen(r.fork(), db, c01GenCfg(r, tier)).generate() }},
		{"fgen", false, func(r *rng) *ir.Function { return newFgen(r.fork(), db, c01GenCfg(r, tier)).generate() }},
		{"fgen", false, func(r *rng) *ir.Function { return newFgen(r.fork(), db, c01GenCfg(r, tier)).generate() }},
		{"gp_fit", false, func(r *rng) *ir.Function { return c01fPressureGP(r, pick(r, []int{1, 3, 8, 14, 15, 15}), stats) }},
		{"vec_fit", false, func(r *rng) *ir.Function { return c01fPressureVec(r, pick(r, []int{2, 16, 31, 32}), stats) }},
		{"k_fit", false, func(r *rng) *ir.Function { return c01fPressureK(r, pick(r, []int{1, 6, 7}), stats) }},
		{"hb_fit", false, func(r *rng) *ir.Function { return c01fHighBytes(r, 1+r.intn(4), stats) }},
		{"rex_fit", false, func(r *rng) *ir.Function { return c01fRex(r, false, stats) }},
		{"rcopy", false, func(r *rng) *ir.Function { return c01RestrictedCopy(r, map[string]int{}) }},
		{"stair", false, func(r *rng) *ir.Function { return c01Staircase(r, 2+r.intn(6)) }},
	}
	bad = []c01fBuilder{
		{"gp_over", true, func(r *rng) *ir.Function { return c01fPressureGP(r, 16+r.intn(5), stats) }},
		{"gp_over", true, func(r *rng) *ir.Function { return c01fPressureGP(r, 16, stats) }},
		{"vec_over", true, func(r *rng) *ir.Function { return c01fPressureVec(r, 33+r.intn(4), stats) }},
		{"k_over", true, func(r *rng) *ir.Function { return c01fPressureK(r, 8+r.intn(3), stats) }},
		{"hb_over", true, func(r *rng) *ir.Function { return c01fHighBytes(r, 5+r.intn(3), stats) }},
		{"rex_clash", true, func(r *rng) *ir.Function { return c01fRex(r, true, stats) }},
		{"bad_label", true, func(r *rng) *ir.Function { return c01fBadLabel(r, stats) }},
	}
	return
}

// c01fPattern decides which of the m functions of a file are built by a failing builder.
func c01fPattern(r *rng, m int) (string, []bool) {
	fails := make([]bool, m)
	p := pick(r, []string{"none", "none", "none", "first", "middle", "last", "several", "all", "notlast"})
	switch p {
	case "first":
		fails[0] = true
	case "middle":
		if m < 3 {
			fails[0] = true
			p = "first"
		} else {
			fails[1+r.intn(m-2)] = true
		}
	case "last":
		fails[m-1] = true
	case "several":
		for j := range fails {
			fails[j] = r.chance(1, 2)
		}
	case "all":
		for j := range fails {
			fails[j] = true
		}
	case "notlast":
		// the error of an EARLIER function must survive the success of every later one
		if m < 2 {
			fails[0] = true
			p = "first"
		} else {
			fails[r.intn(m-1)] = true
		}
	}
	return p, fails
}

func init() {
	register("c01file", "files of 1..5 generated functions through the entry point pass.Compile: file-level and per-function acceptors, printed text (C01, C03)", func(args []string) error {
		f := newStdFlags("c01file")
		if err := f.fs.Parse(args); err != nil {
			return err
		}
		db, err := loadForms(*f.repo)
		if err != nil {
			return err
		}
		o, err := openOut(f)
		if err != nil {
			return err
		}
		defer o.close()
		r := newRng(*f.seed)
		stats := map[string]int{}
		c01UseDefDB, c01UseDefRng = nil, nil
		good, bad := c01fBuilders(db, *f.tier, stats)
		for k := 0; k < *f.n; k++ {
			m := 1 + r.intn(5)
			pattern, fails := c01fPattern(r, m)
			stats["files"]++
			stats[fmt.Sprintf("file_functions:%d", m)]++
			stats["pattern:"+pattern]++
			file := ir.NewFile()
			cases := make([]allocCase, m)
			flags := make([]string, m)
			clones := make([]*ir.Function, m)
			before := make([][]*ir.Instruction, m)
			for j := 0; j < m; j++ {
				b := pick(r, good)
				if fails[j] {
					b = pick(r, bad)
				}
				fn := b.build(r.fork())
				ctxClass := c01Decorate(fn, r.fork())
				clone := c09Clone(fn)
				clone.Name = fmt.Sprintf("f%d", j)
				clone.Attributes, clone.LocalSize, clone.Signature = fn.Attributes, fn.LocalSize, fn.Signature
				clones[j] = clone
				file.AddSection(clone)
				before[j] = clone.Instructions()
				stats["fn_kind:"+b.name]++
				// the per-function route: the real passes one by one on THIS function alone
				c, ok, _ := c01RunPipeline(fn)
				c.contextClass = ctxClass
				cases[j] = c
				for _, l := range c.pre {
					o.emit(l.req, l.resp)
				}
				switch {
				case !ok && b.fails:
					flags[j] = "err" // rejected by a stage before allocation, by construction
				case !ok || c.checkReq == "":
					flags[j] = "unk"
				case strings.HasPrefix(c.outcome, "ok"):
					flags[j] = "ok"
				default:
					flags[j] = "err"
				}
				stats["fn_route:"+flags[j]]++
				if b.fails && flags[j] == "ok" {
					stats["failing_builder_compiled"]++ // a builder that is meant to fail did not: the floors below notice
				}
			}
			// the class of the file by what the per-function route found
			nErr, lastOK, errNotLast := 0, flags[m-1] == "ok", false
			for j, fl := range flags {
				if fl == "err" {
					nErr++
					if j < m-1 {
						errNotLast = true
					}
				}
			}
			switch {
			case nErr == 0:
				stats["class:no_failing_function"]++
			case errNotLast && lastOK:
				stats["class:failing_function_before_a_succeeding_last"]++
			case flags[m-1] == "err" && nErr == 1:
				stats["class:only_the_last_fails"]++
			default:
				stats["class:several_fail"]++
			}
			if flags[0] == "err" && m > 1 {
				stats["class:first_fails_of_several"]++
			}
			if m > 2 {
				for j := 1; j < m-1; j++ {
					if flags[j] == "err" {
						stats["class:a_middle_function_fails"]++
						break
					}
				}
			}
			err, panicked := safely(func() error { return pass.Compile.Execute(file) })
			res := "ok"
			switch {
			case panicked:
				res = "panic"
			case err != nil:
				res = "err"
			}
			stats["compile:"+res]++
			o.emit("accept-file "+itoa(m)+" "+strings.Join(flags, " ")+" => "+res, "ok")
			if res != "ok" {
				continue
			}
			// Compile reported success: every function of the file is judged on what Compile left in it
			for j := 0; j < m; j++ {
				c := cases[j]
				if c.checkReq == "" || len(before[j]) != len(c.orig) {
					stats["compiled_function_not_judged"]++
					continue
				}
				out := encAllocation(clones[j].Allocation)
				o.emit("accept-alloc "+c.checkReq+" => "+out, "ok")
				bindReq, encReq, _, shape := c01BindReqs(c.orig, before[j], "file-shape")
				for _, l := range shape {
					o.emit(l.req, l.resp)
				}
				o.emit("accept-bind "+bindReq+" => "+strings.TrimPrefix(out, "ok "), "ok")
				o.emit("accept-enc "+encReq, "ok")
				stats["compiled_functions_judged"]++
				c01ContextStats(stats, "compiled:", &c)
				if c.nVirt > 0 {
					stats["compiled_functions_judged_with_virtuals"]++
				}
			}
			var text []byte
			perr, ppanic := safely(func() error {
				var e error
				text, e = printer.NewGoAsm(printer.NewDefaultConfig()).Print(file)
				return e
			})
			switch {
			case ppanic:
				o.emit("accept-stage print panic", "ok")
			case perr != nil:
				stats["print_error"]++
			default:
				o.emit("accept-print "+hexs(string(text)), "ok")
				stats["printed_files"]++
				stats["printed_bytes"] += len(text)
			}
		}
		return writeJSON(*f.stats, stats)
	})
}
