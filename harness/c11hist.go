package main

// C11, call histories in one process (model: lean/AvoVerif/Model/PrintHist.lean, theorems Props/C11Hist.lean).
//
// The property speaks about the text the assembly printer emits for a file: it must carry the file's CURRENT
// content.  One generated file -> one Print (the `print` / `accept-print` streams) never looks at an object twice,
// so anything avo remembers inside or about an *ir.File / *ir.Function / *ir.Instruction between two calls is
// invisible there.  Here up to three files live side by side; they are inspected through their public accessors
// (OpcodeWithSuffixes, Instructions, Labels, Stub, FrameBytes, ArgumentBytes, Signature.String, Attributes.Asm,
// operand Asm, the stub printer, pass.LabelTarget), printed, MUTATED IN PLACE (opcode; suffix list of the same or
// another length, replaced or assigned element-wise; operands; flags; labels renamed; comment lines; nodes inserted /
// removed / replaced; name, attributes, signature, local size, ISA, doc, pragmas; includes; constraints; sections
// inserted / removed / replaced; data sections) and printed again by new printer objects, alternating with the other
// files; files are dropped and new ones allocated in their slot.
//
//	hist <n> op…                    exact: per print `<wf>:<hex text>` of the REAL printer vs the model's rendering of
//	                                the state reached by the same operations (Model/PrintHist `run`)
//	accept-hist <n> op… <m> out…    the property on every print: the real text read back against the content the file
//	                                has at that moment (acceptHistE, theorem acceptHist_sound)
//
// What the model is told about a change never comes from the mutated objects: operand texts are taken from the new
// operand values, stub / frame / argument size from a FRESH ir.Function with the same name, signature expression and
// local size, the unconditional-branch flag from a fresh ir.Instruction, the constraint lines from a copy of the
// constraints.  The live objects are only touched by the operations of the history themselves.

import (
	"fmt"
	"sort"
	"strconv"
	"strings"

	"github.com/mmcloughlin/avo/attr"
	"github.com/mmcloughlin/avo/buildtags"
	"github.com/mmcloughlin/avo/gotypes"
	"github.com/mmcloughlin/avo/ir"
	"github.com/mmcloughlin/avo/operand"
	"github.com/mmcloughlin/avo/pass"
	"github.com/mmcloughlin/avo/printer"
	"github.com/mmcloughlin/avo/reg"
	"github.com/mmcloughlin/avo/x86"
)

const c11hSlots = 3

type c11hFile struct {
	f    *ir.File
	kind string                   // "hand" | "ctx"
	sig  map[*ir.Function]string  // signature expression of every function of the file
	obs  int                      // 0 never looked at, 1 inspected, 2 printed
	pend map[string]int           // mutation kind since the last print -> obs level at the time of the mutation
	// another file was printed since the first pending mutation
	interleaved bool
}

type c11hHist struct {
	r         *rng
	st        map[string]int
	malformed bool
	slots     [c11hSlots]*c11hFile
	former    [c11hSlots]bool // a former file of the slot was printed
	toks      []string
	nops      int
	cells     []string // per print: answer of the exact line
	outs      []string // per print: x | hex text
}

// ---------------------------------------------------------------------------
// values derived on fresh objects

func c11hFreshSig(expr string) *gotypes.Signature {
	s, err := gotypes.ParseSignature(expr)
	if err != nil {
		return gotypes.NewSignatureVoid()
	}
	return s
}

// c11hDerived: what Stub / FrameBytes / ArgumentBytes say for a NEW function with these fields.
func c11hDerived(name, sigExpr string, local int) (stub string, frame, args int) {
	tmp := ir.NewFunction(name)
	tmp.SetSignature(c11hFreshSig(sigExpr))
	tmp.LocalSize = local
	return tmp.Stub(), tmp.FrameBytes(), tmp.ArgumentBytes()
}

func c11hUncond(isBranch, isConditional bool) bool {
	tmp := ir.Instruction{IsBranch: isBranch, IsConditional: isConditional}
	return tmp.IsUnconditionalBranch()
}

func c11hCopyConstraints(cs buildtags.Constraints) buildtags.Constraints {
	if cs == nil {
		return nil
	}
	out := make(buildtags.Constraints, len(cs))
	for i, c := range cs {
		out[i] = make(buildtags.Constraint, len(c))
		for j, o := range c {
			out[i][j] = append(buildtags.Option(nil), o...)
		}
	}
	return out
}

func c11hConsLines(cs buildtags.Constraints) ([]string, error) {
	return p11ConstraintLines(&ir.File{Constraints: c11hCopyConstraints(cs)})
}

// ---------------------------------------------------------------------------
// encoding from FIELDS (never through an accessor of a live object)

func c11hEncNode(e *p11Enc, n ir.Node) {
	switch n := n.(type) {
	case *ir.Instruction:
		e.add("i")
		e.str(n.Opcode)
		e.strs(n.Suffixes)
		e.int(len(n.Operands))
		for _, op := range n.Operands {
			e.str(op.Asm())
		}
		e.add(p11B01(n.IsTerminal), p11B01(c11hUncond(n.IsBranch, n.IsConditional)))
	case ir.Label:
		e.add("l")
		e.str(string(n))
	case *ir.Comment:
		e.add("c")
		e.strs(n.Lines)
	default:
		panic(fmt.Sprintf("c11hist: unknown node type %T", n))
	}
}

func (hf *c11hFile) encSection(e *p11Enc, s ir.Section) {
	switch s := s.(type) {
	case *ir.Function:
		stub, frame, args := c11hDerived(s.Name, hf.sig[s], s.LocalSize)
		e.add("fn")
		e.str(s.Name)
		e.int(int(s.Attributes))
		e.int(frame)
		e.int(args)
		e.strs(s.ISA)
		e.str(stub)
		e.strs(s.Doc)
		e.int(len(s.Pragmas))
		for _, p := range s.Pragmas {
			e.str(p.Directive)
			e.strs(p.Arguments)
		}
		e.int(len(s.Nodes))
		for _, n := range s.Nodes {
			c11hEncNode(e, n)
		}
	case *ir.Global:
		e.add("gl")
		e.str(s.Symbol.Name)
		e.add(p11B01(s.Symbol.Static))
		e.int(int(s.Attributes))
		e.int(s.Size)
		e.int(len(s.Data))
		for _, d := range s.Data {
			e.int(d.Offset)
			e.int(d.Value.Bytes())
			e.str(d.Value.Asm())
		}
	default:
		panic(fmt.Sprintf("c11hist: unknown section type %T", s))
	}
}

func (hf *c11hFile) encFile(e *p11Enc) error {
	cons, err := c11hConsLines(hf.f.Constraints)
	if err != nil {
		return err
	}
	e.add(p11B01(len(hf.f.Constraints) > 0))
	e.strs(cons)
	e.strs(hf.f.Includes)
	e.int(len(hf.f.Sections))
	for _, s := range hf.f.Sections {
		hf.encSection(e, s)
	}
	return nil
}

// snapshot: a NEW file with the same field values (new function, instruction and comment objects, new slices).
// Used for the well-formedness bit only.
func (hf *c11hFile) snapshot() *ir.File {
	nf := ir.NewFile()
	nf.Constraints = c11hCopyConstraints(hf.f.Constraints)
	nf.Includes = append([]string(nil), hf.f.Includes...)
	for _, s := range hf.f.Sections {
		switch s := s.(type) {
		case *ir.Function:
			g := ir.NewFunction(s.Name)
			g.Attributes = s.Attributes
			g.SetSignature(c11hFreshSig(hf.sig[s]))
			g.LocalSize = s.LocalSize
			g.ISA = append([]string(nil), s.ISA...)
			g.Doc = append([]string(nil), s.Doc...)
			for _, p := range s.Pragmas {
				g.Pragmas = append(g.Pragmas, ir.Pragma{Directive: p.Directive, Arguments: append([]string(nil), p.Arguments...)})
			}
			for _, n := range s.Nodes {
				switch n := n.(type) {
				case *ir.Instruction:
					g.Nodes = append(g.Nodes, &ir.Instruction{Opcode: n.Opcode, Suffixes: append([]string(nil), n.Suffixes...),
						Operands: append([]operand.Op(nil), n.Operands...), IsTerminal: n.IsTerminal, IsBranch: n.IsBranch, IsConditional: n.IsConditional})
				case ir.Label:
					g.Nodes = append(g.Nodes, n)
				case *ir.Comment:
					g.Nodes = append(g.Nodes, ir.NewComment(append([]string(nil), n.Lines...)...))
				}
			}
			nf.AddSection(g)
		case *ir.Global:
			ng := *s
			ng.Data = append([]ir.Datum(nil), s.Data...)
			nf.AddSection(&ng)
		}
	}
	return nf
}

// ---------------------------------------------------------------------------
// generators of parts

var c11hErOpcodes = []string{"VADDPD", "VADDPS", "VMULPD", "VMULPS", "VSUBPD", "VSUBPS", "VDIVPD", "VFMADD231PD", "VFMADD132PS", "VSCALEFPD"}
var c11hErModes = []string{"RN_SAE", "RZ_SAE", "RU_SAE", "RD_SAE"}

// c11hSuffixInstr: an AVX-512 instruction with a suffix list (embedded rounding, zeroing, broadcast), through the real
// constructor table when it accepts the form, assembled by hand otherwise.
func c11hSuffixInstr(r *rng, st map[string]int) *ir.Instruction {
	op := pick(r, c11hErOpcodes)
	z := func() reg.Register { return pick(r, p11ZmmRegs) }
	var sfx []string
	var ops []operand.Op
	switch r.intn(6) {
	case 0, 1:
		sfx, ops = []string{pick(r, c11hErModes)}, []operand.Op{z(), z(), z()}
	case 2:
		sfx, ops = []string{pick(r, c11hErModes), "Z"}, []operand.Op{z(), z(), pick(r, p11KRegs), z()}
	case 3:
		sfx, ops = []string{"Z"}, []operand.Op{z(), z(), pick(r, p11KRegs), z()}
	case 4:
		sfx, ops = []string{"BCST"}, []operand.Op{operand.Mem{Base: pick(r, p11GpRegs64)}, z(), z()}
	default:
		sfx, ops = []string{"BCST", "Z"}, []operand.Op{operand.Mem{Base: pick(r, p11GpRegs64)}, z(), pick(r, p11KRegs), z()}
	}
	if i, err := x86.VerifBuild(op, sfx, ops); err == nil && i != nil {
		st["hist_suffix_instr_ctor"]++
		c11hUnshare(i)
		return i
	}
	st["hist_suffix_instr_hand"]++
	return &ir.Instruction{Opcode: op, Suffixes: sfx, Operands: ops}
}

// c11hUnshare gives the instruction its own suffix and operand slices (the constructors install shared suffix lists,
// which must never be assigned element-wise).
func c11hUnshare(i *ir.Instruction) {
	i.Suffixes = append([]string(nil), i.Suffixes...)
	i.Operands = append([]operand.Op(nil), i.Operands...)
}

func (h *c11hHist) genInstr() *ir.Instruction {
	r := h.r
	if r.chance(1, 3) {
		return c11hSuffixInstr(r, h.st)
	}
	src := p11GenInstr(r, h.st)
	// a private object: constructors may hand out shared slices
	i := &ir.Instruction{Opcode: src.Opcode, Suffixes: append([]string(nil), src.Suffixes...), Operands: append([]operand.Op(nil), src.Operands...),
		IsTerminal: src.IsTerminal, IsBranch: src.IsBranch, IsConditional: src.IsConditional}
	if h.malformed && r.chance(1, 8) {
		i.Opcode = pick(r, []string{"", "A B", "//X", "A\nB", " "})
	}
	return i
}

func (h *c11hHist) genLabel() ir.Label {
	if h.malformed && h.r.chance(1, 5) {
		return ir.Label(pick(h.r, []string{"", "\tx", "//c", "TEXT ·f(SB), $0", "a\nb", "DATA x", "GLOBL y", "#include z", "sp ace", "%d"}))
	}
	return ir.Label(pick(h.r, p11LabelPool))
}

func (h *c11hHist) genComment() *ir.Comment {
	ls := p11GenCommentLines(h.r)
	if h.malformed && h.r.chance(1, 5) {
		ls = append(ls, pick(h.r, []string{"two\nlines", "cr\r", "nl\n"}))
	}
	return ir.NewComment(ls...)
}

func (h *c11hHist) genNode() ir.Node {
	switch h.r.intn(10) {
	case 0, 1:
		return h.genLabel()
	case 2:
		return h.genComment()
	default:
		return h.genInstr()
	}
}

func (h *c11hHist) genSuffixes(n int) []string {
	s := make([]string, n)
	for j := range s {
		s[j] = pick(h.r, p11SuffixPool[:6])
	}
	if n >= 1 && h.r.chance(2, 3) {
		s[0] = pick(h.r, c11hErModes)
	}
	if h.malformed && n > 0 && h.r.chance(1, 8) {
		s[h.r.intn(n)] = pick(h.r, []string{"", " ", "\n", "."})
	}
	return s
}

var c11hOpcodePool = []string{"ADDQ", "MOVQ", "VADDPD", "VMULPD", "VPTERNLOGQ", "X", "VGATHERPF0DPD", "NOP", "VCVTTPS2UQQ", "VFMADD231PD", "PCLMULQDQ", "opé", "A_B", "VSUBPS"}

// ---------------------------------------------------------------------------
// new files

func c11hEqStrs(a, b []string) bool {
	if len(a) != len(b) {
		return false
	}
	for i := range a {
		if a[i] != b[i] {
			return false
		}
	}
	return true
}

// registerFn records the signature expression of a function and gives every instruction and comment of it its own
// slices.
func (hf *c11hFile) registerFn(r *rng, fn *ir.Function) {
	expr := "func" + fn.Signature.String()
	if _, err := gotypes.ParseSignature(expr); err != nil {
		expr = pick(r, p11SigPool)
		fn.SetSignature(c11hFreshSig(expr))
	}
	hf.sig[fn] = expr
	for _, n := range fn.Nodes {
		switch n := n.(type) {
		case *ir.Instruction:
			c11hUnshare(n)
		case *ir.Comment:
			n.Lines = append([]string(nil), n.Lines...)
		}
	}
}

func (h *c11hHist) newFile() *c11hFile {
	r, st := h.r, h.st
	hf := &c11hFile{sig: map[*ir.Function]string{}, pend: map[string]int{}}
	if !h.malformed && r.chance(1, 3) {
		// a program built through build.Context and compiled by the real pass pipeline
		scratch := map[string]int{}
		c := p11GenAsmProgram(r, scratch)
		if file, err := c.ctx.Result(); err == nil && pass.Compile.Execute(file) == nil {
			hf.f, hf.kind = file, "ctx"
		}
	}
	if hf.f == nil {
		hf.f, hf.kind = p11GenFile(r, st, h.malformed), "hand"
		if len(hf.f.Functions()) == 0 && r.chance(4, 5) {
			hf.f.AddSection(p11GenFunction(r, st, h.malformed, len(hf.f.Sections)))
		}
		if fns := hf.f.Functions(); len(fns) > 0 && r.chance(1, 25) {
			p11SpliceLongRun(r, st, pick(r, fns))
		}
	}
	st["hist_files_"+hf.kind]++
	fns := hf.f.Functions()
	// instructions with suffix lists
	if len(fns) > 0 && r.chance(3, 4) {
		for k := r.rangeIn(1, 4); k > 0; k-- {
			fn := pick(r, fns)
			at := r.intn(len(fn.Nodes) + 1)
			nodes := append([]ir.Node{}, fn.Nodes[:at]...)
			nodes = append(nodes, c11hSuffixInstr(r, st))
			fn.Nodes = append(nodes, fn.Nodes[at:]...)
		}
	}
	for _, fn := range fns {
		hf.registerFn(r, fn)
	}
	return hf
}

// ---------------------------------------------------------------------------
// operations

func (h *c11hHist) op(toks ...string) {
	h.toks = append(h.toks, toks...)
	h.nops++
	h.st["hist_ops"]++
}

func (h *c11hHist) opNew(i int, hf *c11hFile) bool {
	e := &p11Enc{}
	if err := hf.encFile(e); err != nil {
		h.st["hist_encode_error"]++
		return false
	}
	if old := h.slots[i]; old != nil && old.obs == 2 {
		h.former[i] = true
	}
	h.slots[i] = hf
	h.op(append([]string{"N", itoa(i)}, e.toks...)...)
	return true
}

func (h *c11hHist) opDrop(i int) {
	if old := h.slots[i]; old != nil && old.obs == 2 {
		h.former[i] = true
	}
	h.slots[i] = nil
	h.st["hist_drops"]++
	h.op("D", itoa(i))
}

func c11hQuiet(f func()) {
	defer func() { _ = recover() }()
	f()
}

// opInspect looks at the whole file through public accessors; the results are thrown away.
func (h *c11hHist) opInspect(i, what int) {
	hf := h.slots[i]
	h.op("I", itoa(i), itoa(what))
	if hf == nil {
		return
	}
	h.st["hist_inspects"]++
	h.st[fmt.Sprintf("hist_inspect_%d", what)]++
	sink := 0
	ows := func() {
		for _, s := range hf.f.Sections {
			if fn, ok := s.(*ir.Function); ok {
				for _, n := range fn.Nodes {
					if in, ok := n.(*ir.Instruction); ok {
						sink += len(in.OpcodeWithSuffixes())
					}
				}
			}
		}
	}
	lists := func() {
		for _, fn := range hf.f.Functions() {
			for _, in := range fn.Instructions() {
				sink += len(in.OpcodeWithSuffixes())
			}
			sink += len(fn.Labels())
		}
	}
	heads := func() {
		for _, s := range hf.f.Sections {
			switch s := s.(type) {
			case *ir.Function:
				sink += len(s.Stub()) + s.FrameBytes() + s.ArgumentBytes() + len(s.Signature.String()) + len(s.Attributes.Asm())
				if s.Attributes.ContainsTextFlags() {
					sink++
				}
			case *ir.Global:
				sink += len(s.Base().Asm()) + len(s.Attributes.Asm())
			}
		}
	}
	stubs := func() {
		b, _ := printer.NewStubs(printer.Config{Name: "avo", Pkg: "p"}).Print(hf.f)
		sink += len(b)
	}
	operands := func() {
		for _, fn := range hf.f.Functions() {
			for _, in := range fn.Instructions() {
				for _, op := range in.Operands {
					sink += len(op.Asm())
				}
				if in.TargetLabel() != nil || in.IsUnconditionalBranch() {
					sink++
				}
			}
		}
	}
	labeltarget := func() {
		for _, fn := range hf.f.Functions() {
			fn := fn
			c11hQuiet(func() { _ = pass.LabelTarget(fn) })
		}
	}
	var todo []func()
	switch what {
	case 0:
		todo = []func(){ows}
	case 1:
		todo = []func(){lists}
	case 2:
		todo = []func(){heads}
	case 3:
		todo = []func(){stubs}
	case 4:
		todo = []func(){operands}
	case 5:
		todo = []func(){labeltarget}
	default:
		todo = []func(){ows, lists, heads, stubs, operands, labeltarget}
	}
	for _, f := range todo {
		c11hQuiet(f)
	}
	_ = sink
	if hf.obs < 1 {
		hf.obs = 1
	}
}

func (h *c11hHist) opPrint(i int) {
	r, st := h.r, h.st
	cfg := p11GenConfig(r)
	e := &p11Enc{}
	p11EncodeCfg(e, cfg)
	h.op(append([]string{"P", itoa(i)}, e.toks...)...)
	hf := h.slots[i]
	if hf == nil {
		h.cells = append(h.cells, "nofile")
		h.outs = append(h.outs, "x")
		st["hist_prints_nofile"]++
		return
	}
	text, status := p11PrintAsm(cfg, hf.f)
	wf := p11WellFormedFile(cfg, hf.snapshot())
	st["hist_prints"]++
	st["hist_print_"+status]++
	if wf {
		st["hist_prints_wellformed"]++
	}
	if status == "ok" {
		h.cells = append(h.cells, p11B01(wf)+":"+hexs(text))
		h.outs = append(h.outs, hexs(text))
	} else {
		h.cells = append(h.cells, p11B01(wf)+":"+status)
		h.outs = append(h.outs, "x")
	}
	// coverage: which kinds of change this print follows, and what had been seen of the file before the change
	kinds := make([]string, 0, len(hf.pend))
	for k := range hf.pend {
		kinds = append(kinds, k)
	}
	sort.Strings(kinds)
	lowest := 3
	for _, k := range kinds {
		if hf.pend[k] < lowest {
			lowest = hf.pend[k]
		}
		switch hf.pend[k] {
		case 2:
			st["reprint_"+k]++
		case 1:
			st["inspected_then_"+k]++
		default:
			st["unseen_then_"+k]++
		}
	}
	switch lowest {
	case 1:
		st["hist_inspected_then_changed"]++ // the only look at the file before the change was an inspection
	case 0:
		st["hist_unseen_then_changed"]++
	}
	switch {
	case len(kinds) > 0 && hf.obs == 2:
		st["hist_reprint_changed"]++
		if hf.interleaved {
			st["hist_reprint_changed_interleaved"]++
		}
	case len(kinds) == 0 && hf.obs == 2:
		st["hist_reprint_unchanged"]++
	}
	if h.former[i] && hf.obs < 2 {
		st["hist_realloc_printed"]++
		h.former[i] = false
	}
	hf.pend = map[string]int{}
	hf.interleaved = false
	hf.obs = 2
	for j, other := range h.slots {
		if j != i && other != nil && len(other.pend) > 0 {
			other.interleaved = true
		}
	}
	nsfx := 0
	for _, fn := range hf.f.Functions() {
		for _, n := range fn.Nodes {
			if in, ok := n.(*ir.Instruction); ok && len(in.Suffixes) > 0 {
				nsfx++
			}
		}
	}
	if nsfx > 0 {
		st["hist_prints_with_suffix_instrs"]++
	}
}

// edit records one model edit of slot i.
func (h *c11hHist) edit(i int, toks ...string) {
	h.op(append([]string{"E", itoa(i)}, toks...)...)
	h.st["hist_edits"]++
}

func (h *c11hHist) fnEdit(i, k int, toks ...string) {
	h.edit(i, append([]string{"fn", itoa(k)}, toks...)...)
}

func (h *c11hHist) mark(i int, kind string) {
	hf := h.slots[i]
	if _, ok := hf.pend[kind]; !ok {
		hf.pend[kind] = hf.obs
	}
	h.st["mut_"+kind]++
}

func c11hStrs(ss []string) []string {
	e := &p11Enc{}
	e.strs(ss)
	return e.toks
}

func c11hOps(ops []operand.Op) []string {
	e := &p11Enc{}
	e.int(len(ops))
	for _, op := range ops {
		e.str(op.Asm())
	}
	return e.toks
}

func c11hNodeToks(n ir.Node) []string {
	e := &p11Enc{}
	c11hEncNode(e, n)
	return e.toks
}

type c11hTarget struct {
	k  int // section index
	fn *ir.Function
}

func (hf *c11hFile) functions() []c11hTarget {
	var out []c11hTarget
	for k, s := range hf.f.Sections {
		if fn, ok := s.(*ir.Function); ok {
			out = append(out, c11hTarget{k, fn})
		}
	}
	return out
}

func c11hNodeIdx(fn *ir.Function, want func(ir.Node) bool) []int {
	var out []int
	for i, n := range fn.Nodes {
		if want(n) {
			out = append(out, i)
		}
	}
	return out
}

func c11hIsInstr(n ir.Node) bool   { _, ok := n.(*ir.Instruction); return ok }
func c11hIsLabel(n ir.Node) bool   { _, ok := n.(ir.Label); return ok }
func c11hIsComment(n ir.Node) bool { _, ok := n.(*ir.Comment); return ok }
func c11hHasSuffix(n ir.Node) bool {
	in, ok := n.(*ir.Instruction)
	return ok && len(in.Suffixes) > 0
}

// pickInstr: a function with an instruction satisfying want, and the node index of one.
func (h *c11hHist) pickNode(i int, want func(ir.Node) bool) (c11hTarget, int, bool) {
	var cands []c11hTarget
	for _, t := range h.slots[i].functions() {
		if len(c11hNodeIdx(t.fn, want)) > 0 {
			cands = append(cands, t)
		}
	}
	if len(cands) == 0 {
		return c11hTarget{}, 0, false
	}
	t := pick(h.r, cands)
	return t, pick(h.r, c11hNodeIdx(t.fn, want)), true
}

// instrAt returns the instruction object of node n — directly, or as a user pass would find it, through Instructions().
func (h *c11hHist) instrAt(i int, t c11hTarget, n int) *ir.Instruction {
	in := t.fn.Nodes[n].(*ir.Instruction)
	if h.r.chance(1, 4) {
		h.op("I", itoa(i), "1")
		for _, x := range t.fn.Instructions() {
			if x == in {
				h.st["hist_via_instructions"]++
				if h.slots[i].obs < 1 {
					h.slots[i].obs = 1
				}
				return x
			}
		}
	}
	return in
}

// --- mutations: each performs the change on the live objects and records the model edit(s); false = not applicable

func (h *c11hHist) mutOpcode(i int) bool {
	t, n, ok := h.pickNode(i, c11hIsInstr)
	if !ok {
		return false
	}
	in := h.instrAt(i, t, n)
	nw := pick(h.r, c11hOpcodePool)
	if h.malformed && h.r.chance(1, 6) {
		nw = pick(h.r, []string{"", "A B", "//X", "A\nB"})
	}
	if nw == in.Opcode {
		nw += "X"
	}
	in.Opcode = nw
	h.fnEdit(i, t.k, "iop", itoa(n), hexs(nw))
	h.mark(i, "opcode")
	return true
}

// mutSuffixSame: another suffix list of the SAME length (a new slice, or element-wise on the instruction's own slice).
func (h *c11hHist) mutSuffixSame(i int) bool {
	t, n, ok := h.pickNode(i, c11hHasSuffix)
	if !ok {
		return false
	}
	in := h.instrAt(i, t, n)
	var nw []string
	for tries := 0; ; tries++ {
		nw = h.genSuffixes(len(in.Suffixes))
		if !c11hEqStrs(nw, in.Suffixes) {
			break
		}
		if tries > 8 {
			nw[0] = in.Suffixes[0] + "X"
			break
		}
	}
	kind := "suffix_same_len"
	if h.r.chance(1, 3) {
		copy(in.Suffixes, nw)
		kind = "suffix_same_len_inplace"
	} else {
		in.Suffixes = nw
	}
	h.fnEdit(i, t.k, append([]string{"isuf", itoa(n)}, c11hStrs(nw)...)...)
	h.mark(i, kind)
	return true
}

func (h *c11hHist) mutSuffixLen(i int) bool {
	t, n, ok := h.pickNode(i, c11hIsInstr)
	if !ok {
		return false
	}
	in := h.instrAt(i, t, n)
	ln := h.r.intn(4)
	if ln == len(in.Suffixes) {
		ln = (ln + 1) % 4
	}
	var nw []string
	kind := "suffix_other_len"
	if len(in.Suffixes) > 1 && h.r.chance(1, 3) {
		ln = h.r.rangeIn(1, len(in.Suffixes)-1)
	}
	switch {
	case ln == 0 && h.r.chance(1, 2):
		nw = nil
	case ln < len(in.Suffixes) && h.r.chance(2, 3):
		nw = in.Suffixes[:ln] // the same backing array, shorter
		kind = "suffix_truncated"
	default:
		nw = h.genSuffixes(ln)
	}
	in.Suffixes = nw
	h.fnEdit(i, t.k, append([]string{"isuf", itoa(n)}, c11hStrs(nw)...)...)
	h.mark(i, kind)
	return true
}

func (h *c11hHist) genOperand() operand.Op {
	if h.malformed && h.r.chance(1, 6) {
		return p11RawOp(pick(h.r, []string{"", " x", "a\nb", ", ", "%d"}))
	}
	return p11GenOp(h.r)
}

func (h *c11hHist) mutOperands(i int) bool {
	t, n, ok := h.pickNode(i, c11hIsInstr)
	if !ok {
		return false
	}
	in := h.instrAt(i, t, n)
	kind := "operands_other_len"
	switch {
	case len(in.Operands) > 0 && h.r.chance(1, 3):
		in.Operands[h.r.intn(len(in.Operands))] = h.genOperand()
		kind = "operands_inplace"
	case len(in.Operands) > 0 && h.r.chance(1, 2):
		nw := make([]operand.Op, len(in.Operands))
		for j := range nw {
			nw[j] = h.genOperand()
		}
		in.Operands = nw
		kind = "operands_same_len"
	default:
		ln := h.r.intn(5)
		if ln == len(in.Operands) {
			ln = (ln + 1) % 5
		}
		var nw []operand.Op
		for j := 0; j < ln; j++ {
			nw = append(nw, h.genOperand())
		}
		in.Operands = nw
	}
	h.fnEdit(i, t.k, append([]string{"iops", itoa(n)}, c11hOps(in.Operands)...)...)
	h.mark(i, kind)
	return true
}

func (h *c11hHist) mutFlags(i int) bool {
	t, n, ok := h.pickNode(i, c11hIsInstr)
	if !ok {
		return false
	}
	in := h.instrAt(i, t, n)
	switch h.r.intn(3) {
	case 0:
		in.IsTerminal = !in.IsTerminal
	case 1:
		in.IsBranch = !in.IsBranch
	default:
		in.IsBranch, in.IsConditional = true, !in.IsConditional
	}
	h.fnEdit(i, t.k, "iflg", itoa(n), p11B01(in.IsTerminal), p11B01(c11hUncond(in.IsBranch, in.IsConditional)))
	h.mark(i, "flags")
	return true
}

func (h *c11hHist) mutLabelRename(i int) bool {
	t, n, ok := h.pickNode(i, c11hIsLabel)
	if !ok {
		return false
	}
	old := t.fn.Nodes[n].(ir.Label)
	nw := h.genLabel()
	if nw == old {
		nw += "_2"
	}
	t.fn.Nodes[n] = nw
	h.fnEdit(i, t.k, append([]string{"nset", itoa(n)}, c11hNodeToks(nw)...)...)
	h.mark(i, "label_rename")
	// the references, as a rename would do it: the first operand of branches to the old label
	if h.r.chance(1, 2) {
		for m, nd := range t.fn.Nodes {
			in, ok := nd.(*ir.Instruction)
			if !ok || len(in.Operands) == 0 {
				continue
			}
			if ref, ok := in.Operands[0].(operand.LabelRef); ok && string(ref) == string(old) {
				in.Operands[0] = operand.LabelRef(string(nw))
				h.fnEdit(i, t.k, append([]string{"iops", itoa(m)}, c11hOps(in.Operands)...)...)
				h.st["mut_label_refs"]++
			}
		}
	}
	return true
}

func (h *c11hHist) mutComment(i int) bool {
	t, n, ok := h.pickNode(i, c11hIsComment)
	if !ok {
		return false
	}
	c := t.fn.Nodes[n].(*ir.Comment)
	nw := h.genComment().Lines
	if len(c.Lines) > 0 && h.r.chance(1, 3) {
		c.Lines[h.r.intn(len(c.Lines))] = pick(h.r, p11CommentPool) + "!"
	} else {
		if c11hEqStrs(nw, c.Lines) {
			nw = append(nw, "changed")
		}
		c.Lines = nw
	}
	h.fnEdit(i, t.k, append([]string{"nset", itoa(n)}, c11hNodeToks(c)...)...)
	h.mark(i, "comment_lines")
	return true
}

func (h *c11hHist) pickFn(i int) (c11hTarget, bool) {
	fns := h.slots[i].functions()
	if len(fns) == 0 {
		return c11hTarget{}, false
	}
	return pick(h.r, fns), true
}

func (h *c11hHist) mutNodeInsert(i int) bool {
	t, ok := h.pickFn(i)
	if !ok {
		return false
	}
	fn := t.fn
	at := h.r.intn(len(fn.Nodes) + 1)
	if h.r.chance(1, 3) {
		at = len(fn.Nodes)
	}
	nd := h.genNode()
	if at == len(fn.Nodes) {
		// through the public API
		switch x := nd.(type) {
		case *ir.Instruction:
			fn.AddInstruction(x)
		case ir.Label:
			fn.AddLabel(x)
		case *ir.Comment:
			if h.r.chance(1, 2) {
				fn.AddComment(x.Lines...)
				nd = fn.Nodes[len(fn.Nodes)-1]
			} else {
				fn.AddNode(x)
			}
		}
	} else {
		nodes := append([]ir.Node{}, fn.Nodes[:at]...)
		nodes = append(nodes, nd)
		fn.Nodes = append(nodes, fn.Nodes[at:]...)
	}
	h.fnEdit(i, t.k, append([]string{"nins", itoa(at)}, c11hNodeToks(nd)...)...)
	h.mark(i, "node_insert")
	return true
}

func (h *c11hHist) mutNodeRemove(i int) bool {
	t, n, ok := h.pickNode(i, func(ir.Node) bool { return true })
	if !ok {
		return false
	}
	fn := t.fn
	if h.r.chance(1, 2) {
		fn.Nodes = append(fn.Nodes[:n], fn.Nodes[n+1:]...) // in the same backing array
	} else {
		nodes := append([]ir.Node{}, fn.Nodes[:n]...)
		fn.Nodes = append(nodes, fn.Nodes[n+1:]...)
	}
	h.fnEdit(i, t.k, "ndel", itoa(n))
	h.mark(i, "node_remove")
	return true
}

func (h *c11hHist) mutNodeReplace(i int) bool {
	t, n, ok := h.pickNode(i, func(ir.Node) bool { return true })
	if !ok {
		return false
	}
	nd := h.genNode()
	t.fn.Nodes[n] = nd
	h.fnEdit(i, t.k, append([]string{"nset", itoa(n)}, c11hNodeToks(nd)...)...)
	h.mark(i, "node_replace")
	return true
}

func (h *c11hHist) mutNodesAll(i int) bool {
	t, ok := h.pickFn(i)
	if !ok {
		return false
	}
	var nodes []ir.Node
	for k := h.r.intn(9); k > 0; k-- {
		nodes = append(nodes, h.genNode())
	}
	t.fn.Nodes = nodes
	e := &p11Enc{}
	e.int(len(nodes))
	for _, n := range nodes {
		c11hEncNode(e, n)
	}
	h.fnEdit(i, t.k, append([]string{"nodes"}, e.toks...)...)
	h.mark(i, "nodes_all")
	return true
}

func (h *c11hHist) mutFnName(i int) bool {
	t, ok := h.pickFn(i)
	if !ok {
		return false
	}
	nw := pick(h.r, p11NamePool)
	if h.malformed && h.r.chance(1, 5) {
		nw = pick(h.r, []string{"", "f(x)", "a b", "n\nl", "%d"})
	}
	if nw == t.fn.Name {
		nw += "2"
	}
	t.fn.Name = nw
	stub, _, _ := c11hDerived(nw, h.slots[i].sig[t.fn], t.fn.LocalSize)
	h.fnEdit(i, t.k, "name", hexs(nw))
	h.fnEdit(i, t.k, "stub", hexs(stub))
	h.mark(i, "fn_name")
	return true
}

func (h *c11hHist) mutFnAttrs(i int) bool {
	t, ok := h.pickFn(i)
	if !ok {
		return false
	}
	nw := p11GenAttr(h.r)
	if nw == t.fn.Attributes {
		nw ^= attr.NOSPLIT
	}
	t.fn.Attributes = nw
	h.fnEdit(i, t.k, "attrs", itoa(int(nw)))
	h.mark(i, "fn_attrs")
	return true
}

func (h *c11hHist) mutFnSignature(i int) bool {
	t, ok := h.pickFn(i)
	if !ok {
		return false
	}
	hf := h.slots[i]
	expr := pick(h.r, p11SigPool)
	if expr == hf.sig[t.fn] {
		expr = "func(changed uint16) (r [3]byte)"
	}
	t.fn.SetSignature(c11hFreshSig(expr))
	hf.sig[t.fn] = expr
	stub, _, args := c11hDerived(t.fn.Name, expr, t.fn.LocalSize)
	h.fnEdit(i, t.k, "stub", hexs(stub))
	h.fnEdit(i, t.k, "args", itoa(args))
	h.mark(i, "fn_signature")
	return true
}

func (h *c11hHist) mutFnLocal(i int) bool {
	t, ok := h.pickFn(i)
	if !ok {
		return false
	}
	if h.r.chance(1, 2) {
		t.fn.AllocLocal(8 * h.r.rangeIn(1, 40))
	} else {
		nw := 8 * h.r.intn(64)
		if nw == t.fn.LocalSize {
			nw += 8
		}
		if h.malformed && h.r.chance(1, 4) {
			nw = -h.r.rangeIn(1, 100)
		}
		t.fn.LocalSize = nw
	}
	_, frame, _ := c11hDerived(t.fn.Name, h.slots[i].sig[t.fn], t.fn.LocalSize)
	h.fnEdit(i, t.k, "frame", itoa(frame))
	h.mark(i, "fn_localsize")
	return true
}

// c11hMutList changes a string list: an element in place, an append, a replacement or emptying it.
func c11hMutList(r *rng, cur []string, pool []string) []string {
	switch {
	case len(cur) > 0 && r.chance(1, 3):
		j := r.intn(len(cur))
		nw := pick(r, pool)
		if nw == cur[j] {
			nw += "x"
		}
		cur[j] = nw
		return cur
	case r.chance(1, 3):
		return append(cur, pick(r, pool))
	case len(cur) > 0 && r.chance(1, 3):
		return nil
	default:
		var nw []string
		for k := r.rangeIn(1, 3); k > 0; k-- {
			nw = append(nw, pick(r, pool))
		}
		if c11hEqStrs(nw, cur) {
			nw = append(nw, pick(r, pool))
		}
		return nw
	}
}

func (h *c11hHist) mutFnISA(i int) bool {
	t, ok := h.pickFn(i)
	if !ok {
		return false
	}
	t.fn.ISA = c11hMutList(h.r, t.fn.ISA, p11IsaPool)
	h.fnEdit(i, t.k, append([]string{"isa"}, c11hStrs(t.fn.ISA)...)...)
	h.mark(i, "fn_isa")
	return true
}

func (h *c11hHist) mutFnDoc(i int) bool {
	t, ok := h.pickFn(i)
	if !ok {
		return false
	}
	if h.r.chance(1, 2) {
		t.fn.Doc = c11hMutList(h.r, t.fn.Doc, p11DocPool)
		h.fnEdit(i, t.k, append([]string{"doc"}, c11hStrs(t.fn.Doc)...)...)
	} else {
		if len(t.fn.Pragmas) > 0 && h.r.chance(1, 3) {
			t.fn.Pragmas = nil
		} else {
			t.fn.AddPragma(pick(h.r, []string{"noescape", "nosplit", "norace"}))
		}
		e := &p11Enc{}
		e.int(len(t.fn.Pragmas))
		for _, p := range t.fn.Pragmas {
			e.str(p.Directive)
			e.strs(p.Arguments)
		}
		h.fnEdit(i, t.k, append([]string{"prag"}, e.toks...)...)
	}
	h.mark(i, "fn_doc_pragmas")
	return true
}

func (h *c11hHist) mutIncludes(i int) bool {
	f := h.slots[i].f
	pool := []string{"textflag.h", "a.h", "dir/b.h", "go_asm.h", "funcdata.h"}
	if h.malformed {
		pool = append(pool, "", "a\"b", "x\ny", "%s")
	}
	f.Includes = c11hMutList(h.r, f.Includes, pool)
	h.edit(i, append([]string{"incl"}, c11hStrs(f.Includes)...)...)
	h.mark(i, "includes")
	return true
}

func (h *c11hHist) mutConstraints(i int) bool {
	f := h.slots[i].f
	old := c11hCopyConstraints(f.Constraints)
	switch {
	case len(f.Constraints) > 0 && h.r.chance(1, 4):
		f.Constraints = nil
	case len(f.Constraints) > 0 && h.r.chance(1, 3):
		if c, err := buildtags.ParseConstraint(pick(h.r, p11ConstraintPool)); err == nil {
			f.Constraints[h.r.intn(len(f.Constraints))] = c
		}
	case h.r.chance(1, 2):
		if c, err := buildtags.ParseConstraint(pick(h.r, p11ConstraintPool)); err == nil {
			f.Constraints = append(f.Constraints, c)
		}
	default:
		f.Constraints = p11GenConstraints(h.r)
	}
	cons, err := c11hConsLines(f.Constraints)
	if err != nil {
		f.Constraints = old
		return false
	}
	h.edit(i, append([]string{"cons", p11B01(len(f.Constraints) > 0)}, c11hStrs(cons)...)...)
	h.mark(i, "constraints")
	return true
}

func (h *c11hHist) genSection(hf *c11hFile, idx int) ir.Section {
	if h.r.chance(7, 10) {
		fn := p11GenFunction(h.r, h.st, h.malformed, idx)
		if h.r.chance(1, 2) {
			fn.Nodes = append(fn.Nodes, c11hSuffixInstr(h.r, h.st))
		}
		hf.registerFn(h.r, fn)
		return fn
	}
	return p11GenGlobal(h.r, h.malformed, idx)
}

func (hf *c11hFile) secToks(s ir.Section) []string {
	e := &p11Enc{}
	hf.encSection(e, s)
	return e.toks
}

func (h *c11hHist) mutSecInsert(i int) bool {
	hf := h.slots[i]
	f := hf.f
	if len(f.Sections) >= 8 {
		return false
	}
	at := h.r.intn(len(f.Sections) + 1)
	s := h.genSection(hf, len(f.Sections))
	if at == len(f.Sections) || h.r.chance(1, 3) {
		at = len(f.Sections)
		f.AddSection(s)
	} else {
		secs := append([]ir.Section{}, f.Sections[:at]...)
		secs = append(secs, s)
		f.Sections = append(secs, f.Sections[at:]...)
	}
	h.edit(i, append([]string{"secins", itoa(at)}, hf.secToks(s)...)...)
	h.mark(i, "sec_insert")
	return true
}

func (h *c11hHist) mutSecRemove(i int) bool {
	f := h.slots[i].f
	if len(f.Sections) == 0 {
		return false
	}
	k := h.r.intn(len(f.Sections))
	f.Sections = append(f.Sections[:k], f.Sections[k+1:]...)
	h.edit(i, "secdel", itoa(k))
	h.mark(i, "sec_remove")
	return true
}

func (h *c11hHist) mutSecReplace(i int) bool {
	hf := h.slots[i]
	f := hf.f
	if len(f.Sections) == 0 {
		return false
	}
	k := h.r.intn(len(f.Sections))
	s := h.genSection(hf, k)
	f.Sections[k] = s
	h.edit(i, append([]string{"secset", itoa(k)}, hf.secToks(s)...)...)
	h.mark(i, "sec_replace")
	return true
}

func (h *c11hHist) mutData(i int) bool {
	hf := h.slots[i]
	var cands []int
	for k, s := range hf.f.Sections {
		if _, ok := s.(*ir.Global); ok {
			cands = append(cands, k)
		}
	}
	if len(cands) == 0 {
		return false
	}
	k := pick(h.r, cands)
	g := hf.f.Sections[k].(*ir.Global)
	switch h.r.intn(5) {
	case 0:
		g.Attributes = p11GenAttr(h.r)
	case 1:
		g.Append(p11GenConst(h.r))
	case 2:
		if len(g.Data) > 0 {
			g.Data[h.r.intn(len(g.Data))].Value = p11GenConst(h.r)
		} else {
			g.Append(p11GenConst(h.r))
		}
	case 3:
		g.Symbol = operand.Symbol{Name: pick(h.r, []string{"tbl", "consts", "k", "·pub", "renamed"}), Static: h.r.chance(1, 2)}
	default:
		g.Grow(g.Size + 8*h.r.rangeIn(1, 8))
	}
	h.edit(i, append([]string{"secset", itoa(k)}, hf.secToks(g)...)...)
	h.mark(i, "data")
	return true
}

type c11hMut struct {
	name string
	run  func(h *c11hHist, i int) bool
}

var c11hMuts = []c11hMut{
	{"opcode", (*c11hHist).mutOpcode},
	{"suffix_same", (*c11hHist).mutSuffixSame}, {"suffix_same", (*c11hHist).mutSuffixSame}, {"suffix_same", (*c11hHist).mutSuffixSame},
	{"suffix_len", (*c11hHist).mutSuffixLen}, {"suffix_len", (*c11hHist).mutSuffixLen},
	{"operands", (*c11hHist).mutOperands}, {"operands", (*c11hHist).mutOperands},
	{"flags", (*c11hHist).mutFlags},
	{"label_rename", (*c11hHist).mutLabelRename},
	{"comment", (*c11hHist).mutComment},
	{"node_insert", (*c11hHist).mutNodeInsert},
	{"node_remove", (*c11hHist).mutNodeRemove},
	{"node_replace", (*c11hHist).mutNodeReplace},
	{"nodes_all", (*c11hHist).mutNodesAll},
	{"fn_name", (*c11hHist).mutFnName},
	{"fn_attrs", (*c11hHist).mutFnAttrs},
	{"fn_signature", (*c11hHist).mutFnSignature},
	{"fn_local", (*c11hHist).mutFnLocal},
	{"fn_isa", (*c11hHist).mutFnISA},
	{"fn_doc", (*c11hHist).mutFnDoc},
	{"includes", (*c11hHist).mutIncludes},
	{"constraints", (*c11hHist).mutConstraints},
	{"sec_insert", (*c11hHist).mutSecInsert},
	{"sec_remove", (*c11hHist).mutSecRemove},
	{"sec_replace", (*c11hHist).mutSecReplace},
	{"data", (*c11hHist).mutData},
}

func (h *c11hHist) mutate(i int) bool {
	for tries := 0; tries < 6; tries++ {
		if pick(h.r, c11hMuts).run(h, i) {
			return true
		}
	}
	return false
}

// ---------------------------------------------------------------------------
// histories

func (h *c11hHist) live() []int {
	var out []int
	for i, s := range h.slots {
		if s != nil {
			out = append(out, i)
		}
	}
	return out
}

func (h *c11hHist) emit(o *out) {
	st := h.st
	st["hist_requests"]++
	cells := "-"
	if len(h.cells) > 0 {
		cells = strings.Join(h.cells, " ")
	}
	req := itoa(h.nops) + " " + strings.Join(h.toks, " ")
	o.emit("hist "+req, cells)
	o.emit("accept-hist "+req+" "+itoa(len(h.outs))+" "+strings.Join(h.outs, " "), "ok")
}

// c11hRandom: one generated history.
func c11hRandom(r *rng, st map[string]int, malformed bool, o *out) {
	h := &c11hHist{r: r, st: st, malformed: malformed}
	if malformed {
		st["hist_malformed"]++
	}
	nslots := r.rangeIn(1, c11hSlots)
	target := r.rangeIn(8, 26)
	for tries := 0; len(h.live()) == 0 && tries < 4; tries++ {
		h.opNew(0, h.newFile())
	}
	if len(h.live()) == 0 {
		return
	}
	for h.nops < target {
		lv := h.live()
		if len(lv) == 0 {
			h.opNew(r.intn(nslots), h.newFile())
			continue
		}
		i := pick(r, lv)
		switch x := r.intn(100); {
		case x < 6:
			h.opNew(r.intn(nslots), h.newFile())
		case x < 9:
			h.opDrop(i)
			if r.chance(1, 3) {
				h.opPrint(i) // a print of an empty slot: nothing to show
			}
		case x < 22:
			h.opInspect(i, r.intn(7))
		case x < 42:
			h.opPrint(i)
		default:
			// a change, usually looked at before and printed afterwards
			if h.slots[i].obs == 0 && r.chance(3, 4) {
				if r.chance(1, 2) {
					h.opPrint(i)
				} else {
					h.opInspect(i, r.intn(7))
				}
			}
			for k := r.rangeIn(1, 3); k > 0; k-- {
				h.mutate(i)
			}
			if r.chance(4, 5) {
				if r.chance(1, 4) {
					h.opInspect(i, r.intn(7))
				}
				if others := h.live(); len(others) > 1 && r.chance(1, 4) {
					h.opPrint(pick(r, others))
				}
				h.opPrint(i)
				if r.chance(1, 5) {
					h.opPrint(i)
				}
			}
		}
	}
	// every file is printed once more at the end
	for _, i := range h.live() {
		if len(h.slots[i].pend) > 0 || r.chance(1, 3) {
			h.opPrint(i)
		}
	}
	h.emit(o)
}

// c11hFixed: the fixed part of every run — for each kind of change the three shapes
//
//	print, change, print   |   inspect, change, print   |   change, print
//
// on a generated file (k selects kind and shape).
func c11hFixed(r *rng, st map[string]int, k int, o *out) {
	h := &c11hHist{r: r, st: st}
	m := c11hMuts[(k/3)%len(c11hMuts)]
	// a file on which the change applies
	for tries := 0; tries < 20; tries++ {
		hf := h.newFile()
		h.slots[0] = hf
		probe := &c11hHist{r: newRng(1), st: map[string]int{}, slots: h.slots}
		if c11hApplicable(probe, m.name) {
			break
		}
	}
	hf := h.slots[0]
	h.slots[0] = nil
	if !h.opNew(0, hf) {
		return
	}
	switch k % 3 {
	case 0:
		h.opPrint(0)
	case 1:
		h.opInspect(0, 6)
	}
	if !m.run(h, 0) {
		st["hist_fixed_not_applicable"]++
	}
	h.opPrint(0)
	h.emit(o)
}

// c11hApplicable: whether the file in slot 0 has a target for the kind of change (without changing anything).
func c11hApplicable(h *c11hHist, name string) bool {
	hf := h.slots[0]
	has := func(want func(ir.Node) bool) bool {
		for _, t := range hf.functions() {
			if len(c11hNodeIdx(t.fn, want)) > 0 {
				return true
			}
		}
		return false
	}
	switch name {
	case "suffix_same":
		return has(c11hHasSuffix)
	case "opcode", "suffix_len", "operands", "flags":
		return has(c11hIsInstr)
	case "label_rename":
		return has(c11hIsLabel)
	case "comment":
		return has(c11hIsComment)
	case "node_remove", "node_replace":
		return has(func(ir.Node) bool { return true })
	case "data":
		for _, s := range hf.f.Sections {
			if _, ok := s.(*ir.Global); ok {
				return true
			}
		}
		return false
	case "sec_remove", "sec_replace":
		return len(hf.f.Sections) > 0
	case "includes", "constraints", "sec_insert":
		return true
	default:
		return len(hf.functions()) > 0
	}
}

func init() {
	register("c11hist", "assembly printer over call histories: inspect / print / mutate in place / print again", func(args []string) error {
		f := newStdFlags("c11hist")
		if err := f.fs.Parse(args); err != nil {
			return err
		}
		o, err := openOut(f)
		if err != nil {
			return err
		}
		defer o.close()
		st := map[string]int{}
		if lines, ok := p11CorpusLines(*f.replay); ok {
			// corpus: `hist <seed> <malformed 0|1>` regenerates one history from its own seed
			for _, l := range lines {
				fs := strings.Fields(l)
				if len(fs) != 3 || fs[0] != "hist" {
					continue
				}
				seed, err := strconv.ParseUint(fs[1], 10, 64)
				if err != nil {
					return fmt.Errorf("corpus line %q: %v", l, err)
				}
				c11hRandom(newRng(seed), st, fs[2] == "1", o)
			}
			return writeJSON(*f.stats, st)
		}
		r := newRng(*f.seed ^ 0x11c11)
		nfixed := 3 * len(c11hMuts)
		for k := 0; k < *f.n; k++ {
			if k < nfixed {
				c11hFixed(r.fork(), st, k, o)
				continue
			}
			c11hRandom(r.fork(), st, k%6 == 5, o)
		}
		return writeJSON(*f.stats, st)
	})
}
