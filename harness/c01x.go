package main

import (
	"bytes"
	"fmt"
	"os"
	"os/exec"
	"path/filepath"
	"strings"

	"github.com/mmcloughlin/avo/build"
	"github.com/mmcloughlin/avo/ir"
	"github.com/mmcloughlin/avo/operand"
	"github.com/mmcloughlin/avo/pass"
	"github.com/mmcloughlin/avo/printer"
	"github.com/mmcloughlin/avo/reg"
	"github.com/mmcloughlin/avo/x86"
)

// ---------------------------------------------------------------------------
// C01, measured end to end: differential execution on the CPU of
//   (A) the function compiled by avo's real pipeline (allocator under test), and
//   (B) the SAME virtual-register program with every virtual register given its
//       own private storage (a stack slot), each instruction operating on scratch
//       registers loaded from / stored to those slots,
// on random argument values.  This is the property statement taken literally.
// ---------------------------------------------------------------------------

const c01xSig = "func(a0, a1, a2, a3 uint64) (r0, r1, r2, r3 uint64)"

// c01xOp is one abstract instruction of the generated program: opcode + operands, where a register operand is
// either a virtual (index into the program's virtual list, with a view spec) or a physical register.
type c01xOperand struct {
	virt  int      // >= 0: virtual number
	spec  reg.Spec // view of the virtual
	phys  reg.Register
	imm   operand.Op
	label string
	mem   *c01xMem
}

type c01xMem struct {
	base, index int // virtual numbers (-1 none)
	scale       uint8
	disp        int
}

type c01xInstr struct {
	label  string // a label placed before this instruction ("" none)
	opcode string
	ops    []c01xOperand
}

type c01xProg struct {
	nvirt  int
	instrs []c01xInstr
	rets   [4]int // virtuals stored to r0..r3
}

type c01xGen struct {
	r       *rng
	p       *c01xProg
	defined []uint16 // defined lanes per virtual
	physDef map[reg.ID]uint16
	flags   bool
	allow8H bool
	nlabel  int
	depth   int
	pending []string // forward labels to place
}

var c01xWidths = []struct {
	s      reg.Spec
	suffix string
}{{reg.S64, "Q"}, {reg.S32, "L"}, {reg.S16, "W"}, {reg.S8L, "B"}}

func (g *c01xGen) emit(opcode string, ops ...c01xOperand) {
	in := c01xInstr{opcode: opcode, ops: ops}
	g.p.instrs = append(g.p.instrs, in)
}

func cv(v int, s reg.Spec) c01xOperand { return c01xOperand{virt: v, spec: s} }
func cp(r reg.Register) c01xOperand    { return c01xOperand{virt: -1, phys: r} }
func ci(op operand.Op) c01xOperand     { return c01xOperand{virt: -1, imm: op} }

// readable returns a virtual whose lanes of spec s are all defined (or -1).
func (g *c01xGen) readable(s reg.Spec) int {
	var c []int
	for v, d := range g.defined {
		if d&s.Mask() == s.Mask() {
			c = append(c, v)
		}
	}
	if len(c) == 0 {
		return -1
	}
	return pick(g.r, c)
}

func (g *c01xGen) def(v int, s reg.Spec) {
	m := s.Mask()
	if s == reg.S32 {
		m = reg.S64.Mask()
	}
	g.defined[v] |= m
}

func (g *c01xGen) immFor(s reg.Spec) operand.Op {
	x := g.r.u64()
	if g.r.chance(1, 3) {
		x = uint64(g.r.intn(5))
	}
	switch s {
	case reg.S8L, reg.S8H:
		return operand.U8(uint8(x))
	case reg.S16:
		return operand.U16(uint16(x))
	default:
		return operand.U32(uint32(x) & 0x7fffffff)
	}
}

var c01xCond = []string{"EQ", "NE", "LT", "GE", "CS", "CC", "HI", "LS", "MI", "PL"}

func (g *c01xGen) step() {
	r := g.r
	w := pick(r, c01xWidths)
	any := func() int { return r.intn(g.p.nvirt) }
	nk := 24
	if g.depth > 0 {
		nk = 22 // no nested control-flow shapes
	}
	switch k := r.intn(nk); k {
	case 22: // unconditional jump to the label that follows it (pruned by the clean-up pass), possibly with the
		// target of an earlier branch placed in between: `JMP done; other: done:`
		l := fmt.Sprintf("L%d", g.nlabel)
		g.nlabel++
		g.emit("JMP", c01xOperand{virt: -1, label: l})
		if len(g.pending) > 0 && r.chance(1, 2) {
			g.p.instrs = append(g.p.instrs, c01xInstr{label: g.pending[0]})
			g.pending = g.pending[1:]
		}
		g.p.instrs = append(g.p.instrs, c01xInstr{label: l})
		g.flags = false
	case 23: // if/else diamond: Jcc else; then...; JMP end; else: ...; end:
		if !g.flags {
			return
		}
		le, ld := fmt.Sprintf("L%d", g.nlabel), fmt.Sprintf("L%d", g.nlabel+1)
		g.nlabel += 2
		g.emit("J"+pick(r, c01xCond), c01xOperand{virt: -1, label: le})
		g.depth++
		for n := r.intn(4); n > 0; n-- {
			g.step()
		}
		g.emit("JMP", c01xOperand{virt: -1, label: ld})
		g.p.instrs = append(g.p.instrs, c01xInstr{label: le})
		g.flags = false
		for n := r.intn(4); n > 0; n-- {
			g.step()
		}
		g.depth--
		g.p.instrs = append(g.p.instrs, c01xInstr{label: ld})
		g.flags = false
	case 0, 1: // define / overwrite from immediate
		v := any()
		if w.s == reg.S64 {
			g.emit("MOVQ", ci(operand.U64(r.u64())), cv(v, reg.S64))
		} else {
			g.emit("MOV"+w.suffix, ci(g.immFor(w.s)), cv(v, w.s))
		}
		g.def(v, w.s)
	case 2, 3: // register move
		s := g.readable(w.s)
		if s < 0 {
			return
		}
		v := any()
		g.emit("MOV"+w.suffix, cv(s, w.s), cv(v, w.s))
		g.def(v, w.s)
	case 4, 5, 6, 7: // two-operand arithmetic (dst read-write)
		d := g.readable(w.s)
		if d < 0 {
			return
		}
		op := pick(r, []string{"ADD", "SUB", "XOR", "AND", "OR"})
		if r.chance(1, 3) {
			g.emit(op+w.suffix, ci(g.immFor(w.s)), cv(d, w.s))
		} else {
			s := g.readable(w.s)
			if s < 0 {
				return
			}
			g.emit(op+w.suffix, cv(s, w.s), cv(d, w.s))
		}
		g.def(d, w.s)
		g.flags = true
	case 8: // unary
		d := g.readable(w.s)
		if d < 0 {
			return
		}
		op := pick(r, []string{"NOT", "NEG", "INC", "DEC"})
		g.emit(op+w.suffix, cv(d, w.s))
		g.def(d, w.s)
		if op == "NEG" {
			g.flags = true
		}
	case 9: // zero / sign extension into a fresh or existing virtual
		type ext struct {
			op   string
			from reg.Spec
			to   reg.Spec
		}
		e := pick(r, []ext{{"MOVBQZX", reg.S8L, reg.S64}, {"MOVWQZX", reg.S16, reg.S64}, {"MOVBLZX", reg.S8L, reg.S32},
			{"MOVLQSX", reg.S32, reg.S64}, {"MOVBQSX", reg.S8L, reg.S64}, {"MOVWLSX", reg.S16, reg.S32}})
		s := g.readable(e.from)
		if s < 0 {
			return
		}
		v := any()
		g.emit(e.op, cv(s, e.from), cv(v, e.to))
		g.def(v, e.to)
	case 10: // LEAQ
		b, i := g.readable(reg.S64), g.readable(reg.S64)
		if b < 0 || i < 0 {
			return
		}
		v := any()
		g.emit("LEAQ", c01xOperand{virt: -1, mem: &c01xMem{base: b, index: i, scale: pick(r, []uint8{1, 2, 4, 8}), disp: r.intn(64) - 16}}, cv(v, reg.S64))
		g.def(v, reg.S64)
	case 11: // shifts by immediate
		d := g.readable(reg.S64)
		if d < 0 {
			return
		}
		g.emit(pick(r, []string{"SHLQ", "SHRQ", "SARQ", "ROLQ", "RORQ"}), ci(operand.U8(uint8(1+r.intn(62)))), cv(d, reg.S64))
		g.flags = false
	case 12: // IMULQ
		d, s := g.readable(reg.S64), g.readable(reg.S64)
		if d < 0 || s < 0 {
			return
		}
		g.emit("IMULQ", cv(s, reg.S64), cv(d, reg.S64))
		g.flags = false
	case 13: // BSWAP
		d := g.readable(reg.S64)
		if d < 0 {
			return
		}
		g.emit("BSWAPQ", cv(d, reg.S64))
	case 14: // compare
		a, b := g.readable(w.s), g.readable(w.s)
		if a < 0 || b < 0 {
			return
		}
		g.emit(pick(r, []string{"CMP", "TEST"})+w.suffix, cv(a, w.s), cv(b, w.s))
		g.flags = true
	case 15: // conditional move / set / add with carry
		if !g.flags {
			return
		}
		switch r.intn(3) {
		case 0:
			d, s := g.readable(reg.S64), g.readable(reg.S64)
			if d < 0 || s < 0 {
				return
			}
			g.emit("CMOVQ"+pick(r, c01xCond), cv(s, reg.S64), cv(d, reg.S64))
		case 1:
			v := any()
			g.emit("SET"+pick(r, c01xCond), cv(v, reg.S8L))
			g.def(v, reg.S8L)
		default:
			d, s := g.readable(reg.S64), g.readable(reg.S64)
			if d < 0 || s < 0 {
				return
			}
			g.emit(pick(r, []string{"ADCQ", "SBBQ"}), cv(s, reg.S64), cv(d, reg.S64))
		}
	case 16: // forward conditional branch over the next few instructions
		if !g.flags || len(g.pending) > 2 {
			return
		}
		l := fmt.Sprintf("L%d", g.nlabel)
		g.nlabel++
		g.emit("J"+pick(r, c01xCond), c01xOperand{virt: -1, label: l})
		g.pending = append(g.pending, l)
	case 17: // MULQ through the implicit registers
		a, b := g.readable(reg.S64), g.readable(reg.S64)
		if a < 0 || b < 0 {
			return
		}
		lo, hi := any(), any()
		g.emit("MOVQ", cv(a, reg.S64), cp(reg.RAX))
		g.emit("MULQ", cv(b, reg.S64))
		g.emit("MOVQ", cp(reg.RAX), cv(lo, reg.S64))
		g.def(lo, reg.S64)
		if r.chance(2, 3) { // sometimes leave RDX dead
			g.emit("MOVQ", cp(reg.RDX), cv(hi, reg.S64))
			g.def(hi, reg.S64)
		}
		g.flags = false
	case 18: // shift by CL
		d, c := g.readable(reg.S64), g.readable(reg.S64)
		if d < 0 || c < 0 {
			return
		}
		g.emit("MOVQ", cv(c, reg.S64), cp(reg.RCX))
		g.emit(pick(r, []string{"SHLQ", "SHRQ"}), cp(reg.CL), cv(d, reg.S64))
		g.flags = false
	case 19: // high-byte views of one virtual
		d := g.readable(reg.S16)
		if d < 0 || !g.allow8H {
			return
		}
		switch r.intn(5) {
		case 3: // self-cancelling opcode on two different bytes of one register: both are read
			g.emit(pick(r, []string{"XORB", "SUBB"}), cv(d, reg.S8H), cv(d, reg.S8L))
			g.flags = true
		case 4:
			g.emit(pick(r, []string{"XORB", "SUBB"}), cv(d, reg.S8L), cv(d, reg.S8H))
			g.flags = true
		case 0:
			g.emit("MOVB", cv(d, reg.S8H), cv(d, reg.S8L))
		case 1:
			g.emit("ADDB", cv(d, reg.S8L), cv(d, reg.S8H))
			g.flags = true
		default:
			g.emit("MOVB", ci(operand.U8(uint8(r.u64()))), cv(d, reg.S8H))
		}
	case 20: // XCHG
		a, b := g.readable(reg.S64), g.readable(reg.S64)
		if a < 0 || b < 0 || a == b {
			return
		}
		g.emit("XCHGQ", cv(a, reg.S64), cv(b, reg.S64))
	case 21: // XORQ v, v: self-cancelling definition
		v := any()
		g.emit("XORQ", cv(v, reg.S64), cv(v, reg.S64))
		g.def(v, reg.S64)
		g.flags = true
	}
}

func c01xGenerate(r *rng) *c01xProg {
	p := &c01xProg{nvirt: 4 + r.intn(16)}
	if r.chance(1, 4) {
		p.nvirt = 14 + r.intn(6) // around the size of the register file
	}
	g := &c01xGen{r: r, p: p, defined: make([]uint16, p.nvirt), physDef: map[reg.ID]uint16{}, allow8H: r.chance(1, 3)}
	// the four arguments are loaded by the prologue into virtuals 0..3
	for v := 0; v < 4; v++ {
		g.defined[v] = reg.S64.Mask()
	}
	n := 5 + r.intn(60)
	for k := 0; k < n; k++ {
		before := len(p.instrs)
		g.step()
		// place pending forward labels after a few instructions; a join makes flags and conditional definitions unknown
		if len(g.pending) > 0 && len(p.instrs) > before && r.chance(1, 3) {
			l := g.pending[0]
			g.pending = g.pending[1:]
			p.instrs = append(p.instrs, c01xInstr{label: l, opcode: ""})
			g.flags = false
		}
	}
	for _, l := range g.pending {
		p.instrs = append(p.instrs, c01xInstr{label: l, opcode: ""})
	}
	// results: prefer fully defined virtuals
	for i := range p.rets {
		v := g.readable(reg.S64)
		if v < 0 {
			v = i
		}
		p.rets[i] = v
	}
	return p
}

// c01xDefinedAtJoin: definitions made inside a conditionally skipped region must not be relied upon afterwards.
// The generator handles this conservatively by construction: every virtual is pre-defined in the prologue (see build).

// build emits the program into ctx in one of two modes.
func (p *c01xProg) build(ctx *build.Context, name string, private bool) error {
	ctx.Function(name)
	ctx.SignatureExpr(c01xSig)
	scratchPool := []reg.Register{reg.R8, reg.R9, reg.R10, reg.R11, reg.R12, reg.R13, reg.R14, reg.R15}
	var virt []reg.GPVirtual
	var slots []operand.Mem
	for v := 0; v < p.nvirt; v++ {
		if private {
			slots = append(slots, ctx.AllocLocal(8))
		} else {
			virt = append(virt, ctx.GP64())
		}
	}
	add := func(opcode string, ops ...operand.Op) error {
		inst, err := x86.VerifBuild(opcode, nil, ops)
		if err != nil || inst == nil {
			return fmt.Errorf("cannot build %s %v: %v", opcode, ops, err)
		}
		ctx.Instruction(inst)
		return nil
	}
	// prologue: every virtual gets a defined value (arguments, then a mix of them) so that no execution path reads
	// an undefined byte, whatever branches are taken
	args := []string{"a0", "a1", "a2", "a3"}
	for v := 0; v < p.nvirt; v++ {
		comp, err := ctx.Param(args[v%4]).Resolve()
		if err != nil {
			return err
		}
		if private {
			if err := add("MOVQ", comp.Addr, reg.R8); err != nil {
				return err
			}
			if v >= 4 {
				if err := add("ADDQ", operand.U32(uint32(v)*0x01010101), reg.R8); err != nil {
					return err
				}
			}
			if err := add("MOVQ", reg.R8, slots[v]); err != nil {
				return err
			}
		} else {
			if err := add("MOVQ", comp.Addr, virt[v]); err != nil {
				return err
			}
			if v >= 4 {
				if err := add("ADDQ", operand.U32(uint32(v)*0x01010101), virt[v]); err != nil {
					return err
				}
			}
		}
	}
	// a defined flags state at entry of the body
	if err := add("XORL", reg.EAX, reg.EAX); err != nil {
		return err
	}
	for _, in := range p.instrs {
		if in.label != "" {
			ctx.Label(in.label)
			continue
		}
		// virtuals used by this instruction, in order of first occurrence
		var used []int
		note := func(v int) {
			for _, u := range used {
				if u == v {
					return
				}
			}
			used = append(used, v)
		}
		for _, o := range in.ops {
			if o.virt >= 0 {
				note(o.virt)
			}
			if o.mem != nil {
				note(o.mem.base)
				note(o.mem.index)
			}
		}
		regOf := func(v int, s reg.Spec) reg.Register {
			if !private {
				return asSpec(virt[v], s)
			}
			for k, u := range used {
				if u == v {
					if s == reg.S8H { // only one virtual per instruction has a high-byte view (by construction)
						return asSpec(reg.RBX, s)
					}
					return asSpec(scratchPool[k], s)
				}
			}
			panic("unreachable")
		}
		// a virtual used through a high-byte view lives in RBX for this instruction, in all its views
		hb := -1
		for _, o := range in.ops {
			if o.virt >= 0 && o.spec == reg.S8H {
				hb = o.virt
			}
		}
		regOf2 := func(v int, s reg.Spec) reg.Register {
			if private && v == hb {
				return asSpec(reg.RBX, s)
			}
			return regOf(v, s)
		}
		if private {
			for _, v := range used {
				if err := add("MOVQ", slots[v], regOf2(v, reg.S64)); err != nil {
					return err
				}
			}
		}
		var ops []operand.Op
		for _, o := range in.ops {
			switch {
			case o.virt >= 0:
				ops = append(ops, regOf2(o.virt, o.spec))
			case o.phys != nil:
				ops = append(ops, o.phys)
			case o.imm != nil:
				ops = append(ops, o.imm)
			case o.label != "":
				ops = append(ops, operand.LabelRef(o.label))
			case o.mem != nil:
				ops = append(ops, operand.Mem{Base: regOf2(o.mem.base, reg.S64), Index: regOf2(o.mem.index, reg.S64), Scale: o.mem.scale, Disp: o.mem.disp})
			}
		}
		if err := add(in.opcode, ops...); err != nil {
			return err
		}
		if private {
			for _, v := range used {
				if err := add("MOVQ", regOf2(v, reg.S64), slots[v]); err != nil {
					return err
				}
			}
		}
	}
	rets := []string{"r0", "r1", "r2", "r3"}
	for i, v := range p.rets {
		comp, err := ctx.Return(rets[i]).Resolve()
		if err != nil {
			return err
		}
		if private {
			if err := add("MOVQ", slots[v], reg.R8); err != nil {
				return err
			}
			if err := add("MOVQ", reg.R8, comp.Addr); err != nil {
				return err
			}
		} else if err := add("MOVQ", virt[v], comp.Addr); err != nil {
			return err
		}
	}
	return add("RET")
}

func (p *c01xProg) describe() string {
	var b strings.Builder
	fmt.Fprintf(&b, "nvirt=%d;", p.nvirt)
	for _, in := range p.instrs {
		if in.label != "" {
			fmt.Fprintf(&b, "%s:;", in.label)
			continue
		}
		b.WriteString(in.opcode)
		for _, o := range in.ops {
			switch {
			case o.virt >= 0:
				fmt.Fprintf(&b, ",v%d/%d", o.virt, o.spec.Mask())
			case o.phys != nil:
				fmt.Fprintf(&b, ",%s/%d", o.phys.Asm(), o.phys.Mask())
			case o.imm != nil:
				fmt.Fprintf(&b, ",%s", o.imm.Asm())
			case o.label != "":
				fmt.Fprintf(&b, ",%s", o.label)
			case o.mem != nil:
				fmt.Fprintf(&b, ",[v%d+v%d*%d%+d]", o.mem.base, o.mem.index, o.mem.scale, o.mem.disp)
			}
		}
		b.WriteString(";")
	}
	fmt.Fprintf(&b, "ret=%v", p.rets)
	return b.String()
}

const c01xMain = `package main

import (
	"fmt"
	"os"
)

type fn func(a0, a1, a2, a3 uint64) (r0, r1, r2, r3 uint64)

func main() {
	seed := uint64(%d)
	next := func() uint64 {
		seed += 0x9E3779B97F4A7C15
		z := seed
		z = (z ^ (z >> 30)) * 0xBF58476D1CE4E5B9
		z = (z ^ (z >> 27)) * 0x94D049BB133111EB
		return z ^ (z >> 31)
	}
	special := []uint64{0, 1, ^uint64(0), 1 << 63, 0x7fffffffffffffff, 0xff, 0x100, 0xffffffff, 0x100000000}
	for i, p := range pairs {
		for t := 0; t < %d; t++ {
			var a [4]uint64
			for k := range a {
				if next()%%4 == 0 {
					a[k] = special[next()%%uint64(len(special))]
				} else {
					a[k] = next()
				}
			}
			x0, x1, x2, x3 := p[0](a[0], a[1], a[2], a[3])
			y0, y1, y2, y3 := p[1](a[0], a[1], a[2], a[3])
			if x0 != y0 || x1 != y1 || x2 != y2 || x3 != y3 {
				fmt.Printf("%%d DIFF %%x %%x %%x %%x => %%x %%x %%x %%x vs %%x %%x %%x %%x\n", i, a[0], a[1], a[2], a[3], x0, x1, x2, x3, y0, y1, y2, y3)
				break
			}
			if t == %d-1 {
				fmt.Printf("%%d SAME\n", i)
			}
		}
	}
	os.Exit(0)
}
`

func init() {
	register("c01x", "C01 measured: avo-compiled vs private-storage execution on the CPU", func(args []string) error {
		f := newStdFlags("c01x")
		dir := f.fs.String("dir", "c01x-gen", "scratch directory for the generated module")
		trials := f.fs.Int("trials", 64, "argument vectors per program")
		if err := f.fs.Parse(args); err != nil {
			return err
		}
		o, err := openOut(f)
		if err != nil {
			return err
		}
		defer o.close()
		r := newRng(*f.seed)
		stats := map[string]int{}
		ctx := build.NewContext()
		var progs []*c01xProg
		var names []string
		for k := 0; k < *f.n; k++ {
			p := c01xGenerate(r.fork())
			// compile the virtual-register version alone first: allocation may legitimately fail with an error
			probe := build.NewContext()
			if err := p.build(probe, "probe", false); err != nil {
				return err
			}
			pf, perr := probe.Result()
			if perr != nil {
				return fmt.Errorf("builder error: %v", perr)
			}
			cerr, panicked := safely(func() error { return pass.Compile.Execute(pf) })
			if panicked {
				o.emit(fmt.Sprintf("accept-exec %d panic %s", k, hexs(p.describe())), "ok")
				stats["panic"]++
				continue
			}
			if cerr != nil {
				stats["compile_error:"+strings.ReplaceAll(cerr.Error(), " ", "_")]++
				continue
			}
			if err := p.build(ctx, fmt.Sprintf("A%d", len(progs)), false); err != nil {
				return err
			}
			if err := p.build(ctx, fmt.Sprintf("B%d", len(progs)), true); err != nil {
				return err
			}
			progs = append(progs, p)
			names = append(names, fmt.Sprint(k))
			stats["programs"]++
			stats["instructions"] += len(p.instrs)
			stats["virtuals"] += p.nvirt
		}
		if len(progs) == 0 {
			// nothing survived compilation: the check's floor on `programs` reports it
			return writeJSON(*f.stats, stats)
		}
		file, err := ctx.Result()
		if err != nil {
			return fmt.Errorf("builder error: %v", err)
		}
		if err := pass.Compile.Execute(file); err != nil {
			return fmt.Errorf("compile of the batch failed: %v", err)
		}
		cfg := printer.Config{Name: "avoh c01x", Pkg: "main"}
		asm, err := printer.NewGoAsm(cfg).Print(file)
		if err != nil {
			return err
		}
		stubs, err := printer.NewStubs(cfg).Print(file)
		if err != nil {
			return err
		}
		os.RemoveAll(*dir)
		if err := os.MkdirAll(*dir, 0o755); err != nil {
			return err
		}
		var pairs strings.Builder
		pairs.WriteString("package main\n\nvar pairs = [][2]fn{\n")
		for i := range progs {
			fmt.Fprintf(&pairs, "\t{A%d, B%d},\n", i, i)
		}
		pairs.WriteString("}\n")
		files := map[string][]byte{
			"go.mod":      []byte("module c01x\n\ngo 1.23\n"),
			"fns_amd64.s": asm,
			"stubs.go":    stubs,
			"pairs.go":    []byte(pairs.String()),
			"main.go":     []byte(fmt.Sprintf(c01xMain, *f.seed, *trials, *trials)),
		}
		for n, b := range files {
			if err := os.WriteFile(filepath.Join(*dir, n), b, 0o644); err != nil {
				return err
			}
		}
		cmd := exec.Command("go", "build", "-o", "c01x.bin", ".")
		cmd.Dir = *dir
		cmd.Env = append(envForGo(), "GOFLAGS=-mod=mod")
		if out, err := cmd.CombinedOutput(); err != nil {
			return fmt.Errorf("go build of generated module failed: %v\n%s", err, out)
		}
		run := exec.Command("./c01x.bin")
		run.Dir = *dir
		var outb bytes.Buffer
		run.Stdout = &outb
		run.Stderr = &outb
		rerr := run.Run()
		seen := map[int]bool{}
		for _, line := range strings.Split(outb.String(), "\n") {
			fs := strings.Fields(line)
			if len(fs) < 2 {
				continue
			}
			var i int
			if _, err := fmt.Sscanf(fs[0], "%d", &i); err != nil || i < 0 || i >= len(progs) {
				continue
			}
			seen[i] = true
			if fs[1] == "SAME" {
				o.emit(fmt.Sprintf("accept-exec %s same %s", names[i], hexs(progs[i].describe())), "ok")
				stats["same"]++
				stats["judged"]++
			} else {
				o.emit(fmt.Sprintf("accept-exec %s diff:%s %s", names[i], strings.Join(fs[2:], "_"), hexs(progs[i].describe())), "ok")
				stats["diff"]++
				stats["judged"]++
			}
		}
		for i := range progs {
			if !seen[i] {
				o.emit(fmt.Sprintf("accept-exec %s crashed:%v %s", names[i], rerr != nil, hexs(progs[i].describe())), "ok")
				stats["no_result"]++
				stats["judged"]++
			}
		}
		_ = ir.NewFile
		return writeJSON(*f.stats, stats)
	})
}
