package main

import (
	"bufio"
	"bytes"
	"encoding/hex"
	"fmt"
	"math"
	"os"
	"os/exec"
	"path/filepath"
	"runtime"
	"sort"
	"strconv"
	"strings"
	"sync"
	"sync/atomic"
	"time"
	"unicode/utf8"

	"github.com/mmcloughlin/avo/attr"
	"github.com/mmcloughlin/avo/build"
	"github.com/mmcloughlin/avo/ir"
	"github.com/mmcloughlin/avo/operand"
	"github.com/mmcloughlin/avo/pass"
	"github.com/mmcloughlin/avo/printer"
	"github.com/mmcloughlin/avo/reg"
)

// C13: data sections.  Random placement sequences through five entry points of
// the real code (Context methods, Context.ConstData, the package-level
// build.GLOBL/DATA/ConstData on a swapped-in context, ir.Global directly), with
// other sections in the same file, small sections and tables of up to 400 data
// (overlapping, adjacent, zero-length, out-of-order, negative offsets, appends
// after gaps, grows), all constant kinds with boundary values.  Exact
// comparison with the Lean model: accept/reject flags, data list, size (no
// negative offsets) and the printed block of in-order sections.  Acceptors on
// the implementation's own output: accept-data, accept-attrs, accept-lines
// (every section), accept-int/str/f32/f64.  MEASURED: the printed file is built
// with the Go toolchain and the bytes of every symbol are read from the running
// binary (accept-asm); a failing batch is narrowed to the guilty sections;
// out-of-order / negative sections are assembled alone and the class of the
// assembler's complaint is part of the request (findings F14, C13-NEGOFF).
// Floats are measured: the printed text is read the way cmd/asm does (a float
// token -> ParseFloat 64, then float32; NO decimal point -> an integer).

// ---------------------------------------------------------------- constants

type c13const struct {
	kind string // i8 u8 i16 u16 i32 u32 i64 u64 f32 f64 s
	i    int64
	u    uint64 // unsigned value or float bits
	s    string
}

func (c c13const) op() operand.Constant {
	switch c.kind {
	case "i8":
		return operand.I8(c.i)
	case "u8":
		return operand.U8(c.u)
	case "i16":
		return operand.I16(c.i)
	case "u16":
		return operand.U16(c.u)
	case "i32":
		return operand.I32(c.i)
	case "u32":
		return operand.U32(c.u)
	case "i64":
		return operand.I64(c.i)
	case "u64":
		return operand.U64(c.u)
	case "f32":
		return operand.F32(math.Float32frombits(uint32(c.u)))
	case "f64":
		return operand.F64(math.Float64frombits(c.u))
	}
	return operand.String(c.s)
}

// c13fromOp reads a constant back from the implementation's data list.
func c13fromOp(v operand.Constant) c13const {
	switch x := v.(type) {
	case operand.I8:
		return c13const{kind: "i8", i: int64(x)}
	case operand.U8:
		return c13const{kind: "u8", u: uint64(x)}
	case operand.I16:
		return c13const{kind: "i16", i: int64(x)}
	case operand.U16:
		return c13const{kind: "u16", u: uint64(x)}
	case operand.I32:
		return c13const{kind: "i32", i: int64(x)}
	case operand.U32:
		return c13const{kind: "u32", u: uint64(x)}
	case operand.I64:
		return c13const{kind: "i64", i: int64(x)}
	case operand.U64:
		return c13const{kind: "u64", u: uint64(x)}
	case operand.F32:
		return c13const{kind: "f32", u: uint64(math.Float32bits(float32(x)))}
	case operand.F64:
		return c13const{kind: "f64", u: math.Float64bits(float64(x))}
	case operand.String:
		return c13const{kind: "s", s: string(x)}
	}
	return c13const{kind: "?"}
}

// c13floatText returns the decimal text the implementation prints for a float
// constant (between `$(` and `)`) or "" if the form is unexpected.
func c13floatText(v operand.Constant) string {
	a := v.Asm()
	if strings.HasPrefix(a, "$(") && strings.HasSuffix(a, ")") {
		return a[2 : len(a)-1]
	}
	return ""
}

// c13asmFloat is what cmd/asm does with a parenthesised DATA value `$(text)` of
// n bytes.  The operand is a floating-point constant only when the scanner sees
// a float token (a decimal point or an exponent): then strconv.ParseFloat(text,
// 64) and a float32 conversion for 4 bytes (asm.go asmData:
// WriteFloat32(float32(val.(float64)))).  WITHOUT a float token the operand is an
// integer expression (issue 387): `$(2)` stores the integer 2 (parse.go: atoi =
// ParseUint(s, 0, 64); asmData: WriteInt), truncated to n bytes.
func c13asmFloat(text string, n int) (uint64, bool) {
	neg := false
	t := text
	for len(t) > 0 && (t[0] == '-' || t[0] == '+') {
		if t[0] == '-' {
			neg = !neg
		}
		t = t[1:]
	}
	if !strings.ContainsAny(t, ".eEpP") || strings.HasPrefix(t, "0x") || strings.HasPrefix(t, "0X") {
		if strings.ContainsAny(t, ".pP") { // hexadecimal float: not produced by FormatFloat(…,'f',…)
			return 0, false
		}
		u, err := strconv.ParseUint(t, 0, 64)
		if err != nil {
			return 0, false
		}
		if neg {
			u = -u
		}
		if n == 4 {
			u &= 0xffffffff
		}
		return u, true
	}
	v, err := strconv.ParseFloat(t, 64)
	if err != nil {
		return 0, false
	}
	if neg {
		v = -v
	}
	if n == 4 {
		return uint64(math.Float32bits(float32(v))), true
	}
	return math.Float64bits(v), true
}

func (c c13const) tok() string {
	switch c.kind {
	case "i8", "i16", "i32", "i64":
		return c.kind + ":" + strconv.FormatInt(c.i, 10)
	case "u8", "u16", "u32", "u64":
		return c.kind + ":" + strconv.FormatUint(c.u, 10)
	case "f32", "f64":
		n := 4
		if c.kind == "f64" {
			n = 8
		}
		text := c13floatText(c.op())
		ab, ok := c13asmFloat(text, n)
		abs := strconv.FormatUint(ab, 16)
		if !ok {
			abs = "ffffffffffffffffff" // unparsable
		}
		return c.kind + ":" + strconv.FormatUint(c.u, 16) + ":" + hexs(text) + ":" + abs
	}
	return "s:" + hexs(c.s)
}

func (c c13const) size() int {
	switch c.kind {
	case "i8", "u8":
		return 1
	case "i16", "u16":
		return 2
	case "i32", "u32", "f32":
		return 4
	case "i64", "u64", "f64":
		return 8
	}
	return len(c.s)
}

var c13intKinds = []string{"i8", "u8", "i16", "u16", "i32", "u32", "i64", "u64"}

func c13bits(kind string) uint {
	switch kind {
	case "i8", "u8":
		return 8
	case "i16", "u16":
		return 16
	case "i32", "u32":
		return 32
	}
	return 64
}

func c13intConst(kind string, raw uint64) c13const {
	b := c13bits(kind)
	if b < 64 {
		raw &= (1 << b) - 1
	}
	if kind[0] == 'u' {
		return c13const{kind: kind, u: raw}
	}
	// sign extend
	v := int64(raw<<(64-b)) >> (64 - b)
	return c13const{kind: kind, i: v}
}

func c13intBoundaries(kind string) []c13const {
	b := c13bits(kind)
	raws := []uint64{0, 1, 2, 9, 10, 15, 16, 255, 256, 1<<(b-1) - 1, 1 << (b - 1), 1<<(b-1) + 1, ^uint64(0), ^uint64(0) - 1, 0x8080808080808080, 0x0123456789abcdef, 99999, 100000}
	var out []c13const
	for _, r := range raws {
		out = append(out, c13intConst(kind, r))
	}
	return out
}

var c13f32Boundaries = []uint32{0, 0x80000000, 1, 0x80000001, 0x007fffff, 0x00800000, 0x00800001, 0x7f7fffff, 0xff7fffff,
	0x3f800000, 0xbf800000, 0x40000000, 0x4b800000, 0x4b7fffff, 0x4b000001, 0x5f000000, 0x3dcccccd, 0x3eaaaaab, 0x40490fdb, 0x7f000000, 0x00000002,
	0x33800000, 0x34000000, 0x3f7fffff, 0x3f800001, 0x501502f9, 0x0da24260}

var c13f64Boundaries = []uint64{0, 0x8000000000000000, 1, 0x8000000000000001, 0x000fffffffffffff, 0x0010000000000000, 0x0010000000000001,
	0x7fefffffffffffff, 0xffefffffffffffff, 0x3ff0000000000000, 0xbff0000000000000, 0x4340000000000000, 0x433fffffffffffff, 0x4340000000000001,
	0x3fb999999999999a, 0x3fd5555555555555, 0x400921fb54442d18, 0x7fe0000000000000, 0x3cb0000000000000, 0x3ca0000000000000, 0x3fefffffffffffff,
	0x44b52d02c7e14af6, 0x0000000000000002, 0x36a0000000000000, 0x47efffffe0000000, 0x3810000000000000}

// the two float32 values of DESIGN §6 F11
var c13f11 = []uint32{0x15ae43fd, 0x95ae43fd}

func c13randF32(r *rng) uint32 {
	for {
		var b uint32
		switch r.intn(4) {
		case 0:
			b = uint32(r.u64())
		case 1: // small exponent range around 1
			b = uint32(r.intn(2))<<31 | uint32(100+r.intn(60))<<23 | uint32(r.u64())&0x7fffff
		case 2: // subnormal
			b = uint32(r.intn(2))<<31 | uint32(r.u64())&0x7fffff
		default: // integer valued
			b = math.Float32bits(float32(int32(r.u64()) >> uint(r.intn(31))))
		}
		if b&0x7f800000 != 0x7f800000 {
			return b
		}
	}
}

func c13randF64(r *rng) uint64 {
	for {
		var b uint64
		switch r.intn(4) {
		case 0:
			b = r.u64()
		case 1:
			b = uint64(r.intn(2))<<63 | uint64(1000+r.intn(60))<<52 | r.u64()&(1<<52-1)
		case 2:
			b = uint64(r.intn(2))<<63 | r.u64()&(1<<52-1)
		default:
			b = math.Float64bits(float64(int64(r.u64()) >> uint(r.intn(63))))
		}
		if b&0x7ff0000000000000 != 0x7ff0000000000000 {
			return b
		}
	}
}

var c13runes = []rune{0xb7, 0x2215, 0xe9, 0x3b1, 0x4e16, 0x1f600, 0x2028, 0xad, 0xfffd, 0x10ffff, 0x80, 0x7ff, 0x800, 0xffff, 0x10000, 0xe000, 0xd7ff, 0x85, 0xa0, 0x200b, 0xfeff, 0x378}

func c13randString(r *rng) string {
	n := 0
	switch r.intn(8) {
	case 0:
		n = 0
	case 1:
		n = 1
	case 2:
		n = r.rangeIn(40, 300)
	default:
		n = r.rangeIn(2, 24)
	}
	mode := r.intn(6)
	var b []byte
	for len(b) < n {
		m := mode
		if m == 5 {
			m = r.intn(5)
		}
		switch m {
		case 0: // printable ASCII
			b = append(b, byte(r.rangeIn(0x20, 0x7e)))
		case 1: // quotes, backslashes, controls
			b = append(b, pick(r, []byte{'"', '\\', '\'', 0, 7, 8, 9, 10, 11, 12, 13, 0x1b, 0x7f, '$', '(', ')', '%', '\x01', '`'}))
		case 2: // arbitrary bytes (invalid UTF-8 likely)
			b = append(b, byte(r.u64()))
		case 3: // valid multi-byte runes
			b = utf8.AppendRune(b, pick(r, c13runes))
		default: // truncated / overlong / surrogate encodings
			b = append(b, pick(r, [][]byte{{0xc3}, {0xe2, 0x82}, {0xf0, 0x9f, 0x98}, {0xc0, 0x80}, {0xe0, 0x80, 0x80}, {0xed, 0xa0, 0x80}, {0xf4, 0x90, 0x80, 0x80}, {0xf8, 0x88, 0x80, 0x80, 0x80}, {0xc1, 0xbf}, {0xef, 0xbf, 0xbd}, {0xff}, {0xfe}})...)
		}
	}
	return string(b)
}

func c13randConst(r *rng) c13const {
	switch r.intn(10) {
	case 0, 1, 2, 3:
		k := pick(r, c13intKinds)
		if r.chance(1, 2) {
			return pick(r, c13intBoundaries(k))
		}
		return c13intConst(k, r.u64()>>uint(r.intn(64)))
	case 4:
		if r.chance(1, 2) {
			return c13const{kind: "f32", u: uint64(pick(r, c13f32Boundaries))}
		}
		return c13const{kind: "f32", u: uint64(c13randF32(r))}
	case 5:
		if r.chance(1, 2) {
			return c13const{kind: "f64", u: pick(r, c13f64Boundaries)}
		}
		return c13const{kind: "f64", u: c13randF64(r)}
	default:
		return c13const{kind: "s", s: c13randString(r)}
	}
}

// c13printable lists the runes >= 0x80 that the implementation prints raw inside
// string literals.  String.Asm uses `$%+q` (ASCII-only quoting, fix of F15): none.
// (With `$%q` it was: the validly encoded runes for which strconv.IsPrint holds.)
func c13printable(strs ...string) []int {
	return nil
}

var _ = utf8.RuneError
var _ = sort.Ints

// ---------------------------------------------------------------- sections

type c13op struct {
	kind byte // 'p' place, 'a' append, 'g' grow
	off  int
	c    c13const
}

func (o c13op) toks() []string {
	switch o.kind {
	case 'p':
		return []string{"p", itoa(o.off), o.c.tok()}
	case 'a':
		return []string{"a", o.c.tok()}
	}
	return []string{"g", itoa(o.off)}
}

type c13datum struct {
	off int
	c   c13const
}

// How the section is built.
const (
	c13viaCtx      = 0 // Context.StaticGlobal + DataAttributes + AddDatum / AppendDatum
	c13viaCtxConst = 1 // Context.ConstData (a single constant)
	c13viaPkg      = 2 // package-level build.GLOBL + build.DATA on a swapped-in context (appends: Context.AppendDatum)
	c13viaPkgConst = 3 // package-level build.ConstData
	c13viaIRDirect = 4 // ir.NewStaticGlobal + Global.AddDatum / Append, added to the file with AddSection
	c13numVia      = 5
)

type c13case struct {
	name  string
	attrs attr.Attribute
	ops   []c13op
	via   int
	decoy bool // other sections before and after it in the same file, written to while this one is not active
}

func (c c13case) isConst() bool {
	return (c.via == c13viaCtxConst || c.via == c13viaPkgConst) && len(c.ops) == 1 && c.ops[0].kind == 'a'
}

type c13result struct {
	panicked bool
	appendAt []int // per op: offset the implementation chose for an append (else 0)
	flags    []bool
	data     []c13datum
	size     int
	block    string // every printed line that is not blank, a comment, an #include or a decoy's
	attrText string // Attributes.Asm() of the section (echoed into the exact text comparison)
	attrReq  int    // attributes asked for
	attrGot  int    // attributes stored in the section
	attrEval int    // value of the attribute text on the printed GLOBL line per the toolchain's textflag.h (-1: not evaluable)
}

// c13apply runs the ops on ctx (a fresh section `name`); returns the section.
func c13apply(ctx *build.Context, c c13case, flags *[]bool) *ir.Global {
	g, _ := c13applyAt(ctx, c, flags)
	return g
}

// c13newDatum finds the datum that is in `after` but not in `before`.
func c13newDatum(before, after []ir.Datum) (ir.Datum, bool) {
	if len(after) == len(before)+1 { // the usual case: added at the end
		same := true
		for i := range before {
			if before[i].Offset != after[i].Offset || before[i].Value != after[i].Value {
				same = false
				break
			}
		}
		if same {
			return after[len(after)-1], true
		}
	}
	used := make([]bool, len(before))
outer:
	for _, d := range after {
		for i, b := range before {
			if !used[i] && b.Offset == d.Offset && b.Value == d.Value {
				used[i] = true
				continue outer
			}
		}
		return d, true
	}
	return ir.Datum{}, false
}

var c13hdr map[string]int

// c13textflags reads the macro values of the toolchain's textflag.h (the
// assembler's view of the attribute names; independent of avo's attr package).
func c13textflags() map[string]int {
	if c13hdr != nil {
		return c13hdr
	}
	c13hdr = map[string]int{}
	data, err := os.ReadFile(filepath.Join(goroot(), "pkg", "include", "textflag.h"))
	if err != nil {
		return c13hdr
	}
	for _, l := range strings.Split(string(data), "\n") {
		fs := strings.Fields(l)
		if len(fs) >= 3 && fs[0] == "#define" {
			if v, err := strconv.Atoi(fs[2]); err == nil {
				c13hdr[fs[1]] = v
			}
		}
	}
	return c13hdr
}

// c13evalAttr values an attribute expression `A|B|8` the way the assembler does.
func c13evalAttr(text string) int {
	hdr := c13textflags()
	v := 0
	for _, t := range strings.Split(text, "|") {
		t = strings.TrimSpace(t)
		if n, err := strconv.Atoi(t); err == nil && n >= 0 {
			v |= n
		} else if m, ok := hdr[t]; ok {
			v |= m
		} else {
			return -1
		}
	}
	return v
}

// c13globlAttr extracts the attribute text of `GLOBL sym(SB), attr, $size`.
func c13globlAttr(block, sym string) (string, bool) {
	for _, l := range strings.Split(block, "\n") {
		pre := "GLOBL " + sym + "(SB), "
		if strings.HasPrefix(l, pre) {
			rest := l[len(pre):]
			if i := strings.LastIndex(rest, ", $"); i >= 0 {
				return rest[:i], true
			}
		}
	}
	return "", false
}

func c13decoyNames(name string) []string { return []string{name + "pre", name + "post"} }

func c13applyAt(ctx *build.Context, c c13case, flags *[]bool) (*ir.Global, []int) {
	var at []int
	pkg := c.via == c13viaPkg || c.via == c13viaPkgConst
	if pkg {
		old := build.VerifSwapContext(ctx)
		defer build.VerifSwapContext(old)
	}
	if c.decoy {
		ctx.StaticGlobal(c.name + "pre")
		ctx.DataAttributes(attr.NOPTR)
		ctx.AddDatum(0, operand.U64(0x1111111111111111))
		ctx.AddDatum(8, operand.U32(0x22222222))
	}
	var g *ir.Global
	last := func() *ir.Global {
		f, _ := ctx.Result()
		return f.Sections[len(f.Sections)-1].(*ir.Global)
	}
	switch {
	case c.isConst() && c.via == c13viaCtxConst:
		ctx.ConstData(c.name, c.ops[0].c.op())
	case c.isConst():
		build.ConstData(c.name, c.ops[0].c.op())
	case c.via == c13viaPkg:
		build.GLOBL(c.name, c.attrs)
	case c.via == c13viaIRDirect:
		g = ir.NewStaticGlobal(c.name)
		g.Attributes = c.attrs
		f, _ := ctx.Result()
		f.AddSection(g)
	default:
		ctx.StaticGlobal(c.name)
		ctx.DataAttributes(c.attrs)
	}
	if g == nil {
		g = last()
	}
	if c.isConst() {
		*flags = append(*flags, true)
		off := 0
		if len(g.Data) > 0 {
			off = g.Data[len(g.Data)-1].Offset
		}
		at = []int{off}
	} else {
		for _, op := range c.ops {
			at = append(at, 0)
			switch op.kind {
			case 'p':
				switch c.via {
				case c13viaPkg:
					before := ctx.VerifErrCount()
					build.DATA(op.off, op.c.op())
					*flags = append(*flags, ctx.VerifErrCount() == before)
				case c13viaIRDirect:
					err := g.AddDatum(ir.NewDatum(op.off, op.c.op()))
					*flags = append(*flags, err == nil)
				default:
					before := ctx.VerifErrCount()
					ctx.AddDatum(op.off, op.c.op())
					*flags = append(*flags, ctx.VerifErrCount() == before)
				}
			case 'a':
				before := append([]ir.Datum(nil), g.Data...)
				if c.via == c13viaIRDirect {
					g.Append(op.c.op())
				} else {
					ctx.AppendDatum(op.c.op())
				}
				*flags = append(*flags, true)
				if d, ok := c13newDatum(before, g.Data); ok {
					at[len(at)-1] = d.Offset
				}
			case 'g':
				g.Grow(op.off)
				*flags = append(*flags, true)
			}
		}
	}
	if c.decoy {
		// a later section becomes the active one: writes go there, not into ours
		ctx.StaticGlobal(c.name + "post")
		ctx.DataAttributes(attr.NOPTR)
		ctx.AddDatum(0, operand.U32(7))
		ctx.AppendDatum(operand.U8(9))
	}
	return g, at
}

// c13attrReq is the attribute value the caller asked for: ConstData promises a
// read-only, pointer-free section (textflag.h's RODATA|NOPTR).
func c13attrReq(c c13case) int {
	if c.isConst() {
		h := c13textflags()
		return h["RODATA"] | h["NOPTR"]
	}
	return int(uint16(c.attrs))
}

func c13run(c c13case) (res c13result) {
	defer func() {
		if e := recover(); e != nil {
			res.panicked = true
		}
	}()
	ctx := build.NewContext()
	g, at := c13applyAt(ctx, c, &res.flags)
	res.appendAt = at
	for _, d := range g.Data {
		res.data = append(res.data, c13datum{d.Offset, c13fromOp(d.Value)})
	}
	res.size = g.Size
	res.attrText = g.Attributes.Asm()
	res.attrReq = c13attrReq(c)
	res.attrGot = int(uint16(g.Attributes))
	f, _ := ctx.Result() // placement errors are expected: print what was built
	out, err := printer.NewGoAsm(printer.Config{Name: "avoh", Pkg: "p"}).Print(f)
	if err != nil {
		panic(err)
	}
	res.block = c13blockOf(string(out), c)
	res.attrEval = -1
	if t, ok := c13globlAttr(res.block, c.name+"<>"); ok {
		res.attrEval = c13evalAttr(t)
	}
	return
}

// c13blockOf keeps every printed line except blank lines, comments, #include
// lines and the lines of the decoy sections: anything unexpected stays in the
// block and makes it unreadable for the acceptor.
func c13blockOf(out string, c c13case) string {
	var blk []string
lines:
	for _, l := range strings.Split(out, "\n") {
		t := strings.TrimSpace(l)
		if t == "" || strings.HasPrefix(t, "//") || strings.HasPrefix(t, "#include ") {
			continue
		}
		if c.decoy {
			for _, dn := range c13decoyNames(c.name) {
				if strings.HasPrefix(l, "DATA "+dn+"<>") || strings.HasPrefix(l, "GLOBL "+dn+"<>") {
					continue lines
				}
			}
		}
		blk = append(blk, l+"\n")
	}
	return strings.Join(blk, "")
}

func c13genCase(r *rng, k int) c13case {
	c := c13case{name: fmt.Sprintf("g%d", k)}
	switch r.intn(8) {
	case 0:
		c.attrs = attr.NOPTR
	case 1:
		c.attrs = 0
	case 2:
		c.attrs = attr.Attribute(r.u64() & 0xffff)
	case 3:
		c.attrs = attr.RODATA
	default:
		c.attrs = attr.RODATA | attr.NOPTR
	}
	c.via = pick(r, []int{c13viaCtx, c13viaCtx, c13viaCtx, c13viaPkg, c13viaPkg, c13viaIRDirect})
	c.decoy = r.chance(1, 5)
	if r.chance(1, 12) {
		c.via = pick(r, []int{c13viaCtxConst, c13viaPkgConst})
		c.ops = []c13op{{kind: 'a', c: c13randConst(r)}}
		return c
	}
	// sections with many data (tables): every tier
	switch r.intn(60) {
	case 0:
		c13genLarge(r, &c, r.rangeIn(100, 400))
		return c
	case 1, 2:
		c13genLarge(r, &c, r.rangeIn(10, 60))
		return c
	}
	// track what a straightforward reading of the calls gives, only to aim the generator
	type iv struct{ lo, hi int }
	var ivs []iv
	size := 0
	n := r.intn(10)
	style := r.intn(4) // 0: in order, 1: mixed, 2: overlap-heavy, 3: out-of-order-heavy
	for i := 0; i < n; i++ {
		cst := c13randConst(r)
		if cst.kind == "s" && len(cst.s) > 40 && r.chance(2, 3) {
			cst.s = cst.s[:r.intn(12)]
		}
		sz := cst.size()
		choice := r.intn(12)
		if style == 0 && choice > 3 {
			choice = r.intn(4)
		}
		if style == 2 && r.chance(1, 2) {
			choice = 6
		}
		if style == 3 && r.chance(1, 2) {
			choice = 7
		}
		op := c13op{kind: 'p', c: cst}
		switch choice {
		case 0, 1: // adjacent at the end
			op.off = size
		case 2: // aligned after the end
			a := sz
			if a == 0 || a > 8 {
				a = 8
			}
			op.off = (size + a - 1) / a * a
		case 3: // append
			op.kind = 'a'
		case 4: // after a gap
			op.off = size + r.rangeIn(1, 20)
		case 5: // append after a grow
			c.ops = append(c.ops, c13op{kind: 'g', off: size + r.rangeIn(-4, 24)})
			if g := c.ops[len(c.ops)-1].off; g > size {
				size = g
			}
			op.kind = 'a'
		case 6: // overlapping an existing datum
			if len(ivs) > 0 {
				v := pick(r, ivs)
				op.off = r.rangeIn(v.lo-sz+1-r.intn(2), v.hi-1+r.intn(2))
			} else {
				op.off = r.intn(8)
			}
		case 7: // before an existing datum (out of order), often exactly adjacent
			if len(ivs) > 0 {
				v := pick(r, ivs)
				op.off = v.lo - sz - pick(r, []int{0, 0, 1, 3, 8})
			} else {
				op.off = r.rangeIn(1, 30)
			}
		case 8: // anywhere inside
			op.off = r.intn(size + 2)
		case 9: // zero-length string somewhere interesting
			op.c = c13const{kind: "s", s: ""}
			sz = 0
			if len(ivs) > 0 {
				v := pick(r, ivs)
				op.off = pick(r, []int{v.lo, v.hi, (v.lo + v.hi) / 2, v.lo + 1})
			} else {
				op.off = r.intn(3)
			}
		case 10:
			op.off = size + r.rangeIn(0, 3)
		default: // far away
			op.off = r.rangeIn(0, 3000)
		}
		if op.kind == 'p' && op.off < 0 && !r.chance(1, 12) {
			op.off = -op.off // negative offsets are outside the property: keep only a few
		}
		if op.kind == 'a' {
			op.off = size
		}
		c.ops = append(c.ops, op)
		// bookkeeping (only an approximation: rejected placements are not tracked precisely)
		ok := true
		for _, v := range ivs {
			if !(v.hi <= op.off || op.off+sz <= v.lo) {
				ok = false
			}
		}
		if ok || op.kind == 'a' {
			ivs = append(ivs, iv{op.off, op.off + sz})
			if op.off+sz > size {
				size = op.off + sz
			}
		}
	}
	if r.chance(1, 10) {
		c.ops = append(c.ops, c13op{kind: 'g', off: r.rangeIn(0, size+40)})
	}
	return c
}

// c13smallConst: a fixed-size constant (tables are made of these).
func c13smallConst(r *rng) c13const {
	switch r.intn(8) {
	case 0:
		return c13const{kind: "f32", u: uint64(c13randF32(r))}
	case 1:
		return c13const{kind: "f64", u: c13randF64(r)}
	case 2:
		s := c13randString(r)
		if len(s) > 12 {
			s = s[:r.intn(12)]
		}
		return c13const{kind: "s", s: s}
	}
	return c13intConst(pick(r, c13intKinds), r.u64()>>uint(r.intn(64)))
}

// c13genLarge builds a section with about n data (a lookup table: adjacent or
// gapped entries, in increasing or shuffled order) followed by probes aimed at
// entries chosen uniformly over the WHOLE table: overlaps by one byte at either
// end, exact duplicates, containment, exact fits into gaps, zero-length strings
// at entry boundaries, placements past the end.  An overlap structure that is
// only right for a few entries (or for the most recent ones) decides a probe
// differently from the property.
func c13genLarge(r *rng, c *c13case, n int) {
	type iv struct{ lo, hi int }
	var ivs []iv
	var gaps []iv
	var ops []c13op
	off := 0
	if r.chance(1, 4) {
		off = r.rangeIn(1, 64)
		gaps = append(gaps, iv{0, off})
	}
	gappy := r.chance(1, 2)
	for i := 0; i < n; i++ {
		cst := c13smallConst(r)
		if gappy && r.chance(1, 4) {
			g := r.rangeIn(1, 9)
			gaps = append(gaps, iv{off, off + g})
			off += g
		}
		sz := cst.size()
		if r.chance(1, 5) && !gappy {
			ops = append(ops, c13op{kind: 'a', off: off, c: cst}) // append == place at the end while nothing was skipped
		} else {
			ops = append(ops, c13op{kind: 'p', off: off, c: cst})
		}
		ivs = append(ivs, iv{off, off + sz})
		off += sz
	}
	switch r.intn(4) { // 2, 3: in increasing order (these can be assembled and read back)
	case 0: // shuffled order of placement (appends become placements at their offsets)
		for i := range ops {
			ops[i].kind = 'p'
		}
		for i := len(ops) - 1; i > 0; i-- {
			j := r.intn(i + 1)
			ops[i], ops[j] = ops[j], ops[i]
		}
	case 1: // reversed
		for i := range ops {
			ops[i].kind = 'p'
		}
		for i, j := 0, len(ops)-1; i < j; i, j = i+1, j-1 {
			ops[i], ops[j] = ops[j], ops[i]
		}
	}
	size := off
	probes := r.rangeIn(4, 24)
	for i := 0; i < probes; i++ {
		cst := c13smallConst(r)
		sz := cst.size()
		v := pick(r, ivs)
		op := c13op{kind: 'p', c: cst}
		switch r.intn(9) {
		case 0: // last byte of the probe on the first byte of the entry
			op.off = v.lo - sz + 1
		case 1: // first byte of the probe on the last byte of the entry
			op.off = v.hi - 1
		case 2: // same offset
			op.off = v.lo
		case 3: // just before / just after (fits only if there is room)
			op.off = pick(r, []int{v.lo - sz, v.hi})
		case 4: // exact fit into a gap, or one byte too long
			if len(gaps) > 0 {
				g := pick(r, gaps)
				w := g.hi - g.lo + r.intn(2)
				op.c = c13const{kind: "s", s: strings.Repeat("x", w)}
				op.off = g.lo
			} else {
				op.off = v.lo + r.intn(v.hi-v.lo+1)
			}
		case 5: // zero-length string at a boundary or inside
			op.c = c13const{kind: "s", s: ""}
			op.off = pick(r, []int{v.lo, v.hi, (v.lo + v.hi) / 2})
		case 6: // past the end
			op.off = size + r.intn(4)
			size = op.off + sz
			ivs = append(ivs, iv{op.off, op.off + sz})
		case 7: // an append in between
			op.kind = 'a'
			op.off = size
			size += sz
			ivs = append(ivs, iv{op.off, op.off + sz})
		default: // a wide constant covering several entries
			op.c = c13const{kind: "s", s: strings.Repeat("w", r.rangeIn(9, 40))}
			op.off = v.lo - r.intn(3)
		}
		if op.kind == 'p' && op.off < 0 {
			op.off = 0
		}
		ops = append(ops, op)
	}
	c.ops = ops
}

func c13dataToks(data []c13datum) []string {
	out := []string{itoa(len(data))}
	for _, d := range data {
		out = append(out, itoa(d.off), d.c.tok())
	}
	return out
}

func c13flags(fs []bool) string {
	if len(fs) == 0 {
		return "-"
	}
	var b strings.Builder
	for _, f := range fs {
		if f {
			b.WriteByte('1')
		} else {
			b.WriteByte('0')
		}
	}
	return b.String()
}

// c13mono: are the data in an order cmd/asm accepts (each entry at or after
// the end of the previous one)?
func c13mono(data []c13datum) bool {
	last := 0
	for _, d := range data {
		if d.off < last {
			return false
		}
		last = d.off + d.c.size()
	}
	return true
}

func c13inScope(c c13case) bool {
	for _, op := range c.ops {
		if op.kind == 'p' && op.off < 0 {
			return false
		}
	}
	return true
}

// c13order classifies the REQUESTED placements the implementation accepted, in
// call order: "negative" if one of them is at a negative offset, "outoforder"
// if one starts below the end of the one before (what cmd/asm refuses), else
// "inorder".
func c13order(c c13case, res c13result) string {
	last := 0
	order := "inorder"
	for i, op := range c.ops {
		if i >= len(res.flags) || !res.flags[i] || op.kind == 'g' {
			continue
		}
		off := op.off
		if op.kind == 'a' {
			off = 0
			if i < len(res.appendAt) {
				off = res.appendAt[i]
			}
		}
		if off < 0 {
			return "negative"
		}
		if off < last {
			order = "outoforder"
		}
		last = off + op.c.size()
	}
	return order
}

func c13emitCase(o *out, c c13case, res c13result, st map[string]int) {
	var strs []string
	for _, op := range c.ops {
		if op.c.kind == "s" {
			strs = append(strs, op.c.s)
		}
	}
	var opsToks []string
	for _, op := range c.ops {
		opsToks = append(opsToks, op.toks()...)
	}
	if res.panicked {
		st["panic"]++
		o.emit("accept-nopanic "+itoa(len(c.ops))+" "+strings.Join(opsToks, " "), "ok")
		return
	}
	// exact comparison with the model: decisions, data list, size, and (where the order of
	// the lines is not at issue) the text of the block.  Not for sequences with a negative
	// offset: the property has no byte for them (finding F14b judges those).
	if c13inScope(c) {
		pr := c13printable(strs...)
		req := []string{"data", hexs(c.name + "<>"), hexs(res.attrText), itoa(len(pr))}
		for _, p := range pr {
			req = append(req, itoa(p))
		}
		req = append(req, itoa(len(c.ops)))
		req = append(req, opsToks...)
		resp := []string{c13flags(res.flags), itoa(res.size), itoa(len(res.data))}
		for _, d := range res.data {
			resp = append(resp, fmt.Sprintf("%d:%d", d.off, d.c.size()))
		}
		if c13mono(res.data) {
			resp = append(resp, hexs(res.block))
		} else {
			resp = append(resp, "-")
		}
		o.emit(strings.Join(req, " "), strings.Join(resp, " "))
		st["exact_data_lines"]++
	}
	// acceptors on the implementation's own output
	acc := []string{"accept-data", c13flags(res.flags), itoa(res.size)}
	acc = append(acc, c13dataToks(res.data)...)
	acc = append(acc, itoa(len(c.ops)))
	for i, op := range c.ops {
		if op.kind == 'a' {
			off := 0
			if i < len(res.appendAt) {
				off = res.appendAt[i]
			}
			acc = append(acc, "a", itoa(off), op.c.tok())
		} else {
			acc = append(acc, op.toks()...)
		}
	}
	o.emit(strings.Join(acc, " "), "ok")
	o.emit(fmt.Sprintf("accept-attrs %d %d %d", res.attrReq, res.attrGot, res.attrEval), "ok")
	order := c13order(c, res)
	al := []string{"accept-lines", order, hexs(c.name + "<>"), itoa(res.size)}
	al = append(al, c13dataToks(res.data)...)
	al = append(al, hexs(res.block))
	o.emit(strings.Join(al, " "), "ok")
	// statistics
	st["sections"]++
	st["sections_"+order]++
	st[fmt.Sprintf("via_%d", c.via)]++
	if c.decoy {
		st["with_other_sections_in_file"]++
	}
	switch n := len(res.data); {
	case n >= 100:
		st["sections_100_or_more_data"]++
	case n >= 10:
		st["sections_10_to_99_data"]++
	}
	if !c13inScope(c) {
		st["negative_offset_requested"]++
	}
	{ // generator-side count (independent of what the implementation accepts)
		end, ooo := 0, false
		for _, op := range c.ops {
			if op.kind == 'p' {
				if op.off < end {
					ooo = true
				}
				end = op.off + op.c.size()
			}
		}
		if ooo {
			st["placement_below_previous_end_requested"]++
		}
	}
	if !c13mono(res.data) {
		st["data_not_in_increasing_order"]++
	}
	for i, f := range res.flags {
		if !f {
			st["placements_rejected"]++
		} else if c.ops[min(i, len(c.ops)-1)].kind == 'p' {
			st["placements_accepted"]++
		}
	}
	for _, op := range c.ops {
		switch op.kind {
		case 'a':
			st["appends"]++
		case 'g':
			st["grows"]++
		}
		if op.kind != 'g' {
			st["const_"+op.c.kind]++
			if op.c.kind == "s" && len(op.c.s) == 0 {
				st["zero_length_strings"]++
			}
		}
	}
}

// ---------------------------------------------------------------- measured: build + run

type c13meas struct {
	c     c13case
	data  []c13datum
	size  int
	order string // c13order of the run that produced data
}

// c13asmClass names the assembler's (or linker's) complaint.
func c13asmClass(out string) string {
	switch {
	case strings.Contains(out, "overlapping DATA entry"):
		return "overlapping-DATA-entry"
	case strings.Contains(out, "prepwrite: bad off"):
		return "bad-off"
	case strings.Contains(out, "slice bounds out of range"):
		return "bad-off"
	}
	return "other"
}

// c13program prints the file holding the given sections (each with an accessor
// function returning its address) and the Go side that dumps their bytes.
func c13program(ms []c13meas, idx []int, tag string) (asm, stubs, mainsrc []byte, err error) {
	ctx := build.NewContext()
	var globals []*ir.Global
	for _, i := range idx {
		c := ms[i].c
		c.name = fmt.Sprintf("%s%d", tag, i)
		var fl []bool
		globals = append(globals, c13apply(ctx, c, &fl))
	}
	for k, g := range globals {
		ctx.Function(fmt.Sprintf("addr_%s%d", tag, idx[k]))
		ctx.Attributes(attr.NOSPLIT)
		ctx.SignatureExpr("func() uintptr")
		p := ctx.GP64()
		ctx.LEAQ(g.Base(), p)
		ctx.Store(p, ctx.ReturnIndex(0))
		ctx.RET()
	}
	file, _ := ctx.Result() // placement errors are expected
	if err := pass.Compile.Execute(file); err != nil {
		return nil, nil, nil, fmt.Errorf("measure: compile: %v", err)
	}
	cfg := printer.Config{Name: "avoh", Pkg: "main"}
	if asm, err = printer.NewGoAsm(cfg).Print(file); err != nil {
		return
	}
	if stubs, err = printer.NewStubs(cfg).Print(file); err != nil {
		return
	}
	var b bytes.Buffer
	b.WriteString("package main\n\nimport (\n\t\"fmt\"\n\t\"unsafe\"\n)\n\nfunc dump(i int, p uintptr, n int) {\n\tb := unsafe.Slice((*byte)(unsafe.Pointer(p)), n)\n\tfmt.Printf(\"%d %x\\n\", i, b)\n}\n\nfunc main() {\n")
	for _, i := range idx {
		fmt.Fprintf(&b, "\tdump(%d, addr_%s%d(), %d)\n", i, tag, i, ms[i].size)
	}
	b.WriteString("}\n")
	return asm, stubs, b.Bytes(), nil
}

// c13buildRun builds and runs the program of the sections idx; got[i] = hex of
// the bytes of section i.  ok=false: the build failed (log returned).
func c13buildRun(dir string, ms []c13meas, idx []int, tag string) (got map[int]string, ok bool, log string, err error) {
	if err = os.RemoveAll(dir); err != nil {
		return
	}
	if err = os.MkdirAll(dir, 0o755); err != nil {
		return
	}
	asm, stubs, mainsrc, err := c13program(ms, idx, tag)
	if err != nil {
		return
	}
	files := map[string][]byte{
		"go.mod":   []byte("module c13data\n\ngo 1.21\n"),
		"data.s":   asm,
		"stubs.go": stubs,
		"main.go":  mainsrc,
	}
	for name, data := range files {
		if err = os.WriteFile(filepath.Join(dir, name), data, 0o644); err != nil {
			return
		}
	}
	absdir, err := filepath.Abs(dir)
	if err != nil {
		return
	}
	cmd := exec.Command("go", "build", "-o", "c13data", ".")
	cmd.Dir = absdir
	got = map[int]string{}
	buildOut, berr := cmd.CombinedOutput()
	if berr != nil {
		os.WriteFile(filepath.Join(dir, "build.log"), buildOut, 0o644)
		return got, false, string(buildOut), nil
	}
	run := exec.Command(filepath.Join(absdir, "c13data"))
	run.Dir = absdir
	outp, _ := run.Output()
	for _, l := range strings.Split(string(outp), "\n") {
		fs := strings.Fields(l)
		if len(fs) >= 1 {
			if i, err := strconv.Atoi(fs[0]); err == nil {
				if len(fs) == 1 {
					got[i] = ""
				} else {
					got[i] = fs[1]
				}
			}
		}
	}
	return got, true, "", nil
}

// c13printAlone prints section i alone into dir and returns the path of the file.
func c13printAlone(dir string, m c13meas, i int) (src string, err error) {
	ctx := build.NewContext()
	var fl []bool
	c := m.c
	c.name = fmt.Sprintf("n%d", i)
	c13apply(ctx, c, &fl)
	file, _ := ctx.Result()
	if err := pass.Compile.Execute(file); err != nil {
		return "", err
	}
	asm, err := printer.NewGoAsm(printer.Config{Name: "avoh", Pkg: "p"}).Print(file)
	if err != nil {
		return "", err
	}
	src = filepath.Join(dir, fmt.Sprintf("n%d.s", i))
	return src, os.WriteFile(src, asm, 0o644)
}

// c13asmMany assembles the given sections alone, the assembler runs in parallel;
// result: index -> class ("" = accepted).
func c13asmMany(dir string, ms []c13meas, idx []int) (map[int]string, error) {
	if err := os.MkdirAll(dir, 0o755); err != nil {
		return nil, err
	}
	srcs := map[int]string{}
	for _, i := range idx { // printing uses the package-level context for some sections: one at a time
		p, err := c13printAlone(dir, ms[i], i)
		if err != nil {
			return nil, err
		}
		srcs[i] = p
	}
	res := map[int]string{}
	var mu sync.Mutex
	var wg sync.WaitGroup
	sem := make(chan struct{}, 8)
	inc := filepath.Join(goroot(), "pkg", "include")
	for _, i := range idx {
		wg.Add(1)
		go func(i int) {
			defer wg.Done()
			sem <- struct{}{}
			defer func() { <-sem }()
			src := srcs[i]
			outp, aerr := exec.Command("go", "tool", "asm", "-I", inc, "-p", "p", "-o", src+".o", src).CombinedOutput()
			cl := ""
			if aerr != nil {
				cl = c13asmClass(string(outp))
			}
			mu.Lock()
			res[i] = cl
			mu.Unlock()
		}(i)
	}
	wg.Wait()
	return res, nil
}

// c13measure: the sections the real assembler accepts are built into one
// program (with one accessor function each), the program is run and one
// accept-asm request per section carries the bytes found at the symbol.  When
// the batch does not build, every section is assembled alone to find the guilty
// ones (they get `fail:<class>`), the rest is rebuilt, and a build that still
// fails (a link-time complaint) is bisected; so a failure is blamed on the
// section that causes it.
func c13measure(dir string, ms []c13meas, o *out, st map[string]int, tag string) error {
	if len(ms) == 0 {
		return nil
	}
	status := map[int]string{} // "" pending, "ok", "fail:class"
	got := map[int]string{}
	var pending []int
	// sections whose requested order the assembler is known to refuse are assembled alone first
	var alone []int
	for i, m := range ms {
		if m.order != "inorder" {
			alone = append(alone, i)
		} else {
			pending = append(pending, i)
		}
	}
	if len(alone) > 0 {
		cls, err := c13asmMany(filepath.Join(dir, "alone"), ms, alone)
		if err != nil {
			return err
		}
		for _, i := range alone {
			if cls[i] == "" {
				pending = append(pending, i) // accepted after all: read its bytes like the others
			} else {
				status[i] = "fail:" + cls[i]
				st["assembled_alone_rejected_"+cls[i]]++
			}
		}
		sort.Ints(pending)
	}
	builds := 0
	var solve func(idx []int, first bool) error
	solve = func(idx []int, first bool) error {
		if len(idx) == 0 {
			return nil
		}
		builds++
		g, ok, log, err := c13buildRun(filepath.Join(dir, "prog"), ms, idx, tag)
		if err != nil {
			return err
		}
		if ok {
			for _, i := range idx {
				if hx, have := g[i]; have {
					got[i] = hx
					status[i] = "ok"
				} else {
					status[i] = "fail:no-output"
				}
			}
			return nil
		}
		st["measured_build_failed"]++
		if len(idx) == 1 {
			status[idx[0]] = "fail:" + c13asmClass(log)
			return nil
		}
		if first {
			// find the sections the assembler refuses on their own
			cls, err := c13asmMany(filepath.Join(dir, "guilty"), ms, idx)
			if err != nil {
				return err
			}
			var rest []int
			for _, i := range idx {
				if cls[i] != "" {
					status[i] = "fail:" + cls[i]
				} else {
					rest = append(rest, i)
				}
			}
			if len(rest) < len(idx) {
				return solve(rest, false)
			}
		}
		if builds > 40 { // bounded: blame what is left as a whole
			for _, i := range idx {
				status[i] = "fail:batch"
			}
			return nil
		}
		if err := solve(idx[:len(idx)/2], false); err != nil {
			return err
		}
		return solve(idx[len(idx)/2:], false)
	}
	if err := solve(pending, true); err != nil {
		return err
	}
	for i, m := range ms {
		stt := status[i]
		hx := got[i]
		if hx == "" {
			hx = "-"
		}
		if stt == "" {
			stt = "fail:not-built"
		}
		req := []string{"accept-asm", m.order, stt, itoa(m.size)}
		req = append(req, c13dataToks(m.data)...)
		req = append(req, hx)
		o.emit(strings.Join(req, " "), "ok")
		st["measured_sections"]++
		if stt == "ok" {
			st["measured_sections_read_back"]++
			st["measured_bytes"] += m.size
			if len(m.data) >= 100 {
				st["measured_sections_100_or_more_data"]++
			}
		}
	}
	st["measured_builds"] += builds
	return nil
}

// ---------------------------------------------------------------- floats

func c13f32Check(bits uint32) (text string, asmbits uint32) {
	text = c13floatText(operand.F32(math.Float32frombits(bits)))
	ab, ok := c13asmFloat(text, 4)
	if !ok {
		return text, ^bits
	}
	return text, uint32(ab)
}

func c13f64Check(bits uint64) (text string, asmbits uint64) {
	text = c13floatText(operand.F64(math.Float64frombits(bits)))
	ab, ok := c13asmFloat(text, 8)
	if !ok {
		return text, ^bits
	}
	return text, ab
}

// c13sweepF32 checks `count` float32 bit patterns (a fixed odd-multiplier
// permutation of 0..2^32-1 starting at `start`, so any prefix is spread over
// the whole range) within `budget`; failures are returned.
func c13sweepF32(start, count uint64, budget time.Duration) (checked uint64, bad []uint32) {
	const mult = 0x9E3779B1
	deadline := time.Now().Add(budget)
	workers := runtime.NumCPU()
	if workers > 16 {
		workers = 16
	}
	const chunk = 1 << 16
	var next uint64
	var done uint64
	var mu sync.Mutex
	var wg sync.WaitGroup
	for w := 0; w < workers; w++ {
		wg.Add(1)
		go func() {
			defer wg.Done()
			for {
				lo := atomic.AddUint64(&next, chunk) - chunk
				if lo >= count || time.Now().After(deadline) {
					return
				}
				hi := lo + chunk
				if hi > count {
					hi = count
				}
				for i := lo; i < hi; i++ {
					bits := uint32((start + i) * mult)
					if bits&0x7f800000 == 0x7f800000 {
						continue // Inf / NaN: not finite
					}
					f := math.Float32frombits(bits)
					// the real code: operand.F32.String() is what Asm() wraps in `$(…)` (tied on a sample below)
					s := operand.F32(f).String()
					// cmd/asm: a literal without a decimal point is an INTEGER (c13asmFloat)
					v, err := strconv.ParseFloat(s, 64)
					if err != nil || math.Float32bits(float32(v)) != bits || !strings.ContainsAny(s, ".eE") {
						mu.Lock()
						bad = append(bad, bits)
						mu.Unlock()
					}
				}
				atomic.AddUint64(&done, hi-lo)
			}
		}()
	}
	wg.Wait()
	sort.Slice(bad, func(i, j int) bool { return bad[i] < bad[j] })
	return atomic.LoadUint64(&done), bad
}

// ---------------------------------------------------------------- replay

func c13parseConst(t string) (c13const, bool) {
	fs := strings.Split(t, ":")
	if len(fs) < 2 {
		return c13const{}, false
	}
	switch fs[0] {
	case "i8", "i16", "i32", "i64":
		v, err := strconv.ParseInt(fs[1], 10, 64)
		return c13const{kind: fs[0], i: v}, err == nil
	case "u8", "u16", "u32", "u64":
		v, err := strconv.ParseUint(fs[1], 10, 64)
		return c13const{kind: fs[0], u: v}, err == nil
	case "f32", "f64":
		v, err := strconv.ParseUint(fs[1], 16, 64)
		return c13const{kind: fs[0], u: v}, err == nil
	case "s":
		s, err := unhexs(fs[1])
		return c13const{kind: "s", s: s}, err == nil
	}
	return c13const{}, false
}

func c13replayLine(o *out, l string, st map[string]int, k int) {
	ts := strings.Fields(l)
	if len(ts) == 0 {
		return
	}
	switch ts[0] {
	case "data":
		if len(ts) < 5 {
			return
		}
		name, _ := unhexs(ts[1])
		c := c13case{name: strings.TrimSuffix(name, "<>"), attrs: attr.RODATA | attr.NOPTR}
		npr, _ := strconv.Atoi(ts[3])
		i := 4 + npr
		if i >= len(ts) {
			return
		}
		i++ // nops
		for i < len(ts) {
			switch ts[i] {
			case "p":
				if i+2 >= len(ts) {
					return
				}
				off, _ := strconv.Atoi(ts[i+1])
				cst, ok := c13parseConst(ts[i+2])
				if !ok {
					return
				}
				c.ops = append(c.ops, c13op{kind: 'p', off: off, c: cst})
				i += 3
			case "a":
				if i+1 >= len(ts) {
					return
				}
				cst, ok := c13parseConst(ts[i+1])
				if !ok {
					return
				}
				c.ops = append(c.ops, c13op{kind: 'a', c: cst})
				i += 2
			case "g":
				if i+1 >= len(ts) {
					return
				}
				n, _ := strconv.Atoi(ts[i+1])
				c.ops = append(c.ops, c13op{kind: 'g', off: n})
				i += 2
			default:
				return
			}
		}
		c13emitCase(o, c, c13run(c), st)
	case "accept-data":
		// accept-data <flags> <size> <ndata> (off const)… <nops> ops… : re-run the call sequence
		if len(ts) < 5 {
			return
		}
		nd, err := strconv.Atoi(ts[3])
		i := 4 + 2*nd
		if err != nil || i >= len(ts) {
			return
		}
		i++ // nops
		c := c13case{name: fmt.Sprintf("r%d", k), attrs: attr.RODATA | attr.NOPTR}
		for i < len(ts) {
			switch ts[i] {
			case "p", "a":
				if i+2 >= len(ts) {
					return
				}
				off, _ := strconv.Atoi(ts[i+1])
				cst, ok := c13parseConst(ts[i+2])
				if !ok {
					return
				}
				c.ops = append(c.ops, c13op{kind: ts[i][0], off: off, c: cst})
				i += 3
			case "g":
				if i+1 >= len(ts) {
					return
				}
				n, _ := strconv.Atoi(ts[i+1])
				c.ops = append(c.ops, c13op{kind: 'g', off: n})
				i += 2
			default:
				return
			}
		}
		c13emitCase(o, c, c13run(c), st)
	case "accept-lines", "accept-asm":
		// only the final data list is in the request: place each datum at its offset, in the order given
		j := 4
		if len(ts) <= j {
			return
		}
		nd, err := strconv.Atoi(ts[j])
		if err != nil || j+2*nd >= len(ts) {
			return
		}
		c := c13case{name: fmt.Sprintf("r%d", k), attrs: attr.RODATA | attr.NOPTR}
		for d := 0; d < nd; d++ {
			off, _ := strconv.Atoi(ts[j+1+2*d])
			cst, ok := c13parseConst(ts[j+2+2*d])
			if !ok {
				return
			}
			c.ops = append(c.ops, c13op{kind: 'p', off: off, c: cst})
		}
		res := c13run(c)
		c13emitCase(o, c, res, st)
		if ts[0] == "accept-asm" && !res.panicked {
			ms := []c13meas{{c: c, data: res.data, size: res.size, order: c13order(c, res)}}
			c13measure(filepath.Join("meas", fmt.Sprintf("replay%d", k)), ms, o, st, "r")
		}
	case "fparse":
		// fparse <len> <text hex>: Lean's model of the assembler's reading of `$(text)` against the harness's (strconv)
		if len(ts) >= 3 {
			n, _ := strconv.Atoi(ts[1])
			if text, err := unhexs(ts[2]); err == nil {
				c13emitFparse(o, n, text, st)
			}
		}
	case "accept-f32", "f32":
		if len(ts) >= 2 {
			if b, err := strconv.ParseUint(ts[1], 16, 32); err == nil {
				c13emitF32(o, uint32(b), st)
			}
		}
	case "accept-f64", "f64":
		if len(ts) >= 2 {
			if b, err := strconv.ParseUint(ts[1], 16, 64); err == nil {
				c13emitF64(o, b, st)
			}
		}
	case "int":
		if len(ts) >= 3 {
			if cst, ok := c13parseConst(ts[1] + ":" + ts[2]); ok {
				c13emitInt(o, cst, st)
			}
		}
	case "str":
		if len(ts) >= 2 {
			if s, err := unhexs(ts[1]); err == nil {
				c13emitStr(o, s, st)
			}
		}
	}
}

// c13emitFparse ties Lean's model of cmd/asm's reading of a parenthesised DATA value to the harness's.
func c13emitFparse(o *out, n int, text string, st map[string]int) {
	ab, ok := c13asmFloat(text, n)
	resp := strconv.FormatUint(ab, 16)
	if !ok {
		resp = "unparsable"
	}
	o.emit(fmt.Sprintf("fparse %d %s", n, hexs(text)), resp)
	st["fparse_probes"]++
}

func c13emitF32(o *out, bits uint32, st map[string]int) {
	text, ab := c13f32Check(bits)
	o.emit(fmt.Sprintf("fparse 4 %s", hexs(text)), strconv.FormatUint(uint64(ab), 16))
	o.emit(fmt.Sprintf("accept-f32 %08x %s %08x", bits, hexs(text), ab), "ok")
	st["f32_requests"]++
}

func c13emitF64(o *out, bits uint64, st map[string]int) {
	text, ab := c13f64Check(bits)
	o.emit(fmt.Sprintf("fparse 8 %s", hexs(text)), strconv.FormatUint(ab, 16))
	o.emit(fmt.Sprintf("accept-f64 %016x %s %016x", bits, hexs(text), ab), "ok")
	st["f64_requests"]++
}

func c13emitInt(o *out, c c13const, st map[string]int) {
	text := c.op().Asm()
	v := strings.SplitN(c.tok(), ":", 2)[1]
	o.emit(fmt.Sprintf("int %s %s", c.kind, v), hexs(text))
	o.emit(fmt.Sprintf("accept-int %s %s %s", c.kind, v, hexs(text)), "ok")
	st["int_requests"]++
}

func c13emitStr(o *out, s string, st map[string]int) {
	text := operand.String(s).Asm()
	pr := c13printable(s)
	req := []string{"str", hexs(s), itoa(len(pr))}
	for _, p := range pr {
		req = append(req, itoa(p))
	}
	o.emit(strings.Join(req, " "), hexs(text))
	o.emit(fmt.Sprintf("accept-str %s %s", hexs(s), hexs(text)), "ok")
	st["str_requests"]++
}

// ---------------------------------------------------------------- main

func init() {
	register("c13", "data sections: placement, image, DATA/GLOBL lines, constants' text; measured with the toolchain", func(args []string) error {
		f := newStdFlags("c13")
		workdir := f.fs.String("dir", "meas", "scratch directory of the measured part")
		nmeas := f.fs.Int("measure", 300, "max number of sections built and read back from a running binary")
		nnonmono := f.fs.Int("nonmono", 4, "number of out-of-order sections assembled alone")
		f32count := f.fs.Uint64("f32", 1<<24, "float32 values swept (stratified)")
		f32budget := f.fs.Int("f32budget", 60, "seconds allowed for the float32 sweep")
		if err := f.fs.Parse(args); err != nil {
			return err
		}
		o, err := openOut(f)
		if err != nil {
			return err
		}
		defer o.close()
		st := map[string]int{}
		r := newRng(*f.seed)
		if *f.replay != "" {
			lines, err := readLines(*f.replay)
			if err != nil {
				return err
			}
			for k, l := range lines {
				c13replayLine(o, l, st, k)
			}
			return writeJSON(*f.stats, st)
		}

		// 1. constants' text: every integer type at its boundaries + random values
		for _, k := range c13intKinds {
			for _, c := range c13intBoundaries(k) {
				c13emitInt(o, c, st)
			}
			for j := 0; j < *f.n/40+20; j++ {
				c13emitInt(o, c13intConst(k, r.u64()>>uint(r.intn(64))), st)
			}
		}
		// strings
		for _, s := range []string{"", "a", "\"", "\\", "\x00", "\n", "\xff", "é", " ", "\U0001f600", "\xed\xa0\x80", "a\"b\\c\x00d\ne\x7f", "\xc3", "\xef\xbf\xbd", "$(1.0)", "%q %d", "\u00b7", "\u2215", "a\u00b7b\u2215c", "\xc2\xb7\xe2\x88"} {
			c13emitStr(o, s, st)
		}
		for j := 0; j < *f.n/4+50; j++ {
			c13emitStr(o, c13randString(r), st)
		}
		// floats: the F11 witnesses always, boundaries, random
		for _, b := range c13f11 {
			c13emitF32(o, b, st)
		}
		for _, b := range c13f32Boundaries {
			c13emitF32(o, b, st)
		}
		for _, b := range c13f64Boundaries {
			c13emitF64(o, b, st)
		}
		for j := 0; j < *f.n/2+100; j++ {
			c13emitF32(o, c13randF32(r), st)
			c13emitF64(o, c13randF64(r), st)
		}

		// literals WITHOUT a decimal point are integers for cmd/asm (issue 387): the two models of the assembler agree
		for _, t := range []string{"2", "-2", "0", "-0", "+0", "100", "16777216", "4294967296", "-1", "--1", "010", "9007199254740993",
			"18446744073709551615", "18446744073709551616", "2.", "2.0", "-2.0", "0.0", "-0.0", ".5", "00.5", "1.5.5", "", "-", "NaN.0", "+Inf.0"} {
			c13emitFparse(o, 4, t, st)
			c13emitFparse(o, 8, t, st)
		}

		// 2. placement sequences
		fixed := []c13case{
			{name: "e0", attrs: attr.RODATA | attr.NOPTR},
			{name: "e1", attrs: attr.NOPTR, ops: []c13op{{kind: 'p', off: 0, c: c13const{kind: "u32", u: 1}}, {kind: 'p', off: 4, c: c13const{kind: "u32", u: 2}}}},
			{name: "e2", attrs: attr.NOPTR, ops: []c13op{{kind: 'p', off: 0, c: c13const{kind: "u64", u: 1}}, {kind: 'p', off: 7, c: c13const{kind: "u8", u: 2}}, {kind: 'p', off: 8, c: c13const{kind: "i8", i: -1}}}},
			{name: "e3", attrs: attr.NOPTR, ops: []c13op{{kind: 'p', off: 8, c: c13const{kind: "u32", u: 1}}, {kind: 'p', off: 0, c: c13const{kind: "u32", u: 2}}}}, // out of order (F14)
			{name: "e4", attrs: attr.NOPTR, ops: []c13op{{kind: 'p', off: 0, c: c13const{kind: "s", s: ""}}, {kind: 'p', off: 0, c: c13const{kind: "u32", u: 5}}, {kind: 'p', off: 2, c: c13const{kind: "s", s: ""}}, {kind: 'p', off: 4, c: c13const{kind: "s", s: ""}}}},
			{name: "e5", attrs: attr.NOPTR, ops: []c13op{{kind: 'a', c: c13const{kind: "f64", u: 0x8000000000000000}}, {kind: 'g', off: 32}, {kind: 'a', c: c13const{kind: "f32", u: 0x80000000}}, {kind: 'p', off: 8, c: c13const{kind: "s", s: "abc\x00\xff\"é"}}}},
			{name: "e6", attrs: attr.RODATA | attr.NOPTR, via: c13viaCtxConst, ops: []c13op{{kind: 'a', c: c13const{kind: "u64", u: 0xffffffffffffffff}}}},
			{name: "e7", attrs: attr.NOPTR, ops: []c13op{{kind: 'p', off: -4, c: c13const{kind: "u32", u: 1}}}},
			{name: "e9", attrs: attr.NOPTR, ops: []c13op{{kind: 'a', c: c13const{kind: "s", s: "p\u00b7q"}}, {kind: 'a', c: c13const{kind: "u8", u: 7}}}}, // F15
			{name: "e10", attrs: attr.RODATA | attr.NOPTR, via: c13viaPkg, decoy: true, ops: []c13op{{kind: 'p', off: 0, c: c13const{kind: "u32", u: 1}}, {kind: 'p', off: 4, c: c13const{kind: "u32", u: 2}}, {kind: 'p', off: 2, c: c13const{kind: "u16", u: 3}}, {kind: 'a', c: c13const{kind: "f32", u: 0x40000000}}}},
			{name: "e11", via: c13viaPkgConst, ops: []c13op{{kind: 'a', c: c13const{kind: "f64", u: 0x4000000000000000}}}},
			{name: "e12", attrs: attr.NOPTR | attr.DUPOK, via: c13viaIRDirect, decoy: true, ops: []c13op{{kind: 'a', c: c13const{kind: "s", s: "ir"}}, {kind: 'p', off: 1, c: c13const{kind: "u8", u: 3}}, {kind: 'p', off: 2, c: c13const{kind: "i32", i: -1}}}},
			{name: "e13", attrs: attr.NOPTR, ops: []c13op{{kind: 'p', off: 0, c: c13const{kind: "u32", u: 1}}, {kind: 'p', off: -4, c: c13const{kind: "u32", u: 2}}}},
			{name: "e14", attrs: attr.NOPTR, via: c13viaPkg, ops: []c13op{{kind: 'p', off: -2, c: c13const{kind: "s", s: "ab"}}, {kind: 'p', off: 0, c: c13const{kind: "u8", u: 2}}}},
			{name: "e15", attrs: 0x8000 | attr.NOPTR, ops: []c13op{{kind: 'a', c: c13const{kind: "u8", u: 2}}}},
			{name: "e8", attrs: attr.NOPTR, ops: []c13op{{kind: 'p', off: 4, c: c13const{kind: "i64", i: math.MinInt64}}, {kind: 'p', off: 0, c: c13const{kind: "i64", i: 1}}, {kind: 'p', off: 12, c: c13const{kind: "i16", i: -32768}}}},
		}
		// a fixed table: 300 adjacent entries of every kind, then probes on old entries (all rejected), so that
		// every run measures at least one large section end to end
		{
			tr := newRng(12345)
			tc := c13case{name: "tbl", attrs: attr.RODATA | attr.NOPTR}
			off := 0
			var los []int
			for i := 0; i < 300; i++ {
				cst := c13smallConst(tr)
				if cst.size() == 0 {
					cst = c13const{kind: "u8", u: uint64(i & 0xff)}
				}
				tc.ops = append(tc.ops, c13op{kind: 'p', off: off, c: cst})
				los = append(los, off)
				off += cst.size()
			}
			for _, i := range []int{0, 1, 7, 100, 150, 200, 286, 287, 288, 298, 299} {
				tc.ops = append(tc.ops, c13op{kind: 'p', off: los[i], c: c13const{kind: "u8", u: 0xee}})
			}
			tc.ops = append(tc.ops, c13op{kind: 'a', off: off, c: c13const{kind: "u32", u: 0xcafef00d}})
			fixed = append(fixed, tc)
		}
		var meas []c13meas
		counts := map[string]int{}
		safeAttrs := []attr.Attribute{attr.NOPTR, attr.RODATA | attr.NOPTR, attr.NOPTR | attr.DUPOK, attr.RODATA | attr.NOPTR | attr.DUPOK}
		consider := func(c c13case, res c13result) {
			if res.panicked || res.size > 1<<16 {
				return
			}
			order := c13order(c, res)
			limit := *nmeas
			switch order {
			case "outoforder":
				limit = *nnonmono
			case "negative":
				limit = *nnonmono/2 + 2
			}
			key := order
			if order == "inorder" && len(res.data) >= 100 {
				key, limit = "inorder-large", 12+*nmeas/40 // always some large tables among the measured sections
			}
			if counts[key] >= limit {
				return
			}
			counts[key]++
			c.attrs = pick(r, safeAttrs) // attribute sets the linker accepts for pointer-free asm data
			meas = append(meas, c13meas{c: c, data: res.data, size: res.size, order: order})
		}
		for _, c := range fixed {
			res := c13run(c)
			c13emitCase(o, c, res, st)
			consider(c, res)
		}
		for k := 0; k < *f.n; k++ {
			c := c13genCase(r, k)
			res := c13run(c)
			c13emitCase(o, c, res, st)
			consider(c, res)
		}

		// 3. measured: sections read back from a running binary; a dedicated section of floats
		var fl []c13op
		for _, b := range c13f11 {
			fl = append(fl, c13op{kind: 'a', c: c13const{kind: "f32", u: uint64(b)}})
		}
		for _, b := range c13f32Boundaries {
			fl = append(fl, c13op{kind: 'a', c: c13const{kind: "f32", u: uint64(b)}})
		}
		for _, b := range c13f64Boundaries {
			fl = append(fl, c13op{kind: 'a', c: c13const{kind: "f64", u: b}})
		}
		for j := 0; j < 200; j++ {
			fl = append(fl, c13op{kind: 'a', c: c13const{kind: "f32", u: uint64(c13randF32(r))}})
			fl = append(fl, c13op{kind: 'a', c: c13const{kind: "f64", u: c13randF64(r)}})
		}
		fc := c13case{name: "floats", attrs: attr.RODATA | attr.NOPTR, ops: fl}
		fres := c13run(fc)
		meas = append(meas, c13meas{c: fc, data: fres.data, size: fres.size, order: "inorder"})
		if err := c13measure(filepath.Join(*workdir, "prog"), meas, o, st, "m"); err != nil {
			return err
		}
		// the F11 witnesses through the real assembler and linker
		{
			var ops []c13op
			for _, b := range c13f11 {
				ops = append(ops, c13op{kind: 'a', c: c13const{kind: "f32", u: uint64(b)}})
			}
			wc := c13case{name: "w", attrs: attr.RODATA | attr.NOPTR, ops: ops}
			var sub c13out2
			if err := c13measureRaw(filepath.Join(*workdir, "f11"), wc, &sub); err == nil && len(sub.bytes) == 4*len(c13f11) {
				for i, b := range c13f11 {
					got := uint32(sub.bytes[4*i]) | uint32(sub.bytes[4*i+1])<<8 | uint32(sub.bytes[4*i+2])<<16 | uint32(sub.bytes[4*i+3])<<24
					text, _ := c13f32Check(b)
					o.emit(fmt.Sprintf("accept-asm-f32 %08x %s %08x", b, hexs(text), got), "ok")
					st["f11_witnesses_assembled"]++
				}
			} else {
				st["f11_probe_failed"]++
			}
		}
		// 4. float32 sweep (measured, in-process: the conversion cmd/asm applies)
		start := (*f.seed * 0x51ed27) % (1 << 32)
		if *f32count >= 1<<32 {
			start = 0
		}
		checked, bad := c13sweepF32(start, *f32count, time.Duration(*f32budget)*time.Second)
		for i, b := range bad {
			if i >= 2000 {
				break // enough witnesses; the count is in the stats
			}
			c13emitF32(o, b, st)
		}
		// tie String() (used by the sweep) to Asm() on a sample
		for j := 0; j < 2000; j++ {
			b := c13randF32(r)
			if j < len(c13f11) {
				b = c13f11[j]
			}
			f := operand.F32(math.Float32frombits(b))
			if got, want := f.Asm(), "$("+f.String()+")"; got != want {
				// Asm() does not print String(): judge the sample through the real Asm()
				c13emitF32(o, b, st)
				st["f32_asm_differs_from_string"]++
			}
		}
		stats := map[string]any{}
		for k, v := range st {
			stats[k] = v
		}
		stats["f32_sweep_checked"] = checked
		stats["f32_sweep_requested"] = *f32count
		stats["f32_sweep_failures"] = len(bad)
		stats["f32_sweep_start_index"] = start
		return writeJSON(*f.stats, stats)
	})
}

type c13out2 struct{ bytes []byte }

// c13measureRaw builds a one-section program and returns the symbol's bytes.
func c13measureRaw(dir string, c c13case, res *c13out2) error {
	o, err := c13newNullOut()
	if err != nil {
		return err
	}
	defer o.close()
	st := map[string]int{}
	r := c13run(c)
	ms := []c13meas{{c: c, data: r.data, size: r.size, order: "inorder"}}
	if err := c13measure(dir, ms, o, st, "w"); err != nil {
		return err
	}
	outp, err := exec.Command(filepath.Join(c13mustAbs(dir), "prog", "c13data")).Output()
	if err != nil {
		return err
	}
	fs := strings.Fields(string(outp))
	if len(fs) < 2 {
		return fmt.Errorf("no output")
	}
	b, err := hex.DecodeString(fs[1])
	res.bytes = b
	return err
}

func c13mustAbs(p string) string {
	a, err := filepath.Abs(p)
	if err != nil {
		panic(err)
	}
	return a
}

func c13newNullOut() (*out, error) {
	fo, err := os.OpenFile(os.DevNull, os.O_WRONLY, 0)
	if err != nil {
		return nil, err
	}
	fi, err := os.OpenFile(os.DevNull, os.O_WRONLY, 0)
	if err != nil {
		return nil, err
	}
	return &out{ops: bufio.NewWriter(fo), impl: bufio.NewWriter(fi), fo: fo, fi: fi}, nil
}

var _ = reg.RAX
