package main

import (
	"bufio"
	"bytes"
	"encoding/hex"
	"fmt"
	"math"
	"os"
	"os/exec"
	"path/filepath"
	"runtime"
	"sort"
	"strconv"
	"strings"
	"sync"
	"sync/atomic"
	"time"
	"unicode/utf8"

	"github.com/mmcloughlin/avo/attr"
	"github.com/mmcloughlin/avo/build"
	"github.com/mmcloughlin/avo/ir"
	"github.com/mmcloughlin/avo/operand"
	"github.com/mmcloughlin/avo/pass"
	"github.com/mmcloughlin/avo/printer"
	"github.com/mmcloughlin/avo/reg"
)

// C13: data sections.  Random placement sequences through the real
// build.Context / ir.Global API (overlapping, adjacent, zero-length,
// out-of-order, appends after gaps, grows), all constant kinds with boundary
// values: exact comparison of accept/reject flags, data list, size and the
// printed DATA/GLOBL lines with the Lean model; acceptors stating the property
// on the implementation's own output; MEASURED: the printed file is built with
// the Go toolchain and the bytes of every symbol are read from the running
// binary and compared with the model image.  Floats are measured: the printed
// decimal is converted the way cmd/asm does (ParseFloat 64, then float32).

// ---------------------------------------------------------------- constants

type c13const struct {
	kind string // i8 u8 i16 u16 i32 u32 i64 u64 f32 f64 s
	i    int64
	u    uint64 // unsigned value or float bits
	s    string
}

func (c c13const) op() operand.Constant {
	switch c.kind {
	case "i8":
		return operand.I8(c.i)
	case "u8":
		return operand.U8(c.u)
	case "i16":
		return operand.I16(c.i)
	case "u16":
		return operand.U16(c.u)
	case "i32":
		return operand.I32(c.i)
	case "u32":
		return operand.U32(c.u)
	case "i64":
		return operand.I64(c.i)
	case "u64":
		return operand.U64(c.u)
	case "f32":
		return operand.F32(math.Float32frombits(uint32(c.u)))
	case "f64":
		return operand.F64(math.Float64frombits(c.u))
	}
	return operand.String(c.s)
}

// c13fromOp reads a constant back from the implementation's data list.
func c13fromOp(v operand.Constant) c13const {
	switch x := v.(type) {
	case operand.I8:
		return c13const{kind: "i8", i: int64(x)}
	case operand.U8:
		return c13const{kind: "u8", u: uint64(x)}
	case operand.I16:
		return c13const{kind: "i16", i: int64(x)}
	case operand.U16:
		return c13const{kind: "u16", u: uint64(x)}
	case operand.I32:
		return c13const{kind: "i32", i: int64(x)}
	case operand.U32:
		return c13const{kind: "u32", u: uint64(x)}
	case operand.I64:
		return c13const{kind: "i64", i: int64(x)}
	case operand.U64:
		return c13const{kind: "u64", u: uint64(x)}
	case operand.F32:
		return c13const{kind: "f32", u: uint64(math.Float32bits(float32(x)))}
	case operand.F64:
		return c13const{kind: "f64", u: math.Float64bits(float64(x))}
	case operand.String:
		return c13const{kind: "s", s: string(x)}
	}
	return c13const{kind: "?"}
}

// c13floatText returns the decimal text the implementation prints for a float
// constant (between `$(` and `)`) or "" if the form is unexpected.
func c13floatText(v operand.Constant) string {
	a := v.Asm()
	if strings.HasPrefix(a, "$(") && strings.HasSuffix(a, ")") {
		return a[2 : len(a)-1]
	}
	return ""
}

// c13asmFloat is what cmd/asm does with a float DATA value of n bytes:
// strconv.ParseFloat(text, 64), then a float32 conversion for 4 bytes
// (asm.go asmData: WriteFloat32(float32(val.(float64)))).
func c13asmFloat(text string, n int) (uint64, bool) {
	neg := false
	t := text
	for len(t) > 0 && (t[0] == '-' || t[0] == '+') {
		if t[0] == '-' {
			neg = !neg
		}
		t = t[1:]
	}
	v, err := strconv.ParseFloat(t, 64)
	if err != nil {
		return 0, false
	}
	if neg {
		v = -v
	}
	if n == 4 {
		return uint64(math.Float32bits(float32(v))), true
	}
	return math.Float64bits(v), true
}

func (c c13const) tok() string {
	switch c.kind {
	case "i8", "i16", "i32", "i64":
		return c.kind + ":" + strconv.FormatInt(c.i, 10)
	case "u8", "u16", "u32", "u64":
		return c.kind + ":" + strconv.FormatUint(c.u, 10)
	case "f32", "f64":
		n := 4
		if c.kind == "f64" {
			n = 8
		}
		text := c13floatText(c.op())
		ab, ok := c13asmFloat(text, n)
		abs := strconv.FormatUint(ab, 16)
		if !ok {
			abs = "ffffffffffffffffff" // unparsable
		}
		return c.kind + ":" + strconv.FormatUint(c.u, 16) + ":" + hexs(text) + ":" + abs
	}
	return "s:" + hexs(c.s)
}

func (c c13const) size() int {
	switch c.kind {
	case "i8", "u8":
		return 1
	case "i16", "u16":
		return 2
	case "i32", "u32", "f32":
		return 4
	case "i64", "u64", "f64":
		return 8
	}
	return len(c.s)
}

var c13intKinds = []string{"i8", "u8", "i16", "u16", "i32", "u32", "i64", "u64"}

func c13bits(kind string) uint {
	switch kind {
	case "i8", "u8":
		return 8
	case "i16", "u16":
		return 16
	case "i32", "u32":
		return 32
	}
	return 64
}

func c13intConst(kind string, raw uint64) c13const {
	b := c13bits(kind)
	if b < 64 {
		raw &= (1 << b) - 1
	}
	if kind[0] == 'u' {
		return c13const{kind: kind, u: raw}
	}
	// sign extend
	v := int64(raw<<(64-b)) >> (64 - b)
	return c13const{kind: kind, i: v}
}

func c13intBoundaries(kind string) []c13const {
	b := c13bits(kind)
	raws := []uint64{0, 1, 2, 9, 10, 15, 16, 255, 256, 1<<(b-1) - 1, 1 << (b - 1), 1<<(b-1) + 1, ^uint64(0), ^uint64(0) - 1, 0x8080808080808080, 0x0123456789abcdef, 99999, 100000}
	var out []c13const
	for _, r := range raws {
		out = append(out, c13intConst(kind, r))
	}
	return out
}

var c13f32Boundaries = []uint32{0, 0x80000000, 1, 0x80000001, 0x007fffff, 0x00800000, 0x00800001, 0x7f7fffff, 0xff7fffff,
	0x3f800000, 0xbf800000, 0x40000000, 0x4b800000, 0x4b7fffff, 0x4b000001, 0x5f000000, 0x3dcccccd, 0x3eaaaaab, 0x40490fdb, 0x7f000000, 0x00000002,
	0x33800000, 0x34000000, 0x3f7fffff, 0x3f800001, 0x501502f9, 0x0da24260}

var c13f64Boundaries = []uint64{0, 0x8000000000000000, 1, 0x8000000000000001, 0x000fffffffffffff, 0x0010000000000000, 0x0010000000000001,
	0x7fefffffffffffff, 0xffefffffffffffff, 0x3ff0000000000000, 0xbff0000000000000, 0x4340000000000000, 0x433fffffffffffff, 0x4340000000000001,
	0x3fb999999999999a, 0x3fd5555555555555, 0x400921fb54442d18, 0x7fe0000000000000, 0x3cb0000000000000, 0x3ca0000000000000, 0x3fefffffffffffff,
	0x44b52d02c7e14af6, 0x0000000000000002, 0x36a0000000000000, 0x47efffffe0000000, 0x3810000000000000}

// the two float32 values of DESIGN §6 F11
var c13f11 = []uint32{0x15ae43fd, 0x95ae43fd}

func c13randF32(r *rng) uint32 {
	for {
		var b uint32
		switch r.intn(4) {
		case 0:
			b = uint32(r.u64())
		case 1: // small exponent range around 1
			b = uint32(r.intn(2))<<31 | uint32(100+r.intn(60))<<23 | uint32(r.u64())&0x7fffff
		case 2: // subnormal
			b = uint32(r.intn(2))<<31 | uint32(r.u64())&0x7fffff
		default: // integer valued
			b = math.Float32bits(float32(int32(r.u64()) >> uint(r.intn(31))))
		}
		if b&0x7f800000 != 0x7f800000 {
			return b
		}
	}
}

func c13randF64(r *rng) uint64 {
	for {
		var b uint64
		switch r.intn(4) {
		case 0:
			b = r.u64()
		case 1:
			b = uint64(r.intn(2))<<63 | uint64(1000+r.intn(60))<<52 | r.u64()&(1<<52-1)
		case 2:
			b = uint64(r.intn(2))<<63 | r.u64()&(1<<52-1)
		default:
			b = math.Float64bits(float64(int64(r.u64()) >> uint(r.intn(63))))
		}
		if b&0x7ff0000000000000 != 0x7ff0000000000000 {
			return b
		}
	}
}

var c13runes = []rune{0xb7, 0x2215, 0xe9, 0x3b1, 0x4e16, 0x1f600, 0x2028, 0xad, 0xfffd, 0x10ffff, 0x80, 0x7ff, 0x800, 0xffff, 0x10000, 0xe000, 0xd7ff, 0x85, 0xa0, 0x200b, 0xfeff, 0x378}

func c13randString(r *rng) string {
	n := 0
	switch r.intn(8) {
	case 0:
		n = 0
	case 1:
		n = 1
	case 2:
		n = r.rangeIn(40, 300)
	default:
		n = r.rangeIn(2, 24)
	}
	mode := r.intn(6)
	var b []byte
	for len(b) < n {
		m := mode
		if m == 5 {
			m = r.intn(5)
		}
		switch m {
		case 0: // printable ASCII
			b = append(b, byte(r.rangeIn(0x20, 0x7e)))
		case 1: // quotes, backslashes, controls
			b = append(b, pick(r, []byte{'"', '\\', '\'', 0, 7, 8, 9, 10, 11, 12, 13, 0x1b, 0x7f, '$', '(', ')', '%', '\x01', '`'}))
		case 2: // arbitrary bytes (invalid UTF-8 likely)
			b = append(b, byte(r.u64()))
		case 3: // valid multi-byte runes
			b = utf8.AppendRune(b, pick(r, c13runes))
		default: // truncated / overlong / surrogate encodings
			b = append(b, pick(r, [][]byte{{0xc3}, {0xe2, 0x82}, {0xf0, 0x9f, 0x98}, {0xc0, 0x80}, {0xe0, 0x80, 0x80}, {0xed, 0xa0, 0x80}, {0xf4, 0x90, 0x80, 0x80}, {0xf8, 0x88, 0x80, 0x80, 0x80}, {0xc1, 0xbf}, {0xef, 0xbf, 0xbd}, {0xff}, {0xfe}})...)
		}
	}
	return string(b)
}

func c13randConst(r *rng) c13const {
	switch r.intn(10) {
	case 0, 1, 2, 3:
		k := pick(r, c13intKinds)
		if r.chance(1, 2) {
			return pick(r, c13intBoundaries(k))
		}
		return c13intConst(k, r.u64()>>uint(r.intn(64)))
	case 4:
		if r.chance(1, 2) {
			return c13const{kind: "f32", u: uint64(pick(r, c13f32Boundaries))}
		}
		return c13const{kind: "f32", u: uint64(c13randF32(r))}
	case 5:
		if r.chance(1, 2) {
			return c13const{kind: "f64", u: pick(r, c13f64Boundaries)}
		}
		return c13const{kind: "f64", u: c13randF64(r)}
	default:
		return c13const{kind: "s", s: c13randString(r)}
	}
}

// c13printable lists the runes >= 0x80 that the implementation prints raw inside
// string literals.  String.Asm uses `$%+q` (ASCII-only quoting, fix of F15): none.
// (With `$%q` it was: the validly encoded runes for which strconv.IsPrint holds.)
func c13printable(strs ...string) []int {
	return nil
}

var _ = utf8.RuneError
var _ = sort.Ints

// ---------------------------------------------------------------- sections

type c13op struct {
	kind byte // 'p' place, 'a' append, 'g' grow
	off  int
	c    c13const
}

func (o c13op) toks() []string {
	switch o.kind {
	case 'p':
		return []string{"p", itoa(o.off), o.c.tok()}
	case 'a':
		return []string{"a", o.c.tok()}
	}
	return []string{"g", itoa(o.off)}
}

type c13datum struct {
	off int
	c   c13const
}

type c13case struct {
	name  string
	attrs attr.Attribute
	ops   []c13op
	viaConstData bool
}

type c13result struct {
	panicked bool
	appendAt []int // per op: offset the implementation chose for an append (else 0)
	flags    []bool
	data     []c13datum
	size     int
	block    string // DATA…GLOBL lines of the printed file
	attrText string
}

// c13apply runs the ops on ctx (a fresh section `name`); returns the section.
func c13apply(ctx *build.Context, c c13case, flags *[]bool) *ir.Global {
	g, _ := c13applyAt(ctx, c, flags)
	return g
}

// c13newDatum finds the datum that is in `after` but not in `before`.
func c13newDatum(before, after []ir.Datum) (ir.Datum, bool) {
	used := make([]bool, len(before))
outer:
	for _, d := range after {
		for i, b := range before {
			if !used[i] && b.Offset == d.Offset && b.Value == d.Value {
				used[i] = true
				continue outer
			}
		}
		return d, true
	}
	return ir.Datum{}, false
}

func c13applyAt(ctx *build.Context, c c13case, flags *[]bool) (*ir.Global, []int) {
	var at []int
	if c.viaConstData && len(c.ops) == 1 && c.ops[0].kind == 'a' {
		ctx.ConstData(c.name, c.ops[0].c.op())
		*flags = append(*flags, true)
	} else {
		ctx.StaticGlobal(c.name)
		ctx.DataAttributes(c.attrs)
	}
	f, _ := ctx.Result()
	g := f.Sections[len(f.Sections)-1].(*ir.Global)
	if c.viaConstData && len(c.ops) == 1 && c.ops[0].kind == 'a' {
		off := 0
		if len(g.Data) > 0 {
			off = g.Data[len(g.Data)-1].Offset
		}
		return g, []int{off}
	}
	for _, op := range c.ops {
		at = append(at, 0)
		switch op.kind {
		case 'p':
			before := ctx.VerifErrCount()
			ctx.AddDatum(op.off, op.c.op())
			*flags = append(*flags, ctx.VerifErrCount() == before)
		case 'a':
			before := append([]ir.Datum(nil), g.Data...)
			ctx.AppendDatum(op.c.op())
			*flags = append(*flags, true)
			if d, ok := c13newDatum(before, g.Data); ok {
				at[len(at)-1] = d.Offset
			}
		case 'g':
			g.Grow(op.off)
			*flags = append(*flags, true)
		}
	}
	return g, at
}

func c13run(c c13case) (res c13result) {
	defer func() {
		if e := recover(); e != nil {
			res.panicked = true
		}
	}()
	ctx := build.NewContext()
	g, at := c13applyAt(ctx, c, &res.flags)
	res.appendAt = at
	for _, d := range g.Data {
		res.data = append(res.data, c13datum{d.Offset, c13fromOp(d.Value)})
	}
	res.size = g.Size
	res.attrText = g.Attributes.Asm()
	f, _ := ctx.Result() // placement errors are expected: print what was built
	out, err := printer.NewGoAsm(printer.Config{Name: "avoh", Pkg: "p"}).Print(f)
	if err != nil {
		panic(err)
	}
	var blk []string
	for _, l := range strings.Split(string(out), "\n") {
		if strings.HasPrefix(l, "DATA ") || strings.HasPrefix(l, "GLOBL ") {
			blk = append(blk, l+"\n")
		}
	}
	res.block = strings.Join(blk, "")
	return
}

func c13genCase(r *rng, k int) c13case {
	c := c13case{name: fmt.Sprintf("g%d", k)}
	switch r.intn(8) {
	case 0:
		c.attrs = attr.NOPTR
	case 1:
		c.attrs = 0
	case 2:
		c.attrs = attr.Attribute(r.u64() & 0xffff)
	case 3:
		c.attrs = attr.RODATA
	default:
		c.attrs = attr.RODATA | attr.NOPTR
	}
	if r.chance(1, 12) {
		c.viaConstData = true
		c.ops = []c13op{{kind: 'a', c: c13randConst(r)}}
		return c
	}
	// track what a straightforward reading of the calls gives, only to aim the generator
	type iv struct{ lo, hi int }
	var ivs []iv
	size := 0
	n := r.intn(10)
	style := r.intn(4) // 0: in order, 1: mixed, 2: overlap-heavy, 3: out-of-order-heavy
	for i := 0; i < n; i++ {
		cst := c13randConst(r)
		if cst.kind == "s" && len(cst.s) > 40 && r.chance(2, 3) {
			cst.s = cst.s[:r.intn(12)]
		}
		sz := cst.size()
		choice := r.intn(12)
		if style == 0 && choice > 3 {
			choice = r.intn(4)
		}
		if style == 2 && r.chance(1, 2) {
			choice = 6
		}
		if style == 3 && r.chance(1, 2) {
			choice = 7
		}
		op := c13op{kind: 'p', c: cst}
		switch choice {
		case 0, 1: // adjacent at the end
			op.off = size
		case 2: // aligned after the end
			a := sz
			if a == 0 || a > 8 {
				a = 8
			}
			op.off = (size + a - 1) / a * a
		case 3: // append
			op.kind = 'a'
		case 4: // after a gap
			op.off = size + r.rangeIn(1, 20)
		case 5: // append after a grow
			c.ops = append(c.ops, c13op{kind: 'g', off: size + r.rangeIn(-4, 24)})
			if g := c.ops[len(c.ops)-1].off; g > size {
				size = g
			}
			op.kind = 'a'
		case 6: // overlapping an existing datum
			if len(ivs) > 0 {
				v := pick(r, ivs)
				op.off = r.rangeIn(v.lo-sz+1-r.intn(2), v.hi-1+r.intn(2))
			} else {
				op.off = r.intn(8)
			}
		case 7: // before an existing datum (out of order), often exactly adjacent
			if len(ivs) > 0 {
				v := pick(r, ivs)
				op.off = v.lo - sz - pick(r, []int{0, 0, 1, 3, 8})
			} else {
				op.off = r.rangeIn(1, 30)
			}
		case 8: // anywhere inside
			op.off = r.intn(size + 2)
		case 9: // zero-length string somewhere interesting
			op.c = c13const{kind: "s", s: ""}
			sz = 0
			if len(ivs) > 0 {
				v := pick(r, ivs)
				op.off = pick(r, []int{v.lo, v.hi, (v.lo + v.hi) / 2, v.lo + 1})
			} else {
				op.off = r.intn(3)
			}
		case 10:
			op.off = size + r.rangeIn(0, 3)
		default: // far away
			op.off = r.rangeIn(0, 3000)
		}
		if op.kind == 'p' && op.off < 0 && !r.chance(1, 12) {
			op.off = -op.off // negative offsets are outside the property: keep only a few
		}
		if op.kind == 'a' {
			op.off = size
		}
		c.ops = append(c.ops, op)
		// bookkeeping (only an approximation: rejected placements are not tracked precisely)
		ok := true
		for _, v := range ivs {
			if !(v.hi <= op.off || op.off+sz <= v.lo) {
				ok = false
			}
		}
		if ok || op.kind == 'a' {
			ivs = append(ivs, iv{op.off, op.off + sz})
			if op.off+sz > size {
				size = op.off + sz
			}
		}
	}
	if r.chance(1, 10) {
		c.ops = append(c.ops, c13op{kind: 'g', off: r.rangeIn(0, size+40)})
	}
	return c
}

func c13dataToks(data []c13datum) []string {
	out := []string{itoa(len(data))}
	for _, d := range data {
		out = append(out, itoa(d.off), d.c.tok())
	}
	return out
}

func c13flags(fs []bool) string {
	if len(fs) == 0 {
		return "-"
	}
	var b strings.Builder
	for _, f := range fs {
		if f {
			b.WriteByte('1')
		} else {
			b.WriteByte('0')
		}
	}
	return b.String()
}

// c13mono: are the data in an order cmd/asm accepts (each entry at or after
// the end of the previous one)?
func c13mono(data []c13datum) bool {
	last := 0
	for _, d := range data {
		if d.off < last {
			return false
		}
		last = d.off + d.c.size()
	}
	return true
}

func c13inScope(c c13case) bool {
	for _, op := range c.ops {
		if op.kind == 'p' && op.off < 0 {
			return false
		}
	}
	return true
}

func c13emitCase(o *out, c c13case, res c13result, st map[string]int) {
	var strs []string
	for _, op := range c.ops {
		if op.c.kind == "s" {
			strs = append(strs, op.c.s)
		}
	}
	pr := c13printable(strs...)
	req := []string{"data", hexs(c.name + "<>"), hexs(res.attrText), itoa(len(pr))}
	for _, p := range pr {
		req = append(req, itoa(p))
	}
	var opsToks []string
	for _, op := range c.ops {
		opsToks = append(opsToks, op.toks()...)
	}
	opsPart := append([]string{itoa(len(c.ops))}, opsToks...)
	req = append(req, opsPart...)
	line := strings.Join(req, " ")
	if res.panicked {
		st["panic"]++
		o.emit(line, "panic")
		return
	}
	resp := []string{c13flags(res.flags), itoa(res.size), itoa(len(res.data))}
	for _, d := range res.data {
		resp = append(resp, fmt.Sprintf("%d:%d", d.off, d.c.size()))
	}
	resp = append(resp, hexs(res.block))
	o.emit(line, strings.Join(resp, " "))
	// acceptors on the implementation's own output
	acc := []string{"accept-data", c13flags(res.flags), itoa(res.size)}
	acc = append(acc, c13dataToks(res.data)...)
	acc = append(acc, itoa(len(c.ops)))
	for i, op := range c.ops {
		if op.kind == 'a' {
			off := 0
			if i < len(res.appendAt) {
				off = res.appendAt[i]
			}
			acc = append(acc, "a", itoa(off), op.c.tok())
		} else {
			acc = append(acc, op.toks()...)
		}
	}
	o.emit(strings.Join(acc, " "), "ok")
	if c13mono(res.data) {
		al := []string{"accept-lines", hexs(c.name + "<>"), itoa(res.size)}
		al = append(al, c13dataToks(res.data)...)
		al = append(al, hexs(res.block))
		o.emit(strings.Join(al, " "), "ok")
	}
	// statistics
	st["sections"]++
	if !c13inScope(c) {
		st["out_of_scope_negative_offset"]++
	}
	if !c13mono(res.data) {
		st["data_not_in_increasing_order"]++
	}
	for i, f := range res.flags {
		if !f {
			st["placements_rejected"]++
		} else if c.ops[min(i, len(c.ops)-1)].kind == 'p' {
			st["placements_accepted"]++
		}
	}
	for _, op := range c.ops {
		switch op.kind {
		case 'a':
			st["appends"]++
		case 'g':
			st["grows"]++
		}
		if op.kind != 'g' {
			st["const_"+op.c.kind]++
			if op.c.kind == "s" && len(op.c.s) == 0 {
				st["zero_length_strings"]++
			}
		}
	}
}

// ---------------------------------------------------------------- measured: build + run

type c13meas struct {
	c    c13case
	data []c13datum
	size int
}

// c13measure builds one program containing all sections plus one accessor
// function per section, runs it and emits one accept-asm request per section.
func c13measure(dir string, ms []c13meas, o *out, st map[string]int, tag string) error {
	if len(ms) == 0 {
		return nil
	}
	if err := os.RemoveAll(dir); err != nil {
		return err
	}
	if err := os.MkdirAll(dir, 0o755); err != nil {
		return err
	}
	ctx := build.NewContext()
	var globals []*ir.Global
	for i := range ms {
		ms[i].c.name = fmt.Sprintf("%s%d", tag, i)
		var fl []bool
		globals = append(globals, c13apply(ctx, ms[i].c, &fl))
	}
	for i, g := range globals {
		ctx.Function(fmt.Sprintf("addr_%s%d", tag, i))
		ctx.Attributes(attr.NOSPLIT)
		ctx.SignatureExpr("func() uintptr")
		p := ctx.GP64()
		ctx.LEAQ(g.Base(), p)
		ctx.Store(p, ctx.ReturnIndex(0))
		ctx.RET()
	}
	file, _ := ctx.Result() // placement errors are expected
	if err := pass.Compile.Execute(file); err != nil {
		return fmt.Errorf("measure: compile: %v", err)
	}
	cfg := printer.Config{Name: "avoh", Pkg: "main"}
	asm, err := printer.NewGoAsm(cfg).Print(file)
	if err != nil {
		return err
	}
	stubs, err := printer.NewStubs(cfg).Print(file)
	if err != nil {
		return err
	}
	var mainsrc bytes.Buffer
	mainsrc.WriteString("package main\n\nimport (\n\t\"fmt\"\n\t\"unsafe\"\n)\n\nfunc dump(i int, p uintptr, n int) {\n\tb := unsafe.Slice((*byte)(unsafe.Pointer(p)), n)\n\tfmt.Printf(\"%d %x\\n\", i, b)\n}\n\nfunc main() {\n")
	for i, m := range ms {
		fmt.Fprintf(&mainsrc, "\tdump(%d, addr_%s%d(), %d)\n", i, tag, i, m.size)
	}
	mainsrc.WriteString("}\n")
	files := map[string][]byte{
		"go.mod":   []byte("module c13data\n\ngo 1.21\n"),
		"data.s":   asm,
		"stubs.go": stubs,
		"main.go":  mainsrc.Bytes(),
	}
	for name, data := range files {
		if err := os.WriteFile(filepath.Join(dir, name), data, 0o644); err != nil {
			return err
		}
	}
	absdir, err := filepath.Abs(dir)
	if err != nil {
		return err
	}
	cmd := exec.Command("go", "build", "-o", "c13data", ".")
	cmd.Dir = absdir
	got := map[int]string{}
	buildOut, berr := cmd.CombinedOutput()
	if berr == nil {
		run := exec.Command(filepath.Join(absdir, "c13data"))
		run.Dir = absdir
		outp, _ := run.Output()
		for _, l := range strings.Split(string(outp), "\n") {
			fs := strings.Fields(l)
			if len(fs) >= 1 {
				if i, err := strconv.Atoi(fs[0]); err == nil {
					if len(fs) == 1 {
						got[i] = ""
					} else {
						got[i] = fs[1]
					}
				}
			}
		}
	} else {
		st["measured_build_failed"]++
		os.WriteFile(filepath.Join(dir, "build.log"), buildOut, 0o644)
	}
	for i, m := range ms {
		status := "ok"
		hx, ok := got[i]
		if !ok {
			status = "fail"
		}
		if hx == "" {
			hx = "-"
		}
		req := []string{"accept-asm", "mono", status, itoa(m.size)}
		req = append(req, c13dataToks(m.data)...)
		req = append(req, hx)
		o.emit(strings.Join(req, " "), "ok")
		st["measured_sections"]++
		st["measured_bytes"] += m.size
	}
	return nil
}

// c13asmOnly assembles one section alone with `go tool asm` (sections whose
// data are not in increasing order: the assembler is expected to complain).
func c13asmOnly(dir string, m c13meas, o *out, st map[string]int, idx int) error {
	if err := os.MkdirAll(dir, 0o755); err != nil {
		return err
	}
	ctx := build.NewContext()
	var fl []bool
	m.c.name = fmt.Sprintf("n%d", idx)
	c13apply(ctx, m.c, &fl)
	file, _ := ctx.Result()
	if err := pass.Compile.Execute(file); err != nil {
		return err
	}
	asm, err := printer.NewGoAsm(printer.Config{Name: "avoh", Pkg: "p"}).Print(file)
	if err != nil {
		return err
	}
	src := filepath.Join(dir, fmt.Sprintf("n%d.s", idx))
	if err := os.WriteFile(src, asm, 0o644); err != nil {
		return err
	}
	cmd := exec.Command("go", "tool", "asm", "-I", filepath.Join(goroot(), "pkg", "include"), "-p", "p", "-o", src+".o", src)
	outp, aerr := cmd.CombinedOutput()
	status := "ok-bytes-not-read"
	if aerr != nil {
		status = "fail"
		if strings.Contains(string(outp), "overlapping DATA entry") {
			st["assembler_says_overlapping_DATA_entry"]++
		}
	}
	req := []string{"accept-asm", "nonmono", status, itoa(m.size)}
	req = append(req, c13dataToks(m.data)...)
	req = append(req, "-")
	o.emit(strings.Join(req, " "), "ok")
	st["nonmonotone_sections_assembled_alone"]++
	return nil
}

// ---------------------------------------------------------------- floats

func c13f32Check(bits uint32) (text string, asmbits uint32) {
	text = c13floatText(operand.F32(math.Float32frombits(bits)))
	ab, ok := c13asmFloat(text, 4)
	if !ok {
		return text, ^bits
	}
	return text, uint32(ab)
}

func c13f64Check(bits uint64) (text string, asmbits uint64) {
	text = c13floatText(operand.F64(math.Float64frombits(bits)))
	ab, ok := c13asmFloat(text, 8)
	if !ok {
		return text, ^bits
	}
	return text, ab
}

// c13sweepF32 checks `count` float32 bit patterns (a fixed odd-multiplier
// permutation of 0..2^32-1 starting at `start`, so any prefix is spread over
// the whole range) within `budget`; failures are returned.
func c13sweepF32(start, count uint64, budget time.Duration) (checked uint64, bad []uint32) {
	const mult = 0x9E3779B1
	deadline := time.Now().Add(budget)
	workers := runtime.NumCPU()
	if workers > 16 {
		workers = 16
	}
	const chunk = 1 << 16
	var next uint64
	var done uint64
	var mu sync.Mutex
	var wg sync.WaitGroup
	for w := 0; w < workers; w++ {
		wg.Add(1)
		go func() {
			defer wg.Done()
			for {
				lo := atomic.AddUint64(&next, chunk) - chunk
				if lo >= count || time.Now().After(deadline) {
					return
				}
				hi := lo + chunk
				if hi > count {
					hi = count
				}
				for i := lo; i < hi; i++ {
					bits := uint32((start + i) * mult)
					if bits&0x7f800000 == 0x7f800000 {
						continue // Inf / NaN: not finite
					}
					f := math.Float32frombits(bits)
					// the real code: operand.F32.String() is what Asm() wraps in `$(…)` (tied on a sample below)
					s := operand.F32(f).String()
					v, err := strconv.ParseFloat(s, 64)
					if err != nil || math.Float32bits(float32(v)) != bits {
						mu.Lock()
						bad = append(bad, bits)
						mu.Unlock()
					}
				}
				atomic.AddUint64(&done, hi-lo)
			}
		}()
	}
	wg.Wait()
	sort.Slice(bad, func(i, j int) bool { return bad[i] < bad[j] })
	return atomic.LoadUint64(&done), bad
}

// ---------------------------------------------------------------- replay

func c13parseConst(t string) (c13const, bool) {
	fs := strings.Split(t, ":")
	if len(fs) < 2 {
		return c13const{}, false
	}
	switch fs[0] {
	case "i8", "i16", "i32", "i64":
		v, err := strconv.ParseInt(fs[1], 10, 64)
		return c13const{kind: fs[0], i: v}, err == nil
	case "u8", "u16", "u32", "u64":
		v, err := strconv.ParseUint(fs[1], 10, 64)
		return c13const{kind: fs[0], u: v}, err == nil
	case "f32", "f64":
		v, err := strconv.ParseUint(fs[1], 16, 64)
		return c13const{kind: fs[0], u: v}, err == nil
	case "s":
		s, err := unhexs(fs[1])
		return c13const{kind: "s", s: s}, err == nil
	}
	return c13const{}, false
}

func c13replayLine(o *out, l string, st map[string]int, k int) {
	ts := strings.Fields(l)
	if len(ts) == 0 {
		return
	}
	switch ts[0] {
	case "data":
		if len(ts) < 5 {
			return
		}
		name, _ := unhexs(ts[1])
		c := c13case{name: strings.TrimSuffix(name, "<>"), attrs: attr.RODATA | attr.NOPTR}
		npr, _ := strconv.Atoi(ts[3])
		i := 4 + npr
		if i >= len(ts) {
			return
		}
		i++ // nops
		for i < len(ts) {
			switch ts[i] {
			case "p":
				if i+2 >= len(ts) {
					return
				}
				off, _ := strconv.Atoi(ts[i+1])
				cst, ok := c13parseConst(ts[i+2])
				if !ok {
					return
				}
				c.ops = append(c.ops, c13op{kind: 'p', off: off, c: cst})
				i += 3
			case "a":
				if i+1 >= len(ts) {
					return
				}
				cst, ok := c13parseConst(ts[i+1])
				if !ok {
					return
				}
				c.ops = append(c.ops, c13op{kind: 'a', c: cst})
				i += 2
			case "g":
				if i+1 >= len(ts) {
					return
				}
				n, _ := strconv.Atoi(ts[i+1])
				c.ops = append(c.ops, c13op{kind: 'g', off: n})
				i += 2
			default:
				return
			}
		}
		c13emitCase(o, c, c13run(c), st)
	case "accept-f32", "f32":
		if len(ts) >= 2 {
			if b, err := strconv.ParseUint(ts[1], 16, 32); err == nil {
				c13emitF32(o, uint32(b), st)
			}
		}
	case "accept-f64", "f64":
		if len(ts) >= 2 {
			if b, err := strconv.ParseUint(ts[1], 16, 64); err == nil {
				c13emitF64(o, b, st)
			}
		}
	case "int":
		if len(ts) >= 3 {
			if cst, ok := c13parseConst(ts[1] + ":" + ts[2]); ok {
				c13emitInt(o, cst, st)
			}
		}
	case "str":
		if len(ts) >= 2 {
			if s, err := unhexs(ts[1]); err == nil {
				c13emitStr(o, s, st)
			}
		}
	}
}

func c13emitF32(o *out, bits uint32, st map[string]int) {
	text, ab := c13f32Check(bits)
	o.emit(fmt.Sprintf("fparse 4 %s", hexs(text)), strconv.FormatUint(uint64(ab), 16))
	o.emit(fmt.Sprintf("accept-f32 %08x %s %08x", bits, hexs(text), ab), "ok")
	st["f32_requests"]++
}

func c13emitF64(o *out, bits uint64, st map[string]int) {
	text, ab := c13f64Check(bits)
	o.emit(fmt.Sprintf("fparse 8 %s", hexs(text)), strconv.FormatUint(ab, 16))
	o.emit(fmt.Sprintf("accept-f64 %016x %s %016x", bits, hexs(text), ab), "ok")
	st["f64_requests"]++
}

func c13emitInt(o *out, c c13const, st map[string]int) {
	text := c.op().Asm()
	v := strings.SplitN(c.tok(), ":", 2)[1]
	o.emit(fmt.Sprintf("int %s %s", c.kind, v), hexs(text))
	o.emit(fmt.Sprintf("accept-int %s %s %s", c.kind, v, hexs(text)), "ok")
	st["int_requests"]++
}

func c13emitStr(o *out, s string, st map[string]int) {
	text := operand.String(s).Asm()
	pr := c13printable(s)
	req := []string{"str", hexs(s), itoa(len(pr))}
	for _, p := range pr {
		req = append(req, itoa(p))
	}
	o.emit(strings.Join(req, " "), hexs(text))
	o.emit(fmt.Sprintf("accept-str %s %s", hexs(s), hexs(text)), "ok")
	st["str_requests"]++
}

// ---------------------------------------------------------------- main

func init() {
	register("c13", "data sections: placement, image, DATA/GLOBL lines, constants' text; measured with the toolchain", func(args []string) error {
		f := newStdFlags("c13")
		workdir := f.fs.String("dir", "meas", "scratch directory of the measured part")
		nmeas := f.fs.Int("measure", 300, "max number of sections built and read back from a running binary")
		nnonmono := f.fs.Int("nonmono", 4, "number of out-of-order sections assembled alone")
		f32count := f.fs.Uint64("f32", 1<<24, "float32 values swept (stratified)")
		f32budget := f.fs.Int("f32budget", 60, "seconds allowed for the float32 sweep")
		if err := f.fs.Parse(args); err != nil {
			return err
		}
		o, err := openOut(f)
		if err != nil {
			return err
		}
		defer o.close()
		st := map[string]int{}
		r := newRng(*f.seed)
		if *f.replay != "" {
			lines, err := readLines(*f.replay)
			if err != nil {
				return err
			}
			for k, l := range lines {
				c13replayLine(o, l, st, k)
			}
			return writeJSON(*f.stats, st)
		}

		// 1. constants' text: every integer type at its boundaries + random values
		for _, k := range c13intKinds {
			for _, c := range c13intBoundaries(k) {
				c13emitInt(o, c, st)
			}
			for j := 0; j < *f.n/40+20; j++ {
				c13emitInt(o, c13intConst(k, r.u64()>>uint(r.intn(64))), st)
			}
		}
		// strings
		for _, s := range []string{"", "a", "\"", "\\", "\x00", "\n", "\xff", "é", " ", "\U0001f600", "\xed\xa0\x80", "a\"b\\c\x00d\ne\x7f", "\xc3", "\xef\xbf\xbd", "$(1.0)", "%q %d", "\u00b7", "\u2215", "a\u00b7b\u2215c", "\xc2\xb7\xe2\x88"} {
			c13emitStr(o, s, st)
		}
		for j := 0; j < *f.n/4+50; j++ {
			c13emitStr(o, c13randString(r), st)
		}
		// floats: the F11 witnesses always, boundaries, random
		for _, b := range c13f11 {
			c13emitF32(o, b, st)
		}
		for _, b := range c13f32Boundaries {
			c13emitF32(o, b, st)
		}
		for _, b := range c13f64Boundaries {
			c13emitF64(o, b, st)
		}
		for j := 0; j < *f.n/2+100; j++ {
			c13emitF32(o, c13randF32(r), st)
			c13emitF64(o, c13randF64(r), st)
		}

		// 2. placement sequences
		fixed := []c13case{
			{name: "e0", attrs: attr.RODATA | attr.NOPTR},
			{name: "e1", attrs: attr.NOPTR, ops: []c13op{{kind: 'p', off: 0, c: c13const{kind: "u32", u: 1}}, {kind: 'p', off: 4, c: c13const{kind: "u32", u: 2}}}},
			{name: "e2", attrs: attr.NOPTR, ops: []c13op{{kind: 'p', off: 0, c: c13const{kind: "u64", u: 1}}, {kind: 'p', off: 7, c: c13const{kind: "u8", u: 2}}, {kind: 'p', off: 8, c: c13const{kind: "i8", i: -1}}}},
			{name: "e3", attrs: attr.NOPTR, ops: []c13op{{kind: 'p', off: 8, c: c13const{kind: "u32", u: 1}}, {kind: 'p', off: 0, c: c13const{kind: "u32", u: 2}}}}, // out of order (F14)
			{name: "e4", attrs: attr.NOPTR, ops: []c13op{{kind: 'p', off: 0, c: c13const{kind: "s", s: ""}}, {kind: 'p', off: 0, c: c13const{kind: "u32", u: 5}}, {kind: 'p', off: 2, c: c13const{kind: "s", s: ""}}, {kind: 'p', off: 4, c: c13const{kind: "s", s: ""}}}},
			{name: "e5", attrs: attr.NOPTR, ops: []c13op{{kind: 'a', c: c13const{kind: "f64", u: 0x8000000000000000}}, {kind: 'g', off: 32}, {kind: 'a', c: c13const{kind: "f32", u: 0x80000000}}, {kind: 'p', off: 8, c: c13const{kind: "s", s: "abc\x00\xff\"é"}}}},
			{name: "e6", attrs: attr.RODATA | attr.NOPTR, viaConstData: true, ops: []c13op{{kind: 'a', c: c13const{kind: "u64", u: 0xffffffffffffffff}}}},
			{name: "e7", attrs: attr.NOPTR, ops: []c13op{{kind: 'p', off: -4, c: c13const{kind: "u32", u: 1}}}},
			{name: "e9", attrs: attr.NOPTR, ops: []c13op{{kind: 'a', c: c13const{kind: "s", s: "p\u00b7q"}}, {kind: 'a', c: c13const{kind: "u8", u: 7}}}}, // F15
			{name: "e8", attrs: attr.NOPTR, ops: []c13op{{kind: 'p', off: 4, c: c13const{kind: "i64", i: math.MinInt64}}, {kind: 'p', off: 0, c: c13const{kind: "i64", i: 1}}, {kind: 'p', off: 12, c: c13const{kind: "i16", i: -32768}}}},
		}
		var meas, nonmono []c13meas
		consider := func(c c13case, res c13result) {
			if res.panicked || !c13inScope(c) || res.size > 1<<16 {
				return
			}
			c.attrs = pick(r, []attr.Attribute{attr.NOPTR, attr.RODATA | attr.NOPTR, attr.NOPTR | attr.DUPOK})
			m := c13meas{c: c, data: res.data, size: res.size}
			if c13mono(res.data) {
				if len(meas) < *nmeas {
					meas = append(meas, m)
				}
			} else if len(nonmono) < *nnonmono {
				nonmono = append(nonmono, m)
			}
		}
		for _, c := range fixed {
			res := c13run(c)
			c13emitCase(o, c, res, st)
			consider(c, res)
		}
		for k := 0; k < *f.n; k++ {
			c := c13genCase(r, k)
			res := c13run(c)
			c13emitCase(o, c, res, st)
			consider(c, res)
		}

		// 3. measured: sections read back from a running binary; a dedicated section of floats
		var fl []c13op
		for _, b := range c13f11 {
			fl = append(fl, c13op{kind: 'a', c: c13const{kind: "f32", u: uint64(b)}})
		}
		for _, b := range c13f32Boundaries {
			fl = append(fl, c13op{kind: 'a', c: c13const{kind: "f32", u: uint64(b)}})
		}
		for _, b := range c13f64Boundaries {
			fl = append(fl, c13op{kind: 'a', c: c13const{kind: "f64", u: b}})
		}
		for j := 0; j < 200; j++ {
			fl = append(fl, c13op{kind: 'a', c: c13const{kind: "f32", u: uint64(c13randF32(r))}})
			fl = append(fl, c13op{kind: 'a', c: c13const{kind: "f64", u: c13randF64(r)}})
		}
		fc := c13case{name: "floats", attrs: attr.RODATA | attr.NOPTR, ops: fl}
		fres := c13run(fc)
		meas = append(meas, c13meas{c: fc, data: fres.data, size: fres.size})
		if err := c13measure(filepath.Join(*workdir, "prog"), meas, o, st, "m"); err != nil {
			return err
		}
		// the F11 witnesses through the real assembler and linker
		{
			var ops []c13op
			for _, b := range c13f11 {
				ops = append(ops, c13op{kind: 'a', c: c13const{kind: "f32", u: uint64(b)}})
			}
			wc := c13case{name: "w", attrs: attr.RODATA | attr.NOPTR, ops: ops}
			var sub c13out2
			if err := c13measureRaw(filepath.Join(*workdir, "f11"), wc, &sub); err == nil && len(sub.bytes) == 4*len(c13f11) {
				for i, b := range c13f11 {
					got := uint32(sub.bytes[4*i]) | uint32(sub.bytes[4*i+1])<<8 | uint32(sub.bytes[4*i+2])<<16 | uint32(sub.bytes[4*i+3])<<24
					text, _ := c13f32Check(b)
					o.emit(fmt.Sprintf("accept-asm-f32 %08x %s %08x", b, hexs(text), got), "ok")
					st["f11_witnesses_assembled"]++
				}
			} else {
				st["f11_probe_failed"]++
			}
		}
		for i, m := range nonmono {
			if err := c13asmOnly(filepath.Join(*workdir, "nonmono"), m, o, st, i); err != nil {
				return err
			}
		}

		// 4. float32 sweep (measured, in-process: the conversion cmd/asm applies)
		start := (*f.seed * 0x51ed27) % (1 << 32)
		if *f32count >= 1<<32 {
			start = 0
		}
		checked, bad := c13sweepF32(start, *f32count, time.Duration(*f32budget)*time.Second)
		for i, b := range bad {
			if i >= 2000 {
				break // enough witnesses; the count is in the stats
			}
			c13emitF32(o, b, st)
		}
		// tie String() (used by the sweep) to Asm() on a sample
		for j := 0; j < 2000; j++ {
			b := c13randF32(r)
			if j < len(c13f11) {
				b = c13f11[j]
			}
			f := operand.F32(math.Float32frombits(b))
			if got, want := f.Asm(), "$("+f.String()+")"; got != want {
				// Asm() does not print String(): judge the sample through the real Asm()
				c13emitF32(o, b, st)
				st["f32_asm_differs_from_string"]++
			}
		}
		stats := map[string]any{}
		for k, v := range st {
			stats[k] = v
		}
		stats["f32_sweep_checked"] = checked
		stats["f32_sweep_requested"] = *f32count
		stats["f32_sweep_failures"] = len(bad)
		stats["f32_sweep_start_index"] = start
		return writeJSON(*f.stats, stats)
	})
}

type c13out2 struct{ bytes []byte }

// c13measureRaw builds a one-section program and returns the symbol's bytes.
func c13measureRaw(dir string, c c13case, res *c13out2) error {
	o, err := c13newNullOut()
	if err != nil {
		return err
	}
	defer o.close()
	st := map[string]int{}
	r := c13run(c)
	ms := []c13meas{{c: c, data: r.data, size: r.size}}
	if err := c13measure(dir, ms, o, st, "w"); err != nil {
		return err
	}
	outp, err := exec.Command(filepath.Join(c13mustAbs(dir), "c13data")).Output()
	if err != nil {
		return err
	}
	fs := strings.Fields(string(outp))
	if len(fs) < 2 {
		return fmt.Errorf("no output")
	}
	b, err := hex.DecodeString(fs[1])
	res.bytes = b
	return err
}

func c13mustAbs(p string) string {
	a, err := filepath.Abs(p)
	if err != nil {
		panic(err)
	}
	return a
}

func c13newNullOut() (*out, error) {
	fo, err := os.OpenFile(os.DevNull, os.O_WRONLY, 0)
	if err != nil {
		return nil, err
	}
	fi, err := os.OpenFile(os.DevNull, os.O_WRONLY, 0)
	if err != nil {
		return nil, err
	}
	return &out{ops: bufio.NewWriter(fo), impl: bufio.NewWriter(fi), fo: fo, fi: fi}, nil
}

var _ = reg.RAX
