package main

import (
	"fmt"
	"go/ast"
	"path/filepath"
	"strings"
)

// AST extraction of x86/zctors.go and build/zinstructions.go: one record per
// constructor / Context method / package-level function.  The translator is
// deliberately dumb: it records what is written (identifiers in order) and
// leaves every judgement to the Lean side.

type ctorAST struct {
	Name        string
	Params      []string
	Variadic    bool
	Callee      string
	OpcConst    string
	FormsSel    string
	SfxType     string
	SfxConsts   []string
	Args        []string
	ArgsIsSlice bool
	Doc         []string // "Forms:" rows, blanks collapsed
	ShapeErr    string   // non-empty when the body does not have the recognised shape
}

type wrapAST struct {
	Name     string
	Params   []string
	Variadic bool
	Recv     string
	Via      string
	Pkg      string
	Callee   string
	Args     []string
	Spread   bool
	Doc      []string
	ShapeErr string
}

// docForms extracts the rows following the "Forms:" line of a doc comment:
// the tab-indented lines; blanks are collapsed to single spaces.
func docForms(cg *ast.CommentGroup) []string {
	if cg == nil {
		return nil
	}
	var rows []string
	in := false
	for _, c := range cg.List {
		t := strings.TrimPrefix(c.Text, "//")
		if strings.TrimSpace(t) == "Forms:" {
			in = true
			continue
		}
		if !in {
			continue
		}
		if strings.TrimSpace(t) == "" {
			continue
		}
		if strings.HasPrefix(t, "\t") {
			rows = append(rows, strings.Join(strings.Fields(t), " "))
			continue
		}
		// first non-indented, non-empty line ends the table
		break
	}
	return rows
}

// paramNames returns the parameter names in declaration order; variadic is
// set when the last parameter is `...T`.  ok=false when some parameter is not
// of type operand.Op.
func paramNames(ft *ast.FuncType) (names []string, variadic bool, ok bool) {
	ok = true
	if ft.Params == nil {
		return
	}
	for _, fld := range ft.Params.List {
		t := fld.Type
		if el, isEl := t.(*ast.Ellipsis); isEl {
			variadic = true
			t = el.Elt
		}
		sel, isSel := t.(*ast.SelectorExpr)
		if !isSel || sel.Sel.Name != "Op" {
			ok = false
		} else if p, isId := sel.X.(*ast.Ident); !isId || p.Name != "operand" {
			ok = false
		}
		for _, n := range fld.Names {
			names = append(names, n.Name)
		}
	}
	return
}

func identList(es []ast.Expr) ([]string, bool) {
	var out []string
	for _, e := range es {
		id, ok := e.(*ast.Ident)
		if !ok {
			return nil, false
		}
		out = append(out, id.Name)
	}
	return out, true
}

func parseCtors(repo string) ([]ctorAST, error) {
	_, f, err := parseFile(filepath.Join(repo, "x86", "zctors.go"))
	if err != nil {
		return nil, err
	}
	var out []ctorAST
	for _, d := range f.Decls {
		fd, ok := d.(*ast.FuncDecl)
		if !ok || fd.Recv != nil {
			continue
		}
		c := ctorAST{Name: fd.Name.Name, Doc: docForms(fd.Doc)}
		var pok bool
		c.Params, c.Variadic, pok = paramNames(fd.Type)
		bad := func(msg string) { c.ShapeErr = msg; out = append(out, c) }
		if !pok {
			bad("parameter type is not operand.Op")
			continue
		}
		// results: (*intrep.Instruction, error) — the type checker enforces what build returns
		if fd.Body == nil || len(fd.Body.List) != 1 {
			bad("body is not a single statement")
			continue
		}
		rs, ok := fd.Body.List[0].(*ast.ReturnStmt)
		if !ok || len(rs.Results) != 1 {
			bad("body is not a single return")
			continue
		}
		call, ok := rs.Results[0].(*ast.CallExpr)
		if !ok || len(call.Args) != 3 || call.Ellipsis.IsValid() {
			bad("return value is not a 3-argument call")
			continue
		}
		fn, ok := call.Fun.(*ast.Ident)
		if !ok {
			bad("callee is not an identifier")
			continue
		}
		c.Callee = fn.Name
		// arg 0: X.Forms()
		a0, ok := call.Args[0].(*ast.CallExpr)
		if !ok || len(a0.Args) != 0 {
			bad("first argument is not X.Forms()")
			continue
		}
		sel, ok := a0.Fun.(*ast.SelectorExpr)
		if !ok {
			bad("first argument is not X.Forms()")
			continue
		}
		x, ok := sel.X.(*ast.Ident)
		if !ok {
			bad("first argument receiver is not an identifier")
			continue
		}
		c.OpcConst, c.FormsSel = x.Name, sel.Sel.Name
		// arg 1: sffxs{...}
		a1, ok := call.Args[1].(*ast.CompositeLit)
		if !ok {
			bad("second argument is not a composite literal")
			continue
		}
		if t, ok := a1.Type.(*ast.Ident); ok {
			c.SfxType = t.Name
		} else {
			bad("suffix literal type")
			continue
		}
		if c.SfxConsts, ok = identList(a1.Elts); !ok {
			bad("suffix literal elements")
			continue
		}
		// arg 2: []operand.Op{a, b} or ident
		switch a2 := call.Args[2].(type) {
		case *ast.Ident:
			c.Args, c.ArgsIsSlice = []string{a2.Name}, true
		case *ast.CompositeLit:
			at, ok := a2.Type.(*ast.ArrayType)
			if !ok || at.Len != nil {
				bad("third argument is not a slice literal")
				continue
			}
			if c.Args, ok = identList(a2.Elts); !ok {
				bad("slice literal elements are not identifiers")
				continue
			}
		default:
			bad("third argument shape")
			continue
		}
		out = append(out, c)
	}
	return out, nil
}

// parseWrappers returns the Context methods and the package-level functions
// of build/zinstructions.go (everything except addinstruction).
func parseWrappers(repo string) (methods, globals []wrapAST, err error) {
	_, f, err := parseFile(filepath.Join(repo, "build", "zinstructions.go"))
	if err != nil {
		return nil, nil, err
	}
	for _, d := range f.Decls {
		fd, ok := d.(*ast.FuncDecl)
		if !ok {
			continue
		}
		if fd.Name.Name == "addinstruction" {
			continue
		}
		w := wrapAST{Name: fd.Name.Name, Doc: docForms(fd.Doc)}
		var pok bool
		w.Params, w.Variadic, pok = paramNames(fd.Type)
		isMethod := fd.Recv != nil
		add := func() {
			if isMethod {
				methods = append(methods, w)
			} else {
				globals = append(globals, w)
			}
		}
		bad := func(msg string) { w.ShapeErr = msg; add() }
		if !pok {
			bad("parameter type is not operand.Op")
			continue
		}
		if fd.Type.Results != nil && len(fd.Type.Results.List) > 0 {
			bad("has results")
			continue
		}
		if fd.Body == nil || len(fd.Body.List) != 1 {
			bad("body is not a single statement")
			continue
		}
		es, ok := fd.Body.List[0].(*ast.ExprStmt)
		if !ok {
			bad("body is not an expression statement")
			continue
		}
		call, ok := es.X.(*ast.CallExpr)
		if !ok {
			bad("body is not a call")
			continue
		}
		sel, ok := call.Fun.(*ast.SelectorExpr)
		if !ok {
			bad("callee is not a selector")
			continue
		}
		rx, ok := sel.X.(*ast.Ident)
		if !ok {
			bad("callee receiver is not an identifier")
			continue
		}
		if isMethod {
			// receiver must be (c *Context)
			if len(fd.Recv.List) != 1 || len(fd.Recv.List[0].Names) != 1 {
				bad("receiver shape")
				continue
			}
			st, ok := fd.Recv.List[0].Type.(*ast.StarExpr)
			if !ok {
				bad("receiver is not a pointer")
				continue
			}
			if id, ok := st.X.(*ast.Ident); !ok || id.Name != "Context" {
				bad("receiver type is not *Context")
				continue
			}
			if fd.Recv.List[0].Names[0].Name != rx.Name {
				bad("call is not on the receiver")
				continue
			}
			// c.addinstruction(x86.NAME(args))
			w.Recv, w.Via = rx.Name, sel.Sel.Name
			if len(call.Args) != 1 || call.Ellipsis.IsValid() {
				bad("addinstruction argument count")
				continue
			}
			inner, ok := call.Args[0].(*ast.CallExpr)
			if !ok {
				bad("addinstruction argument is not a call")
				continue
			}
			isel, ok := inner.Fun.(*ast.SelectorExpr)
			if !ok {
				bad("inner callee is not pkg.Func")
				continue
			}
			pk, ok := isel.X.(*ast.Ident)
			if !ok {
				bad("inner callee package")
				continue
			}
			w.Pkg, w.Callee = pk.Name, isel.Sel.Name
			if w.Args, ok = identList(inner.Args); !ok {
				bad("inner arguments are not identifiers")
				continue
			}
			w.Spread = inner.Ellipsis.IsValid()
		} else {
			// ctx.NAME(args)
			w.Recv, w.Callee = rx.Name, sel.Sel.Name
			if w.Args, ok = identList(call.Args); !ok {
				bad("arguments are not identifiers")
				continue
			}
			w.Spread = call.Ellipsis.IsValid()
		}
		add()
	}
	return methods, globals, nil
}

// importsOK checks that `x86`, `operand` (and `intrep`/`ir`) in the two files
// denote the avo packages, so that `x86.NAME` / `operand.Op` mean what the
// shapes assume.
func importsOK(repo string) error {
	check := func(path string, want map[string]string) error {
		_, f, err := parseFile(path)
		if err != nil {
			return err
		}
		got := map[string]string{}
		for _, im := range f.Imports {
			p := strings.Trim(im.Path.Value, `"`)
			name := p[strings.LastIndex(p, "/")+1:]
			if im.Name != nil {
				name = im.Name.Name
			}
			got[name] = p
		}
		for n, p := range want {
			if got[n] != p {
				return fmt.Errorf("%s: import %s is %q, want %q", path, n, got[n], p)
			}
		}
		return nil
	}
	const base = "github.com/mmcloughlin/avo/"
	if err := check(filepath.Join(repo, "x86", "zctors.go"), map[string]string{"operand": base + "operand", "intrep": base + "ir"}); err != nil {
		return err
	}
	return check(filepath.Join(repo, "build", "zinstructions.go"), map[string]string{"operand": base + "operand", "x86": base + "x86", "ir": base + "ir"})
}
