package main

import (
	"fmt"
	"go/ast"
	"go/token"
	"path/filepath"
	"strings"
)

// AST extraction of x86/zctors.go and build/zinstructions.go: one record per
// constructor / Context method / package-level function.  The translator is
// deliberately dumb: it records what is written (identifiers in order) and
// leaves every judgement to the Lean side.

type ctorAST struct {
	Name        string
	Params      []string
	Variadic    bool
	Callee      string
	OpcConst    string
	FormsSel    string
	SfxType     string
	SfxConsts   []string
	Args        []string
	ArgsIsSlice bool
	Doc         []string // "Forms:" rows, blanks collapsed
	ShapeErr    string   // non-empty when the body does not have the recognised shape
}

type wrapAST struct {
	Name     string
	Params   []string
	Variadic bool
	Recv     string
	Via      string
	Pkg      string
	Callee   string
	Args     []string
	Spread   bool
	Doc      []string
	ShapeErr string
}

// docForms extracts the rows following the "Forms:" line of a doc comment: the indented lines (a tab, or two or
// more blanks) up to the first non-indented text; blanks are collapsed to single spaces.  The header is recognised
// case-insensitively, with or without the colon.
func docForms(cg *ast.CommentGroup) []string {
	if cg == nil {
		return nil
	}
	var rows []string
	in := false
	for _, c := range cg.List {
		t := strings.TrimPrefix(c.Text, "//")
		if h := strings.ToLower(strings.TrimSuffix(strings.TrimSpace(t), ":")); !in && (h == "forms" || h == "instruction forms") {
			in = true
			continue
		}
		if !in {
			continue
		}
		if strings.TrimSpace(t) == "" {
			continue
		}
		if strings.HasPrefix(t, "\t") || strings.HasPrefix(t, "  ") || strings.HasPrefix(t, " \t") {
			rows = append(rows, strings.Join(strings.Fields(t), " "))
			continue
		}
		// first non-indented, non-empty line ends the table
		break
	}
	return rows
}

// paramNames returns the parameter names in declaration order; variadic is
// set when the last parameter is `...T`.  ok=false when some parameter is not
// of type operand.Op.
func paramNames(ft *ast.FuncType) (names []string, variadic bool, ok bool) {
	ok = true
	if ft.Params == nil {
		return
	}
	for _, fld := range ft.Params.List {
		t := fld.Type
		if el, isEl := t.(*ast.Ellipsis); isEl {
			variadic = true
			t = el.Elt
		}
		sel, isSel := t.(*ast.SelectorExpr)
		if !isSel || sel.Sel.Name != "Op" {
			ok = false
		} else if p, isId := sel.X.(*ast.Ident); !isId || p.Name != "operand" {
			ok = false
		}
		for _, n := range fld.Names {
			names = append(names, n.Name)
		}
	}
	return
}

func identList(es []ast.Expr) ([]string, bool) {
	var out []string
	for _, e := range es {
		id, ok := e.(*ast.Ident)
		if !ok {
			return nil, false
		}
		out = append(out, id.Name)
	}
	return out, true
}

// straightLine splits a body of the shape `x := e; y := e'; …; <last>` into the single-assignment locals and the
// last statement.  ok=false for any other shape (a local assigned twice, a non-definition, control flow).
func straightLine(body *ast.BlockStmt) (locals map[string]ast.Expr, pairs map[string][2]string, pairCall map[string]ast.Expr, last ast.Stmt, ok bool) {
	locals, pairs, pairCall = map[string]ast.Expr{}, map[string][2]string{}, map[string]ast.Expr{}
	if body == nil || len(body.List) == 0 {
		return nil, nil, nil, nil, false
	}
	for _, st := range body.List[:len(body.List)-1] {
		as, isAs := st.(*ast.AssignStmt)
		if !isAs || as.Tok != token.DEFINE || len(as.Rhs) != 1 {
			return nil, nil, nil, nil, false
		}
		var names []string
		for _, l := range as.Lhs {
			id, isId := l.(*ast.Ident)
			if !isId {
				return nil, nil, nil, nil, false
			}
			if _, dup := locals[id.Name]; dup {
				return nil, nil, nil, nil, false
			}
			if _, dup := pairs[id.Name]; dup {
				return nil, nil, nil, nil, false
			}
			names = append(names, id.Name)
		}
		switch len(names) {
		case 1:
			locals[names[0]] = as.Rhs[0]
		case 2:
			// `i, err := call(...)`: remembered under the first name
			pairs[names[0]] = [2]string{names[0], names[1]}
			pairCall[names[0]] = as.Rhs[0]
		default:
			return nil, nil, nil, nil, false
		}
	}
	return locals, pairs, pairCall, body.List[len(body.List)-1], true
}

// substLocal replaces an identifier that names a single-assignment local by the expression assigned to it.
func substLocal(e ast.Expr, locals map[string]ast.Expr) ast.Expr {
	for k := 0; k < 8; k++ {
		id, ok := e.(*ast.Ident)
		if !ok {
			return e
		}
		v, ok := locals[id.Name]
		if !ok {
			return e
		}
		e = v
	}
	return e
}

// x86Names finds, in the hand-written and generated sources of package x86, the names the constructor bodies use:
// the builder function (3 parameters, results (*ir.Instruction, error)), the type of its suffix parameter, and the
// method of the opcode type that returns the form list.  A rename of any of them (with its uses) is harmless; the
// translator reports the CANONICAL names build / sffxs / Forms for whatever the tree calls them.
type x86NameSet struct{ build, sffxs, forms string }

func x86Names(repo string) x86NameSet {
	ns := x86NameSet{"build", "sffxs", "Forms"}
	if _, hf, err := parseFile(filepath.Join(repo, "x86", "optab.go")); err == nil {
		for _, d := range hf.Decls {
			fd, ok := d.(*ast.FuncDecl)
			if !ok || fd.Recv != nil || fd.Type.Params == nil || fd.Type.Results == nil {
				continue
			}
			np := 0
			var second ast.Expr
			for _, fld := range fd.Type.Params.List {
				k := len(fld.Names)
				if k == 0 {
					k = 1
				}
				if np < 2 && np+k >= 2 {
					second = fld.Type
				}
				np += k
			}
			if np != 3 || len(fd.Type.Results.List) != 2 {
				continue
			}
			if e, ok := fd.Type.Results.List[1].Type.(*ast.Ident); !ok || e.Name != "error" {
				continue
			}
			ns.build = fd.Name.Name
			if id, ok := second.(*ast.Ident); ok {
				ns.sffxs = id.Name
			}
		}
	}
	if _, zf, err := parseFile(filepath.Join(repo, "x86", "zoptab.go")); err == nil {
		for _, d := range zf.Decls {
			fd, ok := d.(*ast.FuncDecl)
			if !ok || fd.Recv == nil || fd.Type.Results == nil || len(fd.Type.Results.List) != 1 {
				continue
			}
			at, ok := fd.Type.Results.List[0].Type.(*ast.ArrayType)
			if !ok || at.Len != nil {
				continue
			}
			if el, ok := at.Elt.(*ast.Ident); ok && el.Name == "form" {
				ns.forms = fd.Name.Name
			}
		}
	}
	return ns
}

func parseCtors(repo string) ([]ctorAST, error) {
	_, f, err := parseFile(filepath.Join(repo, "x86", "zctors.go"))
	if err != nil {
		return nil, err
	}
	ns := x86Names(repo)
	canon := func(name, actual, canonical string) string {
		if name == actual {
			return canonical
		}
		if name == canonical {
			return name + "?" // the canonical name is taken by something else
		}
		return name
	}
	var out []ctorAST
	for _, d := range f.Decls {
		fd, ok := d.(*ast.FuncDecl)
		if !ok || fd.Recv != nil {
			continue
		}
		c := ctorAST{Name: fd.Name.Name, Doc: docForms(fd.Doc)}
		var pok bool
		c.Params, c.Variadic, pok = paramNames(fd.Type)
		bad := func(msg string) { c.ShapeErr = msg; out = append(out, c) }
		if !pok {
			bad("parameter type is not operand.Op")
			continue
		}
		// results: (*intrep.Instruction, error) — the type checker enforces what build returns
		locals, pairs, _, lastSt, okBody := straightLine(fd.Body)
		if !okBody || len(pairs) != 0 {
			bad("body is not single-assignment locals followed by a return")
			continue
		}
		for _, p := range c.Params {
			if _, shadow := locals[p]; shadow {
				okBody = false
			}
		}
		if !okBody {
			bad("a local shadows a parameter")
			continue
		}
		rs, ok := lastSt.(*ast.ReturnStmt)
		if !ok || len(rs.Results) != 1 {
			bad("body does not end in a single-value return")
			continue
		}
		call, ok := substLocal(rs.Results[0], locals).(*ast.CallExpr)
		if !ok || len(call.Args) != 3 || call.Ellipsis.IsValid() {
			bad("return value is not a 3-argument call")
			continue
		}
		fn, ok := call.Fun.(*ast.Ident)
		if !ok {
			bad("callee is not an identifier")
			continue
		}
		c.Callee = canon(fn.Name, ns.build, "build")
		// arg 0: X.Forms()
		a0, ok := substLocal(call.Args[0], locals).(*ast.CallExpr)
		if !ok || len(a0.Args) != 0 {
			bad("first argument is not X.Forms()")
			continue
		}
		sel, ok := a0.Fun.(*ast.SelectorExpr)
		if !ok {
			bad("first argument is not X.Forms()")
			continue
		}
		x, ok := substLocal(sel.X, locals).(*ast.Ident)
		if !ok {
			bad("first argument receiver is not an identifier")
			continue
		}
		c.OpcConst, c.FormsSel = x.Name, canon(sel.Sel.Name, ns.forms, "Forms")
		// arg 1: sffxs{...}
		a1, ok := substLocal(call.Args[1], locals).(*ast.CompositeLit)
		if !ok {
			bad("second argument is not a composite literal")
			continue
		}
		if t, ok := a1.Type.(*ast.Ident); ok {
			c.SfxType = canon(t.Name, ns.sffxs, "sffxs")
		} else {
			bad("suffix literal type")
			continue
		}
		if c.SfxConsts, ok = identList(a1.Elts); !ok {
			bad("suffix literal elements")
			continue
		}
		// arg 2: []operand.Op{a, b} or ident
		switch a2 := substLocal(call.Args[2], locals).(type) {
		case *ast.Ident:
			c.Args, c.ArgsIsSlice = []string{a2.Name}, true
		case *ast.CompositeLit:
			at, ok := a2.Type.(*ast.ArrayType)
			if !ok || at.Len != nil {
				bad("third argument is not a slice literal")
				continue
			}
			if c.Args, ok = identList(a2.Elts); !ok {
				bad("slice literal elements are not identifiers")
				continue
			}
		default:
			bad("third argument shape")
			continue
		}
		out = append(out, c)
	}
	return out, nil
}

// parseWrappers returns the Context methods and the package-level functions
// of build/zinstructions.go (everything except addinstruction).
func parseWrappers(repo string) (methods, globals []wrapAST, err error) {
	_, f, err := parseFile(filepath.Join(repo, "build", "zinstructions.go"))
	if err != nil {
		return nil, nil, err
	}
	// names the bodies use, whatever the tree calls them: the helper method taking (instruction, error) and the
	// package-level *Context variable (`var ctx = NewContext()` in package build); reported canonically as
	// addinstruction / ctx, the method receiver as c
	helper := "addinstruction"
	for _, d := range f.Decls {
		fd, ok := d.(*ast.FuncDecl)
		if !ok || fd.Recv == nil || fd.Type.Params == nil || fd.Name.IsExported() {
			continue
		}
		np := 0
		var lastT ast.Expr
		for _, fld := range fd.Type.Params.List {
			k := len(fld.Names)
			if k == 0 {
				k = 1
			}
			np += k
			lastT = fld.Type
		}
		if id, ok := lastT.(*ast.Ident); ok && np == 2 && id.Name == "error" {
			helper = fd.Name.Name
		}
	}
	global := "ctx"
	if pkgs, derr := filepath.Glob(filepath.Join(repo, "build", "*.go")); derr == nil {
		for _, path := range pkgs {
			if strings.HasSuffix(path, "_test.go") {
				continue
			}
			_, gf, perr := parseFile(path)
			if perr != nil {
				continue
			}
			for _, d := range gf.Decls {
				gd, ok := d.(*ast.GenDecl)
				if !ok || gd.Tok != token.VAR {
					continue
				}
				for _, sp := range gd.Specs {
					vs := sp.(*ast.ValueSpec)
					for i, n := range vs.Names {
						if i < len(vs.Values) {
							if call, ok := vs.Values[i].(*ast.CallExpr); ok {
								if id, ok := call.Fun.(*ast.Ident); ok && id.Name == "NewContext" && len(call.Args) == 0 {
									global = n.Name
								}
							}
						}
					}
				}
			}
		}
	}
	canon := func(name, actual, canonical string) string {
		if name == actual {
			return canonical
		}
		if name == canonical {
			return name + "?"
		}
		return name
	}
	for _, d := range f.Decls {
		fd, ok := d.(*ast.FuncDecl)
		if !ok {
			continue
		}
		if fd.Name.Name == helper {
			continue
		}
		w := wrapAST{Name: fd.Name.Name, Doc: docForms(fd.Doc)}
		var pok bool
		w.Params, w.Variadic, pok = paramNames(fd.Type)
		isMethod := fd.Recv != nil
		add := func() {
			if isMethod {
				methods = append(methods, w)
			} else {
				globals = append(globals, w)
			}
		}
		bad := func(msg string) { w.ShapeErr = msg; add() }
		if !pok {
			bad("parameter type is not operand.Op")
			continue
		}
		if fd.Type.Results != nil && len(fd.Type.Results.List) > 0 {
			bad("has results")
			continue
		}
		locals, pairs, pairCall, lastSt, okBody := straightLine(fd.Body)
		if !okBody {
			bad("body is not single-assignment locals followed by a call")
			continue
		}
		shadow := false
		for _, p := range w.Params {
			if _, s1 := locals[p]; s1 {
				shadow = true
			}
			if _, s2 := pairs[p]; s2 {
				shadow = true
			}
		}
		if shadow {
			bad("a local shadows a parameter")
			continue
		}
		es, ok := lastSt.(*ast.ExprStmt)
		if !ok {
			bad("body does not end in an expression statement")
			continue
		}
		call, ok := es.X.(*ast.CallExpr)
		if !ok {
			bad("body is not a call")
			continue
		}
		sel, ok := call.Fun.(*ast.SelectorExpr)
		if !ok {
			bad("callee is not a selector")
			continue
		}
		rx, ok := sel.X.(*ast.Ident)
		if !ok {
			bad("callee receiver is not an identifier")
			continue
		}
		if isMethod {
			// receiver must be (c *Context)
			if len(fd.Recv.List) != 1 || len(fd.Recv.List[0].Names) != 1 {
				bad("receiver shape")
				continue
			}
			st, ok := fd.Recv.List[0].Type.(*ast.StarExpr)
			if !ok {
				bad("receiver is not a pointer")
				continue
			}
			if id, ok := st.X.(*ast.Ident); !ok || id.Name != "Context" {
				bad("receiver type is not *Context")
				continue
			}
			if fd.Recv.List[0].Names[0].Name != rx.Name {
				bad("call is not on the receiver")
				continue
			}
			// c.addinstruction(x86.NAME(args))   or   i, err := x86.NAME(args); c.addinstruction(i, err)
			w.Recv, w.Via = "c", canon(sel.Sel.Name, helper, "addinstruction")
			if call.Ellipsis.IsValid() {
				bad("addinstruction argument count")
				continue
			}
			var innerE ast.Expr
			switch len(call.Args) {
			case 1:
				innerE = substLocal(call.Args[0], locals)
			case 2:
				a, okA := call.Args[0].(*ast.Ident)
				b, okB := call.Args[1].(*ast.Ident)
				if okA && okB {
					if pr, okP := pairs[a.Name]; okP && pr[1] == b.Name {
						innerE = pairCall[a.Name]
					}
				}
			}
			if innerE == nil {
				bad("addinstruction argument count")
				continue
			}
			inner, ok := innerE.(*ast.CallExpr)
			if !ok {
				bad("addinstruction argument is not a call")
				continue
			}
			isel, ok := inner.Fun.(*ast.SelectorExpr)
			if !ok {
				bad("inner callee is not pkg.Func")
				continue
			}
			pk, ok := isel.X.(*ast.Ident)
			if !ok {
				bad("inner callee package")
				continue
			}
			w.Pkg, w.Callee = pk.Name, isel.Sel.Name
			if w.Args, ok = identList(inner.Args); !ok {
				bad("inner arguments are not identifiers")
				continue
			}
			w.Spread = inner.Ellipsis.IsValid()
		} else {
			// ctx.NAME(args)
			w.Recv, w.Callee = canon(rx.Name, global, "ctx"), sel.Sel.Name
			for _, p := range w.Params {
				if p == rx.Name {
					w.Recv = rx.Name + "?" // a parameter, not the package-level context
				}
			}
			if w.Args, ok = identList(call.Args); !ok {
				bad("arguments are not identifiers")
				continue
			}
			w.Spread = call.Ellipsis.IsValid()
		}
		add()
	}
	return methods, globals, nil
}

// importsOK checks that `x86`, `operand` (and `intrep`/`ir`) in the two files
// denote the avo packages, so that `x86.NAME` / `operand.Op` mean what the
// shapes assume.
func importsOK(repo string) error {
	check := func(path string, want map[string]string) error {
		_, f, err := parseFile(path)
		if err != nil {
			return err
		}
		got := map[string]string{}
		for _, im := range f.Imports {
			p := strings.Trim(im.Path.Value, `"`)
			name := p[strings.LastIndex(p, "/")+1:]
			if im.Name != nil {
				name = im.Name.Name
			}
			got[name] = p
		}
		for n, p := range want {
			if got[n] != p {
				return fmt.Errorf("%s: import %s is %q, want %q", path, n, got[n], p)
			}
		}
		return nil
	}
	const base = "github.com/mmcloughlin/avo/"
	// only the names the recognised shapes mention: `operand.Op` in the signatures, `x86.NAME` in the method bodies
	// (how the ir package is imported — `intrep`, `ir` — plays no role in the shapes)
	if err := check(filepath.Join(repo, "x86", "zctors.go"), map[string]string{"operand": base + "operand"}); err != nil {
		return err
	}
	return check(filepath.Join(repo, "build", "zinstructions.go"), map[string]string{"operand": base + "operand", "x86": base + "x86"})
}
