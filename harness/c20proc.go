package main

import (
	"crypto/sha256"
	"fmt"
	"io"
	"sort"
	"strings"

	"github.com/mmcloughlin/avo/build"
	"github.com/mmcloughlin/avo/operand"
	"github.com/mmcloughlin/avo/pass"
	"github.com/mmcloughlin/avo/printer"
	"github.com/mmcloughlin/avo/reg"
)

// C20, the register model over the life of a PROCESS.  reg.Families and the
// families' register slices are package-level state of the library; sections
// 1-9 of c20.go evaluate the exhaustive table / API correspondence in a CLEAN
// process, before anything was compiled.  Here the process is used: functions
// are built through build.Context and compiled (pass.Compile, build.Main) with
// general-purpose / vector / opmask registers, restricted registers as operands,
// register pressure; allocators are created and run directly
// (pass.NewAllocator(ForKind), SetPriority, Add, AddInterference, Allocate); the
// slices Family.Registers() returns are sorted / reversed / overwritten /
// truncated and appended to / nilled by the caller; Collections and Contexts
// come and go; the table is queried in shuffled order.  After EVERY operation
// the whole exhaustive stream is recomputed and its digest compared with the
// clean one (`tblh`, model answer: same — theorem proc_table_const); after the
// scripted part and at the end (and at once when a digest differs) the full
// stream is emitted again, every line wrapped with the history
// (`after <n> op… ; <request>`, `accept-after <n> op… ; accept-…`), so that the
// exact model comparison and every acceptor (against the measured oracle) judge
// the table as it is THEN.

type c20Line struct{ kind, req, resp string }

var (
	c20ProcSnap  []reg.Physical // the registers as the clean process listed them (the VALUES a program holds, like reg.RSP)
	c20ProcClean string         // digest of the exhaustive stream in the clean process
)

// c20ProcInit must run before anything dirties the process.
func c20ProcInit() {
	if c20ProcSnap != nil {
		return
	}
	for _, fam := range reg.Families {
		c20ProcSnap = append(c20ProcSnap, fam.Registers()...)
	}
	c20ProcClean = c20Digest(c20TableStream())
}

func c20Digest(ls []c20Line) string {
	h := sha256.New()
	for _, l := range ls {
		io.WriteString(h, l.req)
		h.Write([]byte{0})
		io.WriteString(h, l.resp)
		h.Write([]byte{'\n'})
	}
	return fmt.Sprintf("%x", h.Sum(nil)[:12])
}

// c20TableStream: the canonical exhaustive lines of the table / API as it answers NOW (same line formats as the
// clean sections of c20.go).  Rows are re-read from the families; conversions and lookups start from the registers
// of the clean snapshot.
func c20TableStream() []c20Line {
	var out []c20Line
	emit := func(kind, req, resp string) { out = append(out, c20Line{kind, req, resp}) }
	guard := func(kind, req string, f func()) { // a panic while computing a line is the answer `panic`
		n := len(out)
		defer func() {
			if e := recover(); e != nil {
				out = append(out[:n], c20Line{kind, req, "panic"})
			}
		}()
		f()
	}
	for i, p := range c20ProcSnap {
		if p.Kind() == reg.KindPseudo {
			continue
		}
		kind, idx := uint8(p.Kind()), uint16(p.PhysicalIndex())
		for _, m := range c20Methods(p) {
			res, _, panicked := c20Call(p, m)
			step := "panic"
			if !panicked {
				step = c20Phys(res) + ":" + c20Bits(res)[:10]
			}
			emit("pas", fmt.Sprintf("pas %d 1 %s", i, m), c20Phys(p)+" "+step)
			emit("accept-as", fmt.Sprintf("accept-as %d %d %d %s %s", kind, idx, uint32(p.ID()), m, c20Res(res, panicked)), "ok")
			if !panicked {
				rk, ridx := uint8(res.Kind()), -1
				if rp := reg.ToPhysical(res); rp != nil {
					ridx = int(rp.PhysicalIndex())
				}
				emit("accept-class", fmt.Sprintf("accept-class conv %s %d %d %d %d %d %s", c20Tok(res.Asm()), rk, ridx, res.Mask(), res.Size(), uint32(res.ID()), c20Bits(res)), "ok")
			}
		}
	}
	specs := []reg.Spec{reg.S0, reg.S8L, reg.S8H, reg.S16, reg.S32, reg.S64, reg.S128, reg.S256, reg.S512, 4, 5, 6, 8, 0x80, 0xff, 0x100, 0x10f, 0xffff}
	seenID := map[reg.ID]bool{}
	var physIDs []reg.Physical
	for _, p := range c20ProcSnap {
		if seenID[p.ID()] {
			continue
		}
		seenID[p.ID()] = true
		if p.Kind() != reg.KindPseudo {
			physIDs = append(physIDs, p)
		}
		for _, s := range specs {
			p, s := p, s
			req := fmt.Sprintf("lookupid %d %d", uint32(p.ID()), uint16(s))
			guard("lookupid", req, func() {
				res := reg.LookupID(p.ID(), s)
				emit("lookupid", req, c20LookupResp(res))
				if p.Kind() != reg.KindPseudo {
					acc := "panic"
					if res != nil {
						acc = c20Res(res, false)
					}
					emit("accept-lookup", fmt.Sprintf("accept-lookup %d %d %d %d %s", uint8(p.Kind()), uint16(p.PhysicalIndex()), uint32(p.ID()), uint16(s), acc), "ok")
				}
			})
		}
	}
	for k := 0; k <= 4; k++ {
		for idx := 0; idx <= 33; idx++ {
			for _, s := range specs[:12] {
				k, idx, s := k, idx, s
				req := fmt.Sprintf("lookupphys %d %d %d", k, idx, uint16(s))
				guard("lookupphys", req, func() {
					emit("lookupphys", req, c20LookupResp(reg.LookupPhysical(reg.Kind(k), reg.Index(idx), s)))
				})
			}
		}
	}
	// virtual -> physical view (what BindRegisters uses)
	for _, ctor := range c20Ctors {
		c := reg.NewCollection()
		var v reg.Virtual
		for i := 0; i < 4; i++ {
			v, _ = c20AllocSafe(c, ctor)
		}
		if v == nil {
			continue
		}
		for _, p := range physIDs {
			c20EmitVlook(emit, v, p)
		}
	}
	// the rows as the families list them now
	var now []reg.Physical
	for _, fam := range reg.Families {
		now = append(now, fam.Registers()...)
	}
	emit("nrows", "nrows", fmt.Sprint(len(now)))
	for i, p := range now {
		i, p := i, p
		guard("row", fmt.Sprintf("row %d", i), func() {
			name, kind, idx := p.Asm(), uint8(p.Kind()), uint16(p.PhysicalIndex())
			emit("row", fmt.Sprintf("row %d", i), fmt.Sprintf("%s:%d:%d:%d:%d:%d:%d:%s", c20Tok(name), kind, idx, p.Mask(), p.Size(), uint8(p.Info()), uint32(p.ID()), c20Bits(p)))
			if p.Kind() == reg.KindPseudo {
				return
			}
			emit("accept-reg", fmt.Sprintf("accept-reg %d %s %d %d %d %d %d", i, c20Tok(name), kind, idx, p.Mask(), p.Size(), uint32(p.ID())), "ok")
			emit("accept-class", fmt.Sprintf("accept-class tbl %s %d %d %d %d %d %s", c20Tok(name), kind, idx, p.Mask(), p.Size(), uint32(p.ID()), c20Bits(p)), "ok")
		})
	}
	return out
}

// c20ProcHist renders a history for a request line.
func c20ProcHist(toks []string) string {
	return fmt.Sprintf("%d %s", len(toks), strings.Join(toks, " "))
}

// c20EmitAfter: the full stream, every line wrapped with the history.
func c20EmitAfter(toks []string, ls []c20Line, emit func(kind, req, resp string)) {
	h := c20ProcHist(toks)
	for _, l := range ls {
		if strings.HasPrefix(l.req, "accept-") {
			emit("accept-after", "accept-after "+h+" ; "+l.req, l.resp)
		} else {
			emit("after", "after "+h+" ; "+l.req, l.resp)
		}
	}
}

// ---------------------------------------------------------------- the operations

var c20ProcShapes = []string{"gp", "vec", "k", "all", "sp", "h8", "k0", "press"}
var c20ProcVariants = []string{"forkind", "registers", "snapshot", "subset"}
var c20ProcHows = []string{"sort", "reverse", "overwrite", "truncappend", "nilout", "swap"}

func c20ProcBuild(shape string) *build.Context {
	c := build.NewContext()
	c.Function("f_" + shape)
	gp := func() {
		a, b := c.GP64(), c.GP64()
		c.Load(c.Param("n"), a)
		c.MOVQ(operand.U32(3), b)
		c.ADDQ(a, b)
		w := c.GP32()
		c.MOVL(operand.U32(1), w)
		c.ADDL(w, b.As32())
		c.Store(b, c.ReturnIndex(0))
	}
	vec := func() {
		x, y := c.XMM(), c.XMM()
		c.PXOR(x, x)
		c.PXOR(y, y)
		c.PADDQ(x, y)
		z1, z2 := c.ZMM(), c.ZMM()
		c.VPXORQ(z1, z1, z1)
		c.VPADDQ(z1, z1, z2)
		yy := c.YMM()
		c.VPADDQ(z2.AsY(), z1.AsY(), yy)
	}
	kk := func() {
		k1, k2 := c.K(), c.K()
		c.KXORQ(k1, k1, k1)
		c.KXORQ(k2, k2, k2)
		c.KADDQ(k1, k2, k2)
	}
	switch shape {
	case "gp":
		c.SignatureExpr("func(p *uint64, n uint64) uint64")
		gp()
	case "vec":
		c.SignatureExpr("func()")
		vec()
	case "k":
		c.SignatureExpr("func()")
		kk()
	case "all":
		c.SignatureExpr("func(p *uint64, n uint64) uint64")
		gp()
		vec()
		kk()
	case "sp": // restricted registers as operands
		c.SignatureExpr("func() uint64")
		g := c.GP64()
		c.MOVQ(reg.RSP, g)
		c.LEAQ(operand.Mem{Base: reg.RSP, Disp: 16}, g)
		c.ADDQ(reg.RBP, g)
		c.Store(g, c.ReturnIndex(0))
	case "h8":
		c.SignatureExpr("func() uint8")
		h, l := c.GP8H(), c.GP8L()
		c.MOVB(operand.U8(1), h)
		c.MOVB(h, l)
		c.Store(l, c.ReturnIndex(0))
	case "k0":
		c.SignatureExpr("func()")
		k1 := c.K()
		c.KMOVQ(reg.K0, k1)
		c.KADDQ(reg.K0, k1, k1)
	case "press": // more simultaneously live values than registers: allocation fails
		c.SignatureExpr("func() uint64")
		var rs []reg.GPVirtual
		for i := 0; i < 17; i++ {
			r := c.GP64()
			c.MOVQ(operand.U32(uint32(i)), r)
			rs = append(rs, r)
		}
		for _, r := range rs[1:] {
			c.ADDQ(r, rs[0])
		}
		c.Store(rs[0], c.ReturnIndex(0))
	}
	c.RET()
	return c
}

// c20ProcCall performs one operation; stats counts what really happened (a compile that allocated, an allocator that ran).
func c20ProcCall(tok string, stats map[string]int) (known bool) {
	defer func() {
		if e := recover(); e != nil {
			stats["proc:operation-panicked"]++
			known = true
		}
	}()
	p := strings.Split(tok, ":")
	arg := func(i int) int {
		if i < len(p) {
			return c20CtxAtoi(p[i])
		}
		return -1
	}
	has := func(xs []string, x string) bool {
		for _, y := range xs {
			if x == y {
				return true
			}
		}
		return false
	}
	switch p[0] {
	case "compile", "main":
		if len(p) != 2 || !has(c20ProcShapes, p[1]) {
			return false
		}
		c := c20ProcBuild(p[1])
		if p[0] == "compile" {
			f, err := c.Result()
			if f != nil {
				if pass.Compile.Execute(f) == nil && err == nil {
					stats["proc:compiled-ok:"+p[1]]++
				}
			}
		} else {
			pc := printer.Config{Name: "avo", Pkg: "p"}
			if build.Main(&build.Config{ErrOut: io.Discard, Passes: []pass.Interface{pass.Compile,
				&pass.Output{Writer: c20CtxDiscard{}, Printer: printer.NewGoAsm(pc)},
				&pass.Output{Writer: c20CtxDiscard{}, Printer: printer.NewStubs(pc)}}}, c) == 0 {
				stats["proc:main-ok:"+p[1]]++
			}
		}
	case "allocator":
		if len(p) != 3 || arg(1) < 0 || arg(1) > 255 || !has(c20ProcVariants, p[2]) {
			return false
		}
		k := reg.Kind(arg(1))
		var a *pass.Allocator
		var err error
		var mine []reg.Physical
		for _, r := range c20ProcSnap {
			if r.Kind() == k {
				mine = append(mine, r)
			}
		}
		switch p[2] {
		case "forkind":
			a, err = pass.NewAllocatorForKind(k)
		case "registers":
			if f := reg.FamilyOfKind(k); f != nil {
				a, err = pass.NewAllocator(f.Registers())
			}
		case "snapshot":
			a, err = pass.NewAllocator(mine)
		default:
			if len(mine) > 3 {
				mine = mine[len(mine)-3:]
			}
			a, err = pass.NewAllocator(mine)
		}
		if a == nil || err != nil {
			break
		}
		col := reg.NewCollection()
		var vs []reg.Virtual
		for i := 0; i < 5; i++ {
			vs = append(vs, col.VirtualRegister(k, reg.S64))
		}
		if len(mine) > 0 {
			a.SetPriority(mine[len(mine)-1].ID(), 5)
			a.SetPriority(mine[0].ID(), -1)
		}
		for i, v := range vs {
			a.Add(v.ID())
			if i > 0 {
				a.AddInterference(vs[i-1].ID(), v.ID())
			}
		}
		if _, err := a.Allocate(); err == nil {
			stats[fmt.Sprintf("proc:allocated-ok:%d", k)]++
		}
	case "mutate":
		if len(p) != 3 || arg(1) < 0 || arg(1) > 255 || !has(c20ProcHows, p[2]) {
			return false
		}
		f := reg.FamilyOfKind(reg.Kind(arg(1)))
		if f == nil {
			break
		}
		rs := f.Registers()
		if len(rs) < 2 {
			break
		}
		stats["proc:mutated-accessor-result"]++
		switch p[2] {
		case "sort":
			sort.Slice(rs, func(i, j int) bool {
				if rs[i].Asm() != rs[j].Asm() {
					return rs[i].Asm() > rs[j].Asm()
				}
				return rs[i].Size() > rs[j].Size()
			})
		case "reverse":
			for i, j := 0, len(rs)-1; i < j; i, j = i+1, j-1 {
				rs[i], rs[j] = rs[j], rs[i]
			}
		case "overwrite":
			for i := range rs {
				rs[i] = rs[0]
			}
		case "truncappend":
			last := rs[len(rs)-1]
			rs = rs[:0]
			rs = append(rs, last, last, last)
		case "nilout":
			for i := range rs {
				rs[i] = nil
			}
		default:
			rs[0], rs[1] = rs[1], rs[0]
		}
	case "collection":
		if len(p) != 2 {
			return false
		}
		c := reg.NewCollection()
		for i := 0; i <= arg(1)%8; i++ {
			c.GP64().As8H()
			c.GP8().As64()
			c.XMM().AsZ()
			c.K()
		}
	case "context":
		if len(p) != 2 {
			return false
		}
		c := build.NewContext()
		c.Function("g")
		c.SignatureExpr("func(p *uint64)")
		for i := 0; i <= arg(1)%8; i++ {
			c.MOVQ(operand.U32(1), c.GP64())
			c.Dereference(c.Param("p"))
			c.XMM()
		}
		c.Result()
	case "query":
		if len(p) != 2 || arg(1) < 0 {
			return false
		}
		r := newRng(uint64(arg(1)))
		for n := 0; n < 400; n++ {
			q := c20ProcSnap[r.intn(len(c20ProcSnap))]
			switch r.intn(4) {
			case 0:
				reg.LookupID(q.ID(), pick(r, []reg.Spec{reg.S8L, reg.S8H, reg.S16, reg.S32, reg.S64, reg.S128, reg.S256, reg.S512}))
			case 1:
				reg.LookupPhysical(q.Kind(), q.PhysicalIndex(), reg.Spec(q.Mask()))
			case 2:
				if ms := c20Methods(q); len(ms) > 0 {
					c20Call(q, pick(r, ms))
				}
			default:
				if f := reg.FamilyOfKind(q.Kind()); f != nil {
					f.Lookup(reg.Index(r.intn(34)), reg.Spec(q.Mask()))
				}
			}
		}
	case "ctxhist": // scripted sweep + n random histories of calls on a build.Context (c20ctx.go), output discarded
		if len(p) != 4 || arg(1) < 0 || arg(2) < 0 || arg(2) > 20000 || arg(3) < 0 {
			return false
		}
		c20CtxGenerate(newRng(uint64(arg(1))), arg(2), arg(3) == 1, func(kind, req, resp string) {}, map[string]int{})
	case "rand":
		if len(p) != 3 || arg(1) < 0 || arg(2) < 0 || arg(2) > 100000 {
			return false
		}
		r := newRng(uint64(arg(1)))
		for n := 0; n < arg(2); n++ {
			if !c20ProcCall(c20ProcRandomTok(r), stats) {
				stats["proc:unknown-operation(generator bug)"]++
			}
			stats["proc:random-operations"]++
		}
	default:
		return false
	}
	return true
}

func c20ProcRandomTok(r *rng) string {
	switch x := r.intn(100); {
	case x < 30:
		return "compile:" + pick(r, c20ProcShapes)
	case x < 35:
		return "main:" + pick(r, c20ProcShapes)
	case x < 60:
		return fmt.Sprintf("allocator:%d:%s", pick(r, []int{0, 1, 1, 2, 2, 3, 3, 9}), pick(r, c20ProcVariants))
	case x < 80:
		return fmt.Sprintf("mutate:%d:%s", r.intn(4), pick(r, c20ProcHows))
	case x < 87:
		return fmt.Sprintf("collection:%d", r.intn(8))
	case x < 94:
		return fmt.Sprintf("context:%d", r.intn(8))
	default:
		return fmt.Sprintf("query:%d", r.intn(1<<20))
	}
}

// c20ProcGenerate dirties the process step by step (LAST section of a run: nothing evaluated afterwards is clean).
func c20ProcGenerate(r *rng, chunks, chunkLen int, ctxSection func() string, emit func(kind, req, resp string), stats map[string]int) {
	c20ProcInit()
	var hist []string
	changed := false
	check := func(tok string) bool {
		ls := c20TableStream()
		if c20Digest(ls) == c20ProcClean {
			emit("tblh", "tblh "+c20ProcHist(hist), "same")
			return true
		}
		// the table answers differently now: say so, and let the model and the acceptors judge every line of it
		emit("tblh", "tblh "+c20ProcHist(hist), "changed")
		c20EmitAfter(hist, ls, emit)
		stats["proc:table-changed-after:"+strings.Split(tok, ":")[0]]++
		changed = true
		return false
	}
	step := func(tok string) bool {
		hist = append(hist, tok)
		if !c20ProcCall(tok, stats) {
			stats["proc:unknown-operation(generator bug)"]++
		}
		return check(tok)
	}
	// what the clean sections of this run did (conversions, lookups, collections, 65537-register runs) is a
	// history too
	if ls := c20TableStream(); c20Digest(ls) == c20ProcClean {
		emit("tblh", "tblh "+c20ProcHist(hist), "same")
	} else {
		emit("tblh", "tblh "+c20ProcHist(hist), "changed")
		c20EmitAfter(hist, ls, emit)
		stats["proc:table-changed-after:the-clean-sections"]++
		return
	}
	var script []string
	for _, s := range c20ProcShapes {
		script = append(script, "compile:"+s)
	}
	script = append(script, "main:gp", "main:all")
	for _, k := range []int{1, 2, 3, 0, 9} {
		for _, v := range c20ProcVariants {
			script = append(script, fmt.Sprintf("allocator:%d:%s", k, v))
		}
	}
	for k := 0; k < 4; k++ {
		for _, h := range c20ProcHows {
			script = append(script, fmt.Sprintf("mutate:%d:%s", k, h))
		}
	}
	script = append(script, "collection:5", "context:5", fmt.Sprintf("query:%d", r.intn(1<<20)), "compile:all")
	for _, tok := range script {
		if !step(tok) {
			return
		}
	}
	c20EmitAfter(hist, c20TableStream(), emit)
	stats["proc:full-stream-after-history"]++
	for i := 0; i < chunks; i++ {
		if !step(fmt.Sprintf("rand:%d:%d", r.intn(1<<20), chunkLen)) {
			return
		}
	}
	// the Context histories of this run (section 10 of c20.go) are one more step
	tok := ctxSection()
	hist = append(hist, tok)
	if !check(tok) {
		return
	}
	if !changed {
		c20EmitAfter(hist, c20TableStream(), emit)
		stats["proc:full-stream-after-history"]++
	}
}

// c20AcceptKeyLen: how many leading tokens of an acceptor request of the table stream are INPUTS (the rest is the
// implementation's output, recomputed on replay).
func c20AcceptKeyLen(name string, ts []string) int {
	switch name {
	case "accept-reg":
		return 2
	case "accept-class":
		return 6
	case "accept-as", "accept-lookup", "accept-vlook":
		return 5
	case "accept-vlookdflt":
		return 6
	}
	return len(ts)
}

// c20ProcReplay re-runs a `tblh`, `after` or `accept-after` line: the history first, then the line(s) of the
// recomputed stream that ask the same question.
func c20ProcReplay(ts []string, emit func(kind, req, resp string), stats map[string]int) {
	c20ProcInit()
	if len(ts) < 2 {
		return
	}
	n := c20CtxAtoi(ts[1])
	if n < 0 || len(ts) < 2+n {
		return
	}
	hist := ts[2 : 2+n]
	for _, t := range hist {
		if !c20ProcCall(t, stats) {
			return
		}
	}
	ls := c20TableStream()
	if ts[0] == "tblh" {
		resp := "same"
		if c20Digest(ls) != c20ProcClean {
			resp = "changed"
		}
		emit("tblh", "tblh "+c20ProcHist(hist), resp)
		return
	}
	inner := ts[2+n:]
	if len(inner) < 2 || inner[0] != ";" {
		return
	}
	inner = inner[1:]
	key := inner
	if strings.HasPrefix(inner[0], "accept-") {
		if kl := c20AcceptKeyLen(inner[0], inner); kl < len(key) {
			key = key[:kl]
		}
	}
	want := strings.Join(key, " ")
	var sel []c20Line
	for _, l := range ls {
		if l.req == want || strings.HasPrefix(l.req, want+" ") {
			sel = append(sel, l)
		}
	}
	c20EmitAfter(hist, sel, emit)
}
