package main

import (
	"fmt"
	"strings"

	"github.com/mmcloughlin/avo/ir"
	"github.com/mmcloughlin/avo/operand"
	"github.com/mmcloughlin/avo/reg"
	"github.com/mmcloughlin/avo/x86"
)

// ---------------------------------------------------------------------------
// C05 operand generator: physical registers only (the text must assemble),
// boundary-biased values.
// ---------------------------------------------------------------------------

type c05Gen struct {
	lowNeg bool // few negative 8-bit constants (forms whose imm8 the assembler reads as unsigned)
	target string // near-miss: perturb an operand of this type name ("" = any operand)
	noK0   int  // operand position that must not be K0 (write mask), -1 = none
	vecMax int  // vector registers 0..vecMax-1 are used (16 for forms without an AVX-512 encoding)
	r      *rng
	gp     map[uint][]reg.Register // by size in bytes
	vec    map[uint][]reg.Register
	k      []reg.Register
	stats  map[string]int
}

func c05NewGen(r *rng) *c05Gen {
	g := &c05Gen{vecMax: 32, r: r, gp: map[uint][]reg.Register{}, vec: map[uint][]reg.Register{}, stats: map[string]int{}}
	for _, p := range reg.GeneralPurpose.Registers() {
		g.gp[p.Size()] = append(g.gp[p.Size()], p)
	}
	for _, p := range reg.Vector.Registers() {
		g.vec[p.Size()] = append(g.vec[p.Size()], p)
	}
	for _, p := range reg.Opmask.Registers() {
		g.k = append(g.k, p)
	}
	return g
}

// c05IsHigh reports whether r is one of AH, CH, DH, BH.
func c05IsHigh(r reg.Register) bool {
	return r.Kind() == reg.KindGP && r.Mask() == reg.S8H.Mask()
}

func (g *c05Gen) gpReg(size uint) reg.Register {
	rs := g.gp[size]
	if size == 1 {
		// 20 registers: AL..BL, AH..BH, SPB..R15B; keep the high-byte ones at ~12%
		for {
			x := pick(g.r, rs)
			if c05IsHigh(x) && !g.r.chance(1, 2) {
				continue
			}
			return x
		}
	}
	return pick(g.r, rs)
}

func (g *c05Gen) vecReg(size uint) reg.Register {
	rs := g.vec[size]
	if g.vecMax < len(rs) {
		rs = rs[:g.vecMax]
	}
	return pick(g.r, rs)
}

// c05HasEVEX reports whether the form belongs to an AVX-512 extension (EVEX
// encoding: registers 16..31 and opmasks are encodable).
func c05HasEVEX(row *formRow) bool {
	for _, isa := range row.ISAs {
		if strings.HasPrefix(isa, "AVX512") {
			return true
		}
	}
	return false
}

// c05DistinctVec reports whether all vector/opmask registers among the operands (incl. VSIB index) are distinct.
func c05DistinctVec(ops []operand.Op) bool {
	seen := map[reg.ID]bool{}
	for _, op := range ops {
		var r reg.Register
		switch v := op.(type) {
		case reg.Register:
			r = v
		case operand.Mem:
			r = v.Index
		}
		if r == nil || (r.Kind() != reg.KindVector && r.Kind() != reg.KindOpmask) {
			continue
		}
		if seen[r.ID()] {
			return false
		}
		seen[r.ID()] = true
	}
	return true
}

var c05DispBoundary = []int{0, 0, 1, -1, 8, -8, 64, 127, 128, -128, -129, 4096, 8128, 0x7fffffff, -0x80000000}

func (g *c05Gen) disp() int {
	if g.r.chance(1, 6) {
		return int(int32(g.r.u64())) >> uint(g.r.intn(28))
	}
	return pick(g.r, c05DispBoundary)
}

// mem builds a memory operand; vecIdx != 0 selects a vector index of that size (VSIB).
func (g *c05Gen) mem(vecIdx uint) operand.Mem {
	r := g.r
	var m operand.Mem
	if vecIdx != 0 {
		m.Base = pick(r, g.gp[8])
		m.Index = g.vecReg(vecIdx)
		m.Scale = pick(r, []uint8{1, 2, 4, 8})
		m.Disp = g.disp()
		return m
	}
	switch c := r.intn(20); {
	case c < 2:
		m = operand.NewParamAddr(pick(r, []string{"x", "arg_len", "ret1"}), pick(r, []int{0, 8, 16, 24, 120, 4096}))
	case c < 3:
		m = operand.NewStackAddr(pick(r, []int{0, 8, 16, 128, -8, 4096}))
	case c < 4:
		m = operand.Mem{Symbol: operand.Symbol{Name: pick(r, []string{"tmp", "v_1"})}, Disp: pick(r, []int{-8, -16, -128, -136}), Base: reg.StackPointer}
	case c < 5:
		m = operand.NewDataAddr(operand.NewStaticSymbol(pick(r, []string{"data", "tbl_0"})), pick(r, []int{0, 8, 16, 4096}))
	case c < 6:
		m = operand.NewDataAddr(operand.Symbol{Name: pick(r, []string{"·glob", "ext"})}, pick(r, []int{0, 8, 64}))
	default:
		m.Base = pick(r, g.gp[8])
		m.Disp = g.disp()
	}
	if r.chance(2, 5) && m.Base != reg.StaticBase {
		// SP cannot be an index register
		for {
			m.Index = pick(r, g.gp[8])
			if m.Index != reg.RSP {
				break
			}
		}
		m.Scale = pick(r, []uint8{1, 2, 4, 8})
	}
	return m
}

// c05ImmBoundary returns boundary values of an n-bit immediate as (signed?, raw bits).
func (g *c05Gen) imm(bits uint) operand.Op {
	r := g.r
	signed := r.chance(1, 2)
	if bits == 8 && g.lowNeg {
		signed = r.chance(1, 8)
	}
	mask := ^uint64(0)
	if bits < 64 {
		mask = (uint64(1) << bits) - 1
	}
	top := uint64(1) << (bits - 1)
	var x uint64
	if r.chance(1, 5) {
		x = r.u64() & mask
	} else {
		// 0, 1, 2^(n-1)-1, 2^(n-1), 2^n-1 (= -1), -2^(n-1) (= 2^(n-1) as bits), plus 32-bit boundaries inside 64-bit constants
		cands := []uint64{0, 1, 2, top - 1, top, mask, mask - 1, 0x7f, 0x80, 0xff}
		if bits == 64 {
			cands = append(cands, 0x7fffffff, 0x80000000, 0xffffffff, 0x100000000, ^uint64(0x7fffffff), ^uint64(0x80000000))
		}
		x = pick(r, cands) & mask
	}
	switch bits {
	case 8:
		if signed {
			return operand.I8(int8(x))
		}
		return operand.U8(uint8(x))
	case 16:
		if signed {
			return operand.I16(int16(x))
		}
		return operand.U16(uint16(x))
	case 32:
		if signed {
			return operand.I32(int32(x))
		}
		return operand.U32(uint32(x))
	}
	if signed {
		return operand.I64(int64(x))
	}
	return operand.U64(x)
}

// operandFor builds an operand of operand type name t.
func (g *c05Gen) operandFor(t string) operand.Op {
	switch t {
	case "1":
		return operand.U8(1)
	case "3":
		return operand.U8(3)
	case "imm2u":
		return operand.U8(g.r.intn(4))
	case "imm8":
		return g.imm(8)
	case "imm16":
		return g.imm(16)
	case "imm32":
		return g.imm(32)
	case "imm64":
		return g.imm(64)
	case "al":
		return reg.AL
	case "cl":
		return reg.CL
	case "ax":
		return reg.AX
	case "eax":
		return reg.EAX
	case "rax":
		return reg.RAX
	case "xmm0":
		return reg.X0
	case "r8":
		return g.gpReg(1)
	case "r16":
		return g.gpReg(2)
	case "r32":
		return g.gpReg(4)
	case "r64":
		return g.gpReg(8)
	case "xmm":
		return g.vecReg(16)
	case "ymm":
		return g.vecReg(32)
	case "zmm":
		return g.vecReg(64)
	case "k":
		return pick(g.r, g.k)
	case "m", "m8", "m16", "m32", "m64", "m128", "m256", "m512":
		return g.mem(0)
	case "vm32x", "vm64x":
		return g.mem(16)
	case "vm32y", "vm64y":
		return g.mem(32)
	case "vm32z", "vm64z":
		return g.mem(64)
	case "rel8":
		return operand.Rel(int32(pick(g.r, []int8{0, 1, 2, 5, 127, -1, -2, -128})))
	case "rel32":
		if g.r.chance(3, 4) {
			return operand.LabelRef(pick(g.r, []string{"loop", "done", "l_1"}))
		}
		return operand.Rel(pick(g.r, []int32{0, 1, 5, 127, 128, -1, -128, -129, 0x7fffffff, -0x80000000}))
	}
	panic("c05 operandFor: unknown operand type " + t)
}

// nearMiss perturbs one operand of a well-typed list so that it no longer
// belongs to the form's operand class (wrong constant type / wrong register
// size / malformed memory reference). The constructor is expected to reject it
// unless another form of the opcode matches; when it accepts, the instruction
// goes through the oracle like any other.
func (g *c05Gen) nearMiss(types []string, ops []operand.Op) string {
	if len(ops) == 0 {
		return ""
	}
	i := g.r.intn(len(ops))
	if g.target != "" {
		var at []int
		for k, t := range types {
			if t == g.target {
				at = append(at, k)
			}
		}
		if len(at) == 0 {
			return ""
		}
		i = pick(g.r, at)
	}
	t := types[i]
	switch {
	case t == "imm8" || t == "imm2u" || t == "1" || t == "3":
		ops[i] = pick(g.r, []operand.Op{operand.U16(0x100), operand.U16(0xffff), operand.I16(-129), operand.U32(0x10000), operand.U8(4), operand.U8(0xff),
			operand.U16(1), operand.I32(3), operand.U64(1 << 8)})
		return "imm-wider"
	case t == "imm16":
		ops[i] = pick(g.r, []operand.Op{operand.U32(0x10000), operand.I32(-32769), operand.U64(1 << 40), operand.U32(0x12345), operand.I32(1 << 16), operand.U8(0x7f), operand.I64(-(1 << 15) - 1)})
		return "imm-wider"
	case t == "imm32":
		ops[i] = pick(g.r, []operand.Op{operand.U64(1 << 32), operand.I64(-(1 << 31) - 1), operand.U64(0xffffffff), operand.U64(1<<32 + 5), operand.I64(1 << 40), operand.U16(0x8000)})
		return "imm-wider"
	case t == "imm64":
		ops[i] = pick(g.r, []operand.Op{operand.U8(0xff), operand.I16(-1), operand.Rel(5)})
		return "imm-narrower"
	case t == "rel8" || t == "rel32":
		ops[i] = pick(g.r, []operand.Op{operand.U8(5), operand.I32(-2), g.gpReg(8), operand.Mem{Base: g.gpReg(8)}})
		return "rel-kind"
	case t == "al" || t == "cl" || t == "ax" || t == "eax" || t == "rax" || t == "xmm0":
		// another view of the very same register, or its neighbour: must not match the fixed-register row
		alt := map[string][]operand.Op{
			"al":   {reg.AH, reg.AX, reg.EAX, reg.RAX, reg.CL},
			"cl":   {reg.CH, reg.CX, reg.ECX, reg.RCX, reg.AL},
			"ax":   {reg.AL, reg.AH, reg.EAX, reg.RAX, reg.CX},
			"eax":  {reg.AL, reg.AX, reg.RAX, reg.ECX},
			"rax":  {reg.AL, reg.AX, reg.EAX, reg.RCX},
			"xmm0": {reg.Y0, reg.Z0, reg.X1},
		}
		ops[i] = pick(g.r, alt[t])
		return "fixed-reg-view"
	case t == "r8" || t == "r16" || t == "r32" || t == "r64":
		sizes := map[string]uint{"r8": 1, "r16": 2, "r32": 4, "r64": 8}
		s := pick(g.r, []uint{1, 2, 4, 8})
		if s == sizes[t] {
			s = 16
		}
		if s == 16 {
			ops[i] = g.vecReg(16)
		} else {
			ops[i] = g.gpReg(s)
		}
		return "reg-size"
	case t == "xmm" || t == "ymm" || t == "zmm":
		sizes := map[string]uint{"xmm": 16, "ymm": 32, "zmm": 64}
		s := pick(g.r, []uint{16, 32, 64})
		if s == sizes[t] {
			ops[i] = g.gpReg(8)
		} else {
			ops[i] = g.vecReg(s)
		}
		return "reg-size"
	case strings.HasPrefix(t, "m") || strings.HasPrefix(t, "vm"):
		m, ok := ops[i].(operand.Mem)
		if !ok {
			return ""
		}
		switch g.r.intn(3) {
		case 0:
			m.Base = nil
		case 1:
			m.Base = g.vecReg(16)
		default:
			m.Index = pick(g.r, g.k)
			m.Scale = 1
		}
		ops[i] = m
		return "mem-shape"
	}
	return ""
}

// malform produces operands that are inside the operand class as the
// implementation defines it, but questionable as machine operands: narrow or
// high-byte base registers, SP as index, scales outside {1,2,4,8}, pseudo
// registers as index, displacements outside 32 bits.
func (g *c05Gen) malform(types []string, ops []operand.Op) string {
	var idxs []int
	for i, op := range ops {
		if _, ok := op.(operand.Mem); ok {
			idxs = append(idxs, i)
		}
	}
	if len(idxs) == 0 {
		return ""
	}
	i := pick(g.r, idxs)
	m := ops[i].(operand.Mem)
	vsib := strings.HasPrefix(types[i], "vm")
	var what string
	switch c := g.r.intn(6); {
	case c == 0 && !vsib:
		m = operand.Mem{Base: g.gpReg(pick(g.r, []uint{1, 2, 4})), Disp: m.Disp}
		what = "narrow-base"
	case c == 1 && !vsib:
		if m.Base == nil || m.Base.Kind() != reg.KindGP {
			m.Base = reg.RAX
			m.Symbol = operand.Symbol{}
		}
		m.Index = reg.RSP
		m.Scale = pick(g.r, []uint8{1, 2})
		what = "sp-index"
	case c == 2:
		if m.Index == nil {
			m.Index = reg.RCX
			if vsib {
				m.Index = reg.X1
			}
		}
		m.Scale = pick(g.r, []uint8{3, 5, 16, 0})
		what = fmt.Sprintf("scale-%d", m.Scale)
	case c == 3 && !vsib:
		if m.Base == nil || m.Base.Kind() != reg.KindGP {
			m.Base = reg.RAX
			m.Symbol = operand.Symbol{}
		}
		m.Index = pick(g.r, []reg.Register{reg.FramePointer, reg.StackPointer, reg.StaticBase, reg.ProgramCounter})
		m.Scale = 1
		what = "pseudo-index"
	case c == 4:
		m.Disp = pick(g.r, []int{1 << 31, -(1 << 31) - 1, 1<<32 + 8, -(1 << 40)})
		what = "disp-wide"
	case !vsib:
		if m.Index != nil {
			m.Index = g.gpReg(pick(g.r, []uint{2, 4}))
			what = "narrow-index"
		} else {
			m = operand.Mem{Base: reg.ProgramCounter, Disp: m.Disp}
			what = "pc-base"
		}
	}
	if what == "" {
		return ""
	}
	ops[i] = m
	return what
}

// c05RegLikeNames are valid Go identifiers (hence possible label and parameter names) that are register names of the Go assembler.
var c05RegLikeNames = []string{"AX", "CX", "R8", "R15", "X1", "Y7", "Z31", "K1", "AL", "R8B", "SB", "SP", "FP", "PC"}

// shape produces operands that the operand classes accept and that are well-typed as Go values, whose PRINTED form
// the Go assembler reads differently or not at all (review C05-3): a label reference or a parameter named like a
// register, a pseudo-register base without a symbol, a symbol on a general-purpose base, symbol names that are not
// assembler identifiers.
func (g *c05Gen) shape(types []string, ops []operand.Op) string {
	var idxs []int
	for i, t := range types {
		if t == "rel32" || t == "rel8" {
			idxs = append(idxs, i)
		} else if _, ok := ops[i].(operand.Mem); ok && !strings.HasPrefix(t, "vm") {
			idxs = append(idxs, i)
		}
	}
	if len(idxs) == 0 {
		return ""
	}
	i := pick(g.r, idxs)
	if types[i] == "rel32" || types[i] == "rel8" {
		if types[i] == "rel8" {
			return "" // rel8 forms take operand.Rel only
		}
		ops[i] = operand.LabelRef(pick(g.r, c05RegLikeNames))
		return "label-regname"
	}
	switch g.r.intn(4) {
	case 0:
		ops[i] = operand.Mem{Base: pick(g.r, []reg.Register{reg.FramePointer, reg.StaticBase}), Disp: pick(g.r, []int{0, 8, 16, -8})}
		return "pseudo-nosym"
	case 1:
		base := pick(g.r, g.gp[8])
		for base == reg.RSP { // prints as SP: with a symbol that is the pseudo register, a valid reference
			base = pick(g.r, g.gp[8])
		}
		ops[i] = operand.Mem{Symbol: operand.Symbol{Name: pick(g.r, []string{"x", "tbl"}), Static: g.r.chance(1, 2)}, Base: base, Disp: pick(g.r, []int{0, 8, -8})}
		return "sym-gpbase"
	case 2:
		ops[i] = operand.NewParamAddr(pick(g.r, c05RegLikeNames), pick(g.r, []int{0, 8, 24}))
		return "param-regname"
	default:
		ops[i] = operand.NewParamAddr(pick(g.r, []string{"a-b", "a+b", "a.b", "1a", "a b"}), pick(g.r, []int{0, 8, 24}))
		return "param-nonident"
	}
}

// ---------------------------------------------------------------------------
// Cases
// ---------------------------------------------------------------------------

type c05Case struct {
	id       int
	gen      *formRow // the row the operands were generated for
	call     string   // the opcode whose constructor is called (the row lies in the range of forms that constructor scans)
	form     *formRow // the first matching row (what build() used)
	sfx      []string
	ops      []operand.Op
	inst     *ir.Instruction
	stream   string // "form", "nearmiss:<what>", "malformed:<what>", "scripted:<name>"
	label    string // label defined after the instruction when an operand is a LabelRef
	tail     bool   // a second instruction (long opcode) follows in the same block: exercises the printer's opcode padding
	line     string // printed instruction line
	status   string // "ok", "rejected"
	errmsg   string
	code     []byte
	relocs   []string
	dis      []string // binutils disassembly: the instruction, then whatever follows it in the symbol
	xdis     string   // x86asm view (intel syntax) when it decodes the whole instruction
	xmem     int      // x86asm MemBytes
	blobBase int      // address of the symbol in the flat file given to objdump
	decoded  string   // canonical decoded description
}

// c05Call: per opcode name the indices of the forms its constructor scans (x86.VerifOpcodeForms = opcode.Forms()),
// c05CallOf: the inverse. A row is always exercised through the constructor that scans it, whatever opcode the row
// itself names (seeded change C05-1: a row of ADDL naming ADDQ).
var (
	c05Call   map[string][]int
	c05CallOf map[int]string
)

func c05InitCall(db *formsDB) {
	c05Call, c05CallOf = map[string][]int{}, map[int]string{}
	for name, r := range x86.VerifOpcodeForms() {
		for i := r[0]; i < r[1] && i < len(db.rows); i++ {
			c05Call[name] = append(c05Call[name], i)
			c05CallOf[i] = name
		}
	}
}

// c05MatchedForm returns the first form row of the opcode matching suffixes and operands (what x86.build selects).
func c05MatchedForm(db *formsDB, opcode string, sfx []string, ops []operand.Op) *formRow {
	for _, ix := range c05Call[opcode] {
		f := &db.rows[ix]
		okS := false
		for _, s := range f.Suffixes {
			if strings.Join(s, ".") == strings.Join(sfx, ".") {
				okS = true
			}
		}
		if !okS || int(f.Arity) != len(ops) {
			continue
		}
		ok := true
		k := 0
		for _, o := range f.Operands {
			if o.Implicit {
				continue
			}
			if !x86.VerifMatch(o.Type, ops[k]) {
				ok = false
				break
			}
			k++
		}
		if ok {
			return f
		}
	}
	return nil
}

// sample generates a well-typed operand list for the explicit operand types of row (registers, memory shapes and
// constants boundary-biased; gather/scatter operands distinct; the write mask K0 only in stream k0mask).
func (g *c05Gen) sample(row *formRow, stream string) (types []string, ops []operand.Op, maskPos int) {
	types = row.explicitTypes()
	g.vecMax = 32
	if !c05HasEVEX(row) && stream != "hivec" {
		g.vecMax = 16
	}
	gather := false
	for _, t := range types {
		if strings.HasPrefix(t, "vm") {
			gather = true
		}
	}
	g.lowNeg = false
	for _, t := range types {
		if t == "xmm" || t == "ymm" || t == "zmm" || t == "k" || strings.HasPrefix(t, "vm") {
			g.lowNeg = true
		}
	}
	// the opmask in write-mask position (second to last operand of an AVX-512 vector instruction) cannot be K0
	maskPos = -1
	if n := len(types); n >= 3 && types[n-2] == "k" && strings.HasPrefix(row.Opcode, "V") {
		maskPos = n - 2
	}
	for tries := 0; tries < 20; tries++ {
		ops = ops[:0]
		for i, t := range types {
			op := g.operandFor(t)
			if i == maskPos {
				for (op == reg.K0) != (stream == "k0mask") {
					op = g.operandFor(t)
				}
			}
			ops = append(ops, op)
		}
		// gathers/scatters fault (and the assembler refuses) when destination, index and mask coincide
		if !gather || c05DistinctVec(ops) {
			break
		}
	}
	return types, ops, maskPos
}

// regSrc: the registers derived operands are made of — physical registers of the generator's pools (vector registers
// within the range the form can encode).
func (g *c05Gen) regSrc() *c05RegSrc {
	return &c05RegSrc{
		gp: func(size uint) reg.Register {
			for {
				if x := g.gpReg(size); !c05IsHigh(x) {
					return x
				}
			}
		},
		gp8h: func() reg.Register { return pick(g.r, []reg.Register{reg.AH, reg.CH, reg.DH, reg.BH}) },
		vec:  g.vecReg,
		k:    func() reg.Register { return pick(g.r, g.k) },
	}
}

// c05ClassLine is one `opclass` request: the real predicate of operand type t on op.
type c05ClassLine struct{ req, resp string }

// derived instantiates row, brings the operand at a position of type t to a member with every attribute present and
// applies every one-attribute change of the catalogue of t (c05derive.go).  Every member and every changed operand
// is put to the real class predicate (`opclass`, judged exactly by the Lean model); the changed operand lists routed
// "asm" go through the constructor and, when accepted, through the assembler oracle like any other instruction.
func (g *c05Gen) derived(db *formsDB, row *formRow, t string, typeCode map[string]uint8) (cases []*c05Case, lines []c05ClassLine) {
	types, ops, _ := g.sample(row, "form")
	var at []int
	for i, ty := range types {
		if ty == t {
			at = append(at, i)
		}
	}
	if len(at) == 0 {
		return nil, nil
	}
	pos := pick(g.r, at)
	gather := false
	for _, ty := range types {
		if strings.HasPrefix(ty, "vm") {
			gather = true
		}
	}
	good, muts := c05Derive(t, ops[pos], g.regSrc())
	ops[pos] = good
	classLine := func(op operand.Op) string {
		res := "0"
		_, panicked := safely(func() error {
			if x86.VerifMatch(typeCode[t], op) {
				res = "1"
			}
			return nil
		})
		if panicked {
			res = "panic"
		}
		lines = append(lines, c05ClassLine{"opclass " + t + " " + c05EncOp(op), res})
		return res
	}
	if classLine(good) == "1" {
		g.stats["opclass_member"]++
	}
	var sfx []string
	if len(row.Suffixes) > 0 {
		sfx = pick(g.r, row.Suffixes)
	}
	fam := c05Family(t)
	for _, m := range muts {
		g.stats["derived:"+fam+":"+m.what]++
		g.stats["derivedpair:"+t+":"+m.what]++
		if classLine(m.op) == "1" {
			g.stats["opclass_in"]++
		} else {
			g.stats["opclass_out"]++
		}
		if c05DeriveRoute(t, m.what) != "asm" {
			continue
		}
		mut := append([]operand.Op(nil), ops...)
		mut[pos] = m.op
		if gather && !c05DistinctVec(mut) {
			g.stats["derived_skipped_vecdup"]++
			continue
		}
		g.stats["derivedasm:"+t+":"+m.what]++
		if c := g.buildOps(db, row, "nearmiss:"+m.what, sfx, mut); c != nil {
			cases = append(cases, c)
		}
	}
	return cases, lines
}

// c05Build instantiates row with generated operands through the real constructor path.
func (g *c05Gen) build(db *formsDB, row *formRow, stream string) *c05Case {
	types, ops, maskPos := g.sample(row, stream)
	switch stream {
	case "k0mask":
		if maskPos < 0 {
			return nil
		}
	case "hivec":
		// a form without EVEX encoding given a register 16..31
		hi := false
		for _, op := range ops {
			if r, ok := op.(reg.Register); ok && r.Kind() == reg.KindVector && r.(reg.Physical).PhysicalIndex() >= 16 {
				hi = true
			}
			if m, ok := op.(operand.Mem); ok && m.Index != nil && m.Index.Kind() == reg.KindVector && m.Index.(reg.Physical).PhysicalIndex() >= 16 {
				hi = true
			}
		}
		if !hi {
			return nil
		}
	case "sibling":
		// history: first the valid call, then the same call with a same-width NEIGHBOUR of a fixed register
		// (CL -> BL, AX -> DX, X0 -> X3): form selection must not depend on what was built before
		sib := map[string][]operand.Op{
			"al": {reg.CL, reg.BL, reg.R9B}, "cl": {reg.AL, reg.BL, reg.R9B}, "ax": {reg.CX, reg.R10W}, "eax": {reg.ECX, reg.R10L},
			"rax": {reg.RCX, reg.R10}, "xmm0": {reg.X1, reg.X5},
		}
		at := -1
		for i, t := range types {
			if _, ok := sib[t]; ok {
				at = i
			}
		}
		if at < 0 {
			return nil
		}
		var sfx0 []string
		if len(row.Suffixes) > 0 {
			sfx0 = pick(g.r, row.Suffixes)
		}
		safely(func() error { _, e := x86.VerifBuild(c05CallOf[row.Index], sfx0, append([]operand.Op(nil), ops...)); return e })
		ops[at] = pick(g.r, sib[types[at]])
		return g.buildOps(db, row, "nearmiss:fixed-reg-sibling", sfx0, ops)
	case "nearmiss":
		what := g.nearMiss(types, ops)
		if what == "" {
			return nil
		}
		stream += ":" + what
	case "shape":
		what := g.shape(types, ops)
		if what == "" {
			return nil
		}
		stream += ":" + what
	case "malformed":
		what := g.malform(types, ops)
		if what == "" {
			return nil
		}
		stream += ":" + what
	}
	var sfx []string
	if len(row.Suffixes) > 0 {
		sfx = pick(g.r, row.Suffixes)
	}
	return g.buildOps(db, row, stream, sfx, ops)
}

func (g *c05Gen) buildOps(db *formsDB, row *formRow, stream string, sfx []string, ops []operand.Op) *c05Case {
	var inst *ir.Instruction
	call := c05CallOf[row.Index]
	err, panicked := safely(func() error {
		var e error
		inst, e = x86.VerifBuild(call, sfx, ops)
		return e
	})
	key := strings.SplitN(stream, ":", 2)[0]
	if panicked {
		g.stats[key+"_ctor_panic"]++
		return &c05Case{gen: row, call: call, sfx: sfx, ops: ops, stream: stream, status: "panic", errmsg: err.Error()}
	}
	if err != nil || inst == nil {
		g.stats[key+"_ctor_rejected"]++
		if key != stream {
			g.stats["rejected_"+stream]++
		}
		return nil
	}
	g.stats[key+"_ctor_accepted"]++
	if key != stream && !strings.HasPrefix(stream, "scripted:") {
		g.stats["accepted_"+stream]++
	}
	c := &c05Case{gen: row, call: call, sfx: sfx, ops: ops, inst: inst, stream: stream}
	c.form = c05MatchedForm(db, call, sfx, ops)
	for _, op := range ops {
		if l, ok := op.(operand.LabelRef); ok {
			c.label = string(l)
		}
	}
	// the block gets a second, longer opcode for a quarter of the label-free cases with operands
	// (decided from the operands, not from the random stream: replay rebuilds the same case)
	if c.label == "" && len(ops) > 0 && c05Hash(c05Describe(c))%4 == 0 && call != "PREFETCHNTA" {
		c.tail = true
	}
	return c
}

func c05Hash(s string) uint32 {
	h := uint32(2166136261)
	for i := 0; i < len(s); i++ {
		h = (h ^ uint32(s[i])) * 16777619
	}
	return h
}
