package main

import (
	"fmt"
	"reflect"
	"sort"
	"strings"

	"github.com/mmcloughlin/avo/attr"
	"github.com/mmcloughlin/avo/build"
	"github.com/mmcloughlin/avo/ir"
	"github.com/mmcloughlin/avo/operand"
	"github.com/mmcloughlin/avo/pass"
	"github.com/mmcloughlin/avo/printer"
	"github.com/mmcloughlin/avo/reg"
)

// ---------------------------------------------------------------------------------------------
// C17, history in the process.  "Independent of previous generations in the process" is about
// state that outlives a generation: package-level variables, caches, shared backing arrays.  The
// pipeline itself never leaves such state behind in a way a second pipeline run would notice, so
// repeating pipeline runs cannot see it.  This file makes the process DIRTY in generated ways
// through the public API of pass / reg / build / printer between the compared generations:
//
//   c17Dirty          one batch: throw-away allocators (NewAllocatorForKind / NewAllocator on a
//                     caller-chosen register list) with random SetPriority / Add / AddInterference /
//                     Allocate; Collections; every niladic exported method returning a slice or a map
//                     (found by reflection: on the register families and on a compiled throw-away
//                     file, its functions, instructions, signature …) called and the returned slice /
//                     map reversed, overwritten or cleared by the caller; printers with another
//                     Config on another file; the real package-level build context used
//   c17Probe          the register assignment of the clique program of one kind on a new allocator:
//                     the order in which a new allocator hands out registers (`accept-order`)
//   c17History        a generated history over several allocators (`allochist`, compared exactly
//                     with the model of a process in Model/AllocHist.lean)
// ---------------------------------------------------------------------------------------------

// c17LastFile is the file of the last build-level compilation (a throw-away object for c17Dirty).
var c17LastFile *ir.File

var c17dirtySeq int

func c17vid(kind, idx int) reg.ID { return reg.ID(1 | kind<<8 | idx<<16) }

// c17FamilyIDs: the distinct ids of the non-restricted registers of a kind, in the order of Registers().
func c17FamilyIDs(k reg.Kind) (ids []reg.ID) {
	safely(func() error {
		f := reg.FamilyOfKind(k)
		if f == nil {
			return nil
		}
		seen := map[reg.ID]bool{}
		for _, r := range f.Registers() {
			if r == nil || r.Info()&reg.Restricted != 0 || seen[r.ID()] {
				continue
			}
			seen[r.ID()] = true
			ids = append(ids, r.ID())
		}
		return nil
	})
	return ids
}

// c17Probe compiles the clique program of kind k (as many virtual registers as the kind has allocatable
// ones, all interfering, no priorities set) on a new allocator and returns the physical register of each
// virtual in the order of the virtual ids.  By the allocation rule (most restricted first, ties to the
// smallest id, first candidate) this is the order in which the new allocator hands out its registers.
func c17Probe(k reg.Kind) (order []string) {
	_, panicked := safely(func() error {
		a, err := pass.NewAllocatorForKind(k)
		if err != nil {
			order = []string{"err"}
			return nil
		}
		n := len(c17FamilyIDs(k))
		vs := make([]reg.ID, n)
		for i := range vs {
			vs[i] = c17vid(int(k), i)
			a.Add(vs[i])
		}
		for i := 0; i < n; i++ {
			for j := i + 1; j < n; j++ {
				a.AddInterference(vs[i], vs[j])
			}
		}
		al, err := a.Allocate()
		if err != nil {
			order = []string{"err"}
			return nil
		}
		for _, v := range vs {
			order = append(order, fmt.Sprint(uint32(al[v])))
		}
		return nil
	})
	if panicked {
		return []string{"panic"}
	}
	return order
}

var c17ProbeKinds = []reg.Kind{reg.KindGP, reg.KindVector, reg.KindOpmask}

// ---- dirtying -----------------------------------------------------------------------------------

// c17DirtyAllocator plays with a throw-away allocator of a random kind.
func c17DirtyAllocator(r *rng, st map[string]int) {
	k := pick(r, c17ProbeKinds)
	ids := c17FamilyIDs(k)
	safely(func() error {
		var a *pass.Allocator
		var err error
		if r.chance(1, 4) {
			// a caller-chosen list: a shuffled, possibly repeated part of the family
			rs := reg.FamilyOfKind(k).Registers()
			for i := len(rs) - 1; i > 0; i-- {
				j := r.intn(i + 1)
				rs[i], rs[j] = rs[j], rs[i]
			}
			rs = rs[:1+r.intn(len(rs))]
			a, err = pass.NewAllocator(rs)
			st["dirty_newallocator_list"]++
		} else {
			a, err = pass.NewAllocatorForKind(k)
		}
		if err != nil {
			return nil
		}
		st["dirty_allocators"]++
		np := r.intn(5)
		if r.chance(1, 3) {
			np = len(ids) // a complete re-ranking
		}
		for i := 0; i < np; i++ {
			p := r.rangeIn(-3, 3)
			if p == 0 {
				p = 1 + r.intn(5)
			}
			a.SetPriority(pick(r, ids), p)
			st[fmt.Sprintf("dirty_setpriority_k%d", k)]++
		}
		nv := r.intn(7)
		for i := 0; i < nv; i++ {
			a.Add(c17vid(int(k), r.intn(8)))
		}
		ne := r.intn(8)
		for i := 0; i < ne; i++ {
			x := c17vid(int(k), r.intn(8))
			y := c17vid(int(k), r.intn(8))
			if r.chance(1, 4) {
				y = pick(r, ids)
			}
			a.AddInterference(x, y)
		}
		if _, err := a.Allocate(); err == nil {
			st["dirty_allocate_ok"]++
		} else {
			st["dirty_allocate_err"]++
		}
		return nil
	})
}

// c17MutateValue changes, in place, a slice or map the caller received from an accessor.
func c17MutateValue(r *rng, v reflect.Value, st map[string]int) {
	switch v.Kind() {
	case reflect.Slice:
		n := v.Len()
		if n == 0 || !v.Index(0).CanSet() {
			return
		}
		switch r.intn(3) {
		case 0: // reverse
			for i, j := 0, n-1; i < j; i, j = i+1, j-1 {
				a, b := reflect.New(v.Type().Elem()).Elem(), reflect.New(v.Type().Elem()).Elem()
				a.Set(v.Index(i))
				b.Set(v.Index(j))
				v.Index(i).Set(b)
				v.Index(j).Set(a)
			}
		case 1: // overwrite with the last element
			last := reflect.New(v.Type().Elem()).Elem()
			last.Set(v.Index(n - 1))
			for i := 0; i < n; i++ {
				v.Index(i).Set(last)
			}
		default: // clear, and write beyond the length where the capacity allows
			z := reflect.Zero(v.Type().Elem())
			w := v.Slice(0, v.Cap())
			for i := 0; i < w.Len(); i++ {
				w.Index(i).Set(z)
			}
		}
		st["dirty_accessor_slices_mutated"]++
	case reflect.Map:
		if v.IsNil() {
			return
		}
		for _, k := range v.MapKeys() {
			if r.chance(1, 2) {
				v.SetMapIndex(k, reflect.Value{})
			} else {
				v.SetMapIndex(k, reflect.Zero(v.Type().Elem()))
			}
		}
		st["dirty_accessor_maps_mutated"]++
	}
}

func c17AvoType(t reflect.Type) bool {
	for t.Kind() == reflect.Pointer || t.Kind() == reflect.Slice {
		t = t.Elem()
	}
	return strings.HasPrefix(t.PkgPath(), "github.com/mmcloughlin/avo")
}

// c17MutateAccessors calls every exported method without parameters of root whose results include a slice or a
// map, lets the caller-side mutation loose on what it returns, and goes on with the elements (depth-limited).
func c17MutateAccessors(r *rng, root reflect.Value, depth int, st map[string]int, methods map[string]bool, budget *int) {
	if !root.IsValid() || *budget <= 0 {
		return
	}
	if (root.Kind() == reflect.Pointer || root.Kind() == reflect.Interface) && root.IsNil() {
		return
	}
	if root.Kind() == reflect.Interface {
		root = root.Elem()
	}
	t := root.Type()
	if !c17AvoType(t) {
		return
	}
	for m := 0; m < t.NumMethod(); m++ {
		mt := t.Method(m)
		if mt.Type.NumIn() != 1 || mt.Type.IsVariadic() {
			continue
		}
		has := false
		for o := 0; o < mt.Type.NumOut(); o++ {
			if k := mt.Type.Out(o).Kind(); k == reflect.Slice || k == reflect.Map {
				has = true
			}
		}
		if !has {
			continue
		}
		*budget--
		var outs []reflect.Value
		if _, panicked := safely(func() error { outs = root.Method(m).Call(nil); return nil }); panicked {
			st["dirty_accessor_panics"]++
			continue
		}
		name := t.String() + "." + mt.Name
		methods[name] = true
		st["dirty_accessor_calls"]++
		for _, o := range outs {
			if o.Kind() != reflect.Slice && o.Kind() != reflect.Map {
				continue
			}
			// the elements first (they are still what the object holds), then the mutation
			if depth > 0 && o.Kind() == reflect.Slice && c17AvoType(o.Type().Elem()) {
				for i := 0; i < o.Len() && i < 3; i++ {
					e := o.Index(r.intn(o.Len()))
					switch e.Kind() {
					case reflect.Pointer, reflect.Interface:
						c17MutateAccessors(r, e, depth-1, st, methods, budget)
					case reflect.Struct:
						if e.CanAddr() {
							c17MutateAccessors(r, e.Addr(), depth-1, st, methods, budget)
						}
					}
				}
			}
			safely(func() error { c17MutateValue(r, o, st); return nil })
		}
	}
}

var c17DirtyMethods = map[string]bool{}

// c17Dirty is one batch of unrelated earlier work in the process.
func c17Dirty(r *rng, st map[string]int) {
	// never let a damaged process kill the harness: the damage shows in the compared generations
	if _, panicked := safely(func() error { c17DirtyBatch(r, st); return nil }); panicked {
		st["dirty_batch_panics"]++
	}
}

func c17DirtyBatch(r *rng, st map[string]int) {
	st["dirty_batches"]++
	na := 1 + r.intn(3)
	for i := 0; i < na; i++ {
		c17DirtyAllocator(r, st)
	}
	if r.chance(1, 2) {
		// the accessors of the register families (package-level objects)
		budget := 16
		for _, f := range reg.Families {
			n := st["dirty_accessor_calls"]
			c17MutateAccessors(r, reflect.ValueOf(f), 1, st, c17DirtyMethods, &budget)
			st["dirty_family_accessor_calls"] += st["dirty_accessor_calls"] - n
		}
	}
	if r.chance(1, 3) && c17LastFile != nil {
		// the accessors of a compiled throw-away file and of what they return
		file := c17LastFile
		c17LastFile = nil
		budget := 40
		safely(func() error {
			for _, fn := range file.Functions() {
				if fn.Signature != nil {
					c17MutateAccessors(r, reflect.ValueOf(fn.Signature), 2, st, c17DirtyMethods, &budget)
				}
			}
			c17MutateAccessors(r, reflect.ValueOf(file), 3, st, c17DirtyMethods, &budget)
			return nil
		})
		// … and both printers on it, with another configuration
		safely(func() error {
			cfg := printer.Config{Name: "other", Pkg: "q", Argv: []string{"other", "-x"}}
			printer.NewGoAsm(cfg).Print(file)
			printer.NewStubs(cfg).Print(file)
			st["dirty_printer_runs"]++
			return nil
		})
	}
	if r.chance(1, 3) {
		c := reg.NewCollection()
		n := 1 + r.intn(20)
		for i := 0; i < n; i++ {
			switch r.intn(6) {
			case 0:
				c.GP64()
			case 1:
				c.GP8L()
			case 2:
				c.XMM()
			case 3:
				c.YMM()
			case 4:
				c.ZMM()
			default:
				c.K()
			}
		}
		st["dirty_collections"]++
	}
	if r.chance(1, 4) {
		// the real package-level context (never generated from): its state is its own
		safely(func() error {
			c17dirtySeq++
			build.TEXT(fmt.Sprintf("dirty%d", c17dirtySeq), attr.NOSPLIT, "func(x uint64) uint64")
			a, b := build.GP64(), build.GP64()
			build.Load(build.Param("x"), a)
			build.MOVQ(operand.U32(uint32(r.intn(100))), b)
			build.ADDQ(a, b)
			x := build.XMM()
			build.PXOR(x, x)
			build.Store(b, build.ReturnIndex(0))
			build.RET()
			st["dirty_globalctx_functions"]++
			return nil
		})
	}
}

// ---- generated histories over several allocators ------------------------------------------------

// c17History generates a history of public allocator calls over several allocators, plays it on the real
// code and returns the request tokens and the implementation's answers.  Request:
//
//	allochist n op…       N k               h := NewAllocatorForKind(k)            → hN | err
//	                      F m (id info)*    h := NewAllocator(those registers)      → hN | err
//	                      P h id p          h.SetPriority(id, p)
//	                      A h v             h.Add(v)
//	                      E h x y           h.AddInterference(x, y)
//	                      L h               h.Allocate()                            → ok m (v p)* | err
//
// Handles number the successfully created allocators; a handle is not used after its L.
func c17History(r *rng, st map[string]int) (req string, resp string) {
	var toks, answers []string
	type live struct {
		a    *pass.Allocator
		kind int
		dead bool
		prio bool
	}
	var hs []*live
	nops := 0
	emit := func(op string) { toks = append(toks, op); nops++ }
	newAlloc := func() {
		kind := []int{1, 1, 2, 2, 2, 3, 3, 0, 4}[r.intn(9)]
		// the pattern of interest: a priority was set on an earlier allocator of the same kind
		for _, h := range hs {
			if h.kind == kind && h.prio {
				st["hist_new_after_prio_same_kind"]++
				break
			}
		}
		var a *pass.Allocator
		var err error
		var panicked bool
		if f := reg.FamilyOfKind(reg.Kind(kind)); f != nil && r.chance(1, 4) {
			rs := f.Registers()
			for i := len(rs) - 1; i > 0; i-- {
				j := r.intn(i + 1)
				rs[i], rs[j] = rs[j], rs[i]
			}
			rs = rs[:r.intn(len(rs)+1)]
			op := fmt.Sprintf("F %d", len(rs))
			for _, p := range rs {
				op += fmt.Sprintf(" %d %d", uint32(p.ID()), int(p.Info()))
			}
			emit(op)
			_, panicked = safely(func() error { a, err = pass.NewAllocator(rs); return nil })
		} else {
			emit(fmt.Sprintf("N %d", kind))
			_, panicked = safely(func() error { a, err = pass.NewAllocatorForKind(reg.Kind(kind)); return nil })
		}
		switch {
		case panicked:
			answers = append(answers, "panic")
		case err != nil || a == nil:
			answers = append(answers, "err")
		default:
			answers = append(answers, fmt.Sprintf("h%d", len(hs)))
			hs = append(hs, &live{a: a, kind: kind})
		}
	}
	pickLive := func() (int, *live) {
		var idx []int
		for i, h := range hs {
			if !h.dead {
				idx = append(idx, i)
			}
		}
		if len(idx) == 0 {
			return -1, nil
		}
		i := pick(r, idx)
		return i, hs[i]
	}
	anyID := func(h *live) reg.ID {
		ids := c17FamilyIDs(reg.Kind(h.kind))
		switch {
		case len(ids) > 0 && r.chance(3, 5):
			return pick(r, ids)
		case r.chance(1, 6): // another kind
			return c17vid(1+r.intn(3), r.intn(4))
		case r.chance(1, 8): // a physical register of another kind / an id without a register
			return reg.ID(uint32(r.intn(4))<<8 | uint32(r.intn(40))<<16)
		}
		return c17vid(h.kind, r.intn(6))
	}
	allocate := func(i int, h *live) {
		emit(fmt.Sprintf("L %d", i))
		h.dead = true
		var al reg.Allocation
		var err error
		if _, panicked := safely(func() error { al, err = h.a.Allocate(); return nil }); panicked {
			answers = append(answers, "panic")
			return
		}
		if err != nil {
			answers = append(answers, "err")
			return
		}
		ks := make([]int, 0, len(al))
		for v := range al {
			ks = append(ks, int(v))
		}
		sort.Ints(ks)
		s := fmt.Sprintf("ok %d", len(ks))
		for _, v := range ks {
			s += fmt.Sprintf(" %d %d", v, uint32(al[reg.ID(v)]))
		}
		answers = append(answers, s)
		st["hist_allocate_ok"]++
	}
	newAlloc()
	n := 4 + r.intn(40)
	for step := 0; step < n; step++ {
		i, h := pickLive()
		switch c := r.intn(20); {
		case c < 3 || h == nil:
			if len(hs) < 6 {
				newAlloc()
			}
		case c < 7:
			ids := c17FamilyIDs(reg.Kind(h.kind))
			id := anyID(h)
			if len(ids) > 0 && r.chance(4, 5) {
				id = pick(r, ids)
			}
			p := r.rangeIn(-3, 3)
			emit(fmt.Sprintf("P %d %d %d", i, uint32(id), p))
			safely(func() error { h.a.SetPriority(id, p); return nil })
			h.prio = true
			st["hist_setpriority"]++
		case c < 11:
			v := c17vid(h.kind, r.intn(6))
			if r.chance(1, 10) {
				v = anyID(h)
			}
			emit(fmt.Sprintf("A %d %d", i, uint32(v)))
			safely(func() error { h.a.Add(v); return nil })
		case c < 18:
			x, y := c17vid(h.kind, r.intn(6)), c17vid(h.kind, r.intn(6))
			if r.chance(1, 4) {
				y = anyID(h)
			}
			if r.chance(1, 12) {
				x = anyID(h)
			}
			emit(fmt.Sprintf("E %d %d %d", i, uint32(x), uint32(y)))
			safely(func() error { h.a.AddInterference(x, y); return nil })
		default:
			allocate(i, h)
		}
	}
	for i, h := range hs {
		if !h.dead {
			allocate(i, h)
		}
	}
	st["hist_ops"] += nops
	if len(hs) >= 2 {
		st["hist_ge2_allocators"]++
	}
	return fmt.Sprintf("allochist %d %s", nops, strings.Join(toks, " ")), strings.Join(answers, " ; ")
}

// c17ReplayHistory plays the ops of a recorded `allochist` request on the real code.
func c17ReplayHistory(t []string) (string, error) {
	var answers []string
	var hs []*pass.Allocator
	num := func(s string) (int, error) {
		var v int
		_, err := fmt.Sscanf(s, "%d", &v)
		return v, err
	}
	need := func(i, k int) error {
		if i+k > len(t) {
			return fmt.Errorf("allochist: truncated request")
		}
		return nil
	}
	// an operation on a handle that does not exist (the creation failed here) answers "bad-handle", as the model does
	handle := func(s string) (*pass.Allocator, error) {
		h, err := num(s)
		if err != nil || h < 0 {
			return nil, fmt.Errorf("allochist: bad handle %q", s)
		}
		if h >= len(hs) {
			answers = append(answers, "bad-handle")
			return nil, nil
		}
		return hs[h], nil
	}
	created := func(a *pass.Allocator, err error, panicked bool) {
		switch {
		case panicked:
			answers = append(answers, "panic")
		case err != nil || a == nil:
			answers = append(answers, "err")
		default:
			answers = append(answers, fmt.Sprintf("h%d", len(hs)))
			hs = append(hs, a)
		}
	}
	for i := 2; i < len(t); {
		switch t[i] {
		case "N":
			if err := need(i, 2); err != nil {
				return "", err
			}
			k, err := num(t[i+1])
			if err != nil {
				return "", err
			}
			var a *pass.Allocator
			var e error
			_, p := safely(func() error { a, e = pass.NewAllocatorForKind(reg.Kind(k)); return nil })
			created(a, e, p)
			i += 2
		case "F":
			if err := need(i, 2); err != nil {
				return "", err
			}
			m, err := num(t[i+1])
			if err != nil || need(i, 2+2*m) != nil {
				return "", fmt.Errorf("allochist: bad F")
			}
			var rs []reg.Physical
			for j := 0; j < m; j++ {
				id, _ := num(t[i+2+2*j])
				info, _ := num(t[i+3+2*j])
				var found reg.Physical
				for _, f := range reg.Families {
					for _, p := range f.Registers() {
						if found == nil && int(p.ID()) == id && int(p.Info()) == info {
							found = p
						}
					}
				}
				if found == nil {
					return "", fmt.Errorf("allochist: no physical register with id %d info %d", id, info)
				}
				rs = append(rs, found)
			}
			var a *pass.Allocator
			var e error
			_, p := safely(func() error { a, e = pass.NewAllocator(rs); return nil })
			created(a, e, p)
			i += 2 + 2*m
		case "P":
			if err := need(i, 4); err != nil {
				return "", err
			}
			a, err := handle(t[i+1])
			if err != nil {
				return "", err
			}
			id, _ := num(t[i+2])
			p, _ := num(t[i+3])
			if a != nil {
				safely(func() error { a.SetPriority(reg.ID(id), p); return nil })
			}
			i += 4
		case "A":
			if err := need(i, 3); err != nil {
				return "", err
			}
			a, err := handle(t[i+1])
			if err != nil {
				return "", err
			}
			v, _ := num(t[i+2])
			if a != nil {
				safely(func() error { a.Add(reg.ID(v)); return nil })
			}
			i += 3
		case "E":
			if err := need(i, 4); err != nil {
				return "", err
			}
			a, err := handle(t[i+1])
			if err != nil {
				return "", err
			}
			x, _ := num(t[i+2])
			y, _ := num(t[i+3])
			if a != nil {
				safely(func() error { a.AddInterference(reg.ID(x), reg.ID(y)); return nil })
			}
			i += 4
		case "L":
			if err := need(i, 2); err != nil {
				return "", err
			}
			a, err := handle(t[i+1])
			if err != nil {
				return "", err
			}
			if a == nil {
				i += 2
				continue
			}
			var al reg.Allocation
			var e error
			_, panicked := safely(func() error { al, e = a.Allocate(); return nil })
			switch {
			case panicked:
				answers = append(answers, "panic")
			case e != nil:
				answers = append(answers, "err")
			default:
				ks := make([]int, 0, len(al))
				for v := range al {
					ks = append(ks, int(v))
				}
				sort.Ints(ks)
				s := fmt.Sprintf("ok %d", len(ks))
				for _, v := range ks {
					s += fmt.Sprintf(" %d %d", v, uint32(al[reg.ID(v)]))
				}
				answers = append(answers, s)
			}
			i += 2
		default:
			return "", fmt.Errorf("allochist: unknown op %q", t[i])
		}
	}
	return strings.Join(answers, " ; "), nil
}
